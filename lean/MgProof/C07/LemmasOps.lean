import MgProof.C07.Lemmas
namespace MgProof.C07
open MgModel.C07

theorem advanceW_plain {s : BB} {n : Int} (h1 : ¬ s.t < s.w + n) (h2 : s.w + n ≠ s.c) :
    advanceW s n = { s with w := s.w + n } := by
  simp [advanceW, h1, h2]

theorem advanceW_wrap0 {s : BB} {n : Int} (h1 : ¬ s.t < s.w + n) (h2 : s.w + n = s.c) :
    advanceW s n = { s with w := 0 } := by
  have h1' : ¬ s.t < s.c := by rw [← h2]; exact h1
  simp [advanceW, h2, h1']

macro "arith" : tactic => `(tactic| first | omega | (simp <;> omega))

/-- advance in the contiguous layout: a (possibly stale) mark that the writer passes is reset -/
theorem advanceW_flat {s : BB} {n : Int} (h2 : s.w + n ≠ s.c) :
    advanceW s n = { s with w := s.w + n, t := if s.t < s.w + n then s.c else s.t } := by
  unfold advanceW
  by_cases h : s.t < s.w + n <;> simp [h, h2]

theorem advanceW_flat0 {s : BB} {n : Int} (ht : s.t ≤ s.c) (h2 : s.w + n = s.c) :
    advanceW s n = { s with w := 0, t := s.c } := by
  unfold advanceW
  by_cases h : s.t < s.c
  · simp [h, h2]
  · have : s.t = s.c := by omega
    simp [h2, this]

/-- the three layouts of the header comment -/
theorem layout (s : BB) : (s.r ≤ s.w ∧ s.r ≠ 0) ∨ (s.r ≤ s.w ∧ s.r = 0) ∨ s.w < s.r := by omega

/-- appending `src` at `w` extends the slice `[r, w)` to `[r, w + |src|)` -/
theorem isl_store_extend {b : List Byte} {r w l : Int} {src : List Byte} (hr : 0 ≤ r) (hrw : r ≤ w)
    (h : w + src.length ≤ b.length) (hl : l = w + src.length - r) :
    slice (store b w.toNat src) r.toNat l.toNat = slice b r.toNat (w - r).toNat ++ src := by
  subst hl
  rw [isl_split (w - r) hr (by omega) (by omega)]
  rw [isl_store_before hr (by omega) (by omega) (by omega)]
  have e1 : r + (w - r) = w := by omega
  have e2 : w + ↑src.length - r - (w - r) = (src.length : Int) := by omega
  rw [e1, e2, isl_store_same (by omega) h]

/-- the same for the prefix `[0, w)` -/
theorem isl_store_extend0 {b : List Byte} {w l : Int} {src : List Byte} (hw : 0 ≤ w)
    (h : w + src.length ≤ b.length) (hl : l = w + src.length) :
    slice (store b w.toNat src) 0 l.toNat = slice b 0 w.toNat ++ src := by
  have := isl_store_extend (b := b) (r := 0) (w := w) (l := l) (src := src) (by omega) hw h (by omega)
  simpa using this

theorem wr_ok0 {s : BB} {src : List Byte} (h : (src.length : Int) ≤ s.buf.length) :
    wr s 0 src = .ok { s with buf := store s.buf 0 src } := by
  have := wr_ok (s := s) (off := 0) (src := src) (by omega) (by omega)
  simpa using this

theorem store0_length {b : List Byte} {src : List Byte} (h : (src.length : Int) ≤ b.length) :
    (store b 0 src).length = b.length := store_length _ _ _ (by omega)

theorem isl_store0_same {b : List Byte} {l : Int} {src : List Byte}
    (h : (src.length : Int) ≤ b.length) (hl : l = src.length) :
    slice (store b 0 src) 0 l.toNat = src := by
  subst hl
  have := isl_store_same (b := b) (off := 0) (src := src) (by omega) (by omega)
  simpa using this

theorem isl_store0_after {b : List Byte} {o n : Int} {src : List Byte}
    (h : (src.length : Int) ≤ o) (h2 : (src.length : Int) ≤ b.length) :
    slice (store b 0 src) o.toNat n.toNat = slice b o.toNat n.toNat :=
  slice_store_after _ _ _ _ _ (by omega) (by omega)

theorem write_spec {s : BB} (inv : Inv s) (src : List Byte) :
    ∃ s' b, write s src = .ok (s', b) ∧ Inv s' ∧ s'.c = s.c ∧
      (b = true ↔ (src.length : Int) ≤ writable s) ∧
      (b = true → abs s' = abs s ++ src) ∧ (b = false → s' = s) := by
  obtain ⟨cpos, len, w0, r0, wc, t0, tc, wrap⟩ := inv
  rcases layout s with ⟨hl, hr⟩ | ⟨hl, hr⟩ | hl
  · -- w ≥ r, r ≠ 0
    have hcw : contiguousWritable s = s.c - s.w := by simp [contiguousWritable, hl, hr]
    have hjw : jumpWritable s = s.r - 1 := by simp [jumpWritable, hl, hr]
    unfold write
    simp only [hcw, hjw, writable]
    by_cases h1 : s.c - s.w ≥ (src.length : Int)
    · rw [if_pos h1, wr_ok w0 (by omega)]
      have hlen' := istore_length (b := s.buf) (src := src) w0 (by omega)
      simp only [bind, Except.bind, pure, Except.pure]
      by_cases h2 : s.w + src.length = s.c
      · rw [advanceW_flat0 (by exact tc) (by simpa using h2)]
        refine ⟨_, _, rfl, ?_, rfl, ?_, ?_, ?_⟩
        · constructor <;> simp <;> omega
        · simp <;> omega
        · intro _
          rw [abs_wrap (by arith), abs_flat hl]
          simp only [Int.toNat_zero, slice_zero, List.append_nil]
          exact isl_store_extend r0 hl (by omega) (by omega)
        · simp
      · rw [advanceW_flat (by simpa using h2)]
        refine ⟨_, _, rfl, ?_, rfl, ?_, ?_, ?_⟩
        · constructor <;> simp <;> omega
        · simp <;> omega
        · intro _
          rw [abs_flat (by arith), abs_flat hl]
          exact isl_store_extend r0 hl (by omega) (by arith)
        · simp
    · rw [if_neg h1]
      by_cases h2 : s.c - s.w + (s.r - 1) < (src.length : Int)
      · rw [if_pos h2]
        refine ⟨_, _, rfl, ⟨cpos, len, w0, r0, wc, t0, tc, wrap⟩, rfl, ?_, ?_, ?_⟩
        · simp <;> omega
        · simp
        · simp
      · rw [if_neg h2]
        by_cases h3 : s.r - 1 ≥ (src.length : Int)
        · rw [if_pos h3, wr_ok0 (by arith)]
          simp only [bind, Except.bind, pure, Except.pure]
          have hlen' := store0_length (b := s.buf) (src := src) (by omega)
          refine ⟨_, _, rfl, ?_, rfl, ?_, ?_, ?_⟩
          · constructor <;> simp <;> omega
          · simp <;> omega
          · intro _
            rw [abs_wrap (by arith), abs_flat hl]
            simp only
            rw [isl_store0_after (by omega) (by omega)]
            rw [isl_store0_same (by omega) rfl]
          · simp
        · rw [if_neg h3]
          have hcw0 : s.c - s.w > 0 := by omega
          rw [if_pos hcw0]
          have hlt : (((src.take (s.c - s.w).toNat).length : Nat) : Int) = s.c - s.w := by
            rw [List.length_take]; omega
          have hld : (((src.drop (s.c - s.w).toNat).length : Nat) : Int) = src.length - (s.c - s.w) := by
            rw [List.length_drop]; omega
          rw [wr_ok (by arith) (by arith)]
          simp only [bind, Except.bind, pure, Except.pure]
          have hlen1 := istore_length (b := s.buf) (src := src.take (s.c - s.w).toNat) w0 (by omega)
          rw [wr_ok0 (by arith)]
          have hlen2 := store0_length (b := store s.buf s.w.toNat (src.take (s.c - s.w).toNat))
            (src := src.drop (s.c - s.w).toNat) (by omega)
          refine ⟨_, _, rfl, ?_, rfl, ?_, ?_, ?_⟩
          · constructor <;> simp <;> omega
          · simp <;> omega
          · intro _
            rw [abs_wrap (by arith), abs_flat hl]
            simp only
            rw [isl_store0_after (by omega) (by omega)]
            rw [isl_store_extend r0 hl (by omega) (by omega)]
            rw [isl_store0_same (by omega) (by omega)]
            rw [List.append_assoc, List.take_append_drop]
          · simp
  · -- w ≥ r, r = 0
    have hcw : contiguousWritable s = s.c - s.w - 1 := by simp [contiguousWritable, hr] <;> omega
    have hjw : jumpWritable s = 0 := by simp [jumpWritable, hr]
    unfold write
    simp only [hcw, hjw, writable]
    by_cases h1 : s.c - s.w - 1 ≥ (src.length : Int)
    · rw [if_pos h1, wr_ok w0 (by omega)]
      have hlen' := istore_length (b := s.buf) (src := src) w0 (by omega)
      simp only [bind, Except.bind, pure, Except.pure]
      rw [advanceW_flat (by arith)]
      refine ⟨_, _, rfl, ?_, rfl, ?_, ?_, ?_⟩
      · constructor <;> simp <;> omega
      · simp <;> omega
      · intro _
        rw [abs_flat (by arith), abs_flat hl]
        exact isl_store_extend r0 hl (by omega) (by arith)
      · simp
    · rw [if_neg h1, if_pos (by omega)]
      refine ⟨_, _, rfl, ⟨cpos, len, w0, r0, wc, t0, tc, wrap⟩, rfl, ?_, ?_, ?_⟩
      · simp <;> omega
      · simp
      · simp
  · -- r > w
    have ht := wrap hl
    have hnl : ¬ s.w ≥ s.r := by omega
    have hcw : contiguousWritable s = s.r - s.w - 1 := by simp [contiguousWritable, hnl]
    have hjw : jumpWritable s = 0 := by simp [jumpWritable, hnl]
    unfold write
    simp only [hcw, hjw, writable]
    by_cases h1 : s.r - s.w - 1 ≥ (src.length : Int)
    · rw [if_pos h1, wr_ok w0 (by omega)]
      have hlen' := istore_length (b := s.buf) (src := src) w0 (by omega)
      simp only [bind, Except.bind, pure, Except.pure]
      rw [advanceW_plain (by arith) (by arith)]
      refine ⟨_, _, rfl, ?_, rfl, ?_, ?_, ?_⟩
      · constructor <;> simp <;> omega
      · simp <;> omega
      · intro _
        rw [abs_wrap (by arith), abs_wrap hl]
        simp only
        rw [isl_store_after w0 (by omega) (by omega)]
        rw [isl_store_extend0 w0 (by omega) rfl, List.append_assoc]
      · simp
    · rw [if_neg h1, if_pos (by omega)]
      refine ⟨_, _, rfl, ⟨cpos, len, w0, r0, wc, t0, tc, wrap⟩, rfl, ?_, ?_, ?_⟩
      · simp <;> omega
      · simp
      · simp
theorem isl_drop' {b : List Byte} {o n k l : Int} (ho : 0 ≤ o) (hk : 0 ≤ k) (hl : l = n - k) :
    (slice b o.toNat n.toNat).drop k.toNat = slice b (o + k).toNat l.toNat := by
  subst hl; exact isl_drop ho hk

theorem take_wrap_le {b B : List Byte} {r t n : Int} (hr : 0 ≤ r) (hn : 0 ≤ n) (h : n ≤ t - r)
    (hb : t ≤ b.length) :
    (slice b r.toNat (t - r).toNat ++ B).take n.toNat = slice b r.toNat n.toNat := by
  have hlen := isl_length (b := b) (o := r) (n := t - r) hr (by omega) (by omega)
  rw [List.take_append_of_le_length (by omega), isl_take hn h]

theorem drop_wrap_le {b B : List Byte} {r t n l : Int} (hr : 0 ≤ r) (hn : 0 ≤ n) (h : n ≤ t - r)
    (hb : t ≤ b.length) (hl : l = t - r - n) :
    (slice b r.toNat (t - r).toNat ++ B).drop n.toNat = slice b (r + n).toNat l.toNat ++ B := by
  have hlen := isl_length (b := b) (o := r) (n := t - r) hr (by omega) (by omega)
  rw [List.drop_append_of_le_length (by omega), isl_drop' hr hn hl]

theorem take_wrap_gt {b : List Byte} {r t w n m : Int} (hr : 0 ≤ r) (hrt : r ≤ t) (h : t - r ≤ n)
    (hb : t ≤ b.length) (hm : m = n - (t - r)) (hmw : m ≤ w) :
    (slice b r.toNat (t - r).toNat ++ slice b 0 w.toNat).take n.toNat =
      slice b r.toNat (t - r).toNat ++ slice b 0 m.toNat := by
  have hlen := isl_length (b := b) (o := r) (n := t - r) hr (by omega) (by omega)
  rw [List.take_append, List.take_of_length_le (by omega)]
  have e : n.toNat - (slice b r.toNat (t - r).toNat).length = m.toNat := by omega
  rw [e, slice_take _ _ _ _ (by omega)]

theorem drop_wrap_gt {b : List Byte} {r t w n m l : Int} (hr : 0 ≤ r) (hrt : r ≤ t) (h : t - r ≤ n)
    (hb : t ≤ b.length) (hm : m = n - (t - r)) (hl : l = w - m) :
    (slice b r.toNat (t - r).toNat ++ slice b 0 w.toNat).drop n.toNat = slice b m.toNat l.toNat := by
  have hlen := isl_length (b := b) (o := r) (n := t - r) hr (by omega) (by omega)
  rw [List.drop_append, List.drop_of_length_le (by omega)]
  have e : n.toNat - (slice b r.toNat (t - r).toNat).length = m.toNat := by omega
  rw [e, slice_drop, List.nil_append]
  congr 1 <;> omega

theorem refresh_eq {s : BB} (h : s.w = s.r) : refresh s = clear s := by simp [refresh, h]
theorem refresh_ne {s : BB} (h : s.w ≠ s.r) : refresh s = s := by simp [refresh, h]

theorem abs_length {s : BB} (inv : Inv s) : ((abs s).length : Int) = readable s := by
  obtain ⟨cpos, len, w0, r0, wc, t0, tc, wrap⟩ := inv
  by_cases hl : s.r ≤ s.w
  · rw [abs_flat hl, isl_length r0 (by omega) (by omega)]
    simp [readable, contiguousReadable, jumpReadable, hl]
  · have ht := wrap (by omega)
    have hnl : ¬ s.w ≥ s.r := by omega
    rw [abs_wrap (by omega), List.length_append]
    have h1 := isl_length (b := s.buf) (o := s.r) (n := s.t - s.r) r0 (by omega) (by omega)
    have h2 := slice_length s.buf 0 s.w.toNat (by omega)
    simp only [readable, contiguousReadable, jumpReadable, hnl, if_false]
    omega

theorem copySplit_ok {s : BB} {cr rem : Int} (hr : 0 ≤ s.r) (hcr : 0 ≤ cr) (hrem : 0 ≤ rem)
    (h1 : s.r + cr ≤ s.buf.length) (h2 : rem ≤ s.buf.length) :
    copySplit s cr rem = .ok (slice s.buf s.r.toNat cr.toNat ++ slice s.buf 0 rem.toNat) := by
  unfold copySplit
  have e2 := rd_ok (s := s) (off := 0) (n := rem) (by omega) hrem (by omega)
  by_cases h : cr > 0
  · rw [if_pos h, rd_ok hr hcr h1]
    simp only [bind, Except.bind, pure, Except.pure, e2, Int.toNat_zero]
  · have : cr = 0 := by omega
    subst this
    simp only [bind, Except.bind, pure, Except.pure, e2]
    simp [slice]

theorem read_spec {s : BB} (inv : Inv s) {n : Int} (hn : 0 ≤ n) :
    ∃ s' o, read s n = .ok (s', o) ∧ Inv s' ∧ s'.c = s.c ∧
      (n ≤ (abs s).length → o = some ((abs s).take n.toNat) ∧ abs s' = (abs s).drop n.toNat) ∧
      ((abs s).length < n → o = none ∧ s' = s) := by
  have hlen := abs_length inv
  obtain ⟨cpos, len, w0, r0, wc, t0, tc, wrap⟩ := inv
  by_cases hl : s.r ≤ s.w
  · -- not wrapped
    have hcr : contiguousReadable s = s.w - s.r := by simp [contiguousReadable, hl]
    have hjr : jumpReadable s = 0 := by simp [jumpReadable, hl]
    simp only [readable, hcr, hjr] at hlen
    unfold MgModel.C07.read
    simp only [hcr, hjr]
    by_cases h1 : s.w - s.r ≥ n
    · rw [if_pos h1, rd_ok r0 hn (by omega)]
      simp only [bind, Except.bind, pure, Except.pure]
      rw [if_neg (by arith)]
      by_cases h2 : s.w = s.r + n
      · rw [refresh_eq (by arith)]
        refine ⟨_, _, rfl, ?_, rfl, ?_, ?_⟩
        · constructor <;> simp [clear] <;> omega
        · intro _
          rw [abs_flat hl, isl_take hn h1, isl_drop' r0 hn rfl, isl_nil (o := s.r + n) (by omega)]
          simp [abs, clear, slice]
        · intro h; omega
      · rw [refresh_ne (by arith)]
        refine ⟨_, _, rfl, ?_, rfl, ?_, ?_⟩
        · constructor <;> simp <;> omega
        · intro _
          rw [abs_flat hl, isl_take hn h1, isl_drop' r0 hn rfl, abs_flat (by arith)]
          simp only [true_and]
          congr 2; omega
        · intro h; omega
    · rw [if_neg h1, if_pos (by omega)]
      refine ⟨_, _, rfl, ⟨cpos, len, w0, r0, wc, t0, tc, wrap⟩, rfl, ?_, ?_⟩
      · intro h; omega
      · intro _; simp
  · -- wrapped
    have hl' : s.w < s.r := by omega
    have ht := wrap hl'
    have hnl : ¬ s.w ≥ s.r := by omega
    have hcr : contiguousReadable s = s.t - s.r := by simp [contiguousReadable, hnl]
    have hjr : jumpReadable s = s.w := by simp [jumpReadable, hnl]
    simp only [readable, hcr, hjr] at hlen
    unfold MgModel.C07.read
    simp only [hcr, hjr]
    by_cases h1 : s.t - s.r ≥ n
    · rw [if_pos h1, rd_ok r0 hn (by omega)]
      simp only [bind, Except.bind, pure, Except.pure]
      by_cases h2 : s.r + n = s.t
      · rw [if_pos (by arith)]
        by_cases h3 : s.w = 0
        · rw [refresh_eq (by arith)]
          refine ⟨_, _, rfl, ?_, rfl, ?_, ?_⟩
          · constructor <;> simp [clear] <;> omega
          · intro _
            rw [abs_wrap hl', take_wrap_le r0 hn h1 (by omega), drop_wrap_le r0 hn h1 (by omega) rfl,
              isl_nil (o := s.r + n) (by omega), h3]
            simp [abs, clear, slice]
          · intro h; omega
        · rw [refresh_ne (by arith)]
          refine ⟨_, _, rfl, ?_, rfl, ?_, ?_⟩
          · constructor <;> simp <;> omega
          · intro _
            rw [abs_wrap hl', take_wrap_le r0 hn h1 (by omega), drop_wrap_le r0 hn h1 (by omega) rfl,
              isl_nil (o := s.r + n) (by omega), abs_flat (by arith)]
            simp
          · intro h; omega
      · rw [if_neg (by arith), refresh_ne (by arith)]
        refine ⟨_, _, rfl, ?_, rfl, ?_, ?_⟩
        · constructor <;> simp <;> omega
        · intro _
          rw [abs_wrap hl', take_wrap_le r0 hn h1 (by omega), drop_wrap_le r0 hn h1 (by omega) rfl,
            abs_wrap (by arith)]
          simp only [true_and]
          congr 3; omega
        · intro h; omega
    · rw [if_neg h1]
      by_cases h2 : s.t - s.r + s.w < n
      · rw [if_pos h2]
        refine ⟨_, _, rfl, ⟨cpos, len, w0, r0, wc, t0, tc, wrap⟩, rfl, ?_, ?_⟩
        · intro h; omega
        · intro _; simp
      · rw [if_neg h2, copySplit_ok r0 (by omega) (by omega) (by omega) (by omega)]
        simp only [bind, Except.bind, pure, Except.pure]
        by_cases h3 : s.w = n - (s.t - s.r)
        · rw [refresh_eq (by arith)]
          refine ⟨_, _, rfl, ?_, rfl, ?_, ?_⟩
          · constructor <;> simp [clear] <;> omega
          · intro _
            rw [abs_wrap hl', take_wrap_gt r0 ht (by omega) (by omega) rfl (by omega),
              drop_wrap_gt r0 ht (by omega) (by omega) rfl rfl, isl_nil (o := n - (s.t - s.r)) (by omega)]
            simp [abs, clear, slice]
          · intro h; omega
        · rw [refresh_ne (by arith)]
          refine ⟨_, _, rfl, ?_, rfl, ?_, ?_⟩
          · constructor <;> simp <;> omega
          · intro _
            rw [abs_wrap hl', take_wrap_gt r0 ht (by omega) (by omega) rfl (by omega),
              drop_wrap_gt r0 ht (by omega) (by omega) rfl rfl, abs_flat (by arith)]
            exact ⟨rfl, rfl⟩
          · intro h; omega

theorem fetch_spec {s : BB} (inv : Inv s) {n : Int} (hn : 0 ≤ n) :
    ∃ o, fetch s n = .ok o ∧
      (n ≤ (abs s).length → o = some ((abs s).take n.toNat)) ∧
      ((abs s).length < n → o = none) := by
  have hlen := abs_length inv
  obtain ⟨cpos, len, w0, r0, wc, t0, tc, wrap⟩ := inv
  by_cases hl : s.r ≤ s.w
  · have hcr : contiguousReadable s = s.w - s.r := by simp [contiguousReadable, hl]
    have hjr : jumpReadable s = 0 := by simp [jumpReadable, hl]
    simp only [readable, hcr, hjr] at hlen
    unfold fetch
    simp only [hcr, hjr]
    by_cases h1 : s.w - s.r ≥ n
    · rw [if_pos h1, rd_ok r0 hn (by omega)]
      simp only [bind, Except.bind, pure, Except.pure]
      refine ⟨_, rfl, ?_, ?_⟩
      · intro _; rw [abs_flat hl, isl_take hn h1]
      · intro h; omega
    · rw [if_neg h1, if_pos (by omega)]
      refine ⟨_, rfl, ?_, ?_⟩
      · intro h; omega
      · intro _; rfl
  · have hl' : s.w < s.r := by omega
    have ht := wrap hl'
    have hnl : ¬ s.w ≥ s.r := by omega
    have hcr : contiguousReadable s = s.t - s.r := by simp [contiguousReadable, hnl]
    have hjr : jumpReadable s = s.w := by simp [jumpReadable, hnl]
    simp only [readable, hcr, hjr] at hlen
    unfold fetch
    simp only [hcr, hjr]
    by_cases h1 : s.t - s.r ≥ n
    · rw [if_pos h1, rd_ok r0 hn (by omega)]
      simp only [bind, Except.bind, pure, Except.pure]
      refine ⟨_, rfl, ?_, ?_⟩
      · intro _; rw [abs_wrap hl', take_wrap_le r0 hn h1 (by omega)]
      · intro h; omega
    · rw [if_neg h1]
      by_cases h2 : s.t - s.r + s.w < n
      · rw [if_pos h2]
        refine ⟨_, rfl, ?_, ?_⟩
        · intro h; omega
        · intro _; rfl
      · rw [if_neg h2, copySplit_ok r0 (by omega) (by omega) (by omega) (by omega)]
        simp only [bind, Except.bind, pure, Except.pure]
        refine ⟨_, rfl, ?_, ?_⟩
        · intro _
          rw [abs_wrap hl', take_wrap_gt r0 ht (by omega) (by omega) rfl (by omega)]
        · intro h; omega

theorem clear_spec {s : BB} (inv : Inv s) : Inv (clear s) ∧ abs (clear s) = [] ∧ (clear s).c = s.c := by
  obtain ⟨cpos, len, w0, r0, wc, t0, tc, wrap⟩ := inv
  refine ⟨?_, ?_, rfl⟩
  · constructor <;> simp [clear] <;> omega
  · simp [abs, clear, slice]

/-- the first `k` stored bytes -/
theorem isl_store_prefix {b : List Byte} {off k : Int} {src : List Byte} (ho : 0 ≤ off)
    (h : off + src.length ≤ b.length) (hk0 : 0 ≤ k) (hk : k ≤ src.length) :
    slice (store b off.toNat src) off.toNat k.toNat = src.take k.toNat := by
  rw [← isl_take (n := (src.length : Int)) hk0 hk, isl_store_same ho h]

theorem isl_store0_prefix {b : List Byte} {k : Int} {src : List Byte}
    (h : (src.length : Int) ≤ b.length) (hk0 : 0 ≤ k) (hk : k ≤ src.length) :
    slice (store b 0 src) 0 k.toNat = src.take k.toNat := by
  have := isl_store_prefix (b := b) (off := 0) (k := k) (src := src) (by omega) (by omega) hk0 hk
  simpa using this

/-- a partial advance: `[r, w)` extended by the first `k` stored bytes -/
theorem isl_store_extend_k {b : List Byte} {r w l k : Int} {src : List Byte} (hr : 0 ≤ r)
    (hrw : r ≤ w) (h : w + src.length ≤ b.length) (hk0 : 0 ≤ k) (hk : k ≤ src.length)
    (hl : l = w + k - r) :
    slice (store b w.toNat src) r.toNat l.toNat = slice b r.toNat (w - r).toNat ++ src.take k.toNat := by
  subst hl
  rw [isl_split (w - r) hr (by omega) (by omega)]
  rw [isl_store_before hr (by omega) (by omega) (by omega)]
  have e1 : r + (w - r) = w := by omega
  have e2 : w + k - r - (w - r) = k := by omega
  rw [e1, e2, isl_store_prefix (by omega) h hk0 hk]

theorem isl_store_extend0_k {b : List Byte} {w l k : Int} {src : List Byte} (hw : 0 ≤ w)
    (h : w + src.length ≤ b.length) (hk0 : 0 ≤ k) (hk : k ≤ src.length) (hl : l = w + k) :
    slice (store b w.toNat src) 0 l.toNat = slice b 0 w.toNat ++ src.take k.toNat := by
  have := isl_store_extend_k (b := b) (r := 0) (w := w) (l := l) (k := k) (src := src)
    (by omega) hw h hk0 hk (by omega)
  simpa using this

/-- the zero-copy writer pair `writer_fc(n)`, fill, `writer_move_n(p, k)` -/
theorem wz_spec {s : BB} (inv : Inv s) (data : List Byte) {k : Int} (hk0 : 0 ≤ k)
    (hk : k ≤ data.length) :
    (writerFc s data.length = none ∧ contiguousWritable s < data.length ∧
        jumpWritable s < data.length) ∨
    (∃ off s1, writerFc s data.length = some off ∧ wr s off data = .ok s1 ∧
      ((data.length : Int) ≤ contiguousWritable s ∨ (data.length : Int) ≤ jumpWritable s) ∧
      (writerMoveN s1 off k).2 = true ∧ Inv (writerMoveN s1 off k).1 ∧
      (writerMoveN s1 off k).1.c = s.c ∧
      abs (writerMoveN s1 off k).1 = abs s ++ data.take k.toNat) := by
  obtain ⟨cpos, len, w0, r0, wc, t0, tc, wrap⟩ := inv
  rcases layout s with ⟨hl, hr⟩ | ⟨hl, hr⟩ | hl
  · have hcw : contiguousWritable s = s.c - s.w := by simp [contiguousWritable, hl, hr]
    have hjw : jumpWritable s = s.r - 1 := by simp [jumpWritable, hl, hr]
    unfold writerFc
    simp only [hcw, hjw]
    by_cases h1 : s.c - s.w ≥ (data.length : Int)
    · right
      rw [if_pos h1]
      have hlen' := istore_length (b := s.buf) (src := data) w0 (by omega)
      refine ⟨_, _, rfl, wr_ok w0 (by omega), Or.inl h1, ?_⟩
      unfold writerMoveN
      rw [if_neg (by omega)]
      by_cases h2 : s.w + k = s.c
      · rw [advanceW_flat0 (by exact tc) (by arith)]
        refine ⟨rfl, ?_, rfl, ?_⟩
        · constructor <;> simp <;> omega
        · rw [abs_wrap (by arith), abs_flat hl]
          simp only [Int.toNat_zero, slice_zero, List.append_nil]
          exact isl_store_extend_k r0 hl (by omega) hk0 hk (by omega)
      · rw [advanceW_flat (by arith)]
        refine ⟨rfl, ?_, rfl, ?_⟩
        · constructor <;> simp <;> omega
        · rw [abs_flat (by arith), abs_flat hl]
          exact isl_store_extend_k r0 hl (by omega) hk0 hk (by arith)
    · rw [if_neg h1]
      by_cases h3 : s.r - 1 ≥ (data.length : Int)
      · right
        rw [if_pos h3]
        have hlen' := store0_length (b := s.buf) (src := data) (by omega)
        refine ⟨_, _, rfl, wr_ok0 (by omega), Or.inr h3, ?_⟩
        unfold writerMoveN
        rw [if_pos rfl, if_pos (by arith)]
        refine ⟨rfl, ?_, rfl, ?_⟩
        · constructor <;> simp <;> omega
        · rw [abs_wrap (by arith), abs_flat hl]
          simp only
          rw [isl_store0_after (by omega) (by omega), isl_store0_prefix (by omega) hk0 hk]
      · left
        rw [if_neg h3]
        exact ⟨rfl, by omega, by omega⟩
  · have hcw : contiguousWritable s = s.c - s.w - 1 := by simp [contiguousWritable, hr] <;> omega
    have hjw : jumpWritable s = 0 := by simp [jumpWritable, hr]
    unfold writerFc
    simp only [hcw, hjw]
    by_cases h1 : s.c - s.w - 1 ≥ (data.length : Int)
    · right
      rw [if_pos h1]
      have hlen' := istore_length (b := s.buf) (src := data) w0 (by omega)
      refine ⟨_, _, rfl, wr_ok w0 (by omega), Or.inl h1, ?_⟩
      unfold writerMoveN
      by_cases hw : s.w = 0
      · rw [if_pos hw, if_neg (by arith)]
        refine ⟨rfl, ?_, rfl, ?_⟩
        · constructor <;> simp <;> omega
        · rw [abs_flat (by arith), abs_flat hl]
          simp only
          rw [isl_store_extend_k r0 hl (by omega) hk0 hk (by omega)]
      · rw [if_neg hw, advanceW_flat (by arith)]
        refine ⟨rfl, ?_, rfl, ?_⟩
        · constructor <;> simp <;> omega
        · rw [abs_flat (by arith), abs_flat hl]
          exact isl_store_extend_k r0 hl (by omega) hk0 hk (by arith)
    · left
      rw [if_neg h1, if_neg (by omega)]
      exact ⟨rfl, by omega, by omega⟩
  · have ht := wrap hl
    have hnl : ¬ s.w ≥ s.r := by omega
    have hcw : contiguousWritable s = s.r - s.w - 1 := by simp [contiguousWritable, hnl]
    have hjw : jumpWritable s = 0 := by simp [jumpWritable, hnl]
    unfold writerFc
    simp only [hcw, hjw]
    by_cases h1 : s.r - s.w - 1 ≥ (data.length : Int)
    · right
      rw [if_pos h1]
      have hlen' := istore_length (b := s.buf) (src := data) w0 (by omega)
      refine ⟨_, _, rfl, wr_ok w0 (by omega), Or.inl h1, ?_⟩
      unfold writerMoveN
      by_cases hw : s.w = 0
      · rw [if_pos hw, if_neg (by arith)]
        refine ⟨rfl, ?_, rfl, ?_⟩
        · constructor <;> simp <;> omega
        · rw [abs_wrap (by arith), abs_wrap hl]
          simp only
          rw [isl_store_after w0 (by omega) (by omega),
            isl_store_extend0_k w0 (by omega) hk0 hk (by omega), List.append_assoc]
      · rw [if_neg hw, advanceW_plain (by arith) (by arith)]
        refine ⟨rfl, ?_, rfl, ?_⟩
        · constructor <;> simp <;> omega
        · rw [abs_wrap (by arith), abs_wrap hl]
          simp only
          rw [isl_store_after w0 (by omega) (by omega),
            isl_store_extend0_k w0 (by omega) hk0 hk rfl, List.append_assoc]
    · left
      rw [if_neg h1, if_neg (by omega)]
      exact ⟨rfl, by omega, by omega⟩

/-- the deprecated pair `writer_fc(n)`, fill, `writer_move(n)` (full advance) -/
theorem wd_spec {s : BB} (inv : Inv s) (data : List Byte) :
    (writerFc s data.length = none ∧ contiguousWritable s < data.length ∧
        jumpWritable s < data.length) ∨
    (∃ off s1, writerFc s data.length = some off ∧ wr s off data = .ok s1 ∧
      ((data.length : Int) ≤ contiguousWritable s ∨ (data.length : Int) ≤ jumpWritable s) ∧
      (writerMove s1 data.length).2 = true ∧ Inv (writerMove s1 data.length).1 ∧
      (writerMove s1 data.length).1.c = s.c ∧
      abs (writerMove s1 data.length).1 = abs s ++ data) := by
  obtain ⟨cpos, len, w0, r0, wc, t0, tc, wrap⟩ := inv
  rcases layout s with ⟨hl, hr⟩ | ⟨hl, hr⟩ | hl
  · have hcw : ∀ b, contiguousWritable { s with buf := b } = s.c - s.w := by
      intro b; simp [contiguousWritable, hl, hr]
    have hjw : ∀ b, jumpWritable { s with buf := b } = s.r - 1 := by
      intro b; simp [jumpWritable, hl, hr]
    have hcw' := hcw s.buf
    have hjw' := hjw s.buf
    unfold writerFc
    simp only [hcw', hjw']
    by_cases h1 : s.c - s.w ≥ (data.length : Int)
    · right
      rw [if_pos h1]
      have hlen' := istore_length (b := s.buf) (src := data) w0 (by omega)
      refine ⟨_, _, rfl, wr_ok w0 (by omega), Or.inl h1, ?_⟩
      unfold writerMove
      simp only [hcw, hjw]
      rw [if_pos h1]
      by_cases h2 : s.w + data.length = s.c
      · rw [advanceW_flat0 (by exact tc) (by arith)]
        refine ⟨rfl, ?_, rfl, ?_⟩
        · constructor <;> simp <;> omega
        · rw [abs_wrap (by arith), abs_flat hl]
          simp only [Int.toNat_zero, slice_zero, List.append_nil]
          exact isl_store_extend r0 hl (by omega) (by omega)
      · rw [advanceW_flat (by arith)]
        refine ⟨rfl, ?_, rfl, ?_⟩
        · constructor <;> simp <;> omega
        · rw [abs_flat (by arith), abs_flat hl]
          exact isl_store_extend r0 hl (by omega) (by arith)
    · rw [if_neg h1]
      by_cases h3 : s.r - 1 ≥ (data.length : Int)
      · right
        rw [if_pos h3]
        have hlen' := store0_length (b := s.buf) (src := data) (by omega)
        refine ⟨_, _, rfl, wr_ok0 (by omega), Or.inr h3, ?_⟩
        unfold writerMove
        simp only [hcw, hjw]
        rw [if_neg h1, if_pos h3]
        refine ⟨rfl, ?_, rfl, ?_⟩
        · constructor <;> simp <;> omega
        · rw [abs_wrap (by arith), abs_flat hl]
          simp only
          rw [isl_store0_after (by omega) (by omega), isl_store0_same (by omega) rfl]
      · left
        rw [if_neg h3]
        exact ⟨rfl, by omega, by omega⟩
  · have hcw : ∀ b, contiguousWritable { s with buf := b } = s.c - s.w - 1 := by
      intro b; simp [contiguousWritable, hr] <;> omega
    have hjw : ∀ b, jumpWritable { s with buf := b } = 0 := by
      intro b; simp [jumpWritable, hr]
    have hcw' := hcw s.buf
    have hjw' := hjw s.buf
    unfold writerFc
    simp only [hcw', hjw']
    by_cases h1 : s.c - s.w - 1 ≥ (data.length : Int)
    · right
      rw [if_pos h1]
      have hlen' := istore_length (b := s.buf) (src := data) w0 (by omega)
      refine ⟨_, _, rfl, wr_ok w0 (by omega), Or.inl h1, ?_⟩
      unfold writerMove
      simp only [hcw, hjw]
      rw [if_pos h1, advanceW_flat (by arith)]
      refine ⟨rfl, ?_, rfl, ?_⟩
      · constructor <;> simp <;> omega
      · rw [abs_flat (by arith), abs_flat hl]
        exact isl_store_extend r0 hl (by omega) (by arith)
    · left
      rw [if_neg h1, if_neg (by omega)]
      exact ⟨rfl, by omega, by omega⟩
  · have ht := wrap hl
    have hnl : ¬ s.w ≥ s.r := by omega
    have hcw : ∀ b, contiguousWritable { s with buf := b } = s.r - s.w - 1 := by
      intro b; simp [contiguousWritable, hnl]
    have hjw : ∀ b, jumpWritable { s with buf := b } = 0 := by
      intro b; simp [jumpWritable, hnl]
    have hcw' := hcw s.buf
    have hjw' := hjw s.buf
    unfold writerFc
    simp only [hcw', hjw']
    by_cases h1 : s.r - s.w - 1 ≥ (data.length : Int)
    · right
      rw [if_pos h1]
      have hlen' := istore_length (b := s.buf) (src := data) w0 (by omega)
      refine ⟨_, _, rfl, wr_ok w0 (by omega), Or.inl h1, ?_⟩
      unfold writerMove
      simp only [hcw, hjw]
      rw [if_pos h1, advanceW_plain (by arith) (by arith)]
      refine ⟨rfl, ?_, rfl, ?_⟩
      · constructor <;> simp <;> omega
      · rw [abs_wrap (by arith), abs_wrap hl]
        simp only
        rw [isl_store_after w0 (by omega) (by omega),
          isl_store_extend0 w0 (by omega) rfl, List.append_assoc]
    · left
      rw [if_neg h1, if_neg (by omega)]
      exact ⟨rfl, by omega, by omega⟩

/-- the zero-copy reader pair `reader_fc(n)`, look at the `n` bytes, `reader_move(k)` -/
theorem rz_spec {s : BB} (inv : Inv s) {n k : Int} (hn : 0 ≤ n) (hk0 : 0 ≤ k) (hk : k ≤ n) :
    (readerFc s n = none ∧ contiguousReadable s < n) ∨
    (readerFc s n = some s.r ∧ n ≤ contiguousReadable s ∧ n ≤ (abs s).length ∧
      rd s s.r n = .ok ((abs s).take n.toNat) ∧
      (readerMove s k).2 = true ∧ Inv (readerMove s k).1 ∧ (readerMove s k).1.c = s.c ∧
      abs (readerMove s k).1 = (abs s).drop k.toNat) := by
  have hlen := abs_length inv
  obtain ⟨cpos, len, w0, r0, wc, t0, tc, wrap⟩ := inv
  by_cases hl : s.r ≤ s.w
  · have hcr : contiguousReadable s = s.w - s.r := by simp [contiguousReadable, hl]
    have hjr : jumpReadable s = 0 := by simp [jumpReadable, hl]
    simp only [readable, hcr, hjr] at hlen
    unfold readerFc readerMove
    simp only [hcr]
    by_cases h1 : s.w - s.r ≥ n
    · right
      rw [if_pos h1, if_pos (by omega)]
      refine ⟨rfl, h1, by omega, ?_, rfl, ?_⟩
      · rw [rd_ok r0 hn (by omega), abs_flat hl, isl_take hn h1]
      · by_cases h2 : s.w = s.r + k
        · rw [refresh_eq (by arith)]
          refine ⟨?_, rfl, ?_⟩
          · constructor <;> simp [clear] <;> omega
          · rw [abs_flat hl, isl_drop' r0 hk0 rfl, isl_nil (o := s.r + k) (by omega)]
            simp [abs, clear, slice]
        · rw [refresh_ne (by arith)]
          refine ⟨?_, rfl, ?_⟩
          · constructor <;> simp <;> omega
          · rw [abs_flat hl, isl_drop' r0 hk0 rfl, abs_flat (by arith)]
            simp only
            congr 1; omega
    · left
      rw [if_neg h1]
      exact ⟨rfl, by omega⟩
  · have hl' : s.w < s.r := by omega
    have ht := wrap hl'
    have hnl : ¬ s.w ≥ s.r := by omega
    have hcr : contiguousReadable s = s.t - s.r := by simp [contiguousReadable, hnl]
    have hjr : jumpReadable s = s.w := by simp [jumpReadable, hnl]
    simp only [readable, hcr, hjr] at hlen
    unfold readerFc readerMove
    simp only [hcr]
    by_cases h1 : s.t - s.r ≥ n
    · right
      rw [if_pos h1, if_pos (by omega)]
      refine ⟨rfl, h1, by omega, ?_, rfl, ?_⟩
      · rw [rd_ok r0 hn (by omega), abs_wrap hl', take_wrap_le r0 hn h1 (by omega)]
      · rw [refresh_ne (by arith)]
        refine ⟨?_, rfl, ?_⟩
        · constructor <;> simp <;> omega
        · rw [abs_wrap hl', drop_wrap_le r0 hk0 (by omega) (by omega) rfl, abs_wrap (by arith)]
          simp only
          congr 3; omega
    · left
      rw [if_neg h1]
      exact ⟨rfl, by omega⟩

theorem refresh_with_t (s : BB) (x : Int) :
    refresh { s with t := x } = { refresh s with t := if s.w = s.r then s.c else x } := by
  unfold refresh
  by_cases h : s.w = s.r <;> simp [h, clear]

end MgProof.C07
