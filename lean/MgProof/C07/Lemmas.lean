import MgModel.C07.BytesBuffer
/-!
# C07 — helper lemmas, part 1: memory primitives and the representation invariant

`slice`/`store` algebra (Nat level, then with the `Int` cursors of the model), the
representation invariant `Inv` and the accounting identities of the three layouts.
-/
namespace MgProof.C07
open MgModel.C07

/-! ## `slice` / `store` (Nat level) -/

theorem slice_length (b : List Byte) (off n : Nat) (h : off + n ≤ b.length) :
    (slice b off n).length = n := by
  simp [slice]; omega

theorem store_length (b : List Byte) (off : Nat) (src : List Byte)
    (h : off + src.length ≤ b.length) : (store b off src).length = b.length := by
  simp [store]; omega

theorem slice_zero (b : List Byte) (o : Nat) : slice b o 0 = [] := by simp [slice]

theorem slice_append (b : List Byte) (o n m : Nat) :
    slice b o (n + m) = slice b o n ++ slice b (o + n) m := by
  simp only [slice]
  rw [List.take_add, List.drop_drop]

theorem slice_take (b : List Byte) (o n k : Nat) (h : k ≤ n) :
    (slice b o n).take k = slice b o k := by
  simp only [slice, List.take_take]
  congr 1; omega

theorem slice_drop (b : List Byte) (o n k : Nat) :
    (slice b o n).drop k = slice b (o + k) (n - k) := by
  simp only [slice, List.drop_take, List.drop_drop]

theorem slice_store_same (b : List Byte) (off : Nat) (src : List Byte)
    (h : off + src.length ≤ b.length) :
    slice (store b off src) off src.length = src := by
  simp only [slice, store]
  have : (List.take off b).length = off := by simp; omega
  rw [List.append_assoc, List.drop_append_of_le_length (by omega)]
  simp

theorem slice_store_before (b : List Byte) (off : Nat) (src : List Byte) (o n : Nat)
    (h : o + n ≤ off) (h2 : off ≤ b.length) :
    slice (store b off src) o n = slice b o n := by
  simp only [slice, store]
  apply List.ext_getElem
  · simp; omega
  · intro i h1 h3
    have hi : i < n := by
      rw [List.length_take] at h3; omega
    have hm : min off b.length = off := by omega
    simp only [List.getElem_take, List.getElem_drop, List.getElem_append, List.length_take,
      List.length_append, hm]
    rw [dif_pos (by omega)]
    rw [dif_pos (by omega)]

theorem slice_store_after (b : List Byte) (off : Nat) (src : List Byte) (o n : Nat)
    (h : off + src.length ≤ o) (h2 : off + src.length ≤ b.length) :
    slice (store b off src) o n = slice b o n := by
  simp only [slice, store]
  apply List.ext_getElem
  · simp; omega
  · intro i h1 h3
    have hi : i < n := by
      rw [List.length_take] at h3; omega
    have hm : min off b.length = off := by omega
    simp only [List.getElem_take, List.getElem_drop, List.getElem_append, List.length_take,
      List.length_append, hm]
    rw [dif_neg (by omega)]
    congr 1; omega

/-! ## the same with `Int` offsets (as the model uses them) -/

theorem isl_length {b : List Byte} {o n : Int} (ho : 0 ≤ o) (hn : 0 ≤ n)
    (h : o + n ≤ b.length) : ((slice b o.toNat n.toNat).length : Int) = n := by
  rw [slice_length _ _ _ (by omega)]; omega

theorem isl_zero (b : List Byte) (o : Int) : slice b o.toNat (0 : Int).toNat = [] := by
  simp [slice]

theorem isl_nil {b : List Byte} {o n : Int} (hn : n ≤ 0) : slice b o.toNat n.toNat = [] := by
  have : n.toNat = 0 := by omega
  rw [this, slice_zero]

theorem isl_append {b : List Byte} {o n m : Int} (ho : 0 ≤ o) (hn : 0 ≤ n) (hm : 0 ≤ m) :
    slice b o.toNat (n + m).toNat = slice b o.toNat n.toNat ++ slice b (o + n).toNat m.toNat := by
  have h1 : (n + m).toNat = n.toNat + m.toNat := by omega
  have h2 : (o + n).toNat = o.toNat + n.toNat := by omega
  rw [h1, h2, slice_append]

/-- split a slice of length `l` at `n` -/
theorem isl_split {b : List Byte} {o l : Int} (n : Int) (ho : 0 ≤ o) (hn : 0 ≤ n) (hl : n ≤ l) :
    slice b o.toNat l.toNat = slice b o.toNat n.toNat ++ slice b (o + n).toNat (l - n).toNat := by
  have : l = n + (l - n) := by omega
  rw [this, isl_append ho hn (by omega)]
  congr 3
  omega

theorem isl_take {b : List Byte} {o n k : Int} (_hk : 0 ≤ k) (h : k ≤ n) :
    (slice b o.toNat n.toNat).take k.toNat = slice b o.toNat k.toNat :=
  slice_take _ _ _ _ (by omega)

theorem isl_drop {b : List Byte} {o n k : Int} (ho : 0 ≤ o) (hk : 0 ≤ k) :
    (slice b o.toNat n.toNat).drop k.toNat = slice b (o + k).toNat (n - k).toNat := by
  rw [slice_drop]
  congr 1 <;> omega

theorem isl_store_same {b : List Byte} {off : Int} {src : List Byte} (ho : 0 ≤ off)
    (h : off + src.length ≤ b.length) :
    slice (store b off.toNat src) off.toNat ((src.length : Int)).toNat = src := by
  have : ((src.length : Int)).toNat = src.length := by omega
  rw [this, slice_store_same _ _ _ (by omega)]

theorem isl_store_before {b : List Byte} {off : Int} {src : List Byte} {o n : Int}
    (ho : 0 ≤ o) (hn : 0 ≤ n) (h : o + n ≤ off) (h2 : off ≤ b.length) :
    slice (store b off.toNat src) o.toNat n.toNat = slice b o.toNat n.toNat :=
  slice_store_before _ _ _ _ _ (by omega) (by omega)

theorem isl_store_after {b : List Byte} {off : Int} {src : List Byte} {o n : Int}
    (ho : 0 ≤ off) (h : off + src.length ≤ o) (h2 : off + src.length ≤ b.length) :
    slice (store b off.toNat src) o.toNat n.toNat = slice b o.toNat n.toNat :=
  slice_store_after _ _ _ _ _ (by omega) (by omega)

theorem istore_length {b : List Byte} {off : Int} {src : List Byte} (ho : 0 ≤ off)
    (h : off + src.length ≤ b.length) : (store b off.toNat src).length = b.length :=
  store_length _ _ _ (by omega)

/-! ## `rd` / `wr` succeed inside the block -/

theorem rd_ok {s : BB} {off n : Int} (ho : 0 ≤ off) (hn : 0 ≤ n) (h : off + n ≤ s.buf.length) :
    rd s off n = .ok (slice s.buf off.toNat n.toNat) := by
  simp [rd, ho, hn, h]

theorem wr_ok {s : BB} {off : Int} {src : List Byte} (ho : 0 ≤ off)
    (h : off + src.length ≤ s.buf.length) :
    wr s off src = .ok { s with buf := store s.buf off.toNat src } := by
  simp [wr, ho, h]

/-! ## Representation invariant (of the fixed code) -/

/-- what holds in every state reachable from `init c`, `c ≥ 1`. In the contiguous
layout (`r ≤ w`) the truncation mark `t` is unconstrained inside `[0, c]`: it may be a
stale mark left behind when the reader wrapped; the fixed code never consults it there. -/
structure Inv (s : BB) : Prop where
  cpos : 1 ≤ s.c
  len  : (s.buf.length : Int) = s.c
  w0   : 0 ≤ s.w
  r0   : 0 ≤ s.r
  wc   : s.w < s.c
  t0   : 0 ≤ s.t
  tc   : s.t ≤ s.c
  /-- wrapped: the reader is at or before the truncation mark -/
  wrap : s.w < s.r → s.r ≤ s.t

theorem abs_flat {s : BB} (h : s.r ≤ s.w) :
    abs s = slice s.buf s.r.toNat (s.w - s.r).toNat := by simp [abs, h]

theorem abs_wrap {s : BB} (h : s.w < s.r) :
    abs s = slice s.buf s.r.toNat (s.t - s.r).toNat ++ slice s.buf 0 s.w.toNat := by
  have : ¬ s.r ≤ s.w := by omega
  simp [abs, this]

theorem inv_init {c : Int} (hc : 1 ≤ c) : ∃ s, init c = some s ∧ Inv s ∧ abs s = [] ∧ s.c = c := by
  have hn : ¬ c < 0 := by omega
  refine ⟨{ c := c, w := 0, r := 0, t := c, buf := List.replicate c.toNat 0 }, ?_, ?_, ?_, rfl⟩
  · simp only [init, hn, if_false]
  · constructor <;> simp <;> omega
  · simp [abs, slice]

end MgProof.C07
