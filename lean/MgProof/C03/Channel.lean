import MgProof.C01.HB
/-!
# C03 — channel: no lost wake-up, no deadlock

Safety formulation (no fairness assumption). `InvP` says that every parked thread has a reason
that some *enabled* thread will remove:

* a reader parked in `futex_wait(write_cursor, v)` (sync mode): `write_cursor` still equals the
  value it compared with, or some writer is between its publication and its wake call;
* a reader waiting on `read_cv` (mutex mode): the channel is empty, or some writer is between
  its publication (under `read_mutex`) and its `notify_one`;
* a writer parked on the futex write lock: the lock word is set (and then a holder exists), or
  another writer is about to wake it / has just been woken / is about to take the lock.

`no_global_sleep`: in no reachable state of any configuration are all threads disabled while a
writer still has work or a message is unread — for every schedule; a spurious condition
variable wake-up is not counted as a way out.
-/
namespace MgProof.C03.Channel
open MgModel.Conc MgModel.C01 MgProof.C01
set_option linter.unusedSimpArgs false
set_option linter.unusedVariables false

/-- writers that will (re)examine / hand over the futex write lock without further help -/
def lockActive : Pc → Bool
  | .wUnlockWake _ | .wWoken | .wLock => true
  | _ => false

def isBlk : Pc → Bool
  | .wBlocked => true
  | _ => false

def isWPc : Pc → Bool
  | .wPay | .wLock | .wSpinYield | .wFwait _ | .wBlocked | .wWoken | .sLdR | .sRdW _ | .cRdW2 _ | .cWrB _ _
  | .cSt _ | .bRdW | .bRdC _ | .bLdR _ | .bWrC _ _ | .bRdC2 _ | .mLock | .mRdW | .mRdR _ | .mRdW2 _
  | .mWrB _ _ | .mWrW _ | .mUnlock _ | .wUnlock _ | .wUnlockWake _ | .wWake | .wYield | .done => true
  | _ => false

def isRPc : Pc → Bool
  | .rRdR | .rLdW _ | .rFwait _ _ | .rBlocked _ | .rWoken _ | .rRdB _ | .rStR _ _ | .rPay _ | .rmLock
  | .rmRdR | .rmRdW _ | .rmCvWait | .rmCvBlocked | .rmCvSignaled | .rmRdB _ | .rmWrR _ _ | .rmUnlock _
  | .done => true
  | _ => false

/-- some writer's pc satisfies `P` -/
def Ex (P : Pc → Bool) (pc : Nat → Pc) (W : Nat) : Prop := ∃ t, t < W ∧ P (pc t) = true

theorem Ex.new {P : Pc → Bool} {pc : Nat → Pc} {W t0 : Nat} {p' : Pc} (h0 : t0 < W) (hp : P p' = true) :
    Ex P (upd pc t0 p') W := ⟨t0, h0, by rw [upd_same]; exact hp⟩

theorem Ex.keep {P : Pc → Bool} {pc : Nat → Pc} {W t0 : Nat} {p' : Pc} (h : Ex P pc W)
    (hk : P (pc t0) = true → P p' = true) : Ex P (upd pc t0 p') W := by
  obtain ⟨t, ht, hp⟩ := h
  by_cases e : t = t0
  · subst e; exact ⟨t, ht, by rw [upd_same]; exact hk hp⟩
  · exact ⟨t, ht, by rw [upd_other _ _ _ _ e]; exact hp⟩

theorem Ex.back {P : Pc → Bool} {pc : Nat → Pc} {W t0 : Nat} {p' : Pc} (h : Ex P (upd pc t0 p') W)
    (hn : P p' = false) : Ex P pc W := by
  obtain ⟨t, ht, hp⟩ := h
  by_cases e : t = t0
  · subst e; rw [upd_same, hn] at hp; cases hp
  · exact ⟨t, ht, by rw [upd_other _ _ _ _ e] at hp; exact hp⟩

/-- the reader's pc, seen from a writer's update: unchanged -/
theorem upd_W {pc : Nat → Pc} {W t0 : Nat} {p' : Pc} (h0 : t0 < W) : upd pc t0 p' W = pc W :=
  upd_other _ _ _ _ (Nat.ne_of_gt h0)

structure InvP (s : St) : Prop where
  kindW : ∀ t, t < s.cfg.W → isWPc (s.pc t) = true
  kindR : isRPc (s.pc s.cfg.W) = true
  fw : ∀ t e, t < s.cfg.W → s.pc t = .wFwait e → e ≠ 0 ∧ s.cfg.wl = .sync
  blk : ∀ t, t < s.cfg.W → s.pc t = .wBlocked → s.cfg.wl = .sync
  lock1 : s.cfg.wl = .spin ∨ s.cfg.wl = .sync → s.wlock ≠ 0 → s.holder ≠ none
  park : Ex isBlk s.pc s.cfg.W → s.wlock ≠ 0 ∨ Ex lockActive s.pc s.cfg.W
  rfw : ∀ rpos wpos, s.pc s.cfg.W = .rFwait rpos wpos → wpos = rpos ∧ s.cfg.rm = .sync
  rbl : ∀ rpos, s.pc s.cfg.W = .rBlocked rpos → s.cfg.rm = .sync ∧
    (s.wc = rpos ∨ Ex published s.pc s.cfg.W)
  rcw : s.pc s.cfg.W = .rmCvWait → s.cfg.rm = .mutex ∧ s.accepted.length = s.delivered.length
  rcb : s.pc s.cfg.W = .rmCvBlocked → s.cfg.rm = .mutex ∧
    (s.accepted.length = s.delivered.length ∨ Ex published s.pc s.cfg.W)

/-- the reader sees an empty ring exactly when the cursors coincide -/
theorem empty_of_cursors {s : St} (hI : Inv s) (h : s.delivered.length % s.cfg.cap = s.wc) :
    s.accepted.length = s.delivered.length := by
  have h4 := hI.wc_eq
  rw [h4] at h
  rcases Nat.lt_or_ge s.delivered.length s.accepted.length with hlt | hge
  · have := hI.le2
    have := mod_inj_close (a := s.delivered.length) (b := s.accepted.length) (n := s.cfg.cap) (by omega)
      (by have := cap_pos s.cfg; omega) h
    omega
  · have := hI.le1; omega

/-! ### generic moves -/

/-- general form of a writer step without remote effects: thread `t0 < W` moves to `p'`; the
obligations say how the lock word / owner / cursors / lists may change -/
theorem InvP_wgen {s s' : St} {t0 : Nat} {p' : Pc} (hi : InvP s) (ht0 : t0 < s.cfg.W)
    (e1 : s'.cfg = s.cfg) (e6 : s'.pc = upd s.pc t0 p')
    (c1 : isWPc p' = true) (c3 : p' = .wBlocked → s.cfg.wl = .sync)
    (c4 : ∀ e, p' = .wFwait e → e ≠ 0 ∧ s.cfg.wl = .sync)
    (hlock1 : s.cfg.wl = .spin ∨ s.cfg.wl = .sync → (s.wlock ≠ 0 → s.holder ≠ none) →
      s'.wlock ≠ 0 → s'.holder ≠ none)
    (hpark : (∀ t, t < s.cfg.W → s.pc t = .wBlocked → s.cfg.wl = .sync) →
      Ex isBlk (upd s.pc t0 p') s.cfg.W → (Ex isBlk s.pc s.cfg.W → s.wlock ≠ 0 ∨ Ex lockActive s.pc s.cfg.W) →
      s'.wlock ≠ 0 ∨ Ex lockActive (upd s.pc t0 p') s.cfg.W)
    (hrbl : ∀ rpos, s.pc s.cfg.W = .rBlocked rpos → s.cfg.rm = .sync →
      (s.wc = rpos ∨ Ex published s.pc s.cfg.W) → (s'.wc = rpos ∨ Ex published (upd s.pc t0 p') s.cfg.W))
    (hrcw : s.pc s.cfg.W = .rmCvWait → s.cfg.rm = .mutex → s.accepted.length = s.delivered.length →
      s'.accepted.length = s'.delivered.length)
    (hrcb : s.pc s.cfg.W = .rmCvBlocked → s.cfg.rm = .mutex →
      (s.accepted.length = s.delivered.length ∨ Ex published s.pc s.cfg.W) →
      (s'.accepted.length = s'.delivered.length ∨ Ex published (upd s.pc t0 p') s.cfg.W)) : InvP s' := by
  obtain ⟨q1, q2, q3, q3b, q4, q5, q6, q7, q8, q9⟩ := hi
  have hW : upd s.pc t0 p' s.cfg.W = s.pc s.cfg.W := upd_W ht0
  refine ⟨?_, ?_, ?_, ?_, ?_, ?_, ?_, ?_, ?_, ?_⟩
  all_goals simp only [e1, e6, hW]
  · intro t ht
    by_cases e : t = t0
    · subst e; rw [upd_same]; exact c1
    · rw [upd_other _ _ _ _ e]; exact q1 t ht
  · exact q2
  · intro t e ht hp
    by_cases e' : t = t0
    · subst e'; rw [upd_same] at hp; exact c4 e hp
    · rw [upd_other _ _ _ _ e'] at hp; exact q3 t e ht hp
  · intro t ht hp
    by_cases e' : t = t0
    · subst e'; rw [upd_same] at hp; exact c3 hp
    · rw [upd_other _ _ _ _ e'] at hp; exact q3b t ht hp
  · intro hx; exact hlock1 hx (q4 hx)
  · intro hb; exact hpark q3b hb q5
  · exact q6
  · intro rpos hp
    obtain ⟨a, b⟩ := q7 rpos hp
    exact ⟨a, hrbl rpos hp a b⟩
  · intro hp
    obtain ⟨a, b⟩ := q8 hp
    exact ⟨a, hrcw hp a b⟩
  · intro hp
    obtain ⟨a, b⟩ := q9 hp
    exact ⟨a, hrcb hp a b⟩

/-- a writer moves; lock word, cursors and lists untouched; its status can only improve -/
theorem InvP_wmove {s s' : St} {t0 : Nat} {p' : Pc} (hi : InvP s) (ht0 : t0 < s.cfg.W)
    (e1 : s'.cfg = s.cfg) (e2 : s'.wlock = s.wlock) (e3 : s'.wc = s.wc) (e4 : s'.accepted = s.accepted)
    (e5 : s'.delivered = s.delivered) (e6 : s'.pc = upd s.pc t0 p')
    (e7 : s.cfg.wl = .spin ∨ s.cfg.wl = .sync → s'.holder = s.holder)
    (c1 : isWPc p' = true) (c3 : isBlk p' = false) (c4 : ∀ e, p' ≠ .wFwait e)
    (c5 : (lockActive (s.pc t0) = true → lockActive p' = true) ∨ s.cfg.wl ≠ .sync)
    (c6 : s.cfg.rm ≠ .busy → published (s.pc t0) = true → published p' = true) : InvP s' := by
  refine InvP_wgen hi ht0 e1 e6 c1 (fun h => by rw [h] at c3; cases c3) (fun e h => absurd h (c4 e)) ?_ ?_ ?_ ?_ ?_
  · intro hx h h0; rw [e2] at h0; rw [e7 hx]; exact h h0
  · intro hblk hb hq
    rw [e2]
    have hb' := hb.back c3
    rcases c5 with c5 | c5
    · exact (hq hb').imp id (fun h => h.keep c5)
    · obtain ⟨t, ht, hp⟩ := hb'
      have : s.pc t = .wBlocked := by cases h : s.pc t <;> simp [h, isBlk] at hp; rfl
      exact absurd (hblk t ht this) c5
  · intro rpos _ hm h; rw [e3]; exact h.imp id (fun h => h.keep (c6 (by rw [hm]; simp)))
  · intro _ _ h; rw [e4, e5]; exact h
  · intro _ hm h; rw [e4, e5]; exact h.imp id (fun h => h.keep (c6 (by rw [hm]; simp)))

/-- the reader moves to a pc that is not one of the four waiting pcs -/
theorem InvP_rmove {s s' : St} {p' : Pc} (hi : InvP s)
    (e1 : s'.cfg = s.cfg) (e2 : s'.wlock = s.wlock) (e6 : s'.pc = upd s.pc s.cfg.W p')
    (e7 : s'.holder = s.holder)
    (c1 : isRPc p' = true) (c2 : ∀ a b, p' ≠ .rFwait a b) (c3 : ∀ a, p' ≠ .rBlocked a)
    (c4 : p' ≠ .rmCvWait) (c5 : p' ≠ .rmCvBlocked) : InvP s' := by
  obtain ⟨q1, q2, q3, q3b, q4, q5, q6, q7, q8, q9⟩ := hi
  have hne : ∀ t, t < s.cfg.W → upd s.pc s.cfg.W p' t = s.pc t :=
    fun t ht => upd_other _ _ _ _ (Nat.ne_of_lt ht)
  have hex : ∀ P, Ex P (upd s.pc s.cfg.W p') s.cfg.W ↔ Ex P s.pc s.cfg.W := by
    intro P
    constructor
    · rintro ⟨t, ht, hp⟩; exact ⟨t, ht, by rw [hne t ht] at hp; exact hp⟩
    · rintro ⟨t, ht, hp⟩; exact ⟨t, ht, by rw [hne t ht]; exact hp⟩
  refine ⟨?_, ?_, ?_, ?_, ?_, ?_, ?_, ?_, ?_, ?_⟩
  all_goals simp only [e1, e2, e6, e7, upd_same, hex]
  · intro t ht; rw [hne t ht]; exact q1 t ht
  · exact c1
  · intro t e ht hp; rw [hne t ht] at hp; exact q3 t e ht hp
  · intro t ht hp; rw [hne t ht] at hp; exact q3b t ht hp
  · exact q4
  · exact q5
  · intro a b hp; exact absurd hp (c2 a b)
  · intro a hp; exact absurd hp (c3 a)
  · intro hp; exact absurd hp c4
  · intro hp; exact absurd hp c5


/-! ### facts about the exit pcs -/

theorem fcPc_facts (s : St) (t : Nat) (r : Ret) :
    isWPc (fcPc s t r) = true ∧ isBlk (fcPc s t r) = false ∧ (∀ e, fcPc s t r ≠ .wFwait e) ∧
    lockActive (fcPc s t r) = false := by
  rcases fcPc_cases s t r with h | h | ⟨h, -⟩ <;> simp [h, isWPc, isBlk, lockActive]

theorem auPc_facts (s : St) (t : Nat) (r : Ret) :
    isWPc (auPc s t r) = true ∧ isBlk (auPc s t r) = false ∧ (∀ e, auPc s t r ≠ .wFwait e) ∧
    lockActive (auPc s t r) = false := by
  rcases auPc_cases s t r with ⟨h, -⟩ | h | h | ⟨h, -⟩ <;> simp [h, isWPc, isBlk, lockActive]

theorem lfPc_facts (s : St) (t : Nat) (r : Ret) :
    isWPc (lfPc s t r) = true ∧ isBlk (lfPc s t r) = false ∧ (∀ e, lfPc s t r ≠ .wFwait e) ∧
    lockActive (lfPc s t r) = false := by
  rcases lfPc_cases s t r with ⟨-, h⟩ | ⟨-, ⟨h, -⟩ | h | h | ⟨h, -⟩⟩ <;> simp [h, isWPc, isBlk, lockActive]

theorem auPc_pub (s : St) (t : Nat) (r : Ret) (hb : s.cfg.rm ≠ .busy) (hp : r = .ok) :
    published (auPc s t r) = true := by
  subst hp; rw [auPc_ok_wake s t hb]; rfl

theorem entryFn_facts (rm : RMode) :
    isWPc (entryFn rm) = true ∧ isBlk (entryFn rm) = false ∧ (∀ e, entryFn rm ≠ .wFwait e) ∧
    published (entryFn rm) = false := by
  cases rm <;> simp [entryFn, isWPc, isBlk, published]

theorem blk_eq {p : Pc} (h : isBlk p = true) : p = .wBlocked := by
  cases p <;> simp [isBlk] at h; rfl

variable {s s' : St} {t : Nat} {f : Flag} {ev : List String}

set_option hygiene false in
macro "open_w" : tactic => `(tactic| (simp only [wstep, hpc, Option.some.injEq, Prod.mk.injEq] at h))

 set_option hygiene false in
/-- the standard move: literal post-state, everything by `rfl` / evaluation -/
macro "wmove" : tactic => `(tactic|
  (refine InvP_wmove hi ht rfl rfl rfl rfl rfl rfl (fun _ => rfl) ?_ ?_ ?_ ?_ ?_
   · simp [isWPc]
   · simp [isBlk]
   · intro e he; cases he
   · left; simp [hpc, lockActive]
   · intro _; simp [hpc, published]))

/-- steps ending in `leaveFn` from an unpublished pc with nothing else relevant changed -/
theorem InvP_leave {s1 : St} {s : St} {t : Nat} {r : Ret} (hi : InvP s) (ht : t < s.cfg.W)
    (e1 : s1.cfg = s.cfg) (e2 : s1.wlock = s.wlock) (e3 : s1.wc = s.wc) (e4 : s1.accepted = s.accepted)
    (e5 : s1.delivered = s.delivered) (e6 : s1.pc = s.pc) (e7 : s1.holder = s.holder)
    (hact : lockActive (s.pc t) = false)
    (hpub : s.cfg.rm ≠ .busy → published (s.pc t) = true → r = .ok) : InvP (leaveFn s1 t r).1 := by
  obtain ⟨f1, f2, f3, f4⟩ := lfPc_facts s1 t r
  refine InvP_wmove (p' := lfPc s1 t r) hi ht (by simp [e1]) (by simp [e2]) (by simp [e3]) (by simp [e4])
    (by simp [e5]) (by rw [leaveFn_pc, e6]) ?_ f1 f2 f3 (Or.inl (by rw [hact]; intro h; cases h)) ?_
  · intro hx
    rw [leaveFn_holder, e1, e7]
    rcases hx with hx | hx <;> simp [hx]
  · intro hb hp
    have := hpub hb hp; subst this
    exact lfPc_ok_pub s1 t (by rw [e1]; exact hb)


/-! ### writer steps -/

theorem p_wSpinYield (hpc : s.pc t = .wSpinYield) (ht : t < s.cfg.W) (hi : InvP s)
    (h : wstep s t = some (s', ev)) : InvP s' := by
  open_w; obtain ⟨rfl, -⟩ := h; wmove

theorem p_wWoken (hpc : s.pc t = .wWoken) (ht : t < s.cfg.W) (hi : InvP s)
    (h : wstep s t = some (s', ev)) : InvP s' := by
  open_w; obtain ⟨rfl, -⟩ := h; wmove

theorem p_sLdR (hpc : s.pc t = .sLdR) (ht : t < s.cfg.W) (hi : InvP s)
    (h : wstep s t = some (s', ev)) : InvP s' := by
  open_w; obtain ⟨rfl, -⟩ := h; wmove

theorem p_cRdW2 (wpos : Nat) (hpc : s.pc t = .cRdW2 wpos) (ht : t < s.cfg.W) (hi : InvP s)
    (h : wstep s t = some (s', ev)) : InvP s' := by
  open_w; obtain ⟨rfl, -⟩ := h; wmove

theorem p_cWrB (wpos : Nat) (idx : Nat) (hpc : s.pc t = .cWrB wpos idx) (ht : t < s.cfg.W) (hi : InvP s)
    (h : wstep s t = some (s', ev)) : InvP s' := by
  open_w; obtain ⟨rfl, -⟩ := h; wmove

theorem p_bRdW (hpc : s.pc t = .bRdW) (ht : t < s.cfg.W) (hi : InvP s)
    (h : wstep s t = some (s', ev)) : InvP s' := by
  open_w; obtain ⟨rfl, -⟩ := h; wmove

theorem p_bLdR (wpos : Nat) (hpc : s.pc t = .bLdR wpos) (ht : t < s.cfg.W) (hi : InvP s)
    (h : wstep s t = some (s', ev)) : InvP s' := by
  open_w; obtain ⟨rfl, -⟩ := h; wmove

theorem p_bWrC (wpos : Nat) (v : Nat) (hpc : s.pc t = .bWrC wpos v) (ht : t < s.cfg.W) (hi : InvP s)
    (h : wstep s t = some (s', ev)) : InvP s' := by
  open_w; obtain ⟨rfl, -⟩ := h; wmove

theorem p_mLock (hpc : s.pc t = .mLock) (ht : t < s.cfg.W) (hi : InvP s)
    (h : wstep s t = some (s', ev)) : InvP s' := by
  open_w; obtain ⟨rfl, -⟩ := h; wmove

theorem p_mRdW (hpc : s.pc t = .mRdW) (ht : t < s.cfg.W) (hi : InvP s)
    (h : wstep s t = some (s', ev)) : InvP s' := by
  open_w; obtain ⟨rfl, -⟩ := h; wmove

theorem p_mRdW2 (wpos : Nat) (hpc : s.pc t = .mRdW2 wpos) (ht : t < s.cfg.W) (hi : InvP s)
    (h : wstep s t = some (s', ev)) : InvP s' := by
  open_w; obtain ⟨rfl, -⟩ := h; wmove

theorem p_mWrB (wpos : Nat) (idx : Nat) (hpc : s.pc t = .mWrB wpos idx) (ht : t < s.cfg.W) (hi : InvP s)
    (h : wstep s t = some (s', ev)) : InvP s' := by
  open_w; obtain ⟨rfl, -⟩ := h; wmove

theorem p_bRdC (wpos : Nat) (hpc : s.pc t = .bRdC wpos) (ht : t < s.cfg.W) (hi : InvP s)
    (h : wstep s t = some (s', ev)) : InvP s' := by
  open_w
  split at h <;> (simp only [Option.some.injEq, Prod.mk.injEq] at h; obtain ⟨rfl, -⟩ := h)
  · wmove
  · wmove

theorem p_mRdR (wpos : Nat) (hpc : s.pc t = .mRdR wpos) (ht : t < s.cfg.W) (hi : InvP s)
    (h : wstep s t = some (s', ev)) : InvP s' := by
  open_w
  split at h <;> (simp only [Option.some.injEq, Prod.mk.injEq] at h; obtain ⟨rfl, -⟩ := h)
  · wmove
  · wmove

theorem p_wFwait (e : Nat) (hpc : s.pc t = .wFwait e) (ht : t < s.cfg.W) (hi : InvP s)
    (h : wstep s t = some (s', ev)) : InvP s' := by
  open_w
  have hf := hi.fw t e ht hpc
  split at h <;> (simp only [Option.some.injEq, Prod.mk.injEq] at h; obtain ⟨rfl, -⟩ := h)
  next he =>
    refine InvP_wgen hi ht rfl rfl (by simp [isWPc]) (fun _ => hf.2) (fun e h => by cases h) ?_ ?_ ?_ ?_ ?_
    · intro _ h; exact h
    · intro _ _ _; left; rw [he]; exact hf.1
    · intro _ _ _ h; exact h.imp id (fun h => h.keep (by simp [hpc, published]))
    · intro _ _ h; exact h
    · intro _ _ h; exact h.imp id (fun h => h.keep (by simp [hpc, published]))
  next => wmove

theorem p_sRdW (rpos : Nat) (hpc : s.pc t = .sRdW rpos) (ht : t < s.cfg.W) (hi : InvP s)
    (h : wstep s t = some (s', ev)) : InvP s' := by
  open_w
  split at h <;> (simp only [Option.some.injEq, Prod.mk.injEq] at h; obtain ⟨rfl, -⟩ := h)
  · exact InvP_leave hi ht rfl rfl rfl rfl rfl rfl rfl (by simp [hpc, lockActive]) (by simp [hpc, published])
  · wmove

theorem p_bRdC2 (wpos : Nat) (hpc : s.pc t = .bRdC2 wpos) (ht : t < s.cfg.W) (hi : InvP s)
    (h : wstep s t = some (s', ev)) : InvP s' := by
  open_w
  split at h <;> (simp only [Option.some.injEq, Prod.mk.injEq] at h; obtain ⟨rfl, -⟩ := h)
  · wmove
  · exact InvP_leave hi ht rfl rfl rfl rfl rfl rfl rfl (by simp [hpc, lockActive]) (by simp [hpc, published])

theorem p_mUnlock (r : Ret) (hpc : s.pc t = .mUnlock r) (ht : t < s.cfg.W) (hi : InvP s)
    (h : wstep s t = some (s', ev)) : InvP s' := by
  open_w; obtain ⟨rfl, -⟩ := h
  exact InvP_leave hi ht rfl rfl rfl rfl rfl rfl rfl (by simp [hpc, lockActive])
    (by cases r <;> simp [hpc, published])

theorem InvP_enter {s : St} {t : Nat} (hi : InvP s) (ht : t < s.cfg.W)
    (hact : published (s.pc t) = false) : InvP (enterCall s t) := by
  obtain ⟨f1, f2, f3, f4⟩ := entryFn_facts s.cfg.rm
  refine InvP_wmove (p' := if s.cfg.wl = .single then entryFn s.cfg.rm else .wLock) hi ht (by simp) (by simp)
    (by simp) (by simp) (by simp) (enterCall_pc s t) ?_ ?_ ?_ ?_ ?_ ?_
  · intro hx; rw [enterCall_holder]; rcases hx with hx | hx <;> simp [hx]
  · split
    · exact f1
    · rfl
  · split
    · exact f2
    · rfl
  · intro e; split
    · exact f3 e
    · intro h; cases h
  · by_cases hs : s.cfg.wl = .single
    · right; rw [hs]; simp
    · left; simp [hs, lockActive]
  · intro _ hp; rw [hact] at hp; cases hp

theorem p_wPay (hpc : s.pc t = .wPay) (ht : t < s.cfg.W) (hi : InvP s)
    (h : wstep s t = some (s', ev)) : InvP s' := by
  open_w; obtain ⟨rfl, -⟩ := h
  have hi1 : InvP { s with know := upd s.know t (cur s t :: s.know t) } :=
    ⟨hi.kindW, hi.kindR, hi.fw, hi.blk, hi.lock1, hi.park, hi.rfw, hi.rbl, hi.rcw, hi.rcb⟩
  exact InvP_enter hi1 ht (by simp [hpc, published])

theorem p_wYield (hpc : s.pc t = .wYield) (ht : t < s.cfg.W) (hi : InvP s)
    (h : wstep s t = some (s', ev)) : InvP s' := by
  open_w; obtain ⟨rfl, -⟩ := h
  exact InvP_enter hi ht (by simp [hpc, published])

theorem p_wLock (hpc : s.pc t = .wLock) (ht : t < s.cfg.W) (hi : InvP s)
    (h : wstep s t = some (s', ev)) : InvP s' := by
  open_w
  obtain ⟨f1, f2, f3, f4⟩ := entryFn_facts s.cfg.rm
  cases hwl : s.cfg.wl <;> simp only [hwl] at h
  case single => cases h
  case mutex =>
    simp only [Option.some.injEq, Prod.mk.injEq] at h; obtain ⟨rfl, -⟩ := h
    exact InvP_wmove hi ht rfl rfl rfl rfl rfl rfl (fun hx => by rw [hwl] at hx; rcases hx with hx | hx <;> cases hx)
      f1 f2 f3 (Or.inr (by rw [hwl]; simp)) (by intro _; simp [hpc, published])
  case spin =>
    split at h <;> (simp only [Option.some.injEq, Prod.mk.injEq] at h; obtain ⟨rfl, -⟩ := h)
    · refine InvP_wgen hi ht rfl rfl f1 (fun h => by rw [h] at f2; cases f2) (fun e h => absurd h (f3 e)) ?_ ?_ ?_ ?_ ?_
      · intro _ _ _; simp [acquired]
      · intro _ _ _; left; simp [acquired]
      · intro _ _ _ h; exact h.imp id (fun h => h.keep (by simp [hpc, published]))
      · intro _ _ h; exact h
      · intro _ _ h; exact h.imp id (fun h => h.keep (by simp [hpc, published]))
    next hne =>
      refine InvP_wgen hi ht rfl rfl (by simp [isWPc]) (fun h => by cases h) (fun e h => by cases h) ?_ ?_ ?_ ?_ ?_
      · intro _ h; exact h
      · intro _ _ _; left; exact hne
      · intro _ _ _ h; exact h.imp id (fun h => h.keep (by simp [hpc, published]))
      · intro _ _ h; exact h
      · intro _ _ h; exact h.imp id (fun h => h.keep (by simp [hpc, published]))
  case sync =>
    split at h <;> (simp only [Option.some.injEq, Prod.mk.injEq] at h; obtain ⟨rfl, -⟩ := h)
    · refine InvP_wgen hi ht rfl rfl f1 (fun h => by rw [h] at f2; cases f2) (fun e h => absurd h (f3 e)) ?_ ?_ ?_ ?_ ?_
      · intro _ _ _; simp [acquired]
      · intro _ _ _; left; simp [acquired]
      · intro _ _ _ h; exact h.imp id (fun h => h.keep (by simp [hpc, published]))
      · intro _ _ h; exact h
      · intro _ _ h; exact h.imp id (fun h => h.keep (by simp [hpc, published]))
    next hne =>
      refine InvP_wgen hi ht rfl rfl (by simp [isWPc]) (fun h => by cases h)
        (fun e h => by cases h; exact ⟨hne, hwl⟩) ?_ ?_ ?_ ?_ ?_
      · intro _ h; exact h
      · intro _ _ _; left; exact hne
      · intro _ _ _ h; exact h.imp id (fun h => h.keep (by simp [hpc, published]))
      · intro _ _ h; exact h
      · intro _ _ h; exact h.imp id (fun h => h.keep (by simp [hpc, published]))


theorem p_cSt (wpos : Nat) (hpc : s.pc t = .cSt wpos) (ht : t < s.cfg.W) (hI : Inv s) (hi : InvP s)
    (h : wstep s t = some (s', ev)) : InvP s' := by
  have hh := (hI.hold t).2 ⟨ht, by simp [hpc, inCS]⟩
  have hw := hI.wloc t hh
  rw [hpc] at hw
  simp only [WLoc, Room] at hw
  obtain ⟨-, -, -, -, hnm⟩ := hw
  open_w; obtain ⟨rfl, -⟩ := h
  obtain ⟨f1, f2, f3, f4⟩ := lfPc_facts (publish { s with relWC := s.know t } t wpos) t .ok
  refine InvP_wgen (p' := lfPc (publish { s with relWC := s.know t } t wpos) t .ok) hi ht (by simp [publish])
    (by rw [leaveFn_pc]; rfl) f1 (fun h => by rw [h] at f2; cases f2) (fun e h => absurd h (f3 e)) ?_ ?_ ?_ ?_ ?_
  · intro hx hq h0
    simp only [leaveFn_wlock, publish] at h0
    rw [leaveFn_holder]
    simp only [publish]
    rcases hx with hx | hx <;> simp [hx] <;> exact hq h0
  · intro _ hb hq
    simp only [leaveFn_wlock, publish]
    exact (hq (hb.back f2)).imp id (fun h => h.keep (by simp [hpc, lockActive]))
  · intro _ _ hm _
    right
    exact Ex.new ht (lfPc_ok_pub _ t (by simp [publish, hm]))
  · intro _ hm _; exact absurd hm hnm
  · intro _ hm _; exact absurd hm hnm

theorem p_mWrW (wpos : Nat) (hpc : s.pc t = .mWrW wpos) (ht : t < s.cfg.W) (hI : Inv s) (hi : InvP s)
    (h : wstep s t = some (s', ev)) : InvP s' := by
  have hr : s.rmtx = some t := (hI.rmo t).2 ⟨Nat.le_of_lt ht, by simp [hpc, inRM]⟩
  open_w; obtain ⟨rfl, -⟩ := h
  refine InvP_wgen hi ht rfl rfl (by simp [isWPc]) (fun h => by cases h) (fun e h => by cases h) ?_ ?_ ?_ ?_ ?_
  · intro _ h; exact h
  · intro _ hb hq
    exact (hq (hb.back rfl)).imp id (fun h => h.keep (by simp [hpc, lockActive]))
  · intro _ _ _ _; right; exact Ex.new ht rfl
  · intro hp _ _
    have := (hI.rmo s.cfg.W).2 ⟨Nat.le_refl _, by simp [hp, inRM]⟩
    rw [hr] at this; cases this; exact absurd ht (Nat.lt_irrefl _)
  · intro _ _ _; right; exact Ex.new ht rfl

theorem p_wUnlock (r : Ret) (hpc : s.pc t = .wUnlock r) (ht : t < s.cfg.W) (hi : InvP s)
    (h : wstep s t = some (s', ev)) : InvP s' := by
  open_w
  cases hwl : s.cfg.wl <;> simp only [hwl] at h
  case single => cases h
  case sync =>
    simp only [Option.some.injEq, Prod.mk.injEq] at h; obtain ⟨rfl, -⟩ := h
    refine InvP_wgen hi ht rfl rfl (by simp [isWPc]) (fun h => by cases h) (fun e h => by cases h) ?_ ?_ ?_ ?_ ?_
    · intro _ _ h0; exact absurd rfl h0
    · intro _ _ _; right; exact Ex.new ht rfl
    · intro _ _ _ h; exact h.imp id (fun h => h.keep (by cases r <;> simp [hpc, published]))
    · intro _ _ h; exact h
    · intro _ _ h; exact h.imp id (fun h => h.keep (by cases r <;> simp [hpc, published]))
  all_goals
    simp only [Option.some.injEq, Prod.mk.injEq] at h; obtain ⟨rfl, -⟩ := h
    obtain ⟨f1, f2, f3, f4⟩ := auPc_facts { s with wlock := 0, holder := none, relWL := s.know t } t r
    obtain ⟨g1, g2, g3, g4⟩ := auPc_facts { s with holder := none, relWL := s.know t } t r
    refine InvP_wgen (p' := auPc _ t r) hi ht (by simp) (by rw [afterUnlock_pc]) (by first | exact f1 | exact g1)
      (fun h => by first | (rw [h] at f2; cases f2) | (rw [h] at g2; cases g2))
      (fun e h => by first | exact absurd h (f3 e) | exact absurd h (g3 e)) ?_ ?_ ?_ ?_ ?_
    · intro hx _ h0
      rcases hx with hx | hx
      · first | (simp at h0; done) | (rw [hwl] at hx; cases hx)
      · rw [hwl] at hx; cases hx
    · intro hblk hb _
      have hb' := hb.back (by first | exact f2 | exact g2)
      obtain ⟨t', ht', hp⟩ := hb'
      have := hblk t' ht' (blk_eq hp)
      rw [hwl] at this; cases this
    · intro _ _ hm h
      simp only [afterUnlock_wc]
      refine h.imp id (fun h => h.keep ?_)
      intro hp
      have hr : r = .ok := by cases r <;> simp [hpc, published] at hp ⊢
      exact auPc_pub _ t r (by simp [hm]) hr
    · intro _ _ h; simpa using h
    · intro _ hm h
      simp only [afterUnlock_accepted, afterUnlock_delivered]
      refine h.imp id (fun h => h.keep ?_)
      intro hp
      have hr : r = .ok := by cases r <;> simp [hpc, published] at hp ⊢
      exact auPc_pub _ t r (by simp [hm]) hr


/-- an exit through `afterUnlock` / `finishCall` of a thread that has just done its wake -/
theorem InvP_after_wake {s : St} {t : Nat} {p' : Pc} {s' : St} (hi : InvP s) (ht : t < s.cfg.W)
    (e1 : s'.cfg = s.cfg) (e2 : s'.wlock = s.wlock) (e3 : s'.wc = s.wc) (e4 : s'.accepted = s.accepted)
    (e5 : s'.delivered = s.delivered) (e6 : s'.pc = upd s.pc t p') (e7 : s'.holder = s.holder)
    (c1 : isWPc p' = true) (c3 : isBlk p' = false) (c4 : ∀ e, p' ≠ .wFwait e)
    (hpark : Ex isBlk s.pc s.cfg.W → s.wlock ≠ 0 ∨ ∃ w, w < s.cfg.W ∧ w ≠ t ∧ lockActive (s.pc w) = true)
    (hpub : published (s.pc t) = true → published p' = true ∨
      ((∀ r, s.pc s.cfg.W ≠ .rBlocked r) ∧ s.pc s.cfg.W ≠ .rmCvBlocked)) : InvP s' := by
  refine InvP_wgen hi ht e1 e6 c1 (fun h => by rw [h] at c3; cases c3) (fun e h => absurd h (c4 e)) ?_ ?_ ?_ ?_ ?_
  · intro hx h h0; rw [e2] at h0; rw [e7]; exact h h0
  · intro _ hb _
    rw [e2]
    rcases hpark (hb.back c3) with h | ⟨w, hw, hne, ha⟩
    · exact Or.inl h
    · exact Or.inr ⟨w, hw, by rw [upd_other _ _ _ _ hne]; exact ha⟩
  · intro rpos hp _ h
    rw [e3]
    refine h.imp id (fun h => h.keep ?_)
    intro hx
    rcases hpub hx with h | ⟨h, -⟩
    · exact h
    · exact absurd hp (h rpos)
  · intro _ _ h; rw [e4, e5]; exact h
  · intro hp _ h
    rw [e4, e5]
    refine h.imp id (fun h => h.keep ?_)
    intro hx
    rcases hpub hx with h | ⟨-, h⟩
    · exact h
    · exact absurd hp h

theorem busy_not_blocked {s : St} (hi : InvP s) (hbz : s.cfg.rm = .busy) :
    (∀ r, s.pc s.cfg.W ≠ .rBlocked r) ∧ s.pc s.cfg.W ≠ .rmCvBlocked := by
  constructor
  · intro r hp
    have := (hi.rbl r hp).1
    rw [hbz] at this; cases this
  · intro hp
    have := (hi.rcb hp).1
    rw [hbz] at this; cases this

theorem p_wUnlockWake (r : Ret) (hpc : s.pc t = .wUnlockWake r) (ht : t < s.cfg.W) (hi : InvP s)
    (h : wstep s t = some (s', ev)) : InvP s' := by
  open_w
  split at h <;> (simp only [Option.some.injEq, Prod.mk.injEq] at h; obtain ⟨rfl, -⟩ := h)
  next w hw =>
    have hb := firstBlocked_spec _ _ _ _ hw
    have hlt := firstBlocked_lt _ _ _ _ hw
    have hne : w ≠ t := by intro e; rw [e, hpc] at hb; cases hb
    have hi1 : InvP { s with pc := upd s.pc w .wWoken } :=
      InvP_wmove hi (by simpa using hlt) rfl rfl rfl rfl rfl rfl (fun _ => rfl) rfl rfl (fun e h => by cases h)
        (Or.inl (by simp [hb, lockActive])) (by intro _; simp [hb, published])
    obtain ⟨f1, f2, f3, f4⟩ := auPc_facts { s with pc := upd s.pc w .wWoken } t r
    refine InvP_after_wake (p' := auPc _ t r) hi1 ht (by simp) (by simp) (by simp) (by simp) (by simp)
      (by rw [afterUnlock_pc]) (by simp) f1 f2 f3 ?_ ?_
    · intro _; right
      exact ⟨w, by simpa using hlt, hne, by simp [lockActive]⟩
    · intro hp
      simp only [upd_other _ _ _ _ (Ne.symm hne), hpc] at hp
      have hr : r = .ok := by cases r <;> simp [published] at hp ⊢
      by_cases hbz : s.cfg.rm = .busy
      · right
        have hwW : w < s.cfg.W := by simpa using hlt
        simp only [upd_other _ _ _ _ (Nat.ne_of_gt hwW)]
        exact busy_not_blocked hi hbz
      · left; exact auPc_pub _ t r (by simpa using hbz) hr
  next hnone =>
    obtain ⟨f1, f2, f3, f4⟩ := auPc_facts s t r
    refine InvP_after_wake (p' := auPc _ t r) hi ht (by simp) (by simp) (by simp) (by simp) (by simp)
      (by rw [afterUnlock_pc]) (by simp) f1 f2 f3 ?_ ?_
    · intro ⟨t', ht', hp⟩
      exact absurd (blk_eq hp) (firstBlocked_none _ _ _ hnone t' (Nat.zero_le _) (by simpa using ht'))
    · intro hp
      rw [hpc] at hp
      have hr : r = .ok := by cases r <;> simp [published] at hp ⊢
      by_cases hbz : s.cfg.rm = .busy
      · right; exact busy_not_blocked hi hbz
      · left; exact auPc_pub _ t r hbz hr

theorem p_wWake (hpc : s.pc t = .wWake) (ht : t < s.cfg.W) (hi : InvP s)
    (h : wstep s t = some (s', ev)) : InvP s' := by
  open_w
  have hneW : s.cfg.W ≠ t := Nat.ne_of_gt ht
  have hparkS : ∀ pc' : Nat → Pc, (∀ x, x < s.cfg.W → pc' x = s.pc x) →
      Ex isBlk pc' s.cfg.W → s.wlock ≠ 0 ∨ ∃ w, w < s.cfg.W ∧ w ≠ t ∧ lockActive (pc' w) = true := by
    intro pc' hsame ⟨x, hx, hp⟩
    rw [hsame x hx] at hp
    rcases hi.park ⟨x, hx, hp⟩ with h | ⟨w, hw, ha⟩
    · exact Or.inl h
    · refine Or.inr ⟨w, hw, ?_, by rw [hsame w hw]; exact ha⟩
      intro e; rw [e, hpc] at ha; cases ha
  cases hrm : s.cfg.rm <;> simp only [hrm, Cfg.reader] at h
  case busy => cases h
  case sync =>
    split at h <;> (simp only [Option.some.injEq, Prod.mk.injEq] at h; obtain ⟨rfl, -⟩ := h)
    next rpos hr =>
      have hi1 : InvP { s with pc := upd s.pc s.cfg.W (.rWoken rpos) } :=
        InvP_rmove hi rfl rfl rfl rfl rfl (fun a b h => by cases h) (fun a h => by cases h) (fun h => by cases h)
          (fun h => by cases h)
      obtain ⟨f1, f2, f3, f4⟩ := fcPc_facts { s with pc := upd s.pc s.cfg.W (.rWoken rpos) } t .ok
      refine InvP_after_wake (p' := fcPc _ t .ok) hi1 ht (by simp) (by simp) (by simp) (by simp) (by simp)
        (by rw [finishCall_pc]) (by simp) f1 f2 f3 ?_ ?_
      · exact hparkS _ (fun x hx => upd_other _ _ _ _ (Nat.ne_of_lt hx))
      · intro _; right; simp only [upd_same]
        exact ⟨fun r h => (by cases h), fun h => (by cases h)⟩
    next hnb =>
      obtain ⟨f1, f2, f3, f4⟩ := fcPc_facts s t .ok
      refine InvP_after_wake (p' := fcPc _ t .ok) hi ht (by simp) (by simp) (by simp) (by simp) (by simp)
        (by rw [finishCall_pc]) (by simp) f1 f2 f3 ?_ ?_
      · exact hparkS _ (fun _ _ => rfl)
      · intro _; right
        refine ⟨fun r h => hnb r h, fun h => ?_⟩
        have := (hi.rcb h).1; rw [hrm] at this; cases this
  case mutex =>
    split at h <;> (simp only [Option.some.injEq, Prod.mk.injEq] at h; obtain ⟨rfl, -⟩ := h)
    next hr =>
      have hi1 : InvP { s with pc := upd s.pc s.cfg.W .rmCvSignaled } :=
        InvP_rmove hi rfl rfl rfl rfl rfl (fun a b h => by cases h) (fun a h => by cases h) (fun h => by cases h)
          (fun h => by cases h)
      obtain ⟨f1, f2, f3, f4⟩ := fcPc_facts { s with pc := upd s.pc s.cfg.W .rmCvSignaled } t .ok
      refine InvP_after_wake (p' := fcPc _ t .ok) hi1 ht (by simp) (by simp) (by simp) (by simp) (by simp)
        (by rw [finishCall_pc]) (by simp) f1 f2 f3 ?_ ?_
      · exact hparkS _ (fun x hx => upd_other _ _ _ _ (Nat.ne_of_lt hx))
      · intro _; right; simp only [upd_same]
        exact ⟨fun r h => (by cases h), fun h => (by cases h)⟩
    next hnb =>
      obtain ⟨f1, f2, f3, f4⟩ := fcPc_facts s t .ok
      refine InvP_after_wake (p' := fcPc _ t .ok) hi ht (by simp) (by simp) (by simp) (by simp) (by simp)
        (by rw [finishCall_pc]) (by simp) f1 f2 f3 ?_ ?_
      · exact hparkS _ (fun _ _ => rfl)
      · intro _; right
        refine ⟨fun r h => ?_, fun h => hnb h⟩
        have := (hi.rbl r h).1; rw [hrm] at this; cases this


/-! ### reader steps -/

set_option hygiene false in
macro "open_r" : tactic => `(tactic| (simp only [rstep, hpc, Option.some.injEq, Prod.mk.injEq] at h))

set_option hygiene false in
macro "rmove" : tactic => `(tactic|
  (refine InvP_rmove hi rfl rfl rfl rfl ?_ ?_ ?_ ?_ ?_
   · simp [isRPc]
   · intro a b he; cases he
   · intro a he; cases he
   · intro he; cases he
   · intro he; cases he))

theorem pr_rRdR (hpc : s.pc s.cfg.W = .rRdR) (hi : InvP s)
    (h : rstep s s.cfg.W f = some (s', ev)) : InvP s' := by
  open_r
  first
    | (obtain ⟨rfl, -⟩ := h; rmove)
    | (split at h
       · simp only [Option.some.injEq, Prod.mk.injEq] at h; obtain ⟨rfl, -⟩ := h; rmove
       · cases h)

theorem pr_rWoken (rpos : Nat) (hpc : s.pc s.cfg.W = .rWoken rpos) (hi : InvP s)
    (h : rstep s s.cfg.W f = some (s', ev)) : InvP s' := by
  open_r
  first
    | (obtain ⟨rfl, -⟩ := h; rmove)
    | (split at h
       · simp only [Option.some.injEq, Prod.mk.injEq] at h; obtain ⟨rfl, -⟩ := h; rmove
       · cases h)

theorem pr_rRdB (rpos : Nat) (hpc : s.pc s.cfg.W = .rRdB rpos) (hi : InvP s)
    (h : rstep s s.cfg.W f = some (s', ev)) : InvP s' := by
  open_r
  first
    | (obtain ⟨rfl, -⟩ := h; rmove)
    | (split at h
       · simp only [Option.some.injEq, Prod.mk.injEq] at h; obtain ⟨rfl, -⟩ := h; rmove
       · cases h)

theorem pr_rmLock (hpc : s.pc s.cfg.W = .rmLock) (hi : InvP s)
    (h : rstep s s.cfg.W f = some (s', ev)) : InvP s' := by
  open_r
  first
    | (obtain ⟨rfl, -⟩ := h; rmove)
    | (split at h
       · simp only [Option.some.injEq, Prod.mk.injEq] at h; obtain ⟨rfl, -⟩ := h; rmove
       · cases h)

theorem pr_rmRdR (hpc : s.pc s.cfg.W = .rmRdR) (hi : InvP s)
    (h : rstep s s.cfg.W f = some (s', ev)) : InvP s' := by
  open_r
  first
    | (obtain ⟨rfl, -⟩ := h; rmove)
    | (split at h
       · simp only [Option.some.injEq, Prod.mk.injEq] at h; obtain ⟨rfl, -⟩ := h; rmove
       · cases h)

theorem pr_rmCvBlocked (hpc : s.pc s.cfg.W = .rmCvBlocked) (hi : InvP s)
    (h : rstep s s.cfg.W f = some (s', ev)) : InvP s' := by
  open_r
  first
    | (obtain ⟨rfl, -⟩ := h; rmove)
    | (split at h
       · simp only [Option.some.injEq, Prod.mk.injEq] at h; obtain ⟨rfl, -⟩ := h; rmove
       · cases h)

theorem pr_rmCvSignaled (hpc : s.pc s.cfg.W = .rmCvSignaled) (hi : InvP s)
    (h : rstep s s.cfg.W f = some (s', ev)) : InvP s' := by
  open_r
  first
    | (obtain ⟨rfl, -⟩ := h; rmove)
    | (split at h
       · simp only [Option.some.injEq, Prod.mk.injEq] at h; obtain ⟨rfl, -⟩ := h; rmove
       · cases h)

theorem pr_rmRdB (rpos : Nat) (hpc : s.pc s.cfg.W = .rmRdB rpos) (hi : InvP s)
    (h : rstep s s.cfg.W f = some (s', ev)) : InvP s' := by
  open_r
  first
    | (obtain ⟨rfl, -⟩ := h; rmove)
    | (split at h
       · simp only [Option.some.injEq, Prod.mk.injEq] at h; obtain ⟨rfl, -⟩ := h; rmove
       · cases h)

theorem pr_rmWrR (rpos : Nat) (d : Option Msg) (hpc : s.pc s.cfg.W = .rmWrR rpos d) (hi : InvP s)
    (h : rstep s s.cfg.W f = some (s', ev)) : InvP s' := by
  open_r
  first
    | (obtain ⟨rfl, -⟩ := h; rmove)
    | (split at h
       · simp only [Option.some.injEq, Prod.mk.injEq] at h; obtain ⟨rfl, -⟩ := h; rmove
       · cases h)

theorem rrPc_notwait (s : St) (t : Nat) (d : Option Msg) :
    isRPc (rrPc s t d) = true ∧ (∀ a b, rrPc s t d ≠ .rFwait a b) ∧ (∀ a, rrPc s t d ≠ .rBlocked a) ∧
    rrPc s t d ≠ .rmCvWait ∧ rrPc s t d ≠ .rmCvBlocked := by
  rcases rrPc_cases s t d with ⟨m, -, h⟩ | ⟨-, h | h | h⟩ <;> simp [h, isRPc]

theorem InvP_returned {s1 s : St} {d : Option Msg} (hi : InvP s) (e1 : s1.cfg = s.cfg)
    (e2 : s1.wlock = s.wlock) (e6 : s1.pc = s.pc) (e7 : s1.holder = s.holder) :
    InvP (readReturned s1 s.cfg.W d).1 := by
  obtain ⟨f1, f2, f3, f4, f5⟩ := rrPc_notwait s1 s.cfg.W d
  exact InvP_rmove (p' := rrPc s1 s.cfg.W d) hi (by simp [e1]) (by simp [e2]) (by rw [readReturned_pc, e6])
    (by simp [e7]) f1 f2 f3 f4 f5

theorem pr_rStR (rpos : Nat) (d : Option Msg) (hpc : s.pc s.cfg.W = .rStR rpos d) (hi : InvP s)
    (h : rstep s s.cfg.W f = some (s', ev)) : InvP s' := by
  open_r; obtain ⟨rfl, -⟩ := h
  exact InvP_returned hi rfl rfl rfl rfl

theorem pr_rmUnlock (d : Option Msg) (hpc : s.pc s.cfg.W = .rmUnlock d) (hi : InvP s)
    (h : rstep s s.cfg.W f = some (s', ev)) : InvP s' := by
  open_r; obtain ⟨rfl, -⟩ := h
  exact InvP_returned hi rfl rfl rfl rfl

theorem pr_rPay (m : Msg) (hpc : s.pc s.cfg.W = .rPay m) (hi : InvP s)
    (h : rstep s s.cfg.W f = some (s', ev)) : InvP s' := by
  open_r; obtain ⟨rfl, -⟩ := h
  refine InvP_rmove hi rfl rfl rfl rfl ?_ ?_ ?_ ?_ ?_
  · split <;> (try split) <;> simp [isRPc]
  · intro a b; split <;> (try split) <;> simp
  · intro a; split <;> (try split) <;> simp
  · split <;> (try split) <;> simp
  · split <;> (try split) <;> simp

/-- general reader step into one of the waiting pcs -/
theorem InvP_rwait {s s' : St} {p' : Pc} (hi : InvP s)
    (e1 : s'.cfg = s.cfg) (e2 : s'.wlock = s.wlock) (e3 : s'.wc = s.wc) (e4 : s'.accepted = s.accepted)
    (e5 : s'.delivered = s.delivered) (e6 : s'.pc = upd s.pc s.cfg.W p') (e7 : s'.holder = s.holder)
    (c1 : isRPc p' = true)
    (c2 : ∀ a b, p' = .rFwait a b → b = a ∧ s.cfg.rm = .sync)
    (c3 : ∀ a, p' = .rBlocked a → s.cfg.rm = .sync ∧ s.wc = a)
    (c4 : p' = .rmCvWait → s.cfg.rm = .mutex ∧ s.accepted.length = s.delivered.length)
    (c5 : p' = .rmCvBlocked → s.cfg.rm = .mutex ∧ s.accepted.length = s.delivered.length) : InvP s' := by
  obtain ⟨q1, q2, q3, q3b, q4, q5, q6, q7, q8, q9⟩ := hi
  have hne : ∀ t, t < s.cfg.W → upd s.pc s.cfg.W p' t = s.pc t :=
    fun t ht => upd_other _ _ _ _ (Nat.ne_of_lt ht)
  have hex : ∀ P, Ex P (upd s.pc s.cfg.W p') s.cfg.W ↔ Ex P s.pc s.cfg.W := by
    intro P
    constructor
    · rintro ⟨t, ht, hp⟩; exact ⟨t, ht, by rw [hne t ht] at hp; exact hp⟩
    · rintro ⟨t, ht, hp⟩; exact ⟨t, ht, by rw [hne t ht]; exact hp⟩
  refine ⟨?_, ?_, ?_, ?_, ?_, ?_, ?_, ?_, ?_, ?_⟩
  all_goals simp only [e1, e2, e3, e4, e5, e6, e7, upd_same, hex]
  · intro t ht; rw [hne t ht]; exact q1 t ht
  · exact c1
  · intro t e ht hp; rw [hne t ht] at hp; exact q3 t e ht hp
  · intro t ht hp; rw [hne t ht] at hp; exact q3b t ht hp
  · exact q4
  · exact q5
  · intro a b hp; exact c2 a b hp
  · intro a hp; exact ⟨(c3 a hp).1, Or.inl (c3 a hp).2⟩
  · intro hp; exact c4 hp
  · intro hp; exact ⟨(c5 hp).1, Or.inl (c5 hp).2⟩

theorem pr_rLdW (rpos : Nat) (hpc : s.pc s.cfg.W = .rLdW rpos) (hB : InvHB s) (hi : InvP s)
    (h : rstep s s.cfg.W f = some (s', ev)) : InvP s' := by
  have hm := hB.rd
  rw [hpc] at hm; simp only [RHB] at hm
  open_r
  split at h
  · simp only [Option.some.injEq, Prod.mk.injEq] at h; obtain ⟨rfl, -⟩ := h; rmove
  next heq =>
    have heq' : s.wc = rpos := Classical.not_not.1 heq
    cases hrm : s.cfg.rm <;> simp only [hrm, Option.some.injEq, Prod.mk.injEq] at h <;> obtain ⟨rfl, -⟩ := h
    · refine InvP_rwait hi rfl rfl rfl rfl rfl rfl rfl (by simp [isRPc]) ?_ (fun a h => by cases h)
        (fun h => by cases h) (fun h => by cases h)
      intro a b he; cases he; exact ⟨heq', hrm⟩
    · exact absurd hrm hm
    · have : ({ s with know := upd s.know s.cfg.W (joinK (s.know s.cfg.W) s.relWC) } : St).pc =
          upd s.pc s.cfg.W (.rLdW rpos) := by
        funext j; simp only [upd]; split
        next e => rw [e, hpc]
        next => rfl
      exact InvP_rmove hi rfl rfl this rfl (by simp [isRPc]) (fun a b h => by cases h) (fun a h => by cases h)
        (fun h => by cases h) (fun h => by cases h)

theorem pr_rFwait (rpos wpos : Nat) (hpc : s.pc s.cfg.W = .rFwait rpos wpos) (hi : InvP s)
    (h : rstep s s.cfg.W f = some (s', ev)) : InvP s' := by
  have hf := hi.rfw rpos wpos hpc
  open_r
  split at h <;> (simp only [Option.some.injEq, Prod.mk.injEq] at h; obtain ⟨rfl, -⟩ := h)
  next he =>
    refine InvP_rwait hi rfl rfl rfl rfl rfl rfl rfl (by simp [isRPc]) (fun a b h => by cases h) ?_
      (fun h => by cases h) (fun h => by cases h)
    intro a h; cases h; exact ⟨hf.2, by rw [he, hf.1]⟩
  · rmove

theorem pr_rmRdW (rpos : Nat) (hpc : s.pc s.cfg.W = .rmRdW rpos) (hI : Inv s) (hB : InvHB s) (hi : InvP s)
    (h : rstep s s.cfg.W f = some (s', ev)) : InvP s' := by
  have hm := hB.rd
  rw [hpc] at hm; simp only [RHB] at hm
  have hl := hI.rloc
  rw [hpc] at hl; simp only [RLoc] at hl
  open_r
  split at h <;> (simp only [Option.some.injEq, Prod.mk.injEq] at h; obtain ⟨rfl, -⟩ := h)
  · rmove
  next heq =>
    have heq' : rpos = s.wc := Classical.not_not.1 heq
    refine InvP_rwait hi rfl rfl rfl rfl rfl rfl rfl (by simp [isRPc]) (fun a b h => by cases h)
      (fun a h => by cases h) ?_ (fun h => by cases h)
    intro _; exact ⟨hm, empty_of_cursors hI (by rw [← hl, heq'])⟩

theorem pr_rmCvWait (hpc : s.pc s.cfg.W = .rmCvWait) (hi : InvP s)
    (h : rstep s s.cfg.W f = some (s', ev)) : InvP s' := by
  have hc := hi.rcw hpc
  open_r; obtain ⟨rfl, -⟩ := h
  exact InvP_rwait hi rfl rfl rfl rfl rfl rfl rfl (by simp [isRPc]) (fun a b h => by cases h)
    (fun a h => by cases h) (fun h => by cases h) (fun _ => hc)

/-! ### all steps, all reachable states -/

theorem wstep_invP (ht : t < s.cfg.W) (hI : Inv s) (hi : InvP s) (h : wstep s t = some (s', ev)) : InvP s' := by
  cases hpc : s.pc t with
  | wPay => exact p_wPay hpc ht hi h
  | wLock => exact p_wLock hpc ht hi h
  | wSpinYield => exact p_wSpinYield hpc ht hi h
  | wFwait e => exact p_wFwait e hpc ht hi h
  | wWoken => exact p_wWoken hpc ht hi h
  | sLdR => exact p_sLdR hpc ht hi h
  | sRdW rpos => exact p_sRdW rpos hpc ht hi h
  | cRdW2 wpos => exact p_cRdW2 wpos hpc ht hi h
  | cWrB wpos idx => exact p_cWrB wpos idx hpc ht hi h
  | cSt wpos => exact p_cSt wpos hpc ht hI hi h
  | bRdW => exact p_bRdW hpc ht hi h
  | bRdC wpos => exact p_bRdC wpos hpc ht hi h
  | bLdR wpos => exact p_bLdR wpos hpc ht hi h
  | bWrC wpos v => exact p_bWrC wpos v hpc ht hi h
  | bRdC2 wpos => exact p_bRdC2 wpos hpc ht hi h
  | mLock => exact p_mLock hpc ht hi h
  | mRdW => exact p_mRdW hpc ht hi h
  | mRdR wpos => exact p_mRdR wpos hpc ht hi h
  | mRdW2 wpos => exact p_mRdW2 wpos hpc ht hi h
  | mWrB wpos idx => exact p_mWrB wpos idx hpc ht hi h
  | mWrW wpos => exact p_mWrW wpos hpc ht hI hi h
  | mUnlock r => exact p_mUnlock r hpc ht hi h
  | wUnlock r => exact p_wUnlock r hpc ht hi h
  | wUnlockWake r => exact p_wUnlockWake r hpc ht hi h
  | wWake => exact p_wWake hpc ht hi h
  | wYield => exact p_wYield hpc ht hi h
  | _ => simp [wstep, hpc] at h

theorem rstep_invP (hI : Inv s) (hB : InvHB s) (hi : InvP s) (h : rstep s s.cfg.W f = some (s', ev)) :
    InvP s' := by
  cases hpc : s.pc s.cfg.W with
  | rRdR => exact pr_rRdR hpc hi h
  | rLdW rpos => exact pr_rLdW rpos hpc hB hi h
  | rFwait rpos wpos => exact pr_rFwait rpos wpos hpc hi h
  | rWoken rpos => exact pr_rWoken rpos hpc hi h
  | rRdB rpos => exact pr_rRdB rpos hpc hi h
  | rStR rpos d => exact pr_rStR rpos d hpc hi h
  | rPay m => exact pr_rPay m hpc hi h
  | rmLock => exact pr_rmLock hpc hi h
  | rmRdR => exact pr_rmRdR hpc hi h
  | rmRdW rpos => exact pr_rmRdW rpos hpc hI hB hi h
  | rmCvWait => exact pr_rmCvWait hpc hi h
  | rmCvBlocked => exact pr_rmCvBlocked hpc hi h
  | rmCvSignaled => exact pr_rmCvSignaled hpc hi h
  | rmRdB rpos => exact pr_rmRdB rpos hpc hi h
  | rmWrR rpos d => exact pr_rmWrR rpos d hpc hi h
  | rmUnlock d => exact pr_rmUnlock d hpc hi h
  | _ => simp [rstep, hpc] at h

/-- the interrupted futex wait (EINTR) preserves blocked-implies-reason: a reader that leaves the
futex re-loads `write_cursor`; a writer that leaves it retries the lock (it is `lockActive`, so every
writer still parked keeps its reason) -/
theorem spur_invP {s : St} {t : Nat} {q : Pc} (hle : t ≤ s.cfg.W) (hi : InvP s)
    (hq : (∃ rpos, s.pc t = .rBlocked rpos ∧ q = .rLdW rpos) ∨ (s.pc t = .wBlocked ∧ q = .wLock)) :
    InvP { s with pc := upd s.pc t q } := by
  obtain ⟨k1, k2, k3, k4, k5, k6, k7, k8, k9, k10⟩ := hi
  rcases hq with ⟨rpos, hp, rfl⟩ | ⟨hp, rfl⟩
  · -- the reader
    have hW : t = s.cfg.W := by
      apply Classical.byContradiction; intro hne
      have := k1 t (by omega); rw [hp] at this; simp [isWPc] at this
    subst hW
    have hw : ∀ u, u < s.cfg.W → upd s.pc s.cfg.W (Pc.rLdW rpos) u = s.pc u :=
      fun u hu => upd_other _ _ _ _ (Nat.ne_of_lt hu)
    have hex : ∀ P : Pc → Bool, Ex P (upd s.pc s.cfg.W (Pc.rLdW rpos)) s.cfg.W ↔ Ex P s.pc s.cfg.W := by
      intro P
      constructor
      · rintro ⟨u, hu, h⟩; exact ⟨u, hu, by rw [hw u hu] at h; exact h⟩
      · rintro ⟨u, hu, h⟩; exact ⟨u, hu, by rw [hw u hu]; exact h⟩
    refine ⟨?_, ?_, ?_, ?_, k5, ?_, ?_, ?_, ?_, ?_⟩
    · intro u hu; simp only [hw u hu]; exact k1 u hu
    · simp [isRPc]
    · intro u e hu h; simp only [hw u hu] at h; exact k3 u e hu h
    · intro u hu h; simp only [hw u hu] at h; exact k4 u hu h
    · intro h; simp only [hex] at h ⊢; exact k6 h
    · intro a b h; simp at h
    · intro a h; simp at h
    · intro h; simp at h
    · intro h; simp at h
  · -- a writer
    have hlt : t < s.cfg.W := by
      apply Classical.byContradiction; intro hne
      have hW : t = s.cfg.W := by omega
      subst hW
      have := k2; rw [hp] at this; simp [isRPc] at this
    have hR : upd s.pc t Pc.wLock s.cfg.W = s.pc s.cfg.W := upd_W hlt
    have hsync := k4 t hlt hp
    have hpub : Ex published s.pc s.cfg.W → Ex published (upd s.pc t Pc.wLock) s.cfg.W :=
      fun h => Ex.keep h (by rw [hp]; simp [published])
    refine ⟨?_, ?_, ?_, ?_, k5, ?_, ?_, ?_, ?_, ?_⟩
    · intro u hu
      by_cases hut : u = t
      · subst hut; simp [isWPc]
      · simp only [upd_other _ _ _ _ hut]; exact k1 u hu
    · simp only [hR]; exact k2
    · intro u e hu h
      by_cases hut : u = t
      · subst hut; simp at h
      · simp only [upd_other _ _ _ _ hut] at h; exact k3 u e hu h
    · intro u hu h
      by_cases hut : u = t
      · subst hut; simp at h
      · simp only [upd_other _ _ _ _ hut] at h; exact k4 u hu h
    · intro _; exact Or.inr (Ex.new hlt (by simp [lockActive]))
    · intro a b h; simp only [hR] at h; exact k7 a b h
    · intro a h
      simp only [hR] at h
      obtain ⟨h1, h2⟩ := k8 a h
      exact ⟨h1, h2.imp id hpub⟩
    · intro h; simp only [hR] at h; exact k9 h
    · intro h
      simp only [hR] at h
      obtain ⟨h1, h2⟩ := k10 h
      exact ⟨h1, h2.imp id hpub⟩

theorem step_invP {s s' : St} {tok : Tok} {ev : List String} (hI : Inv s) (hB : InvHB s) (hi : InvP s)
    (h : step s tok = some (s', ev)) : InvP s' := by
  rcases step_cases h with ⟨hle, q, rfl, hq⟩ | h
  · exact spur_invP hle hi hq
  unfold stepMain at h
  split at h
  · cases h
  next hen =>
    have hen' : s.enabled tok = true := by simpa using hen
    split at h
    next hlt => exact wstep_invP hlt hI hi h
    next hge =>
      have hle : tok.tid ≤ s.cfg.W := by
        simp only [St.enabled, Bool.and_eq_true, decide_eq_true_eq] at hen'
        exact hen'.1
      have hW : tok.tid = s.cfg.W := Nat.le_antisymm hle (Nat.le_of_not_lt hge)
      rw [hW] at h
      exact rstep_invP hI hB hi h

theorem init_invP (c : Cfg) : InvP (mkInit c) := by
  refine ⟨?_, ?_, ?_, ?_, ?_, ?_, ?_, ?_, ?_, ?_⟩ <;> simp only [mkInit]
  · intro t ht; simp only [ht, if_true]; split <;> rfl
  · simp only [Nat.lt_irrefl, if_false, if_true]
    split
    · rfl
    · cases c.rm <;> rfl
  · intro t e ht hp; simp only [ht, if_true] at hp; split at hp <;> cases hp
  · intro t ht hp; simp only [ht, if_true] at hp; split at hp <;> cases hp
  · intro _ h; exact absurd rfl h
  · intro ⟨t, ht, hp⟩; simp only [ht, if_true] at hp; split at hp <;> simp [isBlk] at hp
  · intro a b hp; simp only [Nat.lt_irrefl, if_false, if_true] at hp
    split at hp
    · cases hp
    · cases hrm : c.rm <;> simp [hrm] at hp
  · intro a hp; simp only [Nat.lt_irrefl, if_false, if_true] at hp
    split at hp
    · cases hp
    · cases hrm : c.rm <;> simp [hrm] at hp
  · intro hp; simp only [Nat.lt_irrefl, if_false, if_true] at hp
    split at hp
    · cases hp
    · cases hrm : c.rm <;> simp [hrm] at hp
  · intro hp; simp only [Nat.lt_irrefl, if_false, if_true] at hp
    split at hp
    · cases hp
    · cases hrm : c.rm <;> simp [hrm] at hp

theorem reach_invP (c : Cfg) (hv : Valid c) (s : St) (hr : Reach step (mkInit c) s) :
    Inv s ∧ InvHB s ∧ InvP s := by
  have h : (Inv s ∧ InvE s ∧ InvHB s) ∧ InvP s :=
    Reach.inv (fun s => (Inv s ∧ InvE s ∧ InvHB s) ∧ InvP s)
      ⟨⟨init_inv c hv, init_invE c, init_invHB c⟩, init_invP c⟩
      (fun _ _ _ _ hi h =>
        ⟨⟨step_inv hi.1.1 h, step_invE hi.1.2.1 h, step_invHB hi.1.1 hi.1.2.1 hi.1.2.2 h⟩,
          step_invP hi.1.1 hi.1.2.2 hi.2 h⟩) s hr
  exact ⟨h.1.1, h.1.2.2, h.2⟩


/-! ### no deadlock -/

/-- why a thread can be disabled (for an ordinary, non-spurious schedule token) -/
theorem disabled_cases {s : St} {t : Nat} (ht : t ≤ s.cfg.W) (h : s.enabled ⟨t, .none⟩ = false) :
    s.pc t = .done ∨ s.pc t = .wBlocked ∨ (∃ r, s.pc t = .rBlocked r) ∨ s.pc t = .rmCvBlocked ∨
    (s.pc t = .wLock ∧ s.cfg.wl = .mutex ∧ s.holder ≠ none) ∨ (s.pc t = .mLock ∧ s.rmtx ≠ none) ∨
    (s.pc t = .rmLock ∧ s.rmtx ≠ none) ∨ (s.pc t = .rmCvSignaled ∧ s.rmtx ≠ none) := by
  cases hpc : s.pc t <;> simp [St.enabled, hpc, ht] at h ⊢
  · cases hwl : s.cfg.wl <;> simp [hwl] at h ⊢
    intro e; rw [e] at h; simp at h
  · intro e; rw [e] at h; simp at h
  · intro e; rw [e] at h; simp at h
  · intro e; rw [e] at h; simp at h

/-- **no global sleep**: if no thread can take an (ordinary) step, then every writer has
finished its program and the reader has either finished or is waiting on an *empty* channel
(it was asked to read more than was ever written). In particular no state is reachable in
which everybody sleeps while a writer still has a message to write or an accepted message is
unread: no lost wake-up, no deadlock — for every lock kind, reader mode, capacity, thread
count, workload and schedule. -/
theorem no_global_sleep {c : Cfg} {s : St} (hv : Valid c) (hr : Reach step (mkInit c) s)
    (hdis : ∀ t, s.enabled ⟨t, .none⟩ = false) :
    (∀ t, t < s.cfg.W → s.pc t = .done) ∧
    (s.pc s.cfg.W = .done ∨ s.accepted.length = s.delivered.length) := by
  obtain ⟨hI, hB, hP⟩ := reach_invP c hv s hr
  -- nobody owns read_mutex
  have hrm : s.rmtx = none := by
    cases hx : s.rmtx with
    | none => rfl
    | some x =>
      exfalso
      obtain ⟨hxW, hin⟩ := (hI.rmo x).1 hx
      rcases disabled_cases hxW (hdis x) with h | h | ⟨r, h⟩ | h | ⟨h, -⟩ | ⟨h, -⟩ | ⟨h, -⟩ | ⟨h, -⟩ <;>
        simp [h, inRM] at hin
  -- nobody owns the write lock
  have hho : s.holder = none := by
    cases hx : s.holder with
    | none => rfl
    | some x =>
      exfalso
      obtain ⟨hxW, hin⟩ := (hI.hold x).1 hx
      rcases disabled_cases (Nat.le_of_lt hxW) (hdis x) with h | h | ⟨r, h⟩ | h | ⟨h, -⟩ | ⟨h, hr'⟩ | ⟨h, -⟩ | ⟨h, -⟩ <;>
        first | (simp [h, inCS] at hin; done) | exact hr' hrm
  -- the futex / spin lock word is clear
  have hwl0 : s.cfg.wl = .spin ∨ s.cfg.wl = .sync → s.wlock = 0 := by
    intro hx
    rcases Nat.eq_zero_or_pos s.wlock with h | h
    · exact h
    · exact absurd hho (hP.lock1 hx (by omega))
  -- no writer is active on the lock, hence none is parked on it
  have hnoact : ¬ Ex lockActive s.pc s.cfg.W := by
    rintro ⟨x, hx, ha⟩
    rcases disabled_cases (Nat.le_of_lt hx) (hdis x) with h | h | ⟨r, h⟩ | h | ⟨h, -, hh⟩ | ⟨h, -⟩ | ⟨h, -⟩ | ⟨h, -⟩ <;>
      first | (simp [h, lockActive] at ha; done) | exact hh hho
  have hnoblk : ∀ x, x < s.cfg.W → s.pc x ≠ .wBlocked := by
    intro x hx hp
    have hsync := hP.blk x hx hp
    rcases hP.park ⟨x, hx, by simp [hp, isBlk]⟩ with h | h
    · exact h (hwl0 (Or.inr hsync))
    · exact hnoact h
  have hwdone : ∀ x, x < s.cfg.W → s.pc x = .done := by
    intro x hx
    have hk := hP.kindW x hx
    rcases disabled_cases (Nat.le_of_lt hx) (hdis x) with h | h | ⟨r, h⟩ | h | ⟨h, -, hh⟩ | ⟨h, hr'⟩ | ⟨h, -⟩ | ⟨h, -⟩
    · exact h
    · exact absurd h (hnoblk x hx)
    · rw [h] at hk; simp [isWPc] at hk
    · rw [h] at hk; simp [isWPc] at hk
    · exact absurd hho hh
    · exact absurd hrm hr'
    · rw [h] at hk; simp [isWPc] at hk
    · rw [h] at hk; simp [isWPc] at hk
  have hnopub : ¬ Ex published s.pc s.cfg.W := by
    rintro ⟨x, hx, hp⟩
    rw [hwdone x hx] at hp; simp [published] at hp
  refine ⟨hwdone, ?_⟩
  have hk := hP.kindR
  rcases disabled_cases (Nat.le_refl _) (hdis s.cfg.W) with h | h | ⟨r, h⟩ | h | ⟨h, -⟩ | ⟨h, -⟩ | ⟨h, hr'⟩ | ⟨h, hr'⟩
  · exact Or.inl h
  · rw [h] at hk; simp [isRPc] at hk
  · right
    have hl := hI.rloc
    rw [h] at hl; simp only [RLoc] at hl
    rcases (hP.rbl r h).2 with hw | hw
    · exact empty_of_cursors hI (by rw [← hl, hw])
    · exact absurd hw hnopub
  · right
    rcases (hP.rcb h).2 with hw | hw
    · exact hw
    · exact absurd hw hnopub
  · rw [h] at hk; simp [isRPc] at hk
  · rw [h] at hk; simp [isRPc] at hk
  · exact absurd hrm hr'
  · exact absurd hrm hr'

/-- **blocked implies reason** (sync reader): a reader parked in `futex_wait(write_cursor, v)`
either still sees `write_cursor = v` (nothing new: the sleep is legitimate), or some writer is
between its publication and its `FUTEX_WAKE` — the wake-up is pending, not lost. -/
theorem blocked_reader_has_reason {c : Cfg} {s : St} (hv : Valid c) (hr : Reach step (mkInit c) s) (rpos : Nat)
    (hp : s.pc s.cfg.W = .rBlocked rpos) :
    s.wc = rpos ∨ ∃ t, t < s.cfg.W ∧ published (s.pc t) = true :=
  ((reach_invP c hv s hr).2.2.rbl rpos hp).2

/-- the same for the mutex reader waiting on `read_cv`: the channel is empty or a writer is
between its publication under `read_mutex` and its `notify_one` -/
theorem cv_waiting_reader_has_reason {c : Cfg} {s : St} (hv : Valid c) (hr : Reach step (mkInit c) s)
    (hp : s.pc s.cfg.W = .rmCvBlocked) :
    s.accepted.length = s.delivered.length ∨ ∃ t, t < s.cfg.W ∧ published (s.pc t) = true :=
  ((reach_invP c hv s hr).2.2.rcb hp).2

/-- a writer parked on the futex write lock: the lock word is set (so there is an owner, which
is never parked on that lock), or another writer is about to wake it / was just woken / is
about to take the lock -/
theorem parked_writer_has_reason {c : Cfg} {s : St} (hv : Valid c) (hr : Reach step (mkInit c) s) (t : Nat)
    (ht : t < s.cfg.W) (hp : s.pc t = .wBlocked) :
    (s.wlock ≠ 0 ∧ s.holder ≠ none) ∨ ∃ t', t' < s.cfg.W ∧ lockActive (s.pc t') = true := by
  obtain ⟨-, -, hP⟩ := reach_invP c hv s hr
  rcases hP.park ⟨t, ht, by simp [hp, isBlk]⟩ with h | h
  · exact Or.inl ⟨h, hP.lock1 (Or.inr (hP.blk t ht hp)) h⟩
  · exact Or.inr h

/-- the futex word cannot come back to the value the reader slept on while messages are unread
(no ABA on `write_cursor`): at most `cap - 2 < cap` messages separate the cursors -/
theorem no_aba_on_write_cursor {c : Cfg} {s : St} (hv : Valid c) (hr : Reach step (mkInit c) s)
    (h : s.wc = s.delivered.length % s.cfg.cap) : s.accepted.length = s.delivered.length :=
  empty_of_cursors (reach_invP c hv s hr).1 h.symm

/-! non-vacuity: a run in which the reader parks and is woken -/
private def cfg0 : Cfg := { wl := .sync, rm := .sync, capLog := 2, tries := 0, reads := 1, ns := [1] }
example : ((runSched step (mkInit cfg0) ([1, 1, 1].map fun t => { tid := t })).1.pc 1) = .rBlocked 0 := by decide
example : (runSched step (mkInit cfg0)
    ([1, 1, 1, 0, 0, 0, 0, 0, 0, 0, 0, 0, 0, 1, 1, 1, 1, 1].map fun t => { tid := t })).2.2 = true := by decide

end MgProof.C03.Channel
