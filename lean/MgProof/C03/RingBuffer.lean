import MgProof.C02.Props
/-!
# C03 (ring-buffer part) — no lost wake-up on `muggle_ring_buffer_read`

Safety formulation over the same step model as C02 (`MgModel.C02`): a reader parked in
`futex_wait(cursor, v)` always has a reason to be asleep — either the message it waits for has
not been published, or a writer is between its publication (release store of `cursor`) and its
wake call (`pending`: pcs `wUnlock`, `wWake`) and will wake it. Hence no reachable state has
every participant asleep while a published message is waiting for a sleeping reader.

Quantification as in `MgProof/C02/Props.lean` (`WF c e`: any power-of-two capacity, any numbers
of writers/readers/messages, any start index, no-lapping throttle) plus, for the single-wait
mode, the user guarantee of `MUGGLE_RING_BUFFER_FLAG_SINGLE_READER` (`nR ≤ 1`: the writer wakes
only one sleeper). All schedules, all lengths. The futex semantics (compare-and-block is atomic,
wake = lowest-numbered sleepers first) are the scheduler's and are trusted.
-/
namespace MgProof.C03
open MgModel.Conc MgModel.C02 MgProof.C02

/-- a writer between its publication and its wake call -/
@[grind] def pending : Pc → Bool
  | .wUnlock | .wWake => true
  | .start | .thr | .wSpin | .wYield | .wRdCur1 | .wSlot _ | .wRdCur2 | .wStCur _
  | .rLdCur | .rSlot | .rFwait _ | .rBlocked | .rWoken
  | .oLock | .oLdCur | .oRc1 _ | .oRc2 | .oSlot _ | .oRc3 _ | .oWrRc _ _ | .oUnlock _ | .done => false

theorem firstBlocked_none {pc : Nat → Pc} {k i : Nat} (h : firstBlocked pc k i = none) :
    ∀ u, i ≤ u → u < i + k → pc u ≠ .rBlocked := by
  induction k generalizing i with
  | zero => intro u h1 h2; omega
  | succ k ih =>
    simp only [firstBlocked] at h
    split at h
    · cases h
    · rename_i hne
      intro u h1 h2
      by_cases hu : u = i
      · subst hu; exact hne
      · exact ih h u (by omega) (by omega)

/-- number of threads below `n` whose pc satisfies `f` -/
def cntP (f : Pc → Bool) (pc : Nat → Pc) : Nat → Nat
  | 0 => 0
  | n + 1 => cntP f pc n + (if f (pc n) = true then 1 else 0)

theorem cntP_congr {f : Pc → Bool} {pc pc' : Nat → Pc} (n : Nat)
    (h : ∀ i, i < n → f (pc' i) = f (pc i)) : cntP f pc' n = cntP f pc n := by
  induction n with
  | zero => rfl
  | succ n ih =>
    simp only [cntP]
    rw [ih (fun i hi => h i (by omega)), h n (by omega)]

theorem cntP_upd (f : Pc → Bool) (pc : Nat → Pc) (n t : Nat) (q : Pc) (h : t < n) :
    cntP f (upd pc t q) n + (if f (pc t) = true then 1 else 0) =
      cntP f pc n + (if f q = true then 1 else 0) := by
  induction n with
  | zero => omega
  | succ n ih =>
    simp only [cntP]
    by_cases htn : t = n
    · subst htn
      have : cntP f (upd pc t q) t = cntP f pc t := by
        apply cntP_congr
        intro i hi
        have : i ≠ t := by omega
        simp [upd, this]
      rw [this]
      simp only [upd_same]
      omega
    · have := ih (by omega)
      have hne : upd pc t q n = pc n := by
        have : n ≠ t := fun h' => htn h'.symm
        simp [upd, this]
      rw [hne]
      omega

theorem cntP_wakeAll (pc : Nat → Pc) (n : Nat) : cntP pending (wakeAll pc) n = cntP pending pc n :=
  cntP_congr n (fun i _ => by simp only [wakeAll]; split <;> simp_all [pending])

theorem cntP_pos {f : Pc → Bool} {pc : Nat → Pc} {n : Nat} (h : 0 < cntP f pc n) :
    ∃ w, w < n ∧ f (pc w) = true := by
  induction n with
  | zero => simp [cntP] at h
  | succ n ih =>
    simp only [cntP] at h
    by_cases hf : f (pc n) = true
    · exact ⟨n, by omega, hf⟩
    · simp only [hf] at h
      obtain ⟨w, hw, hfw⟩ := ih (by simpa using h)
      exact ⟨w, by omega, hfw⟩

/-! ## wait / single-wait modes -/

structure InvF (c : Cfg) (s : St) : Prop where
  fw : ∀ t v, s.pc t = .rFwait v → v = (c.pre + s.rk t) % c.cap
  bl : ∀ t, s.pc t = .rBlocked → s.written.length = c.pre + s.rk t ∨ 0 < cntP pending s.pc c.nT

theorem invF_init (c : Cfg) : InvF c (mkInit c) := by
  refine ⟨?_, ?_⟩
  all_goals (intros; simp only [mkInit] at *; split at * <;> simp_all)

theorem invF_step_fw {c : Cfg} {e : Nat} (wf : WF c e) (hmW : c.rm = .wait ∨ c.rm = .singleWait)
    {s s' : St} {t : Nat} (i : InvAll c s) (f : InvF c s) (hs : stepSt c s t = some s') :
    ∀ t v, s'.pc t = .rFwait v → v = (c.pre + s'.rk t) % c.cap := by
  have hm : c.rm ≠ .once := by rcases hmW with h | h <;> simp [h]
  have hrp := rposOf_eq wf hm s t
  have k3 := (i.k hm).noOnce
  have f1 := f.fw
  clear i f
  step_split
  all_goals grind

theorem invF_step_bl {c : Cfg} {e : Nat} (wf : WF c e) (hmW : c.rm = .wait ∨ c.rm = .singleWait)
    (hsr : c.rm = .singleWait → c.nR ≤ 1) {s s' : St} {t : Nat}
    (i : InvAll c s) (f : InvF c s) (hs : stepSt c s t = some s') :
    ∀ t, s'.pc t = .rBlocked → s'.written.length = c.pre + s'.rk t ∨ 0 < cntP pending s'.pc c.nT := by
  have hm : c.rm ≠ .once := by rcases hmW with h | h <;> simp [h]
  have k := i.k hm
  have hrp := rposOf_eq wf hm s t
  have hcur := i.a1.cur
  have hnt : c.nT = c.nW + c.nR := rfl
  have hdn := i.b.dn
  have hfn : firstBlocked s.pc c.nT 0 = none → ∀ u, u < c.nT → s.pc u ≠ .rBlocked :=
    fun h u hu => firstBlocked_none h u (by omega) (by omega)
  have hpe : ∀ v, s.pc t = .rFwait v →
      (c.pre + s.rk t) % c.cap = s.written.length % c.cap → s.written.length = c.pre + s.rk t := by
    intro v h heq
    have hr : isRd (s.pc t) = true := by simp [h, isRd]
    have h1 := k.roleR t hr
    have h2 := k.act t hr
    have h3 : t < c.nT := by
      by_cases h3 : t < c.nT
      · exact h3
      · have := hdn t (by omega); rw [this] at h; cases h
    have h4 := k.nolap t h1 h3 h2
    have h5 := k.le t
    have h6 := i.b.cntS
    have h7 := wf.hlim
    exact (pos_eq_of_mod_eq heq h5 (by omega)).symm
  have ht := step_tid_lt i.b hs
  have hfb : ∀ r, firstBlocked s.pc c.nT 0 = some r → r < c.nT := fun r h => by
    have := firstBlocked_lt h; omega
  have hu := fun q => cntP_upd pending s.pc c.nT t q ht
  have hw := cntP_wakeAll s.pc c.nT
  have huw := fun q => cntP_upd pending (wakeAll s.pc) c.nT t q ht
  have hur := fun r q (hr : r < c.nT) => cntP_upd pending s.pc c.nT r q hr
  have hurt := fun r q q' (hr : r < c.nT) => cntP_upd pending (upd s.pc r q') c.nT t q ht
  have k1 := k.roleR; have k3 := k.noOnce
  have f1 := f.fw; have f2 := f.bl
  clear i f k
  step_split
  all_goals grind

theorem invF_step {c : Cfg} {e : Nat} (wf : WF c e) (hmW : c.rm = .wait ∨ c.rm = .singleWait)
    (hsr : c.rm = .singleWait → c.nR ≤ 1) {s s' : St} {t : Nat}
    (i : InvAll c s) (f : InvF c s) (hs : stepSt c s t = some s') : InvF c s' :=
  ⟨invF_step_fw wf hmW i f hs, invF_step_bl wf hmW hsr i f hs⟩

/-! ## read-once mode (the sleeper holds `read_mutex`; the writer wakes one) -/

structure InvFo (c : Cfg) (s : St) : Prop where
  fwo : ∀ t v, s.pc t = .rFwait v → v = s.delivered.length % c.cap
  blo : ∀ t, s.pc t = .rBlocked → s.written.length = s.delivered.length ∨ 0 < cntP pending s.pc c.nT

theorem invFo_init (c : Cfg) : InvFo c (mkInit c) := by
  refine ⟨?_, ?_⟩
  all_goals (intros; simp only [mkInit] at *; split at * <;> simp_all)

theorem invFo_step_fw {c : Cfg} (hm : c.rm = .once)
    {s s' : St} {t : Nat} (i : InvAll c s) (f : InvFo c s) (hs : stepSt c s t = some s') :
    ∀ t v, s'.pc t = .rFwait v → v = s'.delivered.length % c.cap := by
  have d := (i.d hm).1
  have d5 := d.exclM; have d6 := d.rc; have d3 := d.noRd
  have f1 := f.fwo
  clear i f d
  step_split
  all_goals grind

theorem invFo_step_bl {c : Cfg} {e : Nat} (wf : WF c e) (hm : c.rm = .once) {s s' : St} {t : Nat}
    (i : InvAll c s) (f : InvFo c s) (hs : stepSt c s t = some s') :
    ∀ t, s'.pc t = .rBlocked → s'.written.length = s'.delivered.length ∨ 0 < cntP pending s'.pc c.nT := by
  have d := (i.d hm).1
  have hcur := i.a1.cur
  have hdn := i.b.dn
  have hfn : firstBlocked s.pc c.nT 0 = none → ∀ u, u < c.nT → s.pc u ≠ .rBlocked :=
    fun h u hu => firstBlocked_none h u (by omega) (by omega)
  have hpe : ∀ v, s.pc t = .rFwait v →
      s.delivered.length % c.cap = s.written.length % c.cap → s.written.length = s.delivered.length := by
    intro v h heq
    have hr : isOR (s.pc t) = true := by simp [h, isOR]
    have h1 := d.roleO t hr
    have h2 := d.actO t hr
    have h3 : t < c.nT := by
      by_cases h3 : t < c.nT
      · exact h3
      · have := hdn t (by omega); rw [this] at h; cases h
    have h4 := d.nolapO t h1 h3 h2
    have h5 := d.dle
    have h6 := i.b.cntS
    have h7 := wf.hlim
    have h8 := d.td
    exact (pos_eq_of_mod_eq heq h5 (by omega)).symm
  have ht := step_tid_lt i.b hs
  have hfb : ∀ r, firstBlocked s.pc c.nT 0 = some r → r < c.nT := fun r h => by
    have := firstBlocked_lt h; omega
  have hu := fun q => cntP_upd pending s.pc c.nT t q ht
  have hw := cntP_wakeAll s.pc c.nT
  have huw := fun q => cntP_upd pending (wakeAll s.pc) c.nT t q ht
  have hur := fun r q (hr : r < c.nT) => cntP_upd pending s.pc c.nT r q hr
  have hurt := fun r q q' (hr : r < c.nT) => cntP_upd pending (upd s.pc r q') c.nT t q ht
  have d5 := d.exclM; have d6 := d.rc; have d3 := d.noRd
  have f1 := f.fwo; have f2 := f.blo
  clear i f d
  step_split
  all_goals grind

theorem invFo_step {c : Cfg} {e : Nat} (wf : WF c e) (hm : c.rm = .once) {s s' : St} {t : Nat}
    (i : InvAll c s) (f : InvFo c s) (hs : stepSt c s t = some s') : InvFo c s' :=
  ⟨invFo_step_fw hm i f hs, invFo_step_bl wf hm i f hs⟩

/-! ## the spurious futex return (`spurSt`): a sleeper leaves, nobody else is affected -/

theorem cntP_pending_spur {c : Cfg} {s : St} {t : Nat} (hb : s.pc t = .rBlocked) (ht : t < c.nT) :
    cntP pending (upd s.pc t (afterFutex c)) c.nT = cntP pending s.pc c.nT := by
  have := cntP_upd pending s.pc c.nT t (afterFutex c) ht
  have hq : pending (afterFutex c) = false := by unfold afterFutex; split <;> rfl
  have hbf : pending Pc.rBlocked = false := rfl
  rw [hb, hq, hbf] at this
  simpa using this

theorem invF_spur {c : Cfg} {s s' : St} {t : Nat} (i : InvAll c s) (f : InvF c s)
    (hs : spurSt c s t = some s') : InvF c s' := by
  obtain ⟨hb, rfl⟩ := spur_eq hs
  have ht : t < c.nT := by
    apply Classical.byContradiction; intro hn
    have := i.b.dn t (by omega); simp [this] at hb
  have hc := cntP_pending_spur (c := c) hb ht
  obtain ⟨f1, f2⟩ := f
  refine ⟨?_, ?_⟩
  · intro u v hu
    by_cases hut : u = t
    · subst hut; simp only [upd_same, afterFutex] at hu; split at hu <;> cases hu
    · simp only [upd_other _ _ _ _ hut] at hu; exact f1 u v hu
  · intro u hu
    simp only [hc]
    by_cases hut : u = t
    · subst hut; simp only [upd_same, afterFutex] at hu; split at hu <;> cases hu
    · simp only [upd_other _ _ _ _ hut] at hu; exact f2 u hu

theorem invFo_spur {c : Cfg} {s s' : St} {t : Nat} (i : InvAll c s) (f : InvFo c s)
    (hs : spurSt c s t = some s') : InvFo c s' := by
  obtain ⟨hb, rfl⟩ := spur_eq hs
  have ht : t < c.nT := by
    apply Classical.byContradiction; intro hn
    have := i.b.dn t (by omega); simp [this] at hb
  have hc := cntP_pending_spur (c := c) hb ht
  obtain ⟨f1, f2⟩ := f
  refine ⟨?_, ?_⟩
  · intro u v hu
    by_cases hut : u = t
    · subst hut; simp only [upd_same, afterFutex] at hu; split at hu <;> cases hu
    · simp only [upd_other _ _ _ _ hut] at hu; exact f1 u v hu
  · intro u hu
    simp only [hc]
    by_cases hut : u = t
    · subst hut; simp only [upd_same, afterFutex] at hu; split at hu <;> cases hu
    · simp only [upd_other _ _ _ _ hut] at hu; exact f2 u hu

/-! ## the property theorems -/

theorem invF_reach {c : Cfg} {e : Nat} (wf : WF c e) (hmW : c.rm = .wait ∨ c.rm = .singleWait)
    (hsr : c.rm = .singleWait → c.nR ≤ 1) {s : St} (hr : Reach (step c) (mkInit c) s) :
    InvAll c s ∧ InvF c s := by
  refine Reach.inv (fun s => InvAll c s ∧ InvF c s) ⟨inv_init wf, invF_init c⟩ ?_ s hr
  intro s tok s' ev h hs
  rcases step_cases hs with hs1 | hs1
  · exact ⟨inv_spur h.1 hs1, invF_spur h.1 h.2 hs1⟩
  · exact ⟨inv_step wf h.1 hs1, invF_step wf hmW hsr h.1 h.2 hs1⟩

theorem invFo_reach {c : Cfg} {e : Nat} (wf : WF c e) (hm : c.rm = .once)
    {s : St} (hr : Reach (step c) (mkInit c) s) : InvAll c s ∧ InvFo c s := by
  refine Reach.inv (fun s => InvAll c s ∧ InvFo c s) ⟨inv_init wf, invFo_init c⟩ ?_ s hr
  intro s tok s' ev h hs
  rcases step_cases hs with hs1 | hs1
  · exact ⟨inv_spur h.1 hs1, invFo_spur h.1 h.2 hs1⟩
  · exact ⟨inv_step wf h.1 hs1, invFo_step wf hm h.1 h.2 hs1⟩

/-- **Blocked implies reason** (wait and single-wait readers, DESIGN C03 theorem 1): in every
reachable state a reader parked in `futex_wait(cursor, v)` either waits for a message that has
not been published (`written.length = pre + rk t`: the ring is empty for it) or some writer is
between its publication and its wake call — the wake-up is still to come, it is not lost. The
sleep is conditional on the cursor value the reader saw: `v` is the slot of the awaited position. -/
theorem blocked_reader_has_reason {c : Cfg} {e : Nat} (wf : WF c e)
    (hmW : c.rm = .wait ∨ c.rm = .singleWait) (hsr : c.rm = .singleWait → c.nR ≤ 1)
    {s : St} (hr : Reach (step c) (mkInit c) s) :
    (∀ t, s.pc t = .rBlocked →
      s.written.length = c.pre + s.rk t ∨ ∃ w, w < c.nT ∧ pending (s.pc w) = true) ∧
    (∀ t v, s.pc t = .rFwait v → v = (c.pre + s.rk t) % c.cap) := by
  have f := (invF_reach wf hmW hsr hr).2
  refine ⟨fun t h => ?_, f.fw⟩
  rcases f.bl t h with h1 | h1
  · exact Or.inl h1
  · exact Or.inr (cntP_pos h1)

/-- **Blocked implies reason**, read-once mode: the sleeper (which holds `read_mutex`, so it is the
only one) waits at the consumption point: either everything published has been consumed, or a
writer's wake call is still to come. -/
theorem blocked_once_reader_has_reason {c : Cfg} {e : Nat} (wf : WF c e) (hm : c.rm = .once)
    {s : St} (hr : Reach (step c) (mkInit c) s) :
    (∀ t, s.pc t = .rBlocked →
      s.written.length = s.delivered.length ∨ ∃ w, w < c.nT ∧ pending (s.pc w) = true) ∧
    (∀ t u, s.pc t = .rBlocked → s.pc u = .rBlocked → t = u) := by
  obtain ⟨i, f⟩ := invFo_reach wf hm hr
  refine ⟨fun t h => ?_, fun t u ht hu => ((i.d hm).1).exclM t u (by simp [ht, holder]) (by simp [hu, holder])⟩
  rcases f.blo t h with h1 | h1
  · exact Or.inl h1
  · exact Or.inr (cntP_pos h1)

theorem pending_enabled {s : St} {w : Nat} (h : pending (s.pc w) = true) : s.enabled w = true := by
  unfold St.enabled
  cases hp : s.pc w <;> simp_all [pending]

/-- **No global sleep** (wait / single-wait; DESIGN C03 theorem 2): no interleaving of the documented
usage reaches a state in which no participant can take a step while a sleeping reader's message has
been published. (A state with no enabled thread is what the deterministic scheduler reports as
`deadlock`; the writers' throttle and spin loops are never disabled, so such a state has every
writer finished.) -/
theorem no_global_sleep {c : Cfg} {e : Nat} (wf : WF c e)
    (hmW : c.rm = .wait ∨ c.rm = .singleWait) (hsr : c.rm = .singleWait → c.nR ≤ 1)
    {s : St} (hr : Reach (step c) (mkInit c) s) (hall : ∀ t, s.enabled t = false) :
    ∀ t, s.pc t = .rBlocked → s.written.length = c.pre + s.rk t := by
  intro t h
  rcases (blocked_reader_has_reason wf hmW hsr hr).1 t h with h1 | ⟨w, _, hw⟩
  · exact h1
  · have := pending_enabled hw
    rw [hall w] at this
    cases this

/-- **No global sleep**, read-once mode: if no participant can take a step, the reader asleep in the
futex (the `read_mutex` holder the other readers queue behind) has consumed everything published. -/
theorem no_global_sleep_once {c : Cfg} {e : Nat} (wf : WF c e) (hm : c.rm = .once)
    {s : St} (hr : Reach (step c) (mkInit c) s) (hall : ∀ t, s.enabled t = false) :
    ∀ t, s.pc t = .rBlocked → s.written.length = s.delivered.length := by
  intro t h
  rcases (blocked_once_reader_has_reason wf hm hr).1 t h with h1 | ⟨w, _, hw⟩
  · exact h1
  · have := pending_enabled hw
    rw [hall w] at this
    cases this

/-- non-vacuity: in the example configuration of C02 the schedule below parks the reader in the
futex, lets the writer publish, and stops before the wake call: the reader is asleep although its
message exists, and the reason is the pending wake of writer 0. -/
example : ∃ s, Reach (step exCfg) (mkInit exCfg) s ∧ s.pc 1 = .rBlocked ∧
    s.written.length = exCfg.pre + s.rk 1 + 1 ∧ pending (s.pc 0) = true :=
  ⟨runSt exCfg (mkInit exCfg) [0, 1, 1, 1, 0, 0, 0, 0, 0],
   reach_runSt _ _ Reach.init _, by decide, by decide, by decide⟩

end MgProof.C03
