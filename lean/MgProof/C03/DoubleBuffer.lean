import MgProof.C01.DBufInv
/-!
# C03 — double buffer: no lost wake-up, no deadlock (mutex + two condition variables)

`InvQ`: a consumer waiting on `cv_not_empty` sees an empty back buffer or some producer is
between its append and its `notify_one`; if a producer waits on `cv_not_full` then the back
buffer is non-empty (so the next `read` swaps and notifies), or the consumer is just about to
notify, or some producer has been notified and only waits for the mutex. Hence
`no_global_sleep`: when no thread can take a step, the consumer has finished or everybody has
finished and the buffer is empty — each `read` wakes one blocked producer, the others are
resumed as the consumer keeps consuming.
-/
namespace MgProof.C03.DBuf
open MgModel.Conc MgModel.C01.DBuf MgProof.C01.DBuf
open MgModel.C01 (Msg joinK Ret)
set_option linter.unusedSimpArgs false
set_option linter.unusedVariables false

/-- some producer's pc is `p` -/
def ExP (p : Pc) (pc : Nat → Pc) (W : Nat) : Prop := ∃ t, t < W ∧ pc t = p

structure InvQ (s : St) : Prop where
  capPos : 0 < s.cfg.cap
  dw : ∀ p, p < s.cfg.W → s.pc p = .dCvWait → s.back ≠ []
  rw : s.pc s.cfg.W = .rCvWait → s.back = []
  rb : s.pc s.cfg.W = .rCvBlocked → s.back = [] ∨ ExP .dSignal s.pc s.cfg.W
  pb : ExP .dCvBlocked s.pc s.cfg.W →
    s.back ≠ [] ∨ s.pc s.cfg.W = .rSignal ∨ ExP .dCvSignaled s.pc s.cfg.W

theorem ExP.new {p : Pc} {pc : Nat → Pc} {W t0 : Nat} (h0 : t0 < W) : ExP p (upd pc t0 p) W :=
  ⟨t0, h0, upd_same _ _ _⟩

theorem ExP.keep {p p' : Pc} {pc : Nat → Pc} {W t0 : Nat} (h : ExP p pc W) (hk : pc t0 ≠ p) :
    ExP p (upd pc t0 p') W := by
  obtain ⟨t, ht, hp⟩ := h
  have : t ≠ t0 := by intro e; subst e; exact hk hp
  exact ⟨t, ht, by rw [upd_other _ _ _ _ this]; exact hp⟩

theorem ExP.back {p p' : Pc} {pc : Nat → Pc} {W t0 : Nat} (h : ExP p (upd pc t0 p') W) (hn : p' ≠ p) :
    ExP p pc W := by
  obtain ⟨t, ht, hp⟩ := h
  by_cases e : t = t0
  · subst e; rw [upd_same] at hp; exact absurd hp hn
  · exact ⟨t, ht, by rw [upd_other _ _ _ _ e] at hp; exact hp⟩

theorem firstWaiting_none (pc : Nat → Pc) :
    ∀ n i, firstWaiting pc n i = none → ∀ t, i ≤ t → t < i + n → pc t ≠ .dCvBlocked := by
  intro n
  induction n with
  | zero => intro i _ t h1 h2; omega
  | succ n ih =>
    intro i h t h1 h2
    simp only [firstWaiting] at h
    split at h
    · cases h
    next hne =>
      rcases Nat.eq_or_lt_of_le h1 with e | hlt
      · rw [← e]; exact hne
      · exact ih (i + 1) h t hlt (by omega)

variable {s s' : St} {tok : Tok} {ev : List String}

/-- a producer `t0 < W` moves from `s.pc t0` to `p'`, nothing remote -/
theorem Q_prod {s s' : St} {t0 : Nat} {p' : Pc} (hq : InvQ s) (ht0 : t0 < s.cfg.W)
    (e1 : s'.cfg = s.cfg) (e2 : s'.pc = upd s.pc t0 p')
    (c1 : p' = .dCvWait → s'.back ≠ [])
    (hdw : ∀ p, p < s.cfg.W → p ≠ t0 → s.pc p = .dCvWait → s.back ≠ [] → s'.back ≠ [])
    (hrw : s.pc s.cfg.W = .rCvWait → s.back = [] → s'.back = [])
    (hrb : s.pc s.cfg.W = .rCvBlocked → (s.back = [] ∨ ExP .dSignal s.pc s.cfg.W) →
      (s'.back = [] ∨ ExP .dSignal (upd s.pc t0 p') s.cfg.W))
    (hpb : ExP .dCvBlocked (upd s.pc t0 p') s.cfg.W →
      (ExP .dCvBlocked s.pc s.cfg.W → s.back ≠ [] ∨ s.pc s.cfg.W = .rSignal ∨ ExP .dCvSignaled s.pc s.cfg.W) →
      (s'.back ≠ [] ∨ s.pc s.cfg.W = .rSignal ∨ ExP .dCvSignaled (upd s.pc t0 p') s.cfg.W)) : InvQ s' := by
  obtain ⟨q0, q1, q2, q3, q4⟩ := hq
  have hW : upd s.pc t0 p' s.cfg.W = s.pc s.cfg.W := upd_other _ _ _ _ (Nat.ne_of_gt ht0)
  refine ⟨by rw [e1]; exact q0, ?_, ?_, ?_, ?_⟩
  all_goals simp only [e1, e2, hW]
  · intro p hp hpc
    by_cases e : p = t0
    · subst e; rw [upd_same] at hpc; exact c1 hpc
    · rw [upd_other _ _ _ _ e] at hpc; exact hdw p hp e hpc (q1 p hp hpc)
  · intro h; exact hrw h (q2 h)
  · intro h; exact hrb h (q3 h)
  · intro h; exact hpb h q4


/-- the consumer (thread `W`) moves from `s.pc W` to `p'`, nothing remote -/
theorem Q_cons {s s' : St} {p' : Pc} (hq : InvQ s)
    (e1 : s'.cfg = s.cfg) (e2 : s'.pc = upd s.pc s.cfg.W p')
    (hdw : ∀ p, p < s.cfg.W → s.pc p = .dCvWait → s.back ≠ [] → s'.back ≠ [])
    (c2 : p' = .rCvWait → s'.back = [])
    (c3 : p' = .rCvBlocked → s'.back = [] ∨ ExP .dSignal s.pc s.cfg.W)
    (hpb : ExP .dCvBlocked s.pc s.cfg.W →
      (s.back ≠ [] ∨ s.pc s.cfg.W = .rSignal ∨ ExP .dCvSignaled s.pc s.cfg.W) →
      (s'.back ≠ [] ∨ p' = .rSignal ∨ ExP .dCvSignaled s.pc s.cfg.W)) : InvQ s' := by
  obtain ⟨q0, q1, q2, q3, q4⟩ := hq
  have hne : ∀ t, t < s.cfg.W → upd s.pc s.cfg.W p' t = s.pc t :=
    fun t ht => upd_other _ _ _ _ (Nat.ne_of_lt ht)
  have hex : ∀ p, ExP p (upd s.pc s.cfg.W p') s.cfg.W ↔ ExP p s.pc s.cfg.W := by
    intro p
    constructor
    · rintro ⟨t, ht, hp⟩; exact ⟨t, ht, by rw [hne t ht] at hp; exact hp⟩
    · rintro ⟨t, ht, hp⟩; exact ⟨t, ht, by rw [hne t ht]; exact hp⟩
  refine ⟨by rw [e1]; exact q0, ?_, ?_, ?_, ?_⟩
  all_goals simp only [e1, e2, upd_same, hex]
  · intro p hp hpc; rw [hne p hp] at hpc; exact hdw p hp hpc (q1 p hp hpc)
  · exact c2
  · exact c3
  · intro h; exact hpb h (q4 h)

variable {s s' : St} {tok : Tok} {ev : List String}

set_option hygiene false in
macro "open_q" : tactic => `(tactic|
  (simp only [step, hen, Bool.not_true, Bool.false_eq_true, if_false, hpc, dEnter, rEnter, nextMsg] at h))

/-- which thread may be at a producer / consumer pc -/
theorem tid_prod (hi : Inv s) (hle : tok.tid ≤ s.cfg.W) (hw : isW (s.pc tok.tid) = true) : tok.tid < s.cfg.W := by
  rcases Nat.lt_or_ge tok.tid s.cfg.W with h | h
  · exact h
  · have e : tok.tid = s.cfg.W := Nat.le_antisymm hle h
    rw [e, hi.rdr] at hw; cases hw

theorem tid_cons (hi : Inv s) (hle : tok.tid ≤ s.cfg.W) (hw : isW (s.pc tok.tid) = false)
    (hd : s.pc tok.tid ≠ .done) : tok.tid = s.cfg.W := by
  rcases Nat.lt_or_ge tok.tid s.cfg.W with h | h
  · rcases hi.wtr _ h with h' | h'
    · rw [hw] at h'; cases h'
    · exact absurd h' hd
  · exact Nat.le_antisymm hle h

theorem en_le (hen : s.enabled tok = true) : tok.tid ≤ s.cfg.W := by
  simp only [St.enabled, Bool.and_eq_true, decide_eq_true_eq] at hen; exact hen.1

/-- producer moves that touch neither the buffers nor any waiting status -/
theorem Q_prod_plain {s s' : St} {t0 : Nat} {p' : Pc} (hq : InvQ s) (ht0 : t0 < s.cfg.W)
    (e1 : s'.cfg = s.cfg) (e2 : s'.pc = upd s.pc t0 p') (e3 : s'.back = s.back)
    (c1 : p' ≠ .dCvWait) (c2 : s.pc t0 ≠ .dSignal ∨ p' = .dSignal) (c3 : p' ≠ .dCvBlocked)
    (c4 : s.pc t0 ≠ .dCvSignaled ∨ s.back ≠ []) : InvQ s' := by
  refine Q_prod hq ht0 e1 e2 (fun h => absurd h c1) ?_ ?_ ?_ ?_
  · intro _ _ _ _ h; rw [e3]; exact h
  · intro _ h; rw [e3]; exact h
  · intro _ h
    rw [e3]
    rcases h with h | h
    · exact Or.inl h
    · rcases c2 with c2 | c2
      · exact Or.inr (h.keep c2)
      · subst c2; exact Or.inr (ExP.new ht0)
  · intro hb hq4
    rw [e3]
    rcases hq4 (hb.back c3) with h | h | h
    · exact Or.inl h
    · exact Or.inr (Or.inl h)
    · rcases c4 with c4 | c4
      · exact Or.inr (Or.inr (h.keep c4))
      · exact Or.inl c4

/-- consumer moves that leave the buffers alone and do not enter a waiting pc -/
theorem Q_cons_plain {s s' : St} {p' : Pc} (hq : InvQ s)
    (e1 : s'.cfg = s.cfg) (e2 : s'.pc = upd s.pc s.cfg.W p') (e3 : s'.back = s.back)
    (c2 : p' ≠ .rCvWait) (c3 : p' ≠ .rCvBlocked) (c4 : s.pc s.cfg.W ≠ .rSignal) : InvQ s' := by
  refine Q_cons hq e1 e2 (fun _ _ _ h => by rw [e3]; exact h) (fun h => absurd h c2) (fun h => absurd h c3) ?_
  intro _ h
  rw [e3]
  rcases h with h | h | h
  · exact Or.inl h
  · exact absurd h c4
  · exact Or.inr (Or.inr h)

/-- the consumer has just acquired the mutex (`mtx-lock` or `cv-resume`) -/
theorem Q_rEnter {s : St} (hi : Inv s) (hq : InvQ s) (hn : s.mtx = none) : InvQ (rEnter s s.cfg.W) := by
  have hnoW : ∀ p, p < s.cfg.W → s.pc p ≠ .dCvWait := by
    intro p hp hpc
    have := (hi.own p).2 ⟨Nat.le_of_lt hp, by simp [hpc, inM]⟩
    rw [hn] at this; cases this
  unfold rEnter
  simp only
  split
  next hb =>
    have hb' : s.back = [] := List.eq_nil_of_length_eq_zero hb
    refine Q_cons hq rfl rfl (fun p hp hpc _ => absurd hpc (hnoW p hp)) (fun _ => hb') (fun h => by cases h) ?_
    intro _ h
    rcases h with h | h | h
    · exact Or.inl h
    · exact absurd hb' (by
        intro _
        have := (hi.own s.cfg.W).2 ⟨Nat.le_refl _, by simp [h, inM]⟩
        rw [hn] at this; cases this)
    · exact Or.inr (Or.inr h)
  next hb =>
    refine Q_cons hq rfl rfl (fun p hp hpc _ => absurd hpc (hnoW p hp)) (fun h => by cases h)
      (fun h => by cases h) ?_
    intro _ _; exact Or.inr (Or.inl rfl)

theorem q_step (hen : s.enabled tok = true) (hi : Inv s) (hq : InvQ s) (h : step s tok = some (s', ev)) :
    InvQ s' := by
  have hle := en_le hen
  have hfw := firstWaiting_spec s.pc s.cfg.W 0
  have hfn := firstWaiting_none s.pc s.cfg.W 0
  cases hpc : s.pc tok.tid with
  | done => simp [step, hen, hpc] at h
  | dPay =>
    have ht := tid_prod hi hle (by simp [hpc, isW])
    open_q; simp only [Option.some.injEq, Prod.mk.injEq] at h; obtain ⟨rfl, -⟩ := h
    exact Q_prod_plain hq ht rfl rfl rfl (by simp) (Or.inl (by simp [hpc])) (by simp) (Or.inl (by simp [hpc]))
  | dYield =>
    have ht := tid_prod hi hle (by simp [hpc, isW])
    open_q; simp only [Option.some.injEq, Prod.mk.injEq] at h; obtain ⟨rfl, -⟩ := h
    exact Q_prod_plain hq ht rfl rfl rfl (by simp) (Or.inl (by simp [hpc])) (by simp) (Or.inl (by simp [hpc]))
  | dUnlock r =>
    have ht := tid_prod hi hle (by simp [hpc, isW])
    open_q
    cases r <;> simp only at h
    · simp only [Option.some.injEq, Prod.mk.injEq] at h; obtain ⟨rfl, -⟩ := h
      refine Q_prod_plain hq ht rfl rfl rfl ?_ (Or.inl (by simp [hpc])) ?_ (Or.inl (by simp [hpc])) <;>
        (split <;> simp)
    · split at h <;> (simp only [Option.some.injEq, Prod.mk.injEq] at h; obtain ⟨rfl, -⟩ := h)
      · refine Q_prod_plain hq ht rfl rfl rfl ?_ (Or.inl (by simp [hpc])) ?_ (Or.inl (by simp [hpc])) <;>
          (split <;> simp)
      · exact Q_prod_plain hq ht rfl rfl rfl (by simp) (Or.inl (by simp [hpc])) (by simp) (Or.inl (by simp [hpc]))
  | dCvWait =>
    have ht := tid_prod hi hle (by simp [hpc, isW])
    have hb := hq.dw _ ht hpc
    open_q; simp only [Option.some.injEq, Prod.mk.injEq] at h; obtain ⟨rfl, -⟩ := h
    refine Q_prod hq ht rfl rfl (fun h => by cases h) (fun _ _ _ _ h => h) (fun _ h => h) ?_ ?_
    · intro _ h; exact h.imp id (fun h => h.keep (by simp [hpc]))
    · intro _ _; exact Or.inl hb
  | dSignal =>
    have ht := tid_prod hi hle (by simp [hpc, isW])
    have hneW : s.cfg.W ≠ tok.tid := Nat.ne_of_gt ht
    open_q
    split at h <;> (simp only [Option.some.injEq, Prod.mk.injEq] at h; obtain ⟨rfl, -⟩ := h)
    next hr =>
      -- the consumer is woken: first its move, then the producer's
      have hq1 : InvQ { s with pc := upd s.pc s.cfg.W .rCvSignaled } :=
        Q_cons hq rfl rfl (fun _ _ _ h => h) (fun h => by cases h) (fun h => by cases h)
          (fun _ h => h.imp id (fun h => h.imp (fun h => by rw [hr] at h; cases h) id))
      refine Q_prod (s := { s with pc := upd s.pc s.cfg.W .rCvSignaled }) hq1 ht rfl rfl (fun h => by cases h)
        (fun _ _ _ _ h => h) (fun _ h => h) ?_ ?_
      · intro hp _; simp only [upd_same] at hp; cases hp
      · intro hb hq4
        rcases hq4 (hb.back (by simp)) with h | h | h
        · exact Or.inl h
        · exact Or.inr (Or.inl h)
        · exact Or.inr (Or.inr (h.keep (by simp [upd_other _ _ _ _ (Ne.symm hneW), hpc])))
    next hnr =>
      refine Q_prod hq ht rfl rfl (fun h => by cases h) (fun _ _ _ _ h => h) (fun _ h => h) ?_ ?_
      · intro hp _; exact absurd hp (by intro e; exact hnr e)
      · intro hb hq4
        rcases hq4 (hb.back (by simp)) with h | h | h
        · exact Or.inl h
        · exact Or.inr (Or.inl h)
        · exact Or.inr (Or.inr (h.keep (by simp [hpc])))
  | dLock =>
    have ht := tid_prod hi hle (by simp [hpc, isW])
    open_q
    repeat' split at h
    all_goals (simp only [Option.some.injEq, Prod.mk.injEq] at h; obtain ⟨rfl, -⟩ := h)
    · exact Q_prod_plain hq ht rfl rfl rfl (by simp) (Or.inl (by simp [hpc])) (by simp) (Or.inl (by simp [hpc]))
    next hfull _ =>
      have hne : s.back ≠ [] := by
        intro e; rw [e] at hfull; have := hq.capPos; simp at hfull; omega
      refine Q_prod hq ht rfl rfl (fun _ => hne) (fun _ _ _ _ h => h) (fun _ h => h) ?_ ?_
      · intro _ h; exact h.imp id (fun h => h.keep (by simp [hpc]))
      · intro _ _; exact Or.inl hne
    · refine Q_prod hq ht rfl rfl (fun h => by cases h) ?_ ?_ ?_ ?_
      · intro _ _ _ _ _; simp
      · intro hr hb
        have := (hi.own s.cfg.W).2 ⟨Nat.le_refl _, by simp [hr, inM]⟩
        have hn : s.mtx = none := by
          simp only [St.enabled, hpc, Bool.and_eq_true, Option.isNone_iff_eq_none] at hen; exact hen.2.1
        rw [hn] at this; cases this
      · intro _ _; right; exact ExP.new ht
      · intro _ _; left; simp
  | dCvBlocked =>
    have ht := tid_prod hi hle (by simp [hpc, isW])
    open_q
    repeat' split at h
    all_goals (simp only [Option.some.injEq, Prod.mk.injEq] at h; obtain ⟨rfl, -⟩ := h)
    · exact Q_prod_plain hq ht rfl rfl rfl (by simp) (Or.inl (by simp [hpc])) (by simp) (Or.inl (by simp [hpc]))
    next hfull _ =>
      have hne : s.back ≠ [] := by
        intro e; rw [e] at hfull; have := hq.capPos; simp at hfull; omega
      refine Q_prod hq ht rfl rfl (fun _ => hne) (fun _ _ _ _ h => h) (fun _ h => h) ?_ ?_
      · intro _ h; exact h.imp id (fun h => h.keep (by simp [hpc]))
      · intro _ _; exact Or.inl hne
    · refine Q_prod hq ht rfl rfl (fun h => by cases h) ?_ ?_ ?_ ?_
      · intro _ _ _ _ _; simp
      · intro hr hb
        have := (hi.own s.cfg.W).2 ⟨Nat.le_refl _, by simp [hr, inM]⟩
        have hn : s.mtx = none := by
          simp only [St.enabled, hpc, Bool.and_eq_true, Option.isNone_iff_eq_none] at hen; exact hen.2.1
        rw [hn] at this; cases this
      · intro _ _; right; exact ExP.new ht
      · intro _ _; left; simp
  | dCvSignaled =>
    have ht := tid_prod hi hle (by simp [hpc, isW])
    open_q
    repeat' split at h
    all_goals (simp only [Option.some.injEq, Prod.mk.injEq] at h; obtain ⟨rfl, -⟩ := h)
    next hfull _ =>
      have hne : s.back ≠ [] := by
        intro e; rw [e] at hfull; have := hq.capPos; simp at hfull; omega
      exact Q_prod_plain hq ht rfl rfl rfl (by simp) (Or.inl (by simp [hpc])) (by simp) (Or.inr hne)
    next hfull _ =>
      have hne : s.back ≠ [] := by
        intro e; rw [e] at hfull; have := hq.capPos; simp at hfull; omega
      refine Q_prod hq ht rfl rfl (fun _ => hne) (fun _ _ _ _ h => h) (fun _ h => h) ?_ ?_
      · intro _ h; exact h.imp id (fun h => h.keep (by simp [hpc]))
      · intro _ _; exact Or.inl hne
    · refine Q_prod hq ht rfl rfl (fun h => by cases h) ?_ ?_ ?_ ?_
      · intro _ _ _ _ _; simp
      · intro hr hb
        have := (hi.own s.cfg.W).2 ⟨Nat.le_refl _, by simp [hr, inM]⟩
        have hn : s.mtx = none := by
          simp only [St.enabled, hpc, Bool.and_eq_true, Option.isNone_iff_eq_none] at hen; exact hen.2.1
        rw [hn] at this; cases this
      · intro _ _; right; exact ExP.new ht
      · intro _ _; left; simp
  | rLock =>
    have hW := tid_cons hi hle (by simp [hpc, isW]) (by simp [hpc])
    have hn : s.mtx = none := by
      simp only [St.enabled, hpc, Bool.and_eq_true, Option.isNone_iff_eq_none] at hen; exact hen.2.1
    simp only [step, hen, Bool.not_true, Bool.false_eq_true, if_false, hpc, Option.some.injEq, Prod.mk.injEq] at h
    obtain ⟨rfl, -⟩ := h
    rw [hW]; exact Q_rEnter hi hq hn
  | rCvBlocked =>
    have hW := tid_cons hi hle (by simp [hpc, isW]) (by simp [hpc])
    have hn : s.mtx = none := by
      simp only [St.enabled, hpc, Bool.and_eq_true, Option.isNone_iff_eq_none] at hen; exact hen.2.1
    simp only [step, hen, Bool.not_true, Bool.false_eq_true, if_false, hpc, Option.some.injEq, Prod.mk.injEq] at h
    obtain ⟨rfl, -⟩ := h
    rw [hW]; exact Q_rEnter hi hq hn
  | rCvSignaled =>
    have hW := tid_cons hi hle (by simp [hpc, isW]) (by simp [hpc])
    have hn : s.mtx = none := by
      simp only [St.enabled, hpc, Bool.and_eq_true, Option.isNone_iff_eq_none] at hen; exact hen.2.1
    simp only [step, hen, Bool.not_true, Bool.false_eq_true, if_false, hpc, Option.some.injEq, Prod.mk.injEq] at h
    obtain ⟨rfl, -⟩ := h
    rw [hW]; exact Q_rEnter hi hq hn
  | rCvWait =>
    have hW := tid_cons hi hle (by simp [hpc, isW]) (by simp [hpc])
    have hpcW := hpc
    rw [hW] at hpcW
    have hb := hq.rw hpcW
    open_q; simp only [Option.some.injEq, Prod.mk.injEq] at h; obtain ⟨rfl, -⟩ := h
    rw [hW]
    refine Q_cons hq rfl rfl (fun _ _ _ h => h) (fun h => by cases h) (fun _ => Or.inl hb) ?_
    intro _ h
    rcases h with h | h | h
    · exact absurd hb h
    · rw [hpcW] at h; cases h
    · exact Or.inr (Or.inr h)
  | rSignal =>
    have hW := tid_cons hi hle (by simp [hpc, isW]) (by simp [hpc])
    have hpcW := hpc
    rw [hW] at hpcW
    open_q
    split at h <;> (simp only [Option.some.injEq, Prod.mk.injEq] at h; obtain ⟨rfl, -⟩ := h)
    next w hw =>
      obtain ⟨hb, hlt⟩ := hfw w hw
      have hwW : w < s.cfg.W := by omega
      have hq1 : InvQ { s with pc := upd s.pc w .dCvSignaled } := by
        refine Q_prod hq hwW rfl rfl (fun h => by cases h) (fun _ _ _ _ h => h) (fun _ h => h) ?_ ?_
        · intro _ h; exact h.imp id (fun h => h.keep (by simp [hb]))
        · intro _ _; exact Or.inr (Or.inr (ExP.new hwW))
      rw [hW]
      refine Q_cons (s := { s with pc := upd s.pc w .dCvSignaled }) hq1 rfl rfl (fun _ _ _ h => h)
        (fun h => by cases h) (fun h => by cases h) ?_
      intro _ _; exact Or.inr (Or.inr (ExP.new hwW))
    next hnone =>
      rw [hW]
      refine Q_cons hq rfl rfl (fun _ _ _ h => h) (fun h => by cases h) (fun h => by cases h) ?_
      intro ⟨p, hp, hpb⟩ _
      exact absurd hpb (hfn hnone p (Nat.zero_le _) (by omega))
  | rUnlock =>
    have hW := tid_cons hi hle (by simp [hpc, isW]) (by simp [hpc])
    have hpcW := hpc
    rw [hW] at hpcW
    open_q; simp only [Option.some.injEq, Prod.mk.injEq] at h; obtain ⟨rfl, -⟩ := h
    rw [hW]
    refine Q_cons_plain hq rfl rfl rfl ?_ ?_ (by simp [hpcW]) <;> (split <;> (try split) <;> simp)
  | rItem i =>
    have hW := tid_cons hi hle (by simp [hpc, isW]) (by simp [hpc])
    have hpcW := hpc
    rw [hW] at hpcW
    open_q
    split at h
    · cases h
    · simp only [Option.some.injEq, Prod.mk.injEq] at h; obtain ⟨rfl, -⟩ := h
      rw [hW]
      refine Q_cons_plain hq rfl rfl rfl ?_ ?_ (by simp [hpcW]) <;> (split <;> (try split) <;> simp)


theorem q_step' (hi : Inv s) (hq : InvQ s) (h : step s tok = some (s', ev)) : InvQ s' := by
  cases hen : s.enabled tok with
  | false => simp [step, hen] at h
  | true => exact q_step hen hi hq h

theorem init_invQ (c : Cfg) (hc : 0 < c.cap) : InvQ (mkInit c) := by
  refine ⟨hc, ?_, ?_, ?_, ?_⟩ <;> simp only [mkInit]
  · intro p hp hpc; simp only [hp, if_true] at hpc; split at hpc <;> cases hpc
  · intro _; trivial
  · intro _; first | exact Or.inl rfl | trivial | simp
  · intro ⟨p, hp, hpc⟩; simp only [hp, if_true] at hpc; split at hpc <;> cases hpc

theorem reach_invQ (c : Cfg) (hc : 0 < c.cap) (s : St) (hr : Reach step (mkInit c) s) : Inv s ∧ InvQ s :=
  Reach.inv (fun s => Inv s ∧ InvQ s) ⟨init_inv c, init_invQ c hc⟩
    (fun _ _ _ _ hi h => ⟨step_inv hi.1 h, q_step' hi.1 hi.2 h⟩) s hr

/-- why a thread can be disabled (ordinary token) -/
theorem disabled_cases {s : St} {t : Nat} (ht : t ≤ s.cfg.W) (h : s.enabled ⟨t, .none⟩ = false) :
    s.pc t = .done ∨ s.pc t = .dCvBlocked ∨ s.pc t = .rCvBlocked ∨
    ((s.pc t = .dLock ∨ s.pc t = .rLock ∨ s.pc t = .dCvSignaled ∨ s.pc t = .rCvSignaled) ∧ s.mtx ≠ none) := by
  cases hpc : s.pc t <;> simp [St.enabled, hpc, ht] at h ⊢
  all_goals (intro e; rw [e] at h; simp at h)

/-- **blocked implies reason** (consumer): waiting on `cv_not_empty` only with an empty back
buffer, or while some producer is between its append and its `notify_one` -/
theorem waiting_consumer_has_reason {c : Cfg} {s : St} (hc : 0 < c.cap) (hr : Reach step (mkInit c) s)
    (hp : s.pc s.cfg.W = .rCvBlocked) : s.back = [] ∨ ∃ t, t < s.cfg.W ∧ s.pc t = .dSignal :=
  (reach_invQ c hc s hr).2.rb hp

/-- **blocked implies reason** (producers): if some producer waits on `cv_not_full`, the back
buffer is non-empty (the next `read` will swap and notify), or the consumer is about to
notify, or a notified producer only waits for the mutex -/
theorem waiting_producer_has_reason {c : Cfg} {s : St} (hc : 0 < c.cap) (hr : Reach step (mkInit c) s) (t : Nat)
    (ht : t < s.cfg.W) (hp : s.pc t = .dCvBlocked) :
    s.back ≠ [] ∨ s.pc s.cfg.W = .rSignal ∨ ∃ t', t' < s.cfg.W ∧ s.pc t' = .dCvSignaled :=
  (reach_invQ c hc s hr).2.pb ⟨t, ht, hp⟩

/-- **no global sleep**: if no thread can take an (ordinary) step, then the consumer has
finished (it stopped consuming), or every producer has finished and the back buffer is empty.
So with a consumer that keeps consuming, blocked producers are always resumed — also when
several of them wait and each `read` notifies only one. -/
theorem no_global_sleep {c : Cfg} {s : St} (hc : 0 < c.cap) (hr : Reach step (mkInit c) s)
    (hdis : ∀ t, s.enabled ⟨t, .none⟩ = false) :
    s.pc s.cfg.W = .done ∨ ((∀ t, t < s.cfg.W → s.pc t = .done) ∧ s.back = []) := by
  obtain ⟨hI, hQ⟩ := reach_invQ c hc s hr
  have hm : s.mtx = none := by
    cases hx : s.mtx with
    | none => rfl
    | some x =>
      exfalso
      obtain ⟨hxW, hin⟩ := (hI.own x).1 hx
      rcases disabled_cases hxW (hdis x) with h | h | h | ⟨h | h | h | h, -⟩ <;> simp [h, inM] at hin
  have hnoP : ∀ p, ¬ ExP p s.pc s.cfg.W ∨ p = .done ∨ p = .dCvBlocked := by
    intro p
    by_cases hp : p = .done ∨ p = .dCvBlocked
    · exact Or.inr hp
    · left
      rintro ⟨t, ht, hpc⟩
      rcases disabled_cases (Nat.le_of_lt ht) (hdis t) with h | h | h | ⟨h, hmm⟩
      · exact hp (Or.inl (by rw [← hpc, h]))
      · exact hp (Or.inr (by rw [← hpc, h]))
      · have := hI.wtr t ht; rw [h] at this; simp [isW] at this
      · exact hmm hm
  rcases disabled_cases (Nat.le_refl _) (hdis s.cfg.W) with h | h | h | ⟨h, hmm⟩
  · exact Or.inl h
  · have := hI.rdr; rw [h] at this; simp [isW] at this
  · right
    have hb : s.back = [] := by
      rcases hQ.rb h with hb | hb
      · exact hb
      · rcases hnoP .dSignal with hn | hn | hn
        · exact absurd hb hn
        · cases hn
        · cases hn
    refine ⟨?_, hb⟩
    intro t ht
    rcases disabled_cases (Nat.le_of_lt ht) (hdis t) with h' | h' | h' | ⟨h', hmm⟩
    · exact h'
    · exfalso
      rcases hQ.pb ⟨t, ht, h'⟩ with hx | hx | hx
      · exact hx hb
      · rw [h] at hx; cases hx
      · rcases hnoP .dCvSignaled with hn | hn | hn
        · exact hn hx
        · cases hn
        · cases hn
    · have := hI.wtr t ht; rw [h'] at this; simp [isW] at this
    · exact absurd hm hmm
  · exact absurd hm hmm

end MgProof.C03.DBuf
