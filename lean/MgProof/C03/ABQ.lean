import MgProof.C01.ABQInv
/-!
# C03 — array blocking queue: the wait protocol (local half; the global half is `ABQGlobal.lean`)

Proved here, for every capacity ≥ 1, any number of producers and consumers and every schedule
(incl. spurious wake-ups): a thread is inside `cond_wait` **only with its predicate false at the
moment it released the mutex** (`cnt = 0` for a consumer, `cnt = capacity` for a producer) —
the predicate is (re-)checked in a loop under the mutex, and nobody else can change `cnt`
between the check and the wait because the waiter still owns the mutex; together with
`MgProof.C01.ABQ.mutex_owner` this is the "no check-then-sleep window" half of the property.

The global statement ("no reachable state has every thread disabled while a put or take is still
possible", several consumers + `notify_one`) is proved in `MgProof/C03/ABQGlobal.lean` by the
counting invariant `cnt ≤ #notified-but-not-yet-resumed consumers + #producers between enqueue and
notify` (and symmetrically for producers); the theorem below keeps its historical name.
-/
namespace MgProof.C03.ABQ
open MgModel.Conc MgModel.C01.ABQ MgProof.C01.ABQ
open MgModel.C01 (Msg joinK)
set_option linter.unusedSimpArgs false
set_option linter.unusedVariables false

structure InvA (s : St) : Prop where
  cw : ∀ t, t < s.cfg.P + s.cfg.C → s.pc t = .cCvWait → s.cnt = 0
  pw : ∀ t, t < s.cfg.P + s.cfg.C → s.pc t = .pCvWait → s.cnt = s.cfg.cap

variable {s s' : St} {tok : Tok} {ev : List String}

set_option maxHeartbeats 1000000 in
theorem stepA (hi : Inv s) (ha : InvA s) (h : step s tok = some (s', ev)) : InvA s' := by
  cases hen : s.enabled tok with
  | false => simp [step, hen] at h
  | true =>
    have hown := hi.own
    have hfw := firstWaiting_spec s.pc
    obtain ⟨a1, a2⟩ := ha
    have hfree : (s.pc tok.tid = .pLock ∨ s.pc tok.tid = .cLock ∨ s.pc tok.tid = .pCvSignaled ∨
        s.pc tok.tid = .cCvSignaled ∨ s.pc tok.tid = .pCvBlocked ∨ s.pc tok.tid = .cCvBlocked) → s.mtx = none := by
      intro hp
      rcases hp with hp | hp | hp | hp | hp | hp <;>
        (simp only [St.enabled, hp, Bool.and_eq_true, Option.isNone_iff_eq_none] at hen; exact hen.2.1)
    have hnoW : s.mtx = none → ∀ t, t < s.cfg.P + s.cfg.C → s.pc t ≠ .cCvWait ∧ s.pc t ≠ .pCvWait := by
      intro hn t ht
      constructor <;> intro hp <;>
        (have := (hown t).2 ⟨ht, by simp [hp, inM]⟩; rw [hn] at this; cases this)
    cases hpc : s.pc tok.tid <;>
      simp only [step, hen, Bool.not_true, Bool.false_eq_true, if_false, hpc, pEnter, cEnter, nextConsumer] at h
    case done => cases h
    all_goals
      (repeat' split at h)
      all_goals first
        | (cases h; done)
        | (simp only [Option.some.injEq, Prod.mk.injEq] at h; obtain ⟨rfl, -⟩ := h
           refine ⟨?_, ?_⟩
           all_goals grind [upd])

theorem initA (c : Cfg) : InvA (mkInit c) := by
  refine ⟨?_, ?_⟩ <;> intro t ht hp <;> simp only [mkInit] at hp <;> (repeat' split at hp) <;> cases hp

theorem reachA (c : Cfg) (hc : 0 < c.cap) (s : St) (hr : Reach step (mkInit c) s) : Inv s ∧ InvA s :=
  Reach.inv (fun s => Inv s ∧ InvA s) ⟨init_inv c hc, initA c⟩
    (fun _ _ _ _ hi h => ⟨step_inv hi.1 h, stepA hi.1 hi.2 h⟩) s hr

/-- **the predicate is checked in a loop under the mutex**: a consumer is about to wait on
`cv_not_empty` only with `cnt = 0`, a producer on `cv_not_full` only with `cnt = capacity`
(and it still owns the mutex at that point, so the check cannot be stale) -/
theorem no_global_sleep_partial {c : Cfg} {s : St} (hc : 0 < c.cap) (hr : Reach step (mkInit c) s) (t : Nat)
    (ht : t < s.cfg.P + s.cfg.C) :
    (s.pc t = .cCvWait → s.cnt = 0 ∧ s.mtx = some t) ∧
    (s.pc t = .pCvWait → s.cnt = s.cfg.cap ∧ s.mtx = some t) := by
  obtain ⟨hI, hA⟩ := reachA c hc s hr
  exact ⟨fun h => ⟨hA.cw t ht h, (hI.own t).2 ⟨ht, by simp [h, inM]⟩⟩,
         fun h => ⟨hA.pw t ht h, (hI.own t).2 ⟨ht, by simp [h, inM]⟩⟩⟩

end MgProof.C03.ABQ
