import MgProof.C03.ABQ
/-!
# C03 — array blocking queue: no lost wake-up, globally (notification accounting)

`MgProof.C03.ABQ` proves the local half (a thread waits only with its predicate false and still
owning the mutex). This file proves the global half for **any number of producers and consumers**
with `notify_one`, every capacity ≥ 1, every workload and every schedule (spurious wake-ups
included, but never *needed*: a blocked thread is only enabled by a schedule token flagged as a
spurious wake-up, so "every thread disabled" really means nobody will ever run again).

Counting invariant (`InvN`): whenever some consumer is parked on `cv_not_empty`, every queued
message is matched by a wake-up that is still to come —

    cnt ≤ #consumers already signalled (not yet resumed) + #producers between enqueue and notify

and symmetrically, whenever some producer is parked on `cv_not_full`,

    capacity − cnt ≤ #producers already signalled + #consumers between dequeue and notify.

Hence in a state in which every thread is finished or parked (`Asleep`): a parked consumer implies
`cnt = 0` and no parked producer; a parked producer implies `cnt = capacity` and no parked
consumer (`asleep_has_reason`). With the work accounting `InvK` (every producer's completed puts,
every consumer's completed takes) the only way to end asleep is a workload that asks for more
takes than puts (or more puts than takes + capacity): for a **balanced workload** (`Σ n_w = Σ k_c`)
no reachable state is asleep unless every thread has finished (`no_global_sleep`).
-/
namespace MgProof.C03.ABQ
open MgModel.Conc MgModel.C01.ABQ MgProof.C01.ABQ
open MgModel.C01 (Msg joinK)
set_option linter.unusedSimpArgs false
set_option linter.unusedVariables false

/-! ## counting threads by pc -/

/-- number of threads below `n` whose pc satisfies `f` -/
def cntQ (f : Pc → Bool) (pc : Nat → Pc) : Nat → Nat
  | 0 => 0
  | n + 1 => cntQ f pc n + (if f (pc n) = true then 1 else 0)

theorem cntQ_congr {f : Pc → Bool} {pc pc' : Nat → Pc} (n : Nat)
    (h : ∀ i, i < n → f (pc' i) = f (pc i)) : cntQ f pc' n = cntQ f pc n := by
  induction n with
  | zero => rfl
  | succ n ih =>
    simp only [cntQ]
    rw [ih (fun i hi => h i (by omega)), h n (by omega)]

theorem cntQ_upd (f : Pc → Bool) (pc : Nat → Pc) (n t : Nat) (q : Pc) (h : t < n) :
    cntQ f (upd pc t q) n + (if f (pc t) = true then 1 else 0) =
      cntQ f pc n + (if f q = true then 1 else 0) := by
  induction n with
  | zero => omega
  | succ n ih =>
    simp only [cntQ]
    by_cases htn : t = n
    · subst htn
      have : cntQ f (upd pc t q) t = cntQ f pc t := by
        apply cntQ_congr
        intro i hi
        have : i ≠ t := by omega
        simp [upd, this]
      rw [this]
      simp only [upd_same]
      omega
    · have := ih (by omega)
      have hne : upd pc t q n = pc n := by
        have : n ≠ t := fun h' => htn h'.symm
        simp [upd, this]
      rw [hne]
      omega

theorem cntQ_pos {f : Pc → Bool} {pc : Nat → Pc} {n : Nat} (h : 0 < cntQ f pc n) :
    ∃ w, w < n ∧ f (pc w) = true := by
  induction n with
  | zero => simp [cntQ] at h
  | succ n ih =>
    simp only [cntQ] at h
    by_cases hf : f (pc n) = true
    · exact ⟨n, by omega, hf⟩
    · simp only [hf] at h
      obtain ⟨w, hw, hfw⟩ := ih (by simpa using h)
      exact ⟨w, by omega, hfw⟩

theorem cntQ_of_mem {f : Pc → Bool} {pc : Nat → Pc} {n w : Nat} (hw : w < n) (hf : f (pc w) = true) :
    0 < cntQ f pc n := by
  induction n with
  | zero => omega
  | succ n ih =>
    simp only [cntQ]
    by_cases hwn : w = n
    · subst hwn; simp [hf]
    · have := ih (by omega); omega

theorem cntQ_zero {f : Pc → Bool} {pc : Nat → Pc} {n : Nat} (h : ∀ w, w < n → f (pc w) = false) :
    cntQ f pc n = 0 := by
  apply Classical.byContradiction
  intro hne
  obtain ⟨w, hw, hf⟩ := cntQ_pos (f := f) (pc := pc) (n := n) (by omega)
  rw [h w hw] at hf; cases hf

@[simp] def isCB : Pc → Bool | .cCvBlocked => true | _ => false
@[simp] def isCS : Pc → Bool | .cCvSignaled => true | _ => false
@[simp] def isPG : Pc → Bool | .pSignal => true | _ => false
@[simp] def isPB : Pc → Bool | .pCvBlocked => true | _ => false
@[simp] def isPS : Pc → Bool | .pCvSignaled => true | _ => false
@[simp] def isCG : Pc → Bool | .cSignal _ => true | _ => false

def NN (s : St) : Nat := s.cfg.P + s.cfg.C

/-- the notification accounting -/
structure InvN (s : St) : Prop where
  cn : 0 < cntQ isCB s.pc (NN s) → s.cnt ≤ cntQ isCS s.pc (NN s) + cntQ isPG s.pc (NN s)
  pn : 0 < cntQ isPB s.pc (NN s) → s.cfg.cap ≤ s.cnt + cntQ isPS s.pc (NN s) + cntQ isCG s.pc (NN s)

theorem firstWaiting_none (pc : Nat → Pc) (which : Pc) :
    ∀ n i, firstWaiting pc which n i = none → ∀ u, i ≤ u → u < i + n → pc u ≠ which := by
  intro n
  induction n with
  | zero => intro i _ u h1 h2; omega
  | succ n ih =>
    intro i h u h1 h2
    simp only [firstWaiting] at h
    split at h
    · cases h
    · rename_i hne
      by_cases hu : u = i
      · subst hu; exact hne
      · exact ih _ h u (by omega) (by omega)

-- the six counters after one pc update
set_option hygiene false in
macro "cnt6" t:term "," q:term "," ht:term : tactic => `(tactic|
  (have e1 := cntQ_upd isCB s.pc (NN s) $t $q $ht
   have e2 := cntQ_upd isCS s.pc (NN s) $t $q $ht
   have e3 := cntQ_upd isPG s.pc (NN s) $t $q $ht
   have e4 := cntQ_upd isPB s.pc (NN s) $t $q $ht
   have e5 := cntQ_upd isPS s.pc (NN s) $t $q $ht
   have e6 := cntQ_upd isCG s.pc (NN s) $t $q $ht))

theorem invN_pEnter {s : St} {t : Nat} (hi : Inv s) (hn : InvN s) (ht : t < (NN s))
    (hp : s.pc t = .pLock ∨ s.pc t = .pCvBlocked ∨ s.pc t = .pCvSignaled) : InvN (pEnter s t) := by
  obtain ⟨c1, c2⟩ := hn
  have hb := hi.bound
  unfold pEnter
  simp only
  split
  next hfull =>
    cnt6 t, .pCvWait, ht
    refine ⟨?_, ?_⟩ <;> simp only [NN] at * <;>
      rcases hp with hp | hp | hp <;> simp [hp] at e1 e2 e3 e4 e5 e6 <;>
      intro h0 <;> omega
  next hnf =>
    cnt6 t, .pSignal, ht
    refine ⟨?_, ?_⟩ <;> simp only [NN] at * <;>
      rcases hp with hp | hp | hp <;> simp [hp] at e1 e2 e3 e4 e5 e6 <;>
      intro h0 <;> omega

theorem invN_cEnter {s : St} {t : Nat} (hi : Inv s) (hn : InvN s) (ht : t < (NN s))
    (hp : s.pc t = .cLock ∨ s.pc t = .cCvBlocked ∨ s.pc t = .cCvSignaled) : InvN (cEnter s t) := by
  obtain ⟨c1, c2⟩ := hn
  have hb := hi.bound
  unfold cEnter
  simp only
  split
  next hempty =>
    cnt6 t, .cCvWait, ht
    refine ⟨?_, ?_⟩ <;> simp only [NN] at * <;>
      rcases hp with hp | hp | hp <;> simp [hp] at e1 e2 e3 e4 e5 e6 <;>
      intro h0 <;> omega
  next hne =>
    cnt6 t, (.cSignal (s.datas s.takeIdx)), ht
    refine ⟨?_, ?_⟩ <;> simp only [NN] at * <;>
      rcases hp with hp | hp | hp <;> simp [hp] at e1 e2 e3 e4 e5 e6 <;>
      intro h0 <;> omega

variable {s s' : St} {tok : Tok} {ev : List String}

/-- a pc update that touches none of the six counted pcs leaves the accounting alone -/
theorem invN_same {s : St} {t : Nat} {q : Pc} (hn : InvN s) (ht : t < NN s)
    (h1 : isCB (s.pc t) = false ∧ isCS (s.pc t) = false ∧ isPG (s.pc t) = false ∧
          isPB (s.pc t) = false ∧ isPS (s.pc t) = false ∧ isCG (s.pc t) = false)
    (h2 : isCB q = false ∧ isCS q = false ∧ isPG q = false ∧ isPB q = false ∧ isPS q = false ∧ isCG q = false)
    {cnt' : Nat} (hc : cnt' = s.cnt) {cap' : Nat} (hcap : cap' = s.cfg.cap) :
    (0 < cntQ isCB (upd s.pc t q) (NN s) → cnt' ≤ cntQ isCS (upd s.pc t q) (NN s) + cntQ isPG (upd s.pc t q) (NN s)) ∧
    (0 < cntQ isPB (upd s.pc t q) (NN s) →
      cap' ≤ cnt' + cntQ isPS (upd s.pc t q) (NN s) + cntQ isCG (upd s.pc t q) (NN s)) := by
  obtain ⟨c1, c2⟩ := hn
  cnt6 t, q, ht
  obtain ⟨a1, a2, a3, a4, a5, a6⟩ := h1
  obtain ⟨b1, b2, b3, b4, b5, b6⟩ := h2
  simp only [a1, a2, a3, a4, a5, a6, b1, b2, b3, b4, b5, b6, Bool.false_eq_true, if_false, Nat.add_zero] at e1 e2 e3 e4 e5 e6
  subst hc hcap
  rw [e1, e2, e3, e4, e5, e6]
  exact ⟨c1, c2⟩

theorem stepN (hi : Inv s) (ha : InvA s) (hn : InvN s) (h : step s tok = some (s', ev)) : InvN s' := by
  unfold step at h
  split at h
  · cases h
  next hen =>
    have hen' : s.enabled tok = true := by simpa using hen
    have hlt : tok.tid < NN s := by
      simp only [St.enabled, Bool.and_eq_true, decide_eq_true_eq] at hen'; exact hen'.1
    have hfw := firstWaiting_spec s.pc
    have hfn := firstWaiting_none s.pc
    cases hpc : s.pc tok.tid <;> simp only [hpc] at h
    case done => cases h
    case pLock =>
      simp only [Option.some.injEq, Prod.mk.injEq] at h; obtain ⟨rfl, -⟩ := h
      exact invN_pEnter hi hn hlt (Or.inl hpc)
    case pCvBlocked =>
      simp only [Option.some.injEq, Prod.mk.injEq] at h; obtain ⟨rfl, -⟩ := h
      exact invN_pEnter hi hn hlt (Or.inr (Or.inl hpc))
    case pCvSignaled =>
      simp only [Option.some.injEq, Prod.mk.injEq] at h; obtain ⟨rfl, -⟩ := h
      exact invN_pEnter hi hn hlt (Or.inr (Or.inr hpc))
    case cLock =>
      simp only [Option.some.injEq, Prod.mk.injEq] at h; obtain ⟨rfl, -⟩ := h
      exact invN_cEnter hi hn hlt (Or.inl hpc)
    case cCvBlocked =>
      simp only [Option.some.injEq, Prod.mk.injEq] at h; obtain ⟨rfl, -⟩ := h
      exact invN_cEnter hi hn hlt (Or.inr (Or.inl hpc))
    case cCvSignaled =>
      simp only [Option.some.injEq, Prod.mk.injEq] at h; obtain ⟨rfl, -⟩ := h
      exact invN_cEnter hi hn hlt (Or.inr (Or.inr hpc))
    case pPay =>
      simp only [Option.some.injEq, Prod.mk.injEq] at h; obtain ⟨rfl, -⟩ := h
      obtain ⟨r1, r2⟩ := invN_same (q := .pLock) hn hlt (by simp [hpc]) (by simp) rfl rfl
      exact ⟨r1, r2⟩
    case pUnlock =>
      simp only [Option.some.injEq, Prod.mk.injEq] at h; obtain ⟨rfl, -⟩ := h
      obtain ⟨r1, r2⟩ := invN_same (q := if s.k tok.tid + 1 < s.cfg.n tok.tid then .pPay else .done) hn hlt
        (by simp [hpc]) (by split <;> simp) rfl rfl
      exact ⟨r1, r2⟩
    case cUnlock d =>
      cases d with
      | some m =>
        simp only [Option.some.injEq, Prod.mk.injEq] at h; obtain ⟨rfl, -⟩ := h
        obtain ⟨r1, r2⟩ := invN_same (q := .cPay m) hn hlt (by simp [hpc]) (by simp) rfl rfl
        exact ⟨r1, r2⟩
      | none =>
        simp only [Option.some.injEq, Prod.mk.injEq, nextConsumer] at h; obtain ⟨rfl, -⟩ := h
        obtain ⟨r1, r2⟩ := invN_same (q := if s.k tok.tid + 1 < s.cfg.kk tok.tid then .cLock else .done) hn hlt
          (by simp [hpc]) (by split <;> simp) rfl rfl
        exact ⟨r1, r2⟩
    case cPay m =>
      simp only [Option.some.injEq, Prod.mk.injEq, nextConsumer] at h; obtain ⟨rfl, -⟩ := h
      obtain ⟨r1, r2⟩ := invN_same (q := if s.k tok.tid + 1 < s.cfg.kk tok.tid then .cLock else .done) hn hlt
        (by simp [hpc]) (by split <;> simp) rfl rfl
      exact ⟨r1, r2⟩
    case pCvWait =>
      simp only [Option.some.injEq, Prod.mk.injEq] at h; obtain ⟨rfl, -⟩ := h
      have hfull := ha.pw tok.tid hlt hpc
      obtain ⟨c1, c2⟩ := hn
      cnt6 tok.tid, .pCvBlocked, hlt
      simp [hpc] at e1 e2 e3 e4 e5 e6
      refine ⟨?_, ?_⟩ <;> simp only [NN] at * <;> intro h0 <;> omega
    case cCvWait =>
      simp only [Option.some.injEq, Prod.mk.injEq] at h; obtain ⟨rfl, -⟩ := h
      have hempty := ha.cw tok.tid hlt hpc
      obtain ⟨c1, c2⟩ := hn
      cnt6 tok.tid, .cCvBlocked, hlt
      simp [hpc] at e1 e2 e3 e4 e5 e6
      refine ⟨?_, ?_⟩ <;> simp only [NN] at * <;> intro h0 <;> omega
    case pSignal =>
      split at h
      next w hw =>
        simp only [Option.some.injEq, Prod.mk.injEq] at h; obtain ⟨rfl, -⟩ := h
        obtain ⟨hwb, hwl⟩ := hfw _ _ _ _ hw
        have hne : tok.tid ≠ w := by intro e; rw [e, hwb] at hpc; cases hpc
        obtain ⟨c1, c2⟩ := hn
        have hwl' : w < NN s := by simpa [NN] using hwl
        -- inner update (the woken consumer), then the outer one (the producer)
        have f1 := cntQ_upd isCB s.pc (NN s) w .cCvSignaled hwl'
        have f2 := cntQ_upd isCS s.pc (NN s) w .cCvSignaled hwl'
        have f3 := cntQ_upd isPG s.pc (NN s) w .cCvSignaled hwl'
        have f4 := cntQ_upd isPB s.pc (NN s) w .cCvSignaled hwl'
        have f5 := cntQ_upd isPS s.pc (NN s) w .cCvSignaled hwl'
        have f6 := cntQ_upd isCG s.pc (NN s) w .cCvSignaled hwl'
        have g1 := cntQ_upd isCB (upd s.pc w .cCvSignaled) (NN s) tok.tid .pUnlock hlt
        have g2 := cntQ_upd isCS (upd s.pc w .cCvSignaled) (NN s) tok.tid .pUnlock hlt
        have g3 := cntQ_upd isPG (upd s.pc w .cCvSignaled) (NN s) tok.tid .pUnlock hlt
        have g4 := cntQ_upd isPB (upd s.pc w .cCvSignaled) (NN s) tok.tid .pUnlock hlt
        have g5 := cntQ_upd isPS (upd s.pc w .cCvSignaled) (NN s) tok.tid .pUnlock hlt
        have g6 := cntQ_upd isCG (upd s.pc w .cCvSignaled) (NN s) tok.tid .pUnlock hlt
        simp [hwb, hpc, upd_other _ _ _ _ hne] at f1 f2 f3 f4 f5 f6 g1 g2 g3 g4 g5 g6
        refine ⟨?_, ?_⟩ <;> simp only [NN] at * <;> intro h0 <;> omega
      next hw =>
        simp only [Option.some.injEq, Prod.mk.injEq] at h; obtain ⟨rfl, -⟩ := h
        have hz : cntQ isCB s.pc (NN s) = 0 := by
          apply cntQ_zero
          intro u hu
          have := hfn _ _ _ hw u (Nat.zero_le _) (by simpa [NN] using hu)
          cases hq : s.pc u <;> simp_all
        obtain ⟨c1, c2⟩ := hn
        cnt6 tok.tid, .pUnlock, hlt
        simp [hpc] at e1 e2 e3 e4 e5 e6
        refine ⟨?_, ?_⟩ <;> simp only [NN] at * <;> intro h0 <;> omega
    case cSignal d =>
      split at h
      next w hw =>
        simp only [Option.some.injEq, Prod.mk.injEq] at h; obtain ⟨rfl, -⟩ := h
        obtain ⟨hwb, hwl⟩ := hfw _ _ _ _ hw
        have hne : tok.tid ≠ w := by intro e; rw [e, hwb] at hpc; cases hpc
        obtain ⟨c1, c2⟩ := hn
        have hwl' : w < NN s := by simpa [NN] using hwl
        have f1 := cntQ_upd isCB s.pc (NN s) w .pCvSignaled hwl'
        have f2 := cntQ_upd isCS s.pc (NN s) w .pCvSignaled hwl'
        have f3 := cntQ_upd isPG s.pc (NN s) w .pCvSignaled hwl'
        have f4 := cntQ_upd isPB s.pc (NN s) w .pCvSignaled hwl'
        have f5 := cntQ_upd isPS s.pc (NN s) w .pCvSignaled hwl'
        have f6 := cntQ_upd isCG s.pc (NN s) w .pCvSignaled hwl'
        have g1 := cntQ_upd isCB (upd s.pc w .pCvSignaled) (NN s) tok.tid (.cUnlock d) hlt
        have g2 := cntQ_upd isCS (upd s.pc w .pCvSignaled) (NN s) tok.tid (.cUnlock d) hlt
        have g3 := cntQ_upd isPG (upd s.pc w .pCvSignaled) (NN s) tok.tid (.cUnlock d) hlt
        have g4 := cntQ_upd isPB (upd s.pc w .pCvSignaled) (NN s) tok.tid (.cUnlock d) hlt
        have g5 := cntQ_upd isPS (upd s.pc w .pCvSignaled) (NN s) tok.tid (.cUnlock d) hlt
        have g6 := cntQ_upd isCG (upd s.pc w .pCvSignaled) (NN s) tok.tid (.cUnlock d) hlt
        simp [hwb, hpc, upd_other _ _ _ _ hne] at f1 f2 f3 f4 f5 f6 g1 g2 g3 g4 g5 g6
        refine ⟨?_, ?_⟩ <;> simp only [NN] at * <;> intro h0 <;> omega
      next hw =>
        simp only [Option.some.injEq, Prod.mk.injEq] at h; obtain ⟨rfl, -⟩ := h
        have hz : cntQ isPB s.pc (NN s) = 0 := by
          apply cntQ_zero
          intro u hu
          have := hfn _ _ _ hw u (Nat.zero_le _) (by simpa [NN] using hu)
          cases hq : s.pc u <;> simp_all
        obtain ⟨c1, c2⟩ := hn
        cnt6 tok.tid, (.cUnlock d), hlt
        simp [hpc] at e1 e2 e3 e4 e5 e6
        refine ⟨?_, ?_⟩ <;> simp only [NN] at * <;> intro h0 <;> omega

theorem initN (c : Cfg) : InvN (mkInit c) := by
  have z1 : cntQ isCB (mkInit c).pc (NN (mkInit c)) = 0 := by
    apply cntQ_zero; intro w _; simp only [mkInit]; repeat' split
    all_goals rfl
  have z2 : cntQ isPB (mkInit c).pc (NN (mkInit c)) = 0 := by
    apply cntQ_zero; intro w _; simp only [mkInit]; repeat' split
    all_goals rfl
  exact ⟨fun h => by omega, fun h => by omega⟩

theorem reachN (c : Cfg) (hc : 0 < c.cap) (s : St) (hr : Reach step (mkInit c) s) :
    (Inv s ∧ InvA s) ∧ InvN s :=
  Reach.inv (fun s => (Inv s ∧ InvA s) ∧ InvN s) ⟨⟨init_inv c hc, initA c⟩, initN c⟩
    (fun _ _ _ _ hi h => ⟨⟨step_inv hi.1.1 h, stepA hi.1.1 hi.1.2 h⟩, stepN hi.1.1 hi.1.2 hi.2 h⟩) s hr

/-- every thread is finished or parked on a condition variable: nobody will run again unless a
wake-up arrives from outside (a spurious wake-up is not counted as a way out) -/
def Asleep (s : St) : Prop :=
  ∀ t, t < s.cfg.P + s.cfg.C → s.pc t = .done ∨ s.pc t = .pCvBlocked ∨ s.pc t = .cCvBlocked

/-- **No lost wake-up** (array blocking queue, any number of producers and consumers,
`notify_one`): if every thread is finished or parked, then a parked consumer means the queue is
empty and no producer is parked; a parked producer means the queue is full and no consumer is
parked. A message is never left in the queue next to a sleeping consumer, and a free slot is
never left next to a sleeping producer. -/
theorem asleep_has_reason {c : Cfg} {s : St} (hc : 0 < c.cap) (hr : Reach step (mkInit c) s)
    (hall : Asleep s) :
    ((∃ t, t < s.cfg.P + s.cfg.C ∧ s.pc t = .cCvBlocked) →
        s.cnt = 0 ∧ ∀ u, u < s.cfg.P + s.cfg.C → s.pc u ≠ .pCvBlocked) ∧
    ((∃ t, t < s.cfg.P + s.cfg.C ∧ s.pc t = .pCvBlocked) →
        s.cnt = s.cfg.cap ∧ ∀ u, u < s.cfg.P + s.cfg.C → s.pc u ≠ .cCvBlocked) := by
  obtain ⟨⟨hI, hA⟩, hN⟩ := reachN c hc s hr
  have zCS : cntQ isCS s.pc (NN s) = 0 := by
    apply cntQ_zero; intro w hw
    rcases hall w hw with h | h | h <;> simp [h]
  have zPG : cntQ isPG s.pc (NN s) = 0 := by
    apply cntQ_zero; intro w hw
    rcases hall w hw with h | h | h <;> simp [h]
  have zPS : cntQ isPS s.pc (NN s) = 0 := by
    apply cntQ_zero; intro w hw
    rcases hall w hw with h | h | h <;> simp [h]
  have zCG : cntQ isCG s.pc (NN s) = 0 := by
    apply cntQ_zero; intro w hw
    rcases hall w hw with h | h | h <;> simp [h]
  have hcap := hI.capPos
  have hb := hI.bound
  have cE : (∃ t, t < s.cfg.P + s.cfg.C ∧ s.pc t = .cCvBlocked) → s.cnt = 0 := by
    rintro ⟨t, ht, hp⟩
    have := hN.cn (cntQ_of_mem (f := isCB) (n := NN s) ht (by simp [hp]))
    omega
  have pF : (∃ t, t < s.cfg.P + s.cfg.C ∧ s.pc t = .pCvBlocked) → s.cnt = s.cfg.cap := by
    rintro ⟨t, ht, hp⟩
    have := hN.pn (cntQ_of_mem (f := isPB) (n := NN s) ht (by simp [hp]))
    omega
  refine ⟨fun h => ⟨cE h, ?_⟩, fun h => ⟨pF h, ?_⟩⟩
  · intro u hu hp
    have := cE h; have := pF ⟨u, hu, hp⟩; omega
  · intro u hu hp
    have := pF h; have := cE ⟨u, hu, hp⟩; omega

/-- the premise is satisfiable: a consumer parks on an empty queue -/
example : ∃ s, Reach step (mkInit { cap := 2, ns := [], ks := [1] }) s ∧ Asleep s ∧ s.pc 0 = .cCvBlocked := by
  refine ⟨_, reach_runSched step _ _ Reach.init [{ tid := 0 }, { tid := 0 }], ?_, by decide⟩
  intro t ht
  have hn : (runSched step (mkInit { cap := 2, ns := [], ks := [1] }) [{ tid := 0 }, { tid := 0 }]).1.cfg.P +
      (runSched step (mkInit { cap := 2, ns := [], ks := [1] }) [{ tid := 0 }, { tid := 0 }]).1.cfg.C = 1 := by decide
  have : t = 0 := by omega
  subst this; right; right; decide

/-! ## work accounting: who has put / taken how much -/

@[simp] def isProd : Pc → Bool
  | .pPay | .pLock | .pCvWait | .pCvBlocked | .pCvSignaled | .pSignal | .pUnlock => true
  | _ => false
@[simp] def isCons : Pc → Bool
  | .cLock | .cCvWait | .cCvBlocked | .cCvSignaled | .cSignal _ | .cUnlock _ | .cPay _ => true
  | _ => false
/-- the current message of the producer is enqueued, `k` not yet advanced -/
@[simp] def putDone : Pc → Bool | .pSignal | .pUnlock => true | _ => false
/-- the current take of the consumer has dequeued, `k` not yet advanced -/
@[simp] def tookDone : Pc → Bool | .cSignal _ | .cUnlock _ | .cPay _ => true | _ => false

def sumTo (g : Nat → Nat) : Nat → Nat
  | 0 => 0
  | n + 1 => sumTo g n + g n

theorem sumTo_congr {g g' : Nat → Nat} (n : Nat) (h : ∀ i, i < n → g' i = g i) : sumTo g' n = sumTo g n := by
  induction n with
  | zero => rfl
  | succ n ih => simp only [sumTo]; rw [ih (fun i hi => h i (by omega)), h n (by omega)]

theorem sumTo_upd1 {g g' : Nat → Nat} (n t : Nat) (ht : t < n) (h : ∀ i, i < n → i ≠ t → g' i = g i) :
    sumTo g' n + g t = sumTo g n + g' t := by
  induction n with
  | zero => omega
  | succ n ih =>
    simp only [sumTo]
    by_cases htn : t = n
    · subst htn
      rw [sumTo_congr t (fun i hi => h i (by omega) (by omega))]
      omega
    · have := ih (by omega) (fun i hi hne => h i (by omega) hne)
      rw [h n (by omega) (fun e => htn e.symm)]
      omega

theorem sumTo_le {g g' : Nat → Nat} (n : Nat) (h : ∀ i, i < n → g i ≤ g' i) : sumTo g n ≤ sumTo g' n := by
  induction n with
  | zero => exact Nat.le_refl _
  | succ n ih =>
    simp only [sumTo]
    have := ih (fun i hi => h i (by omega)); have := h n (by omega); omega

theorem sumTo_lt {g g' : Nat → Nat} (n t : Nat) (ht : t < n) (h : ∀ i, i < n → g i ≤ g' i) (hs : g t < g' t) :
    sumTo g n < sumTo g' n := by
  induction n with
  | zero => omega
  | succ n ih =>
    simp only [sumTo]
    by_cases htn : t = n
    · subst htn
      have := sumTo_le t (fun i hi => h i (by omega)); omega
    · have := ih (by omega) (fun i hi => h i (by omega)); have := h n (by omega); omega

/-- puts completed by thread `t` (producers only) -/
def gp (s : St) (t : Nat) : Nat :=
  if t < s.cfg.P then s.k t + (if putDone (s.pc t) = true then 1 else 0) else 0
/-- takes completed by thread `t` (consumers only) -/
def gc (s : St) (t : Nat) : Nat :=
  if s.cfg.P ≤ t then s.k t + (if tookDone (s.pc t) = true then 1 else 0) else 0

structure InvK (s : St) : Prop where
  roleP : ∀ t, t < s.cfg.P → isProd (s.pc t) = true ∨ s.pc t = .done
  roleC : ∀ t, s.cfg.P ≤ t → t < NN s → isCons (s.pc t) = true ∨ s.pc t = .done
  kP : ∀ t, t < s.cfg.P → (s.pc t = .done → s.k t = s.cfg.n t) ∧ (isProd (s.pc t) = true → s.k t < s.cfg.n t)
  kC : ∀ t, s.cfg.P ≤ t → t < NN s →
         (s.pc t = .done → s.k t = s.cfg.kk t) ∧ (isCons (s.pc t) = true → s.k t < s.cfg.kk t)
  sumP : s.puts.length = sumTo (gp s) (NN s)
  sumC : s.taken.length = sumTo (gc s) (NN s)

/-- what one step does to the stepping thread -/
structure LocalOK (s s' : St) (t : Nat) : Prop where
  p : t < s.cfg.P →
        (isProd (s'.pc t) = true ∨ s'.pc t = .done) ∧ (s'.pc t = .done → s'.k t = s.cfg.n t) ∧
        (isProd (s'.pc t) = true → s'.k t < s.cfg.n t) ∧
        s'.puts.length + (s.k t + (if putDone (s.pc t) = true then 1 else 0)) =
          s.puts.length + (s'.k t + (if putDone (s'.pc t) = true then 1 else 0)) ∧
        s'.taken.length = s.taken.length
  c : s.cfg.P ≤ t →
        (isCons (s'.pc t) = true ∨ s'.pc t = .done) ∧ (s'.pc t = .done → s'.k t = s.cfg.kk t) ∧
        (isCons (s'.pc t) = true → s'.k t < s.cfg.kk t) ∧
        s'.taken.length + (s.k t + (if tookDone (s.pc t) = true then 1 else 0)) =
          s.taken.length + (s'.k t + (if tookDone (s'.pc t) = true then 1 else 0)) ∧
        s'.puts.length = s.puts.length

/-- the other threads keep their pc, except that a parked one may have been signalled -/
def FrameOK (s s' : St) (t : Nat) : Prop :=
  ∀ i, i ≠ t → s'.k i = s.k i ∧
    (s'.pc i = s.pc i ∨ (s.pc i = .cCvBlocked ∧ s'.pc i = .cCvSignaled) ∨
     (s.pc i = .pCvBlocked ∧ s'.pc i = .pCvSignaled))

theorem invK_of_local {s s' : St} {t : Nat} (hcfg : s'.cfg = s.cfg) (ht : t < NN s)
    (hfr : FrameOK s s' t) (hloc : LocalOK s s' t) (hk : InvK s) : InvK s' := by
  have hN : NN s' = NN s := by simp [NN, hcfg]
  have frame : ∀ i, i ≠ t → s'.k i = s.k i ∧ isProd (s'.pc i) = isProd (s.pc i) ∧
      isCons (s'.pc i) = isCons (s.pc i) ∧ putDone (s'.pc i) = putDone (s.pc i) ∧
      tookDone (s'.pc i) = tookDone (s.pc i) ∧ (s'.pc i = .done ↔ s.pc i = .done) := by
    intro i hi
    obtain ⟨h1, h2⟩ := hfr i hi
    refine ⟨h1, ?_⟩
    rcases h2 with h2 | ⟨h2, h3⟩ | ⟨h2, h3⟩
    · simp [h2]
    · simp [h2, h3]
    · simp [h2, h3]
  refine ⟨?_, ?_, ?_, ?_, ?_, ?_⟩
  · intro i hi
    rw [hcfg] at hi
    by_cases hit : i = t
    · subst hit; exact (hloc.p hi).1
    · obtain ⟨_, f2, _, _, _, f6⟩ := frame i hit
      rcases hk.roleP i hi with h | h
      · left; rw [f2]; exact h
      · right; exact f6.2 h
  · intro i hi hi2
    rw [hcfg] at hi; rw [hN] at hi2
    by_cases hit : i = t
    · subst hit; exact (hloc.c hi).1
    · obtain ⟨_, _, f3, _, _, f6⟩ := frame i hit
      rcases hk.roleC i hi hi2 with h | h
      · left; rw [f3]; exact h
      · right; exact f6.2 h
  · intro i hi
    rw [hcfg] at hi ⊢
    by_cases hit : i = t
    · subst hit; exact ⟨(hloc.p hi).2.1, (hloc.p hi).2.2.1⟩
    · obtain ⟨f1, f2, _, _, _, f6⟩ := frame i hit
      rw [f1, f2]
      exact ⟨fun h => (hk.kP i hi).1 (f6.1 h), (hk.kP i hi).2⟩
  · intro i hi hi2
    rw [hcfg] at hi ⊢; rw [hN] at hi2
    by_cases hit : i = t
    · subst hit; exact ⟨(hloc.c hi).2.1, (hloc.c hi).2.2.1⟩
    · obtain ⟨f1, _, f3, _, _, f6⟩ := frame i hit
      rw [f1, f3]
      exact ⟨fun h => (hk.kC i hi hi2).1 (f6.1 h), (hk.kC i hi hi2).2⟩
  · rw [hN]
    have hsame : ∀ i, i < NN s → i ≠ t → gp s' i = gp s i := by
      intro i _ hit
      obtain ⟨f1, _, _, f4, _, _⟩ := frame i hit
      simp only [gp, hcfg, f1, f4]
    have e := sumTo_upd1 (g := gp s) (g' := gp s') (NN s) t ht hsame
    have hp := hk.sumP
    by_cases htp : t < s.cfg.P
    · obtain ⟨_, _, _, h4, _⟩ := hloc.p htp
      simp only [gp, hcfg, htp, if_true] at e
      omega
    · have htp' : s.cfg.P ≤ t := by omega
      obtain ⟨_, _, _, _, h5⟩ := hloc.c htp'
      simp only [gp, hcfg, htp, if_false] at e
      omega
  · rw [hN]
    have hsame : ∀ i, i < NN s → i ≠ t → gc s' i = gc s i := by
      intro i _ hit
      obtain ⟨f1, _, _, _, f5, _⟩ := frame i hit
      simp only [gc, hcfg, f1, f5]
    have e := sumTo_upd1 (g := gc s) (g' := gc s') (NN s) t ht hsame
    have hp := hk.sumC
    by_cases htp : t < s.cfg.P
    · obtain ⟨_, _, _, _, h5⟩ := hloc.p htp
      have : ¬ s.cfg.P ≤ t := by omega
      simp only [gc, hcfg, this, if_false] at e
      omega
    · have htp' : s.cfg.P ≤ t := by omega
      obtain ⟨_, _, _, h4, _⟩ := hloc.c htp'
      simp only [gc, hcfg, htp', if_true] at e
      omega

theorem pEnter_spec (s : St) (t : Nat) :
    (pEnter s t).cfg = s.cfg ∧ (pEnter s t).k = s.k ∧ (pEnter s t).taken = s.taken ∧
    ((s.cnt = s.cfg.cap ∧ (pEnter s t).pc = upd s.pc t .pCvWait ∧ (pEnter s t).puts = s.puts) ∨
     (s.cnt ≠ s.cfg.cap ∧ (pEnter s t).pc = upd s.pc t .pSignal ∧ (pEnter s t).puts = s.puts ++ [cur s t])) := by
  unfold pEnter
  simp only
  split
  next h => exact ⟨rfl, rfl, rfl, Or.inl ⟨h, rfl, rfl⟩⟩
  next h => exact ⟨rfl, rfl, rfl, Or.inr ⟨h, rfl, rfl⟩⟩

theorem cEnter_spec (s : St) (t : Nat) :
    (cEnter s t).cfg = s.cfg ∧ (cEnter s t).k = s.k ∧ (cEnter s t).puts = s.puts ∧
    ((s.cnt = 0 ∧ (cEnter s t).pc = upd s.pc t .cCvWait ∧ (cEnter s t).taken = s.taken) ∨
     (s.cnt ≠ 0 ∧ (cEnter s t).pc = upd s.pc t (.cSignal (s.datas s.takeIdx)) ∧
      (cEnter s t).taken = s.taken ++ [s.datas s.takeIdx])) := by
  unfold cEnter
  simp only
  split
  next h => exact ⟨rfl, rfl, rfl, Or.inl ⟨h, rfl, rfl⟩⟩
  next h => exact ⟨rfl, rfl, rfl, Or.inr ⟨h, rfl, rfl⟩⟩

theorem frame_upd (s : St) (t : Nat) (q : Pc) {s' : St} (hk : s'.k = s.k) (hpc : s'.pc = upd s.pc t q) :
    FrameOK s s' t := by
  intro i hi
  exact ⟨by rw [hk], Or.inl (by rw [hpc, upd_other _ _ _ _ hi])⟩

theorem invK_pEnter {s : St} {t : Nat} (hk : InvK s) (ht : t < NN s)
    (hp : s.pc t = .pLock ∨ s.pc t = .pCvBlocked ∨ s.pc t = .pCvSignaled) : InvK (pEnter s t) := by
  obtain ⟨e1, e2, e3, e4⟩ := pEnter_spec s t
  have hnc : ¬ s.cfg.P ≤ t := by
    intro hge
    have := hk.roleC t hge ht
    rcases hp with hp | hp | hp <;> simp [hp] at this
  have htp : t < s.cfg.P := by omega
  have hkk : s.k t < s.cfg.n t := (hk.kP t htp).2 (by rcases hp with hp | hp | hp <;> simp [hp])
  rcases e4 with ⟨_, f2, f3⟩ | ⟨_, f2, f3⟩
  · refine invK_of_local e1 ht (frame_upd s t _ e2 f2) ⟨?_, fun h => absurd h hnc⟩ hk
    intro _
    rw [f2, e2, e3, f3]
    simp only [upd_same]
    rcases hp with hp | hp | hp <;> simp [hp, hkk]
  · refine invK_of_local e1 ht (frame_upd s t _ e2 f2) ⟨?_, fun h => absurd h hnc⟩ hk
    intro _
    rw [f2, e2, e3, f3]
    simp only [upd_same]
    rcases hp with hp | hp | hp <;> simp [hp, hkk] <;> omega

theorem invK_cEnter {s : St} {t : Nat} (hk : InvK s) (ht : t < NN s)
    (hp : s.pc t = .cLock ∨ s.pc t = .cCvBlocked ∨ s.pc t = .cCvSignaled) : InvK (cEnter s t) := by
  obtain ⟨e1, e2, e3, e4⟩ := cEnter_spec s t
  have hnp : ¬ t < s.cfg.P := by
    intro hlt
    have := hk.roleP t hlt
    rcases hp with hp | hp | hp <;> simp [hp] at this
  have htc : s.cfg.P ≤ t := by omega
  have hkk : s.k t < s.cfg.kk t := (hk.kC t htc ht).2 (by rcases hp with hp | hp | hp <;> simp [hp])
  rcases e4 with ⟨_, f2, f3⟩ | ⟨_, f2, f3⟩
  · refine invK_of_local e1 ht (frame_upd s t _ e2 f2) ⟨fun h => absurd h hnp, ?_⟩ hk
    intro _
    rw [f2, e2, e3, f3]
    simp only [upd_same]
    rcases hp with hp | hp | hp <;> simp [hp, hkk]
  · refine invK_of_local e1 ht (frame_upd s t _ e2 f2) ⟨fun h => absurd h hnp, ?_⟩ hk
    intro _
    rw [f2, e2, e3, f3]
    simp only [upd_same]
    rcases hp with hp | hp | hp <;> simp [hp, hkk] <;> omega

/-- a producer-side step that only moves the stepping thread (pc, maybe `k`) -/
theorem invK_prod {s s' : St} {t : Nat} {q : Pc} (hk : InvK s) (ht : t < NN s)
    (hprod : isProd (s.pc t) = true)
    (hcfg : s'.cfg = s.cfg) (hfr : FrameOK s s' t)
    (hpu : s'.puts = s.puts) (hta : s'.taken = s.taken) (hpc : s'.pc t = q)
    (hq : (putDone (s.pc t) = putDone q ∧ s'.k t = s.k t ∧ isProd q = true) ∨
          (putDone (s.pc t) = true ∧ s'.k t = s.k t + 1 ∧
            q = (if s.k t + 1 < s.cfg.n t then .pPay else .done))) : InvK s' := by
  have hnc : ¬ s.cfg.P ≤ t := by
    intro hge
    have := hk.roleC t hge ht
    rcases this with h | h
    · cases hq' : s.pc t <;> simp_all
    · simp [h] at hprod
  have htp : t < s.cfg.P := by omega
  have hkk : s.k t < s.cfg.n t := (hk.kP t htp).2 hprod
  refine invK_of_local hcfg ht hfr ⟨?_, fun h => absurd h hnc⟩ hk
  intro _
  rw [hpu, hta, hpc]
  rcases hq with ⟨h1, h2, h3⟩ | ⟨h1, h2, h3⟩
  · rw [h2, h1]
    refine ⟨Or.inl h3, ?_, fun _ => hkk, rfl, rfl⟩
    intro hd; rw [hd] at h3; simp at h3
  · rw [h2, h1, h3]
    split
    next hlt => simp; omega
    next hge => simp; omega

/-- a consumer-side step that only moves the stepping thread (pc, maybe `k`) -/
theorem invK_cons {s s' : St} {t : Nat} {q : Pc} (hk : InvK s) (ht : t < NN s)
    (hcons : isCons (s.pc t) = true)
    (hcfg : s'.cfg = s.cfg) (hfr : FrameOK s s' t)
    (hpu : s'.puts = s.puts) (hta : s'.taken = s.taken) (hpc : s'.pc t = q)
    (hq : (tookDone (s.pc t) = tookDone q ∧ s'.k t = s.k t ∧ isCons q = true) ∨
          (tookDone (s.pc t) = true ∧ s'.k t = s.k t + 1 ∧
            q = (if s.k t + 1 < s.cfg.kk t then .cLock else .done))) : InvK s' := by
  have hnp : ¬ t < s.cfg.P := by
    intro hlt
    have := hk.roleP t hlt
    rcases this with h | h
    · cases hq' : s.pc t <;> simp_all
    · simp [h] at hcons
  have htc : s.cfg.P ≤ t := by omega
  have hkk : s.k t < s.cfg.kk t := (hk.kC t htc ht).2 hcons
  refine invK_of_local hcfg ht hfr ⟨fun h => absurd h hnp, ?_⟩ hk
  intro _
  rw [hpu, hta, hpc]
  rcases hq with ⟨h1, h2, h3⟩ | ⟨h1, h2, h3⟩
  · rw [h2, h1]
    refine ⟨Or.inl h3, ?_, fun _ => hkk, rfl, rfl⟩
    intro hd; rw [hd] at h3; simp at h3
  · rw [h2, h1, h3]
    split
    next hlt => simp; omega
    next hge => simp; omega

theorem frame_wake (s : St) (t w : Nat) (q : Pc) (hne : t ≠ w)
    (hw : (s.pc w = .cCvBlocked ∧ qw = .cCvSignaled) ∨ (s.pc w = .pCvBlocked ∧ qw = .pCvSignaled))
    {s' : St} (hk : s'.k = s.k) (hpc : s'.pc = upd (upd s.pc w qw) t q) : FrameOK s s' t := by
  intro i hi
  refine ⟨by rw [hk], ?_⟩
  rw [hpc, upd_other _ _ _ _ hi]
  by_cases hiw : i = w
  · subst hiw
    rw [upd_same]
    rcases hw with ⟨h1, h2⟩ | ⟨h1, h2⟩
    · right; left; exact ⟨h1, h2⟩
    · right; right; exact ⟨h1, h2⟩
  · left; rw [upd_other _ _ _ _ hiw]

theorem stepK (hk : InvK s) (h : step s tok = some (s', ev)) : InvK s' := by
  unfold step at h
  split at h
  · cases h
  next hen =>
    have hen' : s.enabled tok = true := by simpa using hen
    have hlt : tok.tid < NN s := by
      simp only [St.enabled, Bool.and_eq_true, decide_eq_true_eq] at hen'; exact hen'.1
    have hfw := firstWaiting_spec s.pc
    cases hpc : s.pc tok.tid <;> simp only [hpc] at h
    case done => cases h
    case pLock =>
      simp only [Option.some.injEq, Prod.mk.injEq] at h; obtain ⟨rfl, -⟩ := h
      exact invK_pEnter hk hlt (Or.inl hpc)
    case pCvBlocked =>
      simp only [Option.some.injEq, Prod.mk.injEq] at h; obtain ⟨rfl, -⟩ := h
      exact invK_pEnter hk hlt (Or.inr (Or.inl hpc))
    case pCvSignaled =>
      simp only [Option.some.injEq, Prod.mk.injEq] at h; obtain ⟨rfl, -⟩ := h
      exact invK_pEnter hk hlt (Or.inr (Or.inr hpc))
    case cLock =>
      simp only [Option.some.injEq, Prod.mk.injEq] at h; obtain ⟨rfl, -⟩ := h
      exact invK_cEnter hk hlt (Or.inl hpc)
    case cCvBlocked =>
      simp only [Option.some.injEq, Prod.mk.injEq] at h; obtain ⟨rfl, -⟩ := h
      exact invK_cEnter hk hlt (Or.inr (Or.inl hpc))
    case cCvSignaled =>
      simp only [Option.some.injEq, Prod.mk.injEq] at h; obtain ⟨rfl, -⟩ := h
      exact invK_cEnter hk hlt (Or.inr (Or.inr hpc))
    case pPay =>
      simp only [Option.some.injEq, Prod.mk.injEq] at h; obtain ⟨rfl, -⟩ := h
      exact invK_prod (q := .pLock) hk hlt (by simp [hpc]) rfl (frame_upd s _ _ rfl rfl) rfl rfl
        (by simp) (Or.inl (by simp [hpc]))
    case pCvWait =>
      simp only [Option.some.injEq, Prod.mk.injEq] at h; obtain ⟨rfl, -⟩ := h
      exact invK_prod (q := .pCvBlocked) hk hlt (by simp [hpc]) rfl (frame_upd s _ _ rfl rfl) rfl rfl
        (by simp) (Or.inl (by simp [hpc]))
    case pUnlock =>
      simp only [Option.some.injEq, Prod.mk.injEq] at h; obtain ⟨rfl, -⟩ := h
      refine invK_prod (q := if s.k tok.tid + 1 < s.cfg.n tok.tid then .pPay else .done) hk hlt (by simp [hpc]) rfl
        ?_ rfl rfl (by simp) (Or.inr ⟨by simp [hpc], by simp, rfl⟩)
      intro i hi
      exact ⟨by simp [upd_other _ _ _ _ hi], Or.inl (by simp [upd_other _ _ _ _ hi])⟩
    case pSignal =>
      split at h
      next w hw =>
        simp only [Option.some.injEq, Prod.mk.injEq] at h; obtain ⟨rfl, -⟩ := h
        obtain ⟨hwb, hwl⟩ := hfw _ _ _ _ hw
        have hne : tok.tid ≠ w := by intro e; rw [e, hwb] at hpc; cases hpc
        exact invK_prod (q := .pUnlock) hk hlt (by simp [hpc]) rfl
          (frame_wake s _ w _ hne (Or.inl ⟨hwb, rfl⟩) rfl rfl) rfl rfl (by simp) (Or.inl (by simp [hpc]))
      next hw =>
        simp only [Option.some.injEq, Prod.mk.injEq] at h; obtain ⟨rfl, -⟩ := h
        exact invK_prod (q := .pUnlock) hk hlt (by simp [hpc]) rfl (frame_upd s _ _ rfl rfl) rfl rfl
          (by simp) (Or.inl (by simp [hpc]))
    case cCvWait =>
      simp only [Option.some.injEq, Prod.mk.injEq] at h; obtain ⟨rfl, -⟩ := h
      exact invK_cons (q := .cCvBlocked) hk hlt (by simp [hpc]) rfl (frame_upd s _ _ rfl rfl) rfl rfl
        (by simp) (Or.inl (by simp [hpc]))
    case cSignal d =>
      split at h
      next w hw =>
        simp only [Option.some.injEq, Prod.mk.injEq] at h; obtain ⟨rfl, -⟩ := h
        obtain ⟨hwb, hwl⟩ := hfw _ _ _ _ hw
        have hne : tok.tid ≠ w := by intro e; rw [e, hwb] at hpc; cases hpc
        exact invK_cons (q := .cUnlock d) hk hlt (by simp [hpc]) rfl
          (frame_wake s _ w _ hne (Or.inr ⟨hwb, rfl⟩) rfl rfl) rfl rfl (by simp) (Or.inl (by simp [hpc]))
      next hw =>
        simp only [Option.some.injEq, Prod.mk.injEq] at h; obtain ⟨rfl, -⟩ := h
        exact invK_cons (q := .cUnlock d) hk hlt (by simp [hpc]) rfl (frame_upd s _ _ rfl rfl) rfl rfl
          (by simp) (Or.inl (by simp [hpc]))
    case cUnlock d =>
      cases d with
      | some m =>
        simp only [Option.some.injEq, Prod.mk.injEq] at h; obtain ⟨rfl, -⟩ := h
        exact invK_cons (q := .cPay m) hk hlt (by simp [hpc]) rfl (frame_upd s _ _ rfl rfl) rfl rfl
          (by simp) (Or.inl (by simp [hpc]))
      | none =>
        simp only [Option.some.injEq, Prod.mk.injEq, nextConsumer] at h; obtain ⟨rfl, -⟩ := h
        refine invK_cons (q := if s.k tok.tid + 1 < s.cfg.kk tok.tid then .cLock else .done) hk hlt
          (by simp [hpc]) rfl ?_ rfl rfl (by simp) (Or.inr ⟨by simp [hpc], by simp, rfl⟩)
        intro i hi
        exact ⟨by simp [upd_other _ _ _ _ hi], Or.inl (by simp [upd_other _ _ _ _ hi])⟩
    case cPay m =>
      simp only [Option.some.injEq, Prod.mk.injEq, nextConsumer] at h; obtain ⟨rfl, -⟩ := h
      refine invK_cons (q := if s.k tok.tid + 1 < s.cfg.kk tok.tid then .cLock else .done) hk hlt
        (by simp [hpc]) rfl ?_ rfl rfl (by simp) (Or.inr ⟨by simp [hpc], by simp, rfl⟩)
      intro i hi
      exact ⟨by simp [upd_other _ _ _ _ hi], Or.inl (by simp [upd_other _ _ _ _ hi])⟩

theorem sumTo_zero {g : Nat → Nat} (n : Nat) (h : ∀ i, i < n → g i = 0) : sumTo g n = 0 := by
  induction n with
  | zero => rfl
  | succ n ih => simp only [sumTo]; rw [ih (fun i hi => h i (by omega)), h n (by omega)]

theorem initK (c : Cfg) : InvK (mkInit c) := by
  refine ⟨?_, ?_, ?_, ?_, ?_, ?_⟩
  · intro t ht
    simp only [mkInit] at ht ⊢
    simp only [ht, if_true]
    split <;> simp
  · intro t h1 h2
    simp only [mkInit, NN] at h1 h2 ⊢
    have : ¬ t < c.P := by omega
    simp only [this, if_false, h2, if_true]
    split <;> simp
  · intro t ht
    simp only [mkInit] at ht ⊢
    simp only [ht, if_true]
    split
    next h0 => simp [h0]
    next h0 => simp; omega
  · intro t h1 h2
    simp only [mkInit, NN] at h1 h2 ⊢
    have : ¬ t < c.P := by omega
    simp only [this, if_false, h2, if_true]
    split
    next h0 => simp [h0]
    next h0 => simp; omega
  · have : sumTo (gp (mkInit c)) (NN (mkInit c)) = 0 := by
      apply sumTo_zero
      intro i _
      simp only [gp, mkInit]
      repeat' split
      all_goals simp_all
    rw [this]; rfl
  · have : sumTo (gc (mkInit c)) (NN (mkInit c)) = 0 := by
      apply sumTo_zero
      intro i hi
      simp only [gc, mkInit]
      by_cases hge : c.P ≤ i
      · have hnl : ¬ i < c.P := by omega
        simp only [hge, hnl, if_true, if_false]
        repeat' split
        all_goals simp_all
      · simp only [hge, if_false]
    rw [this]; rfl

theorem step_cfg (h : step s tok = some (s', ev)) : s'.cfg = s.cfg := by
  unfold step at h
  split at h
  · cases h
  · cases hpc : s.pc tok.tid <;> simp only [hpc] at h
    case done => cases h
    all_goals
      (repeat' split at h)
      all_goals first
        | (cases h; done)
        | (simp only [Option.some.injEq, Prod.mk.injEq, nextConsumer] at h; obtain ⟨rfl, -⟩ := h
           first | rfl | exact (pEnter_spec _ _).1 | exact (cEnter_spec _ _).1)

theorem reachK (c : Cfg) (hc : 0 < c.cap) (s : St) (hr : Reach step (mkInit c) s) :
    ((Inv s ∧ InvA s) ∧ InvN s) ∧ InvK s ∧ s.cfg = c :=
  Reach.inv (fun s => ((Inv s ∧ InvA s) ∧ InvN s) ∧ InvK s ∧ s.cfg = c)
    ⟨⟨⟨init_inv c hc, initA c⟩, initN c⟩, initK c, rfl⟩
    (fun _ _ _ _ hi h =>
      ⟨⟨⟨step_inv hi.1.1.1 h, stepA hi.1.1.1 hi.1.1.2 h⟩, stepN hi.1.1.1 hi.1.1.2 hi.1.2 h⟩,
       stepK hi.2.1 h, by rw [step_cfg h]; exact hi.2.2⟩) s hr

/-- total number of puts the producers are asked for -/
def wantPuts (c : Cfg) : Nat := sumTo (fun t => if t < c.P then c.n t else 0) (c.P + c.C)
/-- total number of takes the consumers are asked for -/
def wantTakes (c : Cfg) : Nat := sumTo (fun t => if c.P ≤ t then c.kk t else 0) (c.P + c.C)

/-- **No lost wake-up, no deadlock** (array blocking queue, full statement). For every capacity
≥ 1, any number of producers and consumers, every schedule: if the workload is completable —
the consumers together ask for exactly as many messages as the producers put — then a state in
which every thread is finished or parked on a condition variable is a state in which every thread
is **finished**. No interleaving ends with a participant asleep while work remains. -/
theorem no_global_sleep {c : Cfg} {s : St} (hc : 0 < c.cap) (hbal : wantPuts c = wantTakes c)
    (hr : Reach step (mkInit c) s) (hall : Asleep s) :
    ∀ t, t < s.cfg.P + s.cfg.C → s.pc t = .done := by
  obtain ⟨⟨⟨hI, hA⟩, hN⟩, hK, hcfg⟩ := reachK c hc s hr
  obtain ⟨hcons, hprod⟩ := asleep_has_reason hc hr hall
  have hcount := hI.count
  have hcap := hI.capPos
  have hNN : NN s = c.P + c.C := by simp [NN, hcfg]
  -- upper bounds: nobody has done more than asked
  have ubP : ∀ i, i < NN s → gp s i ≤ (if i < c.P then c.n i else 0) := by
    intro i hi
    simp only [gp, hcfg]
    split
    next hp =>
      have hp' : i < s.cfg.P := by rw [hcfg]; exact hp
      rcases hall i hi with h | h | h
      · have := (hK.kP i hp').1 h; rw [hcfg] at this; simp [h, this]
      · have := (hK.kP i hp').2 (by simp [h]); rw [hcfg] at this; simp [h]; omega
      · have := hK.roleP i hp'; simp [h] at this
    next => exact Nat.le_refl _
  have ubC : ∀ i, i < NN s → gc s i ≤ (if c.P ≤ i then c.kk i else 0) := by
    intro i hi
    simp only [gc, hcfg]
    split
    next hp =>
      have hp' : s.cfg.P ≤ i := by rw [hcfg]; exact hp
      rcases hall i hi with h | h | h
      · have := (hK.kC i hp' hi).1 h; rw [hcfg] at this; simp [h, this]
      · have := hK.roleC i hp' hi; simp [h] at this
      · have := (hK.kC i hp' hi).2 (by simp [h]); rw [hcfg] at this; simp [h]; omega
    next => exact Nat.le_refl _
  have leP := sumTo_le (NN s) ubP
  have leC := sumTo_le (NN s) ubC
  have sP := hK.sumP
  have sC := hK.sumC
  simp only [wantPuts, wantTakes] at hbal
  rw [hNN] at leP leC sP sC
  intro t ht
  rcases hall t ht with h | h | h
  · exact h
  · -- a parked producer: the queue is full and every consumer has finished, so more was put than asked
    exfalso
    obtain ⟨hfull, hnoc⟩ := hprod ⟨t, ht, h⟩
    have eqC : sumTo (gc s) (NN s) = sumTo (fun i => if c.P ≤ i then c.kk i else 0) (NN s) := by
      apply sumTo_congr
      intro i hi
      simp only [gc, hcfg]
      split
      next hp =>
        have hp' : s.cfg.P ≤ i := by rw [hcfg]; exact hp
        rcases hall i hi with h' | h' | h'
        · have := (hK.kC i hp' hi).1 h'; rw [hcfg] at this; simp [h', this]
        · have := hK.roleC i hp' hi; simp [h'] at this
        · exact absurd h' (hnoc i hi)
      next => rfl
    rw [hNN] at eqC
    rw [hcfg] at hfull
    omega
  · -- a parked consumer: the queue is empty and every producer has finished, so less was put than asked
    exfalso
    obtain ⟨hempty, hnop⟩ := hcons ⟨t, ht, h⟩
    have htc : s.cfg.P ≤ t := by
      apply Classical.byContradiction; intro hn
      have := hK.roleP t (by omega); simp [h] at this
    have eqP : sumTo (gp s) (NN s) = sumTo (fun i => if i < c.P then c.n i else 0) (NN s) := by
      apply sumTo_congr
      intro i hi
      simp only [gp, hcfg]
      split
      next hp =>
        have hp' : i < s.cfg.P := by rw [hcfg]; exact hp
        rcases hall i hi with h' | h' | h'
        · have := (hK.kP i hp').1 h'; rw [hcfg] at this; simp [h', this]
        · exact absurd h' (hnop i hi)
        · have := hK.roleP i hp'; simp [h'] at this
      next => rfl
    have hlt : gc s t < (if c.P ≤ t then c.kk t else 0) := by
      have := (hK.kC t htc ht).2 (by simp [h]); rw [hcfg] at this htc
      simp [gc, hcfg, htc, h]; exact this
    have := sumTo_lt (NN s) t ht ubC hlt
    rw [hNN] at this eqP
    omega

/-! ## the two totals are the sums of the configured lists -/

theorem sumTo_shift (g : Nat → Nat) (n : Nat) : sumTo g (n + 1) = g 0 + sumTo (fun i => g (i + 1)) n := by
  induction n with
  | zero => simp [sumTo]
  | succ n ih =>
    have e : sumTo g (n + 1 + 1) = sumTo g (n + 1) + g (n + 1) := rfl
    have e2 : sumTo (fun i => g (i + 1)) (n + 1) = sumTo (fun i => g (i + 1)) n + g (n + 1) := rfl
    rw [e, ih, e2]; omega

theorem sumTo_getD (l : List Nat) : sumTo (fun i => l.getD i 0) l.length = l.sum := by
  induction l with
  | nil => rfl
  | cons a l ih =>
    rw [List.length_cons, sumTo_shift]
    simp only [List.getD_cons_zero, List.getD_cons_succ, List.sum_cons]
    rw [ih]

theorem sumTo_add (g : Nat → Nat) (a b : Nat) : sumTo g (a + b) = sumTo g a + sumTo (fun i => g (a + i)) b := by
  induction b with
  | zero => simp [sumTo]
  | succ b ih =>
    have e : sumTo g (a + (b + 1)) = sumTo g (a + b) + g (a + b) := rfl
    have e2 : sumTo (fun i => g (a + i)) (b + 1) = sumTo (fun i => g (a + i)) b + g (a + b) := rfl
    rw [e, ih, e2]; omega

theorem wantPuts_eq (c : Cfg) : wantPuts c = c.ns.sum := by
  unfold wantPuts
  rw [sumTo_add]
  have h1 : sumTo (fun t => if t < c.P then c.n t else 0) c.P = sumTo (fun i => c.ns.getD i 0) c.ns.length := by
    apply sumTo_congr
    intro i hi
    have : i < c.P := hi
    simp [this, Cfg.n]
  have h2 : sumTo (fun i => (fun t => if t < c.P then c.n t else 0) (c.P + i)) c.C = 0 := by
    apply sumTo_zero
    intro i _
    have : ¬ c.P + i < c.P := by omega
    simp [this]
  rw [h1, h2, sumTo_getD]; rfl

theorem wantTakes_eq (c : Cfg) : wantTakes c = c.ks.sum := by
  unfold wantTakes
  rw [sumTo_add]
  have h1 : sumTo (fun t => if c.P ≤ t then c.kk t else 0) c.P = 0 := by
    apply sumTo_zero
    intro i hi
    have : ¬ c.P ≤ i := by omega
    simp [this]
  have h2 : sumTo (fun i => (fun t => if c.P ≤ t then c.kk t else 0) (c.P + i)) c.C =
      sumTo (fun i => c.ks.getD i 0) c.ks.length := by
    apply sumTo_congr
    intro i _
    simp [Cfg.kk]
  rw [h1, h2, sumTo_getD]; simp

/-- `no_global_sleep` with the workload stated on the configuration lists: the per-producer put
counts `ns` and the per-consumer take counts `ks` have the same sum -/
theorem no_global_sleep_balanced {c : Cfg} {s : St} (hc : 0 < c.cap) (hbal : c.ns.sum = c.ks.sum)
    (hr : Reach step (mkInit c) s) (hall : Asleep s) :
    ∀ t, t < s.cfg.P + s.cfg.C → s.pc t = .done :=
  no_global_sleep hc (by rw [wantPuts_eq, wantTakes_eq]; exact hbal) hr hall

/-- the hypotheses are satisfiable and the conclusion is not vacuous: 2 producers x 1 message,
1 consumer x 2 messages, capacity 1, a complete run ends with every thread finished -/
example : (([1, 1] : List Nat).sum = ([2] : List Nat).sum) ∧
    ∃ s, Reach step (mkInit { cap := 1, ns := [1, 1], ks := [2] }) s ∧ Asleep s := by
  refine ⟨rfl, _, reach_runSched step _ _ Reach.init
    ([0, 0, 0, 0, 2, 2, 2, 2, 1, 1, 1, 1, 2, 2, 2, 2].map fun t => { tid := t }), ?_⟩
  intro t ht
  have hn : (runSched step (mkInit { cap := 1, ns := [1, 1], ks := [2] })
      (([0, 0, 0, 0, 2, 2, 2, 2, 1, 1, 1, 1, 2, 2, 2, 2] : List Nat).map fun t => { tid := t })).1.cfg.P +
      (runSched step (mkInit { cap := 1, ns := [1, 1], ks := [2] })
      (([0, 0, 0, 0, 2, 2, 2, 2, 1, 1, 1, 1, 2, 2, 2, 2] : List Nat).map fun t => { tid := t })).1.cfg.C = 3 := by decide
  have : t = 0 ∨ t = 1 ∨ t = 2 := by omega
  rcases this with rfl | rfl | rfl <;> (left; decide)

end MgProof.C03.ABQ
