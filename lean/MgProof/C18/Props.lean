import MgProof.C18.LemmasFam
/-!
# C18 — property theorems: allocation failure is reported, leak-free and crash-free;
destroy releases all

Statement (properties.jsonl): *if any single memory allocation (or descriptor-creating system
call) fails during any init, growth, insert or logging operation of the library, the call
reports failure, never success with a half-built object and never a crash or hang, releases
everything it had acquired, and leaves the object safe to destroy or retry.  On the success path
every init/destroy (or thread-context init/cleanup) pair releases everything allocated in
between.*

Quantifiers of the theorems below: **every** fault schedule `f : Nat → Bool` (any number of
failing acquisitions, not just one), every heap / schedule position at which the call starts,
every parameter combination that selects a different path (lock kinds, backends, node pool or
not, capacities), every well-formed object state for growers / inserters, and — for the
life-cycle theorems — every list of calls of every length, including retries after a failed
constructor and destroy after a failed constructor.

The models (`MgModel/C18/*.lean`) describe the code with `/verif/fixes/C18-*.patch` applied; tie B
(`checks/C18/check.py`) compares them with the compiled code at every fault position.

Vocabulary: `InitContract built empty m fd n f h r` — constructor with `n` acquisitions on its
success path: if none of them fails, `r` is success with exactly `built` and the heap grown by
`m` blocks / `fd` descriptors; otherwise `r` is failure with `empty` (every resource field
NULL), the live counts as before (`Failed`).  `OpContractS` / `OpContract` — grower from a
well-formed state: no `Err`, state stays well-formed, heap change = change of what the object
owns, success ⇒ no fault consumed, (S) failure ⇒ object unchanged.  `Err` = NULL dereference,
double free, use after free, hang: an `.ok` result excludes all four.
-/
namespace MgProof.C18
open MgModel.C18

/-! ## Clause 1+2 — every constructor: failure is reported exactly when an acquisition failed,
success only with the fully built object, nothing acquired is left after a failure, no crash -/

/-- `muggle_channel_init`, all lock / reader kinds -/
theorem muggle_channel_init_c18 (f : Sched) (w r : Bool) (h : Heap) :
    InitContract (chanBuilt w r) ({} : Chan) (chanN w r) 0 (chanN w r) f h (chanInit f true w r h) :=
  chanInit_contract f w r h

/-- `muggle_ring_buffer_init`, `muggle_array_blocking_queue_init`, `muggle_sowr_memory_pool_init`,
`muggle_ring_memory_pool_init`, `muggle_bytes_buffer_init`, `muggle_flow_ctl_init`,
`muggle_fast_flow_ctl_init` -/
theorem single_array_init_c18 (f : Sched) (h : Heap) :
    InitContract ({ p := .own } : One) {} 1 0 1 f h (oneInit f true h) :=
  oneInit_contract f h

/-- `muggle_double_buffer_init` -/
theorem muggle_double_buffer_init_c18 (f : Sched) (h : Heap) :
    InitContract ({ b0 := .own, b1 := .own } : DBuf) {} 2 0 2 f h (dbufInit f true h) :=
  dbufInit_contract f h

/-- `muggle_ma_ring_thread_ctx_init` (never hangs: `Err.hang` is excluded) -/
theorem muggle_ma_ring_thread_ctx_init_c18 (f : Sched) (h : Heap) :
    InitContract ({ ring := .own, buffer := .own, node := .own } : MaRing) {} 3 0 3 f h
      (maRingInit f {} h) :=
  maRingInit_contract f h

/-- `muggle_memory_pool_init` -/
theorem muggle_memory_pool_init_c18 (f : Sched) (cap bs : Nat) (hbs : bs ≠ 0) (h : Heap) :
    InitContract (mpoolBuilt cap bs) {} 3 0 3 f h (mpoolInit f cap bs h) :=
  mpoolInit_contract f cap bs hbs h

/-- `muggle_ts_memory_pool_init`, `muggle_pointer_slot_init` -/
theorem two_arrays_init_c18 (f : Sched) (h : Heap) :
    InitContract ({ a := .own, b := .own } : Two) {} 2 0 2 f h (twoInit f true h) :=
  twoInit_contract f h

/-- `muggle_array_list_init`, `muggle_heap_init`, `muggle_stack_init` -/
theorem array_container_init_c18 (f : Sched) (cap : Nat)
    (hc : dsCapValid (if cap = 0 then 8 else cap) = true) (h : Heap) :
    InitContract ({ p := .own, cap := if cap = 0 then 8 else cap, size := 0 } : Arr) {} 1 0 1 f h
      (arrInit f cap h) :=
  arrInit_contract f cap hc h

/-- `muggle_linked_list_init`, `muggle_queue_init`, `muggle_avl_tree_init`, `muggle_trie_init`
with a node pool (without one they acquire nothing: `ncInit_nopool`) -/
theorem node_container_init_c18 (f : Sched) (cap ns : Nat) (h0 : cap ≠ 0) (hc : dsCapValid cap = true)
    (hns : ns ≠ 0) (h : Heap) :
    InitContract ({ np := npBuilt cap ns } : NC) {} 4 0 4 f h (ncInit f cap ns h) :=
  ncInit_contract f cap ns h0 hc hns h

/-- `muggle_hash_table_init` without / with node pool -/
theorem muggle_hash_table_init_c18 (f : Sched) (cap ns : Nat) (hc : dsCapValid cap = true)
    (hns : ns ≠ 0) (h : Heap) :
    (cap = 0 → InitContract ({ table := .own } : NC) {} 1 0 1 f h (htabInit f cap ns h)) ∧
    (cap ≠ 0 → InitContract ({ np := npBuilt cap ns, table := .own } : NC) {} 5 0 5 f h
      (htabInit f cap ns h)) :=
  ⟨fun h0 => by subst h0; exact htabInit_contract0 f ns h,
   fun h0 => htabInit_contract f cap ns h0 hc hns h⟩

/-- `muggle_ev_signal_init` (eventfd) -/
theorem muggle_ev_signal_init_c18 (f : Sched) (h : Heap) :
    InitContract ({ p := .own } : One) {} 0 1 1 f h (evsigInit f h) :=
  evsigInit_contract f h

/-- `muggle_evloop_new`: select / poll / epoll (any requested type), with or without node pool,
any `hints_max_fd`: between 4 and 10 acquisitions, two of them descriptors for epoll -/
theorem muggle_evloop_new_c18 (f : Sched) (t : Int) (mempool : Bool) (hints : Int) (hh : hints < 2 ^ 31)
    (ns : Nat) (hns : ns ≠ 0) (h : Heap) :
    InitContract (evBuilt (evloopType t) mempool (evHints hints) ns) {} (evMem (evloopType t) mempool)
      (evFds (evloopType t)) (evN (evloopType t) mempool) f h (evloopNew f t mempool hints ns h) :=
  evloopNew_contract f t mempool hints hh ns hns h

/-- `muggle_socket_evloop_pipe_init` (one `pipe()`, two descriptors) -/
theorem muggle_socket_evloop_pipe_init_c18 (f : Sched) (h : Heap) :
    InitContract ({ a := .own, b := .own } : Two) {} 0 2 1 f h (evpipeInit f h) :=
  evpipeInit_contract f h

/-- `muggle_socket_create` -/
theorem muggle_socket_create_c18 (f : Sched) (h : Heap) :
    InitContract ({ p := .own } : One) {} 0 1 1 f h (sockCreate f h) :=
  sockCreate_contract f h

/-- `muggle_socket_evloop_handle_init` -/
theorem muggle_socket_evloop_handle_init_c18 (f : Sched) (h : Heap) :
    InitContract ({ q := .own, mtx := .own } : SockH) {} 2 0 2 f h (sockhInit f h) :=
  sockhInit_contract f h

/-- `muggle_async_logger_init` -/
theorem muggle_async_logger_init_c18 (f : Sched) (h : Heap) :
    InitContract (chanBuilt true false) ({} : Chan) 2 0 2 f h (alogInit f true h) :=
  alogInit_contract f h

/-- Reading of the contract used in the property text: the constructor **reports failure iff one
of the acquisitions of its success path fails**, success comes with exactly the built object,
failure with the empty one and unchanged live counts; never `Err`. -/
theorem constructor_reports_exactly {α : Type} {built empty : α} {m fd : Int} {n : Nat} {f : Sched}
    {h : Heap} {r : Except Err (α × Bool × Heap)} (c : InitContract built empty m fd n f h r) :
    ∃ o ok h', r = .ok (o, ok, h') ∧ (ok = false ↔ ∃ i, i < n ∧ f (h.nacq + i) = true) ∧
      (ok = true → o = built ∧ h'.mem = h.mem + m ∧ h'.fds = h.fds + fd) ∧
      (ok = false → o = empty ∧ h'.mem = h.mem ∧ h'.fds = h.fds) := by
  obtain ⟨o, ok, h', hr, hiff, hok, hfail⟩ := c.total
  refine ⟨o, ok, h', hr, ?_, ?_, ?_⟩
  · constructor
    · intro hk
      have hnc : ¬ Clean f h.nacq n := by
        intro hc
        have := hiff.mpr hc
        rw [hk] at this
        cases this
      by_cases hne : ∃ i, i < n ∧ f (h.nacq + i) = true
      · exact hne
      · exfalso
        apply hnc
        intro i hi
        cases hfi : f (h.nacq + i) with
        | false => rfl
        | true => exact absurd ⟨i, hi, hfi⟩ hne
    · rintro ⟨i, hi, hfi⟩
      cases ok with
      | false => rfl
      | true =>
        have := hiff.mp rfl i hi
        rw [hfi] at this
        cases this
  · intro hk
    obtain ⟨e1, e2⟩ := hok hk
    subst e2
    exact ⟨e1, rfl, rfl⟩
  · intro hk
    obtain ⟨e1, e2, e3, _⟩ := hfail hk
    exact ⟨e1, e2, e3⟩

/-! ## Clause 2 — growers / inserters / logging from an arbitrary well-formed state -/

/-- `muggle_memory_pool_ensure_space` -/
theorem muggle_memory_pool_ensure_space_c18 (f : Sched) (p : MPool) (c : Nat) (h : Heap) (hp : p.wf) :
    OpContractS MPool.wf MPool.owned zeroFd p h (mpoolEnsure f p c h) :=
  mpoolEnsure_contract f p c h hp

/-- `muggle_memory_pool_alloc` -/
theorem muggle_memory_pool_alloc_c18 (f : Sched) (p : MPool) (h : Heap) (hp : p.wf) :
    OpContractS MPool.wf MPool.owned zeroFd p h (mpoolAlloc f p h) :=
  mpoolAlloc_contract f p h hp

/-- `muggle_array_list_ensure_capacity`, `muggle_heap_ensure_capacity`, `muggle_stack_ensure_capacity` -/
theorem array_container_ensure_c18 (f : Sched) (a : Arr) (c : Nat) (h : Heap) (ha : a.wf) :
    OpContractS Arr.wf Arr.owned zeroFd a h (arrEnsure f a c h) :=
  arrEnsure_contract f a c h ha

/-- `muggle_array_list_insert / append`, `muggle_heap_insert`, `muggle_stack_push` -/
theorem array_container_insert_c18 (f : Sched) (a : Arr) (h : Heap) (ha : a.wf) :
    OpContractS Arr.wf Arr.owned zeroFd a h (arrPush f a h) :=
  arrPush_contract f a h ha

/-- `muggle_linked_list_insert / append`, `muggle_queue_enqueue` (nodes from `malloc` or from the
growing node pool) -/
theorem node_container_insert_c18 (f : Sched) (c : NC) (h : Heap) (hc : c.wf) :
    OpContractS NC.wf NC.owned zeroFd c h (ncInsert f c h) :=
  ncInsert_contract f c h hc

/-- `muggle_avl_tree_insert`, `muggle_hash_table_put` -/
theorem keyed_container_insert_c18 (f : Sched) (c : NC) (k : Nat) (h : Heap) (hc : c.wfK) :
    OpContractS NC.wfK NC.owned zeroFd c h (ncInsertKey f c k h) :=
  ncInsertKey_contract f c k h hc

/-- `muggle_evloop_add_ctx` -/
theorem muggle_evloop_add_ctx_c18 (f : Sched) (e : EvLoop) (h : Heap) (he : e.wf) :
    OpContract EvLoop.wf EvLoop.ownedMem EvLoop.ownedFds e h (evloopAdd f e h) :=
  evloopAdd_contract f e h he

/-- `muggle_socket_evloop_add_ctx` of a context made by the caller (one block, one descriptor):
queued → the handle owns node, block and descriptor (and `muggle_socket_evloop_handle_destroy`
releases them); not queued → reported, handle unchanged, the caller releases its context -/
theorem muggle_socket_evloop_add_ctx_c18 (f : Sched) (s : SockH) (h : Heap) (hs : s.wf) :
    OpContractS SockH.wf SockH.owned SockH.ownedFd s h (sockhAddCtx f s h) :=
  sockhAddCtx_contract f s h hs

/-- `muggle_async_logger_log` (void): never `Err`, live counts unchanged under every schedule -/
theorem muggle_async_logger_log_c18 (f : Sched) (h : Heap) :
    ∃ h', alogLog f (chanBuilt true false) h = .ok h' ∧ h'.mem = h.mem ∧ h'.fds = h.fds ∧
      h.nacq < h'.nacq ∧ h'.nacq ≤ h.nacq + 2 ∧ h.inj ≤ h'.inj :=
  alogLog_spec f h

/-- `muggle_merge_sort`: scratch array; failure reported, nothing left -/
theorem muggle_merge_sort_c18 (f : Sched) (n : Nat) (h : Heap) :
    ∃ ok h', mergeSort f n h = .ok (ok, h') ∧ (ok = true ↔ (n < 2 ∨ f h.nacq = false)) ∧
      h'.mem = h.mem ∧ h'.fds = h.fds := by
  by_cases hn : n < 2 <;> cases hf : f h.nacq <;>
  simp [mergeSort, alloc, free, hf, hn, bind, Except.bind, pure, Except.pure]

/-- `muggle_trie_insert`, keys of every length — **partial**: the full clause ("releases
everything it had acquired") is *false* for the trie (see `trie_insert_keeps_prefix_nodes`);
what holds is: no `Err`, the trie stays well-formed, every node acquired is owned by the trie
(exact accounting, so `muggle_trie_destroy` releases it), success only without injected fault.
Missing for the full clause: the nodes created before the failing allocation would have to be
unlinked and freed again by `muggle_trie_insert`. -/
theorem muggle_trie_insert_c18_partial (f : Sched) (c : NC) (key : String) (h : Heap) (hc : c.wf) :
    OpContract NC.wf NC.owned zeroFd c h (trieInsert f c key h) :=
  trieInsert_contract f c key h hc

/-- negation witness for the strong clause on the trie: inserting "ab" into an empty trie with
the second allocation failing reports failure but keeps one node -/
theorem trie_insert_keeps_prefix_nodes :
    ∃ c' h', trieInsert (fun k => k == 1) {} "ab" {} = .ok (c', false, h') ∧ h'.mem = 1 ∧ c'.owned = 1 := by
  refine ⟨_, _, rfl, rfl, rfl⟩

/-! ## The quantifier of the property, literally: exactly the k-th acquisition fails; and the
converse of "reported": growth fails only for a reason -/

/-- `muggle_memory_pool_ensure_space` fails only for a reason: a fault, or a fixed-size pool -/
theorem muggle_memory_pool_ensure_space_succeeds_without_fault (f : Sched) (p : MPool) (c : Nat) (h : Heap) (hp : p.wf)
    (hflag : p.flag % 2 = 0) (hc : Clean f h.nacq 3) :
    ∃ p' h', mpoolEnsure f p c h = .ok (p', true, h') := by
  obtain ⟨hb, hq⟩ := hp
  simp only [clean_succ, clean_zero] at hc
  obtain ⟨c0, c1, c2, _⟩ := hc
  unfold mpoolEnsure
  by_cases h1 : c ≤ p.cap
  · exact ⟨p, h, by simp [h1]⟩
  · have h2 : ¬ p.flag % 2 = 1 := by omega
    simp [h1, h2, alloc, free, deref, c0, c1, c2, hb, hq, bind, Except.bind, pure, Except.pure]

theorem array_container_ensure_succeeds_without_fault (f : Sched) (a : Arr) (c : Nat) (h : Heap) (ha : a.wf)
    (hv : dsCapValid c = true) (hc : Clean f h.nacq 1) :
    ∃ a' h', arrEnsure f a c h = .ok (a', true, h') := by
  have hw : a.p = .own := ha
  simp only [clean_succ, clean_zero] at hc
  obtain ⟨c0, _⟩ := hc
  unfold arrEnsure
  by_cases h1 : a.cap ≥ c
  · exact ⟨a, h, by simp [h1]⟩
  · by_cases hs : a.size > 0 <;>
    simp [h1, hv, alloc, free, deref, c0, hw, hs, bind, Except.bind, pure, Except.pure]

/-- exactly the `k`-th acquisition (0-based) fails -/
def singleFault (k : Nat) : Sched := fun i => i == k

theorem single_fault_constructor {α : Type} {built empty : α} {m fd : Int} {n : Nat} {k : Nat} {h : Heap}
    {r : Except Err (α × Bool × Heap)}
    (c : InitContract built empty m fd n (singleFault (h.nacq + k)) h r) :
    (k < n → ∃ h', r = .ok (empty, false, h') ∧ h'.mem = h.mem ∧ h'.fds = h.fds) ∧
    (n ≤ k → r = .ok (built, true, Grow h m fd n)) := by
  constructor
  · intro hk
    have : ¬ Clean (singleFault (h.nacq + k)) h.nacq n := by
      intro hc
      have := hc k hk
      simp [singleFault] at this
    obtain ⟨h', hr, hf⟩ := c.2 this
    exact ⟨h', hr, hf.1, hf.2.1⟩
  · intro hk
    apply c.1
    intro i hi
    simp [singleFault]
    omega
/-! ## Clause 3 — after a failure the object is safe to destroy and to retry

A failed constructor returns the empty object; its destructor is then a no-op without `Err`.
Retry: no constructor model takes the old object as input (the C functions `memset` or overwrite
every field they test), except `muggle_ma_ring_thread_ctx_init`, which after a failure starts
from the same empty thread context. -/

theorem destroy_after_failed_init_is_safe (h : Heap) :
    chanDestroy {} h = .ok ({}, h) ∧
    (∀ nulls, oneDestroy nulls {} h = .ok ({}, h)) ∧
    dbufDestroy {} h = .ok ({}, h) ∧
    maRingCleanup {} h = .ok ({}, h) ∧
    mpoolDestroy {} h = .ok ({}, h) ∧
    twoDestroy {} h = .ok ({}, h) ∧
    (∀ nulls, arrDestroy nulls {} h = .ok ({}, h)) ∧
    (∃ c', ncDestroy {} h = .ok (c', h)) ∧
    (∃ c', htabDestroy {} h = .ok (c', h)) ∧
    evsigDestroy {} h = .ok ({}, h) ∧
    evloopDelete {} h = .ok ({}, h) ∧
    sockhDestroy {} h = .ok ({}, h) ∧
    evpipeDestroy {} h = .ok ({}, h) ∧
    alogDestroy {} h = .ok ({}, h) :=
  ⟨chanDestroy_empty h, fun n => oneDestroy_empty n h, dbufDestroy_empty h, maRingCleanup_empty h,
   mpoolDestroy_empty h, twoDestroy_empty h, fun n => arrDestroy_empty n h, ncDestroy_empty h,
   htabDestroy_empty h, evsigDestroy_empty h, by simp [evloopDelete], sockhDestroy_empty h,
   evpipeDestroy_empty h, alogDestroy_empty h⟩

/-! ## Clause 4 + all clauses over whole call sequences — life cycle

For each family: any list of calls (constructor, retries, operations, destructor — also after a
failed constructor), any schedule: no `Err`; the live counts are the baseline plus what the live
object owns at every point (`Inv`), hence back at the baseline after the final destructor; every
call that reports success consumed no injected fault (`Report`). -/

/-- the statement proved for every family -/
def LifeCycleOK {σ ι κ : Type} (F : Family σ ι κ) : Prop :=
  (∀ (f : Sched) (bm bf : Int) (cs : List (Call ι κ)) (st : Life σ) (h : Heap), Inv F bm bf st h →
    ∃ st' h' log, runLife F f st cs h = .ok (st', h', log) ∧ Inv F bm bf st' h' ∧ Report log) ∧
  (∀ (f : Sched) (cs : List (Call ι κ)) (h : Heap),
    ∃ h' log, runLife F f .none (cs ++ [.destroy]) h = .ok (.none, h', log) ∧
      h'.mem = h.mem ∧ h'.fds = h.fds ∧ Report log)

theorem lifeCycleOK_of_laws {σ ι κ : Type} {F : Family σ ι κ} (L : Laws F) : LifeCycleOK F :=
  ⟨fun f bm bf cs st h hinv => lifecycle L f bm bf cs st h hinv,
   fun f cs h => lifecycle_no_leak L f cs h⟩

/-- channel (init / destroy / retry) -/
theorem lifecycle_channel : LifeCycleOK chanFam := lifeCycleOK_of_laws chanFam_laws
/-- ring buffer, array blocking queue, ring memory pool (destroy leaves the pointer) and sowr
memory pool, bytes buffer, flow controller (destroy resets it) -/
theorem lifecycle_single_array (nulls : Bool) : LifeCycleOK (oneFam nulls) := lifeCycleOK_of_laws (oneFam_laws nulls)
theorem lifecycle_double_buffer : LifeCycleOK dbufFam := lifeCycleOK_of_laws dbufFam_laws
/-- thread-safe memory pool, pointer slot -/
theorem lifecycle_two_arrays : LifeCycleOK twoFam := lifeCycleOK_of_laws twoFam_laws
/-- ma_ring thread context: init / cleanup pairs, no hang -/
theorem lifecycle_ma_ring : LifeCycleOK maRingFam := lifeCycleOK_of_laws maRingFam_laws
/-- growable memory pool: alloc / free / ensure_space / set_flag / set_max_delta_cap -/
theorem lifecycle_memory_pool : LifeCycleOK mpoolFam := lifeCycleOK_of_laws mpoolFam_laws
/-- array list, stack (`nulls = false`), heap (`nulls = true`): insert / remove / ensure_capacity -/
theorem lifecycle_array_container (nulls : Bool) : LifeCycleOK (arrFam nulls) := lifeCycleOK_of_laws (arrFam_laws nulls)
/-- linked list, queue: insert / remove, with or without node pool -/
theorem lifecycle_list : LifeCycleOK listFam := lifeCycleOK_of_laws listFam_laws
/-- AVL tree: insert / remove by key -/
theorem lifecycle_avl_tree : LifeCycleOK avlFam := lifeCycleOK_of_laws avlFam_laws
/-- hash table: put / remove by key -/
theorem lifecycle_hash_table : LifeCycleOK htabFam := lifeCycleOK_of_laws htabFam_laws
/-- trie: insert keys of any length (failed inserts may keep prefix nodes; destroy releases them) -/
theorem lifecycle_trie : LifeCycleOK trieFam := lifeCycleOK_of_laws trieFam_laws
/-- event signal -/
theorem lifecycle_event_signal : LifeCycleOK evsigFam := lifeCycleOK_of_laws evsigFam_laws
/-- event loop: new / add_ctx / delete, all backends -/
theorem lifecycle_event_loop : LifeCycleOK evloopFam := lifeCycleOK_of_laws evloopFam_laws
/-- socket event-loop pipe -/
theorem lifecycle_socket_evloop_pipe : LifeCycleOK evpipeFam := lifeCycleOK_of_laws evpipeFam_laws
/-- socket create / close -/
theorem lifecycle_socket : LifeCycleOK sockFam := lifeCycleOK_of_laws sockFam_laws
/-- socket event-loop handle: init / add_ctx / destroy -/
theorem lifecycle_socket_evloop_handle : LifeCycleOK sockhFam := lifeCycleOK_of_laws sockhFam_laws
/-- async logger: init / log / destroy -/
theorem lifecycle_async_logger : LifeCycleOK alogFam := lifeCycleOK_of_laws alogFam_laws

/-! ## Non-vacuity: concrete schedules and call lists exercise the interesting branches -/

/-- the third of four acquisitions of a mutex/mutex channel fails: failure, nothing left -/
example : chanInit (fun k => k == 2) true true true {} = .ok ({}, false, { nacq := 3, inj := 1 }) := rfl

/-- no fault: four blocks live, all fields owned -/
example : chanInit (fun _ => false) true true true {} =
    .ok ({ wm := .own, rm := .own, rc := .own, blocks := .own }, true, { mem := 4, nacq := 4 }) := rfl

/-- single-fault enumeration of a channel constructor: positions 0..3 fail cleanly, position 4 is
not reached -/
example : ∀ k, k < 5 → ∃ ok h', chanInit (singleFault k) true true true {} = .ok (if ok then chanBuilt true true else {}, ok, h') ∧
    ok = decide (4 ≤ k) ∧ h'.mem = (if ok then 4 else 0) := by
  intro k hk
  have : k = 0 ∨ k = 1 ∨ k = 2 ∨ k = 3 ∨ k = 4 := by omega
  rcases this with rfl | rfl | rfl | rfl | rfl <;> exact ⟨_, _, rfl, rfl, rfl⟩

/-- an epoll loop with node pool needs ten acquisitions; failing the tenth undoes the other nine -/
example : ∃ h', evloopNew (fun k => k == 9) 3 true 4 64 {} = .ok ({}, false, h') ∧
    h'.mem = 0 ∧ h'.fds = 0 ∧ h'.nacq = 10 := ⟨_, rfl, rfl, rfl, rfl⟩

/-- a life cycle with a failed constructor, a retry, growth under a fault, and the destructor -/
example : ∃ h' log, runLife mpoolFam (fun k => k == 1 || k == 7) .none
      [.init (1, 8), .init (1, 8), .op .alloc, .op .alloc, .op .alloc, .op .free, .destroy] {} =
      .ok (.none, h', log) ∧ h'.mem = 0 ∧ h'.nacq = 11 ∧
      log.map (·.ok) = [false, true, true, false, true, true] :=
  ⟨_, _, rfl, rfl, rfl, rfl⟩

end MgProof.C18
