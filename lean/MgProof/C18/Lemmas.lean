import MgModel.C18.Event
/-!
# C18 — contracts of the individual functions

For every constructor the *complete* behaviour under *every* fault schedule `f : Nat → Bool`
is established (`InitContract`): if none of the `n` acquisitions of the success path is made
to fail the function returns success with exactly the fully built object, the heap grown by
exactly what the object owns; otherwise it returns failure with the *empty* object (all
resource fields NULL) and a heap in which nothing it acquired is left.  In no case does the
model reach `Err` (NULL dereference, double free, use after free, hang).

For growers / inserters the contract is stated from an arbitrary well-formed state.
-/
namespace MgProof.C18
open MgModel.C18

/-! ## fault schedules -/

/-- none of the next `n` acquisitions, starting with acquisition number `k`, fails -/
def Clean (f : Sched) (k n : Nat) : Prop := ∀ i, i < n → f (k + i) = false

theorem clean_zero (f : Sched) (k : Nat) : Clean f k 0 ↔ True := by simp [Clean]

theorem clean_succ (f : Sched) (k n : Nat) :
    Clean f k (n + 1) ↔ (f k = false ∧ Clean f (k + 1) n) := by
  constructor
  · intro h
    refine ⟨by simpa using h 0 (by omega), ?_⟩
    intro i hi
    have := h (i + 1) (by omega)
    rwa [show k + (i + 1) = k + 1 + i by omega] at this
  · rintro ⟨h0, h1⟩ i hi
    cases i with
    | zero => simpa using h0
    | succ j =>
      have := h1 j (by omega)
      rwa [show k + 1 + j = k + (j + 1) by omega] at this

theorem clean_add (f : Sched) (k a b : Nat) :
    Clean f k (a + b) ↔ (Clean f k a ∧ Clean f (k + a) b) := by
  constructor
  · intro h
    refine ⟨fun i hi => h i (by omega), fun i hi => ?_⟩
    have := h (a + i) (by omega)
    rwa [show k + (a + i) = k + a + i by omega] at this
  · rintro ⟨h1, h2⟩ i hi
    by_cases hia : i < a
    · exact h1 i hia
    · have := h2 (i - a) (by omega)
      rwa [show k + a + (i - a) = k + i by omega] at this

instance (f : Sched) (k n : Nat) : Decidable (Clean f k n) := by
  unfold Clean; exact Nat.decidableBallLT n fun i _ => f (k + i) = false

/-- the heap after `n` successful acquisitions that added `m` blocks and `fd` descriptors -/
def Grow (h : Heap) (m fd : Int) (n : Nat) : Heap :=
  { mem := h.mem + m, fds := h.fds + fd, nacq := h.nacq + n, inj := h.inj }

/-- the heap after a call that failed because of an injected fault: nothing is left of what the
call acquired, at least one fault was consumed, at most `n` acquisitions were attempted -/
def Failed (h h' : Heap) (n : Nat) : Prop :=
  h'.mem = h.mem ∧ h'.fds = h.fds ∧ h.inj < h'.inj ∧ h.nacq < h'.nacq ∧ h'.nacq ≤ h.nacq + n

/-- **Contract of a constructor** with `n` acquisitions on its success path, building `built`
(which owns `m` blocks and `fd` descriptors); `empty` is the object with every resource field
NULL. Quantified (by the theorems below) over every schedule and every heap. -/
def InitContract {α : Type} (built empty : α) (m fd : Int) (n : Nat) (f : Sched) (h : Heap)
    (r : Except Err (α × Bool × Heap)) : Prop :=
  (Clean f h.nacq n → r = .ok (built, true, Grow h m fd n)) ∧
  (¬ Clean f h.nacq n → ∃ h', r = .ok (empty, false, h') ∧ Failed h h' n)

/-- what the contract gives without case distinction -/
theorem InitContract.total {α : Type} {built empty : α} {m fd : Int} {n : Nat} {f : Sched} {h : Heap}
    {r : Except Err (α × Bool × Heap)} (c : InitContract built empty m fd n f h r) :
    ∃ o ok h', r = .ok (o, ok, h') ∧ (ok = true ↔ Clean f h.nacq n) ∧
      (ok = true → o = built ∧ h' = Grow h m fd n) ∧
      (ok = false → o = empty ∧ Failed h h' n) := by
  by_cases hc : Clean f h.nacq n
  · exact ⟨built, true, _, c.1 hc, by simp [hc], by simp, by simp⟩
  · obtain ⟨h', hr, hf⟩ := c.2 hc
    exact ⟨empty, false, h', hr, by simp [hc], by simp, by simp [hf]⟩

open Lean in
/-- `fault_tree f b 0 n`: case split on `f b`, `f (b+1)`, … `f (b+n-1)`, descending only into
the "no fault" branch (fail-fast code: after a failed acquisition no later one is attempted). -/
syntax "fault_tree " term:max term:max num num : tactic
open Lean in
macro_rules
  | `(tactic| fault_tree $f $b $i $n) => do
    let iv := i.getNat
    let nv := n.getNat
    if iv ≥ nv then `(tactic| skip)
    else
      let i' := Syntax.mkNumLit (toString (iv + 1))
      if iv = 0 then
        `(tactic| (cases hflt : $f $b; case' false => fault_tree $f $b $i' $n))
      else
        `(tactic| (cases hflt : $f ($b + $i); case' false => fault_tree $f $b $i' $n))

/-! ## sync -/

def chanBuilt (w r : Bool) : Chan :=
  { wm := if w then .own else .null, rm := if r then .own else .null,
    rc := if r then .own else .null, blocks := .own }

/-- `muggle_channel_init`, every flag combination, valid capacity -/
theorem chanInit_contract (f : Sched) (w r : Bool) (h : Heap) :
    InitContract (chanBuilt w r) ({} : Chan) (chanN w r) 0 (chanN w r) f h (chanInit f true w r h) := by
  cases w <;> cases r <;> fault_tree f h.nacq 0 4 <;>
  simp [*, InitContract, chanN, chanBuilt, clean_succ, clean_zero, chanInit, chanInitRead,
    chanInitBlocks, chanExcept, chanDestroy, alloc, free, Grow, Failed, bind, Except.bind,
    pure, Except.pure] <;> omega

/-- invalid capacity: failure before anything is acquired -/
theorem chanInit_invalid (f : Sched) (w r : Bool) (h : Heap) :
    chanInit f false w r h = .ok ({}, false, h) := by simp [chanInit]

theorem chanDestroy_built (w r : Bool) (h : Heap) :
    chanDestroy (chanBuilt w r) h = .ok ({}, { h with mem := h.mem - chanN w r }) := by
  cases w <;> cases r <;>
  simp [chanDestroy, chanBuilt, chanN, free, bind, Except.bind, pure, Except.pure] <;> omega

theorem chanDestroy_empty (h : Heap) : chanDestroy {} h = .ok ({}, h) := by
  simp [chanDestroy, free, bind, Except.bind, pure, Except.pure]

/-- single-array constructors: ring_buffer, array_blocking_queue, sowr / ring memory pool,
bytes_buffer, flow_controller -/
theorem oneInit_contract (f : Sched) (h : Heap) :
    InitContract ({ p := .own } : One) {} 1 0 1 f h (oneInit f true h) := by
  fault_tree f h.nacq 0 1 <;>
  simp [*, InitContract, clean_succ, clean_zero, oneInit, alloc, Grow, Failed]

theorem oneInit_invalid (f : Sched) (h : Heap) : oneInit f false h = .ok ({}, false, h) := by
  simp [oneInit]

theorem oneDestroy_built (nulls : Bool) (h : Heap) :
    ∃ o, oneDestroy nulls { p := .own } h = .ok (o, { h with mem := h.mem - 1 }) := by
  simp [oneDestroy, free, bind, Except.bind, pure, Except.pure]

theorem oneDestroy_empty (nulls : Bool) (h : Heap) : oneDestroy nulls {} h = .ok ({}, h) := by
  cases nulls <;> simp [oneDestroy, free, Cell.released, bind, Except.bind, pure, Except.pure]

theorem dbufInit_contract (f : Sched) (h : Heap) :
    InitContract ({ b0 := .own, b1 := .own } : DBuf) {} 2 0 2 f h (dbufInit f true h) := by
  fault_tree f h.nacq 0 2 <;>
  simp [*, InitContract, clean_succ, clean_zero, dbufInit, alloc, free, Grow, Failed, bind,
    Except.bind, pure, Except.pure] <;> omega

theorem dbufInit_invalid (f : Sched) (h : Heap) : dbufInit f false h = .ok ({}, false, h) := by
  simp [dbufInit]

theorem dbufDestroy_built (h : Heap) :
    ∃ o, dbufDestroy { b0 := .own, b1 := .own } h = .ok (o, { h with mem := h.mem - 2 }) := by
  simp [dbufDestroy, free, bind, Except.bind, pure, Except.pure]; omega

theorem dbufDestroy_empty (h : Heap) : dbufDestroy {} h = .ok ({}, h) := by
  simp [dbufDestroy, free, Cell.released, bind, Except.bind, pure, Except.pure]

/-- `muggle_ma_ring_thread_ctx_init` from "no context yet" -/
theorem maRingInit_contract (f : Sched) (h : Heap) :
    InitContract ({ ring := .own, buffer := .own, node := .own } : MaRing) {} 3 0 3 f h
      (maRingInit f {} h) := by
  fault_tree f h.nacq 0 3 <;>
  simp [*, InitContract, clean_succ, clean_zero, maRingInit, alloc, free, Grow, Failed, bind,
    Except.bind, pure, Except.pure] <;> omega

/-- a second `init` on a thread that has a context returns it without acquiring anything -/
theorem maRingInit_again (f : Sched) (m : MaRing) (h : Heap) (hm : m.ring ≠ .null) :
    maRingInit f m h = .ok (m, true, h) := by simp [maRingInit, hm]

theorem maRingCleanup_built (h : Heap) :
    maRingCleanup { ring := .own, buffer := .own, node := .own } h
      = .ok ({}, { h with mem := h.mem - 3 }) := by
  simp [maRingCleanup, free, deref, bind, Except.bind, pure, Except.pure]; omega

theorem maRingCleanup_empty (h : Heap) : maRingCleanup {} h = .ok ({}, h) := by
  simp [maRingCleanup]

/-! ## memory -/

def mpoolBuilt (cap bs : Nat) : MPool :=
  { bufs := .own, ptrs := .own, nbuf := 1, cap := if cap = 0 then 8 else cap, used := 0, flag := 0,
    maxDelta := if bs > 8 * 1024 then (if cap = 0 then 8 else cap) else 512 * 1024 }

theorem mpoolInit_contract (f : Sched) (cap bs : Nat) (hbs : bs ≠ 0) (h : Heap) :
    InitContract (mpoolBuilt cap bs) {} 3 0 3 f h (mpoolInit f cap bs h) := by
  fault_tree f h.nacq 0 3 <;>
  simp [*, InitContract, clean_succ, clean_zero, mpoolInit, mpoolBuilt, alloc, free, Grow, Failed,
    bind, Except.bind, pure, Except.pure] <;> omega

theorem mpoolInit_invalid (f : Sched) (cap : Nat) (h : Heap) :
    mpoolInit f cap 0 h = .ok ({}, false, h) := by simp [mpoolInit]

theorem twoInit_contract (f : Sched) (h : Heap) :
    InitContract ({ a := .own, b := .own } : Two) {} 2 0 2 f h (twoInit f true h) := by
  cases h0 : f h.nacq <;> cases h1 : f (h.nacq + 1) <;>
  simp [*, InitContract, clean_succ, clean_zero, twoInit, alloc, free, Grow, Failed, bind,
    Except.bind, pure, Except.pure] <;> omega

theorem twoInit_invalid (f : Sched) (h : Heap) : twoInit f false h = .ok ({}, false, h) := by
  simp [twoInit]

theorem twoDestroy_built (h : Heap) :
    twoDestroy { a := .own, b := .own } h = .ok ({}, { h with mem := h.mem - 2 }) := by
  simp [twoDestroy, free, bind, Except.bind, pure, Except.pure]; omega

theorem twoDestroy_empty (h : Heap) : twoDestroy {} h = .ok ({}, h) := by
  simp [twoDestroy, free, bind, Except.bind, pure, Except.pure]

end MgProof.C18
