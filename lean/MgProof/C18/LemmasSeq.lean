import MgProof.C18.LemmasEv
/-!
# C18 — life cycle of an object under arbitrary call sequences and arbitrary fault schedules

`Family` packages one kind of object (constructor, operations, destructor, what an object
owns).  `runLife` executes any list of calls — constructor (also as a *retry* after a failed
construction), operations, destructor (also after a failed construction) — threading the heap and
the position in the fault schedule.  `lifecycle` shows, for every family satisfying `Laws`, every
call list of every length and every schedule with any number of faults:

* no call ever reaches `Err` (NULL dereference, double free, use after free, hang);
* at every point the heap's live blocks / descriptors are exactly the baseline plus what the
  live object owns — in particular exactly the baseline whenever there is no live object
  (after a failed constructor, after the destructor): nothing leaks, ever;
* every call that reports success consumed no injected fault (`Report`): a failed acquisition is
  never swallowed.
-/
namespace MgProof.C18
open MgModel.C18

structure Family (σ ι κ : Type) where
  init : Sched → ι → Heap → Except Err (σ × Bool × Heap)
  op : Sched → σ → κ → Heap → Except Err (σ × Bool × Heap)
  destroy : σ → Heap → Except Err (σ × Heap)
  ownM : σ → Int
  ownF : σ → Int
  wf : σ → Prop
  dead : σ → Prop

structure Laws {σ ι κ : Type} (F : Family σ ι κ) : Prop where
  init_ok : ∀ f i h, ∃ s ok h', F.init f i h = .ok (s, ok, h') ∧ h.nacq ≤ h'.nacq ∧ h.inj ≤ h'.inj ∧
    (ok = true → F.wf s ∧ h'.mem = h.mem + F.ownM s ∧ h'.fds = h.fds + F.ownF s ∧ h'.inj = h.inj) ∧
    (ok = false → F.dead s ∧ h'.mem = h.mem ∧ h'.fds = h.fds)
  op_ok : ∀ f s k h, F.wf s → OpContract F.wf F.ownM F.ownF s h (F.op f s k h)
  destroy_live : ∀ s h, F.wf s → ∃ s' h', F.destroy s h = .ok (s', h') ∧
    h'.mem = h.mem - F.ownM s ∧ h'.fds = h.fds - F.ownF s ∧ h'.inj = h.inj
  destroy_dead : ∀ s h, F.dead s → ∃ s' h', F.destroy s h = .ok (s', h') ∧
    h'.mem = h.mem ∧ h'.fds = h.fds ∧ h'.inj = h.inj

inductive Life (σ : Type) where
  | none                 -- no object (never constructed, or destroyed)
  | live (s : σ)         -- constructed
  | failed (s : σ)       -- what a failed constructor left behind

inductive Call (ι κ : Type) where
  | init (i : ι)
  | op (k : κ)
  | destroy

/-- one entry per constructor / operation call: what it reported and the number of injected
faults before and after it -/
structure Entry where
  ok : Bool
  injBefore : Nat
  injAfter : Nat

/-- one call; calls that make no sense in the current state (constructor on a live object,
operation or destructor without object) are refused without effect, as the harness does -/
def stepLife {σ ι κ : Type} (F : Family σ ι κ) (f : Sched) :
    Life σ → Call ι κ → Heap → Except Err (Life σ × Heap × List Entry)
  | .live s, .init _, h => .ok (.live s, h, [])
  | .none, .init i, h | .failed _, .init i, h =>
    match F.init f i h with
    | .error e => .error e
    | .ok (s, true, h') => .ok (.live s, h', [⟨true, h.inj, h'.inj⟩])
    | .ok (s, false, h') => .ok (.failed s, h', [⟨false, h.inj, h'.inj⟩])
  | .live s, .op k, h =>
    match F.op f s k h with
    | .error e => .error e
    | .ok (s', ok, h') => .ok (.live s', h', [⟨ok, h.inj, h'.inj⟩])
  | .none, .op _, h => .ok (.none, h, [])
  | .failed s, .op _, h => .ok (.failed s, h, [])
  | .live s, .destroy, h | .failed s, .destroy, h =>
    match F.destroy s h with
    | .error e => .error e
    | .ok (_, h') => .ok (.none, h', [])
  | .none, .destroy, h => .ok (.none, h, [])

def runLife {σ ι κ : Type} (F : Family σ ι κ) (f : Sched) :
    Life σ → List (Call ι κ) → Heap → Except Err (Life σ × Heap × List Entry)
  | st, [], h => .ok (st, h, [])
  | st, c :: cs, h =>
    match stepLife F f st c h with
    | .error e => .error e
    | .ok (st', h', log) =>
      match runLife F f st' cs h' with
      | .error e => .error e
      | .ok (st'', h'', log') => .ok (st'', h'', log ++ log')

/-- the accounting invariant relative to the baseline `(bm, bf)` -/
def Inv {σ ι κ : Type} (F : Family σ ι κ) (bm bf : Int) : Life σ → Heap → Prop
  | .none, h => h.mem = bm ∧ h.fds = bf
  | .failed s, h => F.dead s ∧ h.mem = bm ∧ h.fds = bf
  | .live s, h => F.wf s ∧ h.mem = bm + F.ownM s ∧ h.fds = bf + F.ownF s

/-- success is only reported by calls that consumed no injected fault -/
def Report (log : List Entry) : Prop := ∀ e, e ∈ log → e.ok = true → e.injAfter = e.injBefore

theorem step_inv {σ ι κ : Type} {F : Family σ ι κ} (L : Laws F) (f : Sched) (bm bf : Int)
    (st : Life σ) (c : Call ι κ) (h : Heap) (hinv : Inv F bm bf st h) :
    ∃ st' h' log, stepLife F f st c h = .ok (st', h', log) ∧ Inv F bm bf st' h' ∧ Report log := by
  have rep0 : Report [] := by intro e he; cases he
  cases c with
  | init i =>
    have hinit : ∀ (hb : h.mem = bm ∧ h.fds = bf),
        ∃ st' h' log, (match F.init f i h with
          | .error e => .error e
          | .ok (s, true, h') => .ok (Life.live s, h', [⟨true, h.inj, h'.inj⟩])
          | .ok (s, false, h') => .ok (Life.failed s, h', [⟨false, h.inj, h'.inj⟩]) :
            Except Err (Life σ × Heap × List Entry)) = .ok (st', h', log) ∧
          Inv F bm bf st' h' ∧ Report log := by
      intro ⟨hm, hf⟩
      obtain ⟨s, ok, h', hr, _, _, hok, hfail⟩ := L.init_ok f i h
      rw [hr]
      cases ok with
      | true =>
        obtain ⟨hw, hm', hf', hi'⟩ := hok rfl
        refine ⟨_, _, _, rfl, ⟨hw, by omega, by omega⟩, ?_⟩
        intro e he _
        simp at he
        subst he
        exact hi'
      | false =>
        obtain ⟨hd, hm', hf'⟩ := hfail rfl
        refine ⟨_, _, _, rfl, ⟨hd, by omega, by omega⟩, ?_⟩
        intro e he hok'
        simp at he
        subst he
        cases hok'
    cases st with
    | none => exact hinit hinv
    | failed s => exact hinit ⟨hinv.2.1, hinv.2.2⟩
    | live s => exact ⟨_, _, _, rfl, hinv, rep0⟩
  | op k =>
    cases st with
    | none => exact ⟨_, _, _, rfl, hinv, rep0⟩
    | failed s => exact ⟨_, _, _, rfl, hinv, rep0⟩
    | live s =>
      obtain ⟨hw, hm, hf⟩ := hinv
      obtain ⟨s', ok, h', hr, hres⟩ := L.op_ok f s k h hw
      simp only [stepLife, hr]
      refine ⟨_, _, _, rfl, ⟨hres.wf', ?_, ?_⟩, ?_⟩
      · have := hres.mem; omega
      · have := hres.fds; omega
      · intro e he hok
        simp at he
        subst he
        exact hres.okClean hok
  | destroy =>
    cases st with
    | none => exact ⟨_, _, _, rfl, hinv, rep0⟩
    | failed s =>
      obtain ⟨hd, hm, hf⟩ := hinv
      obtain ⟨s', h', hr, hm', hf', _⟩ := L.destroy_dead s h hd
      simp only [stepLife, hr]
      exact ⟨_, _, _, rfl, ⟨by omega, by omega⟩, rep0⟩
    | live s =>
      obtain ⟨hw, hm, hf⟩ := hinv
      obtain ⟨s', h', hr, hm', hf', _⟩ := L.destroy_live s h hw
      simp only [stepLife, hr]
      exact ⟨_, _, _, rfl, ⟨by omega, by omega⟩, rep0⟩

/-- **Life-cycle theorem.** For a family satisfying `Laws`: every call list, every schedule. -/
theorem lifecycle {σ ι κ : Type} {F : Family σ ι κ} (L : Laws F) (f : Sched) (bm bf : Int)
    (cs : List (Call ι κ)) : ∀ (st : Life σ) (h : Heap), Inv F bm bf st h →
    ∃ st' h' log, runLife F f st cs h = .ok (st', h', log) ∧ Inv F bm bf st' h' ∧ Report log := by
  induction cs with
  | nil =>
    intro st h hinv
    exact ⟨st, h, [], rfl, hinv, by intro e he; cases he⟩
  | cons c cs ih =>
    intro st h hinv
    obtain ⟨st1, h1, log1, hr1, hinv1, hrep1⟩ := step_inv L f bm bf st c h hinv
    obtain ⟨st2, h2, log2, hr2, hinv2, hrep2⟩ := ih st1 h1 hinv1
    refine ⟨st2, h2, log1 ++ log2, ?_, hinv2, ?_⟩
    · simp only [runLife, hr1, hr2]
    · intro e he hok
      rcases List.mem_append.mp he with h' | h'
      · exact hrep1 e h' hok
      · exact hrep2 e h' hok

/-- from a fresh heap: any calls, then the destructor — the live counts are back at the start -/
theorem lifecycle_no_leak {σ ι κ : Type} {F : Family σ ι κ} (L : Laws F) (f : Sched)
    (cs : List (Call ι κ)) (h : Heap) :
    ∃ h' log, runLife F f .none (cs ++ [.destroy]) h = .ok (.none, h', log) ∧
      h'.mem = h.mem ∧ h'.fds = h.fds ∧ Report log := by
  obtain ⟨st1, h1, log1, hr1, hinv1, hrep1⟩ := lifecycle L f h.mem h.fds cs .none h ⟨rfl, rfl⟩
  obtain ⟨st2, h2, log2, hr2, hinv2, hrep2⟩ := step_inv L f h.mem h.fds st1 .destroy h1 hinv1
  have hnone : st2 = .none := by
    cases st1 <;> simp [stepLife] at hr2
    · exact hr2.1.symm
    all_goals
      split at hr2
      · cases hr2
      · injection hr2 with hr2
        injection hr2 with e1 _
        exact e1.symm
  subst hnone
  have run_append : ∀ (cs : List (Call ι κ)) (st : Life σ) (h : Heap) (st1 : Life σ) (h1 : Heap) (l1 : List Entry),
      runLife F f st cs h = .ok (st1, h1, l1) → ∀ c st2 h2 l2, stepLife F f st1 c h1 = .ok (st2, h2, l2) →
      runLife F f st (cs ++ [c]) h = .ok (st2, h2, l1 ++ l2) := by
    intro cs
    induction cs with
    | nil =>
      intro st h st1 h1 l1 hr c st2 h2 l2 hs
      simp only [runLife] at hr
      injection hr with hr
      injection hr with e1 e2
      injection e2 with e2 e3
      subst e1 e2 e3
      simp [runLife, hs]
    | cons c0 cs ih =>
      intro st h st1 h1 l1 hr c st2 h2 l2 hs
      simp only [runLife, List.cons_append] at hr ⊢
      cases hstep : stepLife F f st c0 h with
      | error e => rw [hstep] at hr; cases hr
      | ok r =>
        obtain ⟨sta, ha, la⟩ := r
        rw [hstep] at hr
        simp only at hr ⊢
        cases hrun : runLife F f sta cs ha with
        | error e => rw [hrun] at hr; cases hr
        | ok r2 =>
          obtain ⟨stb, hb, lb⟩ := r2
          rw [hrun] at hr
          simp only at hr
          injection hr with hr
          injection hr with e1 e2
          injection e2 with e2 e3
          subst e1 e2 e3
          rw [ih sta ha stb hb lb hrun c st2 h2 l2 hs]
          simp [List.append_assoc]
  refine ⟨h2, log1 ++ log2, run_append cs .none h st1 h1 log1 hr1 .destroy .none h2 log2 hr2, hinv2.1, hinv2.2, ?_⟩
  intro e he hok
  rcases List.mem_append.mp he with h' | h'
  · exact hrep1 e h' hok
  · exact hrep2 e h' hok

end MgProof.C18
