import MgProof.C18.LemmasSeq
/-!
# C18 — the object families of the library and their `Laws`
(each instance feeds the life-cycle theorem of `LemmasSeq.lean`)
-/
namespace MgProof.C18
open MgModel.C18

/-- the constructor law from an `InitContract` -/
theorem init_law {σ : Type} {built empty : σ} {m fd : Int} {n : Nat} {f : Sched} {h : Heap}
    {r : Except Err (σ × Bool × Heap)} (c : InitContract built empty m fd n f h r)
    {wf dead : σ → Prop} {ownM ownF : σ → Int}
    (hb : wf built) (hm : ownM built = m) (hf : ownF built = fd) (hd : dead empty) :
    ∃ s ok h', r = .ok (s, ok, h') ∧ h.nacq ≤ h'.nacq ∧ h.inj ≤ h'.inj ∧
      (ok = true → wf s ∧ h'.mem = h.mem + ownM s ∧ h'.fds = h.fds + ownF s ∧ h'.inj = h.inj) ∧
      (ok = false → dead s ∧ h'.mem = h.mem ∧ h'.fds = h.fds) := by
  obtain ⟨o, ok, h', hr, _, hok, hfail⟩ := c.total
  refine ⟨o, ok, h', hr, ?_, ?_, ?_, ?_⟩
  · cases ok with
    | true => obtain ⟨_, e⟩ := hok rfl; subst e; simp [Grow]
    | false => obtain ⟨_, _, _, _, e, _⟩ := hfail rfl; omega
  · cases ok with
    | true => obtain ⟨_, e⟩ := hok rfl; subst e; simp [Grow]
    | false => obtain ⟨_, _, _, e, _, _⟩ := hfail rfl; omega
  · intro hk
    obtain ⟨e1, e2⟩ := hok hk
    subst e1 e2
    exact ⟨hb, by simp [Grow, hm], by simp [Grow, hf], rfl⟩
  · intro hk
    obtain ⟨e1, e2, e3, _⟩ := hfail hk
    subst e1
    exact ⟨hd, e2, e3⟩

/-- the constructor law for an invalid-parameter return (nothing acquired) -/
theorem init_law_invalid {σ : Type} {empty : σ} {h : Heap} {wf dead : σ → Prop} {ownM ownF : σ → Int}
    (hd : dead empty) :
    ∃ s ok h', (Except.ok (empty, false, h) : Except Err (σ × Bool × Heap)) = .ok (s, ok, h') ∧
      h.nacq ≤ h'.nacq ∧ h.inj ≤ h'.inj ∧
      (ok = true → wf s ∧ h'.mem = h.mem + ownM s ∧ h'.fds = h.fds + ownF s ∧ h'.inj = h.inj) ∧
      (ok = false → dead s ∧ h'.mem = h.mem ∧ h'.fds = h.fds) :=
  ⟨empty, false, h, rfl, Nat.le_refl _, Nat.le_refl _, by simp, fun _ => ⟨hd, rfl, rfl⟩⟩

/-! ## constructors without growth (no operations: `κ = Empty`) -/

/-- channel: `ι` = (valid capacity, mutex writer, mutex reader) -/
def chanFam : Family Chan (Bool × Bool × Bool) Empty where
  init f i h := chanInit f i.1 i.2.1 i.2.2 h
  op _ _ k _ := nomatch k
  destroy := chanDestroy
  ownM := Chan.owned
  ownF := zeroFd
  wf c := ∃ w r, c = chanBuilt w r
  dead c := c = {}

theorem chanBuilt_owned (w r : Bool) : (chanBuilt w r).owned = chanN w r := by
  cases w <;> cases r <;> simp [chanBuilt, Chan.owned, Cell.owned, chanN]

theorem chanFam_laws : Laws chanFam where
  init_ok f i h := by
    obtain ⟨v, w, r⟩ := i
    cases v with
    | false =>
      show ∃ s ok h', chanInit f false w r h = _ ∧ _
      rw [chanInit_invalid]
      exact init_law_invalid rfl
    | true =>
      exact init_law (chanInit_contract f w r h) ⟨w, r, rfl⟩ (chanBuilt_owned w r) rfl rfl
  op_ok _ _ k := nomatch k
  destroy_live s h hw := by
    obtain ⟨w, r, rfl⟩ := hw
    exact ⟨_, _, chanDestroy_built w r h, by simp [chanFam, chanBuilt_owned], by simp [chanFam, zeroFd], rfl⟩
  destroy_dead s h hd := by
    have : s = {} := hd
    subst this
    exact ⟨_, _, chanDestroy_empty h, rfl, rfl, rfl⟩

/-- ring_buffer, array_blocking_queue, sowr / ring memory pool, bytes_buffer, flow_controller:
`ι` = parameters valid; `nulls` = whether `destroy` resets the pointer -/
def oneFam (nulls : Bool) : Family One Bool Empty where
  init f v h := oneInit f v h
  op _ _ k _ := nomatch k
  destroy := oneDestroy nulls
  ownM := One.owned
  ownF := zeroFd
  wf o := o = { p := .own }
  dead o := o = {}

theorem oneFam_laws (nulls : Bool) : Laws (oneFam nulls) where
  init_ok f v h := by
    cases v with
    | false =>
      show ∃ s ok h', oneInit f false h = _ ∧ _
      rw [oneInit_invalid]
      exact init_law_invalid rfl
    | true => exact init_law (oneInit_contract f h) rfl rfl rfl rfl
  op_ok _ _ k := nomatch k
  destroy_live s h hw := by
    have : s = { p := .own } := hw
    subst this
    obtain ⟨o, ho⟩ := oneDestroy_built nulls h
    exact ⟨o, _, ho, by simp [oneFam, One.owned, Cell.owned], by simp [oneFam, zeroFd], rfl⟩
  destroy_dead s h hd := by
    have : s = {} := hd
    subst this
    exact ⟨_, _, oneDestroy_empty nulls h, rfl, rfl, rfl⟩

def dbufFam : Family DBuf Bool Empty where
  init f v h := dbufInit f v h
  op _ _ k _ := nomatch k
  destroy := dbufDestroy
  ownM := DBuf.owned
  ownF := zeroFd
  wf o := o = { b0 := .own, b1 := .own }
  dead o := o = {}

theorem dbufFam_laws : Laws dbufFam where
  init_ok f v h := by
    cases v with
    | false =>
      show ∃ s ok h', dbufInit f false h = _ ∧ _
      rw [dbufInit_invalid]
      exact init_law_invalid rfl
    | true => exact init_law (dbufInit_contract f h) rfl rfl rfl rfl
  op_ok _ _ k := nomatch k
  destroy_live s h hw := by
    have : s = { b0 := .own, b1 := .own } := hw
    subst this
    obtain ⟨o, ho⟩ := dbufDestroy_built h
    exact ⟨o, _, ho, by simp [dbufFam, DBuf.owned, Cell.owned], by simp [dbufFam, zeroFd], rfl⟩
  destroy_dead s h hd := by
    have : s = {} := hd
    subst this
    exact ⟨_, _, dbufDestroy_empty h, rfl, rfl, rfl⟩

/-- threadsafe_memory_pool, pointer_slot -/
def twoFam : Family Two Bool Empty where
  init f v h := twoInit f v h
  op _ _ k _ := nomatch k
  destroy := twoDestroy
  ownM := Two.owned
  ownF := zeroFd
  wf o := o = { a := .own, b := .own }
  dead o := o = {}

theorem twoFam_laws : Laws twoFam where
  init_ok f v h := by
    cases v with
    | false =>
      show ∃ s ok h', twoInit f false h = _ ∧ _
      rw [twoInit_invalid]
      exact init_law_invalid rfl
    | true => exact init_law (twoInit_contract f h) rfl rfl rfl rfl
  op_ok _ _ k := nomatch k
  destroy_live s h hw := by
    have : s = { a := .own, b := .own } := hw
    subst this
    exact ⟨_, _, twoDestroy_built h, by simp [twoFam, Two.owned, Cell.owned], by simp [twoFam, zeroFd], rfl⟩
  destroy_dead s h hd := by
    have : s = {} := hd
    subst this
    exact ⟨_, _, twoDestroy_empty h, rfl, rfl, rfl⟩

/-- socket event-loop handle: init / add_ctx (hand a context over to the loop) / destroy -/
def sockhFam : Family SockH Unit Unit where
  init f _ h := sockhInit f h
  op f s _ h := sockhAddCtx f s h
  destroy := sockhDestroy
  ownM := SockH.owned
  ownF := SockH.ownedFd
  wf := SockH.wf
  dead o := o = {}

theorem sockhFam_laws : Laws sockhFam where
  init_ok f _ h := init_law (sockhInit_contract f h) ⟨rfl, rfl, nc_empty_wf, rfl⟩
    (by simp [sockhFam, SockH.owned, NC.owned, NPool.owned, MPool.owned, Cell.owned])
    (by simp [sockhFam, SockH.ownedFd]) rfl
  op_ok f s _ h hw := (sockhAddCtx_contract f s h hw).weak
  destroy_live s h hw := by
    obtain ⟨h', hr, hm, hf, hi⟩ := sockhDestroy_wf s h hw
    exact ⟨_, h', hr, hm, hf, hi⟩
  destroy_dead s h hd := by
    have : s = {} := hd
    subst this
    exact ⟨_, _, sockhDestroy_empty h, rfl, rfl, rfl⟩

/-- event signal (descriptor) -/
def evsigFam : Family One Unit Empty where
  init f _ h := evsigInit f h
  op _ _ k _ := nomatch k
  destroy := evsigDestroy
  ownM := fun _ => 0
  ownF := One.owned
  wf o := o = { p := .own }
  dead o := o = {}

theorem evsigFam_laws : Laws evsigFam where
  init_ok f _ h := init_law (evsigInit_contract f h) rfl rfl rfl rfl
  op_ok _ _ k := nomatch k
  destroy_live s h hw := by
    have : s = { p := .own } := hw
    subst this
    exact ⟨_, _, evsigDestroy_built h, by simp [evsigFam], by simp [evsigFam, One.owned, Cell.owned], rfl⟩
  destroy_dead s h hd := by
    have : s = {} := hd
    subst this
    exact ⟨_, _, evsigDestroy_empty h, rfl, rfl, rfl⟩

/-- socket event-loop pipe (one `pipe()` = two descriptors) -/
def evpipeFam : Family Two Unit Empty where
  init f _ h := evpipeInit f h
  op _ _ k _ := nomatch k
  destroy := evpipeDestroy
  ownM := fun _ => 0
  ownF := Two.owned
  wf o := o = { a := .own, b := .own }
  dead o := o = {}

theorem evpipeFam_laws : Laws evpipeFam where
  init_ok f _ h := init_law (evpipeInit_contract f h) rfl rfl rfl rfl
  op_ok _ _ k := nomatch k
  destroy_live s h hw := by
    have : s = { a := .own, b := .own } := hw
    subst this
    exact ⟨_, _, evpipeDestroy_built h, by simp [evpipeFam], by simp [evpipeFam, Two.owned, Cell.owned], rfl⟩
  destroy_dead s h hd := by
    have : s = {} := hd
    subst this
    exact ⟨_, _, evpipeDestroy_empty h, rfl, rfl, rfl⟩

/-- `muggle_socket_create` / `muggle_socket_close` -/
def sockFam : Family One Unit Empty where
  init f _ h := sockCreate f h
  op _ _ k _ := nomatch k
  destroy := sockClose
  ownM := fun _ => 0
  ownF := One.owned
  wf o := o = { p := .own }
  dead o := o = {}

theorem sockFam_laws : Laws sockFam where
  init_ok f _ h := init_law (sockCreate_contract f h) rfl rfl rfl rfl
  op_ok _ _ k := nomatch k
  destroy_live s h hw := by
    have : s = { p := .own } := hw
    subst this
    exact ⟨_, _, sockClose_built h, by simp [sockFam], by simp [sockFam, One.owned, Cell.owned], rfl⟩
  destroy_dead s h hd := by
    have : s = {} := hd
    subst this
    exact ⟨_, _, sockClose_empty h, rfl, rfl, rfl⟩

/-- ma_ring thread context: init / cleanup of the calling thread -/
def maRingFam : Family MaRing Unit Empty where
  init f _ h := maRingInit f {} h
  op _ _ k _ := nomatch k
  destroy := maRingCleanup
  ownM := MaRing.owned
  ownF := zeroFd
  wf o := o = { ring := .own, buffer := .own, node := .own }
  dead o := o = {}

theorem maRingFam_laws : Laws maRingFam where
  init_ok f _ h := init_law (maRingInit_contract f h) rfl rfl rfl rfl
  op_ok _ _ k := nomatch k
  destroy_live s h hw := by
    have : s = { ring := .own, buffer := .own, node := .own } := hw
    subst this
    exact ⟨_, _, maRingCleanup_built h, by simp [maRingFam, MaRing.owned, Cell.owned], by simp [maRingFam, zeroFd], rfl⟩
  destroy_dead s h hd := by
    have : s = {} := hd
    subst this
    exact ⟨_, _, maRingCleanup_empty h, rfl, rfl, rfl⟩

/-! ## growable objects -/

inductive MPoolOp where
  | alloc | free | ensure (c : Nat) | setFlag (n : Nat) | setMax (n : Nat)

/-- growable memory pool: `ι` = (init_capacity, block_size) -/
def mpoolFam : Family MPool (Nat × Nat) MPoolOp where
  init f i h := mpoolInit f i.1 i.2 h
  op f p k h :=
    match k with
    | .alloc => mpoolAlloc f p h
    | .free => match mpoolFree p h with
      | .error e => .error e
      | .ok (p, h) => .ok (p, true, h)
    | .ensure c => mpoolEnsure f p c h
    | .setFlag n => .ok ({ p with flag := n }, true, h)
    | .setMax n => .ok ({ p with maxDelta := n }, true, h)
  destroy := mpoolDestroy
  ownM := MPool.owned
  ownF := zeroFd
  wf := MPool.wf
  dead p := p = {}

theorem mpoolFam_laws : Laws mpoolFam where
  init_ok f i h := by
    obtain ⟨cap, bs⟩ := i
    by_cases hbs : bs = 0
    · subst hbs
      show ∃ s ok h', mpoolInit f cap 0 h = _ ∧ _
      rw [mpoolInit_invalid]
      exact init_law_invalid rfl
    · exact init_law (mpoolInit_contract f cap bs hbs h) (mpoolBuilt_wf cap bs) (mpoolBuilt_owned cap bs) rfl rfl
  op_ok f p k h hw := by
    cases k with
    | alloc => exact (mpoolAlloc_contract f p h hw).weak
    | ensure c => exact (mpoolEnsure_contract f p c h hw).weak
    | free =>
      show OpContract _ _ _ _ _ (match mpoolFree p h with | .error e => .error e | .ok (p, h) => .ok (p, true, h))
      rw [mpoolFree_ok p h hw]
      exact ⟨_, true, h, rfl, ⟨⟨hw.1, hw.2⟩, by simp [mpoolFam, MPool.owned], rfl, Nat.le_refl _, Nat.le_refl _, fun _ => rfl⟩⟩
    | setFlag n =>
      exact ⟨_, true, h, rfl, ⟨⟨hw.1, hw.2⟩, by simp [mpoolFam, MPool.owned], rfl, Nat.le_refl _, Nat.le_refl _, fun _ => rfl⟩⟩
    | setMax n =>
      exact ⟨_, true, h, rfl, ⟨⟨hw.1, hw.2⟩, by simp [mpoolFam, MPool.owned], rfl, Nat.le_refl _, Nat.le_refl _, fun _ => rfl⟩⟩
  destroy_live s h hw := ⟨_, _, mpoolDestroy_wf s h hw, rfl, by simp [mpoolFam, zeroFd], rfl⟩
  destroy_dead s h hd := by
    have : s = {} := hd
    subst this
    exact ⟨_, _, mpoolDestroy_empty h, rfl, rfl, rfl⟩

inductive ArrOp where
  | push | pop | ensure (c : Nat)

/-- array_list / heap / stack: `ι` = requested capacity; `nulls` = destroy resets the pointer -/
def arrFam (nulls : Bool) : Family Arr Nat ArrOp where
  init f c h := arrInit f c h
  op f a k h :=
    match k with
    | .push => arrPush f a h
    | .pop => arrPop a h
    | .ensure c => arrEnsure f a c h
  destroy := arrDestroy nulls
  ownM := Arr.owned
  ownF := zeroFd
  wf := Arr.wf
  dead a := a = {}

theorem arrFam_laws (nulls : Bool) : Laws (arrFam nulls) where
  init_ok f c h := by
    by_cases hc : dsCapValid (if c = 0 then 8 else c) = true
    · exact init_law (arrInit_contract f c hc h) rfl (by simp [arrFam, Arr.owned, Cell.owned]) rfl rfl
    · have hc' : dsCapValid (if c = 0 then 8 else c) = false := by simpa using hc
      show ∃ s ok h', arrInit f c h = _ ∧ _
      rw [arrInit_invalid f c hc']
      exact init_law_invalid rfl
  op_ok f a k h hw := by
    cases k with
    | push => exact (arrPush_contract f a h hw).weak
    | pop => exact (arrPop_contract a h hw).weak
    | ensure c => exact (arrEnsure_contract f a c h hw).weak
  destroy_live s h hw := by
    obtain ⟨a', ha⟩ := arrDestroy_wf nulls s h hw
    exact ⟨a', _, ha, rfl, by simp [arrFam, zeroFd], rfl⟩
  destroy_dead s h hd := by
    have : s = {} := hd
    subst this
    exact ⟨_, _, arrDestroy_empty nulls h, rfl, rfl, rfl⟩

/-! ## node containers -/

theorem ncDestroy_empty (h : Heap) : ∃ c', ncDestroy {} h = .ok (c', h) := by
  simp [ncDestroy, ncClear, npDestroy, bind, Except.bind, pure, Except.pure]

theorem htabDestroy_empty (h : Heap) : ∃ c', htabDestroy {} h = .ok (c', h) := by
  simp [htabDestroy, ncClear, npDestroy, free, Cell.released, bind, Except.bind, pure, Except.pure]

/-- constructor law shared by linked list, queue, AVL tree, trie -/
theorem ncInit_law (f : Sched) (cap ns : Nat) (hns : ns ≠ 0) (h : Heap) {wf : NC → Prop}
    (hw0 : wf {}) (hw1 : wf { np := npBuilt cap ns }) :
    ∃ s ok h', ncInit f cap ns h = .ok (s, ok, h') ∧ h.nacq ≤ h'.nacq ∧ h.inj ≤ h'.inj ∧
      (ok = true → wf s ∧ h'.mem = h.mem + s.owned ∧ h'.fds = h.fds + zeroFd s ∧ h'.inj = h.inj) ∧
      (ok = false → s = {} ∧ h'.mem = h.mem ∧ h'.fds = h.fds) := by
  by_cases h0 : cap = 0
  · subst h0
    rw [ncInit_nopool]
    exact ⟨{}, true, h, rfl, Nat.le_refl _, Nat.le_refl _,
      fun _ => ⟨hw0, by simp [NC.owned, NPool.owned, MPool.owned, Cell.owned], by simp [zeroFd], rfl⟩, by simp⟩
  · by_cases hc : dsCapValid cap = true
    · exact init_law (ncInit_contract f cap ns h0 hc hns h) hw1
        (by simp [NC.owned, NPool.owned, npBuilt, mpoolBuilt_owned, Cell.owned]) rfl rfl
    · have hc' : dsCapValid cap = false := by simpa using hc
      have : ncInit f cap ns h = .ok ({}, false, h) := by simp [ncInit, npInit_invalid f cap ns h0 hc' h]
      rw [this]
      exact init_law_invalid rfl

inductive ListOp where
  | insert | removeFirst

/-- linked list / queue: `ι` = (node-pool capacity, node size) -/
def listFam : Family NC (Nat × { n : Nat // n ≠ 0 }) ListOp where
  init f i h := ncInit f i.1 i.2.1 h
  op f c k h :=
    match k with
    | .insert => ncInsert f c h
    | .removeFirst => match ncRemoveFirst c h with
      | .error e => .error e
      | .ok (c, h) => .ok (c, true, h)
  destroy := ncDestroy
  ownM := NC.owned
  ownF := zeroFd
  wf c := c.wf ∧ c.table = .null
  dead c := c = {}

theorem listFam_laws : Laws listFam where
  init_ok f i h := by
    obtain ⟨cap, ns, hns⟩ := i
    exact ncInit_law f cap ns hns h ⟨nc_empty_wf, rfl⟩ ⟨nc_built_wf cap ns .null (Or.inl rfl), rfl⟩
  op_ok f c k h hw := by
    obtain ⟨hw, ht⟩ := hw
    cases k with
    | insert =>
      obtain ⟨c', ok, h', hr, ⟨w', m, fd, n, i, cl⟩, hs, _, _, ht', _⟩ := ncAllocNode_spec f c h hw
      exact ⟨c', ok, h', hr, ⟨⟨w', by rw [ht', ht]⟩, m, fd, n, i, cl⟩⟩
    | removeFirst =>
      show OpContract _ _ _ _ _ (match ncRemoveFirst c h with | .error e => .error e | .ok (c, h) => .ok (c, true, h))
      unfold ncRemoveFirst
      by_cases hz : c.size = 0
      · rw [if_pos hz]
        exact ⟨c, true, h, rfl, OpResult.refl true ⟨hw, ht⟩⟩
      · rw [if_neg hz]
        obtain ⟨c', h', hr, w', m, fd, n, i, _, _, _, _, ht'⟩ := ncFreeNode_spec c h hw (by omega)
        rw [hr]
        exact ⟨c', true, h', rfl, ⟨⟨w', by rw [ht', ht]⟩, m, by simp [listFam, zeroFd, fd], by omega, by omega, fun _ => i⟩⟩
  destroy_live s h hw := by
    obtain ⟨c', h', hr, m, fd, _, i⟩ := ncDestroy_spec s h hw.1 hw.2
    exact ⟨c', h', hr, m, by simp [listFam, zeroFd, fd], i⟩
  destroy_dead s h hd := by
    have : s = {} := hd
    subst this
    obtain ⟨c', hc'⟩ := ncDestroy_empty h
    exact ⟨c', h, hc', rfl, rfl, rfl⟩

inductive KeyOp where
  | insert (k : Nat) | remove (k : Nat)

/-- AVL tree: `ι` = (node-pool capacity, node size) -/
def avlFam : Family NC (Nat × { n : Nat // n ≠ 0 }) KeyOp where
  init f i h := ncInit f i.1 i.2.1 h
  op f c k h :=
    match k with
    | .insert k => ncInsertKey f c k h
    | .remove k => match ncRemoveKey c k h with
      | .error e => .error e
      | .ok (c, h) => .ok (c, true, h)
  destroy := ncDestroy
  ownM := NC.owned
  ownF := zeroFd
  wf c := c.wfK ∧ c.table = .null
  dead c := c = {}

theorem ncInsertKey_table (f : Sched) (c : NC) (k : Nat) (h : Heap) (hc : c.wfK) :
    ∀ c' ok h', ncInsertKey f c k h = .ok (c', ok, h') → c'.table = c.table := by
  intro c' ok h' hr
  unfold ncInsertKey at hr
  by_cases hmem : k ∈ c.keys
  · rw [if_pos hmem] at hr
    injection hr with hr
    injection hr with e _
    rw [← e]
  · rw [if_neg hmem] at hr
    obtain ⟨c1, ok1, h1, hr1, _, hs, _, _, ht1, _⟩ := ncAllocNode_spec f c h hc.1
    rw [hr1] at hr
    cases ok1 <;> simp at hr <;> obtain ⟨e, _⟩ := hr <;> rw [← e] <;> exact ht1

theorem ncRemoveKey_table (c : NC) (k : Nat) (h : Heap) (hc : c.wfK) :
    ∀ c' h', ncRemoveKey c k h = .ok (c', h') → c'.table = c.table := by
  intro c' h' hr
  unfold ncRemoveKey at hr
  by_cases hmem : k ∈ c.keys
  · rw [if_pos hmem] at hr
    have hpos : c.keys.length > 0 := List.length_pos_of_mem hmem
    obtain ⟨c1, h1, hr1, _, _, _, _, _, _, _, _, _, ht1⟩ := ncFreeNode_spec c h hc.1 (by have := hc.2; omega)
    rw [hr1] at hr
    simp at hr
    obtain ⟨e, _⟩ := hr
    rw [← e]
    exact ht1
  · rw [if_neg hmem] at hr
    injection hr with hr
    injection hr with e _
    rw [← e]

/-- operation law shared by the keyed containers (`P` = condition on the bucket array) -/
theorem keyOp_law (f : Sched) (c : NC) (k : KeyOp) (h : Heap) (t : Cell) (hw : c.wfK) (ht : c.table = t) :
    OpContract (fun c => c.wfK ∧ c.table = t) NC.owned zeroFd c h
      (match k with
        | .insert k => ncInsertKey f c k h
        | .remove k => match ncRemoveKey c k h with
          | .error e => .error e
          | .ok (c, h) => .ok (c, true, h)) := by
  cases k with
  | insert k =>
    obtain ⟨c', ok, h', hr, ⟨w', m, fd, n, i, cl⟩, _⟩ := ncInsertKey_contract f c k h hw
    have := ncInsertKey_table f c k h hw c' ok h' hr
    exact ⟨c', ok, h', hr, ⟨⟨w', by rw [this, ht]⟩, m, fd, n, i, cl⟩⟩
  | remove k =>
    obtain ⟨c', h', hr, w', m, fd, n, i⟩ := ncRemoveKey_spec c k h hw
    have := ncRemoveKey_table c k h hw c' h' hr
    simp only [hr]
    exact ⟨c', true, h', rfl, ⟨⟨w', by rw [this, ht]⟩, m, by simp [zeroFd, fd], by omega, by omega, fun _ => i⟩⟩

theorem nc_empty_wfK : ({} : NC).wfK := ⟨nc_empty_wf, by simp⟩
theorem nc_built_wfK (cap ns : Nat) (t : Cell) (ht : t = .null ∨ t = .own) :
    ({ np := npBuilt cap ns, table := t } : NC).wfK := ⟨nc_built_wf cap ns t ht, by simp⟩

theorem avlFam_laws : Laws avlFam where
  init_ok f i h := by
    obtain ⟨cap, ns, hns⟩ := i
    exact ncInit_law f cap ns hns h ⟨nc_empty_wfK, rfl⟩ ⟨nc_built_wfK cap ns .null (Or.inl rfl), rfl⟩
  op_ok f c k h hw := keyOp_law f c k h .null hw.1 hw.2
  destroy_live s h hw := by
    obtain ⟨c', h', hr, m, fd, _, i⟩ := ncDestroy_spec s h hw.1.1 hw.2
    exact ⟨c', h', hr, m, by simp [avlFam, zeroFd, fd], i⟩
  destroy_dead s h hd := by
    have : s = {} := hd
    subst this
    obtain ⟨c', hc'⟩ := ncDestroy_empty h
    exact ⟨c', h, hc', rfl, rfl, rfl⟩

/-- hash table: `ι` = (node-pool capacity, node size) -/
def htabFam : Family NC (Nat × { n : Nat // n ≠ 0 }) KeyOp where
  init f i h := htabInit f i.1 i.2.1 h
  op f c k h :=
    match k with
    | .insert k => ncInsertKey f c k h
    | .remove k => match ncRemoveKey c k h with
      | .error e => .error e
      | .ok (c, h) => .ok (c, true, h)
  destroy := htabDestroy
  ownM := NC.owned
  ownF := zeroFd
  wf c := c.wfK ∧ c.table = .own
  dead c := c = {}

theorem htabFam_laws : Laws htabFam where
  init_ok f i h := by
    obtain ⟨cap, ns, hns⟩ := i
    by_cases h0 : cap = 0
    · subst h0
      have hw : ({ table := .own } : NC).wfK := ⟨⟨Or.inl ⟨rfl, rfl⟩, Or.inr rfl, fun _ => rfl, fun _ => rfl⟩, by simp⟩
      exact init_law (htabInit_contract0 f ns h) ⟨hw, rfl⟩
        (by simp [htabFam, NC.owned, NPool.owned, MPool.owned, Cell.owned]) rfl rfl
    · by_cases hc : dsCapValid cap = true
      · exact init_law (htabInit_contract f cap ns h0 hc hns h) ⟨nc_built_wfK cap ns .own (Or.inr rfl), rfl⟩
          (by simp [htabFam, NC.owned, NPool.owned, npBuilt, mpoolBuilt_owned, Cell.owned]) rfl rfl
      · have hc' : dsCapValid cap = false := by simpa using hc
        have : htabInit f cap ns h = .ok ({}, false, h) := by simp [htabInit, npInit_invalid f cap ns h0 hc' h]
        show ∃ s ok h', htabInit f cap ns h = _ ∧ _
        rw [this]
        exact init_law_invalid rfl
  op_ok f c k h hw := keyOp_law f c k h .own hw.1 hw.2
  destroy_live s h hw := by
    obtain ⟨c', h', hr, m, fd, _, i⟩ := htabDestroy_spec s h hw.1.1
    exact ⟨c', h', hr, m, by simp [htabFam, zeroFd, fd], i⟩
  destroy_dead s h hd := by
    have : s = {} := hd
    subst this
    obtain ⟨c', hc'⟩ := htabDestroy_empty h
    exact ⟨c', h, hc', rfl, rfl, rfl⟩

/-- trie: the only operation is `insert key` -/
def trieFam : Family NC (Nat × { n : Nat // n ≠ 0 }) String where
  init f i h := ncInit f i.1 i.2.1 h
  op f c key h := trieInsert f c key h
  destroy := ncDestroy
  ownM := NC.owned
  ownF := zeroFd
  wf c := c.wf ∧ c.table = .null
  dead c := c = {}

theorem trieInsertPaths_table (f : Sched) (ps : List String) :
    ∀ (c : NC) (h : Heap), c.wf → ∀ c' ok h', trieInsertPaths f ps c h = .ok (c', ok, h') → c'.table = c.table := by
  induction ps with
  | nil =>
    intro c h _ c' ok h' hr
    simp only [trieInsertPaths] at hr
    injection hr with hr
    injection hr with e _
    rw [← e]
  | cons p ps ih =>
    intro c h hc c' ok h' hr
    unfold trieInsertPaths at hr
    by_cases hp : p ∈ c.paths
    · rw [if_pos hp] at hr
      exact ih c h hc c' ok h' hr
    · rw [if_neg hp] at hr
      obtain ⟨c1, ok1, h1, hr1, hres, _, _, _, ht1, _⟩ := ncAllocNode_spec f c h hc
      rw [hr1] at hr
      cases ok1 with
      | false =>
        simp at hr
        obtain ⟨e, _⟩ := hr
        rw [← e]; exact ht1
      | true =>
        have hw1 : ({ c1 with paths := p :: c1.paths } : NC).wf := by
          obtain ⟨a, b, c2, d⟩ := hres.wf'
          exact ⟨a, b, c2, d⟩
        have := ih _ h1 hw1 c' ok h' hr
        rw [this]; exact ht1

theorem trieFam_laws : Laws trieFam where
  init_ok f i h := by
    obtain ⟨cap, ns, hns⟩ := i
    exact ncInit_law f cap ns hns h ⟨nc_empty_wf, rfl⟩ ⟨nc_built_wf cap ns .null (Or.inl rfl), rfl⟩
  op_ok f c key h hw := by
    obtain ⟨c', ok, h', hr, ⟨w', m, fd, n, i, cl⟩⟩ := trieInsert_contract f c key h hw.1
    have := trieInsertPaths_table f _ c h hw.1 c' ok h' hr
    exact ⟨c', ok, h', hr, ⟨⟨w', by rw [this, hw.2]⟩, m, fd, n, i, cl⟩⟩
  destroy_live s h hw := by
    obtain ⟨c', h', hr, m, fd, _, i⟩ := ncDestroy_spec s h hw.1 hw.2
    exact ⟨c', h', hr, m, by simp [trieFam, zeroFd, fd], i⟩
  destroy_dead s h hd := by
    have : s = {} := hd
    subst this
    obtain ⟨c', hc'⟩ := ncDestroy_empty h
    exact ⟨c', h, hc', rfl, rfl, rfl⟩

/-! ## event loop, async logger -/

/-- event loop: `ι` = (requested type, use_mem_pool, hints_max_fd < 2^31, node size) -/
def evloopFam : Family EvLoop (Int × Bool × { x : Int // x < 2 ^ 31 } × { n : Nat // n ≠ 0 }) Unit where
  init f i h := evloopNew f i.1 i.2.1 i.2.2.1.1 i.2.2.2.1 h
  op f e _ h := evloopAdd f e h
  destroy := evloopDelete
  ownM := EvLoop.ownedMem
  ownF := EvLoop.ownedFds
  wf := EvLoop.wf
  dead e := e = {}

theorem evloopFam_laws : Laws evloopFam where
  init_ok f i h := by
    obtain ⟨t, mp, ⟨hints, hh⟩, ⟨ns, hns⟩⟩ := i
    have hk := evloopType_cases t
    exact init_law (evloopNew_contract f t mp hints hh ns hns h) (evBuilt_wf _ mp _ ns hk)
      (evBuilt_owned _ mp _ ns hk).1 (evBuilt_owned _ mp _ ns hk).2 rfl
  op_ok f e _ h hw := evloopAdd_contract f e h hw
  destroy_live s h hw := by
    obtain ⟨h', hr, m, fd, _, i⟩ := evloopDelete_spec s h hw
    exact ⟨_, h', hr, m, fd, i⟩
  destroy_dead s h hd := by
    have : s = {} := hd
    subst this
    exact ⟨{}, h, by simp [evloopFam, evloopDelete], rfl, rfl, rfl⟩

inductive ALogOp where
  | log

/-- async logger: `ι` = channel capacity valid; operation = log one message (and let the consumer
thread write it) -/
def alogFam : Family Chan Bool ALogOp where
  init f v h := alogInit f v h
  op f c _ h := match alogLog f c h with
    | .error e => .error e
    | .ok h' => .ok (c, decide (h'.inj = h.inj), h')
  destroy := alogDestroy
  ownM := Chan.owned
  ownF := zeroFd
  wf c := c = chanBuilt true false
  dead c := c = {}

theorem alogFam_laws : Laws alogFam where
  init_ok f v h := by
    cases v with
    | false =>
      show ∃ s ok h', alogInit f false h = _ ∧ _
      have : alogInit f false h = .ok ({}, false, h) := by simp [alogInit, chanInit]
      rw [this]
      exact init_law_invalid rfl
    | true =>
      exact init_law (alogInit_contract f h) rfl (by simp [alogFam, chanBuilt_owned, chanN]) rfl rfl
  op_ok f c _ h hw := by
    have : c = chanBuilt true false := hw
    subst this
    obtain ⟨h', hr, m, fd, n1, n2, i⟩ := alogLog_spec f h
    show OpContract _ _ _ _ _ (match alogLog f (chanBuilt true false) h with
      | .error e => .error e
      | .ok h' => .ok (chanBuilt true false, decide (h'.inj = h.inj), h'))
    rw [hr]
    exact ⟨_, _, h', rfl, ⟨rfl, by omega, by simp [alogFam, zeroFd, fd], by omega, i, by simp⟩⟩
  destroy_live s h hw := by
    have : s = chanBuilt true false := hw
    subst this
    exact ⟨_, _, alogDestroy_built h, by simp [alogFam, chanBuilt_owned, chanN], by simp [alogFam, zeroFd], rfl⟩
  destroy_dead s h hd := by
    have : s = {} := hd
    subst this
    exact ⟨_, _, alogDestroy_empty h, rfl, rfl, rfl⟩

end MgProof.C18
