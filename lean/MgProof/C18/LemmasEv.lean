import MgProof.C18.LemmasNC
/-!
# C18 — event signal, event loop (select / poll / epoll, with and without node pool),
socket event-loop handle, async logger
-/
namespace MgProof.C18
open MgModel.C18

attribute [local simp] MPool.wf Cell.owned zeroFd

/-! ## event signal -/

theorem evsigInit_contract (f : Sched) (h : Heap) :
    InitContract ({ p := .own } : One) {} 0 1 1 f h (evsigInit f h) := by
  fault_tree f h.nacq 0 1 <;>
  simp [*, InitContract, clean_succ, clean_zero, evsigInit, openFd, Grow, Failed]

theorem evsigDestroy_built (h : Heap) :
    evsigDestroy { p := .own } h = .ok ({}, { h with fds := h.fds - 1 }) := by
  simp [evsigDestroy, closeFd, bind, Except.bind, pure, Except.pure]

theorem evsigDestroy_empty (h : Heap) : evsigDestroy {} h = .ok ({}, h) := by
  simp [evsigDestroy, closeFd, bind, Except.bind, pure, Except.pure]

/-! ## socket event-loop handle -/

theorem sockhInit_contract (f : Sched) (h : Heap) :
    InitContract ({ q := .own, mtx := .own } : SockH) {} 2 0 2 f h (sockhInit f h) := by
  fault_tree f h.nacq 0 2 <;>
  simp [*, InitContract, clean_succ, clean_zero, sockhInit, sockhDestroy, ncDestroy, ncClear, npDestroy,
    alloc, free, deref, Grow, Failed, bind, Except.bind, pure, Except.pure] <;> omega

def _root_.MgModel.C18.SockH.wf (s : SockH) : Prop :=
  s.q = .own ∧ s.mtx = .own ∧ s.queue.wf ∧ s.queue.table = .null

theorem sockhDestroy_wf (s : SockH) (h : Heap) (hs : s.wf) :
    ∃ h', sockhDestroy s h = .ok ({}, h') ∧ h'.mem = h.mem - s.owned ∧ h'.fds = h.fds - s.ownedFd ∧
      h'.inj = h.inj := by
  obtain ⟨h1, h2, h3, h4⟩ := hs
  obtain ⟨c1, hh1, hr1, hw1, hm1, hf1, hn1, hi1, hz1, ht1, _⟩ := ncClear_spec s.queue
    { mem := h.mem - s.queue.size, fds := h.fds - s.queue.size, nacq := h.nacq, inj := h.inj } h3
  obtain ⟨c2, hh2, hr2, hm2, hf2, hn2, hi2⟩ := ncDestroy_spec c1
    { mem := hh1.mem - 1, fds := hh1.fds, nacq := hh1.nacq, inj := hh1.inj } hw1 (by rw [ht1, h4])
  simp [sockhDestroy, h1, h2, hr1, hr2, free, deref, bind, Except.bind, pure, Except.pure, SockH.owned,
    SockH.ownedFd]
  simp at hm1 hf1 hi1 hm2 hf2 hi2
  refine ⟨?_, ?_, ?_⟩ <;> omega

theorem sockhDestroy_empty (h : Heap) : sockhDestroy {} h = .ok ({}, h) := by
  simp [sockhDestroy, free, bind, Except.bind, pure, Except.pure]

/-- hand-over of a caller-made context with `muggle_socket_evloop_add_ctx` on an initialised
handle: on success the handle owns one more node, block and descriptor; on failure the handle is
unchanged and the caller has released its context: live counts as before -/
theorem sockhAddCtx_contract (f : Sched) (s : SockH) (h : Heap) (hs : s.wf) :
    OpContractS SockH.wf SockH.owned SockH.ownedFd s h (sockhAddCtx f s h) := by
  obtain ⟨h1, h2, h3, h4⟩ := hs
  obtain ⟨c1, ok, hh1, hr, ⟨hw1, hm1, hf1, hn1, hi1, hc1⟩, hsame, _, _, ht1, _, hsz⟩ :=
    ncAllocNode_spec f s.queue { mem := h.mem + 1, fds := h.fds + 1, nacq := h.nacq, inj := h.inj } h3
  have hd1 : deref s.q = .ok () := by rw [h1]; rfl
  have hd2 : deref s.mtx = .ok () := by rw [h2]; rfl
  unfold sockhAddCtx
  rw [hd1, hd2]
  simp only [ncInsert, hr]
  simp at hm1 hf1 hn1 hi1 hc1
  cases ok with
  | true =>
    simp at hsz
    refine ⟨_, true, hh1, rfl, ⟨⟨h1, h2, hw1, by rw [ht1, h4]⟩, ?_, ?_, hn1, hi1, by simpa using hc1⟩, by simp⟩
    · simp only [SockH.owned, hsz]; omega
    · simp only [SockH.ownedFd, hsz]; omega
  | false =>
    have := hsame rfl
    subst this
    refine ⟨_, false, _, rfl, ⟨⟨h1, h2, h3, h4⟩, ?_, ?_, hn1, hi1, by simp⟩, fun _ => rfl⟩
    · simp only [SockH.owned]; omega
    · simp only [SockH.ownedFd]; omega

/-! ## socket event-loop pipe, socket -/

theorem evpipeInit_contract (f : Sched) (h : Heap) :
    InitContract ({ a := .own, b := .own } : Two) {} 0 2 1 f h (evpipeInit f h) := by
  fault_tree f h.nacq 0 1 <;>
  simp [*, InitContract, clean_succ, clean_zero, evpipeInit, openPipe, Grow, Failed]

theorem evpipeDestroy_built (h : Heap) :
    evpipeDestroy { a := .own, b := .own } h = .ok ({}, { h with fds := h.fds - 2 }) := by
  simp [evpipeDestroy, closeFd, bind, Except.bind, pure, Except.pure]; omega

theorem evpipeDestroy_empty (h : Heap) : evpipeDestroy {} h = .ok ({}, h) := by
  simp [evpipeDestroy, closeFd, bind, Except.bind, pure, Except.pure]

theorem sockCreate_contract (f : Sched) (h : Heap) :
    InitContract ({ p := .own } : One) {} 0 1 1 f h (sockCreate f h) := by
  fault_tree f h.nacq 0 1 <;>
  simp [*, InitContract, clean_succ, clean_zero, sockCreate, openFd, Grow, Failed]

theorem sockClose_built (h : Heap) :
    sockClose { p := .own } h = .ok ({}, { h with fds := h.fds - 1 }) := by
  simp [sockClose, closeFd, bind, Except.bind, pure, Except.pure]

theorem sockClose_empty (h : Heap) : sockClose {} h = .ok ({}, h) := by
  simp [sockClose, closeFd, bind, Except.bind, pure, Except.pure]

/-! ## async logger -/

theorem alogInit_contract (f : Sched) (h : Heap) :
    InitContract (chanBuilt true false) ({} : Chan) 2 0 2 f h (alogInit f true h) := by
  have := chanInit_contract f true false h
  simpa [alogInit, chanN] using this

/-- `muggle_async_logger_log` + consumer: under every schedule no error and the live counts are
exactly as before (message and payload either both released by the consumer, or the message
block released by the producer when the payload cannot be allocated) -/
theorem alogLog_spec (f : Sched) (h : Heap) :
    ∃ h', alogLog f (chanBuilt true false) h = .ok h' ∧ h'.mem = h.mem ∧ h'.fds = h.fds ∧
      h.nacq < h'.nacq ∧ h'.nacq ≤ h.nacq + 2 ∧ h.inj ≤ h'.inj := by
  fault_tree f h.nacq 0 2 <;>
  simp [*, alogLog, chanBuilt, alloc, free, deref, bind, Except.bind, pure, Except.pure] <;> omega

theorem alogDestroy_built (h : Heap) :
    alogDestroy (chanBuilt true false) h = .ok ({}, { h with mem := h.mem - 2 }) := by
  have := chanDestroy_built true false h
  simp [chanN] at this
  simp [alogDestroy, chanBuilt, deref, bind, Except.bind] at *
  exact this

theorem alogDestroy_empty (h : Heap) : alogDestroy {} h = .ok ({}, h) := by simp [alogDestroy]

/-! ## event loop -/

/-- effective `hints_max_fd` -/
def evHints (hints : Int) : Nat := if hints < 1 then 8 else hints.toNat

def evBuilt (kind : Nat) (mempool : Bool) (hn ns : Nat) : EvLoop :=
  { self := .own, list := .own,
    ll := { np := if mempool then npBuilt hn ns else {} },
    sig := .own, evfd := .own, kind := kind,
    b1 := if kind = 1 then .null else .own, b2 := if kind = 1 then .null else .own,
    nfd := if kind = 2 then 1 else 0, pcap := if kind = 2 then hn + 1 else 0 }

/-- acquisitions on the success path of `muggle_evloop_new` -/
def evN (kind : Nat) (mempool : Bool) : Nat :=
  2 + (if mempool then 4 else 0) + 2 + (if kind = 1 then 0 else 2)

theorem evloopType_cases (t : Int) : evloopType t = 1 ∨ evloopType t = 2 ∨ evloopType t = 3 := by
  unfold evloopType
  by_cases h1 : t = 1 <;> by_cases h2 : t = 2 <;> simp [h1, h2]

theorem evHints_pos (hints : Int) : evHints hints ≠ 0 := by
  unfold evHints
  by_cases h : hints < 1 <;> simp [h]
  omega

theorem evHints_valid (hints : Int) (hh : hints < 2 ^ 31) : dsCapValid (evHints hints) = true := by
  unfold evHints dsCapValid
  by_cases h : hints < 1 <;> simp [h]
  omega

def evMem (kind : Nat) (mempool : Bool) : Int :=
  3 + (if mempool then 4 else 0) + (if kind = 2 then 2 else if kind = 3 then 1 else 0)
def evFds (kind : Nat) : Int := 1 + (if kind = 3 then 1 else 0)

/-- `muggle_evloop_new` for a resolved backend `k`, effective hint `H` -/
theorem evloopNew_core (f : Sched) (t : Int) (mempool : Bool) (hints : Int) (ns : Nat) (h : Heap)
    (k H : Nat) (hk : evloopType t = k) (hH : (if hints < 1 then 8 else hints.toNat) = H)
    (hk3 : k = 1 ∨ k = 2 ∨ k = 3) (hH0 : H ≠ 0) (hHv : dsCapValid H = true) (hns : ns ≠ 0) :
    InitContract (evBuilt k mempool H ns) {} (evMem k mempool) (evFds k) (evN k mempool) f h
      (evloopNew f t mempool hints ns h) := by
  unfold evloopNew
  simp only [hk, hH]
  rcases hk3 with rfl | rfl | rfl <;> cases mempool <;> fault_tree f h.nacq 0 10 <;>
  simp [*, InitContract, clean_succ, clean_zero, evBuilt, evMem, evFds, evN, evloopInitSignal,
    evloopInitBackend, evloopInitExcept, evloopBackendExcept, evloopDestroyBase, evloopDestroyBackend,
    ncInit, npInit, npBuilt, ncDestroy, ncClear, npDestroy, mpoolInit, mpoolBuilt, mpoolDestroy, alloc,
    openFd, free, closeFd, freeMany, deref, Grow, Failed, bind, Except.bind, pure, Except.pure] <;> omega

/-- **`muggle_evloop_new`**: every requested type, with or without node pool, every hint -/
theorem evloopNew_contract (f : Sched) (t : Int) (mempool : Bool) (hints : Int) (hh : hints < 2 ^ 31)
    (ns : Nat) (hns : ns ≠ 0) (h : Heap) :
    InitContract (evBuilt (evloopType t) mempool (evHints hints) ns) {} (evMem (evloopType t) mempool)
      (evFds (evloopType t)) (evN (evloopType t) mempool) f h (evloopNew f t mempool hints ns h) :=
  evloopNew_core f t mempool hints ns h _ _ rfl rfl (evloopType_cases t) (evHints_pos hints)
    (evHints_valid hints hh) hns

def _root_.MgModel.C18.EvLoop.wf (e : EvLoop) : Prop :=
  e.self = .own ∧ e.list = .own ∧ e.ll.wf ∧ e.ll.table = .null ∧ e.sig = .own ∧ e.evfd = .own ∧
  (e.kind = 1 ∨ (e.kind = 2 ∧ e.b1 = .own ∧ e.b2 = .own) ∨ (e.kind = 3 ∧ e.b1 = .own ∧ e.b2 = .own))

theorem evBuilt_wf (k : Nat) (mempool : Bool) (H ns : Nat) (hk : k = 1 ∨ k = 2 ∨ k = 3) :
    (evBuilt k mempool H ns).wf := by
  have hll : ({ np := if mempool then npBuilt H ns else {} } : NC).wf := by
    cases mempool
    · simpa using nc_empty_wf
    · simpa using nc_built_wf H ns .null (Or.inl rfl)
  rcases hk with rfl | rfl | rfl <;> exact ⟨rfl, rfl, hll, rfl, rfl, rfl, by simp [evBuilt]⟩

theorem evBuilt_owned (k : Nat) (mempool : Bool) (H ns : Nat) (hk : k = 1 ∨ k = 2 ∨ k = 3) :
    (evBuilt k mempool H ns).ownedMem = evMem k mempool ∧ (evBuilt k mempool H ns).ownedFds = evFds k := by
  rcases hk with rfl | rfl | rfl <;> cases mempool <;>
  simp [evBuilt, EvLoop.ownedMem, EvLoop.ownedFds, evMem, evFds, npBuilt, mpoolBuilt, NC.owned, NPool.owned, MPool.owned]

/-- static `muggle_evloop_destroy` on a loop whose signal and list are built -/
theorem evloopDestroyBase_spec (e : EvLoop) (h : Heap) (h2 : e.list = .own) (h3 : e.ll.wf)
    (h4 : e.ll.table = .null) (h5 : e.sig = .own) (h6 : e.evfd = .own) :
    ∃ e' h', evloopDestroyBase e h = .ok (e', h') ∧ e'.self = e.self ∧
      h'.mem = h.mem - 2 - e.ll.owned ∧ h'.fds = h.fds - 1 ∧ h'.nacq = h.nacq ∧ h'.inj = h.inj := by
  obtain ⟨c', hh, hr, hm, hf, hn, hi⟩ := ncDestroy_spec e.ll
    { mem := h.mem - 1, fds := h.fds - 1, nacq := h.nacq, inj := h.inj } h3 h4
  simp [evloopDestroyBase, h2, h5, h6, hr, deref, free, closeFd, bind, Except.bind, pure, Except.pure]
  simp at hm hf hn hi
  refine ⟨_, _, ⟨rfl, rfl⟩, rfl, ?_, ?_, ?_, ?_⟩ <;> simp <;> omega

/-- `muggle_evloop_delete` of a well-formed loop releases exactly what the loop owns -/
theorem evloopDelete_spec (e : EvLoop) (h : Heap) (he : e.wf) :
    ∃ h', evloopDelete e h = .ok ({}, h') ∧ h'.mem = h.mem - e.ownedMem ∧ h'.fds = h.fds - e.ownedFds ∧
      h'.nacq = h.nacq ∧ h'.inj = h.inj := by
  obtain ⟨h1, h2, h3, h4, h5, h6, hk⟩ := he
  rcases hk with hk | ⟨hk, hb1, hb2⟩ | ⟨hk, hb1, hb2⟩
  · obtain ⟨e', hh, hr, hs, hm, hf, hn, hi⟩ := evloopDestroyBase_spec e h h2 h3 h4 h5 h6
    simp [evloopDelete, evloopDestroyBackend, hk, hr, hs, h1, deref, free, bind, Except.bind, pure,
      Except.pure, EvLoop.ownedMem, EvLoop.ownedFds, h2, h5, h6]
    refine ⟨?_, ?_, ?_, ?_⟩ <;> omega
  · obtain ⟨e', hh, hr, hs, hm, hf, hn, hi⟩ := evloopDestroyBase_spec
      { self := .own, list := .own, ll := e.ll, sig := .own, evfd := .own, kind := 2, nfd := e.nfd,
        pcap := e.pcap } { mem := h.mem - 1 - 1, fds := h.fds, nacq := h.nacq, inj := h.inj }
      rfl h3 h4 rfl rfl
    simp [evloopDelete, evloopDestroyBackend, hk, hb1, hb2, hr, hs, h1, deref, free, bind, Except.bind, pure,
      Except.pure, EvLoop.ownedMem, EvLoop.ownedFds, h2, h5, h6]
    simp at hm hf hn hi
    refine ⟨?_, ?_, ?_, ?_⟩ <;> omega
  · obtain ⟨e', hh, hr, hs, hm, hf, hn, hi⟩ := evloopDestroyBase_spec
      { self := .own, list := .own, ll := e.ll, sig := .own, evfd := .own, kind := 3, nfd := e.nfd,
        pcap := e.pcap } { mem := h.mem - 1, fds := h.fds - 1, nacq := h.nacq, inj := h.inj }
      rfl h3 h4 rfl rfl
    simp [evloopDelete, evloopDestroyBackend, hk, hb1, hb2, hr, hs, h1, deref, free, closeFd, bind,
      Except.bind, pure, Except.pure, EvLoop.ownedMem, EvLoop.ownedFds, h2, h5, h6]
    simp at hm hf hn hi
    refine ⟨?_, ?_, ?_, ?_⟩ <;> omega

/-- `muggle_evloop_add_ctx` on a well-formed loop, any backend: no error, loop stays well-formed,
exact accounting, success only without injected fault (weak contract: the poll backend may refuse
a context after the node pool has grown) -/
theorem evloopAdd_contract (f : Sched) (e : EvLoop) (h : Heap) (he : e.wf) :
    OpContract EvLoop.wf EvLoop.ownedMem EvLoop.ownedFds e h (evloopAdd f e h) := by
  obtain ⟨h1, h2, h3, h4, h5, h6, hk⟩ := he
  obtain ⟨c1, ok, hh1, hr, ⟨hw1, hm1, hf1, hn1, hi1, hc1⟩, hs, _, _, ht1, _, _⟩ := ncAllocNode_spec f e.ll h h3
  have hf1' : hh1.fds = h.fds := by simpa using hf1
  have hd1 : deref e.self = .ok () := by rw [h1]; rfl
  have hd2 : deref e.list = .ok () := by rw [h2]; rfl
  have hwf : ∀ c : NC, c.wf → c.table = .null → ∀ n : Nat, ({ e with ll := c, nfd := n } : EvLoop).wf :=
    fun c hc ht n => ⟨h1, h2, hc, ht, h5, h6, hk⟩
  have hmem : ∀ (c : NC) (n : Nat) (x : Int), x - c.owned = h.mem - e.ll.owned →
      x - ({ e with ll := c, nfd := n } : EvLoop).ownedMem = h.mem - e.ownedMem := by
    intro c n x hx
    simp only [EvLoop.ownedMem]
    omega
  have hfds : ∀ (c : NC) (n : Nat), ({ e with ll := c, nfd := n } : EvLoop).ownedFds = e.ownedFds :=
    fun c n => rfl
  have ht1' : c1.table = .null := by rw [ht1, h4]
  unfold evloopAdd
  rw [hd1, hd2]
  simp only [ncInsert, hr]
  cases ok with
  | false =>
    exact ⟨_, false, hh1, rfl, ⟨hwf c1 hw1 ht1' e.nfd, hmem c1 e.nfd _ hm1,
      by rw [hfds c1 e.nfd]; omega, hn1, hi1, by simp⟩⟩
  | true =>
    dsimp only
    by_cases hk2 : e.kind = 2
    · rw [if_pos hk2]
      by_cases hfull : e.nfd = e.pcap
      · rw [if_pos hfull]
        obtain ⟨c2, hh2, hr2, hw2, hm2, hf2, hn2, hi2⟩ := ncRemoveFirst_spec c1 hh1 hw1
        have ht2 : c2.table = .null := by
          have : c2.table = c1.table := by
            unfold ncRemoveFirst at hr2
            by_cases hz : c1.size = 0
            · rw [if_pos hz] at hr2
              injection hr2 with hr2
              injection hr2 with e1 _
              rw [← e1]
            · rw [if_neg hz] at hr2
              obtain ⟨c3, hh3, hr3, _, _, _, _, _, _, _, _, _, ht3⟩ := ncFreeNode_spec c1 hh1 hw1 (by omega)
              rw [hr3] at hr2
              injection hr2 with hr2
              injection hr2 with e1 _
              rw [← e1, ht3]
          rw [this, ht1']
        simp only [hr2]
        exact ⟨_, false, hh2, rfl, ⟨hwf c2 hw2 ht2 e.nfd, hmem c2 e.nfd _ (by omega),
          by rw [hfds c2 e.nfd]; omega, by omega, by omega, by simp⟩⟩
      · rw [if_neg hfull]
        exact ⟨_, true, hh1, rfl, ⟨hwf c1 hw1 ht1' (e.nfd + 1), hmem c1 (e.nfd + 1) _ hm1,
          by rw [hfds c1 (e.nfd + 1)]; omega, hn1, hi1, hc1⟩⟩
    · rw [if_neg hk2]
      exact ⟨_, true, hh1, rfl, ⟨hwf c1 hw1 ht1' e.nfd, hmem c1 e.nfd _ hm1,
        by rw [hfds c1 e.nfd]; omega, hn1, hi1, hc1⟩⟩

end MgProof.C18
