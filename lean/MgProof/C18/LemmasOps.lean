import MgProof.C18.Lemmas
/-!
# C18 — contracts of growers / inserters, from an arbitrary well-formed state

`OpContract`: the call never reaches `Err`; the new state is well-formed; the heap changed by
exactly the change of what the object owns (so nothing acquired by the call is unaccounted
for); success is only reported when no acquisition of the call failed; on failure what the
object owns is what it owned before (`strong`) — for `muggle_trie_insert` only the accounting
holds (the prefix nodes created before the failing allocation stay in the trie).
-/
namespace MgProof.C18
open MgModel.C18

structure OpResult {σ : Type} (wf : σ → Prop) (ownM ownF : σ → Int) (s : σ) (h : Heap)
    (s' : σ) (ok : Bool) (h' : Heap) : Prop where
  wf' : wf s'
  mem : h'.mem - ownM s' = h.mem - ownM s
  fds : h'.fds - ownF s' = h.fds - ownF s
  nacq : h.nacq ≤ h'.nacq
  inj : h.inj ≤ h'.inj
  okClean : ok = true → h'.inj = h.inj

/-- weak contract: no error, well-formed, exact accounting, success only without faults -/
def OpContract {σ : Type} (wf : σ → Prop) (ownM ownF : σ → Int) (s : σ) (h : Heap)
    (r : Except Err (σ × Bool × Heap)) : Prop :=
  ∃ s' ok h', r = .ok (s', ok, h') ∧ OpResult wf ownM ownF s h s' ok h'

/-- strong contract: additionally a failed call leaves the object as it was -/
def OpContractS {σ : Type} (wf : σ → Prop) (ownM ownF : σ → Int) (s : σ) (h : Heap)
    (r : Except Err (σ × Bool × Heap)) : Prop :=
  ∃ s' ok h', r = .ok (s', ok, h') ∧ OpResult wf ownM ownF s h s' ok h' ∧ (ok = false → s' = s)

theorem OpContractS.weak {σ : Type} {wf : σ → Prop} {ownM ownF : σ → Int} {s : σ} {h : Heap}
    {r : Except Err (σ × Bool × Heap)} (c : OpContractS wf ownM ownF s h r) :
    OpContract wf ownM ownF s h r := by
  obtain ⟨s', ok, h', hr, hres, _⟩ := c
  exact ⟨s', ok, h', hr, hres⟩

/-- a failed call under the strong contract leaves the heap's live counts unchanged -/
theorem OpContractS.fail_heap {σ : Type} {wf : σ → Prop} {ownM ownF : σ → Int} {s : σ} {h : Heap}
    {r : Except Err (σ × Bool × Heap)} (c : OpContractS wf ownM ownF s h r) :
    ∀ s' h', r = .ok (s', false, h') → s' = s ∧ h'.mem = h.mem ∧ h'.fds = h.fds := by
  obtain ⟨s1, ok, h1, hr, hres, hs⟩ := c
  intro s' h' hr'
  rw [hr] at hr'
  injection hr' with hr'
  injection hr' with e1 e2
  injection e2 with e2 e3
  subst e1 e2 e3
  have := hs rfl
  subst this
  exact ⟨rfl, by have := hres.mem; omega, by have := hres.fds; omega⟩

def zeroFd {σ : Type} : σ → Int := fun _ => 0

/-- closes the goals left after unfolding a grower along one path of its fault tree -/
macro "op_finish" : tactic => `(tactic|
  (refine ⟨_, _, ⟨rfl, rfl⟩, ?_⟩
   first
   | (refine ⟨⟨?_, ?_, ?_, ?_, ?_, ?_⟩, rfl⟩ <;> (try simp_all) <;> (try omega))
   | (refine ⟨?_, ?_, ?_, ?_, ?_, ?_⟩ <;> (try simp_all) <;> (try omega))))

/-! ## memory pool -/

def _root_.MgModel.C18.MPool.wf (p : MPool) : Prop := p.bufs = .own ∧ p.ptrs = .own

attribute [local simp] MPool.wf MPool.owned Cell.owned zeroFd Arr.owned

theorem mpoolBuilt_wf (cap bs : Nat) : (mpoolBuilt cap bs).wf := by simp [MPool.wf, mpoolBuilt]

theorem mpoolBuilt_owned (cap bs : Nat) : (mpoolBuilt cap bs).owned = 3 := by
  simp [MPool.owned, mpoolBuilt, Cell.owned]

/-- `muggle_memory_pool_ensure_space` from any well-formed pool -/
theorem mpoolEnsure_contract (f : Sched) (p : MPool) (c : Nat) (h : Heap) (hp : p.wf) :
    OpContractS MPool.wf MPool.owned zeroFd p h (mpoolEnsure f p c h) := by
  obtain ⟨hb, hq⟩ := hp
  unfold mpoolEnsure
  by_cases h1 : c ≤ p.cap
  · simp only [h1, if_true]
    exact ⟨p, true, h, rfl, ⟨⟨hb, hq⟩, rfl, rfl, Nat.le_refl _, Nat.le_refl _, fun _ => rfl⟩, by simp⟩
  · by_cases h2 : p.flag % 2 = 1
    · simp only [h1, h2, if_true, if_false]
      exact ⟨p, false, h, rfl, ⟨⟨hb, hq⟩, rfl, rfl, Nat.le_refl _, Nat.le_refl _, by simp⟩, by simp⟩
    · simp only [h1, h2, if_false]
      fault_tree f h.nacq 0 3 <;>
      simp [*, alloc, free, deref, bind, Except.bind, pure, Except.pure, OpContractS] <;>
      op_finish

/-- `muggle_memory_pool_alloc` from any well-formed pool -/
theorem mpoolAlloc_contract (f : Sched) (p : MPool) (h : Heap) (hp : p.wf) :
    OpContractS MPool.wf MPool.owned zeroFd p h (mpoolAlloc f p h) := by
  unfold mpoolAlloc
  by_cases hu : p.used = p.cap
  · rw [if_pos hu]
    obtain ⟨p', ok, h', hr, hres, hs⟩ := mpoolEnsure_contract f p
      (p.cap + if p.maxDelta > 0 ∧ p.cap > p.maxDelta then p.maxDelta else p.cap) h hp
    dsimp only
    rw [hr]
    cases ok with
    | false => exact ⟨p', false, h', rfl, hres, hs⟩
    | true =>
      obtain ⟨hw, hm, hf, hn, hi, hc⟩ := hres
      have hw2 : p'.ptrs = .own := hw.2
      simp only [hw2, deref]
      refine ⟨_, true, h', rfl, ⟨?_, ?_, ?_, ?_, ?_, ?_⟩, by simp⟩ <;> simp_all
  · rw [if_neg hu]
    have hw2 : p.ptrs = .own := hp.2
    simp only [hw2, deref]
    refine ⟨_, true, h, rfl, ⟨?_, ?_, ?_, ?_, ?_, ?_⟩, by simp⟩ <;> simp_all

theorem mpoolFree_ok (p : MPool) (h : Heap) (hp : p.wf) :
    mpoolFree p h = .ok ({ p with used := p.used - 1 }, h) := by
  simp [mpoolFree, hp.2, deref, bind, Except.bind, pure, Except.pure]

theorem mpoolDestroy_wf (p : MPool) (h : Heap) (hp : p.wf) :
    mpoolDestroy p h = .ok ({}, { h with mem := h.mem - p.owned }) := by
  obtain ⟨hb, hq⟩ := hp
  by_cases hn : p.nbuf > 0 <;>
  simp [mpoolDestroy, hb, hq, hn, deref, free, freeMany, MPool.owned, Cell.owned, bind, Except.bind,
    pure, Except.pure] <;> omega

theorem mpoolDestroy_empty (h : Heap) : mpoolDestroy {} h = .ok ({}, h) := by
  simp [mpoolDestroy, free, freeMany, bind, Except.bind, pure, Except.pure]

/-! ## growable arrays -/

def _root_.MgModel.C18.Arr.wf (a : Arr) : Prop := a.p = .own

attribute [local simp] Arr.wf

theorem arrInit_contract (f : Sched) (cap : Nat) (hc : dsCapValid (if cap = 0 then 8 else cap) = true)
    (h : Heap) :
    InitContract ({ p := .own, cap := if cap = 0 then 8 else cap, size := 0 } : Arr) {} 1 0 1 f h
      (arrInit f cap h) := by
  fault_tree f h.nacq 0 1 <;>
  simp [*, InitContract, clean_succ, clean_zero, arrInit, alloc, Grow, Failed]

theorem arrInit_invalid (f : Sched) (cap : Nat) (hc : dsCapValid (if cap = 0 then 8 else cap) = false)
    (h : Heap) : arrInit f cap h = .ok ({}, false, h) := by
  simp [arrInit, hc]

theorem arrEnsure_contract (f : Sched) (a : Arr) (c : Nat) (h : Heap) (ha : a.wf) :
    OpContractS Arr.wf Arr.owned zeroFd a h (arrEnsure f a c h) := by
  unfold Arr.wf at ha
  unfold arrEnsure
  by_cases h1 : a.cap ≥ c
  · simp only [h1, if_true]
    exact ⟨a, true, h, rfl, ⟨ha, rfl, rfl, Nat.le_refl _, Nat.le_refl _, fun _ => rfl⟩, by simp⟩
  · by_cases h2 : dsCapValid c = true
    · by_cases h3 : a.size > 0 <;> fault_tree f h.nacq 0 1 <;>
      simp [*, alloc, free, deref, bind, Except.bind, pure, Except.pure, OpContractS] <;>
      op_finish
    · simp only [h1, h2, if_false]
      exact ⟨a, false, h, rfl, ⟨ha, rfl, rfl, Nat.le_refl _, Nat.le_refl _, by simp⟩, by simp⟩

theorem arrPush_contract (f : Sched) (a : Arr) (h : Heap) (ha : a.wf) :
    OpContractS Arr.wf Arr.owned zeroFd a h (arrPush f a h) := by
  unfold arrPush
  by_cases hu : a.size = a.cap
  · rw [if_pos hu]
    obtain ⟨a', ok, h', hr, hres, hs⟩ := arrEnsure_contract f a (a.cap * 2) h ha
    rw [hr]
    cases ok with
    | false => exact ⟨a', false, h', rfl, hres, hs⟩
    | true =>
      obtain ⟨hw, hm, hf, hn, hi, hc⟩ := hres
      have hw2 : a'.p = .own := hw
      simp only [hw2, deref]
      refine ⟨_, true, h', rfl, ⟨?_, ?_, ?_, ?_, ?_, ?_⟩, by simp⟩ <;> simp_all
  · rw [if_neg hu]
    have hw : a.p = .own := ha
    simp only [hw, deref]
    refine ⟨_, true, h, rfl, ⟨?_, ?_, ?_, ?_, ?_, ?_⟩, by simp⟩ <;> simp_all

theorem arrPop_contract (a : Arr) (h : Heap) (ha : a.wf) :
    OpContractS Arr.wf Arr.owned zeroFd a h (arrPop a h) := by
  have hw : a.p = .own := ha
  unfold arrPop
  by_cases hz : a.size = 0
  · rw [if_pos hz]
    refine ⟨a, false, h, rfl, ⟨?_, ?_, ?_, ?_, ?_, ?_⟩, by simp⟩ <;> simp_all
  · rw [if_neg hz]
    simp only [hw, deref]
    refine ⟨_, true, h, rfl, ⟨?_, ?_, ?_, ?_, ?_, ?_⟩, by simp⟩ <;> simp_all

theorem arrDestroy_wf (nulls : Bool) (a : Arr) (h : Heap) (ha : a.wf) :
    ∃ a', arrDestroy nulls a h = .ok (a', { h with mem := h.mem - a.owned }) := by
  have hw : a.p = .own := ha
  simp [arrDestroy, hw, free, Arr.owned, Cell.owned, bind, Except.bind, pure, Except.pure]

theorem arrDestroy_empty (nulls : Bool) (h : Heap) : arrDestroy nulls {} h = .ok ({}, h) := by
  cases nulls <;> simp [arrDestroy, free, Cell.released, bind, Except.bind, pure, Except.pure]

end MgProof.C18
