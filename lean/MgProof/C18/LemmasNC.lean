import MgProof.C18.LemmasOps
/-!
# C18 — node containers (linked list, queue, AVL tree, hash table, trie): constructors and
inserters from an arbitrary well-formed state
-/
namespace MgProof.C18
open MgModel.C18

attribute [local simp] MPool.wf MPool.owned Cell.owned zeroFd

/-! ## node containers -/

/-- the optional node pool: absent, or present and well-formed -/
def _root_.MgModel.C18.NPool.wf (n : NPool) : Prop :=
  (n.cell = .null ∧ n.pool = {}) ∨ (n.cell = .own ∧ n.pool.wf)

/-- a node container: pool as above; the bucket array absent (not a hash table) or owned; the
`malloc`ed nodes are exactly the elements when there is no pool, none when there is one -/
def _root_.MgModel.C18.NC.wf (c : NC) : Prop :=
  c.np.wf ∧ (c.table = .null ∨ c.table = .own) ∧
  (c.np.cell = .null → c.nodes = c.size) ∧ (c.np.cell = .own → c.nodes = 0)

attribute [local simp] NPool.owned NC.owned

def npBuilt (cap ns : Nat) : NPool := { cell := .own, pool := mpoolBuilt cap ns }

theorem npInit_nopool (f : Sched) (ns : Nat) (h : Heap) : npInit f 0 ns h = .ok ({}, true, h) := by
  simp [npInit]

theorem npInit_invalid (f : Sched) (cap ns : Nat) (h0 : cap ≠ 0) (hc : dsCapValid cap = false) (h : Heap) :
    npInit f cap ns h = .ok ({}, false, h) := by
  simp [npInit, h0, hc]

/-- the `if (capacity > 0)` block of the five node containers: pool block + `muggle_memory_pool_init` -/
theorem npInit_contract (f : Sched) (cap ns : Nat) (h0 : cap ≠ 0) (hc : dsCapValid cap = true)
    (hns : ns ≠ 0) (h : Heap) :
    InitContract (npBuilt cap ns) {} 4 0 4 f h (npInit f cap ns h) := by
  fault_tree f h.nacq 0 4 <;>
  simp [*, InitContract, clean_succ, clean_zero, npInit, npBuilt, mpoolInit, mpoolBuilt, alloc, free,
    Grow, Failed, bind, Except.bind, pure, Except.pure] <;> omega

theorem ncInit_nopool (f : Sched) (ns : Nat) (h : Heap) : ncInit f 0 ns h = .ok ({}, true, h) := by
  simp [ncInit, npInit]

/-- `muggle_linked_list_init / queue_init / avl_tree_init / trie_init` with a node pool -/
theorem ncInit_contract (f : Sched) (cap ns : Nat) (h0 : cap ≠ 0) (hc : dsCapValid cap = true)
    (hns : ns ≠ 0) (h : Heap) :
    InitContract ({ np := npBuilt cap ns } : NC) {} 4 0 4 f h (ncInit f cap ns h) := by
  fault_tree f h.nacq 0 4 <;>
  simp [*, InitContract, clean_succ, clean_zero, ncInit, npInit, npBuilt, mpoolInit, mpoolBuilt, alloc,
    free, Grow, Failed, bind, Except.bind, pure, Except.pure] <;> omega

/-- `muggle_hash_table_init` without a node pool -/
theorem htabInit_contract0 (f : Sched) (ns : Nat) (h : Heap) :
    InitContract ({ table := .own } : NC) {} 1 0 1 f h (htabInit f 0 ns h) := by
  fault_tree f h.nacq 0 1 <;>
  simp [*, InitContract, clean_succ, clean_zero, htabInit, npInit, npDestroy, alloc, free, Grow, Failed,
    bind, Except.bind, pure, Except.pure]

/-- `muggle_hash_table_init` with a node pool -/
theorem htabInit_contract (f : Sched) (cap ns : Nat) (h0 : cap ≠ 0) (hc : dsCapValid cap = true)
    (hns : ns ≠ 0) (h : Heap) :
    InitContract ({ np := npBuilt cap ns, table := .own } : NC) {} 5 0 5 f h (htabInit f cap ns h) := by
  fault_tree f h.nacq 0 5 <;>
  simp [*, InitContract, clean_succ, clean_zero, htabInit, npInit, npDestroy, npBuilt, mpoolInit,
    mpoolDestroy, mpoolBuilt, alloc, free, freeMany, deref, Grow, Failed, bind, Except.bind, pure,
    Except.pure] <;> omega

theorem npBuilt_wf (cap ns : Nat) : (npBuilt cap ns).wf := by
  simp [NPool.wf, npBuilt, mpoolBuilt]

theorem nc_empty_wf : ({} : NC).wf := by simp [NC.wf, NPool.wf]

theorem nc_built_wf (cap ns : Nat) (t : Cell) (ht : t = .null ∨ t = .own) :
    ({ np := npBuilt cap ns, table := t } : NC).wf := by
  refine ⟨npBuilt_wf cap ns, ht, ?_, ?_⟩ <;> simp [npBuilt]

/-- what `*_allocate_node` does from a well-formed container -/
theorem ncAllocNode_spec (f : Sched) (c : NC) (h : Heap) (hc : c.wf) :
    ∃ c' ok h', ncAllocNode f c h = .ok (c', ok, h') ∧
      OpResult NC.wf NC.owned zeroFd c h c' ok h' ∧ (ok = false → c' = c) ∧
      c'.keys = c.keys ∧ c'.paths = c.paths ∧ c'.table = c.table ∧ c'.np.cell = c.np.cell ∧
      c'.size = (if ok then c.size + 1 else c.size) := by
  obtain ⟨hnp, ht, hn0, hn1⟩ := hc
  rcases hnp with ⟨hcell, hpool⟩ | ⟨hcell, hpool⟩
  · -- no pool: malloc
    unfold ncAllocNode
    simp only [hcell]
    fault_tree f h.nacq 0 1 <;> simp [*, alloc]
    · refine ⟨_, _, ⟨rfl, rfl⟩, ⟨?_, ?_, ?_, ?_, ?_, ?_⟩, ?_⟩ <;> simp_all [NC.wf, NPool.wf] <;> omega
    · refine ⟨_, _, ⟨rfl, rfl⟩, ⟨?_, ?_, ?_, ?_, ?_, ?_⟩, ?_⟩ <;> simp_all [NC.wf, NPool.wf]
  · -- node pool
    unfold ncAllocNode
    simp only [hcell]
    obtain ⟨p', ok, h', hr, ⟨hw, hm, hf, hna, hi, hcl⟩, hs⟩ := mpoolAlloc_contract f c.np.pool h hpool
    simp only [hr]
    refine ⟨_, ok, h', rfl, ⟨?_, ?_, ?_, hna, hi, hcl⟩, ?_, rfl, rfl, rfl, ?_, ?_⟩
    · refine ⟨Or.inr ⟨rfl, hw⟩, ht, ?_, ?_⟩ <;> simp_all
    · simp_all; omega
    · simp_all
    · intro hok
      have := hs hok
      subst this
      cases c with
      | mk np nodes size table keys paths =>
        cases np with
        | mk cell pool => simp_all
    · simp
    · cases ok <;> simp

/-- `*_free_node` of one element of a well-formed, non-empty container -/
theorem ncFreeNode_spec (c : NC) (h : Heap) (hc : c.wf) (hs : c.size > 0) :
    ∃ c' h', ncFreeNode c h = .ok (c', h') ∧ c'.wf ∧ h'.mem - c'.owned = h.mem - c.owned ∧
      h'.fds = h.fds ∧ h'.nacq = h.nacq ∧ h'.inj = h.inj ∧
      c'.keys = c.keys ∧ c'.paths = c.paths ∧ c'.size = c.size - 1 ∧ c'.np.cell = c.np.cell ∧
      c'.table = c.table := by
  obtain ⟨hnp, ht, hn0, hn1⟩ := hc
  rcases hnp with ⟨hcell, hpool⟩ | ⟨hcell, hpool⟩
  · unfold ncFreeNode
    simp only [hcell]
    refine ⟨_, _, rfl, ⟨Or.inl ⟨?_, ?_⟩, ?_, ?_, ?_⟩, ?_, ?_⟩ <;> simp_all [freeMany] <;> omega
  · unfold ncFreeNode
    simp only [hcell, mpoolFree_ok _ _ hpool]
    refine ⟨_, _, rfl, ⟨Or.inr ⟨?_, ?_⟩, ?_, ?_, ?_⟩, ?_, ?_⟩ <;> simp_all

/-- `*_clear` of a well-formed container -/
theorem ncClear_spec (c : NC) (h : Heap) (hc : c.wf) :
    ∃ c' h', ncClear c h = .ok (c', h') ∧ c'.wf ∧ h'.mem - c'.owned = h.mem - c.owned ∧
      h'.fds = h.fds ∧ h'.nacq = h.nacq ∧ h'.inj = h.inj ∧ c'.size = 0 ∧
      c'.table = c.table ∧ c'.np.cell = c.np.cell := by
  obtain ⟨hnp, ht, hn0, hn1⟩ := hc
  unfold ncClear
  by_cases hz : c.size = 0
  · rw [if_pos hz]
    exact ⟨c, h, rfl, ⟨hnp, ht, hn0, hn1⟩, rfl, rfl, rfl, rfl, hz, rfl, rfl⟩
  · rw [if_neg hz]
    rcases hnp with ⟨hcell, hpool⟩ | ⟨hcell, hpool⟩
    · simp only [hcell]
      refine ⟨_, _, rfl, ⟨Or.inl ⟨?_, ?_⟩, ?_, ?_, ?_⟩, ?_, ?_⟩ <;> simp_all [freeMany] <;> omega
    · have hq : c.np.pool.ptrs = .own := hpool.2
      simp only [hcell, hq, deref]
      refine ⟨_, _, rfl, ⟨Or.inr ⟨?_, ?_⟩, ?_, ?_, ?_⟩, ?_, ?_⟩ <;> simp_all

/-- composition of two steps of a call: the first succeeded, the second is the rest -/
theorem OpResult.trans {σ : Type} {wf : σ → Prop} {ownM ownF : σ → Int} {s s1 s2 : σ}
    {h h1 h2 : Heap} {ok2 : Bool}
    (r1 : OpResult wf ownM ownF s h s1 true h1) (r2 : OpResult wf ownM ownF s1 h1 s2 ok2 h2) :
    OpResult wf ownM ownF s h s2 ok2 h2 := by
  obtain ⟨_, m1, f1, n1, i1, c1⟩ := r1
  obtain ⟨w2, m2, f2, n2, i2, c2⟩ := r2
  refine ⟨w2, by omega, by omega, by omega, by omega, ?_⟩
  intro hok
  have := c1 rfl
  have := c2 hok
  omega

theorem OpResult.refl {σ : Type} {wf : σ → Prop} {ownM ownF : σ → Int} {s : σ} {h : Heap} (ok : Bool)
    (hw : wf s) : OpResult wf ownM ownF s h s ok h :=
  ⟨hw, rfl, rfl, Nat.le_refl _, Nat.le_refl _, fun _ => rfl⟩

/-- `muggle_linked_list_insert / append`, `muggle_queue_enqueue` -/
theorem ncInsert_contract (f : Sched) (c : NC) (h : Heap) (hc : c.wf) :
    OpContractS NC.wf NC.owned zeroFd c h (ncInsert f c h) := by
  obtain ⟨c', ok, h', hr, hres, hs, _⟩ := ncAllocNode_spec f c h hc
  exact ⟨c', ok, h', hr, hres, hs⟩

/-- removal of the first element (no-op on an empty container) -/
theorem ncRemoveFirst_spec (c : NC) (h : Heap) (hc : c.wf) :
    ∃ c' h', ncRemoveFirst c h = .ok (c', h') ∧ c'.wf ∧ h'.mem - c'.owned = h.mem - c.owned ∧
      h'.fds = h.fds ∧ h'.nacq = h.nacq ∧ h'.inj = h.inj := by
  unfold ncRemoveFirst
  by_cases hz : c.size = 0
  · rw [if_pos hz]
    exact ⟨c, h, rfl, hc, rfl, rfl, rfl, rfl⟩
  · rw [if_neg hz]
    obtain ⟨c', h', hr, hw, hm, hf, hn, hi, _⟩ := ncFreeNode_spec c h hc (by omega)
    exact ⟨c', h', hr, hw, hm, hf, hn, hi⟩

/-- keyed containers: every key has its node -/
def _root_.MgModel.C18.NC.wfK (c : NC) : Prop := c.wf ∧ c.keys.length ≤ c.size

/-- `muggle_avl_tree_insert`, `muggle_hash_table_put` -/
theorem ncInsertKey_contract (f : Sched) (c : NC) (k : Nat) (h : Heap) (hc : c.wfK) :
    OpContractS NC.wfK NC.owned zeroFd c h (ncInsertKey f c k h) := by
  obtain ⟨hw, hk⟩ := hc
  unfold ncInsertKey
  by_cases hmem : k ∈ c.keys
  · rw [if_pos hmem]
    exact ⟨c, false, h, rfl, OpResult.refl false ⟨hw, hk⟩, fun _ => rfl⟩
  · rw [if_neg hmem]
    obtain ⟨c', ok, h', hr, ⟨hw', hm, hf, hn, hi, hcl⟩, hs, hkeys, _, _, _, hsize⟩ := ncAllocNode_spec f c h hw
    rw [hr]
    cases ok with
    | false =>
      have := hs rfl
      subst this
      exact ⟨c', false, h', rfl, ⟨⟨hw, hk⟩, hm, hf, hn, hi, hcl⟩, fun _ => rfl⟩
    | true =>
      refine ⟨_, true, h', rfl, ⟨⟨?_, ?_⟩, ?_, hf, hn, hi, hcl⟩, by simp⟩
      · obtain ⟨a, b, c1, d⟩ := hw'
        exact ⟨a, b, c1, d⟩
      · simp at hsize
        simp [hkeys, hsize]
        omega
      · simpa using hm

/-- `find` + `remove` of a key -/
theorem ncRemoveKey_spec (c : NC) (k : Nat) (h : Heap) (hc : c.wfK) :
    ∃ c' h', ncRemoveKey c k h = .ok (c', h') ∧ c'.wfK ∧ h'.mem - c'.owned = h.mem - c.owned ∧
      h'.fds = h.fds ∧ h'.nacq = h.nacq ∧ h'.inj = h.inj := by
  obtain ⟨hw, hk⟩ := hc
  unfold ncRemoveKey
  by_cases hmem : k ∈ c.keys
  · rw [if_pos hmem]
    have hpos : c.keys.length > 0 := List.length_pos_of_mem hmem
    obtain ⟨c', h', hr, hw', hm, hf, hn, hi, hkeys, _, hsize, _⟩ := ncFreeNode_spec c h hw (by omega)
    rw [hr]
    refine ⟨_, h', rfl, ⟨?_, ?_⟩, ?_, hf, hn, hi⟩
    · obtain ⟨a, b, c1, d⟩ := hw'
      exact ⟨a, b, c1, d⟩
    · simp [hkeys, hsize, List.length_erase_of_mem hmem]
      omega
    · simpa using hm
  · rw [if_neg hmem]
    exact ⟨c, h, rfl, ⟨hw, hk⟩, rfl, rfl, rfl, rfl⟩

/-- `muggle_trie_insert`, keys of every length: no error, exact accounting — but a failed call
may have added prefix nodes to the trie (weak contract) -/
theorem trieInsertPaths_contract (f : Sched) (ps : List String) :
    ∀ (c : NC) (h : Heap), c.wf → OpContract NC.wf NC.owned zeroFd c h (trieInsertPaths f ps c h) := by
  induction ps with
  | nil =>
    intro c h hc
    exact ⟨c, true, h, rfl, OpResult.refl true hc⟩
  | cons p ps ih =>
    intro c h hc
    unfold trieInsertPaths
    by_cases hp : p ∈ c.paths
    · rw [if_pos hp]
      exact ih c h hc
    · rw [if_neg hp]
      obtain ⟨c1, ok, h1, hr, hres, hs, _⟩ := ncAllocNode_spec f c h hc
      rw [hr]
      cases ok with
      | false => exact ⟨c1, false, h1, rfl, hres⟩
      | true =>
        have hw1 : ({ c1 with paths := p :: c1.paths } : NC).wf := by
          obtain ⟨a, b, c2, d⟩ := hres.wf'
          exact ⟨a, b, c2, d⟩
        obtain ⟨c2, ok2, h2, hr2, hres2⟩ := ih _ h1 hw1
        refine ⟨c2, ok2, h2, hr2, ?_⟩
        have hres1 : OpResult NC.wf NC.owned zeroFd c h ({ c1 with paths := p :: c1.paths } : NC) true h1 := by
          obtain ⟨_, m, f', n, i, cl⟩ := hres
          exact ⟨hw1, by simpa using m, f', n, i, cl⟩
        exact hres1.trans hres2

theorem trieInsert_contract (f : Sched) (c : NC) (key : String) (h : Heap) (hc : c.wf) :
    OpContract NC.wf NC.owned zeroFd c h (trieInsert f c key h) :=
  trieInsertPaths_contract f _ c h hc

/-- dropping the node pool -/
theorem npDestroy_spec (n : NPool) (h : Heap) (hn : n.wf) :
    ∃ n' h', npDestroy n h = .ok (n', h') ∧ h'.mem = h.mem - n.owned ∧ h'.fds = h.fds ∧
      h'.nacq = h.nacq ∧ h'.inj = h.inj := by
  rcases hn with ⟨hcell, hpool⟩ | ⟨hcell, hpool⟩
  · unfold npDestroy
    simp only [hcell]
    refine ⟨n, h, rfl, ?_, rfl, rfl, rfl⟩
    simp [hcell, hpool]
  · unfold npDestroy
    simp only [hcell, mpoolDestroy_wf _ _ hpool, free, bind, Except.bind, pure, Except.pure]
    refine ⟨_, _, rfl, ?_, rfl, rfl, rfl⟩
    simp [hcell]
    omega

/-- `muggle_linked_list_destroy / queue_destroy / avl_tree_destroy / trie_destroy` -/
theorem ncDestroy_spec (c : NC) (h : Heap) (hc : c.wf) (ht : c.table = .null) :
    ∃ c' h', ncDestroy c h = .ok (c', h') ∧ h'.mem = h.mem - c.owned ∧ h'.fds = h.fds ∧
      h'.nacq = h.nacq ∧ h'.inj = h.inj := by
  obtain ⟨c1, h1, hr1, hw1, hm1, hf1, hn1, hi1, hz1, ht1, hcell1⟩ := ncClear_spec c h hc
  obtain ⟨n2, h2, hr2, hm2, hf2, hn2, hi2⟩ := npDestroy_spec c1.np h1 hw1.1
  unfold ncDestroy
  simp only [hr1, hr2, bind, Except.bind, pure, Except.pure]
  refine ⟨_, h2, rfl, ?_, by omega, by omega, by omega⟩
  have e1 : c1.nodes = 0 := by
    have a := hw1.2.2.1
    have b := hw1.2.2.2
    rcases hw1.1 with ⟨hc0, _⟩ | ⟨hc0, _⟩
    · have := a hc0; omega
    · exact b hc0
  have e2 : c1.table = .null := by rw [ht1, ht]
  simp only [NC.owned, e1, e2, ht, Cell.owned] at hm1 ⊢
  omega

/-- `muggle_hash_table_destroy` -/
theorem htabDestroy_spec (c : NC) (h : Heap) (hc : c.wf) :
    ∃ c' h', htabDestroy c h = .ok (c', h') ∧ h'.mem = h.mem - c.owned ∧ h'.fds = h.fds ∧
      h'.nacq = h.nacq ∧ h'.inj = h.inj := by
  obtain ⟨c1, h1, hr1, hw1, hm1, hf1, hn1, hi1, hz1, ht1, hcell1⟩ := ncClear_spec c h hc
  obtain ⟨n2, h2, hr2, hm2, hf2, hn2, hi2⟩ := npDestroy_spec c1.np h1 hw1.1
  have e1 : c1.nodes = 0 := by
    have a := hw1.2.2.1
    have b := hw1.2.2.2
    rcases hw1.1 with ⟨hc0, _⟩ | ⟨hc0, _⟩
    · have := a hc0; omega
    · exact b hc0
  unfold htabDestroy
  rcases hc.2.1 with ht | ht
  · simp only [ht, hr1, hr2, ht1, free, bind, Except.bind, pure, Except.pure, ne_eq, not_true_eq_false,
      if_false]
    refine ⟨_, h2, rfl, ?_, by omega, by omega, by omega⟩
    simp only [NC.owned, e1, ht1, ht, Cell.owned] at hm1 ⊢
    omega
  · simp only [ht, hr1, hr2, ht1, free, deref, bind, Except.bind, pure, Except.pure]
    refine ⟨_, _, rfl, ?_, by simp; omega, by simp; omega, by simp; omega⟩
    simp only [NC.owned, e1, ht1, ht, Cell.owned] at hm1 ⊢
    omega

end MgProof.C18
