import MgModel.C13.EvLoop
/-!
# C13 — life-cycle invariant, common part

`Inv pend s` ties the trace (newest first) to the registration state: the context list is
exactly the set of contexts that were accepted and not yet closed, every table of every
back-end only names registered contexts, and the trace so far is well formed
(`LoopWF`: callbacks only on registered, not yet closed contexts; at most one add per
context; no clear/exit inside the loop). `pend = some c` is the short window between
`cb_close c` and the unregistration of `c`.
-/
namespace MgProof.C13
open MgModel.C13

def Registered (tr : List Ev) (c : Nat) : Prop := Ev.addOk c ∈ tr ∧ Ev.close c ∉ tr

/-- may event `e` come next after the (newest-first) trace `tr`, inside the back-end loop? -/
def okNext (tr : List Ev) : Ev → Prop
  | .addOk c => Ev.addOk c ∉ tr ∧ Ev.addRej c ∉ tr
  | .addRej c => Ev.addOk c ∉ tr ∧ Ev.addRej c ∉ tr
  | .read c _ _ => Registered tr c
  | .close c => Registered tr c
  | .clear _ => False
  | .exit => False
  | _ => True

def LoopWF : List Ev → Prop
  | [] => True
  | e :: tr => okNext tr e ∧ LoopWF tr

structure Inv (pend : Option Nat) (s : St) : Prop where
  nodupL : s.ctxList.Nodup
  sound : ∀ c ∈ s.ctxList, Ev.addOk c ∈ s.trace ∧ (Ev.close c ∈ s.trace → pend = some c)
  complete : ∀ c, Ev.addOk c ∈ s.trace → Ev.close c ∉ s.trace → c ∈ s.ctxList
  triedOk : ∀ c, (Ev.addOk c ∈ s.trace ∨ Ev.addRej c ∈ s.trace) → s.tried c = true
  wf : LoopWF s.trace
  pNodup : (s.ptab.map (·.node)).Nodup
  pMem : ∀ e ∈ s.ptab, e.node ∈ s.ctxList
  eNodup : s.epReg.Nodup
  eMem : ∀ c ∈ s.epReg, c ∈ s.ctxList
  aNodup : s.armed.Nodup
  aMem : ∀ c, Src.ctx c ∈ s.armed → c ∈ s.epReg
  pOnly : s.backend ≠ .poll → s.ptab = []
  eOnly : s.backend ≠ .epoll → s.epReg = []

/-- in a well-formed trace a closed context was accepted before -/
theorem close_mem_addOk {tr : List Ev} (h : LoopWF tr) {c : Nat} (hc : Ev.close c ∈ tr) :
    Ev.addOk c ∈ tr := by
  induction tr with
  | nil => simp at hc
  | cons e tr ih =>
    simp at hc
    rcases hc with hc | hc
    · subst hc
      exact List.mem_cons_of_mem _ h.1.1
    · exact List.mem_cons_of_mem _ (ih h.2 hc)

/-- states that agree on everything the invariant looks at -/
theorem Inv.congr {pend : Option Nat} {s t : St} (h : Inv pend s) (h0 : t.backend = s.backend)
    (h1 : t.ctxList = s.ctxList) (h2 : t.trace = s.trace) (h3 : t.tried = s.tried)
    (h4 : t.ptab = s.ptab) (h5 : t.epReg = s.epReg) (h6 : t.armed = s.armed) : Inv pend t := by
  constructor
  · rw [h1]; exact h.nodupL
  · rw [h1, h2]; exact h.sound
  · rw [h1, h2]; exact h.complete
  · rw [h2, h3]; exact h.triedOk
  · rw [h2]; exact h.wf
  · rw [h4]; exact h.pNodup
  · rw [h4, h1]; exact h.pMem
  · rw [h5]; exact h.eNodup
  · rw [h5, h1]; exact h.eMem
  · rw [h6]; exact h.aNodup
  · rw [h6, h5]; exact h.aMem
  · rw [h0, h4]; exact h.pOnly
  · rw [h0, h5]; exact h.eOnly

/-! ### kernel side effects keep the invariant -/

theorem arm_inv {pend} {s : St} (c : Nat) (h : Inv pend s) : Inv pend (arm c s) := by
  unfold arm
  split
  · rename_i hc
    simp only [Bool.and_eq_true, Bool.not_eq_eq_eq_not, Bool.not_true] at hc
    have hreg : c ∈ s.epReg := by simpa using hc.1
    have hna : Src.ctx c ∉ s.armed := by simpa using hc.2
    constructor <;> try exact h.nodupL
    · exact h.sound
    · exact h.complete
    · exact h.triedOk
    · exact h.wf
    · exact h.pNodup
    · exact h.pMem
    · exact h.eNodup
    · exact h.eMem
    · show (s.armed ++ [Src.ctx c]).Nodup
      rw [List.nodup_append]
      refine ⟨h.aNodup, by simp, ?_⟩
      intro a ha b hb
      simp at hb
      subst hb
      intro hab; subst hab; exact hna ha
    · intro c' hc'
      have : Src.ctx c' ∈ s.armed ++ [Src.ctx c] := hc'
      simp at this
      rcases this with h' | h'
      · exact h.aMem c' h'
      · subst h'; exact hreg
    · exact h.pOnly
    · exact h.eOnly
  · exact h

theorem armSig_inv {pend} {s : St} (h : Inv pend s) : Inv pend (armSig s) := by
  unfold armSig
  split
  · rename_i hc
    simp only [Bool.and_eq_true, Bool.not_eq_eq_eq_not, Bool.not_true] at hc
    have hna : Src.sig ∉ s.armed := by simpa using hc.2
    constructor <;> try exact h.nodupL
    · exact h.sound
    · exact h.complete
    · exact h.triedOk
    · exact h.wf
    · exact h.pNodup
    · exact h.pMem
    · exact h.eNodup
    · exact h.eMem
    · show (s.armed ++ [Src.sig]).Nodup
      rw [List.nodup_append]
      refine ⟨h.aNodup, by simp, ?_⟩
      intro a ha b hb
      simp at hb
      subst hb
      intro hab; subst hab; exact hna ha
    · intro c' hc'
      have : Src.ctx c' ∈ s.armed ++ [Src.sig] := hc'
      simp at this
      exact h.aMem c' this
    · exact h.pOnly
    · exact h.eOnly
  · exact h

theorem setDesc_inv {pend} {s : St} (c : Nat) (r : Desc × Bool) (h : Inv pend s) :
    Inv pend (setDesc c r s) := by
  unfold setDesc
  have h' : Inv pend { s with ds := upd s.ds c r.1 } := h.congr rfl rfl rfl rfl rfl rfl rfl
  split
  · exact arm_inv c h'
  · exact h'

theorem sigWakeup_inv {pend} {s : St} (h : Inv pend s) : Inv pend (sigWakeup s) := by
  unfold sigWakeup
  exact armSig_inv (h.congr rfl rfl rfl rfl rfl rfl rfl)

/-! ### muggle_evloop_add_ctx -/

theorem mem_cons_ne {e e' : Ev} {tr : List Ev} (h : e ∈ e' :: tr) (hne : e ≠ e') : e ∈ tr := by
  simp at h
  rcases h with h | h
  · exact absurd h hne
  · exact h

/-- appending a fresh accepted context -/
theorem inv_addOk {pend} {s t : St} {c : Nat} (h : Inv pend s) (hc : s.tried c = false)
    (h1 : t.ctxList = s.ctxList ++ [c]) (h2 : t.trace = Ev.addOk c :: s.trace)
    (h3 : t.tried = upd s.tried c true)
    (h4 : t.ptab = s.ptab ∨ (s.backend = .poll ∧ ∃ fd rev, t.ptab = s.ptab ++ [⟨c, fd, rev⟩]))
    (h5 : t.epReg = s.epReg ∨ (s.backend = .epoll ∧ t.epReg = s.epReg ++ [c]))
    (h6 : t.armed = s.armed) (h0 : t.backend = s.backend) : Inv pend t := by
  have hnOk : Ev.addOk c ∉ s.trace := fun hh => by
    have := h.triedOk c (Or.inl hh); simp [hc] at this
  have hnRej : Ev.addRej c ∉ s.trace := fun hh => by
    have := h.triedOk c (Or.inr hh); simp [hc] at this
  have hcl : c ∉ s.ctxList := fun hh => hnOk (h.sound c hh).1
  constructor
  · rw [h1, List.nodup_append]
    refine ⟨h.nodupL, by simp, ?_⟩
    intro a ha b hb
    simp at hb; subst hb
    intro hab; subst hab; exact hcl ha
  · intro c' hc'
    rw [h1] at hc'
    rw [h2]
    simp at hc'
    rcases hc' with hc' | hc'
    · have := h.sound c' hc'
      exact ⟨List.mem_cons_of_mem _ this.1, fun hcl' => this.2 (mem_cons_ne hcl' (by simp))⟩
    · subst hc'
      refine ⟨by simp, fun hcl' => ?_⟩
      have hcl'' : Ev.close c' ∈ s.trace := mem_cons_ne hcl' (by simp)
      -- a close in the trace means it was registered before: contradiction with freshness
      exact absurd (close_mem_addOk h.wf hcl'') hnOk
  · intro c' hok hncl
    rw [h2] at hok hncl
    rw [h1]
    simp at hok
    rcases hok with hok | hok
    · subst hok; simp
    · have : Ev.close c' ∉ s.trace := fun hh => hncl (List.mem_cons_of_mem _ hh)
      simp [h.complete c' hok this]
  · intro c' hh
    rw [h2] at hh
    rw [h3]
    by_cases hcc : c' = c
    · subst hcc; simp [upd]
    · have : Ev.addOk c' ∈ s.trace ∨ Ev.addRej c' ∈ s.trace := by
        rcases hh with hh | hh
        · exact Or.inl (mem_cons_ne hh (by simp [hcc]))
        · exact Or.inr (mem_cons_ne hh (by simp))
      simp [upd, hcc, h.triedOk c' this]
  · rw [h2]; exact ⟨⟨hnOk, hnRej⟩, h.wf⟩
  · rcases h4 with h4 | ⟨hb, fd, rev, h4⟩
    · rw [h4]; exact h.pNodup
    · rw [h4, List.map_append, List.nodup_append]
      refine ⟨h.pNodup, by simp, ?_⟩
      intro a ha b hb
      simp at hb; subst hb
      intro hab; subst hab
      simp at ha
      obtain ⟨e, he, hen⟩ := ha
      exact hcl (hen ▸ h.pMem e he)
  · intro e he
    rw [h1]
    rcases h4 with h4 | ⟨hb, fd, rev, h4⟩
    · rw [h4] at he; simp [h.pMem e he]
    · rw [h4] at he
      simp at he
      rcases he with he | he
      · simp [h.pMem e he]
      · subst he; simp
  · rcases h5 with h5 | ⟨hb, h5⟩
    · rw [h5]; exact h.eNodup
    · rw [h5, List.nodup_append]
      refine ⟨h.eNodup, by simp, ?_⟩
      intro a ha b hb
      simp at hb; subst hb
      intro hab; subst hab
      exact hcl (h.eMem _ ha)
  · intro c' hc'
    rw [h1]
    rcases h5 with h5 | ⟨hb, h5⟩
    · rw [h5] at hc'; simp [h.eMem c' hc']
    · rw [h5] at hc'
      simp at hc'
      rcases hc' with hc' | hc'
      · simp [h.eMem c' hc']
      · subst hc'; simp
  · rw [h6]; exact h.aNodup
  · intro c' hc'
    rw [h6] at hc'
    have := h.aMem c' hc'
    rcases h5 with h5 | ⟨hb, h5⟩ <;> rw [h5] <;> simp [this]
  · intro hb
    rw [h0] at hb
    rcases h4 with h4 | ⟨hb', _⟩
    · rw [h4]; exact h.pOnly hb
    · exact absurd hb' hb
  · intro hb
    rw [h0] at hb
    rcases h5 with h5 | ⟨hb', _⟩
    · rw [h5]; exact h.eOnly hb
    · exact absurd hb' hb

/-- a rejected add: only `tried` and the trace change -/
theorem inv_addRej {pend} {s t : St} {c : Nat} (h : Inv pend s) (hc : s.tried c = false)
    (h1 : t.ctxList = s.ctxList) (h2 : t.trace = Ev.addRej c :: s.trace)
    (h3 : t.tried = upd s.tried c true) (h4 : t.ptab = s.ptab) (h5 : t.epReg = s.epReg)
    (h6 : t.armed = s.armed) (h0 : t.backend = s.backend) : Inv pend t := by
  have hnOk : Ev.addOk c ∉ s.trace := fun hh => by
    have := h.triedOk c (Or.inl hh); simp [hc] at this
  have hnRej : Ev.addRej c ∉ s.trace := fun hh => by
    have := h.triedOk c (Or.inr hh); simp [hc] at this
  constructor
  · rw [h1]; exact h.nodupL
  · intro c' hc'
    rw [h1] at hc'; rw [h2]
    have := h.sound c' hc'
    exact ⟨List.mem_cons_of_mem _ this.1, fun hcl' => this.2 (mem_cons_ne hcl' (by simp))⟩
  · intro c' hok hncl
    rw [h2] at hok hncl; rw [h1]
    exact h.complete c' (mem_cons_ne hok (by simp)) (fun hh => hncl (List.mem_cons_of_mem _ hh))
  · intro c' hh
    rw [h2] at hh; rw [h3]
    by_cases hcc : c' = c
    · subst hcc; simp [upd]
    · have : Ev.addOk c' ∈ s.trace ∨ Ev.addRej c' ∈ s.trace := by
        rcases hh with hh | hh
        · exact Or.inl (mem_cons_ne hh (by simp))
        · exact Or.inr (mem_cons_ne hh (by simp [hcc]))
      simp [upd, hcc, h.triedOk c' this]
  · rw [h2]; exact ⟨⟨hnOk, hnRej⟩, h.wf⟩
  · rw [h4]; exact h.pNodup
  · rw [h4, h1]; exact h.pMem
  · rw [h5]; exact h.eNodup
  · rw [h5, h1]; exact h.eMem
  · rw [h6]; exact h.aNodup
  · rw [h6, h5]; exact h.aMem
  · rw [h0, h4]; exact h.pOnly
  · rw [h0, h5]; exact h.eOnly

theorem addCtx_inv {pend} {s : St} (c : Nat) (h : Inv pend s) : Inv pend (addCtx c s) := by
  unfold addCtx
  split
  · exact h
  · rename_i hc
    have htr : s.tried c = false := by
      cases ht : s.tried c <;> simp_all
    cases hb : s.backend with
    | select =>
      simp only []
      exact inv_addOk h htr rfl rfl rfl (Or.inl rfl) (Or.inl rfl) rfl hb.symm
    | poll =>
      simp only []
      split
      · exact inv_addRej h htr rfl rfl rfl rfl rfl rfl hb.symm
      · exact inv_addOk h htr rfl rfl rfl (Or.inr ⟨hb, c, _, rfl⟩) (Or.inl rfl) rfl hb.symm
    | epoll =>
      simp only []
      have h0 : Inv pend { s with backend := .epoll, tried := upd s.tried c true, ctxList := s.ctxList ++ [c],
                                  epReg := s.epReg ++ [c], trace := Ev.addOk c :: s.trace } :=
        inv_addOk h htr rfl rfl rfl (Or.inl rfl) (Or.inr ⟨hb, rfl⟩) rfl hb.symm
      split
      · have := arm_inv c h0
        exact this.congr (by simp [emit, arm]; split <;> rfl) (by simp [emit, arm]; split <;> rfl) (by simp [emit, arm]; split <;> rfl)
          (by simp [emit, arm]; split <;> rfl) (by simp [emit, arm]; split <;> rfl)
          (by simp [emit, arm]; split <;> rfl) (by simp [emit, arm]; split <;> rfl)
      · exact h0.congr rfl rfl rfl rfl rfl rfl rfl

theorem act_inv {pend} {s : St} (a : Act) (h : Inv pend s) : Inv pend (act a s) := by
  cases a with
  | write d n => simp only [act]; split; exact setDesc_inv _ _ h; exact h
  | hclose d => simp only [act]; split; exact setDesc_inv _ _ h; exact h
  | pclose d => simp only [act]; split; exact setDesc_inv _ _ h; exact h
  | add d => exact addCtx_inv d h
  | shut d =>
    simp only [act]; split
    · exact setDesc_inv _ _ (h.congr rfl rfl rfl rfl rfl rfl rfl)
    · exact h
  | wakeup => exact sigWakeup_inv h
  | exit => exact sigWakeup_inv (h.congr rfl rfl rfl rfl rfl rfl rfl)
  | xexit => exact sigWakeup_inv (h.congr rfl rfl rfl rfl rfl rfl rfl)

theorem runActs_inv {pend} (as : List Act) {s : St} (h : Inv pend s) : Inv pend (runActs as s) := by
  unfold runActs
  induction as generalizing s with
  | nil => exact h
  | cons a as ih => exact ih (act_inv a h)

/-! ### emitting events -/

/-- an event that neither registers nor closes anything and is allowed next -/
theorem inv_emit_of {pend} {s : St} {e : Ev} (h : Inv pend s)
    (h1 : ∀ c, e ≠ .addOk c) (h2 : ∀ c, e ≠ .addRej c) (h3 : ∀ c, e ≠ .close c)
    (hok : okNext s.trace e) : Inv pend (emit e s) := by
  constructor
  · exact h.nodupL
  · intro c hc
    have := h.sound c hc
    exact ⟨List.mem_cons_of_mem _ this.1, fun hh => this.2 (mem_cons_ne hh (h3 c).symm)⟩
  · intro c hok' hncl
    exact h.complete c (mem_cons_ne hok' (h1 c).symm)
      (fun hh => hncl (List.mem_cons_of_mem _ hh))
  · intro c hh
    refine h.triedOk c ?_
    rcases hh with hh | hh
    · exact Or.inl (mem_cons_ne hh (h1 c).symm)
    · exact Or.inr (mem_cons_ne hh (h2 c).symm)
  · exact ⟨hok, h.wf⟩
  · exact h.pNodup
  · exact h.pMem
  · exact h.eNodup
  · exact h.eMem
  · exact h.aNodup
  · exact h.aMem
  · exact h.pOnly
  · exact h.eOnly

theorem registered_of_mem {s : St} (h : Inv none s) {c : Nat} (hc : c ∈ s.ctxList) :
    Registered s.trace c := by
  have := h.sound c hc
  exact ⟨this.1, fun hh => by simpa using this.2 hh⟩

theorem emit_read_inv {s : St} (h : Inv none s) {c : Nat} (hc : c ∈ s.ctxList) (n : Nat) (e : Bool) :
    Inv none (emit (.read c n e) s) :=
  inv_emit_of h (by simp) (by simp) (by simp) (registered_of_mem h hc)

theorem emit_close_inv {s : St} (h : Inv none s) {c : Nat} (hc : c ∈ s.ctxList) :
    Inv (some c) (emit (.close c) s) := by
  have hreg := registered_of_mem h hc
  constructor
  · exact h.nodupL
  · intro c' hc'
    have := h.sound c' hc'
    refine ⟨List.mem_cons_of_mem _ this.1, fun hh => ?_⟩
    have hh' : Ev.close c' ∈ Ev.close c :: s.trace := hh
    simp at hh'
    rcases hh' with hh' | hh'
    · rw [hh']
    · exact absurd (this.2 hh') (by simp)
  · intro c' hok hncl
    exact h.complete c' (mem_cons_ne hok (by simp)) (fun hh => hncl (List.mem_cons_of_mem _ hh))
  · intro c' hh
    refine h.triedOk c' ?_
    rcases hh with hh | hh
    · exact Or.inl (mem_cons_ne hh (by simp))
    · exact Or.inr (mem_cons_ne hh (by simp))
  · exact ⟨hreg, h.wf⟩
  · exact h.pNodup
  · exact h.pMem
  · exact h.eNodup
  · exact h.eMem
  · exact h.aNodup
  · exact h.aMem
  · exact h.pOnly
  · exact h.eOnly

/-! ### what callbacks can do to the tables: only extend them -/

structure Ext (s t : St) : Prop where
  ctx : ∃ l, t.ctxList = s.ctxList ++ l
  tr : ∃ l, t.trace = l ++ s.trace
  ptab : ∃ l, t.ptab = s.ptab ++ l
  backend : t.backend = s.backend

theorem Ext.refl (s : St) : Ext s s := ⟨⟨[], by simp⟩, ⟨[], by simp⟩, ⟨[], by simp⟩, rfl⟩

theorem Ext.trans {s t u : St} (a : Ext s t) (b : Ext t u) : Ext s u := by
  obtain ⟨⟨l1, h1⟩, ⟨l2, h2⟩, ⟨l3, h3⟩, h4⟩ := a
  obtain ⟨⟨m1, g1⟩, ⟨m2, g2⟩, ⟨m3, g3⟩, g4⟩ := b
  exact ⟨⟨l1 ++ m1, by rw [g1, h1, List.append_assoc]⟩, ⟨m2 ++ l2, by rw [g2, h2, List.append_assoc]⟩,
    ⟨l3 ++ m3, by rw [g3, h3, List.append_assoc]⟩, by rw [g4, h4]⟩

theorem Ext.of_eq {s t : St} (h1 : t.ctxList = s.ctxList) (h2 : t.trace = s.trace)
    (h3 : t.ptab = s.ptab) (h4 : t.backend = s.backend) : Ext s t :=
  ⟨⟨[], by simp [h1]⟩, ⟨[], by simp [h2]⟩, ⟨[], by simp [h3]⟩, h4⟩

theorem arm_ext (c : Nat) (s : St) : Ext s (arm c s) := by
  unfold arm; split
  · exact Ext.of_eq rfl rfl rfl rfl
  · exact Ext.refl s

theorem armSig_ext (s : St) : Ext s (armSig s) := by
  unfold armSig; split
  · exact Ext.of_eq rfl rfl rfl rfl
  · exact Ext.refl s

theorem setDesc_ext (c : Nat) (r : Desc × Bool) (s : St) : Ext s (setDesc c r s) := by
  unfold setDesc
  have h0 : Ext s { s with ds := upd s.ds c r.1 } := Ext.of_eq rfl rfl rfl rfl
  split
  · exact h0.trans (arm_ext _ _)
  · exact h0

theorem emit_ext (e : Ev) (s : St) : Ext s (emit e s) :=
  ⟨⟨[], by simp [emit]⟩, ⟨[e], by simp [emit]⟩, ⟨[], by simp [emit]⟩, rfl⟩

theorem addCtx_ext (c : Nat) (s : St) : Ext s (addCtx c s) := by
  unfold addCtx
  split
  · exact Ext.refl s
  · cases hb : s.backend with
    | select =>
      exact ⟨⟨[c], by simp [emit, selSetFd]⟩, ⟨[.addOk c], by simp [emit, selSetFd]⟩,
        ⟨[], by simp [emit, selSetFd]⟩, by simp [emit, selSetFd, hb]⟩
    | poll =>
      simp only []
      split
      · exact ⟨⟨[], by simp [emit]⟩, ⟨[.addRej c], by simp [emit]⟩, ⟨[], by simp [emit]⟩,
          by simp [emit, hb]⟩
      · exact ⟨⟨[c], by simp [emit]⟩, ⟨[.addOk c], by simp [emit]⟩, ⟨[_], by simp [emit]; rfl⟩,
          by simp [emit, hb]⟩
    | epoll =>
      simp only []
      split
      · refine ⟨⟨[c], ?_⟩, ⟨[.addOk c], ?_⟩, ⟨[], ?_⟩, ?_⟩ <;> simp [emit, arm] <;> split <;> simp [hb]
      · exact ⟨⟨[c], by simp [emit]⟩, ⟨[.addOk c], by simp [emit]⟩, ⟨[], by simp [emit]⟩,
          by simp [emit, hb]⟩

theorem sigWakeup_ext (s : St) : Ext s (sigWakeup s) := by
  unfold sigWakeup
  exact (Ext.of_eq (s := s) (t := { s with evc := s.evc + 1 }) rfl rfl rfl rfl).trans (armSig_ext _)

theorem act_ext (a : Act) (s : St) : Ext s (act a s) := by
  cases a with
  | write d n => simp only [act]; split; exact setDesc_ext _ _ _; exact Ext.refl s
  | hclose d => simp only [act]; split; exact setDesc_ext _ _ _; exact Ext.refl s
  | pclose d => simp only [act]; split; exact setDesc_ext _ _ _; exact Ext.refl s
  | add d => exact addCtx_ext d s
  | shut d =>
    simp only [act]; split
    · exact (Ext.of_eq (s := s) (t := { s with flag := upd s.flag d true }) rfl rfl rfl rfl).trans
        (setDesc_ext _ _ _)
    · exact Ext.refl s
  | wakeup => exact sigWakeup_ext s
  | exit =>
    exact (Ext.of_eq (s := s) (t := { s with toExit := 1 }) rfl rfl rfl rfl).trans (sigWakeup_ext _)
  | xexit =>
    exact (Ext.of_eq (s := s) (t := { s with toExit := 2 }) rfl rfl rfl rfl).trans (sigWakeup_ext _)

theorem runActs_ext (as : List Act) (s : St) : Ext s (runActs as s) := by
  unfold runActs
  induction as generalizing s with
  | nil => exact Ext.refl s
  | cons a as ih => exact (act_ext a s).trans (ih _)

theorem Ext.mem_ctx {s t : St} (h : Ext s t) {c : Nat} (hc : c ∈ s.ctxList) : c ∈ t.ctxList := by
  obtain ⟨l, hl⟩ := h.ctx; rw [hl]; simp [hc]

theorem Ext.mem_tr {s t : St} (h : Ext s t) {e : Ev} (hc : e ∈ s.trace) : e ∈ t.trace := by
  obtain ⟨l, hl⟩ := h.tr; rw [hl]; simp [hc]

theorem Ext.ctx_get {s t : St} (h : Ext s t) {i c : Nat} (hc : s.ctxList[i]? = some c) :
    t.ctxList[i]? = some c := by
  obtain ⟨l, hl⟩ := h.ctx
  rw [hl]
  have hi : i < s.ctxList.length := by
    rcases Nat.lt_or_ge i s.ctxList.length with h' | h'
    · exact h'
    · rw [List.getElem?_eq_none h'] at hc; cases hc
  rw [List.getElem?_append_left hi]; exact hc

theorem Ext.ptab_get {s t : St} (h : Ext s t) {i : Nat} {e : PEnt} (hc : s.ptab[i]? = some e) :
    t.ptab[i]? = some e := by
  obtain ⟨l, hl⟩ := h.ptab
  rw [hl]
  have hi : i < s.ptab.length := by
    rcases Nat.lt_or_ge i s.ptab.length with h' | h'
    · exact h'
    · rw [List.getElem?_eq_none h'] at hc; cases hc
  rw [List.getElem?_append_left hi]; exact hc

/-! ### callbacks -/

theorem cbRead_inv (sc : Script) {s : St} (h : Inv none s) {c : Nat} (hc : c ∈ s.ctxList) :
    Inv none (cbRead sc c s) := by
  unfold cbRead
  apply runActs_inv
  refine emit_read_inv ?_ ?_ _ _
  · exact h.congr rfl rfl rfl rfl rfl rfl rfl
  · exact hc

theorem cbRead_ext (sc : Script) (c : Nat) (s : St) : Ext s (cbRead sc c s) := by
  unfold cbRead
  refine Ext.trans ?_ (runActs_ext _ _)
  refine Ext.trans ?_ (emit_ext _ _)
  exact Ext.of_eq rfl rfl rfl rfl

/-- `cbClose` is the callback proper followed, in the `closeFd` configuration, by the
descriptor being closed — a field no table looks at -/
theorem cbClose_eq (sc : Script) (c : Nat) (s : St) :
    cbClose sc c s = runActs (sc.onClose c) (emit (.close c) s) ∨
    cbClose sc c s = { runActs (sc.onClose c) (emit (.close c) s) with
      fdClosed := upd (runActs (sc.onClose c) (emit (.close c) s)).fdClosed c true } := by
  unfold cbClose
  simp only []
  split
  · exact Or.inr rfl
  · exact Or.inl rfl

theorem cbClose_inv (sc : Script) {s : St} (h : Inv none s) {c : Nat} (hc : c ∈ s.ctxList) :
    Inv (some c) (cbClose sc c s) := by
  have h1 : Inv (some c) (runActs (sc.onClose c) (emit (.close c) s)) := runActs_inv _ (emit_close_inv h hc)
  rcases cbClose_eq sc c s with he | he <;> rw [he]
  · exact h1
  · exact h1.congr rfl rfl rfl rfl rfl rfl rfl

theorem cbClose_ext (sc : Script) (c : Nat) (s : St) : Ext s (cbClose sc c s) := by
  have h1 : Ext s (runActs (sc.onClose c) (emit (.close c) s)) := (emit_ext _ _).trans (runActs_ext _ _)
  rcases cbClose_eq sc c s with he | he <;> rw [he]
  · exact h1
  · exact h1.trans (Ext.of_eq rfl rfl rfl rfl)

theorem cbClose_closed (sc : Script) (c : Nat) (s : St) : Ev.close c ∈ (cbClose sc c s).trace := by
  have h1 : Ev.close c ∈ (runActs (sc.onClose c) (emit (.close c) s)).trace :=
    (runActs_ext _ _).mem_tr (by simp [emit])
  rcases cbClose_eq sc c s with he | he <;> rw [he] <;> exact h1

theorem handleWake_inv (sc : Script) {pend} {s : St} (h : Inv pend s) : Inv pend (handleWake sc s) := by
  unfold handleWake
  have h1 : Inv pend (runActs (sc.onWake s.nWake)
      (emit .wake { s with evc := 0, nWake := s.nWake + 1 })) := by
    apply runActs_inv
    exact inv_emit_of (h.congr rfl rfl rfl rfl rfl rfl rfl) (by simp) (by simp) (by simp) trivial
  simp only []
  split
  · exact h1.congr rfl rfl rfl rfl rfl rfl rfl
  · exact h1

theorem handleWake_ext (sc : Script) (s : St) : Ext s (handleWake sc s) := by
  unfold handleWake
  have h1 : Ext s (runActs (sc.onWake s.nWake)
      (emit .wake { s with evc := 0, nWake := s.nWake + 1 })) := by
    refine Ext.trans ?_ (runActs_ext _ _)
    refine Ext.trans ?_ (emit_ext _ _)
    exact Ext.of_eq rfl rfl rfl rfl
  simp only []
  split
  · exact h1.trans (Ext.of_eq rfl rfl rfl rfl)
  · exact h1

theorem idle_inv (sc : Script) {pend} {s : St} (h : Inv pend s) : Inv pend (idle sc s) := by
  unfold idle
  have h1 : Inv pend (emit (.sleep (s.ctxList.any fun c => (s.ds c).readable))
      { s with nIdle := s.nIdle + 1 }) :=
    inv_emit_of (h.congr rfl rfl rfl rfl rfl rfl rfl) (by simp) (by simp) (by simp) trivial
  simp only []
  split
  · exact runActs_inv _ h1
  · exact act_inv _ h1

theorem idle_backend (sc : Script) (s : St) : (idle sc s).backend = s.backend := by
  unfold idle
  simp only []
  split
  · rw [(runActs_ext _ _).backend]; rfl
  · rw [(act_ext _ _).backend]; rfl

/-- unregistration of the context whose `cb_close` has just run -/
theorem inv_remove {s t : St} {c : Nat} (h : Inv (some c) s) (hcl : Ev.close c ∈ s.trace)
    (h0 : t.backend = s.backend) (h1 : t.ctxList = s.ctxList.erase c) (h2 : t.trace = s.trace)
    (h3 : t.tried = s.tried)
    (h4 : (t.ptab.map (·.node)).Nodup ∧ ∀ e ∈ t.ptab, e.node ≠ c ∧ ∃ e' ∈ s.ptab, e'.node = e.node)
    (h4' : s.ptab = [] → t.ptab = [])
    (h5 : t.epReg = s.epReg) (h5' : c ∉ s.epReg) (h6 : t.armed = s.armed) : Inv none t := by
  constructor
  · rw [h1]; exact h.nodupL.erase c
  · intro c' hc'
    rw [h1] at hc'
    have hne : c' ≠ c := fun hh => by
      subst hh; exact (h.nodupL.not_mem_erase) hc'
    have hm : c' ∈ s.ctxList := List.mem_of_mem_erase hc'
    have := h.sound c' hm
    rw [h2]
    refine ⟨this.1, fun hh => ?_⟩
    have := this.2 hh
    simp at this
    exact absurd this.symm hne
  · intro c' hok hncl
    rw [h2] at hok hncl
    rw [h1]
    have hne : c' ≠ c := fun hh => by subst hh; exact hncl hcl
    exact (List.mem_erase_of_ne hne).mpr (h.complete c' hok hncl)
  · rw [h2, h3]; exact h.triedOk
  · rw [h2]; exact h.wf
  · exact h4.1
  · intro e he
    obtain ⟨hne, e', he', hee⟩ := h4.2 e he
    rw [h1, ← hee]
    exact (List.mem_erase_of_ne (by rw [hee]; exact hne)).mpr (h.pMem e' he')
  · rw [h5]; exact h.eNodup
  · intro c' hc'
    rw [h5] at hc'
    rw [h1]
    have hne : c' ≠ c := fun hh => by subst hh; exact h5' hc'
    exact (List.mem_erase_of_ne hne).mpr (h.eMem c' hc')
  · rw [h6]; exact h.aNodup
  · rw [h6, h5]; exact h.aMem
  · intro hb; rw [h0] at hb; exact h4' (h.pOnly hb)
  · rw [h0, h5]; exact h.eOnly

end MgProof.C13
