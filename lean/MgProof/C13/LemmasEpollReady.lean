import MgProof.C13.LemmasEpoll
import MgProof.C13.LemmasReady
/-!
# C13 — clause 2 for epoll, under the documented contract of an edge-triggered consumer
(every read callback drains)

`EInv cur rest s`: every registered context that is readable is either in the kernel's
ready list (`armed`), or still waiting in the batch being dispatched (`rest`), or is the
context being visited right now (`cur`).
-/
namespace MgProof.C13
open MgModel.C13

/-- sockets report `HUP` only together with end-of-stream -/
def HupEof (d : Desc) : Prop := d.hup = true → d.eof = true

theorem write_hupEof {d : Desc} (n : Nat) (h : HupEof d) : HupEof (d.write n).1 := by
  unfold Desc.write
  split
  · exact h
  · split
    · split
      · split
        · exact h
        · exact h
      · exact h
    · exact h

theorem hclose_hupEof {d : Desc} (h : HupEof d) : HupEof d.hclose.1 := by
  unfold Desc.hclose
  split
  · exact h
  · intro _; rfl

theorem pclose_hupEof {d : Desc} (h : HupEof d) : HupEof d.pclose.1 := by
  unfold Desc.pclose
  split
  · split
    · exact h
    · intro _; rfl
  · split
    · exact h
    · intro _; rfl
  · split
    · exact h
    · intro _; rfl

theorem shutdown_hupEof {d : Desc} (h : HupEof d) : HupEof d.shutdown.1 := by
  unfold Desc.shutdown
  split
  · exact h
  · split
    · exact h
    · intro _; rfl

/-- an operation that does not wake the read end does not change the descriptor -/
theorem write_noedge {d : Desc} {n : Nat} (h : (d.write n).2 = false) : (d.write n).1 = d := by
  unfold Desc.write at h ⊢
  split
  · rfl
  · split
    · split
      · split
        · rfl
        · simp_all
      · rfl
    · simp_all

theorem hclose_noedge {d : Desc} (h : d.hclose.2 = false) : d.hclose.1 = d := by
  unfold Desc.hclose at h ⊢
  split
  · rfl
  · simp_all

theorem pclose_noedge {d : Desc} (h : d.pclose.2 = false) : d.pclose.1 = d := by
  unfold Desc.pclose at h ⊢
  split <;> split <;> simp_all

theorem shutdown_noedge {d : Desc} (h : d.shutdown.2 = false) : d.shutdown.1 = d := by
  unfold Desc.shutdown at h ⊢
  split
  · rfl
  · split
    · rfl
    · simp_all

structure EInv (cur : Option Nat) (rest : List Nat) (s : St) : Prop where
  backend : s.backend = .epoll
  reg : ∀ c ∈ s.ctxList, c ∈ s.epReg ∨ cur = some c
  ready : ∀ c ∈ s.ctxList, cur ≠ some c → (s.ds c).mask.any = true → Src.ctx c ∈ s.armed ∨ c ∈ rest
  hupEof : ∀ c, HupEof (s.ds c)
  noLost : NoLost s.trace

theorem EInv.congr {cur rest} {s t : St} (h : EInv cur rest s) (h0 : t.backend = s.backend)
    (h1 : t.ctxList = s.ctxList) (h2 : t.trace = s.trace) (h3 : t.ds = s.ds)
    (h5 : t.epReg = s.epReg) (h6 : t.armed = s.armed) : EInv cur rest t :=
  ⟨by rw [h0]; exact h.backend, by rw [h1, h5]; exact h.reg, by rw [h1, h3, h6]; exact h.ready,
   by rw [h3]; exact h.hupEof, by rw [h2]; exact h.noLost⟩

theorem arm_einv {cur rest} {s : St} (c : Nat) (h : EInv cur rest s) : EInv cur rest (arm c s) := by
  unfold arm; split
  · refine ⟨h.backend, h.reg, ?_, h.hupEof, h.noLost⟩
    intro c' hc' hne hm
    rcases h.ready c' hc' hne hm with h' | h'
    · exact Or.inl (by show _ ∈ s.armed ++ _; simp [h'])
    · exact Or.inr h'
  · exact h

theorem armSig_einv {cur rest} {s : St} (h : EInv cur rest s) : EInv cur rest (armSig s) := by
  unfold armSig; split
  · refine ⟨h.backend, h.reg, ?_, h.hupEof, h.noLost⟩
    intro c' hc' hne hm
    rcases h.ready c' hc' hne hm with h' | h'
    · exact Or.inl (by show _ ∈ s.armed ++ _; simp [h'])
    · exact Or.inr h'
  · exact h

/-- after `arm c` a registered `c` is in the ready list -/
theorem arm_mem {s : St} {c : Nat} (hc : c ∈ s.epReg) : Src.ctx c ∈ (arm c s).armed := by
  unfold arm
  split
  · show _ ∈ s.armed ++ _; simp
  · rename_i hh
    simp only [Bool.and_eq_true, Bool.not_eq_eq_eq_not, Bool.not_true, not_and] at hh
    have := hh (by simpa using hc)
    simpa using this

theorem arm_fields (c : Nat) (s : St) :
    (arm c s).ctxList = s.ctxList ∧ (arm c s).ds = s.ds ∧ (arm c s).trace = s.trace ∧
    (arm c s).epReg = s.epReg ∧ (arm c s).backend = s.backend ∧ (arm c s).flag = s.flag := by
  unfold arm; split <;> exact ⟨rfl, rfl, rfl, rfl, rfl, rfl⟩

theorem armSig_fields (s : St) :
    (armSig s).ctxList = s.ctxList ∧ (armSig s).ds = s.ds ∧ (armSig s).trace = s.trace ∧
    (armSig s).epReg = s.epReg ∧ (armSig s).backend = s.backend ∧ (armSig s).flag = s.flag := by
  unfold armSig; split <;> exact ⟨rfl, rfl, rfl, rfl, rfl, rfl⟩

theorem arm_armed_mono {s : St} (c : Nat) {x : Src} (h : x ∈ s.armed) : x ∈ (arm c s).armed := by
  unfold arm; split
  · show _ ∈ s.armed ++ _; simp [h]
  · exact h

/-- a kernel operation on descriptor `d`: if it does not wake the read end nothing changes -/
theorem setDesc_einv {cur rest} {s : St} (d : Nat) (r : Desc × Bool) (h : EInv cur rest s)
    (hne : r.2 = false → r.1 = s.ds d) (hh : HupEof r.1) : EInv cur rest (setDesc d r s) := by
  have hds : ∀ c', c' ≠ d → upd s.ds d r.1 c' = s.ds c' := fun c' hc' => by simp [upd, hc']
  have hdd : upd s.ds d r.1 d = r.1 := by simp [upd]
  have hhup : ∀ c, HupEof (upd s.ds d r.1 c) := by
    intro c
    by_cases hc : c = d
    · subst hc; rw [hdd]; exact hh
    · rw [hds c hc]; exact h.hupEof c
  unfold setDesc
  simp only []
  split
  · rename_i hr
    obtain ⟨a1, a2, a3, a4, a5, _⟩ := arm_fields d { s with ds := upd s.ds d r.1 }
    refine ⟨by rw [a5]; exact h.backend, ?_, ?_, ?_, ?_⟩
    · intro c hc
      rw [a1] at hc; rw [a4]
      exact h.reg c hc
    · intro c hc hcur hm
      rw [a1] at hc; rw [a2] at hm
      have hm0 : (upd s.ds d r.1 c).mask.any = true := hm
      by_cases hcd : c = d
      · subst hcd
        rcases h.reg c hc with hreg | hreg
        · exact Or.inl (arm_mem (s := { s with ds := upd s.ds c r.1 }) hreg)
        · exact absurd hreg hcur
      · rw [hds c hcd] at hm0
        rcases h.ready c hc hcur hm0 with h' | h'
        · exact Or.inl (arm_armed_mono d (s := { s with ds := upd s.ds d r.1 }) h')
        · exact Or.inr h'
    · intro c; rw [a2]; exact hhup c
    · rw [a3]; exact h.noLost
  · rename_i hr
    have hr' : r.2 = false := by cases hb : r.2 <;> simp_all
    have hsame : upd s.ds d r.1 = s.ds := by
      funext c
      by_cases hc : c = d
      · subst hc; rw [hdd, hne hr']
      · exact hds c hc
    exact h.congr rfl rfl rfl hsame rfl rfl

theorem emit_einv {cur rest} {s : St} {e : Ev} (he : e ≠ Ev.sleep true) (h : EInv cur rest s) :
    EInv cur rest (emit e s) :=
  ⟨h.backend, h.reg, h.ready, h.hupEof, noLost_cons h.noLost he⟩

theorem addCtx_einv {cur rest} {s : St} (c : Nat) (h : EInv cur rest s) : EInv cur rest (addCtx c s) := by
  unfold addCtx
  split
  · exact h
  · rw [h.backend]
    simp only []
    -- the state with the new registration, before the readiness probe
    have h0 : EInv cur (c :: rest) { s with backend := .epoll, tried := upd s.tried c true, ctxList := s.ctxList ++ [c], epReg := s.epReg ++ [c] } := by
      refine ⟨rfl, ?_, ?_, h.hupEof, h.noLost⟩
      · intro c' hc'
        have hc'' : c' ∈ s.ctxList ++ [c] := hc'
        simp at hc''
        rcases hc'' with hc'' | hc''
        · rcases h.reg c' hc'' with h' | h'
          · exact Or.inl (by show c' ∈ s.epReg ++ [c]; simp [h'])
          · exact Or.inr h'
        · subst hc''; exact Or.inl (by show c' ∈ s.epReg ++ [c']; simp)
      · intro c' hc' hcur hm
        have hc'' : c' ∈ s.ctxList ++ [c] := hc'
        simp at hc''
        rcases hc'' with hc'' | hc''
        · rcases h.ready c' hc'' hcur hm with h' | h'
          · exact Or.inl h'
          · exact Or.inr (List.mem_cons_of_mem _ h')
        · subst hc''; exact Or.inr (by simp)
    have e1 : ({ s with backend := Backend.epoll, tried := upd s.tried c true, ctxList := s.ctxList ++ [c], epReg := s.epReg ++ [c] } : St).ds = s.ds := rfl
    have e2 : ({ s with backend := Backend.epoll, tried := upd s.tried c true, ctxList := s.ctxList ++ [c], epReg := s.epReg ++ [c] } : St).epReg = s.epReg ++ [c] := rfl
    have e3 : ({ s with backend := Backend.epoll, tried := upd s.tried c true, ctxList := s.ctxList ++ [c], epReg := s.epReg ++ [c] } : St).trace = s.trace := rfl
    generalize ({ s with backend := Backend.epoll, tried := upd s.tried c true, ctxList := s.ctxList ++ [c], epReg := s.epReg ++ [c] } : St) = s0 at h0 e1 e2 e3 ⊢
    split
    · rename_i hm
      refine emit_einv (by simp) ?_
      obtain ⟨a1, a2, a3, a4, a5, _⟩ := arm_fields c s0
      refine ⟨by rw [a5]; exact h0.backend, ?_, ?_, ?_, ?_⟩
      · intro c' hc'; rw [a1] at hc'; rw [a4]; exact h0.reg c' hc'
      · intro c' hc' hcur hm'
        rw [a1] at hc'; rw [a2] at hm'
        rcases h0.ready c' hc' hcur hm' with h' | h'
        · exact Or.inl (arm_armed_mono c h')
        · simp at h'
          rcases h' with h' | h'
          · subst h'
            exact Or.inl (arm_mem (by rw [e2]; simp))
          · exact Or.inr h'
      · intro c'; rw [a2]; exact h0.hupEof c'
      · rw [a3]; exact h0.noLost
    · rename_i hm
      refine emit_einv (by simp) ⟨h0.backend, h0.reg, ?_, h0.hupEof, h0.noLost⟩
      intro c' hc' hcur hm'
      rcases h0.ready c' hc' hcur hm' with h' | h'
      · exact Or.inl h'
      · simp at h'
        rcases h' with h' | h'
        · subst h'; rw [e1] at hm'; exact absurd hm' hm
        · exact Or.inr h'

theorem act_einv {cur rest} {s : St} (a : Act) (h : EInv cur rest s) : EInv cur rest (act a s) := by
  cases a with
  | write d n =>
    simp only [act]; split
    · exact setDesc_einv _ _ h write_noedge (write_hupEof n (h.hupEof d))
    · exact h
  | hclose d =>
    simp only [act]; split
    · exact setDesc_einv _ _ h hclose_noedge (hclose_hupEof (h.hupEof d))
    · exact h
  | pclose d =>
    simp only [act]; split
    · exact setDesc_einv _ _ h pclose_noedge (pclose_hupEof (h.hupEof d))
    · exact h
  | add d => exact addCtx_einv d h
  | shut d =>
    simp only [act]; split
    · exact setDesc_einv _ _ (h.congr rfl rfl rfl rfl rfl rfl) shutdown_noedge
        (shutdown_hupEof (h.hupEof d))
    · exact h
  | wakeup => exact armSig_einv (h.congr rfl rfl rfl rfl rfl rfl)
  | exit => exact armSig_einv (h.congr rfl rfl rfl rfl rfl rfl)
  | xexit => exact armSig_einv (h.congr rfl rfl rfl rfl rfl rfl)

theorem runActs_einv {cur rest} (as : List Act) {s : St} (h : EInv cur rest s) :
    EInv cur rest (runActs as s) := by
  unfold runActs
  induction as generalizing s with
  | nil => exact h
  | cons a as ih => exact ih (act_einv a h)

/-! ### the context being visited: after a draining read it is closed-flagged, not readable,
or back in the ready list -/

structure QInv (c : Nat) (s : St) : Prop where
  reg : c ∈ s.epReg
  q : s.flag c = true ∨ (s.ds c).mask.any = false ∨ Src.ctx c ∈ s.armed

theorem arm_qinv {c : Nat} {s : St} (d : Nat) (h : QInv c s) : QInv c (arm d s) := by
  obtain ⟨_, a2, _, a4, _, a6⟩ := arm_fields d s
  refine ⟨by rw [a4]; exact h.reg, ?_⟩
  rw [a2, a6]
  rcases h.q with h' | h' | h'
  · exact Or.inl h'
  · exact Or.inr (Or.inl h')
  · exact Or.inr (Or.inr (arm_armed_mono d h'))

theorem armSig_qinv {c : Nat} {s : St} (h : QInv c s) : QInv c (armSig s) := by
  obtain ⟨_, a2, _, a4, _, a6⟩ := armSig_fields s
  refine ⟨by rw [a4]; exact h.reg, ?_⟩
  rw [a2, a6]
  rcases h.q with h' | h' | h'
  · exact Or.inl h'
  · exact Or.inr (Or.inl h')
  · refine Or.inr (Or.inr ?_)
    unfold armSig; split
    · show _ ∈ s.armed ++ _; simp [h']
    · exact h'

theorem setDesc_qinv {c : Nat} {s : St} (d : Nat) (r : Desc × Bool) (h : QInv c s)
    (hne : r.2 = false → r.1 = s.ds d) : QInv c (setDesc d r s) := by
  unfold setDesc
  simp only []
  by_cases hdc : d = c
  · subst hdc
    split
    · refine ⟨by rw [(arm_fields _ _).2.2.2.1]; exact h.reg, Or.inr (Or.inr ?_)⟩
      exact arm_mem (s := { s with ds := upd s.ds d r.1 }) h.reg
    · rename_i hr
      have hr' : r.2 = false := by cases hb : r.2 <;> simp_all
      refine ⟨h.reg, ?_⟩
      show s.flag d = true ∨ (upd s.ds d r.1 d).mask.any = false ∨ _
      have : upd s.ds d r.1 d = s.ds d := by simp [upd, hne hr']
      rw [this]; exact h.q
  · have hq0 : QInv c { s with ds := upd s.ds d r.1 } := by
      refine ⟨h.reg, ?_⟩
      show s.flag c = true ∨ (upd s.ds d r.1 c).mask.any = false ∨ _
      have : upd s.ds d r.1 c = s.ds c := by simp [upd, Ne.symm hdc]
      rw [this]; exact h.q
    split
    · exact arm_qinv d hq0
    · exact hq0

theorem addCtx_qinv {c : Nat} {s : St} (d : Nat) (h : QInv c s) : QInv c (addCtx d s) := by
  unfold addCtx
  split
  · exact h
  · cases hb : s.backend with
    | select => exact ⟨h.reg, h.q⟩
    | poll =>
      simp only []
      split
      · exact ⟨h.reg, h.q⟩
      · exact ⟨h.reg, h.q⟩
    | epoll =>
      simp only []
      have h0 : QInv c { s with backend := .epoll, tried := upd s.tried d true, ctxList := s.ctxList ++ [d], epReg := s.epReg ++ [d] } :=
        ⟨by show c ∈ s.epReg ++ [d]; simp [h.reg], h.q⟩
      split
      · have := arm_qinv d h0
        exact ⟨this.reg, this.q⟩
      · exact ⟨h0.reg, h0.q⟩

theorem act_qinv {c : Nat} {s : St} (a : Act) (h : QInv c s) : QInv c (act a s) := by
  cases a with
  | write d n => simp only [act]; split; exact setDesc_qinv _ _ h write_noedge; exact h
  | hclose d => simp only [act]; split; exact setDesc_qinv _ _ h hclose_noedge; exact h
  | pclose d => simp only [act]; split; exact setDesc_qinv _ _ h pclose_noedge; exact h
  | add d => exact addCtx_qinv d h
  | shut d =>
    simp only [act]; split
    · refine setDesc_qinv _ _ ⟨h.reg, ?_⟩ shutdown_noedge
      show upd s.flag d true c = true ∨ _
      by_cases hdc : c = d
      · subst hdc; exact Or.inl (by simp [upd])
      · have : upd s.flag d true c = s.flag c := by simp [upd, hdc]
        rw [this]; exact h.q
    · exact h
  | wakeup => exact armSig_qinv ⟨h.reg, h.q⟩
  | exit => exact armSig_qinv ⟨h.reg, h.q⟩
  | xexit => exact armSig_qinv ⟨h.reg, h.q⟩

theorem runActs_qinv {c : Nat} (as : List Act) {s : St} (h : QInv c s) : QInv c (runActs as s) := by
  unfold runActs
  induction as generalizing s with
  | nil => exact h
  | cons a as ih => exact ih (act_qinv a h)

/-- after draining, a descriptor whose stream has not ended is not readable -/
theorem drain_mask {d : Desc} (h : HupEof d) (hne : d.drain.2.1 = false) : d.drain.2.2.mask.any = false := by
  unfold Desc.drain at hne ⊢
  simp only [Bool.or_eq_false_iff] at hne
  unfold Desc.mask Mask.any
  cases hk : d.kind <;> simp [hne.1, hne.2]
  · cases hh : d.hup
    · rfl
    · have := h hh; simp [hne.1] at this
  · cases hh : d.hup
    · rfl
    · have := h hh; simp [hne.1] at this

theorem drain_hupEof {d : Desc} (h : HupEof d) : HupEof d.drain.2.2 := h

/-- `cb_read` of the context being visited, draining -/
theorem cbRead_einv (sc : Script) {rest} {s : St} {c : Nat} (hd : sc.rmode c = .all)
    (h : EInv (some c) rest s) (hreg : c ∈ s.epReg) :
    EInv (some c) rest (cbRead sc c s) ∧ QInv c (cbRead sc c s) := by
  unfold cbRead
  simp only [hd, doRead]
  have hds : ∀ c', c' ≠ c → upd s.ds c (s.ds c).drain.2.2 c' = s.ds c' := fun c' hc' => by simp [upd, hc']
  have hdd : upd s.ds c (s.ds c).drain.2.2 c = (s.ds c).drain.2.2 := by simp [upd]
  constructor
  · apply runActs_einv
    refine emit_einv (by simp) ⟨h.backend, h.reg, ?_, ?_, h.noLost⟩
    · intro c' hc' hcur hm
      have hne : c' ≠ c := fun hh => hcur (by rw [hh])
      have hm' : (upd s.ds c (s.ds c).drain.2.2 c').mask.any = true := hm
      rw [hds c' hne] at hm'
      exact h.ready c' hc' hcur hm'
    · intro c'
      show HupEof (upd s.ds c (s.ds c).drain.2.2 c')
      by_cases hcc : c' = c
      · subst hcc; rw [hdd]; exact drain_hupEof (h.hupEof c')
      · rw [hds c' hcc]; exact h.hupEof c'
  · apply runActs_qinv
    refine ⟨hreg, ?_⟩
    show (if (s.ds c).drain.2.1 = true then upd s.flag c true else s.flag) c = true ∨
      (upd s.ds c (s.ds c).drain.2.2 c).mask.any = false ∨ _
    cases he : (s.ds c).drain.2.1
    · rw [hdd]
      exact Or.inr (Or.inl (drain_mask (h.hupEof c) he))
    · exact Or.inl (by simp [upd])

theorem EInv.weaken {c : Nat} {rest} {s : St} (h : EInv none (c :: rest) s) : EInv (some c) rest s := by
  refine ⟨h.backend, fun c' hc' => ?_, ?_, h.hupEof, h.noLost⟩
  · rcases h.reg c' hc' with h' | h'
    · exact Or.inl h'
    · cases h'
  · intro c' hc' hcur hm
    rcases h.ready c' hc' (by simp) hm with h' | h'
    · exact Or.inl h'
    · simp at h'
      rcases h' with h' | h'
      · subst h'; exact absurd rfl hcur
      · exact Or.inr h'

theorem epRead_einv (sc : Script) {rest} {s : St} {c : Nat} (hd : sc.rmode c = .all) {mk : Mask}
    (hmk : mk.any = true) (h : EInv (some c) rest s) (hreg : c ∈ s.epReg) :
    EInv (some c) rest (epRead sc c mk s) ∧ QInv c (epRead sc c mk s) := by
  unfold epRead
  split
  · exact cbRead_einv sc hd h hreg
  · split
    · exact ⟨h.congr rfl rfl rfl rfl rfl rfl, hreg, Or.inl (by simp [upd])⟩
    · rename_i h1 h2
      unfold Mask.any at hmk
      simp_all

theorem epDel_einv {rest} {s : St} (c : Nat) (h : EInv (some c) rest s) : EInv (some c) rest (epDel c s) := by
  unfold epDel
  refine ⟨h.backend, ?_, ?_, h.hupEof, h.noLost⟩
  · intro c' hc'
    by_cases hcc : c' = c
    · exact Or.inr (by rw [hcc])
    · rcases h.reg c' hc' with h' | h'
      · exact Or.inl ((List.mem_erase_of_ne hcc).mpr h')
      · exact Or.inr h'
  · intro c' hc' hcur hm
    have hcc : c' ≠ c := fun hh => hcur (by rw [hh])
    rcases h.ready c' hc' hcur hm with h' | h'
    · exact Or.inl ((List.mem_erase_of_ne (by simp [hcc])).mpr h')
    · exact Or.inr h'

theorem cbClose_einv (sc : Script) {cur rest} {s : St} (c : Nat) (h : EInv cur rest s) :
    EInv cur rest (cbClose sc c s) := by
  have h1 : EInv cur rest (runActs (sc.onClose c) (emit (.close c) s)) :=
    runActs_einv _ (emit_einv (by simp) h)
  rcases cbClose_eq sc c s with he | he <;> rw [he]
  · exact h1
  · exact h1.congr rfl rfl rfl rfl rfl rfl

theorem epFinish_einv (sc : Script) {rest} {s : St} {c : Nat} (h : EInv (some c) rest s) (q : QInv c s)
    (hi : Inv none s) (hc : c ∈ s.ctxList) (hnr : c ∉ rest) : EInv none rest (epFinish sc c s) := by
  unfold epFinish
  split
  · have h3 := cbClose_einv sc c (epDel_einv c h)
    have i3 : Inv (some c) (cbClose sc c (epDel c s)) := cbClose_inv sc (epDel_inv c hi) hc
    generalize cbClose sc c (epDel c s) = s3 at h3 i3
    simp only []
    refine ⟨h3.backend, ?_, ?_, h3.hupEof, h3.noLost⟩
    · intro c' hc'
      have hc'' : c' ∈ s3.ctxList.erase c := hc'
      have hne : c' ≠ c := fun hh => by subst hh; exact i3.nodupL.not_mem_erase hc''
      rcases h3.reg c' (List.mem_of_mem_erase hc'') with h' | h'
      · exact Or.inl h'
      · exact absurd (Option.some.inj h').symm hne
    · intro c' hc' _ hm
      have hc'' : c' ∈ s3.ctxList.erase c := hc'
      have hne : c' ≠ c := fun hh => by subst hh; exact i3.nodupL.not_mem_erase hc''
      exact h3.ready c' (List.mem_of_mem_erase hc'') (by simp [hne.symm]) hm
  · rename_i hf
    refine ⟨h.backend, ?_, ?_, h.hupEof, h.noLost⟩
    · intro c' hc'
      rcases h.reg c' hc' with h' | h'
      · exact Or.inl h'
      · cases h'; exact Or.inl q.reg
    · intro c' hc' _ hm
      by_cases hcc : c' = c
      · subst hcc
        rcases q.q with h' | h' | h'
        · exact absurd h' hf
        · rw [h'] at hm; cases hm
        · exact Or.inl h'
      · exact h.ready c' hc' (by simp [Ne.symm hcc]) hm

theorem epVisit_einv (sc : Script) (hd : ∀ c, sc.rmode c = .all) {rest} {s : St} {c : Nat} {mk : Mask}
    (hmk : mk.any = true) (h : EInv none (c :: rest) s) (hi : Inv none s) (hc : c ∈ s.ctxList)
    (hnr : c ∉ rest) : EInv none rest (epVisit sc c mk s) := by
  unfold epVisit
  have hreg : c ∈ s.epReg := by
    rcases h.reg c hc with h' | h'
    · exact h'
    · cases h'
  obtain ⟨h1, q1⟩ := epRead_einv sc (hd c) hmk h.weaken hreg
  exact epFinish_einv sc h1 q1 (epRead_inv sc hi hc mk) ((epRead_ext sc c mk s).mem_ctx hc) hnr

/-- the context ids of a batch -/
def ctxIds : List (Src × Mask) → List Nat
  | [] => []
  | (.sig, _) :: r => ctxIds r
  | (.ctx c, _) :: r => c :: ctxIds r

theorem mem_ctxIds {b : List (Src × Mask)} {c : Nat} : c ∈ ctxIds b ↔ Src.ctx c ∈ b.map (·.1) := by
  induction b with
  | nil => simp [ctxIds]
  | cons x r ih =>
    obtain ⟨src, mk⟩ := x
    cases src with
    | sig => simp [ctxIds, ih]
    | ctx c' => simp [ctxIds, ih]

theorem handleWake_einv (sc : Script) {cur rest} {s : St} (h : EInv cur rest s) :
    EInv cur rest (handleWake sc s) := by
  unfold handleWake
  simp only []
  have h1 : EInv cur rest (runActs (sc.onWake s.nWake) (emit .wake { s with evc := 0, nWake := s.nWake + 1 })) :=
    runActs_einv _ (emit_einv (by simp) (h.congr rfl rfl rfl rfl rfl rfl))
  split
  · exact h1.congr rfl rfl rfl rfl rfl rfl
  · exact h1

theorem epBatch_einv (sc : Script) (hd : ∀ c, sc.rmode c = .all) (b : List (Src × Mask)) :
    ∀ {s : St}, EInv none (ctxIds b) s → Inv none s → (b.map (·.1)).Nodup →
    (∀ x ∈ b, x.2.any = true) → (∀ c mk, (Src.ctx c, mk) ∈ b → c ∈ s.ctxList) →
    EInv none [] (epBatch sc b s) := by
  induction b with
  | nil => intro s h _ _ _ _; exact h
  | cons x r ih =>
    intro s h hi hnd hany hmem
    obtain ⟨src, mk⟩ := x
    have hnd' : (r.map (·.1)).Nodup := (List.nodup_cons.mp hnd).2
    have hany' : ∀ x ∈ r, x.2.any = true := fun x hx => hany x (List.mem_cons_of_mem _ hx)
    cases src with
    | sig =>
      unfold epBatch
      have h1 : EInv none (ctxIds r) (if mk.inn then handleWake sc s else s) ∧
          Inv none (if mk.inn then handleWake sc s else s) ∧
          Ext s (if mk.inn then handleWake sc s else s) := by
        split
        · exact ⟨handleWake_einv sc h, handleWake_inv sc hi, handleWake_ext sc s⟩
        · exact ⟨h, hi, Ext.refl s⟩
      refine ih h1.1 h1.2.1 hnd' hany' ?_
      intro c mk' hm
      exact h1.2.2.mem_ctx (hmem c mk' (List.mem_cons_of_mem _ hm))
    | ctx c =>
      unfold epBatch
      have hc : c ∈ s.ctxList := hmem c mk (by simp)
      have hnr : c ∉ ctxIds r := by
        rw [mem_ctxIds]
        exact (List.nodup_cons.mp hnd).1
      have hb : s.backend = .epoll := h.backend
      obtain ⟨v1, _, v3⟩ := epVisit_inv sc hi hb hc mk
      have e1 := epVisit_einv sc hd (hany (Src.ctx c, mk) (by simp)) (rest := ctxIds r) h hi hc hnr
      refine ih e1 v1 hnd' hany' ?_
      intro c' mk' hm
      have hne : c' ≠ c := by
        intro hh; subst hh
        have : Src.ctx c' ∈ r.map (·.1) := List.mem_map_of_mem (f := (·.1)) hm
        exact (List.nodup_cons.mp hnd).1 this
      exact v3 c' hne (hmem c' mk' (List.mem_cons_of_mem _ hm))

/-! ### the ready-list walk -/

theorem epCollect_any (s : St) (l : List Src) : ∀ (m : Nat), ∀ x ∈ (epCollect s l m).1, x.2.any = true := by
  induction l with
  | nil => intro m x hx; simp [epCollect] at hx
  | cons a rest ih =>
    intro m
    cases m with
    | zero => intro x hx; simp [epCollect] at hx
    | succ m =>
      unfold epCollect
      simp only []
      split
      · rename_i hm
        intro x hx
        simp at hx
        rcases hx with hx | hx
        · subst hx; exact hm
        · exact ih m x hx
      · exact ih (m + 1)

/-- a ready item is either reported or stays in the list; only items that are not ready
are dropped -/
theorem epCollect_cover (s : St) (l : List Src) : ∀ (m : Nat) (a : Src), a ∈ l → (srcMask s a).any = true →
    a ∈ (epCollect s l m).1.map (·.1) ∨ a ∈ (epCollect s l m).2 := by
  induction l with
  | nil => intro m a ha; simp at ha
  | cons x rest ih =>
    intro m a ha hm
    cases m with
    | zero => exact Or.inr (by simpa [epCollect] using ha)
    | succ m =>
      unfold epCollect
      simp only []
      simp at ha
      split
      · rcases ha with ha | ha
        · subst ha; exact Or.inl (by simp)
        · rcases ih m a ha hm with h' | h'
          · exact Or.inl (by simp at h' ⊢; exact Or.inr h')
          · exact Or.inr h'
      · rename_i hx
        rcases ha with ha | ha
        · subst ha; exact absurd hm hx
        · exact ih (m + 1) a ha hm

/-- with room for at least one event, an empty report means nothing in the list is ready -/
theorem epCollect_empty (s : St) (l : List Src) : ∀ (m : Nat), (epCollect s l (m + 1)).1 = [] →
    ∀ a ∈ l, (srcMask s a).any = false := by
  induction l with
  | nil => intro m _ a ha; simp at ha
  | cons x rest ih =>
    intro m he a ha
    unfold epCollect at he
    simp only [] at he
    split at he
    · simp at he
    · rename_i hx
      simp at ha
      rcases ha with ha | ha
      · subst ha; simpa using hx
      · exact ih m he a ha

theorem idle_einv (sc : Script) {s : St} (h : EInv none [] s)
    (hq : (s.ctxList.any fun c => (s.ds c).readable) = false) : EInv none [] (idle sc s) := by
  unfold idle
  simp only []
  rw [hq]
  have h1 : EInv none [] (emit (.sleep false) { s with nIdle := s.nIdle + 1 }) :=
    emit_einv (by simp) (h.congr rfl rfl rfl rfl rfl rfl)
  split
  · exact runActs_einv _ h1
  · exact act_einv _ h1

theorem epLoop_einv (sc : Script) (hd : ∀ c, sc.rmode c = .all) (f : Nat) : ∀ {s : St},
    EInv none [] s → Inv none s → NoLost (epLoop sc f s).trace := by
  induction f with
  | zero =>
    intro s h _
    unfold epLoop
    exact noLost_cons h.noLost (by simp)
  | succ f ih =>
    intro s h hi
    unfold epLoop
    obtain ⟨c1, c2⟩ := epCollect_sub s s.armed (s.hints + 1)
    have hiq : Inv none { s with armed := (epCollect s s.armed (s.hints + 1)).2 } := by
      constructor
      · exact hi.nodupL
      · exact hi.sound
      · exact hi.complete
      · exact hi.triedOk
      · exact hi.wf
      · exact hi.pNodup
      · exact hi.pMem
      · exact hi.eNodup
      · exact hi.eMem
      · exact hi.aNodup.sublist c2
      · intro c hc; exact hi.aMem c (c2.subset hc)
      · exact hi.pOnly
      · exact hi.eOnly
    have hq : EInv none (ctxIds (epCollect s s.armed (s.hints + 1)).1)
        { s with armed := (epCollect s s.armed (s.hints + 1)).2 } := by
      refine ⟨h.backend, h.reg, ?_, h.hupEof, h.noLost⟩
      intro c hc hcur hm
      rcases h.ready c hc hcur hm with h' | h'
      · rcases epCollect_cover s s.armed (s.hints + 1) (.ctx c) h' hm with h2 | h2
        · exact Or.inr (mem_ctxIds.mpr h2)
        · exact Or.inl h2
      · simp at h'
    simp only []
    split
    · rename_i hempty
      have he : (epCollect s s.armed (s.hints + 1)).1 = [] := by simpa using hempty
      have hnone := epCollect_empty s s.armed s.hints he
      have hr : (s.ctxList.any fun c => (s.ds c).readable) = false := by
        rw [List.any_eq_false]
        intro c hc hrd
        rcases h.ready c hc (by simp) hrd with h' | h'
        · have := hnone _ h'
          simp [srcMask] at this
          rw [show (s.ds c).readable = (s.ds c).mask.any from rfl] at hrd
          rw [this] at hrd; cases hrd
        · simp at h'
      rw [he] at hq
      exact ih (idle_einv sc hq hr) (idle_inv sc hiq)
    · have hnd : ((epCollect s s.armed (s.hints + 1)).1.map (·.1)).Nodup := hi.aNodup.sublist c1
      have hmem : ∀ c mk, (Src.ctx c, mk) ∈ (epCollect s s.armed (s.hints + 1)).1 →
          c ∈ (emit .disp { s with armed := (epCollect s s.armed (s.hints + 1)).2 }).ctxList := by
        intro c mk hm
        have : Src.ctx c ∈ (epCollect s s.armed (s.hints + 1)).1.map (·.1) :=
          List.mem_map_of_mem (f := (·.1)) hm
        exact hi.eMem c (hi.aMem c (c1.subset this))
      have hid := inv_emit_of (e := .disp) hiq (by simp) (by simp) (by simp) trivial
      have h1 := epBatch_einv sc hd _ (emit_einv (e := .disp) (by simp) hq) hid hnd
        (epCollect_any s s.armed (s.hints + 1)) hmem
      have i1 := epBatch_inv sc _ hid h.backend hnd hmem
      split
      · exact h1.noLost
      · exact ih h1 i1.1

theorem epStart_einv {s : St} (h : EInv none [] s) : EInv none [] (epStart s) := by
  unfold epStart
  simp only []
  split
  · exact armSig_einv (h.congr rfl rfl rfl rfl rfl rfl)
  · exact h.congr rfl rfl rfl rfl rfl rfl

end MgProof.C13
