import MgProof.C13.LemmasEpollReady
import MgProof.C13.LemmasSelectFd
/-!
# C13 — agreement: for externally driven, draining scripts (class P) the outcome of every
context is a function of the kernel history alone, whatever the back-end

Class P: read callbacks drain and perform no actions, close / wake callbacks perform no
actions, peers act only while the loop sleeps (`onIdle`: write / half-close / close) or
before the run (`pre`: the same, plus the adds).
-/
namespace MgProof.C13
open MgModel.C13

structure ClassP (pre : List Act) (sc : Script) : Prop where
  drain : ∀ c, sc.rmode c = .all
  noRead : ∀ c b a, sc.onRead c b a = []
  noClose : ∀ c, sc.onClose c = []
  noWake : ∀ k, sc.onWake k = []
  idlePeer : ∀ k, ∀ a ∈ sc.onIdle k, peerOnly a = true
  preOk : ∀ a ∈ pre, preOk a = true

/-! ### descriptors that differ only in the number of unread bytes -/

/-- `d` is `k` with some bytes already consumed: same stream state, same total -/
def SameBut (d k : Desc) : Prop :=
  d.kind = k.kind ∧ d.arrived = k.arrived ∧ d.pwr = k.pwr ∧ d.eof = k.eof ∧ d.hup = k.hup ∧
  d.err = k.err ∧ d.shut = k.shut

/-- never shut down, never reset, `HUP` only with end-of-stream: all a peer can produce -/
def Plain (d : Desc) : Prop :=
  d.shut = false ∧ d.err = false ∧ (d.hup = true → d.eof = true) ∧ (d.eof = true → d.pwr = false)

theorem write_sameBut {d k : Desc} (n : Nat) (h : SameBut d k) :
    SameBut (d.write n).1 (k.write n).1 ∧ (d.write n).2 = (k.write n).2 ∧
    ((d.write n).1.avail + d.arrived = d.avail + (d.write n).1.arrived) := by
  obtain ⟨dk, da, dar, dp, de, dh, der, dsh⟩ := d
  obtain ⟨kk, ka, kar, kp, ke, kh, ker, ksh⟩ := k
  simp only [SameBut] at h
  obtain ⟨rfl, rfl, rfl, rfl, rfl, rfl, rfl⟩ := h
  unfold Desc.write SameBut
  cases dp <;> cases dsh <;> cases dk <;> cases der <;> simp <;> omega

theorem hclose_sameBut {d k : Desc} (h : SameBut d k) :
    SameBut d.hclose.1 k.hclose.1 ∧ d.hclose.2 = k.hclose.2 ∧
    d.hclose.1.avail = d.avail ∧ d.hclose.1.arrived = d.arrived := by
  obtain ⟨dk, da, dar, dp, de, dh, der, dsh⟩ := d
  obtain ⟨kk, ka, kar, kp, ke, kh, ker, ksh⟩ := k
  simp only [SameBut] at h
  obtain ⟨rfl, rfl, rfl, rfl, rfl, rfl, rfl⟩ := h
  unfold Desc.hclose SameBut
  cases dp <;> simp

theorem pclose_sameBut {d k : Desc} (h : SameBut d k) :
    SameBut d.pclose.1 k.pclose.1 ∧ d.pclose.2 = k.pclose.2 ∧
    d.pclose.1.avail = d.avail ∧ d.pclose.1.arrived = d.arrived := by
  obtain ⟨dk, da, dar, dp, de, dh, der, dsh⟩ := d
  obtain ⟨kk, ka, kar, kp, ke, kh, ker, ksh⟩ := k
  simp only [SameBut] at h
  obtain ⟨rfl, rfl, rfl, rfl, rfl, rfl, rfl⟩ := h
  unfold Desc.pclose SameBut
  cases dp <;> cases dk <;> cases dh <;> simp

theorem write_plain {d : Desc} (n : Nat) (h : Plain d) : Plain (d.write n).1 := by
  obtain ⟨dk, da, dar, dp, de, dh, der, dsh⟩ := d
  simp only [Plain] at h
  obtain ⟨rfl, rfl, h3, h4⟩ := h
  unfold Desc.write Plain
  cases dp <;> cases de <;> cases dh <;> simp_all

theorem hclose_plain {d : Desc} (h : Plain d) : Plain d.hclose.1 := by
  obtain ⟨dk, da, dar, dp, de, dh, der, dsh⟩ := d
  simp only [Plain] at h
  obtain ⟨rfl, rfl, h3, h4⟩ := h
  unfold Desc.hclose Plain
  cases dp <;> cases de <;> cases dh <;> simp_all

theorem pclose_plain {d : Desc} (h : Plain d) : Plain d.pclose.1 := by
  obtain ⟨dk, da, dar, dp, de, dh, der, dsh⟩ := d
  simp only [Plain] at h
  obtain ⟨rfl, rfl, h3, h4⟩ := h
  unfold Desc.pclose Plain
  cases dp <;> cases dk <;> cases dh <;> cases de <;> simp_all

/-- once the stream has ended a peer cannot change the read end any more -/
theorem write_ended {d : Desc} (n : Nat) (h : Plain d) (he : d.eof = true) : (d.write n).1 = d := by
  have := h.2.2.2 he
  unfold Desc.write; simp [this]

theorem hclose_ended {d : Desc} (h : Plain d) (he : d.eof = true) : d.hclose.1 = d := by
  have := h.2.2.2 he
  unfold Desc.hclose; simp [this]

theorem pclose_ended {d : Desc} (he : d.eof = true) :
    d.pclose.1.eof = true ∧ d.pclose.1.avail = d.avail := by
  unfold Desc.pclose
  cases d.kind <;> simp <;> split <;> simp [he]

/-- a plain descriptor that is not readable has nothing queued and its stream has not ended -/
theorem plain_quiet {d : Desc} (h : Plain d) (hq : d.readable = false) : d.avail = 0 ∧ d.eof = false := by
  obtain ⟨_, h2, h3, _⟩ := h
  unfold Desc.readable Desc.mask Mask.any at hq
  cases hk : d.kind <;> simp [hk] at hq
  · exact ⟨hq.1, hq.2⟩
  · exact hq.1.1
  · exact hq.1.1

/-- a plain descriptor whose stream has ended is readable -/
theorem plain_eof_readable {d : Desc} (he : d.eof = true) : d.readable = true := by
  unfold Desc.readable Desc.mask Mask.any
  cases hk : d.kind <;> simp [he]

/-! ### the class-P invariant -/

def doneActs (sc : Script) (n : Nat) : List Act := (List.range (min n sc.nIdle)).flatMap sc.onIdle

def K0 (kinds : List Kind) : KSt := ⟨fun d => { kind := kinds.getD d .pipe }⟩

/-- the kernel-only world after the actions performed so far -/
def Kof (kinds : List Kind) (pre : List Act) (sc : Script) (s : St) : KSt :=
  kacts s.nds (pre ++ doneActs sc s.nIdle) (K0 kinds)

/-- `x = some c`: context `c` is being visited and may already carry the closed flag -/
structure PC (x : Option Nat) (kinds : List Kind) (pre : List Act) (sc : Script) (s : St) : Prop where
  sync : ∀ d, SameBut (s.ds d) ((Kof kinds pre sc s).ds d)
  cons : ∀ d, s.delivered d + (s.ds d).avail = (s.ds d).arrived
  plain : ∀ d, Plain (s.ds d)
  flags : ∀ c ∈ s.ctxList, x ≠ some c → s.flag c = false
  closedDone : ∀ c, Ev.close c ∈ s.trace → (s.ds c).eof = true ∧ (s.ds c).avail = 0
  exitPhase : s.toExit = 0 ∨ sc.nIdle < s.nIdle
  quiet : sc.nIdle < s.nIdle → ∀ c ∈ s.ctxList, (s.ds c).readable = false
  adds : ∀ c, (Ev.addOk c ∈ s.trace ∨ Ev.addRej c ∈ s.trace) ↔ (Act.add c ∈ pre ∧ c < s.nds)
  unreg : ∀ c, Ev.addOk c ∉ s.trace → s.delivered c = 0
  ndsOk : s.nds = kinds.length

theorem PC.congr {x kinds pre sc} {s t : St} (h : PC x kinds pre sc s) (h1 : t.ds = s.ds)
    (h2 : t.delivered = s.delivered) (h3 : t.flag = s.flag) (h4 : t.ctxList = s.ctxList)
    (h5 : t.trace = s.trace) (h6 : t.toExit = s.toExit) (h7 : t.nIdle = s.nIdle) (h8 : t.nds = s.nds) :
    PC x kinds pre sc t := by
  have hk : Kof kinds pre sc t = Kof kinds pre sc s := by unfold Kof; rw [h7, h8]
  exact ⟨by rw [h1, hk]; exact h.sync, by rw [h1, h2]; exact h.cons, by rw [h1]; exact h.plain,
    by rw [h3, h4]; exact h.flags, by rw [h1, h5]; exact h.closedDone, by rw [h6, h7]; exact h.exitPhase,
    by rw [h1, h4, h7]; exact h.quiet, by rw [h5, h8]; exact h.adds, by rw [h2, h5]; exact h.unreg,
    by rw [h8]; exact h.ndsOk⟩

/-- an event that is neither an add nor a close -/
theorem PC.emit_other {x kinds pre sc} {s : St} {e : Ev} (h : PC x kinds pre sc s)
    (h1 : ∀ c, e ≠ .addOk c) (h2 : ∀ c, e ≠ .addRej c) (h3 : ∀ c, e ≠ .close c) :
    PC x kinds pre sc (emit e s) := by
  refine ⟨h.sync, h.cons, h.plain, h.flags, ?_, h.exitPhase, h.quiet, ?_, ?_, h.ndsOk⟩
  · intro c hc
    exact h.closedDone c (mem_cons_ne hc (h3 c).symm)
  · intro c
    show _ ↔ Act.add c ∈ pre ∧ c < s.nds
    rw [← h.adds c]
    constructor
    · rintro (hh | hh)
      · exact Or.inl (mem_cons_ne hh (h1 c).symm)
      · exact Or.inr (mem_cons_ne hh (h2 c).symm)
    · rintro (hh | hh)
      · exact Or.inl (List.mem_cons_of_mem _ hh)
      · exact Or.inr (List.mem_cons_of_mem _ hh)
  · intro c hc
    exact h.unreg c (fun hh => hc (List.mem_cons_of_mem _ hh))

/-! ### callbacks of a class-P script -/

theorem cbRead_P {pre : List Act} {sc : Script} (hp : ClassP pre sc) (c : Nat) (s : St) :
    cbRead sc c s = emit (.read c (s.ds c).avail ((s.ds c).eof || (s.ds c).err))
      { s with ds := upd s.ds c { s.ds c with avail := 0 },
               flag := if ((s.ds c).eof || (s.ds c).err) then upd s.flag c true else s.flag,
               delivered := upd s.delivered c (s.delivered c + (s.ds c).avail) } := by
  unfold cbRead
  simp only [hp.drain c, doRead, Desc.drain, hp.noRead, runActs, List.foldl_nil]

theorem cbClose_P {pre : List Act} {sc : Script} (hp : ClassP pre sc) (c : Nat) (s : St) :
    (cbClose sc c s).ds = s.ds ∧ (cbClose sc c s).delivered = s.delivered ∧ (cbClose sc c s).flag = s.flag ∧
    (cbClose sc c s).ctxList = s.ctxList ∧ (cbClose sc c s).trace = Ev.close c :: s.trace ∧
    (cbClose sc c s).toExit = s.toExit ∧ (cbClose sc c s).nIdle = s.nIdle ∧ (cbClose sc c s).nds = s.nds := by
  rcases cbClose_eq sc c s with he | he <;> rw [he] <;>
    simp only [hp.noClose, runActs, List.foldl_nil] <;> exact ⟨rfl, rfl, rfl, rfl, rfl, rfl, rfl, rfl⟩

theorem handleWake_P {pre : List Act} {sc : Script} (hp : ClassP pre sc) (s : St) :
    handleWake sc s =
      (if s.toExit = 2 then { emit .wake { s with evc := 0, nWake := s.nWake + 1 } with toExit := 1 }
       else emit .wake { s with evc := 0, nWake := s.nWake + 1 }) := by
  unfold handleWake
  simp only [hp.noWake, runActs, List.foldl_nil]
  rfl

/-- what a dispatch does to the kernel: it only consumes bytes -/
def DrainRel (s t : St) : Prop := ∀ d, (t.ds d).avail ≤ (s.ds d).avail ∧ SameBut (t.ds d) (s.ds d)

theorem DrainRel.refl (s : St) : DrainRel s s := fun _ => ⟨Nat.le_refl _, rfl, rfl, rfl, rfl, rfl, rfl, rfl⟩

theorem SameBut.trans {a b c : Desc} (h1 : SameBut a b) (h2 : SameBut b c) : SameBut a c := by
  obtain ⟨a1, a2, a3, a4, a5, a6, a7⟩ := h1
  obtain ⟨b1, b2, b3, b4, b5, b6, b7⟩ := h2
  exact ⟨a1.trans b1, a2.trans b2, a3.trans b3, a4.trans b4, a5.trans b5, a6.trans b6, a7.trans b7⟩

theorem DrainRel.trans {s t u : St} (a : DrainRel s t) (b : DrainRel t u) : DrainRel s u :=
  fun d => ⟨Nat.le_trans (b d).1 (a d).1, (b d).2.trans (a d).2⟩

/-- the read callback of a class-P script on a registered context -/
theorem cbRead_pc {kinds pre sc} (hp : ClassP pre sc) {s : St} (h : PC none kinds pre sc s) {c : Nat}
    (hc : c ∈ s.ctxList) (hreg : Ev.addOk c ∈ s.trace) :
    PC (some c) kinds pre sc (cbRead sc c s) ∧
    ((cbRead sc c s).flag c = true → ((cbRead sc c s).ds c).eof = true ∧ ((cbRead sc c s).ds c).avail = 0) ∧
    DrainRel s (cbRead sc c s) ∧ (cbRead sc c s).ctxList = s.ctxList := by
  rw [cbRead_P hp]
  have hpl := h.plain c
  have herr : (s.ds c).err = false := hpl.2.1
  have hds : ∀ d, d ≠ c → upd s.ds c { s.ds c with avail := 0 } d = s.ds d := fun d hd => by simp [upd, hd]
  have hdc : upd s.ds c { s.ds c with avail := 0 } c = { s.ds c with avail := 0 } := by simp [upd]
  have hsb : ∀ d, SameBut (upd s.ds c { s.ds c with avail := 0 } d) (s.ds d) := by
    intro d
    by_cases hd : d = c
    · subst hd; rw [hdc]; exact ⟨rfl, rfl, rfl, rfl, rfl, rfl, rfl⟩
    · rw [hds d hd]; exact ⟨rfl, rfl, rfl, rfl, rfl, rfl, rfl⟩
  refine ⟨?_, ?_, ?_, rfl⟩
  · refine PC.emit_other ?_ (by simp) (by simp) (by simp)
    refine ⟨?_, ?_, ?_, ?_, ?_, h.exitPhase, ?_, h.adds, ?_, h.ndsOk⟩
    · intro d; exact (hsb d).trans (h.sync d)
    · intro d
      show upd s.delivered c (s.delivered c + (s.ds c).avail) d + (upd s.ds c { s.ds c with avail := 0 } d).avail =
        (upd s.ds c { s.ds c with avail := 0 } d).arrived
      by_cases hd : d = c
      · subst hd; rw [hdc]; simp [upd]; exact h.cons d
      · rw [hds d hd]; simp [upd, hd]; exact h.cons d
    · intro d
      show Plain (upd s.ds c { s.ds c with avail := 0 } d)
      by_cases hd : d = c
      · subst hd; rw [hdc]; exact h.plain d
      · rw [hds d hd]; exact h.plain d
    · intro c' hc' hne
      have hne' : c' ≠ c := fun hh => hne (by rw [hh])
      show (if ((s.ds c).eof || (s.ds c).err) then upd s.flag c true else s.flag) c' = false
      split
      · simp [upd, hne']; exact h.flags c' hc' (by simp)
      · exact h.flags c' hc' (by simp)
    · intro c' hcl
      have := h.closedDone c' hcl
      show (upd s.ds c { s.ds c with avail := 0 } c').eof = true ∧ (upd s.ds c { s.ds c with avail := 0 } c').avail = 0
      by_cases hd : c' = c
      · subst hd; rw [hdc]; exact ⟨this.1, rfl⟩
      · rw [hds c' hd]; exact this
    · intro hph c' hc'
      have := h.quiet hph c' hc'
      show (upd s.ds c { s.ds c with avail := 0 } c').readable = false
      by_cases hd : c' = c
      · subst hd; rw [hdc]
        have hq := plain_quiet (h.plain c') this
        have : ({ s.ds c' with avail := 0 } : Desc) = s.ds c' := by
          cases hx : s.ds c'; simp [hx] at hq ⊢; exact hq.1.symm
        rw [this]; assumption
      · rw [hds c' hd]; exact this
    · intro c' hc'
      show upd s.delivered c (s.delivered c + (s.ds c).avail) c' = 0
      have hne : c' ≠ c := fun hh => hc' (hh ▸ hreg)
      simp [upd, hne]; exact h.unreg c' hc'
  · intro hf
    have hf' : (if ((s.ds c).eof || (s.ds c).err) then upd s.flag c true else s.flag) c = true := hf
    show (upd s.ds c { s.ds c with avail := 0 } c).eof = true ∧ (upd s.ds c { s.ds c with avail := 0 } c).avail = 0
    rw [hdc]
    refine ⟨?_, rfl⟩
    split at hf'
    · rename_i he; simpa [herr] using he
    · rw [h.flags c hc (by simp)] at hf'; cases hf'
  · intro d
    refine ⟨?_, hsb d⟩
    show (upd s.ds c { s.ds c with avail := 0 } d).avail ≤ _
    by_cases hd : d = c
    · subst hd; rw [hdc]; exact Nat.zero_le _
    · rw [hds d hd]; exact Nat.le_refl _

theorem pc_keep {kinds pre sc} {s : St} {c : Nat} (h : PC (some c) kinds pre sc s) (hf : s.flag c = false) :
    PC none kinds pre sc s := by
  refine ⟨h.sync, h.cons, h.plain, ?_, h.closedDone, h.exitPhase, h.quiet, h.adds, h.unreg, h.ndsOk⟩
  intro c' hc' _
  by_cases hcc : c' = c
  · subst hcc; exact hf
  · exact h.flags c' hc' (by simp [Ne.symm hcc])

theorem pc_flag {kinds pre sc} {s : St} (c : Nat) (h : PC none kinds pre sc s) :
    PC (some c) kinds pre sc { s with flag := upd s.flag c true } := by
  refine ⟨h.sync, h.cons, h.plain, ?_, h.closedDone, h.exitPhase, h.quiet, h.adds, h.unreg, h.ndsOk⟩
  intro c' hc' hne
  have hne' : c' ≠ c := fun hh => hne (by rw [hh])
  show upd s.flag c true c' = false
  simp [upd, hne']; exact h.flags c' hc' (by simp)

theorem PC.weaken {kinds pre sc} {s : St} (c : Nat) (h : PC none kinds pre sc s) : PC (some c) kinds pre sc s :=
  ⟨h.sync, h.cons, h.plain, fun c' hc' _ => h.flags c' hc' (by simp), h.closedDone, h.exitPhase, h.quiet,
   h.adds, h.unreg, h.ndsOk⟩

/-- `cb_close c` followed by the unregistration of `c` -/
theorem pc_close {kinds pre sc} {s t : St} {c : Nat} (h : PC (some c) kinds pre sc s)
    (hdone : (s.ds c).eof = true ∧ (s.ds c).avail = 0)
    (h1 : t.ds = s.ds) (h2 : t.delivered = s.delivered) (h3 : t.flag = s.flag)
    (h4 : ∀ c' ∈ t.ctxList, c' ∈ s.ctxList ∧ c' ≠ c) (h5 : t.trace = Ev.close c :: s.trace)
    (h6 : t.toExit = s.toExit) (h7 : t.nIdle = s.nIdle) (h8 : t.nds = s.nds) : PC none kinds pre sc t := by
  have hk : Kof kinds pre sc t = Kof kinds pre sc s := by unfold Kof; rw [h7, h8]
  refine ⟨by rw [h1, hk]; exact h.sync, by rw [h1, h2]; exact h.cons, by rw [h1]; exact h.plain, ?_, ?_,
    by rw [h6, h7]; exact h.exitPhase, ?_, ?_, ?_, by rw [h8]; exact h.ndsOk⟩
  · intro c' hc' _
    rw [h3]
    exact h.flags c' (h4 c' hc').1 (by simp [Ne.symm (h4 c' hc').2])
  · intro c' hcl
    rw [h5] at hcl; rw [h1]
    simp at hcl
    rcases hcl with hcl | hcl
    · subst hcl; exact hdone
    · exact h.closedDone c' hcl
  · intro hph c' hc'
    rw [h1]
    exact h.quiet (by rw [← h7]; exact hph) c' (h4 c' hc').1
  · intro c'
    rw [h5, h8, ← h.adds c']
    constructor
    · rintro (hh | hh)
      · exact Or.inl (mem_cons_ne hh (by simp))
      · exact Or.inr (mem_cons_ne hh (by simp))
    · rintro (hh | hh)
      · exact Or.inl (List.mem_cons_of_mem _ hh)
      · exact Or.inr (List.mem_cons_of_mem _ hh)
  · intro c' hc'
    rw [h2]
    exact h.unreg c' (fun hh => hc' (by rw [h5]; exact List.mem_cons_of_mem _ hh))

theorem handleWake_pc {x kinds pre sc} (hp : ClassP pre sc) {s : St} (h : PC x kinds pre sc s) :
    PC x kinds pre sc (handleWake sc s) := by
  rw [handleWake_P hp]
  have h1 : PC x kinds pre sc (emit .wake { s with evc := 0, nWake := s.nWake + 1 }) :=
    PC.emit_other (h.congr rfl rfl rfl rfl rfl rfl rfl rfl) (by simp) (by simp) (by simp)
  split
  · rename_i h2
    refine ⟨h1.sync, h1.cons, h1.plain, h1.flags, h1.closedDone, ?_, h1.quiet, h1.adds, h1.unreg, h1.ndsOk⟩
    rcases h.exitPhase with h' | h'
    · rw [h'] at h2; cases h2
    · exact Or.inr h'
  · exact h1

/-! ### peers acting while the loop sleeps -/

theorem arm_same (c : Nat) (s : St) :
    (arm c s).ds = s.ds ∧ (arm c s).delivered = s.delivered ∧ (arm c s).flag = s.flag ∧
    (arm c s).ctxList = s.ctxList ∧ (arm c s).trace = s.trace ∧ (arm c s).toExit = s.toExit ∧
    (arm c s).nIdle = s.nIdle ∧ (arm c s).nds = s.nds := by
  unfold arm; split <;> exact ⟨rfl, rfl, rfl, rfl, rfl, rfl, rfl, rfl⟩

theorem armSig_same (s : St) :
    (armSig s).ds = s.ds ∧ (armSig s).delivered = s.delivered ∧ (armSig s).flag = s.flag ∧
    (armSig s).ctxList = s.ctxList ∧ (armSig s).trace = s.trace ∧ (armSig s).toExit = s.toExit ∧
    (armSig s).nIdle = s.nIdle ∧ (armSig s).nds = s.nds := by
  unfold armSig; split <;> exact ⟨rfl, rfl, rfl, rfl, rfl, rfl, rfl, rfl⟩

theorem setDesc_same (c : Nat) (r : Desc × Bool) (s : St) :
    (setDesc c r s).ds = upd s.ds c r.1 ∧ (setDesc c r s).delivered = s.delivered ∧
    (setDesc c r s).flag = s.flag ∧ (setDesc c r s).ctxList = s.ctxList ∧
    (setDesc c r s).trace = s.trace ∧ (setDesc c r s).toExit = s.toExit ∧
    (setDesc c r s).nIdle = s.nIdle ∧ (setDesc c r s).nds = s.nds := by
  unfold setDesc
  simp only []
  split
  · obtain ⟨a1, a2, a3, a4, a5, a6, a7, a8⟩ := arm_same c { s with ds := upd s.ds c r.1 }
    exact ⟨a1, a2, a3, a4, a5, a6, a7, a8⟩
  · exact ⟨rfl, rfl, rfl, rfl, rfl, rfl, rfl, rfl⟩

/-- everything a peer action leaves alone, and the lock-step with the kernel-only world -/
structure PeerStep (K K' : KSt) (s t : St) : Prop where
  sync : (∀ d, SameBut (s.ds d) (K.ds d)) → ∀ d, SameBut (t.ds d) (K'.ds d)
  cons : (∀ d, s.delivered d + (s.ds d).avail = (s.ds d).arrived) →
    ∀ d, t.delivered d + (t.ds d).avail = (t.ds d).arrived
  plain : (∀ d, Plain (s.ds d)) → ∀ d, Plain (t.ds d)
  untouched : (∀ d, Plain (s.ds d)) →
    ∀ d, (s.ds d).eof = true → (t.ds d).eof = true ∧ ((s.ds d).avail = 0 → (t.ds d).avail = 0)
  delivered : t.delivered = s.delivered
  flag : t.flag = s.flag
  ctxList : t.ctxList = s.ctxList
  trace : t.trace = s.trace
  toExit : t.toExit = s.toExit
  nIdle : t.nIdle = s.nIdle
  nds : t.nds = s.nds

theorem PeerStep.refl (K : KSt) (s : St) : PeerStep K K s s :=
  ⟨fun h => h, fun h => h, fun h => h, fun _ _ he => ⟨he, fun h => h⟩, rfl, rfl, rfl, rfl, rfl, rfl, rfl⟩

theorem PeerStep.trans {K K' K'' : KSt} {s t u : St} (a : PeerStep K K' s t) (b : PeerStep K' K'' t u) :
    PeerStep K K'' s u :=
  ⟨fun h => b.sync (a.sync h), fun h => b.cons (a.cons h), fun h => b.plain (a.plain h),
   fun hp d he => by
     obtain ⟨e1, e2⟩ := a.untouched hp d he
     obtain ⟨f1, f2⟩ := b.untouched (a.plain hp) d e1
     exact ⟨f1, fun h0 => f2 (e2 h0)⟩,
   by rw [b.delivered, a.delivered], by rw [b.flag, a.flag], by rw [b.ctxList, a.ctxList],
   by rw [b.trace, a.trace], by rw [b.toExit, a.toExit], by rw [b.nIdle, a.nIdle], by rw [b.nds, a.nds]⟩

/-- one kernel operation on descriptor `d`, performed in both worlds -/
theorem peer_setDesc {K : KSt} {s : St} (d : Nat) (f : Desc → Desc × Bool)
    (hsb : ∀ x k : Desc, SameBut x k → SameBut (f x).1 (f k).1)
    (hcons : ∀ x : Desc, (f x).1.avail + x.arrived = x.avail + (f x).1.arrived)
    (hpl : ∀ x : Desc, Plain x → Plain (f x).1)
    (hend : ∀ x : Desc, Plain x → x.eof = true → (f x).1.eof = true ∧ (f x).1.avail = x.avail) :
    PeerStep K ⟨upd K.ds d (f (K.ds d)).1⟩ s (setDesc d (f (s.ds d)) s) := by
  obtain ⟨a1, a2, a3, a4, a5, a6, a7, a8⟩ := setDesc_same d (f (s.ds d)) s
  have hds : ∀ (g : Nat → Desc) v x, x ≠ d → upd g d v x = g x := fun g v x hx => by simp [upd, hx]
  have hdd : ∀ (g : Nat → Desc) v, upd g d v d = v := fun g v => by simp [upd]
  refine ⟨?_, ?_, ?_, ?_, a2, a3, a4, a5, a6, a7, a8⟩
  · intro h x
    rw [a1]
    show SameBut _ (upd K.ds d (f (K.ds d)).1 x)
    by_cases hx : x = d
    · subst hx; rw [hdd, hdd]; exact hsb _ _ (h x)
    · rw [hds _ _ x hx, hds _ _ x hx]; exact h x
  · intro h x
    rw [a1, a2]
    by_cases hx : x = d
    · subst hx; rw [hdd]
      have := hcons (s.ds x); have := h x; omega
    · rw [hds _ _ x hx]; exact h x
  · intro h x
    rw [a1]
    by_cases hx : x = d
    · subst hx; rw [hdd]; exact hpl _ (h x)
    · rw [hds _ _ x hx]; exact h x
  · intro hp x he
    rw [a1]
    by_cases hx : x = d
    · subst hx; rw [hdd]
      obtain ⟨e1, e2⟩ := hend _ (hp x) he
      exact ⟨e1, fun h0 => by rw [e2]; exact h0⟩
    · rw [hds _ _ x hx]; exact ⟨he, fun h => h⟩

theorem peer_act {K : KSt} {s : St} (a : Act) (ha : peerOnly a = true) :
    PeerStep K (kact s.nds K a) s (act a s) := by
  cases a with
  | write d n =>
    simp only [act, kact]
    split
    · exact peer_setDesc d (fun x => x.write n) (fun x k h => (write_sameBut n h).1)
        (fun x => (write_sameBut n (d := x) (k := x) ⟨rfl, rfl, rfl, rfl, rfl, rfl, rfl⟩).2.2)
        (fun x h => write_plain n h)
        (fun x h he => by rw [write_ended n h he]; exact ⟨he, rfl⟩)
    · exact PeerStep.refl K s
  | hclose d =>
    simp only [act, kact]
    split
    · exact peer_setDesc d (fun x => x.hclose) (fun x k h => (hclose_sameBut h).1)
        (fun x => by
          have := hclose_sameBut (d := x) (k := x) ⟨rfl, rfl, rfl, rfl, rfl, rfl, rfl⟩
          show x.hclose.1.avail + x.arrived = x.avail + x.hclose.1.arrived
          rw [this.2.2.1, this.2.2.2])
        (fun x h => hclose_plain h)
        (fun x h he => by rw [hclose_ended h he]; exact ⟨he, rfl⟩)
    · exact PeerStep.refl K s
  | pclose d =>
    simp only [act, kact]
    split
    · exact peer_setDesc d (fun x => x.pclose) (fun x k h => (pclose_sameBut h).1)
        (fun x => by
          have := pclose_sameBut (d := x) (k := x) ⟨rfl, rfl, rfl, rfl, rfl, rfl, rfl⟩
          show x.pclose.1.avail + x.arrived = x.avail + x.pclose.1.arrived
          rw [this.2.2.1, this.2.2.2])
        (fun x h => pclose_plain h)
        (fun x _ he => pclose_ended he)
    · exact PeerStep.refl K s
  | add d => simp [peerOnly] at ha
  | shut d => simp [peerOnly] at ha
  | wakeup => simp [peerOnly] at ha
  | exit => simp [peerOnly] at ha
  | xexit => simp [peerOnly] at ha

theorem peer_acts (as : List Act) : ∀ {K : KSt} {s : St}, (∀ a ∈ as, peerOnly a = true) →
    PeerStep K (kacts s.nds as K) s (runActs as s) := by
  induction as with
  | nil => intro K s _; exact PeerStep.refl K s
  | cons a as ih =>
    intro K s h
    have h1 := peer_act (K := K) (s := s) a (h a (by simp))
    have h2 := ih (K := kact s.nds K a) (s := act a s) (fun b hb => h b (List.mem_cons_of_mem _ hb))
    rw [h1.nds] at h2
    exact h1.trans h2

theorem xexit_same (s : St) :
    (act .xexit s).ds = s.ds ∧ (act .xexit s).delivered = s.delivered ∧ (act .xexit s).flag = s.flag ∧
    (act .xexit s).ctxList = s.ctxList ∧ (act .xexit s).trace = s.trace ∧ (act .xexit s).toExit = 2 ∧
    (act .xexit s).nIdle = s.nIdle ∧ (act .xexit s).nds = s.nds := by
  simp only [act, sigWakeup]
  obtain ⟨a1, a2, a3, a4, a5, a6, a7, a8⟩ := armSig_same { s with toExit := 2, evc := s.evc + 1 }
  exact ⟨a1, a2, a3, a4, a5, a6, a7, a8⟩

theorem doneActs_succ (sc : Script) {k : Nat} (hk : k < sc.nIdle) :
    doneActs sc (k + 1) = doneActs sc k ++ sc.onIdle k := by
  unfold doneActs
  have h1 : min (k + 1) sc.nIdle = k + 1 := by omega
  have h2 : min k sc.nIdle = k := by omega
  rw [h1, h2, List.range_succ, List.flatMap_append]
  simp

theorem doneActs_done (sc : Script) {k : Nat} (hk : sc.nIdle ≤ k) : doneActs sc k = idleActs sc := by
  unfold doneActs idleActs
  have : min k sc.nIdle = sc.nIdle := by omega
  rw [this]

theorem kacts_append (nds : Nat) (a b : List Act) (K : KSt) :
    kacts nds (a ++ b) K = kacts nds b (kacts nds a K) := by
  unfold kacts; rw [List.foldl_append]

/-- the loop going to sleep: either the next scripted batch of peer actions, or (script
exhausted) the exit request — in which case the caller shows that nothing is readable -/
theorem idle_pc {kinds pre sc} (hp : ClassP pre sc) {s : St} (h : PC none kinds pre sc s)
    (hq : sc.nIdle ≤ s.nIdle → ∀ c ∈ s.ctxList, (s.ds c).readable = false) :
    PC none kinds pre sc (idle sc s) := by
  unfold idle
  simp only []
  have h1 : PC none kinds pre sc (emit (.sleep (s.ctxList.any fun c => (s.ds c).readable)) s) :=
    PC.emit_other h (by simp) (by simp) (by simp)
  split
  · rename_i hk
    have ps := peer_acts (sc.onIdle s.nIdle) (K := Kof kinds pre sc s)
      (s := emit (.sleep (s.ctxList.any fun c => (s.ds c).readable)) { s with nIdle := s.nIdle + 1 })
      (hp.idlePeer s.nIdle)
    generalize runActs (sc.onIdle s.nIdle)
      (emit (.sleep (s.ctxList.any fun c => (s.ds c).readable)) { s with nIdle := s.nIdle + 1 }) = t at ps
    have hkof : Kof kinds pre sc t = kacts s.nds (sc.onIdle s.nIdle) (Kof kinds pre sc s) := by
      unfold Kof
      rw [ps.nIdle, ps.nds]
      show kacts s.nds (pre ++ doneActs sc (s.nIdle + 1)) _ = _
      rw [doneActs_succ sc hk, ← List.append_assoc, kacts_append]
    have htox : s.toExit = 0 := by
      rcases h.exitPhase with h' | h'
      · exact h'
      · omega
    refine ⟨?_, ps.cons h1.cons, ps.plain h1.plain, ?_, ?_, ?_, ?_, ?_, ?_, by rw [ps.nds]; exact h.ndsOk⟩
    · rw [hkof]; exact ps.sync h.sync
    · rw [ps.flag, ps.ctxList]; exact h1.flags
    · intro c hc
      rw [ps.trace] at hc
      obtain ⟨e1, e2⟩ := h1.closedDone c hc
      obtain ⟨f1, f2⟩ := ps.untouched h1.plain c e1
      exact ⟨f1, f2 e2⟩
    · left; rw [ps.toExit]; exact htox
    · intro hph
      rw [ps.nIdle] at hph
      have : sc.nIdle < s.nIdle + 1 := hph
      omega
    · intro c; rw [ps.trace, ps.nds]; exact h1.adds c
    · intro c hc; rw [ps.delivered]; rw [ps.trace] at hc; exact h1.unreg c hc
  · rename_i hk
    have hk' : sc.nIdle ≤ s.nIdle := by omega
    obtain ⟨a1, a2, a3, a4, a5, a6, a7, a8⟩ := xexit_same
      (emit (.sleep (s.ctxList.any fun c => (s.ds c).readable)) { s with nIdle := s.nIdle + 1 })
    generalize act .xexit
      (emit (.sleep (s.ctxList.any fun c => (s.ds c).readable)) { s with nIdle := s.nIdle + 1 }) = t
      at a1 a2 a3 a4 a5 a6 a7 a8
    have hkof : Kof kinds pre sc t = Kof kinds pre sc s := by
      unfold Kof
      rw [a7, a8]
      show kacts s.nds (pre ++ doneActs sc (s.nIdle + 1)) _ = _
      rw [doneActs_done sc hk', doneActs_done sc (by omega)]
    refine ⟨by rw [a1, hkof]; exact h.sync, by rw [a1, a2]; exact h.cons, by rw [a1]; exact h.plain,
      by rw [a3, a4]; exact h.flags, ?_, ?_, ?_, ?_, ?_, by rw [a8]; exact h.ndsOk⟩
    · rw [a1, a5]; exact h1.closedDone
    · right; rw [a7]; show sc.nIdle < s.nIdle + 1; omega
    · intro _; rw [a1, a4]; exact hq hk'
    · intro c; rw [a5, a8]; exact h1.adds c
    · intro c hc; rw [a2]; rw [a5] at hc; exact h1.unreg c hc

/-! ### before the run: `pre` is executed in lock-step by the kernel-only world -/

structure PreQ (kinds : List Kind) (done : List Act) (K : KSt) (s : St) : Prop where
  ds : ∀ d, s.ds d = K.ds d
  delivered : ∀ d, s.delivered d = 0
  flag : ∀ d, s.flag d = false
  noClose : ∀ c, Ev.close c ∉ s.trace
  toExit : s.toExit = 0
  nIdle : s.nIdle = 0
  ndsOk : s.nds = kinds.length
  plain : ∀ d, Plain (s.ds d)
  full : ∀ d, (s.ds d).avail = (s.ds d).arrived
  adds : ∀ c, (Ev.addOk c ∈ s.trace ∨ Ev.addRej c ∈ s.trace) ↔ (Act.add c ∈ done ∧ c < s.nds)
  triedEv : ∀ c, s.tried c = true → Ev.addOk c ∈ s.trace ∨ Ev.addRej c ∈ s.trace

theorem preQ_setDesc {kinds done K} {s : St} (h : PreQ kinds done K s) (d : Nat) (f : Desc → Desc × Bool)
    (a : Act) (ha : ∀ c, a ≠ .add c)
    (hpl : ∀ x : Desc, Plain x → Plain (f x).1)
    (hfull : ∀ x : Desc, x.avail = x.arrived → (f x).1.avail = (f x).1.arrived) :
    PreQ kinds (done ++ [a]) ⟨upd K.ds d (f (K.ds d)).1⟩ (setDesc d (f (s.ds d)) s) := by
  obtain ⟨a1, a2, a3, _, a5, a6, a7, a8⟩ := setDesc_same d (f (s.ds d)) s
  have htr : (setDesc d (f (s.ds d)) s).tried = s.tried := by
    unfold setDesc; simp only []; split
    · unfold arm; split <;> rfl
    · rfl
  refine ⟨?_, by rw [a2]; exact h.delivered, by rw [a3]; exact h.flag, by rw [a5]; exact h.noClose,
    by rw [a6]; exact h.toExit, by rw [a7]; exact h.nIdle, by rw [a8]; exact h.ndsOk, ?_, ?_, ?_, ?_⟩
  · intro x
    rw [a1]
    show upd s.ds d (f (s.ds d)).1 x = upd K.ds d (f (K.ds d)).1 x
    by_cases hx : x = d
    · subst hx; simp [upd, h.ds x]
    · simp [upd, hx, h.ds x]
  · intro x
    rw [a1]
    by_cases hx : x = d
    · subst hx; simp only [upd, ↓reduceIte]; exact hpl _ (h.plain x)
    · simp only [upd, hx, ↓reduceIte]; exact h.plain x
  · intro x
    rw [a1]
    by_cases hx : x = d
    · subst hx; simp only [upd, ↓reduceIte]; exact hfull _ (h.full x)
    · simp only [upd, hx, ↓reduceIte]; exact h.full x
  · intro c
    rw [a5, a8, h.adds c]
    constructor
    · rintro ⟨h1, h2⟩; exact ⟨by simp [h1], h2⟩
    · rintro ⟨h1, h2⟩
      simp at h1
      rcases h1 with h1 | h1
      · exact ⟨h1, h2⟩
      · exact absurd h1.symm (ha c)
  · intro c hc
    rw [htr] at hc; rw [a5]; exact h.triedEv c hc

theorem PreQ.skip {kinds done K} {s : St} (h : PreQ kinds done K s) (a : Act) (ha : ∀ c, a ≠ .add c) :
    PreQ kinds (done ++ [a]) K s := by
  refine ⟨h.ds, h.delivered, h.flag, h.noClose, h.toExit, h.nIdle, h.ndsOk, h.plain, h.full, ?_, h.triedEv⟩
  intro c
  rw [h.adds c]
  constructor
  · rintro ⟨h1, h2⟩; exact ⟨by simp [h1], h2⟩
  · rintro ⟨h1, h2⟩
    simp at h1
    rcases h1 with h1 | h1
    · exact ⟨h1, h2⟩
    · exact absurd h1.symm (ha c)

/-- a first add of a valid descriptor: an answer is recorded, nothing else the class-P invariant
looks at changes -/
theorem addCtx_fresh {s : St} {d : Nat} (ht : s.tried d = false) (hd : d < s.nds) :
    ∃ e, (e = Ev.addOk d ∨ e = Ev.addRej d) ∧ (addCtx d s).trace = e :: s.trace ∧
      (addCtx d s).tried = upd s.tried d true ∧ (addCtx d s).ds = s.ds ∧
      (addCtx d s).delivered = s.delivered ∧ (addCtx d s).flag = s.flag ∧
      (addCtx d s).toExit = s.toExit ∧ (addCtx d s).nIdle = s.nIdle ∧ (addCtx d s).nds = s.nds := by
  unfold addCtx
  simp only [ht, hd, decide_true, Bool.not_true, Bool.or_self, Bool.false_eq_true, ↓reduceIte]
  cases hb : s.backend with
  | select => exact ⟨_, Or.inl rfl, rfl, rfl, rfl, rfl, rfl, rfl, rfl, rfl⟩
  | poll =>
    simp only []
    split
    · exact ⟨_, Or.inr rfl, rfl, rfl, rfl, rfl, rfl, rfl, rfl, rfl⟩
    · exact ⟨_, Or.inl rfl, rfl, rfl, rfl, rfl, rfl, rfl, rfl, rfl⟩
  | epoll =>
    simp only []
    split
    · refine ⟨_, Or.inl rfl, ?_⟩
      simp only [emit, arm]
      split <;> exact ⟨rfl, rfl, rfl, rfl, rfl, rfl, rfl, rfl⟩
    · exact ⟨_, Or.inl rfl, rfl, rfl, rfl, rfl, rfl, rfl, rfl, rfl⟩

theorem preQ_act {kinds done K} {s : St} (h : PreQ kinds done K s) (hi : Inv none s) (a : Act)
    (ha : preOk a = true) : PreQ kinds (done ++ [a]) (kact s.nds K a) (act a s) := by
  cases a with
  | write d n =>
    simp only [act, kact]
    split
    · refine preQ_setDesc h d (fun x => x.write n) (Act.write d n) (by simp) (fun x hx => write_plain n hx) ?_
      intro x hx
      have := (write_sameBut n (d := x) (k := x) ⟨rfl, rfl, rfl, rfl, rfl, rfl, rfl⟩).2.2
      omega
    · exact h.skip (Act.write d n) (by simp)
  | hclose d =>
    simp only [act, kact]
    split
    · refine preQ_setDesc h d (fun x => x.hclose) (Act.hclose d) (by simp) (fun x hx => hclose_plain hx) ?_
      intro x hx
      have := hclose_sameBut (d := x) (k := x) ⟨rfl, rfl, rfl, rfl, rfl, rfl, rfl⟩
      show x.hclose.1.avail = x.hclose.1.arrived
      rw [this.2.2.1, this.2.2.2]; exact hx
    · exact h.skip (Act.hclose d) (by simp)
  | pclose d =>
    simp only [act, kact]
    split
    · refine preQ_setDesc h d (fun x => x.pclose) (Act.pclose d) (by simp) (fun x hx => pclose_plain hx) ?_
      intro x hx
      have := pclose_sameBut (d := x) (k := x) ⟨rfl, rfl, rfl, rfl, rfl, rfl, rfl⟩
      show x.pclose.1.avail = x.pclose.1.arrived
      rw [this.2.2.1, this.2.2.2]; exact hx
    · exact h.skip (Act.pclose d) (by simp)
  | add d =>
    simp only [kact]
    show PreQ kinds (done ++ [Act.add d]) K (addCtx d s)
    by_cases hfresh : s.tried d = false ∧ d < s.nds
    · obtain ⟨e, he, t1, t2, t3, t4, t5, t6, t7, t8⟩ := addCtx_fresh hfresh.1 hfresh.2
      have hne : ∀ c, e ≠ Ev.close c := by rcases he with rfl | rfl <;> simp
      refine ⟨by rw [t3]; exact h.ds, by rw [t4]; exact h.delivered, by rw [t5]; exact h.flag, ?_,
        by rw [t6]; exact h.toExit, by rw [t7]; exact h.nIdle, by rw [t8]; exact h.ndsOk,
        by rw [t3]; exact h.plain, by rw [t3]; exact h.full, ?_, ?_⟩
      · intro c hc
        rw [t1] at hc
        exact h.noClose c (mem_cons_ne hc (hne c).symm)
      · intro c
        rw [t1, t8]
        by_cases hcd : c = d
        · subst hcd
          constructor
          · intro _; exact ⟨by simp, hfresh.2⟩
          · intro _
            rcases he with rfl | rfl
            · exact Or.inl (by simp)
            · exact Or.inr (by simp)
        · have e1 : Ev.addOk c ≠ e := by rcases he with rfl | rfl <;> simp [hcd]
          have e2 : Ev.addRej c ≠ e := by rcases he with rfl | rfl <;> simp [hcd]
          constructor
          · rintro (hh | hh)
            · obtain ⟨q1, q2⟩ := (h.adds c).mp (Or.inl (mem_cons_ne hh e1))
              exact ⟨by simp [q1], q2⟩
            · obtain ⟨q1, q2⟩ := (h.adds c).mp (Or.inr (mem_cons_ne hh e2))
              exact ⟨by simp [q1], q2⟩
          · rintro ⟨q1, q2⟩
            simp [hcd] at q1
            rcases (h.adds c).mpr ⟨q1, q2⟩ with hh | hh
            · exact Or.inl (List.mem_cons_of_mem _ hh)
            · exact Or.inr (List.mem_cons_of_mem _ hh)
      · intro c hc
        rw [t2] at hc; rw [t1]
        by_cases hcd : c = d
        · subst hcd
          rcases he with rfl | rfl
          · exact Or.inl (by simp)
          · exact Or.inr (by simp)
        · simp [upd, hcd] at hc
          rcases h.triedEv c hc with hh | hh
          · exact Or.inl (List.mem_cons_of_mem _ hh)
          · exact Or.inr (List.mem_cons_of_mem _ hh)
    · have hsame : addCtx d s = s := by
        unfold addCtx
        have : (s.tried d || !decide (d < s.nds)) = true := by
          cases ht : s.tried d <;> simp_all
        simp [this]
      rw [hsame]
      refine ⟨h.ds, h.delivered, h.flag, h.noClose, h.toExit, h.nIdle, h.ndsOk, h.plain, h.full, ?_, h.triedEv⟩
      intro c
      rw [h.adds c]
      constructor
      · rintro ⟨q1, q2⟩; exact ⟨by simp [q1], q2⟩
      · rintro ⟨q1, q2⟩
        simp at q1
        rcases q1 with q1 | q1
        · exact ⟨q1, q2⟩
        · subst q1
          -- the add is a repetition (or names no descriptor): it was answered before
          have htd : s.tried c = true := by
            cases ht : s.tried c
            · exact absurd ⟨ht, q2⟩ hfresh
            · rfl
          exact ⟨((h.adds c).mp (h.triedEv c htd)).1, q2⟩
  | shut d => simp [preOk] at ha
  | wakeup => simp [preOk] at ha
  | exit => simp [preOk] at ha
  | xexit => simp [preOk] at ha

theorem preQ_acts {kinds} (as : List Act) : ∀ {done K} {s : St}, PreQ kinds done K s → Inv none s →
    (∀ a ∈ as, preOk a = true) → PreQ kinds (done ++ as) (kacts s.nds as K) (runActs as s) := by
  induction as with
  | nil => intro done K s h _ _; simpa [kacts, runActs] using h
  | cons a as ih =>
    intro done K s h hi hall
    have h1 := preQ_act h hi a (hall a (by simp))
    have h2 := ih h1 (act_inv a hi) (fun b hb => hall b (List.mem_cons_of_mem _ hb))
    have hn : (act a s).nds = s.nds := (act_mle a s).nds
    rw [hn] at h2
    simpa [kacts, runActs, List.append_assoc] using h2

theorem doneActs_zero (sc : Script) : doneActs sc 0 = [] := by
  unfold doneActs; simp

/-- the class-P invariant holds when `muggle_evloop_run` is entered -/
theorem pre_pc {kinds pre sc} (hp : ClassP pre sc) (b : Backend) (hints : Nat) (legacy lsel cfd : Bool) :
    PC none kinds pre sc (runActs pre (initSt b hints legacy kinds lsel cfd)) := by
  have q0 : PreQ kinds [] (K0 kinds) (initSt b hints legacy kinds lsel cfd) := by
    refine ⟨fun _ => rfl, fun _ => rfl, fun _ => rfl, by simp [initSt], rfl, rfl, rfl, ?_, fun _ => rfl,
      by simp [initSt], by simp [initSt]⟩
    intro d; simp [Plain, initSt]
  have i0 : Inv none (initSt b hints legacy kinds lsel cfd) := by
    constructor <;> simp [initSt, LoopWF]
  have q := preQ_acts pre q0 i0 hp.preOk
  simp only [List.nil_append] at q
  generalize runActs pre (initSt b hints legacy kinds lsel cfd) = s at q
  have hn : (initSt b hints legacy kinds lsel cfd).nds = s.nds := by
    rw [q.ndsOk]; rfl
  have hk : Kof kinds pre sc s = kacts (initSt b hints legacy kinds lsel cfd).nds pre (K0 kinds) := by
    unfold Kof
    rw [q.nIdle, doneActs_zero, List.append_nil, hn]
  refine ⟨?_, ?_, q.plain, fun c _ _ => q.flag c, fun c hc => absurd hc (q.noClose c), Or.inl q.toExit, ?_,
    q.adds, fun c _ => q.delivered c, q.ndsOk⟩
  · intro d
    rw [hk, q.ds d]
    exact ⟨rfl, rfl, rfl, rfl, rfl, rfl, rfl⟩
  · intro d
    rw [q.delivered d, q.full d]; simp
  · intro hph
    rw [q.nIdle] at hph
    exact absurd hph (Nat.not_lt_zero _)

/-- **Outcome characterisation.** A state at the end of the back-end loop that satisfies the
class-P invariant and was left through the exit request gives every context the outcome of the
kernel-only specification. -/
theorem outcome_of_pc {kinds pre sc} {s : St} (h : PC none kinds pre sc s) (hi : Inv none s)
    (hexit : s.toExit = 1) (hrej : ∀ c, Ev.addRej c ∉ s.trace) (c : Nat) :
    (s.delivered c,
      if Ev.close c ∈ s.trace then Fate.closed else if c ∈ s.ctxList then Fate.cleared else Fate.none) =
    specOutcome kinds pre sc c := by
  have hph : sc.nIdle < s.nIdle := by
    rcases h.exitPhase with h' | h'
    · rw [hexit] at h'; cases h'
    · exact h'
  have hk : Kof kinds pre sc s = kacts kinds.length (pre ++ idleActs sc) (K0 kinds) := by
    unfold Kof
    rw [doneActs_done sc (Nat.le_of_lt hph), h.ndsOk]
  have hsync := h.sync c
  rw [hk] at hsync
  unfold specOutcome
  simp only []
  show _ = (if (pre.contains (Act.add c) && decide (c < kinds.length)) = true then
    (((kacts kinds.length (pre ++ idleActs sc) (K0 kinds)).ds c).arrived,
      if ((kacts kinds.length (pre ++ idleActs sc) (K0 kinds)).ds c).eof = true then Fate.closed
      else Fate.cleared) else (0, Fate.none))
  obtain ⟨_, harr, _, heof, _, _, _⟩ := hsync
  rw [← harr, ← heof]
  by_cases hadd : Act.add c ∈ pre ∧ c < kinds.length
  · have hcond : (pre.contains (Act.add c) && decide (c < kinds.length)) = true := by
      simp [hadd.1, hadd.2]
    rw [if_pos hcond]
    have hok : Ev.addOk c ∈ s.trace := by
      rcases (h.adds c).mpr ⟨hadd.1, by rw [h.ndsOk]; exact hadd.2⟩ with h' | h'
      · exact h'
      · exact absurd h' (hrej c)
    by_cases hcl : Ev.close c ∈ s.trace
    · obtain ⟨e1, e2⟩ := h.closedDone c hcl
      have := h.cons c
      rw [if_pos hcl, e1]
      simp only [↓reduceIte]
      congr 1
      omega
    · have hmem : c ∈ s.ctxList := hi.complete c hok hcl
      obtain ⟨e1, e2⟩ := plain_quiet (h.plain c) (h.quiet hph c hmem)
      have := h.cons c
      rw [if_neg hcl, if_pos hmem, e2]
      simp only [Bool.false_eq_true, ↓reduceIte]
      congr 1
      omega
  · have hcond : ¬ (pre.contains (Act.add c) && decide (c < kinds.length)) = true := by
      intro hh
      simp at hh
      exact hadd hh
    rw [if_neg hcond]
    have hnok : Ev.addOk c ∉ s.trace := by
      intro hok
      have := (h.adds c).mp (Or.inl hok)
      exact hadd ⟨this.1, by rw [← h.ndsOk]; exact this.2⟩
    have hncl : Ev.close c ∉ s.trace := fun hcl => hnok (close_mem_addOk hi.wf hcl)
    have hnmem : c ∉ s.ctxList := fun hm => hnok (hi.sound c hm).1
    rw [h.unreg c hnok, if_neg hncl, if_neg hnmem]

/-! ### select -/

theorem selRead_pc {kinds pre sc} (hp : ClassP pre sc) {s : St} (h : PC none kinds pre sc s)
    (hi : Inv none s) {c : Nat} (hc : c ∈ s.ctxList) :
    PC (some c) kinds pre sc (selRead sc c s) ∧
    ((selRead sc c s).flag c = true → ((selRead sc c s).ds c).eof = true ∧ ((selRead sc c s).ds c).avail = 0) := by
  unfold selRead
  split
  · obtain ⟨p1, p2, _, _⟩ := cbRead_pc hp h hc (hi.sound c hc).1
    exact ⟨p1, p2⟩
  · refine ⟨h.weaken c, fun hf => ?_⟩
    rw [h.flags c hc (by simp)] at hf; cases hf

theorem selClose_pc {kinds pre sc} (hp : ClassP pre sc) {s : St} (h : PC (some c) kinds pre sc s)
    (hi : Inv none s) {i : Nat} (hic : s.ctxList[i]? = some c)
    (hdone : (s.ds c).eof = true ∧ (s.ds c).avail = 0) : PC none kinds pre sc (selClose sc i c s) := by
  unfold selClose
  obtain ⟨a1, a2, a3, a4, a5, a6, a7, a8⟩ := cbClose_P hp c s
  generalize cbClose sc c s = s3 at a1 a2 a3 a4 a5 a6 a7 a8
  simp only []
  refine pc_close h hdone a1 a2 a3 ?_ a5 a6 a7 a8
  intro c' hc'
  have hc'' : c' ∈ s3.ctxList.eraseIdx i := hc'
  rw [a4, eraseIdx_eq_erase_of_nodup hi.nodupL hic] at hc''
  exact ⟨List.mem_of_mem_erase hc'', fun hh => by subst hh; exact hi.nodupL.not_mem_erase hc''⟩

theorem selScan_pc {kinds pre sc} (hp : ClassP pre sc) (f : Nat) : ∀ (i : Nat) {s : St},
    PC none kinds pre sc s → Inv none s → s.backend = .select → PC none kinds pre sc (selScan sc f i s) := by
  induction f with
  | zero => intro i s h _ _; unfold selScan; exact h.congr rfl rfl rfl rfl rfl rfl rfl rfl
  | succ f ih =>
    intro i s h hi hb
    unfold selScan
    split
    · exact h
    · rename_i c hic
      have hc : c ∈ s.ctxList := List.mem_of_getElem? hic
      obtain ⟨p1, p2⟩ := selRead_pc hp h hi hc
      have i1 := selRead_inv sc hi hc
      have x1 := selRead_ext sc c s
      have hic1 := x1.ctx_get hic
      have hb1 : (selRead sc c s).backend = .select := by rw [x1.backend, hb]
      generalize selRead sc c s = s1 at p1 p2 i1 hic1 hb1
      simp only []
      split
      · rename_i hf
        exact ih i (selClose_pc hp p1 i1 hic1 (p2 hf)) (selClose_inv sc i1 hb1 hic1)
          (by rw [selClose_backend, hb1])
      · rename_i hf
        have hf' : s1.flag c = false := by cases hx : s1.flag c <;> simp_all
        exact ih (i + 1) ((pc_keep p1 hf').congr rfl rfl rfl rfl rfl rfl rfl rfl) (selSetFd_inv c i1) hb1

theorem selDispatch_pc {kinds pre sc} (hp : ClassP pre sc) {s : St} (h : PC none kinds pre sc s)
    (hi : Inv none s) (hb : s.backend = .select) : PC none kinds pre sc (selDispatch sc s) := by
  unfold selDispatch
  simp only []
  have h0 : PC none kinds pre sc { s with nfds := 0, allset := [], allsig := false } :=
    h.congr rfl rfl rfl rfl rfl rfl rfl rfl
  have i0 : Inv none { s with nfds := 0, allset := [], allsig := false } :=
    hi.congr rfl rfl rfl rfl rfl rfl rfl
  have h1 : ∃ s1, s1 = (if s.rsig then handleWake sc { s with nfds := 0, allset := [], allsig := false }
      else { s with nfds := 0, allset := [], allsig := false }) ∧ PC none kinds pre sc s1 ∧ Inv none s1 ∧
      s1.backend = .select := by
    refine ⟨_, rfl, ?_⟩
    split
    · exact ⟨handleWake_pc hp h0, handleWake_inv sc i0, by rw [(handleWake_ext sc _).backend]; exact hb⟩
    · exact ⟨h0, i0, hb⟩
  obtain ⟨s1, hs1, p1, i1, b1⟩ := h1
  rw [← hs1]
  exact selScan_pc hp _ 0 (p1.congr rfl rfl rfl rfl rfl rfl rfl rfl) (i1.congr rfl rfl rfl rfl rfl rfl rfl) b1

theorem selLoop_pc {kinds pre sc} (hp : ClassP pre sc) (f : Nat) : ∀ {s : St},
    PC none kinds pre sc s → SelC s → SelF none s → Inv none s →
    PC none kinds pre sc (selLoop sc f s) ∧
      ((selLoop sc f s).toExit = 1 ∨ Ev.fuel ∈ (selLoop sc f s).trace) := by
  induction f with
  | zero =>
    intro s h _ _ _
    unfold selLoop
    exact ⟨PC.emit_other h (by simp) (by simp) (by simp), Or.inr (by simp [emit])⟩
  | succ f ih =>
    intro s h hc hf hi
    unfold selLoop
    rw [selBad_false hf]
    simp only [Bool.false_eq_true, ↓reduceIte]
    have hq : SelC (selQuery s) := by
      unfold selQuery
      exact hc.step (SRel.of_eq rfl rfl rfl rfl rfl rfl rfl)
    have hfq : SelF none (selQuery s) := by unfold selQuery; exact hf.congr rfl rfl rfl rfl
    have hiq : Inv none (selQuery s) := by unfold selQuery; exact hi.congr rfl rfl rfl rfl rfl rfl rfl
    have hpq : PC none kinds pre sc (selQuery s) := by
      unfold selQuery; exact h.congr rfl rfl rfl rfl rfl rfl rfl rfl
    split
    · rename_i hz
      have hr := select_block_none_readable hc hz
      have hr' : ∀ c ∈ s.ctxList, (s.ds c).readable = false := by
        rw [List.any_eq_false] at hr
        intro c hcc
        cases hx : (s.ds c).readable
        · rfl
        · exact absurd hx (hr c hcc)
      exact ih (idle_pc hp hpq (fun _ => hr')) (idle_selc sc hq hr) (idle_self sc hfq hiq) (idle_inv sc hiq)
    · have hid : Inv none (emit .disp (selQuery s)) :=
        inv_emit_of hiq (by simp) (by simp) (by simp) trivial
      have hcd : SelC (emit .disp (selQuery s)) := hq.step (emit_srel (by simp) _)
      have hfd : SelF none (emit .disp (selQuery s)) := emit_self (by simp) (by simp) hfq
      have hpd : PC none kinds pre sc (emit .disp (selQuery s)) :=
        PC.emit_other hpq (by simp) (by simp) (by simp)
      have p1 := selDispatch_pc hp hpd hid hq.backend
      split
      · rename_i hx
        exact ⟨p1, Or.inl hx⟩
      · exact ih p1 (selDispatch_c sc hcd hid) (selDispatch_self sc hfd hid hq.backend)
          (selDispatch_inv sc hid hq.backend).1

/-! ### poll -/

/-- the revents of the table are the masks of the descriptors as they were when `poll` returned
(`D0`), and since then the dispatch has only consumed bytes -/
structure RevOK (D0 : Nat → Desc) (s : St) : Prop where
  rev : ∀ e ∈ s.ptab, e.rev = (D0 e.fd).mask
  drained : ∀ d, (s.ds d).avail ≤ (D0 d).avail ∧ SameBut (s.ds d) (D0 d)

theorem mask_hup_eof {d : Desc} (h : Plain d) (hh : d.mask.hup = true ∨ d.mask.err = true) : d.eof = true := by
  obtain ⟨_, h2, h3, _⟩ := h
  unfold Desc.mask at hh
  cases hk : d.kind <;> simp [hk, h2] at hh
  · exact hh
  · exact h3 hh
  · exact h3 hh

theorem mask_noin_avail {d : Desc} (hi : d.mask.inn = false) : d.avail = 0 := by
  unfold Desc.mask at hi
  cases hk : d.kind <;> simp [hk] at hi
  · exact hi
  · exact hi.1
  · exact hi.1

theorem SameBut.plain {a b : Desc} (h : SameBut a b) (hp : Plain a) : Plain b := by
  obtain ⟨_, _, a3, a4, a5, a6, a7⟩ := h
  obtain ⟨p1, p2, p3, p4⟩ := hp
  exact ⟨by rw [← a7]; exact p1, by rw [← a6]; exact p2, by rw [← a5, ← a4]; exact p3,
    by rw [← a4, ← a3]; exact p4⟩

theorem pollVisit_pc {kinds pre sc} (hp : ClassP pre sc) {D0 : Nat → Desc} {s : St}
    (h : PC none kinds pre sc s) (hi : Inv none s) (hv : PInv s) (hr : RevOK D0 s) {i : Nat} {e : PEnt}
    (he : s.ptab[i]? = some e) :
    PC none kinds pre sc (pollVisit sc i e s) ∧ RevOK D0 (pollVisit sc i e s) := by
  have hmem := getElem?_mem' he
  have hc : e.node ∈ s.ctxList := hi.pMem e hmem
  have hfd : e.fd = e.node := hv.fdNode e hmem
  have hrev : e.rev = (D0 e.node).mask := by rw [← hfd]; exact hr.rev e hmem
  have hreg : Ev.addOk e.node ∈ s.trace := (hi.sound _ hc).1
  unfold pollVisit
  -- after the read callback and the HUP/ERR flagging
  have h2 : ∃ s2, s2 = pollFlag e (pollRead sc e s) ∧ PC (some e.node) kinds pre sc s2 ∧
      (s2.flag e.node = true → (s2.ds e.node).eof = true ∧ (s2.ds e.node).avail = 0) ∧
      RevOK D0 s2 ∧ s2.ptab = s.ptab ∧ s2.ctxList = s.ctxList ∧ Inv none s2 := by
    refine ⟨_, rfl, ?_⟩
    unfold pollRead pollFlag
    by_cases hin : e.rev.inn = true
    · simp only [hin, ↓reduceIte]
      have i2 := cbRead_inv sc hi hc
      obtain ⟨p1, p2, p3, p4⟩ := cbRead_pc hp h hc hreg
      have hpt : (cbRead sc e.node s).ptab = s.ptab := by rw [cbRead_P hp]; rfl
      have hro : RevOK D0 (cbRead sc e.node s) :=
        ⟨by rw [hpt]; exact hr.rev, fun d => ⟨Nat.le_trans (p3 d).1 (hr.drained d).1,
          (p3 d).2.trans (hr.drained d).2⟩⟩
      have havail : ((cbRead sc e.node s).ds e.node).avail = 0 := by
        rw [cbRead_P hp]; simp [emit, upd]
      generalize cbRead sc e.node s = s1 at p1 p2 p4 hpt hro havail i2
      split
      · rename_i hh
        have heof0 : (D0 e.node).eof = true := by
          apply mask_hup_eof ((hr.drained e.node).2.plain (h.plain e.node))
          rw [← hrev]; simpa using hh
        have heof : (s1.ds e.node).eof = true := by rw [(hro.drained e.node).2.2.2.2.1]; exact heof0
        refine ⟨?_, fun _ => ⟨heof, havail⟩, ⟨hro.rev, hro.drained⟩, hpt, p4,
          i2.congr rfl rfl rfl rfl rfl rfl rfl⟩
        refine ⟨p1.sync, p1.cons, p1.plain, ?_, p1.closedDone, p1.exitPhase, p1.quiet, p1.adds, p1.unreg, p1.ndsOk⟩
        intro c' hc' hne
        have hne' : c' ≠ e.node := fun hx => hne (by rw [hx])
        show upd s1.flag e.node true c' = false
        simp [upd, hne']; exact p1.flags c' hc' hne
      · exact ⟨p1, p2, hro, hpt, p4, i2⟩
    · have hin' : e.rev.inn = false := by cases hx : e.rev.inn <;> simp_all
      simp only [hin', Bool.false_eq_true, ↓reduceIte]
      split
      · rename_i hh
        have heof0 : (D0 e.node).eof = true := by
          apply mask_hup_eof ((hr.drained e.node).2.plain (h.plain e.node))
          rw [← hrev]; simpa using hh
        have hav0 : (D0 e.node).avail = 0 := mask_noin_avail (by rw [← hrev]; exact hin')
        refine ⟨pc_flag e.node h, fun _ => ⟨?_, ?_⟩, ⟨hr.rev, hr.drained⟩, rfl, rfl,
          hi.congr rfl rfl rfl rfl rfl rfl rfl⟩
        · show (s.ds e.node).eof = true
          rw [(hr.drained e.node).2.2.2.2.1]; exact heof0
        · show (s.ds e.node).avail = 0
          have := (hr.drained e.node).1; omega
      · refine ⟨h.weaken e.node, fun hf => ?_, hr, rfl, rfl, hi⟩
        rw [h.flags e.node hc (by simp)] at hf; cases hf
  obtain ⟨s2, hs2, p2, pdone, r2, hpt, hcl, i2⟩ := h2
  rw [← hs2]
  unfold pollFinish
  split
  · rename_i hf
    obtain ⟨a1, a2, a3, a4, a5, a6, a7, a8⟩ := cbClose_P hp e.node s2
    have hpt3 : (cbClose sc e.node s2).ptab = s2.ptab := by
      rcases cbClose_eq sc e.node s2 with hx | hx <;> rw [hx] <;>
        simp only [hp.noClose, runActs, List.foldl_nil] <;> rfl
    have he3 : (cbClose sc e.node s2).ptab[i]? = some e := by rw [hpt3, hpt]; exact he
    have hnd3 : ((cbClose sc e.node s2).ptab.map (·.node)).Nodup := by rw [hpt3, hpt]; exact hi.pNodup
    generalize cbClose sc e.node s2 = s3 at a1 a2 a3 a4 a5 a6 a7 a8 hpt3 he3 hnd3
    obtain ⟨_, f2, _⟩ := swapRemove_facts (·.node) s3.ptab i e he3 hnd3
    constructor
    · refine pc_close p2 (pdone hf) a1 a2 a3 ?_ a5 a6 a7 a8
      intro c' hc'
      have hc'' : c' ∈ s3.ctxList.erase e.node := hc'
      rw [a4] at hc''
      exact ⟨List.mem_of_mem_erase hc'', fun hx => by
        rw [hx] at hc''; exact i2.nodupL.not_mem_erase hc''⟩
    · refine ⟨?_, ?_⟩
      · intro x hx
        have hx' : x ∈ swapRemove s3.ptab i := hx
        have := (f2 x hx').1
        rw [hpt3] at this
        exact r2.rev x this
      · intro d
        show ((pollRemove i e s3).ds d).avail ≤ _ ∧ _
        have : (pollRemove i e s3).ds = s2.ds := a1
        rw [this]; exact r2.drained d
  · rename_i hf
    have hf' : s2.flag e.node = false := by cases hx : s2.flag e.node <;> simp_all
    exact ⟨pc_keep p2 hf', r2⟩

theorem pollScan_pc {kinds pre sc} (hp : ClassP pre sc) {D0 : Nat → Desc} (i : Nat) : ∀ (n : Int) {s : St},
    PC none kinds pre sc s → Inv none s → PInv s → RevOK D0 s → PC none kinds pre sc (pollScan sc i n s) := by
  induction i with
  | zero =>
    intro n s h _ _ _
    unfold pollScan
    split
    · exact handleWake_pc hp h
    · exact h
  | succ i ih =>
    intro n s h hi hv hr
    unfold pollScan
    split
    · exact h.congr rfl rfl rfl rfl rfl rfl rfl rfl
    · rename_i e he
      simp only []
      obtain ⟨p1, r1⟩ := pollVisit_pc hp h hi hv hr he
      split
      · exact p1
      · exact ih _ p1 (pollVisit_inv sc hi he) (pollVisit_pinv sc hv hi he) r1

theorem pollLoop_pc {kinds pre sc} (hp : ClassP pre sc) (f : Nat) : ∀ {s : St},
    PC none kinds pre sc s → PInv s → Inv none s →
    PC none kinds pre sc (pollLoop sc f s) ∧
      ((pollLoop sc f s).toExit = 1 ∨ Ev.fuel ∈ (pollLoop sc f s).trace) := by
  induction f with
  | zero =>
    intro s h _ _
    unfold pollLoop
    exact ⟨PC.emit_other h (by simp) (by simp) (by simp), Or.inr (by simp [emit])⟩
  | succ f ih =>
    intro s h hv hi
    unfold pollLoop
    have hpq : PC none kinds pre sc (pollQuery s) := by
      unfold pollQuery; exact h.congr rfl rfl rfl rfl rfl rfl rfl rfl
    simp only []
    split
    · rename_i hz
      have hr := poll_block_none_readable hv hz
      have hr' : ∀ c ∈ s.ctxList, (s.ds c).readable = false := by
        rw [List.any_eq_false] at hr
        intro c hcc
        cases hx : (s.ds c).readable
        · rfl
        · exact absurd hx (hr c hcc)
      exact ih (idle_pc hp hpq (fun _ => hr')) (idle_pinv sc (pollQuery_pinv hv) hr)
        (idle_inv sc (pollQuery_inv hi))
    · have hid : Inv none (emit .disp (pollQuery s)) :=
        inv_emit_of (pollQuery_inv hi) (by simp) (by simp) (by simp) trivial
      have hvd : PInv (emit .disp (pollQuery s)) := emit_pinv (by simp) (pollQuery_pinv hv)
      have hpd : PC none kinds pre sc (emit .disp (pollQuery s)) :=
        PC.emit_other hpq (by simp) (by simp) (by simp)
      have hro : RevOK s.ds (emit .disp (pollQuery s)) := by
        refine ⟨?_, fun d => ⟨Nat.le_refl _, rfl, rfl, rfl, rfl, rfl, rfl, rfl⟩⟩
        intro e he
        have he' : e ∈ s.ptab.map (fun e => { e with rev := (s.ds e.fd).mask }) := he
        simp at he'
        obtain ⟨e0, _, hee⟩ := he'
        subst hee; rfl
      have p1 := pollScan_pc hp (pollQuery s).ptab.length (pollCount (pollQuery s)) hpd hid hvd hro
      split
      · rename_i hx
        exact ⟨p1, Or.inl hx⟩
      · exact ih p1 (pollScan_pinv sc _ _ hvd hid) (pollScan_inv sc _ _ hid)

/-! ### epoll -/

/-- the masks of the batch are those of the descriptors when `epoll_wait` returned (`D0`) -/
def BatchOK (D0 : Nat → Desc) (b : List (Src × Mask)) : Prop :=
  ∀ c mk, (Src.ctx c, mk) ∈ b → mk = (D0 c).mask

theorem epVisit_pc {kinds pre sc} (hp : ClassP pre sc) {D0 : Nat → Desc} {s : St} {c : Nat} {mk : Mask}
    (h : PC none kinds pre sc s) (hi : Inv none s) (hc : c ∈ s.ctxList) (hmk : mk = (D0 c).mask)
    (hmany : mk.any = true)
    (hdr : ∀ d, (s.ds d).avail ≤ (D0 d).avail ∧ SameBut (s.ds d) (D0 d)) :
    PC none kinds pre sc (epVisit sc c mk s) ∧
      ∀ d, ((epVisit sc c mk s).ds d).avail ≤ (D0 d).avail ∧ SameBut ((epVisit sc c mk s).ds d) (D0 d) := by
  have hreg : Ev.addOk c ∈ s.trace := (hi.sound _ hc).1
  unfold epVisit
  have h2 : ∃ s2, s2 = epRead sc c mk s ∧ PC (some c) kinds pre sc s2 ∧
      (s2.flag c = true → (s2.ds c).eof = true ∧ (s2.ds c).avail = 0) ∧
      (∀ d, (s2.ds d).avail ≤ (D0 d).avail ∧ SameBut (s2.ds d) (D0 d)) ∧ s2.ctxList = s.ctxList ∧
      Inv none s2 := by
    refine ⟨_, rfl, ?_⟩
    unfold epRead
    by_cases hin : mk.inn = true
    · simp only [hin, ↓reduceIte]
      obtain ⟨p1, p2, p3, p4⟩ := cbRead_pc hp h hc hreg
      exact ⟨p1, p2, fun d => ⟨Nat.le_trans (p3 d).1 (hdr d).1, (p3 d).2.trans (hdr d).2⟩, p4,
        cbRead_inv sc hi hc⟩
    · have hin' : mk.inn = false := by cases hx : mk.inn <;> simp_all
      simp only [hin', Bool.false_eq_true, ↓reduceIte]
      have hhe : (mk.err || mk.hup) = true := by
        unfold Mask.any at hmany
        simp [hin'] at hmany
        rcases hmany with hh | hh <;> simp [hh]
      simp only [hhe, ↓reduceIte]
      have heof0 : (D0 c).eof = true := by
        apply mask_hup_eof ((hdr c).2.plain (h.plain c))
        rw [← hmk]
        simp at hhe
        rcases hhe with hh | hh
        · exact Or.inr hh
        · exact Or.inl hh
      have hav0 : (D0 c).avail = 0 := mask_noin_avail (by rw [← hmk]; exact hin')
      refine ⟨pc_flag c h, fun _ => ⟨?_, ?_⟩, hdr, by first | rfl | trivial, hi.congr rfl rfl rfl rfl rfl rfl rfl⟩
      · show (s.ds c).eof = true
        rw [(hdr c).2.2.2.2.1]; exact heof0
      · show (s.ds c).avail = 0
        have := (hdr c).1; omega
  obtain ⟨s2, hs2, p2, pdone, d2, hcl, i2⟩ := h2
  rw [← hs2]
  unfold epFinish
  split
  · rename_i hf
    have hdel : PC (some c) kinds pre sc (epDel c s2) := p2.congr rfl rfl rfl rfl rfl rfl rfl rfl
    have hdone' : ((epDel c s2).ds c).eof = true ∧ ((epDel c s2).ds c).avail = 0 := pdone hf
    obtain ⟨a1, a2, a3, a4, a5, a6, a7, a8⟩ := cbClose_P hp c (epDel c s2)
    generalize cbClose sc c (epDel c s2) = s3 at a1 a2 a3 a4 a5 a6 a7 a8
    simp only []
    constructor
    · refine pc_close hdel hdone' a1 a2 a3 ?_ a5 a6 a7 a8
      intro c' hc'
      have hc'' : c' ∈ s3.ctxList.erase c := hc'
      rw [a4] at hc''
      have hc3 : c' ∈ s2.ctxList.erase c := hc''
      exact ⟨List.mem_of_mem_erase hc3, fun hx => by
        rw [hx] at hc3; exact i2.nodupL.not_mem_erase hc3⟩
    · intro d
      show (s3.ds d).avail ≤ _ ∧ _
      rw [a1]; exact d2 d
  · rename_i hf
    have hf' : s2.flag c = false := by cases hx : s2.flag c <;> simp_all
    exact ⟨pc_keep p2 hf', d2⟩

theorem epBatch_pc {kinds pre sc} (hp : ClassP pre sc) {D0 : Nat → Desc} (b : List (Src × Mask)) :
    ∀ {s : St}, PC none kinds pre sc s → Inv none s → s.backend = .epoll → (b.map (·.1)).Nodup →
    (∀ x ∈ b, x.2.any = true) → BatchOK D0 b → (∀ c mk, (Src.ctx c, mk) ∈ b → c ∈ s.ctxList) →
    (∀ d, (s.ds d).avail ≤ (D0 d).avail ∧ SameBut (s.ds d) (D0 d)) →
    PC none kinds pre sc (epBatch sc b s) := by
  induction b with
  | nil => intro s h _ _ _ _ _ _ _; exact h
  | cons x r ih =>
    intro s h hi hb hnd hany hbo hmem hdr
    obtain ⟨src, mk⟩ := x
    have hnd' : (r.map (·.1)).Nodup := (List.nodup_cons.mp hnd).2
    have hany' : ∀ x ∈ r, x.2.any = true := fun x hx => hany x (List.mem_cons_of_mem _ hx)
    have hbo' : BatchOK D0 r := fun c mk' hm => hbo c mk' (List.mem_cons_of_mem _ hm)
    cases src with
    | sig =>
      unfold epBatch
      have h1 : ∃ s1, s1 = (if mk.inn then handleWake sc s else s) ∧ PC none kinds pre sc s1 ∧ Inv none s1 ∧
          s1.backend = .epoll ∧ s1.ctxList = s.ctxList ∧ s1.ds = s.ds := by
        refine ⟨_, rfl, ?_⟩
        split
        · refine ⟨handleWake_pc hp h, handleWake_inv sc hi, by rw [(handleWake_ext sc s).backend]; exact hb, ?_, ?_⟩
          · rw [handleWake_P hp]; split <;> rfl
          · rw [handleWake_P hp]; split <;> rfl
        · exact ⟨h, hi, hb, rfl, rfl⟩
      obtain ⟨s1, hs1, p1, i1, b1, c1, d1⟩ := h1
      rw [← hs1]
      refine ih p1 i1 b1 hnd' hany' hbo' ?_ (by rw [d1]; exact hdr)
      intro c mk' hm
      rw [c1]; exact hmem c mk' (List.mem_cons_of_mem _ hm)
    | ctx c =>
      unfold epBatch
      have hc : c ∈ s.ctxList := hmem c mk (by simp)
      obtain ⟨v1, v2, v3⟩ := epVisit_inv sc hi hb hc mk
      obtain ⟨p1, d1⟩ := epVisit_pc hp h hi hc (hbo c mk (by simp)) (hany (Src.ctx c, mk) (by simp)) hdr
      refine ih p1 v1 v2 hnd' hany' hbo' ?_ d1
      intro c' mk' hm
      have hne : c' ≠ c := by
        intro hh; subst hh
        have : Src.ctx c' ∈ r.map (·.1) := List.mem_map_of_mem (f := (·.1)) hm
        exact (List.nodup_cons.mp hnd).1 this
      exact v3 c' hne (hmem c' mk' (List.mem_cons_of_mem _ hm))

theorem epCollect_mask (s : St) (l : List Src) : ∀ (m : Nat) (c : Nat) (mk : Mask),
    (Src.ctx c, mk) ∈ (epCollect s l m).1 → mk = (s.ds c).mask := by
  induction l with
  | nil => intro m c mk hx; simp [epCollect] at hx
  | cons a rest ih =>
    intro m
    cases m with
    | zero => intro c mk hx; simp [epCollect] at hx
    | succ m =>
      unfold epCollect
      simp only []
      split
      · intro c mk hx
        simp at hx
        rcases hx with ⟨h1, h2⟩ | hx
        · subst h1; rw [h2]; rfl
        · exact ih m c mk hx
      · exact ih (m + 1)

theorem epLoop_pc {kinds pre sc} (hp : ClassP pre sc) (f : Nat) : ∀ {s : St},
    PC none kinds pre sc s → EInv none [] s → Inv none s →
    PC none kinds pre sc (epLoop sc f s) ∧
      ((epLoop sc f s).toExit = 1 ∨ Ev.fuel ∈ (epLoop sc f s).trace) := by
  induction f with
  | zero =>
    intro s h _ _
    unfold epLoop
    exact ⟨PC.emit_other h (by simp) (by simp) (by simp), Or.inr (by simp [emit])⟩
  | succ f ih =>
    intro s h he hi
    unfold epLoop
    obtain ⟨c1, c2⟩ := epCollect_sub s s.armed (s.hints + 1)
    have hiq : Inv none { s with armed := (epCollect s s.armed (s.hints + 1)).2 } := by
      constructor
      · exact hi.nodupL
      · exact hi.sound
      · exact hi.complete
      · exact hi.triedOk
      · exact hi.wf
      · exact hi.pNodup
      · exact hi.pMem
      · exact hi.eNodup
      · exact hi.eMem
      · exact hi.aNodup.sublist c2
      · intro c hc; exact hi.aMem c (c2.subset hc)
      · exact hi.pOnly
      · exact hi.eOnly
    have hq : EInv none (ctxIds (epCollect s s.armed (s.hints + 1)).1)
        { s with armed := (epCollect s s.armed (s.hints + 1)).2 } := by
      refine ⟨he.backend, he.reg, ?_, he.hupEof, he.noLost⟩
      intro c hc hcur hm
      rcases he.ready c hc hcur hm with h' | h'
      · rcases epCollect_cover s s.armed (s.hints + 1) (.ctx c) h' hm with h2 | h2
        · exact Or.inr (mem_ctxIds.mpr h2)
        · exact Or.inl h2
      · simp at h'
    have hpq : PC none kinds pre sc { s with armed := (epCollect s s.armed (s.hints + 1)).2 } :=
      h.congr rfl rfl rfl rfl rfl rfl rfl rfl
    simp only []
    split
    · rename_i hempty
      have hem : (epCollect s s.armed (s.hints + 1)).1 = [] := by simpa using hempty
      have hnone := epCollect_empty s s.armed s.hints hem
      have hr' : ∀ c ∈ s.ctxList, (s.ds c).readable = false := by
        intro c hc
        cases hrd : (s.ds c).readable
        · rfl
        · rcases he.ready c hc (by simp) hrd with h' | h'
          · have := hnone _ h'
            simp [srcMask] at this
            rw [show (s.ds c).readable = (s.ds c).mask.any from rfl] at hrd
            rw [this] at hrd; cases hrd
          · simp at h'
      have hr : (s.ctxList.any fun c => (s.ds c).readable) = false := by
        rw [List.any_eq_false]
        intro c hc hx
        rw [hr' c hc] at hx; cases hx
      rw [hem] at hq
      exact ih (idle_pc hp hpq (fun _ => hr')) (idle_einv sc hq hr) (idle_inv sc hiq)
    · have hnd : ((epCollect s s.armed (s.hints + 1)).1.map (·.1)).Nodup := hi.aNodup.sublist c1
      have hmem : ∀ c mk, (Src.ctx c, mk) ∈ (epCollect s s.armed (s.hints + 1)).1 →
          c ∈ (emit .disp { s with armed := (epCollect s s.armed (s.hints + 1)).2 }).ctxList := by
        intro c mk hm
        have : Src.ctx c ∈ (epCollect s s.armed (s.hints + 1)).1.map (·.1) :=
          List.mem_map_of_mem (f := (·.1)) hm
        exact hi.eMem c (hi.aMem c (c1.subset this))
      have hid := inv_emit_of (e := .disp) hiq (by simp) (by simp) (by simp) trivial
      have hpd : PC none kinds pre sc (emit .disp { s with armed := (epCollect s s.armed (s.hints + 1)).2 }) :=
        PC.emit_other hpq (by simp) (by simp) (by simp)
      have p1 := epBatch_pc hp (D0 := s.ds) _ hpd hid he.backend hnd (epCollect_any s s.armed (s.hints + 1))
        (fun c mk hm => epCollect_mask s s.armed (s.hints + 1) c mk hm) hmem
        (fun d => ⟨Nat.le_refl _, rfl, rfl, rfl, rfl, rfl, rfl, rfl⟩)
      have e1 := epBatch_einv sc hp.drain _ (emit_einv (e := .disp) (by simp) hq) hid hnd
        (epCollect_any s s.armed (s.hints + 1)) hmem
      have i1 := epBatch_inv sc _ hid he.backend hnd hmem
      split
      · rename_i hx
        exact ⟨p1, Or.inl hx⟩
      · exact ih p1 e1 i1.1

end MgProof.C13
