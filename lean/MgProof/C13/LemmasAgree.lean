import MgProof.C13.LemmasEpollReady
/-!
# C13 — agreement: for externally driven, draining scripts (class P) the outcome of every
context is a function of the kernel history alone, whatever the back-end

Class P: read callbacks drain and perform no actions, close / wake callbacks perform no
actions, peers act only while the loop sleeps (`onIdle`: write / half-close / close) or
before the run (`pre`: the same, plus the adds).
-/
namespace MgProof.C13
open MgModel.C13

structure ClassP (pre : List Act) (sc : Script) : Prop where
  drain : ∀ c, sc.rmode c = .all
  noRead : ∀ c b a, sc.onRead c b a = []
  noClose : ∀ c, sc.onClose c = []
  noWake : ∀ k, sc.onWake k = []
  idlePeer : ∀ k, ∀ a ∈ sc.onIdle k, peerOnly a = true
  preOk : ∀ a ∈ pre, preOk a = true

/-! ### descriptors that differ only in the number of unread bytes -/

/-- `d` is `k` with some bytes already consumed: same stream state, same total -/
def SameBut (d k : Desc) : Prop :=
  d.kind = k.kind ∧ d.arrived = k.arrived ∧ d.pwr = k.pwr ∧ d.eof = k.eof ∧ d.hup = k.hup ∧
  d.err = k.err ∧ d.shut = k.shut

/-- never shut down, never reset, `HUP` only with end-of-stream: all a peer can produce -/
def Plain (d : Desc) : Prop := d.shut = false ∧ d.err = false ∧ (d.hup = true → d.eof = true)

theorem write_sameBut {d k : Desc} (n : Nat) (h : SameBut d k) :
    SameBut (d.write n).1 (k.write n).1 ∧ (d.write n).2 = (k.write n).2 ∧
    ((d.write n).1.avail + d.arrived = d.avail + (d.write n).1.arrived) := by
  obtain ⟨h1, h2, h3, h4, h5, h6, h7⟩ := h
  unfold Desc.write
  rw [h3, h7, h1, h6]
  split
  · exact ⟨⟨h1, h2, h3, h4, h5, h6, h7⟩, rfl, by omega⟩
  · split
    · split
      · split
        · exact ⟨⟨h1, h2, h3, h4, h5, h6, h7⟩, rfl, by omega⟩
        · exact ⟨⟨h1, h2, h3, h4, h5, rfl, h7⟩, rfl, by simp⟩
      · exact ⟨⟨h1, h2, h3, h4, h5, h6, h7⟩, rfl, by omega⟩
    · refine ⟨⟨h1, ?_, h3, h4, h5, h6, h7⟩, rfl, ?_⟩
      · show d.arrived + n = k.arrived + n; omega
      · show d.avail + n + d.arrived = d.avail + (d.arrived + n); omega

theorem hclose_sameBut {d k : Desc} (h : SameBut d k) :
    SameBut d.hclose.1 k.hclose.1 ∧ d.hclose.2 = k.hclose.2 ∧
    d.hclose.1.avail = d.avail ∧ d.hclose.1.arrived = d.arrived := by
  obtain ⟨h1, h2, h3, h4, h5, h6, h7⟩ := h
  unfold Desc.hclose
  rw [h3]
  split
  · exact ⟨⟨h1, h2, h3, h4, h5, h6, h7⟩, rfl, rfl, rfl⟩
  · exact ⟨⟨h1, h2, rfl, rfl, h5, h6, h7⟩, rfl, rfl, rfl⟩

theorem pclose_sameBut {d k : Desc} (h : SameBut d k) :
    SameBut d.pclose.1 k.pclose.1 ∧ d.pclose.2 = k.pclose.2 ∧
    d.pclose.1.avail = d.avail ∧ d.pclose.1.arrived = d.arrived := by
  obtain ⟨h1, h2, h3, h4, h5, h6, h7⟩ := h
  unfold Desc.pclose
  rw [h1, h3, h5]
  split
  · split
    · exact ⟨⟨h1, h2, h3, h4, h5, h6, h7⟩, rfl, rfl, rfl⟩
    · exact ⟨⟨h1, h2, rfl, rfl, h5, h6, h7⟩, rfl, rfl, rfl⟩
  · split
    · exact ⟨⟨h1, h2, h3, h4, h5, h6, h7⟩, rfl, rfl, rfl⟩
    · exact ⟨⟨h1, h2, rfl, rfl, rfl, h6, h7⟩, rfl, rfl, rfl⟩
  · split
    · exact ⟨⟨h1, h2, h3, h4, h5, h6, h7⟩, rfl, rfl, rfl⟩
    · exact ⟨⟨h1, h2, rfl, rfl, h5, h6, h7⟩, rfl, rfl, rfl⟩

theorem write_plain {d : Desc} (n : Nat) (h : Plain d) : Plain (d.write n).1 := by
  obtain ⟨h1, h2, h3⟩ := h
  unfold Desc.write
  rw [h1]
  split
  · exact ⟨h1, h2, h3⟩
  · simp only [Bool.false_eq_true, ↓reduceIte]
    exact ⟨h1, h2, h3⟩

theorem hclose_plain {d : Desc} (h : Plain d) : Plain d.hclose.1 := by
  obtain ⟨h1, h2, h3⟩ := h
  unfold Desc.hclose
  split
  · exact ⟨h1, h2, h3⟩
  · exact ⟨h1, h2, fun _ => rfl⟩

theorem pclose_plain {d : Desc} (h : Plain d) : Plain d.pclose.1 := by
  obtain ⟨h1, h2, h3⟩ := h
  unfold Desc.pclose
  split
  · split
    · exact ⟨h1, h2, h3⟩
    · exact ⟨h1, h2, fun _ => rfl⟩
  · split
    · exact ⟨h1, h2, h3⟩
    · exact ⟨h1, h2, fun _ => rfl⟩
  · split
    · exact ⟨h1, h2, h3⟩
    · exact ⟨h1, h2, fun _ => rfl⟩

/-- a plain descriptor that is not readable has nothing queued and its stream has not ended -/
theorem plain_quiet {d : Desc} (h : Plain d) (hq : d.readable = false) : d.avail = 0 ∧ d.eof = false := by
  obtain ⟨_, h2, h3⟩ := h
  unfold Desc.readable Desc.mask Mask.any at hq
  cases hk : d.kind <;> simp [hk] at hq
  · exact ⟨hq.1, hq.2⟩
  · exact ⟨hq.1.1, hq.1.2⟩
  · exact ⟨hq.1.1, hq.1.2⟩

/-- a plain descriptor whose stream has ended is readable -/
theorem plain_eof_readable {d : Desc} (he : d.eof = true) : d.readable = true := by
  unfold Desc.readable Desc.mask Mask.any
  cases hk : d.kind <;> simp [he]

end MgProof.C13
