import MgProof.C13.LemmasPoll
import MgProof.C13.LemmasSelect
/-!
# C13 — clause 2 for the level-triggered back-ends: the loop never goes to sleep while a
registered context is readable

`idle` records in the `sleep` event whether some context of `ctx_list` is readable at the
moment the wait call would block. For poll this cannot happen because the `fds/nodes`
table always covers `ctx_list` (`PInv`); for select because `allset/nfds` are rebuilt to
cover it at the end of every dispatch (`SelC`, the rebuild lemma).
-/
namespace MgProof.C13
open MgModel.C13

def NoLost (tr : List Ev) : Prop := Ev.sleep true ∉ tr

theorem noLost_cons {tr : List Ev} {e : Ev} (h : NoLost tr) (he : e ≠ Ev.sleep true) : NoLost (e :: tr) := by
  intro hh
  simp at hh
  rcases hh with hh | hh
  · exact he hh.symm
  · exact h hh

/-! ### poll: the table covers the context list -/

structure PInv (s : St) : Prop where
  backend : s.backend = .poll
  fdNode : ∀ e ∈ s.ptab, e.fd = e.node
  cover : ∀ c ∈ s.ctxList, ∃ e ∈ s.ptab, e.node = c
  noLost : NoLost s.trace

theorem PInv.congr {s t : St} (h : PInv s) (h0 : t.backend = s.backend)
    (h1 : t.ctxList = s.ctxList) (h2 : t.trace = s.trace) (h4 : t.ptab = s.ptab) : PInv t :=
  ⟨by rw [h0]; exact h.backend, by rw [h4]; exact h.fdNode, by rw [h1, h4]; exact h.cover,
   by rw [h2]; exact h.noLost⟩

theorem arm_pinv {s : St} (c : Nat) (h : PInv s) : PInv (arm c s) := by
  unfold arm; split
  · exact h.congr rfl rfl rfl rfl
  · exact h

theorem armSig_pinv {s : St} (h : PInv s) : PInv (armSig s) := by
  unfold armSig; split
  · exact h.congr rfl rfl rfl rfl
  · exact h

theorem setDesc_pinv {s : St} (c : Nat) (r : Desc × Bool) (h : PInv s) : PInv (setDesc c r s) := by
  unfold setDesc
  simp only []
  split
  · exact arm_pinv c (h.congr rfl rfl rfl rfl)
  · exact h.congr rfl rfl rfl rfl

theorem emit_pinv {s : St} {e : Ev} (he : e ≠ Ev.sleep true) (h : PInv s) : PInv (emit e s) :=
  ⟨h.backend, h.fdNode, h.cover, noLost_cons h.noLost he⟩

theorem addCtx_pinv {s : St} (c : Nat) (h : PInv s) : PInv (addCtx c s) := by
  unfold addCtx
  split
  · exact h
  · rw [h.backend]
    simp only []
    split
    · exact emit_pinv (by simp) (h.congr h.backend.symm rfl rfl rfl)
    · refine emit_pinv (by simp) ⟨rfl, ?_, ?_, h.noLost⟩
      · intro e he
        have he' : e ∈ s.ptab ++ [{ node := c, fd := c }] := he
        simp at he'
        rcases he' with he' | he'
        · exact h.fdNode e he'
        · subst he'; rfl
      · intro c' hc'
        have hc'' : c' ∈ s.ctxList ++ [c] := hc'
        simp at hc''
        rcases hc'' with hc'' | hc''
        · obtain ⟨e, he, hen⟩ := h.cover c' hc''
          exact ⟨e, by show e ∈ s.ptab ++ _; simp [he], hen⟩
        · subst hc''
          exact ⟨{ node := c', fd := c' }, by show _ ∈ s.ptab ++ _; simp, rfl⟩

theorem act_pinv {s : St} (a : Act) (h : PInv s) : PInv (act a s) := by
  cases a with
  | write d n => simp only [act]; split; exact setDesc_pinv _ _ h; exact h
  | hclose d => simp only [act]; split; exact setDesc_pinv _ _ h; exact h
  | pclose d => simp only [act]; split; exact setDesc_pinv _ _ h; exact h
  | add d => exact addCtx_pinv d h
  | shut d =>
    simp only [act]; split
    · exact setDesc_pinv _ _ (h.congr rfl rfl rfl rfl)
    · exact h
  | wakeup => exact armSig_pinv (h.congr rfl rfl rfl rfl)
  | exit => exact armSig_pinv (h.congr rfl rfl rfl rfl)
  | xexit => exact armSig_pinv (h.congr rfl rfl rfl rfl)

theorem runActs_pinv (as : List Act) {s : St} (h : PInv s) : PInv (runActs as s) := by
  unfold runActs
  induction as generalizing s with
  | nil => exact h
  | cons a as ih => exact ih (act_pinv a h)

theorem cbRead_pinv (sc : Script) (c : Nat) {s : St} (h : PInv s) : PInv (cbRead sc c s) := by
  unfold cbRead
  exact runActs_pinv _ (emit_pinv (by simp) (h.congr rfl rfl rfl rfl))

theorem cbClose_pinv (sc : Script) (c : Nat) {s : St} (h : PInv s) : PInv (cbClose sc c s) := by
  have h1 : PInv (runActs (sc.onClose c) (emit (.close c) s)) := runActs_pinv _ (emit_pinv (by simp) h)
  rcases cbClose_eq sc c s with he | he <;> rw [he]
  · exact h1
  · exact h1.congr rfl rfl rfl rfl

theorem handleWake_pinv (sc : Script) {s : St} (h : PInv s) : PInv (handleWake sc s) := by
  unfold handleWake
  simp only []
  have h1 : PInv (runActs (sc.onWake s.nWake) (emit .wake { s with evc := 0, nWake := s.nWake + 1 })) :=
    runActs_pinv _ (emit_pinv (by simp) (h.congr rfl rfl rfl rfl))
  split
  · exact h1.congr rfl rfl rfl rfl
  · exact h1

theorem pollQuery_pinv {s : St} (h : PInv s) : PInv (pollQuery s) := by
  unfold pollQuery
  refine ⟨h.backend, ?_, ?_, h.noLost⟩
  · intro e he
    have he' : e ∈ s.ptab.map (fun e => { e with rev := (s.ds e.fd).mask }) := he
    simp at he'
    obtain ⟨e0, he0, hee⟩ := he'
    subst hee
    exact h.fdNode e0 he0
  · intro c hc
    obtain ⟨e, he, hen⟩ := h.cover c hc
    refine ⟨{ e with rev := (s.ds e.fd).mask }, ?_, hen⟩
    show _ ∈ s.ptab.map _
    exact List.mem_map_of_mem he

theorem pollVisit_pinv (sc : Script) {s : St} (h : PInv s) (hi : Inv none s) {i : Nat} {e : PEnt}
    (he : s.ptab[i]? = some e) : PInv (pollVisit sc i e s) := by
  unfold pollVisit
  have hc : e.node ∈ s.ctxList := hi.pMem e (getElem?_mem' he)
  have h1 : PInv (pollFlag e (pollRead sc e s)) := by
    unfold pollFlag pollRead
    split
    · split
      · exact (cbRead_pinv sc _ h).congr rfl rfl rfl rfl
      · exact h.congr rfl rfl rfl rfl
    · split
      · exact cbRead_pinv sc _ h
      · exact h
  have i1 : Inv none (pollFlag e (pollRead sc e s)) := pollFlag_inv e (pollRead_inv sc hi hc)
  have x1 : Ext s (pollFlag e (pollRead sc e s)) := (pollRead_ext sc e s).trans (pollFlag_ext e _)
  have he1 := x1.ptab_get he
  have hc1 := x1.mem_ctx hc
  generalize pollFlag e (pollRead sc e s) = s1 at h1 i1 he1 hc1
  unfold pollFinish
  split
  · have h3 := cbClose_pinv sc e.node h1
    have i3 := cbClose_inv sc i1 hc1
    have he3 := (cbClose_ext sc e.node s1).ptab_get he1
    generalize cbClose sc e.node s1 = s3 at h3 i3 he3
    obtain ⟨f1, f2, f3⟩ := swapRemove_facts (·.node) s3.ptab i e he3 i3.pNodup
    refine ⟨h3.backend, ?_, ?_, h3.noLost⟩
    · intro x hx; exact h3.fdNode x (f2 x hx).1
    · intro c hc
      have hc' : c ∈ s3.ctxList.erase e.node := hc
      have hne : c ≠ e.node := by
        intro hh; subst hh
        exact i3.nodupL.not_mem_erase hc'
      obtain ⟨x, hx, hxn⟩ := h3.cover c (List.mem_of_mem_erase hc')
      exact ⟨x, f3 x hx (by rw [hxn]; exact hne), hxn⟩
  · exact h1

theorem pollScan_pinv (sc : Script) (i : Nat) : ∀ (n : Int) {s : St}, PInv s → Inv none s →
    PInv (pollScan sc i n s) := by
  induction i with
  | zero =>
    intro n s h _
    unfold pollScan
    split
    · exact handleWake_pinv sc h
    · exact h
  | succ i ih =>
    intro n s h hi
    unfold pollScan
    split
    · exact h.congr rfl rfl rfl rfl
    · rename_i e he
      simp only []
      split
      · exact pollVisit_pinv sc h hi he
      · exact ih _ (pollVisit_pinv sc h hi he) (pollVisit_inv sc hi he)

/-- when `poll` would block, no registered context is readable -/
theorem poll_block_none_readable {s : St} (h : PInv s) (hz : pollCount (pollQuery s) = 0) :
    (s.ctxList.any fun c => (s.ds c).readable) = false := by
  rw [List.any_eq_false]
  intro c hc
  obtain ⟨e, he, hen⟩ := h.cover c hc
  have hfd := h.fdNode e he
  unfold pollCount pollQuery at hz
  simp only [] at hz
  have hz1 : (List.filter (fun e => e.rev.any)
      (s.ptab.map fun e => { e with rev := (s.ds e.fd).mask })).length = 0 := by omega
  have hnil := List.length_eq_zero_iff.mp hz1
  have hmem : ({ e with rev := (s.ds e.fd).mask } : PEnt) ∈
      s.ptab.map (fun e => { e with rev := (s.ds e.fd).mask }) := List.mem_map_of_mem he
  have := (List.filter_eq_nil_iff.mp hnil) _ hmem
  simp only [] at this
  rw [hfd, hen] at this
  simpa [Desc.readable] using this

theorem idle_pinv (sc : Script) {s : St} (h : PInv s)
    (hq : (s.ctxList.any fun c => (s.ds c).readable) = false) : PInv (idle sc s) := by
  unfold idle
  simp only []
  rw [hq]
  have h1 : PInv (emit (.sleep false) { s with nIdle := s.nIdle + 1 }) :=
    emit_pinv (by simp) (h.congr rfl rfl rfl rfl)
  split
  · exact runActs_pinv _ h1
  · exact act_pinv _ h1

theorem pollLoop_pinv (sc : Script) (f : Nat) : ∀ {s : St}, PInv s → Inv none s →
    PInv (pollLoop sc f s) := by
  induction f with
  | zero =>
    intro s h _
    unfold pollLoop
    exact emit_pinv (by simp) h
  | succ f ih =>
    intro s h hi
    unfold pollLoop
    simp only []
    split
    · rename_i hz
      have hq := poll_block_none_readable h hz
      exact ih (idle_pinv sc (pollQuery_pinv h) hq) (idle_inv sc (pollQuery_inv hi))
    · have hi1 : Inv none (emit .disp (pollQuery s)) :=
        inv_emit_of (pollQuery_inv hi) (by simp) (by simp) (by simp) trivial
      have h1 := pollScan_pinv sc (pollQuery s).ptab.length (pollCount (pollQuery s))
        (emit_pinv (e := .disp) (by simp) (pollQuery_pinv h)) hi1
      split
      · exact h1
      · exact ih h1 (pollScan_inv sc _ _ hi1)

/-! ### select: monotonicity of `allset/nfds` under callbacks, and the scan-length measure -/

structure SMono (s t : St) : Prop where
  allset : ∀ c ∈ s.allset, c ∈ t.allset
  nfds : s.nfds ≤ t.nfds
  allsig : t.allsig = s.allsig
  nds : t.nds = s.nds
  nosleep : Ev.sleep true ∈ t.trace → Ev.sleep true ∈ s.trace

theorem SMono.refl (s : St) : SMono s s := ⟨fun _ h => h, Nat.le_refl _, rfl, rfl, fun h => h⟩

theorem SMono.trans {s t u : St} (a : SMono s t) (b : SMono t u) : SMono s u :=
  ⟨fun c h => b.allset c (a.allset c h), Nat.le_trans a.nfds b.nfds, by rw [b.allsig, a.allsig],
   by rw [b.nds, a.nds], fun h => a.nosleep (b.nosleep h)⟩

theorem SMono.of_eq {s t : St} (h1 : t.allset = s.allset) (h2 : t.nfds = s.nfds)
    (h3 : t.allsig = s.allsig) (h4 : t.nds = s.nds) (h5 : t.trace = s.trace) : SMono s t :=
  ⟨fun c h => by rw [h1]; exact h, by rw [h2]; exact Nat.le_refl _, h3, h4, fun h => by rw [← h5]; exact h⟩

theorem arm_smono (c : Nat) (s : St) : SMono s (arm c s) := by
  unfold arm; split
  · exact SMono.of_eq rfl rfl rfl rfl rfl
  · exact SMono.refl s

theorem armSig_smono (s : St) : SMono s (armSig s) := by
  unfold armSig; split
  · exact SMono.of_eq rfl rfl rfl rfl rfl
  · exact SMono.refl s

theorem setDesc_smono (c : Nat) (r : Desc × Bool) (s : St) : SMono s (setDesc c r s) := by
  unfold setDesc
  simp only []
  split
  · refine SMono.trans ?_ (arm_smono _ _)
    exact SMono.of_eq rfl rfl rfl rfl rfl
  · exact SMono.of_eq rfl rfl rfl rfl rfl

theorem emit_smono {e : Ev} (he : e ≠ Ev.sleep true) (s : St) : SMono s (emit e s) :=
  ⟨fun _ h => h, Nat.le_refl _, rfl, rfl, fun h => by
    have h' : Ev.sleep true ∈ e :: s.trace := h
    simp at h'
    rcases h' with h' | h'
    · exact absurd h'.symm he
    · exact h'⟩

theorem selSetFd_smono (c : Nat) (s : St) : SMono s (selSetFd c s) := by
  unfold selSetFd
  refine ⟨?_, ?_, rfl, rfl, fun h => h⟩
  · intro c' hc'
    show c' ∈ (if s.allset.contains c then s.allset else c :: s.allset)
    split
    · exact hc'
    · exact List.mem_cons_of_mem _ hc'
  · show s.nfds ≤ (if fdOf c > s.nfds then fdOf c else s.nfds)
    split <;> omega

theorem selSetFd_mem (c : Nat) (s : St) :
    c ∈ (selSetFd c s).allset ∧ fdOf c ≤ (selSetFd c s).nfds := by
  unfold selSetFd
  constructor
  · show c ∈ (if s.allset.contains c then s.allset else c :: s.allset)
    split
    · rename_i h; simpa using h
    · simp
  · show fdOf c ≤ (if fdOf c > s.nfds then fdOf c else s.nfds)
    split <;> omega

theorem addCtx_smono (c : Nat) (s : St) : SMono s (addCtx c s) := by
  unfold addCtx
  split
  · exact SMono.refl s
  · cases hb : s.backend with
    | select =>
      simp only []
      refine SMono.trans ?_ (emit_smono (e := .addOk c) (by simp) _)
      refine SMono.trans ?_ (selSetFd_smono c _)
      exact SMono.of_eq rfl rfl rfl rfl rfl
    | poll =>
      simp only []
      split
      · refine SMono.trans ?_ (emit_smono (e := .addRej c) (by simp) _)
        exact SMono.of_eq rfl rfl rfl rfl rfl
      · refine SMono.trans ?_ (emit_smono (e := .addOk c) (by simp) _)
        exact SMono.of_eq rfl rfl rfl rfl rfl
    | epoll =>
      simp only []
      refine SMono.trans ?_ (emit_smono (e := .addOk c) (by simp) _)
      split
      · refine SMono.trans ?_ (arm_smono _ _)
        exact SMono.of_eq rfl rfl rfl rfl rfl
      · exact SMono.of_eq rfl rfl rfl rfl rfl

theorem act_smono (a : Act) (s : St) : SMono s (act a s) := by
  cases a with
  | write d n => simp only [act]; split; exact setDesc_smono _ _ _; exact SMono.refl s
  | hclose d => simp only [act]; split; exact setDesc_smono _ _ _; exact SMono.refl s
  | pclose d => simp only [act]; split; exact setDesc_smono _ _ _; exact SMono.refl s
  | add d => exact addCtx_smono d s
  | shut d =>
    simp only [act]; split
    · refine SMono.trans ?_ (setDesc_smono _ _ _)
      exact SMono.of_eq rfl rfl rfl rfl rfl
    · exact SMono.refl s
  | wakeup =>
    simp only [act, sigWakeup]
    refine SMono.trans ?_ (armSig_smono _)
    exact SMono.of_eq rfl rfl rfl rfl rfl
  | exit =>
    simp only [act, sigWakeup]
    refine SMono.trans ?_ (armSig_smono _)
    exact SMono.of_eq rfl rfl rfl rfl rfl
  | xexit =>
    simp only [act, sigWakeup]
    refine SMono.trans ?_ (armSig_smono _)
    exact SMono.of_eq rfl rfl rfl rfl rfl

theorem runActs_smono (as : List Act) (s : St) : SMono s (runActs as s) := by
  unfold runActs
  induction as generalizing s with
  | nil => exact SMono.refl s
  | cons a as ih => exact (act_smono a s).trans (ih _)

theorem cbRead_smono (sc : Script) (c : Nat) (s : St) : SMono s (cbRead sc c s) := by
  unfold cbRead
  refine SMono.trans ?_ (runActs_smono _ _)
  refine SMono.trans ?_ (emit_smono (e := .read c _ _) (by simp) _)
  exact SMono.of_eq rfl rfl rfl rfl rfl

theorem cbClose_smono (sc : Script) (c : Nat) (s : St) : SMono s (cbClose sc c s) := by
  have h1 : SMono s (runActs (sc.onClose c) (emit (.close c) s)) :=
    (emit_smono (e := .close c) (by simp) _).trans (runActs_smono _ _)
  rcases cbClose_eq sc c s with he | he <;> rw [he]
  · exact h1
  · exact h1.trans (SMono.of_eq rfl rfl rfl rfl rfl)

theorem handleWake_smono (sc : Script) (s : St) : SMono s (handleWake sc s) := by
  unfold handleWake
  simp only []
  have h1 : SMono s (runActs (sc.onWake s.nWake) (emit .wake { s with evc := 0, nWake := s.nWake + 1 })) := by
    refine SMono.trans ?_ (runActs_smono _ _)
    refine SMono.trans ?_ (emit_smono (e := .wake) (by simp) _)
    exact SMono.of_eq rfl rfl rfl rfl rfl
  split
  · exact h1.trans (SMono.of_eq rfl rfl rfl rfl rfl)
  · exact h1

/-! ### the scan of `ctx_list` terminates within its fuel -/

def untried (s : St) : Nat := (List.range s.nds).countP (fun d => !s.tried d)

/-- contexts in the list + contexts that can still be added: never increased by callbacks -/
def scanM (s : St) : Nat := s.ctxList.length + untried s

theorem countP_upd {l : List Nat} (hn : l.Nodup) {c : Nat} (hc : c ∈ l) (f : Nat → Bool)
    (hf : f c = false) :
    l.countP (fun d => !(upd f c true d)) + 1 = l.countP (fun d => !f d) := by
  induction l with
  | nil => simp at hc
  | cons a l ih =>
    obtain ⟨h1, h2⟩ := List.nodup_cons.mp hn
    rw [List.countP_cons, List.countP_cons]
    by_cases hac : a = c
    · subst hac
      have hrest : l.countP (fun d => !(upd f a true d)) = l.countP (fun d => !f d) := by
        apply List.countP_congr
        intro d hd
        have : d ≠ a := fun hh => h1 (hh ▸ hd)
        simp [upd, this]
      rw [hrest]
      have h1' : upd f a true a = true := by simp [upd]
      simp [h1', hf]
    · have hc' : c ∈ l := by
        simp at hc
        rcases hc with hc | hc
        · exact absurd hc.symm hac
        · exact hc
      have := ih h2 hc'
      have hupd : upd f c true a = f a := by simp [upd, hac]
      rw [hupd]
      omega

structure MLe (s t : St) : Prop where
  le : scanM t ≤ scanM s
  nds : t.nds = s.nds

theorem MLe.refl (s : St) : MLe s s := ⟨Nat.le_refl _, rfl⟩
theorem MLe.trans {s t u : St} (a : MLe s t) (b : MLe t u) : MLe s u :=
  ⟨Nat.le_trans b.le a.le, by rw [b.nds, a.nds]⟩
theorem MLe.of_eq {s t : St} (h1 : t.ctxList = s.ctxList) (h2 : t.tried = s.tried) (h3 : t.nds = s.nds) :
    MLe s t := ⟨by unfold scanM untried; rw [h1, h2, h3]; exact Nat.le_refl _, h3⟩

theorem arm_mle (c : Nat) (s : St) : MLe s (arm c s) := by
  unfold arm; split
  · exact MLe.of_eq rfl rfl rfl
  · exact MLe.refl s

theorem armSig_mle (s : St) : MLe s (armSig s) := by
  unfold armSig; split
  · exact MLe.of_eq rfl rfl rfl
  · exact MLe.refl s

theorem setDesc_mle (c : Nat) (r : Desc × Bool) (s : St) : MLe s (setDesc c r s) := by
  unfold setDesc
  simp only []
  split
  · refine MLe.trans ?_ (arm_mle _ _)
    exact MLe.of_eq rfl rfl rfl
  · exact MLe.of_eq rfl rfl rfl

theorem addCtx_mle (c : Nat) (s : St) : MLe s (addCtx c s) := by
  unfold addCtx
  split
  · exact MLe.refl s
  · rename_i hc
    have htr : s.tried c = false := by cases ht : s.tried c <;> simp_all
    have hlt : c < s.nds := by
      cases hd : decide (c < s.nds) <;> simp_all
    have hcnt := countP_upd (l := List.range s.nds) List.nodup_range (by simpa using hlt) s.tried htr
    -- any state with one more list entry at most and `tried c` set
    have key : ∀ t : St, t.ctxList.length ≤ s.ctxList.length + 1 → t.tried = upd s.tried c true →
        t.nds = s.nds → MLe s t := by
      intro t h1 h2 h3
      refine ⟨?_, h3⟩
      unfold scanM untried
      rw [h2, h3]
      omega
    cases hb : s.backend with
    | select => exact key _ (by simp [emit, selSetFd]) rfl rfl
    | poll =>
      simp only []
      split
      · exact key _ (by simp [emit]) rfl rfl
      · exact key _ (by simp [emit]) rfl rfl
    | epoll =>
      simp only []
      split
      · refine key _ ?_ ?_ ?_ <;> simp [emit, arm] <;> split <;> simp
      · exact key _ (by simp [emit]) rfl rfl

theorem act_mle (a : Act) (s : St) : MLe s (act a s) := by
  cases a with
  | write d n => simp only [act]; split; exact setDesc_mle _ _ _; exact MLe.refl s
  | hclose d => simp only [act]; split; exact setDesc_mle _ _ _; exact MLe.refl s
  | pclose d => simp only [act]; split; exact setDesc_mle _ _ _; exact MLe.refl s
  | add d => exact addCtx_mle d s
  | shut d =>
    simp only [act]; split
    · refine MLe.trans ?_ (setDesc_mle _ _ _)
      exact MLe.of_eq rfl rfl rfl
    · exact MLe.refl s
  | wakeup =>
    simp only [act, sigWakeup]
    refine MLe.trans ?_ (armSig_mle _)
    exact MLe.of_eq rfl rfl rfl
  | exit =>
    simp only [act, sigWakeup]
    refine MLe.trans ?_ (armSig_mle _)
    exact MLe.of_eq rfl rfl rfl
  | xexit =>
    simp only [act, sigWakeup]
    refine MLe.trans ?_ (armSig_mle _)
    exact MLe.of_eq rfl rfl rfl

theorem runActs_mle (as : List Act) (s : St) : MLe s (runActs as s) := by
  unfold runActs
  induction as generalizing s with
  | nil => exact MLe.refl s
  | cons a as ih => exact (act_mle a s).trans (ih _)

theorem cbRead_mle (sc : Script) (c : Nat) (s : St) : MLe s (cbRead sc c s) := by
  unfold cbRead
  refine MLe.trans ?_ (runActs_mle _ _)
  exact MLe.of_eq rfl rfl rfl

theorem cbClose_mle (sc : Script) (c : Nat) (s : St) : MLe s (cbClose sc c s) := by
  have h1 : MLe s (runActs (sc.onClose c) (emit (.close c) s)) := by
    refine MLe.trans ?_ (runActs_mle _ _)
    exact MLe.of_eq rfl rfl rfl
  rcases cbClose_eq sc c s with he | he <;> rw [he]
  · exact h1
  · exact h1.trans (MLe.of_eq rfl rfl rfl)

theorem handleWake_mle (sc : Script) (s : St) : MLe s (handleWake sc s) := by
  unfold handleWake
  simp only []
  have h1 : MLe s (runActs (sc.onWake s.nWake) (emit .wake { s with evc := 0, nWake := s.nWake + 1 })) := by
    refine MLe.trans ?_ (runActs_mle _ _)
    exact MLe.of_eq rfl rfl rfl
  split
  · exact h1.trans (MLe.of_eq rfl rfl rfl)
  · exact h1

theorem untried_le (s : St) : untried s ≤ s.nds := by
  unfold untried
  have := List.countP_le_length (p := fun d => !s.tried d) (l := List.range s.nds)
  simpa using this

/-! ### select: every context appended by a callback is put into `allset` -/

def Covered (s : St) (c : Nat) : Prop := c ∈ s.allset ∧ fdOf c ≤ s.nfds

structure SRel (s t : St) : Prop where
  mono : SMono s t
  backend : t.backend = s.backend
  newcov : s.backend = .select → ∀ c ∈ t.ctxList, c ∈ s.ctxList ∨ Covered t c

theorem Covered.mono {s t : St} (m : SMono s t) {c : Nat} (h : Covered s c) : Covered t c :=
  ⟨m.allset c h.1, Nat.le_trans h.2 m.nfds⟩

theorem SRel.refl (s : St) : SRel s s := ⟨SMono.refl s, rfl, fun _ _ h => Or.inl h⟩

theorem SRel.trans {s t u : St} (a : SRel s t) (b : SRel t u) : SRel s u := by
  refine ⟨a.mono.trans b.mono, by rw [b.backend, a.backend], ?_⟩
  intro hb c hc
  rcases b.newcov (by rw [a.backend]; exact hb) c hc with h | h
  · rcases a.newcov hb c h with h' | h'
    · exact Or.inl h'
    · exact Or.inr (h'.mono b.mono)
  · exact Or.inr h

theorem SRel.of_eq {s t : St} (h0 : t.backend = s.backend) (hc : t.ctxList = s.ctxList)
    (h1 : t.allset = s.allset) (h2 : t.nfds = s.nfds)
    (h3 : t.allsig = s.allsig) (h4 : t.nds = s.nds) (h5 : t.trace = s.trace) : SRel s t :=
  ⟨SMono.of_eq h1 h2 h3 h4 h5, h0, fun _ _ h => Or.inl (by rw [← hc]; exact h)⟩

theorem arm_srel (c : Nat) (s : St) : SRel s (arm c s) := by
  unfold arm; split
  · exact SRel.of_eq rfl rfl rfl rfl rfl rfl rfl
  · exact SRel.refl s

theorem armSig_srel (s : St) : SRel s (armSig s) := by
  unfold armSig; split
  · exact SRel.of_eq rfl rfl rfl rfl rfl rfl rfl
  · exact SRel.refl s

theorem setDesc_srel (c : Nat) (r : Desc × Bool) (s : St) : SRel s (setDesc c r s) := by
  unfold setDesc
  simp only []
  split
  · refine SRel.trans ?_ (arm_srel _ _)
    exact SRel.of_eq rfl rfl rfl rfl rfl rfl rfl
  · exact SRel.of_eq rfl rfl rfl rfl rfl rfl rfl

theorem emit_srel {e : Ev} (he : e ≠ Ev.sleep true) (s : St) : SRel s (emit e s) :=
  ⟨emit_smono he s, rfl, fun _ _ h => Or.inl h⟩

theorem addCtx_srel (c : Nat) (s : St) : SRel s (addCtx c s) := by
  refine ⟨addCtx_smono c s, (addCtx_ext c s).backend, ?_⟩
  intro hb c' hc'
  unfold addCtx at hc' ⊢
  split at hc'
  · rename_i hcond
    rw [if_pos hcond]
    exact Or.inl hc'
  · rename_i hcond
    rw [if_neg hcond]
    rw [hb] at hc' ⊢
    simp only [] at hc' ⊢
    have hc'' : c' ∈ s.ctxList ++ [c] := hc'
    simp at hc''
    rcases hc'' with h | h
    · exact Or.inl h
    · subst h
      exact Or.inr (selSetFd_mem c' _)

theorem act_srel (a : Act) (s : St) : SRel s (act a s) := by
  cases a with
  | write d n => simp only [act]; split; exact setDesc_srel _ _ _; exact SRel.refl s
  | hclose d => simp only [act]; split; exact setDesc_srel _ _ _; exact SRel.refl s
  | pclose d => simp only [act]; split; exact setDesc_srel _ _ _; exact SRel.refl s
  | add d => exact addCtx_srel d s
  | shut d =>
    simp only [act]; split
    · refine SRel.trans ?_ (setDesc_srel _ _ _)
      exact SRel.of_eq rfl rfl rfl rfl rfl rfl rfl
    · exact SRel.refl s
  | wakeup =>
    simp only [act, sigWakeup]
    refine SRel.trans ?_ (armSig_srel _)
    exact SRel.of_eq rfl rfl rfl rfl rfl rfl rfl
  | exit =>
    simp only [act, sigWakeup]
    refine SRel.trans ?_ (armSig_srel _)
    exact SRel.of_eq rfl rfl rfl rfl rfl rfl rfl
  | xexit =>
    simp only [act, sigWakeup]
    refine SRel.trans ?_ (armSig_srel _)
    exact SRel.of_eq rfl rfl rfl rfl rfl rfl rfl

theorem runActs_srel (as : List Act) (s : St) : SRel s (runActs as s) := by
  unfold runActs
  induction as generalizing s with
  | nil => exact SRel.refl s
  | cons a as ih => exact (act_srel a s).trans (ih _)

theorem cbRead_srel (sc : Script) (c : Nat) (s : St) : SRel s (cbRead sc c s) := by
  unfold cbRead
  refine SRel.trans ?_ (runActs_srel _ _)
  refine SRel.trans ?_ (emit_srel (e := .read c _ _) (by simp) _)
  exact SRel.of_eq rfl rfl rfl rfl rfl rfl rfl

theorem cbClose_srel (sc : Script) (c : Nat) (s : St) : SRel s (cbClose sc c s) := by
  have h1 : SRel s (runActs (sc.onClose c) (emit (.close c) s)) :=
    (emit_srel (e := .close c) (by simp) _).trans (runActs_srel _ _)
  rcases cbClose_eq sc c s with he | he <;> rw [he]
  · exact h1
  · exact h1.trans (SRel.of_eq rfl rfl rfl rfl rfl rfl rfl)

theorem handleWake_srel (sc : Script) (s : St) : SRel s (handleWake sc s) := by
  unfold handleWake
  simp only []
  have h1 : SRel s (runActs (sc.onWake s.nWake) (emit .wake { s with evc := 0, nWake := s.nWake + 1 })) := by
    refine SRel.trans ?_ (runActs_srel _ _)
    refine SRel.trans ?_ (emit_srel (e := .wake) (by simp) _)
    exact SRel.of_eq rfl rfl rfl rfl rfl rfl rfl
  split
  · exact h1.trans (SRel.of_eq rfl rfl rfl rfl rfl rfl rfl)
  · exact h1

/-- the select tables cover the context list: what must hold whenever `select` is called -/
structure SelC (s : St) : Prop where
  backend : s.backend = .select
  allsig : s.allsig = true
  cover : ∀ c ∈ s.ctxList, Covered s c
  noLost : NoLost s.trace

theorem SelC.step {s t : St} (h : SelC s) (r : SRel s t) : SelC t := by
  refine ⟨by rw [r.backend, h.backend], by rw [r.mono.allsig, h.allsig], ?_, fun hh => h.noLost (r.mono.nosleep hh)⟩
  intro c hc
  rcases r.newcov h.backend c hc with h' | h'
  · exact (h.cover c h').mono r.mono
  · exact h'

/-- during the scan: the nodes already passed (positions `< i`) are back in `allset` -/
structure SelPart (i : Nat) (s : St) : Prop where
  backend : s.backend = .select
  allsig : s.allsig = true
  cover : ∀ j c, j < i → s.ctxList[j]? = some c → Covered s c
  noLost : NoLost s.trace

theorem SelPart.step {i : Nat} {s t : St} (h : SelPart i s) (hi : i ≤ s.ctxList.length)
    (r : SRel s t) (x : Ext s t) : SelPart i t := by
  refine ⟨by rw [r.backend, h.backend], by rw [r.mono.allsig, h.allsig], ?_,
    fun hh => h.noLost (r.mono.nosleep hh)⟩
  intro j c hj hc
  obtain ⟨l, hl⟩ := x.ctx
  rw [hl, List.getElem?_append_left (by omega)] at hc
  exact (h.cover j c hj hc).mono r.mono

theorem Ext.len_le {s t : St} (x : Ext s t) : s.ctxList.length ≤ t.ctxList.length := by
  obtain ⟨l, hl⟩ := x.ctx
  rw [hl]; simp

/-- **Rebuild lemma.** A scan that starts with enough fuel ends with `allset/nfds` covering
exactly the surviving and the newly added contexts. -/
theorem selScan_c (sc : Script) (f : Nat) : ∀ (i : Nat) {s : St}, SelPart i s → Inv none s →
    i ≤ s.ctxList.length → (s.ctxList.length - i) + untried s < f → SelC (selScan sc f i s) := by
  induction f with
  | zero => intro i s _ _ _ hf; omega
  | succ f ih =>
    intro i s hp hi hle hf
    unfold selScan
    split
    · rename_i hnone
      have hlen : s.ctxList.length ≤ i := by
        rcases Nat.lt_or_ge i s.ctxList.length with h | h
        · rw [List.getElem?_eq_getElem h] at hnone; cases hnone
        · exact h
      refine ⟨hp.backend, hp.allsig, ?_, hp.noLost⟩
      intro c hc
      obtain ⟨j, hj, hjc⟩ := List.getElem_of_mem hc
      exact hp.cover j c (by omega) (by rw [List.getElem?_eq_getElem hj, hjc])
    · rename_i c hic
      have hilt : i < s.ctxList.length := by
        rcases Nat.lt_or_ge i s.ctxList.length with h | h
        · exact h
        · rw [List.getElem?_eq_none h] at hic; cases hic
      have hc : c ∈ s.ctxList := List.mem_of_getElem? hic
      -- after the read callback
      have r1 : SRel s (selRead sc c s) := by
        unfold selRead; split
        · exact cbRead_srel sc c s
        · exact SRel.refl s
      have m1 : MLe s (selRead sc c s) := by
        unfold selRead; split
        · exact cbRead_mle sc c s
        · exact MLe.refl s
      have x1 := selRead_ext sc c s
      have i1 := selRead_inv sc hi hc
      have p1 := hp.step hle r1 x1
      have hic1 := x1.ctx_get hic
      have hlen1 := x1.len_le
      have hm1 := m1.le
      generalize selRead sc c s = s1 at r1 m1 x1 i1 p1 hic1 hlen1 hm1
      simp only []
      unfold scanM at hm1
      split
      · -- closed: cb_close, remove the node, stay at position i
        have r3 := cbClose_srel sc c s1
        have m3 := (cbClose_mle sc c s1).le
        have x3 := cbClose_ext sc c s1
        have p3 := p1.step (by omega) r3 x3
        have hic3 := x3.ctx_get hic1
        have hlen3 := x3.len_le
        have i2 := selClose_inv sc i1 p1.backend hic1
        have i3 := cbClose_inv sc i1 (List.mem_of_getElem? hic1)
        unfold selClose at i2 ⊢
        generalize cbClose sc c s1 = s3 at r3 m3 x3 p3 hic3 hlen3 i2 i3
        unfold scanM at m3
        simp only [] at i2 ⊢
        have hlen2 : (s3.ctxList.eraseIdx i).length = s3.ctxList.length - 1 := by
          rw [List.length_eraseIdx]; simp; omega
        apply ih i _ i2
        · show i ≤ (s3.ctxList.eraseIdx i).length
          rw [hlen2]; omega
        · show (s3.ctxList.eraseIdx i).length - i + untried { s3 with ctxList := s3.ctxList.eraseIdx i } < f
          rw [hlen2]
          have : untried { s3 with ctxList := s3.ctxList.eraseIdx i } = untried s3 := rfl
          rw [this]; omega
        · refine ⟨p3.backend, p3.allsig, ?_, p3.noLost⟩
          intro j c' hj hc'
          have hc'' : (s3.ctxList.eraseIdx i)[j]? = some c' := hc'
          rw [List.getElem?_eraseIdx_of_lt hj] at hc''
          obtain ⟨q1, q2⟩ := p3.cover j c' hj hc''
          refine ⟨?_, q2⟩
          show c' ∈ (if s3.legacySel then s3.allset else s3.allset.erase c)
          split
          · exact q1
          · -- the closed context is at position i, c' at position j < i: different contexts
            have hne : c' ≠ c := by
              intro hh; subst hh
              have hm : c' ∈ s3.ctxList.eraseIdx i := List.mem_of_getElem? hc'
              rw [eraseIdx_eq_erase_of_nodup i3.nodupL hic3] at hm
              exact i3.nodupL.not_mem_erase hm
            exact (List.mem_erase_of_ne hne).mpr q1
      · -- kept: FD_SET, next node
        have r2 := selSetFd_smono c s1
        apply ih (i + 1) _ (selSetFd_inv c i1)
        · show i + 1 ≤ s1.ctxList.length
          omega
        · show s1.ctxList.length - (i + 1) + untried (selSetFd c s1) < f
          have : untried (selSetFd c s1) = untried s1 := rfl
          rw [this]; omega
        · refine ⟨p1.backend, by rw [r2.allsig]; exact p1.allsig, ?_, p1.noLost⟩
          intro j c' hj hc'
          have hc'' : s1.ctxList[j]? = some c' := hc'
          rcases Nat.lt_or_ge j i with h | h
          · exact (p1.cover j c' h hc'').mono r2
          · have : j = i := by omega
            subst this
            rw [hic1] at hc''
            cases hc''
            exact selSetFd_mem c s1

theorem selDispatch_c (sc : Script) {s : St} (h : SelC s) (hi : Inv none s) : SelC (selDispatch sc s) := by
  unfold selDispatch
  simp only []
  have h0 : Inv none { s with nfds := 0, allset := [], allsig := false } :=
    hi.congr rfl rfl rfl rfl rfl rfl rfl
  have h1 : ∃ s1, s1 = (if s.rsig then handleWake sc { s with nfds := 0, allset := [], allsig := false }
      else { s with nfds := 0, allset := [], allsig := false }) ∧ Inv none s1 ∧
      s1.backend = .select ∧ NoLost s1.trace := by
    refine ⟨_, rfl, ?_⟩
    split
    · refine ⟨handleWake_inv sc h0, ?_, ?_⟩
      · rw [(handleWake_ext sc _).backend]; exact h.backend
      · intro hh; exact h.noLost ((handleWake_smono sc { s with nfds := 0, allset := [], allsig := false }).nosleep hh)
    · exact ⟨h0, h.backend, h.noLost⟩
  obtain ⟨s1, hs1, i1, b1, n1⟩ := h1
  rw [← hs1]
  refine selScan_c sc _ 0 (s := { s1 with allsig := true, nfds := 0 }) ?_
    (i1.congr rfl rfl rfl rfl rfl rfl rfl) (Nat.zero_le _) ?_
  rotate_left
  · show s1.ctxList.length - 0 + untried { s1 with allsig := true, nfds := 0 } < s1.ctxList.length + s1.nds + 1
    have := untried_le { s1 with allsig := true, nfds := 0 }
    have h2 : ({ s1 with allsig := true, nfds := 0 } : St).nds = s1.nds := rfl
    omega
  · exact ⟨b1, rfl, fun j c hj _ => absurd hj (Nat.not_lt_zero _), n1⟩

/-- when `select` would block, no registered context is readable -/
theorem select_block_none_readable {s : St} (h : SelC s) (hz : selCount (selQuery s) = 0) :
    (s.ctxList.any fun c => (s.ds c).readable) = false := by
  rw [List.any_eq_false]
  intro c hc
  obtain ⟨hmem, hfd⟩ := h.cover c hc
  unfold selCount selQuery at hz
  simp only [] at hz
  have hz1 : (List.filter (fun c => decide (fdOf c ≤ s.nfds) && (s.ds c).readable) s.allset).length = 0 := by
    omega
  have hnil := List.length_eq_zero_iff.mp hz1
  have := (List.filter_eq_nil_iff.mp hnil) c hmem
  simpa [hfd] using this

theorem idle_selc (sc : Script) {s : St} (h : SelC s)
    (hq : (s.ctxList.any fun c => (s.ds c).readable) = false) : SelC (idle sc s) := by
  unfold idle
  simp only []
  rw [hq]
  have h1 : SelC (emit (.sleep false) { s with nIdle := s.nIdle + 1 }) := by
    apply h.step
    refine SRel.trans ?_ (emit_srel (e := .sleep false) (by simp) _)
    exact SRel.of_eq rfl rfl rfl rfl rfl rfl rfl
  split
  · exact h1.step (runActs_srel _ _)
  · exact h1.step (act_srel _ _)

theorem selLoop_c (sc : Script) (f : Nat) : ∀ {s : St}, SelC s → Inv none s →
    NoLost (selLoop sc f s).trace := by
  induction f with
  | zero =>
    intro s h _
    unfold selLoop
    exact noLost_cons h.noLost (by simp)
  | succ f ih =>
    intro s h hi
    unfold selLoop
    have hq : SelC (selQuery s) := by
      unfold selQuery
      exact h.step (SRel.of_eq rfl rfl rfl rfl rfl rfl rfl)
    have hiq : Inv none (selQuery s) := by unfold selQuery; exact hi.congr rfl rfl rfl rfl rfl rfl rfl
    split
    · exact ((h.step (emit_srel (e := .waitErr) (by simp) _)).step (act_srel _ _)).noLost
    · simp only []
      split
      · rename_i hz
        have hr := select_block_none_readable h hz
        exact ih (idle_selc sc hq hr) (idle_inv sc hiq)
      · have hid : Inv none (emit .disp (selQuery s)) :=
          inv_emit_of hiq (by simp) (by simp) (by simp) trivial
        have hcd : SelC (emit .disp (selQuery s)) := hq.step (emit_srel (by simp) _)
        have h1 := selDispatch_c sc hcd hid
        split
        · exact h1.noLost
        · exact ih h1 (selDispatch_inv sc hid hq.backend).1

end MgProof.C13
