import MgProof.C13.Lemmas
/-!
# C13 — select back-end: the life-cycle invariant through the list scan
-/
namespace MgProof.C13
open MgModel.C13

theorem eraseIdx_eq_erase_of_nodup {l : List Nat} (hn : l.Nodup) {i c : Nat} (hi : l[i]? = some c) :
    l.eraseIdx i = l.erase c := by
  induction l generalizing i with
  | nil => simp at hi
  | cons a l ih =>
    cases i with
    | zero =>
      simp at hi; subst hi; simp
    | succ i =>
      simp at hi
      have hmem : c ∈ l := List.mem_of_getElem? hi
      have hne : a ≠ c := by
        intro h; subst h
        exact (List.nodup_cons.mp hn).1 hmem
      rw [List.eraseIdx_cons_succ, List.erase_cons_tail (by simpa using hne)]
      rw [ih (List.nodup_cons.mp hn).2 hi]

theorem selSetFd_inv {pend} {s : St} (c : Nat) (h : Inv pend s) : Inv pend (selSetFd c s) := by
  unfold selSetFd
  exact h.congr rfl rfl rfl rfl rfl rfl rfl

theorem selSetFd_ext (c : Nat) (s : St) : Ext s (selSetFd c s) := Ext.of_eq rfl rfl rfl rfl

theorem selRead_inv (sc : Script) {s : St} (h : Inv none s) {c : Nat} (hc : c ∈ s.ctxList) :
    Inv none (selRead sc c s) := by
  unfold selRead; split
  · exact cbRead_inv sc h hc
  · exact h

theorem selRead_ext (sc : Script) (c : Nat) (s : St) : Ext s (selRead sc c s) := by
  unfold selRead; split
  · exact cbRead_ext sc _ s
  · exact Ext.refl s

theorem selClose_inv (sc : Script) {s : St} (h : Inv none s) (hb : s.backend = .select) {i c : Nat}
    (hi : s.ctxList[i]? = some c) : Inv none (selClose sc i c s) := by
  have hc : c ∈ s.ctxList := List.mem_of_getElem? hi
  unfold selClose
  have h3 := cbClose_inv sc h hc
  have x3 := cbClose_ext sc c s
  have hi3 := x3.ctx_get hi
  have hcl := cbClose_closed sc c s
  have hb3 : (cbClose sc c s).backend = .select := by rw [x3.backend, hb]
  generalize cbClose sc c s = s3 at h3 x3 hi3 hcl hb3
  simp only []
  have hp : s3.ptab = [] := h3.pOnly (by rw [hb3]; decide)
  have he : s3.epReg = [] := h3.eOnly (by rw [hb3]; decide)
  refine inv_remove h3 hcl rfl ?_ rfl rfl ?_ (fun h => h) rfl ?_ rfl
  · exact eraseIdx_eq_erase_of_nodup h3.nodupL hi3
  · show (s3.ptab.map _).Nodup ∧ _
    rw [hp]; simp
  · rw [he]; simp

theorem selClose_backend (sc : Script) (i c : Nat) (s : St) :
    (selClose sc i c s).backend = s.backend := by
  unfold selClose
  exact (cbClose_ext sc c s).backend

theorem selScan_inv (sc : Script) (f : Nat) : ∀ (i : Nat) {s : St}, Inv none s → s.backend = .select →
    Inv none (selScan sc f i s) ∧ (selScan sc f i s).backend = .select := by
  induction f with
  | zero => intro i s h hb; unfold selScan; exact ⟨h.congr rfl rfl rfl rfl rfl rfl rfl, hb⟩
  | succ f ih =>
    intro i s h hb
    unfold selScan
    split
    · exact ⟨h, hb⟩
    · rename_i c hi
      have hc : c ∈ s.ctxList := List.mem_of_getElem? hi
      have h1 := selRead_inv sc h hc
      have x1 := selRead_ext sc c s
      have hi1 := x1.ctx_get hi
      have hb1 : (selRead sc c s).backend = .select := by rw [x1.backend, hb]
      simp only []
      split
      · exact ih i (selClose_inv sc h1 hb1 hi1) (by rw [selClose_backend, hb1])
      · exact ih (i + 1) (selSetFd_inv c h1) hb1

theorem selDispatch_inv (sc : Script) {s : St} (h : Inv none s) (hb : s.backend = .select) :
    Inv none (selDispatch sc s) ∧ (selDispatch sc s).backend = .select := by
  unfold selDispatch
  simp only []
  have h0 : Inv none { s with nfds := 0, allset := [], allsig := false } :=
    h.congr rfl rfl rfl rfl rfl rfl rfl
  have h1 : Inv none (if s.rsig then handleWake sc { s with nfds := 0, allset := [], allsig := false }
      else { s with nfds := 0, allset := [], allsig := false }) ∧
      (if s.rsig then handleWake sc { s with nfds := 0, allset := [], allsig := false }
      else { s with nfds := 0, allset := [], allsig := false }).backend = .select := by
    split
    · exact ⟨handleWake_inv sc h0, by rw [(handleWake_ext sc _).backend]; exact hb⟩
    · exact ⟨h0, hb⟩
  exact selScan_inv sc _ 0 (h1.1.congr rfl rfl rfl rfl rfl rfl rfl) h1.2

theorem selLoop_inv (sc : Script) (f : Nat) : ∀ {s : St}, Inv none s → s.backend = .select →
    Inv none (selLoop sc f s) := by
  induction f with
  | zero =>
    intro s h _
    unfold selLoop
    exact inv_emit_of h (by simp) (by simp) (by simp) trivial
  | succ f ih =>
    intro s h hb
    unfold selLoop
    have hq : Inv none (selQuery s) := by unfold selQuery; exact h.congr rfl rfl rfl rfl rfl rfl rfl
    have hqb : (selQuery s).backend = .select := hb
    split
    · exact act_inv _ (inv_emit_of h (by simp) (by simp) (by simp) trivial)
    · simp only []
      split
      · exact ih (idle_inv sc hq) (by rw [idle_backend]; exact hqb)
      · have h1 := selDispatch_inv sc (s := emit .disp (selQuery s))
          (inv_emit_of hq (by simp) (by simp) (by simp) trivial) hqb
        split
        · exact h1.1
        · exact ih h1.1 h1.2

end MgProof.C13
