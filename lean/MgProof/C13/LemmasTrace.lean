import MgProof.C13.Lemmas
/-!
# C13 — from the well-formedness of the (newest-first) loop trace to statements about the
chronological event list `body ++ clears ++ [exit]`
-/
namespace MgProof.C13
open MgModel.C13

/-- every chronological split of a well-formed loop trace: the event was allowed after
what preceded it -/
theorem wf_split {tr : List Ev} (h : LoopWF tr) {p q : List Ev} {e : Ev}
    (hs : tr.reverse = p ++ e :: q) : okNext p.reverse e := by
  have : tr = q.reverse ++ e :: p.reverse := by
    have := congrArg List.reverse hs
    simpa using this
  subst this
  clear hs
  generalize q.reverse = l at h
  induction l with
  | nil => exact h.1
  | cons a l ih => exact ih h.2

theorem split_body {body tail pre post : List Ev} {e : Ev}
    (h : body ++ tail = pre ++ e :: post) (he : e ∉ tail) :
    ∃ q, body = pre ++ e :: q ∧ post = q ++ tail := by
  rcases List.append_eq_append_iff.mp h with ⟨a', h1, h2⟩ | ⟨c', h1, h2⟩
  · exact absurd (by rw [h2]; simp) he
  · cases c' with
    | nil =>
      simp at h2
      exact absurd (by rw [← h2]; simp) he
    | cons e' q =>
      simp at h2
      obtain ⟨h3, h4⟩ := h2
      subst h3
      exact ⟨q, h1, h4⟩

theorem wf_no_clear_exit {tr : List Ev} (h : LoopWF tr) :
    (∀ c, Ev.clear c ∉ tr) ∧ Ev.exit ∉ tr := by
  induction tr with
  | nil => simp
  | cons e tr ih =>
    obtain ⟨i1, i2⟩ := ih h.2
    refine ⟨fun c hc => ?_, fun hc => ?_⟩
    · simp at hc
      rcases hc with hc | hc
      · subst hc; exact h.1
      · exact i1 c hc
    · simp at hc
      rcases hc with hc | hc
      · subst hc; exact h.1
      · exact i2 hc

theorem count_cons_ev (a b : Ev) (l : List Ev) :
    (b :: l).count a = l.count a + (if b = a then 1 else 0) := by
  simp [List.count_cons]

theorem wf_count_close {tr : List Ev} (h : LoopWF tr) (c : Nat) : tr.count (Ev.close c) ≤ 1 := by
  induction tr with
  | nil => simp
  | cons e tr ih =>
    rw [count_cons_ev]
    by_cases he : e = Ev.close c
    · subst he
      have : Ev.close c ∉ tr := h.1.2
      simp [List.count_eq_zero_of_not_mem this]
    · simp [he]
      exact ih h.2

theorem wf_count_add {tr : List Ev} (h : LoopWF tr) (c : Nat) :
    tr.count (Ev.addOk c) + tr.count (Ev.addRej c) ≤ 1 := by
  induction tr with
  | nil => simp
  | cons e tr ih =>
    rw [count_cons_ev, count_cons_ev]
    by_cases he : e = Ev.addOk c
    · subst he
      have h1 : Ev.addOk c ∉ tr := h.1.1
      have h2 : Ev.addRej c ∉ tr := h.1.2
      simp [List.count_eq_zero_of_not_mem h1, List.count_eq_zero_of_not_mem h2]
    · by_cases he' : e = Ev.addRej c
      · subst he'
        have h1 : Ev.addOk c ∉ tr := h.1.1
        have h2 : Ev.addRej c ∉ tr := h.1.2
        simp [List.count_eq_zero_of_not_mem h1, List.count_eq_zero_of_not_mem h2]
      · simp [he, he']
        exact ih h.2

theorem count_map_clear (L : List Nat) (c : Nat) : (L.map Ev.clear).count (Ev.clear c) = L.count c := by
  induction L with
  | nil => simp
  | cons a L ih =>
    rw [List.map_cons, count_cons_ev, ih, List.count_cons]
    by_cases h : a = c <;> simp [h]

theorem nodup_count_one {L : List Nat} (hnd : L.Nodup) {c : Nat} (hc : c ∈ L) : L.count c = 1 := by
  induction L with
  | nil => simp at hc
  | cons a L ih =>
    rw [List.count_cons]
    obtain ⟨h1, h2⟩ := List.nodup_cons.mp hnd
    by_cases h : a = c
    · subst h; simp [List.count_eq_zero_of_not_mem h1]
    · simp at hc
      rcases hc with hc | hc
      · exact absurd hc.symm h
      · simp [h, ih h2 hc]

/-! ### the chronological list `tr.reverse ++ L.map clear ++ [exit]` -/

section Chrono
variable {tr : List Ev} {L : List Nat}

/-- callback events that name context `c` -/
def Ev.callsBack (c : Nat) : Ev → Prop
  | .read c' _ _ => c' = c
  | .close c' => c' = c
  | .clear c' => c' = c
  | _ => False

theorem tail_no_loop_event {L : List Nat} {e : Ev} (he : e ∈ L.map Ev.clear ++ [Ev.exit]) :
    (∃ c ∈ L, e = .clear c) ∨ e = .exit := by
  simp at he
  rcases he with ⟨c, hc, rfl⟩ | rfl
  · exact Or.inl ⟨c, hc, rfl⟩
  · exact Or.inr rfl

theorem chrono_close_once (hwf : LoopWF tr) (c : Nat) :
    (tr.reverse ++ L.map Ev.clear ++ [Ev.exit]).count (Ev.close c) ≤ 1 := by
  rw [List.count_append, List.count_append, List.count_reverse]
  have h1 : (L.map Ev.clear).count (Ev.close c) = 0 :=
    List.count_eq_zero_of_not_mem (by simp)
  have h2 : [Ev.exit].count (Ev.close c) = 0 := List.count_eq_zero_of_not_mem (by simp)
  rw [h1, h2]
  exact wf_count_close hwf c

theorem chrono_read_registered (hwf : LoopWF tr) {pre post : List Ev} {c n : Nat} {b : Bool}
    (h : tr.reverse ++ L.map Ev.clear ++ [Ev.exit] = pre ++ Ev.read c n b :: post) :
    Ev.addOk c ∈ pre ∧ Ev.close c ∉ pre := by
  rw [List.append_assoc] at h
  obtain ⟨q, hq, _⟩ := split_body h (by simp)
  have := wf_split hwf hq
  simpa [okNext, Registered] using this

theorem chrono_close_registered (hwf : LoopWF tr) {pre post : List Ev} {c : Nat}
    (h : tr.reverse ++ L.map Ev.clear ++ [Ev.exit] = pre ++ Ev.close c :: post) :
    Ev.addOk c ∈ pre ∧ Ev.close c ∉ pre := by
  rw [List.append_assoc] at h
  obtain ⟨q, hq, _⟩ := split_body h (by simp)
  have := wf_split hwf hq
  simpa [okNext, Registered] using this

theorem chrono_after_close (hwf : LoopWF tr) (hL : ∀ c ∈ L, Registered tr c)
    {pre post : List Ev} {c : Nat}
    (h : tr.reverse ++ L.map Ev.clear ++ [Ev.exit] = pre ++ Ev.close c :: post) :
    ∀ e ∈ post, ¬ Ev.callsBack c e := by
  rw [List.append_assoc] at h
  obtain ⟨q, hq, hpost⟩ := split_body h (by simp)
  intro e he hcb
  rw [hpost] at he
  rcases List.mem_append.mp he with he | he
  · obtain ⟨q1, q2, hq12⟩ := List.append_of_mem he
    have hs : tr.reverse = (pre ++ Ev.close c :: q1) ++ e :: q2 := by
      rw [hq, hq12]; simp
    have hok := wf_split hwf hs
    cases e with
    | read c' n b =>
      simp [Ev.callsBack] at hcb; subst hcb
      simp [okNext, Registered] at hok
    | close c' =>
      simp [Ev.callsBack] at hcb; subst hcb
      simp [okNext, Registered] at hok
    | clear c' => exact hok
    | _ => exact hcb
  · rcases tail_no_loop_event he with ⟨c', hc', rfl⟩ | rfl
    · simp [Ev.callsBack] at hcb; subst hcb
      have := (hL c' hc').2
      apply this
      have : Ev.close c' ∈ tr.reverse := by rw [hq]; simp
      simpa using this
    · exact hcb

theorem chrono_clear_count (hwf : LoopWF tr) (hnd : L.Nodup) (hL : ∀ c, c ∈ L ↔ Registered tr c)
    (c : Nat) :
    (tr.reverse ++ L.map Ev.clear ++ [Ev.exit]).count (Ev.clear c) =
      if Ev.addOk c ∈ tr.reverse ++ L.map Ev.clear ++ [Ev.exit] ∧
         Ev.close c ∉ tr.reverse ++ L.map Ev.clear ++ [Ev.exit] then 1 else 0 := by
  have hreg : (Ev.addOk c ∈ tr.reverse ++ L.map Ev.clear ++ [Ev.exit] ∧
      Ev.close c ∉ tr.reverse ++ L.map Ev.clear ++ [Ev.exit]) ↔ c ∈ L := by
    rw [hL c]; simp [Registered]
  rw [List.count_append, List.count_append, List.count_reverse,
    List.count_eq_zero_of_not_mem ((wf_no_clear_exit hwf).1 c)]
  have h2 : [Ev.exit].count (Ev.clear c) = 0 := List.count_eq_zero_of_not_mem (by simp)
  have h3 : (L.map Ev.clear).count (Ev.clear c) = L.count c := by
    exact count_map_clear L c
  rw [h2, h3]
  by_cases hc : c ∈ L
  · rw [if_pos (hreg.mpr hc), nodup_count_one hnd hc]
  · rw [if_neg (fun hh => hc (hreg.mp hh)), List.count_eq_zero_of_not_mem hc]

theorem chrono_exit (hwf : LoopWF tr) :
    (tr.reverse ++ L.map Ev.clear ++ [Ev.exit]).getLast? = some Ev.exit ∧
    (tr.reverse ++ L.map Ev.clear ++ [Ev.exit]).count Ev.exit = 1 := by
  refine ⟨by simp, ?_⟩
  rw [List.count_append, List.count_append, List.count_reverse,
    List.count_eq_zero_of_not_mem (wf_no_clear_exit hwf).2]
  have : (L.map Ev.clear).count Ev.exit = 0 := List.count_eq_zero_of_not_mem (by simp)
  rw [this]; simp

theorem chrono_add_once (hwf : LoopWF tr) (c : Nat) :
    (tr.reverse ++ L.map Ev.clear ++ [Ev.exit]).count (Ev.addOk c) +
    (tr.reverse ++ L.map Ev.clear ++ [Ev.exit]).count (Ev.addRej c) ≤ 1 := by
  simp only [List.count_append, List.count_reverse]
  have h1 : (L.map Ev.clear).count (Ev.addOk c) = 0 := List.count_eq_zero_of_not_mem (by simp)
  have h2 : (L.map Ev.clear).count (Ev.addRej c) = 0 := List.count_eq_zero_of_not_mem (by simp)
  have h3 : [Ev.exit].count (Ev.addOk c) = 0 := List.count_eq_zero_of_not_mem (by simp)
  have h4 : [Ev.exit].count (Ev.addRej c) = 0 := List.count_eq_zero_of_not_mem (by simp)
  rw [h1, h2, h3, h4]
  simpa using wf_count_add hwf c

end Chrono

end MgProof.C13
