import MgProof.C13.Lemmas
/-!
# C13 — epoll back-end: ready-list collection and the life-cycle invariant through a batch
-/
namespace MgProof.C13
open MgModel.C13

/-! ### `epCollect` only selects from the ready list -/

theorem epCollect_sub (s : St) (l : List Src) : ∀ (m : Nat),
    ((epCollect s l m).1.map (·.1)).Sublist l ∧ (epCollect s l m).2.Sublist l := by
  induction l with
  | nil => intro m; simp [epCollect]
  | cons a rest ih =>
    intro m
    cases m with
    | zero => simp [epCollect]
    | succ m =>
      unfold epCollect
      simp only []
      split
      · exact ⟨by simpa using (ih m).1.cons_cons a, (ih m).2.cons a⟩
      · exact ⟨(ih (m + 1)).1.cons a, (ih (m + 1)).2.cons a⟩

/-! ### a context that was tried is never registered again -/

theorem arm_epReg (c : Nat) (s : St) : (arm c s).epReg = s.epReg ∧ (arm c s).tried = s.tried := by
  unfold arm; split <;> exact ⟨rfl, rfl⟩

theorem armSig_epReg (s : St) : (armSig s).epReg = s.epReg ∧ (armSig s).tried = s.tried := by
  unfold armSig; split <;> exact ⟨rfl, rfl⟩

theorem setDesc_epReg (c : Nat) (r : Desc × Bool) (s : St) :
    (setDesc c r s).epReg = s.epReg ∧ (setDesc c r s).tried = s.tried := by
  unfold setDesc
  simp only []
  split
  · exact arm_epReg _ _
  · exact ⟨rfl, rfl⟩

theorem addCtx_notin {s : St} {c : Nat} (d : Nat) (ht : s.tried c = true) (hn : c ∉ s.epReg) :
    (addCtx d s).tried c = true ∧ c ∉ (addCtx d s).epReg := by
  unfold addCtx
  split
  · exact ⟨ht, hn⟩
  · rename_i hd
    have hdc : d ≠ c := by
      intro h; subst h
      simp [ht] at hd
    have ht' : upd s.tried d true c = true := by simp [upd, ht]
    cases hb : s.backend with
    | select => exact ⟨ht', hn⟩
    | poll =>
      simp only []
      split
      · exact ⟨ht', hn⟩
      · exact ⟨ht', hn⟩
    | epoll =>
      simp only []
      have hn' : c ∉ s.epReg ++ [d] := by
        simp; exact ⟨hn, fun h => hdc h.symm⟩
      split
      · refine ⟨?_, ?_⟩
        · show (arm d _).tried c = true
          rw [(arm_epReg _ _).2]; exact ht'
        · show c ∉ (arm d _).epReg
          rw [(arm_epReg _ _).1]; exact hn'
      · exact ⟨ht', hn'⟩

theorem act_notin {s : St} {c : Nat} (a : Act) (ht : s.tried c = true) (hn : c ∉ s.epReg) :
    (act a s).tried c = true ∧ c ∉ (act a s).epReg := by
  cases a with
  | write d n =>
    simp only [act]; split
    · rw [(setDesc_epReg _ _ _).1, (setDesc_epReg _ _ _).2]; exact ⟨ht, hn⟩
    · exact ⟨ht, hn⟩
  | hclose d =>
    simp only [act]; split
    · rw [(setDesc_epReg _ _ _).1, (setDesc_epReg _ _ _).2]; exact ⟨ht, hn⟩
    · exact ⟨ht, hn⟩
  | pclose d =>
    simp only [act]; split
    · rw [(setDesc_epReg _ _ _).1, (setDesc_epReg _ _ _).2]; exact ⟨ht, hn⟩
    · exact ⟨ht, hn⟩
  | add d => exact addCtx_notin d ht hn
  | shut d =>
    simp only [act]; split
    · rw [(setDesc_epReg _ _ _).1, (setDesc_epReg _ _ _).2]; exact ⟨ht, hn⟩
    · exact ⟨ht, hn⟩
  | wakeup =>
    simp only [act, sigWakeup]
    rw [(armSig_epReg _).1, (armSig_epReg _).2]; exact ⟨ht, hn⟩
  | exit =>
    simp only [act, sigWakeup]
    rw [(armSig_epReg _).1, (armSig_epReg _).2]; exact ⟨ht, hn⟩
  | xexit =>
    simp only [act, sigWakeup]
    rw [(armSig_epReg _).1, (armSig_epReg _).2]; exact ⟨ht, hn⟩

theorem runActs_notin (as : List Act) {s : St} {c : Nat} (ht : s.tried c = true) (hn : c ∉ s.epReg) :
    (runActs as s).tried c = true ∧ c ∉ (runActs as s).epReg := by
  unfold runActs
  induction as generalizing s with
  | nil => exact ⟨ht, hn⟩
  | cons a as ih =>
    have := act_notin a ht hn
    exact ih this.1 this.2

/-! ### one event of a batch -/

theorem epDel_inv {pend} {s : St} (c : Nat) (h : Inv pend s) : Inv pend (epDel c s) := by
  unfold epDel
  constructor
  · exact h.nodupL
  · exact h.sound
  · exact h.complete
  · exact h.triedOk
  · exact h.wf
  · exact h.pNodup
  · exact h.pMem
  · exact h.eNodup.erase c
  · intro c' hc'; exact h.eMem c' (List.mem_of_mem_erase hc')
  · exact h.aNodup.erase _
  · intro c' hc'
    have hc'' : Src.ctx c' ∈ s.armed.erase (Src.ctx c) := hc'
    have hne : c' ≠ c := by
      intro hh; subst hh
      exact h.aNodup.not_mem_erase hc''
    have := h.aMem c' (List.mem_of_mem_erase hc'')
    exact (List.mem_erase_of_ne hne).mpr this
  · exact h.pOnly
  · intro hb
    show s.epReg.erase c = []
    rw [h.eOnly hb]; rfl

theorem epRead_inv (sc : Script) {s : St} (h : Inv none s) {c : Nat} (hc : c ∈ s.ctxList) (mk : Mask) :
    Inv none (epRead sc c mk s) := by
  unfold epRead
  split
  · exact cbRead_inv sc h hc
  · split
    · exact h.congr rfl rfl rfl rfl rfl rfl rfl
    · exact h

theorem epRead_ext (sc : Script) (c : Nat) (mk : Mask) (s : St) : Ext s (epRead sc c mk s) := by
  unfold epRead
  split
  · exact cbRead_ext sc _ s
  · split
    · exact Ext.of_eq rfl rfl rfl rfl
    · exact Ext.refl s

theorem epFinish_inv (sc : Script) {s : St} (h : Inv none s) (hb : s.backend = .epoll) {c : Nat}
    (hc : c ∈ s.ctxList) : Inv none (epFinish sc c s) := by
  unfold epFinish
  split
  · have hd := epDel_inv c h
    have hcd : c ∈ (epDel c s).ctxList := hc
    have htr : (epDel c s).tried c = true := h.triedOk c (Or.inl (h.sound c hc).1)
    have hnr : c ∉ (epDel c s).epReg := h.eNodup.not_mem_erase
    have hbd : (epDel c s).backend = .epoll := hb
    generalize epDel c s = sd at hd hcd htr hnr hbd
    have h3 := cbClose_inv sc hd hcd
    have x3 := cbClose_ext sc c sd
    have hcl := cbClose_closed sc c sd
    have hn3 : c ∉ (cbClose sc c sd).epReg := by
      have h1 := (runActs_notin (sc.onClose c) (s := emit (.close c) sd) htr hnr).2
      rcases cbClose_eq sc c sd with he | he <;> rw [he] <;> exact h1
    have hb3 : (cbClose sc c sd).backend = .epoll := by rw [x3.backend, hbd]
    generalize cbClose sc c sd = s3 at h3 x3 hcl hn3 hb3
    simp only []
    have hp : s3.ptab = [] := h3.pOnly (by rw [hb3]; decide)
    refine inv_remove h3 hcl rfl rfl rfl rfl ?_ (fun h => h) rfl hn3 rfl
    show (s3.ptab.map _).Nodup ∧ _
    rw [hp]; simp
  · exact h

theorem epFinish_backend (sc : Script) (c : Nat) (s : St) : (epFinish sc c s).backend = s.backend := by
  unfold epFinish
  split
  · simp only []
    rw [(cbClose_ext sc c _).backend]; rfl
  · rfl

theorem epFinish_mem (sc : Script) (c : Nat) (s : St) {c' : Nat} (hne : c' ≠ c) (hc : c' ∈ s.ctxList) :
    c' ∈ (epFinish sc c s).ctxList := by
  unfold epFinish
  split
  · simp only []
    exact (List.mem_erase_of_ne hne).mpr ((cbClose_ext sc c _).mem_ctx (by exact hc))
  · exact hc

theorem epVisit_inv (sc : Script) {s : St} (h : Inv none s) (hb : s.backend = .epoll) {c : Nat}
    (hc : c ∈ s.ctxList) (mk : Mask) :
    Inv none (epVisit sc c mk s) ∧ (epVisit sc c mk s).backend = .epoll ∧
      ∀ c', c' ≠ c → c' ∈ s.ctxList → c' ∈ (epVisit sc c mk s).ctxList := by
  unfold epVisit
  have x1 := epRead_ext sc c mk s
  have hb1 : (epRead sc c mk s).backend = .epoll := by rw [x1.backend, hb]
  refine ⟨epFinish_inv sc (epRead_inv sc h hc mk) hb1 (x1.mem_ctx hc), ?_, ?_⟩
  · rw [epFinish_backend]; exact hb1
  · intro c' hne hc'
    exact epFinish_mem sc c _ hne (x1.mem_ctx hc')

theorem epBatch_inv (sc : Script) (b : List (Src × Mask)) : ∀ {s : St}, Inv none s → s.backend = .epoll →
    (b.map (·.1)).Nodup → (∀ c mk, (Src.ctx c, mk) ∈ b → c ∈ s.ctxList) →
    Inv none (epBatch sc b s) ∧ (epBatch sc b s).backend = .epoll := by
  induction b with
  | nil => intro s h hb _ _; exact ⟨h, hb⟩
  | cons x rest ih =>
    intro s h hb hnd hmem
    obtain ⟨src, mk⟩ := x
    have hnd' : (rest.map (·.1)).Nodup := (List.nodup_cons.mp hnd).2
    cases src with
    | sig =>
      unfold epBatch
      have h1 : Inv none (if mk.inn then handleWake sc s else s) ∧
          Ext s (if mk.inn then handleWake sc s else s) := by
        split
        · exact ⟨handleWake_inv sc h, handleWake_ext sc s⟩
        · exact ⟨h, Ext.refl s⟩
      refine ih h1.1 (by rw [h1.2.backend, hb]) hnd' ?_
      intro c mk' hm
      exact h1.2.mem_ctx (hmem c mk' (List.mem_cons_of_mem _ hm))
    | ctx c =>
      unfold epBatch
      have hc : c ∈ s.ctxList := hmem c mk (by simp)
      obtain ⟨v1, v2, v3⟩ := epVisit_inv sc h hb hc mk
      refine ih v1 v2 hnd' ?_
      intro c' mk' hm
      have hne : c' ≠ c := by
        intro hh; subst hh
        have : Src.ctx c' ∈ rest.map (·.1) := List.mem_map_of_mem (f := (·.1)) hm
        exact (List.nodup_cons.mp hnd).1 this
      exact v3 c' hne (hmem c' mk' (List.mem_cons_of_mem _ hm))

theorem epLoop_inv (sc : Script) (f : Nat) : ∀ {s : St}, Inv none s → s.backend = .epoll →
    Inv none (epLoop sc f s) := by
  induction f with
  | zero =>
    intro s h _
    unfold epLoop
    exact inv_emit_of h (by simp) (by simp) (by simp) trivial
  | succ f ih =>
    intro s h hb
    unfold epLoop
    obtain ⟨c1, c2⟩ := epCollect_sub s s.armed (s.hints + 1)
    have hq : Inv none { s with armed := (epCollect s s.armed (s.hints + 1)).2 } := by
      constructor
      · exact h.nodupL
      · exact h.sound
      · exact h.complete
      · exact h.triedOk
      · exact h.wf
      · exact h.pNodup
      · exact h.pMem
      · exact h.eNodup
      · exact h.eMem
      · exact h.aNodup.sublist c2
      · intro c hc; exact h.aMem c (c2.subset hc)
      · exact h.pOnly
      · exact h.eOnly
    simp only []
    split
    · exact ih (idle_inv sc hq) (by rw [idle_backend]; exact hb)
    · have hnd : ((epCollect s s.armed (s.hints + 1)).1.map (·.1)).Nodup := h.aNodup.sublist c1
      have hmem : ∀ c mk, (Src.ctx c, mk) ∈ (epCollect s s.armed (s.hints + 1)).1 →
          c ∈ (emit .disp { s with armed := (epCollect s s.armed (s.hints + 1)).2 }).ctxList := by
        intro c mk hm
        have : Src.ctx c ∈ (epCollect s s.armed (s.hints + 1)).1.map (·.1) :=
          List.mem_map_of_mem (f := (·.1)) hm
        exact h.eMem c (h.aMem c (c1.subset this))
      have h1 := epBatch_inv sc _ (inv_emit_of (e := .disp) hq (by simp) (by simp) (by simp) trivial) hb hnd hmem
      split
      · exact h1.1
      · exact ih h1.1 h1.2

theorem epStart_inv {s : St} (h : Inv none s) : Inv none (epStart s) := by
  unfold epStart
  simp only []
  split
  · exact armSig_inv (h.congr rfl rfl rfl rfl rfl rfl rfl)
  · exact h.congr rfl rfl rfl rfl rfl rfl rfl

end MgProof.C13
