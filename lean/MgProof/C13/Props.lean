import MgProof.C13.LemmasTrace
import MgProof.C13.LemmasPoll
import MgProof.C13.LemmasSelect
import MgProof.C13.LemmasEpoll
import MgProof.C13.LemmasReady
import MgProof.C13.LemmasEpollReady
/-!
# C13 — property theorems (event loop callback life-cycle; select, poll, epoll agree)

Statement (properties.jsonl): for any scripted history of descriptors becoming readable,
peers closing, contexts being added or flagged closed from inside callbacks, wake-ups and
exit, the event loop calls the read callback for every registered context that has pending
input, calls the close callback exactly once for each context that becomes closed and never
calls back on it afterwards, calls the clear callback exactly once for each context still
registered when the loop exits, and the exit callback once. The select, poll and epoll
back-ends agree, for the same script, on every context's outcome, and a context being added,
rejected for capacity or removed never disturbs the others.

Quantifiers of the theorems below: every back-end `b`, every `hints_max_fd`, both poll
accountings (`legacy`), every list of descriptor kinds, every list `pre` of actions before
`muggle_evloop_run`, every script `sc` (arbitrary functions from callback occurrences to
action lists, arbitrary read modes), every iteration bound `fuel` — i.e. every prefix of every
run. `evs` is the chronological list of observable events of `scenario …`.
-/
namespace MgProof.C13
open MgModel.C13

/-- the state when the back-end's loop returns, before the clear / exit callbacks -/
def loopEnd (b : Backend) (hints : Nat) (legacy : Bool) (kinds : List Kind) (pre : List Act)
    (sc : Script) (fuel : Nat) : St :=
  backendRun sc fuel (runActs pre (initSt b hints legacy kinds))

theorem initSt_inv (b : Backend) (hints : Nat) (legacy : Bool) (kinds : List Kind) :
    Inv none (initSt b hints legacy kinds) := by
  constructor <;> simp [initSt, LoopWF]

theorem loopEnd_inv (b : Backend) (hints : Nat) (legacy : Bool) (kinds : List Kind) (pre : List Act)
    (sc : Script) (fuel : Nat) : Inv none (loopEnd b hints legacy kinds pre sc fuel) := by
  unfold loopEnd backendRun
  have h0 : Inv none (runActs pre (initSt b hints legacy kinds)) := runActs_inv pre (initSt_inv _ _ _ _)
  have hb : (runActs pre (initSt b hints legacy kinds)).backend = b := (runActs_ext pre _).backend
  generalize runActs pre (initSt b hints legacy kinds) = s0 at h0 hb
  split
  · rename_i hh; exact selLoop_inv sc fuel h0 hh
  · exact pollLoop_inv sc fuel h0
  · rename_i hh
    have hbe : (epStart s0).backend = .epoll := by
      unfold epStart armSig
      simp only []
      split
      · split <;> exact hh
      · exact hh
    exact epLoop_inv sc fuel (epStart_inv h0) hbe

/-- **Shape of a run** (clauses "clear … when the loop exits, and the exit callback once"):
the events are the events of the back-end loop, then one `cb_clear` per context in
`ctx_list` in list order, then `cb_exit`. -/
theorem run_events (b : Backend) (hints : Nat) (legacy : Bool) (kinds : List Kind) (pre : List Act)
    (sc : Script) (fuel : Nat) :
    (scenario b hints legacy kinds pre sc fuel).events =
      (loopEnd b hints legacy kinds pre sc fuel).events ++
        (loopEnd b hints legacy kinds pre sc fuel).ctxList.map Ev.clear ++ [Ev.exit] := by
  unfold scenario run loopEnd
  generalize backendRun sc fuel (runActs pre (initSt b hints legacy kinds)) = s
  have key : ∀ (l : List Nat) (s : St),
      (l.foldl (fun s c => emit (.clear c) s) s).trace = (l.map Ev.clear).reverse ++ s.trace := by
    intro l
    induction l with
    | nil => intro s; simp
    | cons c l ih => intro s; rw [List.foldl_cons, ih]; simp [emit]
  have hk := key s.ctxList s
  show (Ev.exit :: (List.foldl (fun s c => emit (.clear c) s) s s.ctxList).trace).reverse = _
  rw [hk]
  simp [St.events]

section LifeCycle
variable (b : Backend) (hints : Nat) (legacy : Bool) (kinds : List Kind) (pre : List Act)
  (sc : Script) (fuel : Nat)

private theorem regL : ∀ c, c ∈ (loopEnd b hints legacy kinds pre sc fuel).ctxList ↔
    Registered (loopEnd b hints legacy kinds pre sc fuel).trace c := by
  intro c
  have h := loopEnd_inv b hints legacy kinds pre sc fuel
  constructor
  · intro hc; exact registered_of_mem h hc
  · intro hr; exact h.complete c hr.1 hr.2

/-- **Life-cycle 1a** — `cb_close c` is called at most once for every context `c`. -/
theorem close_at_most_once (c : Nat) :
    (scenario b hints legacy kinds pre sc fuel).events.count (Ev.close c) ≤ 1 := by
  rw [run_events]
  exact chrono_close_once (loopEnd_inv b hints legacy kinds pre sc fuel).wf c

/-- **Life-cycle 1b** — after `cb_close c` no callback (read, close, clear) mentions `c` again. -/
theorem no_callback_after_close {pre' post : List Ev} {c : Nat}
    (h : (scenario b hints legacy kinds pre sc fuel).events = pre' ++ Ev.close c :: post) :
    ∀ e ∈ post, ¬ Ev.callsBack c e := by
  rw [run_events] at h
  exact chrono_after_close (loopEnd_inv b hints legacy kinds pre sc fuel).wf
    (fun c hc => (regL b hints legacy kinds pre sc fuel c).mp hc) h

/-- **Life-cycle 1c** — `cb_read c` and `cb_close c` are only called while `c` is registered:
`muggle_evloop_add_ctx` accepted it earlier and it has not been closed. -/
theorem read_only_while_registered {pre' post : List Ev} {c n : Nat} {e : Bool}
    (h : (scenario b hints legacy kinds pre sc fuel).events = pre' ++ Ev.read c n e :: post) :
    Ev.addOk c ∈ pre' ∧ Ev.close c ∉ pre' := by
  rw [run_events] at h
  exact chrono_read_registered (loopEnd_inv b hints legacy kinds pre sc fuel).wf h

theorem close_only_while_registered {pre' post : List Ev} {c : Nat}
    (h : (scenario b hints legacy kinds pre sc fuel).events = pre' ++ Ev.close c :: post) :
    Ev.addOk c ∈ pre' ∧ Ev.close c ∉ pre' := by
  rw [run_events] at h
  exact chrono_close_registered (loopEnd_inv b hints legacy kinds pre sc fuel).wf h

/-- **Life-cycle 1d** — `cb_clear c` is called exactly once for every context that was accepted
and not closed (i.e. is still registered when the loop exits) and never for any other. -/
theorem clear_exactly_once_each_registered (c : Nat) :
    (scenario b hints legacy kinds pre sc fuel).events.count (Ev.clear c) =
      if Ev.addOk c ∈ (scenario b hints legacy kinds pre sc fuel).events ∧
         Ev.close c ∉ (scenario b hints legacy kinds pre sc fuel).events then 1 else 0 := by
  rw [run_events]
  have h := loopEnd_inv b hints legacy kinds pre sc fuel
  exact chrono_clear_count h.wf h.nodupL (regL b hints legacy kinds pre sc fuel) c

/-- **Life-cycle 1e** — `cb_exit` is called exactly once and is the last event. -/
theorem exit_once_and_last :
    (scenario b hints legacy kinds pre sc fuel).events.getLast? = some Ev.exit ∧
    (scenario b hints legacy kinds pre sc fuel).events.count Ev.exit = 1 := by
  rw [run_events]
  exact chrono_exit (loopEnd_inv b hints legacy kinds pre sc fuel).wf

/-- every context is answered at most once by `muggle_evloop_add_ctx` (the harness adds a
context at most once; this is what makes "never called back after close" meaningful) -/
theorem add_at_most_once (c : Nat) :
    (scenario b hints legacy kinds pre sc fuel).events.count (Ev.addOk c) +
    (scenario b hints legacy kinds pre sc fuel).events.count (Ev.addRej c) ≤ 1 := by
  rw [run_events]
  exact chrono_add_once (loopEnd_inv b hints legacy kinds pre sc fuel).wf c

end LifeCycle

/-! ### clause 2: pending input is never slept on (level-triggered back-ends) -/

/-- **Clause 2, poll** — whenever `poll` would block, no context of `ctx_list` is readable:
the loop never goes to sleep while a registered context has pending input (or a pending
end-of-stream). Every script, every `hints_max_fd`, both accountings. -/
theorem poll_never_sleeps_on_pending (hints : Nat) (legacy : Bool) (kinds : List Kind) (pre : List Act)
    (sc : Script) (fuel : Nat) :
    Ev.sleep true ∉ (scenario .poll hints legacy kinds pre sc fuel).events := by
  rw [run_events]
  have h0 : PInv (runActs pre (initSt .poll hints legacy kinds)) :=
    runActs_pinv pre ⟨rfl, by simp [initSt], by simp [initSt], by simp [initSt, NoLost]⟩
  have i0 : Inv none (runActs pre (initSt .poll hints legacy kinds)) :=
    runActs_inv pre (initSt_inv _ _ _ _)
  have hb : (runActs pre (initSt .poll hints legacy kinds)).backend = .poll := h0.backend
  have h1 : NoLost (loopEnd .poll hints legacy kinds pre sc fuel).trace := by
    unfold loopEnd backendRun
    rw [hb]
    exact (pollLoop_pinv sc fuel h0 i0).noLost
  intro hh
  simp [St.events] at hh
  exact h1 hh

/-- **Clause 2, select** — the same for `select`; this is the *rebuild lemma*: at the end of
every dispatch `allset/nfds` again cover every context of `ctx_list` (survivors and the ones
added by callbacks), whatever was removed or added during the scan. -/
theorem select_never_sleeps_on_pending (hints : Nat) (legacy : Bool) (kinds : List Kind)
    (pre : List Act) (sc : Script) (fuel : Nat) :
    Ev.sleep true ∉ (scenario .select hints legacy kinds pre sc fuel).events := by
  rw [run_events]
  have c0 : SelC (initSt .select hints legacy kinds) :=
    ⟨rfl, rfl, by simp [initSt], by simp [initSt, NoLost]⟩
  have h0 : SelC (runActs pre (initSt .select hints legacy kinds)) := c0.step (runActs_srel _ _)
  have i0 : Inv none (runActs pre (initSt .select hints legacy kinds)) :=
    runActs_inv pre (initSt_inv _ _ _ _)
  have h1 : NoLost (loopEnd .select hints legacy kinds pre sc fuel).trace := by
    unfold loopEnd backendRun
    rw [h0.backend]
    exact selLoop_c sc fuel h0 i0
  intro hh
  simp [St.events] at hh
  exact h1 hh

/-- **Clause 2, epoll** — under the documented contract of an `EPOLLET` consumer (every read
callback drains its descriptor) the edge-triggered back-end never goes to sleep while a
registered context is readable either: every readable registered context is in the kernel's
ready list or still in the batch being dispatched. Every script whose read modes are `all`,
every `hints_max_fd` (truncated batches included), actions of every kind in every callback. -/
theorem epoll_never_sleeps_on_pending (hints : Nat) (legacy : Bool) (kinds : List Kind)
    (pre : List Act) (sc : Script) (hdrain : ∀ c, sc.rmode c = .all) (fuel : Nat) :
    Ev.sleep true ∉ (scenario .epoll hints legacy kinds pre sc fuel).events := by
  rw [run_events]
  have e0 : EInv none [] (initSt .epoll hints legacy kinds) :=
    ⟨rfl, by simp [initSt], by simp [initSt], by intro c; simp [initSt, HupEof], by simp [initSt, NoLost]⟩
  have h0 : EInv none [] (runActs pre (initSt .epoll hints legacy kinds)) := runActs_einv pre e0
  have i0 : Inv none (runActs pre (initSt .epoll hints legacy kinds)) :=
    runActs_inv pre (initSt_inv _ _ _ _)
  have h1 : NoLost (loopEnd .epoll hints legacy kinds pre sc fuel).trace := by
    unfold loopEnd backendRun
    rw [h0.backend]
    exact epLoop_einv sc hdrain fuel (epStart_einv h0) (epStart_inv i0)
  intro hh
  simp [St.events] at hh
  exact h1 hh

/-- the contract is needed: a read callback that takes one byte of two leaves the second byte
unannounced (no new edge), and the loop sleeps on it -/
def lazyScript : Script :=
  { onRead := fun _ _ _ => [], onClose := fun _ => [], onWake := fun _ => [],
    onIdle := fun _ => [.write 0 2], nIdle := 1, rmode := fun _ => .upto 1 }

theorem epoll_partial_read_sleeps_on_pending :
    Ev.sleep true ∈ (scenario .epoll 4 false [.pipe] [.add 0] lazyScript 100).events := by decide

/-! ### clause 4: adding, rejecting and removing a context never disturbs the others -/

/-- **Isolation, rejected add** (poll, `nfd == capacity`): nothing but the answer is changed —
the linked-list append is rolled back, no table, no descriptor, no flag is touched. -/
theorem add_rejected_changes_nothing {s : St} {c : Nat} (hb : s.backend = .poll)
    (hfull : s.ptab.length = s.hints) (ht : s.tried c = false) (hc : c < s.nds) :
    addCtx c s = emit (.addRej c) { s with tried := upd s.tried c true } := by
  unfold addCtx
  simp [ht, hc, hb, hfull]

/-- **Isolation, accepted add**: for every other context `c'` membership in `ctx_list`, in the
poll table, in `allset`, in the epoll registration and in the epoll ready list is unchanged, and
no descriptor state, closed flag or delivered-byte count changes at all. -/
theorem add_isolation (s : St) (c : Nat) :
    (addCtx c s).ds = s.ds ∧ (addCtx c s).flag = s.flag ∧ (addCtx c s).delivered = s.delivered ∧
    (addCtx c s).evc = s.evc ∧ (addCtx c s).toExit = s.toExit ∧
    ∀ c', c' ≠ c →
      (c' ∈ (addCtx c s).ctxList ↔ c' ∈ s.ctxList) ∧
      (∀ e : PEnt, e.node = c' → (e ∈ (addCtx c s).ptab ↔ e ∈ s.ptab)) ∧
      (c' ∈ (addCtx c s).allset ↔ c' ∈ s.allset) ∧
      (c' ∈ (addCtx c s).epReg ↔ c' ∈ s.epReg) ∧
      (Src.ctx c' ∈ (addCtx c s).armed ↔ Src.ctx c' ∈ s.armed) := by
  unfold addCtx
  split
  · simp
  · have hptab : ∀ (c' : Nat) (e : PEnt), c' ≠ c → e.node = c' →
        (e ∈ s.ptab ++ [{ node := c, fd := c }] ↔ e ∈ s.ptab) := by
      intro c' e hne he
      simp only [List.mem_append, List.mem_singleton]
      constructor
      · rintro (h | h)
        · exact h
        · subst h; exact absurd he.symm hne
      · exact Or.inl
    cases hb : s.backend with
    | select =>
      refine ⟨rfl, rfl, rfl, rfl, rfl, ?_⟩
      intro c' hne
      refine ⟨?_, ?_, ?_, ?_, ?_⟩
      · simp [emit, selSetFd, hne]
      · intro e _; simp [emit, selSetFd]
      · simp only [emit, selSetFd]; split <;> simp [hne]
      · simp [emit, selSetFd]
      · simp [emit, selSetFd]
    | poll =>
      simp only []
      split
      · refine ⟨rfl, rfl, rfl, rfl, rfl, ?_⟩
        intro c' hne
        refine ⟨?_, ?_, ?_, ?_, ?_⟩ <;> simp [emit]
      · refine ⟨rfl, rfl, rfl, rfl, rfl, ?_⟩
        intro c' hne
        refine ⟨?_, ?_, ?_, ?_, ?_⟩
        · simp [emit, hne]
        · intro e he; exact hptab c' e hne he
        · simp [emit]
        · simp [emit]
        · simp [emit]
    | epoll =>
      simp only []
      split
      · simp only [emit, arm]
        split
        · refine ⟨rfl, rfl, rfl, rfl, rfl, ?_⟩
          intro c' hne
          refine ⟨?_, ?_, ?_, ?_, ?_⟩
          · simp [hne]
          · intro e _; simp
          · simp
          · simp [hne]
          · simp [hne]
        · refine ⟨rfl, rfl, rfl, rfl, rfl, ?_⟩
          intro c' hne
          refine ⟨?_, ?_, ?_, ?_, ?_⟩
          · simp [hne]
          · intro e _; simp
          · simp
          · simp [hne]
          · simp
      · refine ⟨rfl, rfl, rfl, rfl, rfl, ?_⟩
        intro c' hne
        refine ⟨?_, ?_, ?_, ?_, ?_⟩
        · simp [emit, hne]
        · intro e _; simp [emit]
        · simp [emit]
        · simp [emit, hne]
        · simp [emit]

/-- **Isolation, poll removal (swap-with-last lemma)**: unregistering slot `i` keeps every
other table entry (with its fd and its revents), removes every entry of the closed context,
and keeps every other context in `ctx_list`. -/
theorem poll_remove_isolation {pend : Option Nat} {s : St} (h : Inv pend s) {i : Nat} {e : PEnt}
    (hi : s.ptab[i]? = some e) :
    (∀ x : PEnt, x.node ≠ e.node → (x ∈ (pollRemove i e s).ptab ↔ x ∈ s.ptab)) ∧
    (∀ x ∈ (pollRemove i e s).ptab, x.node ≠ e.node) ∧
    (∀ c, c ≠ e.node → (c ∈ (pollRemove i e s).ctxList ↔ c ∈ s.ctxList)) ∧
    e.node ∉ (pollRemove i e s).ctxList ∧
    (pollRemove i e s).ds = s.ds ∧ (pollRemove i e s).flag = s.flag ∧
    (pollRemove i e s).delivered = s.delivered := by
  obtain ⟨_, f2, f3⟩ := swapRemove_facts (·.node) s.ptab i e hi h.pNodup
  refine ⟨fun x hx => ⟨fun hm => (f2 x hm).1, fun hm => f3 x hm hx⟩, fun x hm => (f2 x hm).2, ?_, ?_,
    rfl, rfl, rfl⟩
  · intro c hne
    exact List.mem_erase_of_ne hne
  · exact h.nodupL.not_mem_erase

/-- **Isolation, epoll removal** (`EPOLL_CTL_DEL`): every other registration and every other
pending event stays. -/
theorem epoll_remove_isolation (s : St) (c : Nat) :
    (∀ c', c' ≠ c → (c' ∈ (epDel c s).epReg ↔ c' ∈ s.epReg)) ∧
    (∀ x : Src, x ≠ .ctx c → (x ∈ (epDel c s).armed ↔ x ∈ s.armed)) ∧
    (epDel c s).ds = s.ds ∧ (epDel c s).ctxList = s.ctxList := by
  refine ⟨fun c' hne => List.mem_erase_of_ne hne, fun x hne => List.mem_erase_of_ne hne, rfl, rfl⟩

/-- **Isolation, select (rebuild lemma)**: after a complete dispatch — whatever the callbacks
removed or added — `allset` contains every context of `ctx_list`, `nfds` is at least its fd,
and the eventfd is in the set. -/
theorem select_rebuild (sc : Script) {s : St} (h : SelC s) (hi : Inv none s) :
    (selDispatch sc s).allsig = true ∧
    ∀ c ∈ (selDispatch sc s).ctxList, c ∈ (selDispatch sc s).allset ∧ fdOf c ≤ (selDispatch sc s).nfds :=
  ⟨(selDispatch_c sc h hi).allsig, (selDispatch_c sc h hi).cover⟩

/-! ### the defect repaired by fixes/C13-poll-ready-count.patch, as a negation witness -/

/-- two pipes; while the loop sleeps: peer 0 closes, peer 1 writes 11 bytes and closes;
the read callback of context 1 asks the loop to exit -/
def countScript : Script :=
  { onRead := fun c b a => if c = 1 ∧ b < 2 ∧ 2 ≤ a then [.exit] else [],
    onClose := fun _ => [], onWake := fun _ => [],
    onIdle := fun _ => [.pclose 0, .write 1 1, .write 1 10, .pclose 1],
    nIdle := 1, rmode := fun _ => .all }

/-- with the original `--n` accounting (`legacy = true`) the poll back-end leaves context 0 —
whose stream has ended — unvisited and clears it, while select closes it: the back-ends
disagree on its outcome. This is the input replayed on the implementation
(corpus/C13/poll-double-decrement.ops). -/
theorem legacy_poll_disagrees_with_select :
    outcome (scenario .poll 16 true [.pipe, .pipe] [.add 0, .add 1] countScript 100) 0 = (0, .cleared) ∧
    outcome (scenario .select 16 true [.pipe, .pipe] [.add 0, .add 1] countScript 100) 0 = (0, .closed) := by
  decide

/-- with the repaired accounting they agree on this script -/
theorem fixed_poll_agrees_with_select_on_witness :
    outcomes (scenario .poll 16 false [.pipe, .pipe] [.add 0, .add 1] countScript 100) =
    outcomes (scenario .select 16 false [.pipe, .pipe] [.add 0, .add 1] countScript 100) := by
  decide

/-! ### non-vacuity: a concrete script on which all the events above occur -/

/-- two pipes and a socket pair; context 2 is added from the close callback of context 0;
the read callback of context 1 shuts its own socket down after 3 bytes -/
def demoScript : Script :=
  { onRead := fun c b a => if c = 1 ∧ b < 3 ∧ 3 ≤ a then [.shut 1] else [],
    onClose := fun c => if c = 0 then [.add 2] else [],
    onWake := fun _ => [],
    onIdle := fun k => if k = 0 then [.write 0 5, .pclose 0, .write 1 4] else [.write 2 2],
    nIdle := 2,
    rmode := fun _ => .all }

def demoRun (b : Backend) : List Ev :=
  (scenario b 4 false [.pipe, .sock, .pipe] [.add 0, .add 1] demoScript 100).events

example : demoRun .poll =
    [.addOk 0, .addOk 1, .sleep false, .disp, .read 1 4 false, .close 1, .read 0 5 true, .close 0,
     .addOk 2, .sleep false, .disp, .read 2 2 false, .sleep false, .disp, .wake, .clear 2, .exit] := by
  decide

example : demoRun .select =
    [.addOk 0, .addOk 1, .sleep false, .disp, .read 0 5 true, .close 0, .addOk 2, .read 1 4 false,
     .close 1, .sleep false, .disp, .read 2 2 false, .sleep false, .disp, .wake, .clear 2, .exit] := by
  decide

example : demoRun .epoll =
    [.addOk 0, .addOk 1, .sleep false, .disp, .read 0 5 true, .close 0, .addOk 2, .read 1 4 false,
     .close 1, .sleep false, .disp, .read 2 2 false, .sleep false, .disp, .wake, .clear 2, .exit] := by
  decide

end MgProof.C13
