import MgProof.C13.LemmasTrace
import MgProof.C13.LemmasPoll
import MgProof.C13.LemmasSelect
import MgProof.C13.LemmasEpoll
import MgProof.C13.LemmasReady
/-!
# C13 — property theorems (event loop callback life-cycle; select, poll, epoll agree)

Statement (properties.jsonl): for any scripted history of descriptors becoming readable,
peers closing, contexts being added or flagged closed from inside callbacks, wake-ups and
exit, the event loop calls the read callback for every registered context that has pending
input, calls the close callback exactly once for each context that becomes closed and never
calls back on it afterwards, calls the clear callback exactly once for each context still
registered when the loop exits, and the exit callback once. The select, poll and epoll
back-ends agree, for the same script, on every context's outcome, and a context being added,
rejected for capacity or removed never disturbs the others.

Quantifiers of the theorems below: every back-end `b`, every `hints_max_fd`, both poll
accountings (`legacy`), every list of descriptor kinds, every list `pre` of actions before
`muggle_evloop_run`, every script `sc` (arbitrary functions from callback occurrences to
action lists, arbitrary read modes), every iteration bound `fuel` — i.e. every prefix of every
run. `evs` is the chronological list of observable events of `scenario …`.
-/
namespace MgProof.C13
open MgModel.C13

/-- the state when the back-end's loop returns, before the clear / exit callbacks -/
def loopEnd (b : Backend) (hints : Nat) (legacy : Bool) (kinds : List Kind) (pre : List Act)
    (sc : Script) (fuel : Nat) : St :=
  backendRun sc fuel (runActs pre (initSt b hints legacy kinds))

theorem initSt_inv (b : Backend) (hints : Nat) (legacy : Bool) (kinds : List Kind) :
    Inv none (initSt b hints legacy kinds) := by
  constructor <;> simp [initSt, LoopWF]

theorem loopEnd_inv (b : Backend) (hints : Nat) (legacy : Bool) (kinds : List Kind) (pre : List Act)
    (sc : Script) (fuel : Nat) : Inv none (loopEnd b hints legacy kinds pre sc fuel) := by
  unfold loopEnd backendRun
  have h0 : Inv none (runActs pre (initSt b hints legacy kinds)) := runActs_inv pre (initSt_inv _ _ _ _)
  have hb : (runActs pre (initSt b hints legacy kinds)).backend = b := (runActs_ext pre _).backend
  generalize runActs pre (initSt b hints legacy kinds) = s0 at h0 hb
  split
  · rename_i hh; exact selLoop_inv sc fuel h0 hh
  · exact pollLoop_inv sc fuel h0
  · rename_i hh
    have hbe : (epStart s0).backend = .epoll := by
      unfold epStart armSig
      simp only []
      split
      · split <;> exact hh
      · exact hh
    exact epLoop_inv sc fuel (epStart_inv h0) hbe

/-- **Shape of a run** (clauses "clear … when the loop exits, and the exit callback once"):
the events are the events of the back-end loop, then one `cb_clear` per context in
`ctx_list` in list order, then `cb_exit`. -/
theorem run_events (b : Backend) (hints : Nat) (legacy : Bool) (kinds : List Kind) (pre : List Act)
    (sc : Script) (fuel : Nat) :
    (scenario b hints legacy kinds pre sc fuel).events =
      (loopEnd b hints legacy kinds pre sc fuel).events ++
        (loopEnd b hints legacy kinds pre sc fuel).ctxList.map Ev.clear ++ [Ev.exit] := by
  unfold scenario run loopEnd
  generalize backendRun sc fuel (runActs pre (initSt b hints legacy kinds)) = s
  have key : ∀ (l : List Nat) (s : St),
      (l.foldl (fun s c => emit (.clear c) s) s).trace = (l.map Ev.clear).reverse ++ s.trace := by
    intro l
    induction l with
    | nil => intro s; simp
    | cons c l ih => intro s; rw [List.foldl_cons, ih]; simp [emit]
  have hk := key s.ctxList s
  show (Ev.exit :: (List.foldl (fun s c => emit (.clear c) s) s s.ctxList).trace).reverse = _
  rw [hk]
  simp [St.events]

section LifeCycle
variable (b : Backend) (hints : Nat) (legacy : Bool) (kinds : List Kind) (pre : List Act)
  (sc : Script) (fuel : Nat)

private theorem regL : ∀ c, c ∈ (loopEnd b hints legacy kinds pre sc fuel).ctxList ↔
    Registered (loopEnd b hints legacy kinds pre sc fuel).trace c := by
  intro c
  have h := loopEnd_inv b hints legacy kinds pre sc fuel
  constructor
  · intro hc; exact registered_of_mem h hc
  · intro hr; exact h.complete c hr.1 hr.2

/-- **Life-cycle 1a** — `cb_close c` is called at most once for every context `c`. -/
theorem close_at_most_once (c : Nat) :
    (scenario b hints legacy kinds pre sc fuel).events.count (Ev.close c) ≤ 1 := by
  rw [run_events]
  exact chrono_close_once (loopEnd_inv b hints legacy kinds pre sc fuel).wf c

/-- **Life-cycle 1b** — after `cb_close c` no callback (read, close, clear) mentions `c` again. -/
theorem no_callback_after_close {pre' post : List Ev} {c : Nat}
    (h : (scenario b hints legacy kinds pre sc fuel).events = pre' ++ Ev.close c :: post) :
    ∀ e ∈ post, ¬ Ev.callsBack c e := by
  rw [run_events] at h
  exact chrono_after_close (loopEnd_inv b hints legacy kinds pre sc fuel).wf
    (fun c hc => (regL b hints legacy kinds pre sc fuel c).mp hc) h

/-- **Life-cycle 1c** — `cb_read c` and `cb_close c` are only called while `c` is registered:
`muggle_evloop_add_ctx` accepted it earlier and it has not been closed. -/
theorem read_only_while_registered {pre' post : List Ev} {c n : Nat} {e : Bool}
    (h : (scenario b hints legacy kinds pre sc fuel).events = pre' ++ Ev.read c n e :: post) :
    Ev.addOk c ∈ pre' ∧ Ev.close c ∉ pre' := by
  rw [run_events] at h
  exact chrono_read_registered (loopEnd_inv b hints legacy kinds pre sc fuel).wf h

theorem close_only_while_registered {pre' post : List Ev} {c : Nat}
    (h : (scenario b hints legacy kinds pre sc fuel).events = pre' ++ Ev.close c :: post) :
    Ev.addOk c ∈ pre' ∧ Ev.close c ∉ pre' := by
  rw [run_events] at h
  exact chrono_close_registered (loopEnd_inv b hints legacy kinds pre sc fuel).wf h

/-- **Life-cycle 1d** — `cb_clear c` is called exactly once for every context that was accepted
and not closed (i.e. is still registered when the loop exits) and never for any other. -/
theorem clear_exactly_once_each_registered (c : Nat) :
    (scenario b hints legacy kinds pre sc fuel).events.count (Ev.clear c) =
      if Ev.addOk c ∈ (scenario b hints legacy kinds pre sc fuel).events ∧
         Ev.close c ∉ (scenario b hints legacy kinds pre sc fuel).events then 1 else 0 := by
  rw [run_events]
  have h := loopEnd_inv b hints legacy kinds pre sc fuel
  exact chrono_clear_count h.wf h.nodupL (regL b hints legacy kinds pre sc fuel) c

/-- **Life-cycle 1e** — `cb_exit` is called exactly once and is the last event. -/
theorem exit_once_and_last :
    (scenario b hints legacy kinds pre sc fuel).events.getLast? = some Ev.exit ∧
    (scenario b hints legacy kinds pre sc fuel).events.count Ev.exit = 1 := by
  rw [run_events]
  exact chrono_exit (loopEnd_inv b hints legacy kinds pre sc fuel).wf

/-- every context is answered at most once by `muggle_evloop_add_ctx` (the harness adds a
context at most once; this is what makes "never called back after close" meaningful) -/
theorem add_at_most_once (c : Nat) :
    (scenario b hints legacy kinds pre sc fuel).events.count (Ev.addOk c) +
    (scenario b hints legacy kinds pre sc fuel).events.count (Ev.addRej c) ≤ 1 := by
  rw [run_events]
  exact chrono_add_once (loopEnd_inv b hints legacy kinds pre sc fuel).wf c

end LifeCycle

/-! ### clause 2: pending input is never slept on (level-triggered back-ends) -/

/-- **Clause 2, poll** — whenever `poll` would block, no context of `ctx_list` is readable:
the loop never goes to sleep while a registered context has pending input (or a pending
end-of-stream). Every script, every `hints_max_fd`, both accountings. -/
theorem poll_never_sleeps_on_pending (hints : Nat) (legacy : Bool) (kinds : List Kind) (pre : List Act)
    (sc : Script) (fuel : Nat) :
    Ev.sleep true ∉ (scenario .poll hints legacy kinds pre sc fuel).events := by
  rw [run_events]
  have h0 : PInv (runActs pre (initSt .poll hints legacy kinds)) :=
    runActs_pinv pre ⟨rfl, by simp [initSt], by simp [initSt], by simp [initSt, NoLost]⟩
  have i0 : Inv none (runActs pre (initSt .poll hints legacy kinds)) :=
    runActs_inv pre (initSt_inv _ _ _ _)
  have hb : (runActs pre (initSt .poll hints legacy kinds)).backend = .poll := h0.backend
  have h1 : NoLost (loopEnd .poll hints legacy kinds pre sc fuel).trace := by
    unfold loopEnd backendRun
    rw [hb]
    exact (pollLoop_pinv sc fuel h0 i0).noLost
  intro hh
  simp [St.events] at hh
  exact h1 hh

/-- **Clause 2, select** — the same for `select`; this is the *rebuild lemma*: at the end of
every dispatch `allset/nfds` again cover every context of `ctx_list` (survivors and the ones
added by callbacks), whatever was removed or added during the scan. -/
theorem select_never_sleeps_on_pending (hints : Nat) (legacy : Bool) (kinds : List Kind)
    (pre : List Act) (sc : Script) (fuel : Nat) :
    Ev.sleep true ∉ (scenario .select hints legacy kinds pre sc fuel).events := by
  rw [run_events]
  have c0 : SelC (initSt .select hints legacy kinds) :=
    ⟨rfl, rfl, by simp [initSt], by simp [initSt, NoLost]⟩
  have h0 : SelC (runActs pre (initSt .select hints legacy kinds)) := c0.step (runActs_srel _ _)
  have i0 : Inv none (runActs pre (initSt .select hints legacy kinds)) :=
    runActs_inv pre (initSt_inv _ _ _ _)
  have h1 : NoLost (loopEnd .select hints legacy kinds pre sc fuel).trace := by
    unfold loopEnd backendRun
    rw [h0.backend]
    exact selLoop_c sc fuel h0 i0
  intro hh
  simp [St.events] at hh
  exact h1 hh

/-! ### non-vacuity: a concrete script on which all the events above occur -/

/-- two pipes and a socket pair; context 2 is added from the close callback of context 0;
the read callback of context 1 shuts its own socket down after 3 bytes -/
def demoScript : Script :=
  { onRead := fun c b a => if c = 1 ∧ b < 3 ∧ 3 ≤ a then [.shut 1] else [],
    onClose := fun c => if c = 0 then [.add 2] else [],
    onWake := fun _ => [],
    onIdle := fun k => if k = 0 then [.write 0 5, .pclose 0, .write 1 4] else [.write 2 2],
    nIdle := 2,
    rmode := fun _ => .all }

def demoRun (b : Backend) : List Ev :=
  (scenario b 4 false [.pipe, .sock, .pipe] [.add 0, .add 1] demoScript 100).events

example : demoRun .poll =
    [.addOk 0, .addOk 1, .sleep false, .disp, .read 1 4 false, .close 1, .read 0 5 true, .close 0,
     .addOk 2, .sleep false, .disp, .read 2 2 false, .sleep false, .disp, .wake, .clear 2, .exit] := by
  decide

example : demoRun .select =
    [.addOk 0, .addOk 1, .sleep false, .disp, .read 0 5 true, .close 0, .addOk 2, .read 1 4 false,
     .close 1, .sleep false, .disp, .read 2 2 false, .sleep false, .disp, .wake, .clear 2, .exit] := by
  decide

example : demoRun .epoll =
    [.addOk 0, .addOk 1, .sleep false, .disp, .read 0 5 true, .close 0, .addOk 2, .read 1 4 false,
     .close 1, .sleep false, .disp, .read 2 2 false, .sleep false, .disp, .wake, .clear 2, .exit] := by
  decide

end MgProof.C13
