import MgProof.C13.LemmasTrace
import MgProof.C13.LemmasPoll
import MgProof.C13.LemmasSelect
import MgProof.C13.LemmasEpoll
import MgProof.C13.LemmasReady
import MgProof.C13.LemmasEpollReady
import MgProof.C13.LemmasSelectFd
import MgProof.C13.LemmasAgree
/-!
# C13 — property theorems (event loop callback life-cycle; select, poll, epoll agree)

Statement (properties.jsonl): for any scripted history of descriptors becoming readable,
peers closing, contexts being added or flagged closed from inside callbacks, wake-ups and
exit, the event loop calls the read callback for every registered context that has pending
input, calls the close callback exactly once for each context that becomes closed and never
calls back on it afterwards, calls the clear callback exactly once for each context still
registered when the loop exits, and the exit callback once. The select, poll and epoll
back-ends agree, for the same script, on every context's outcome, and a context being added,
rejected for capacity or removed never disturbs the others.

Quantifiers of the theorems below: every back-end `b`, every `hints_max_fd`, both poll
accountings (`legacy`), every list of descriptor kinds, every list `pre` of actions before
`muggle_evloop_run`, every script `sc` (arbitrary functions from callback occurrences to
action lists, arbitrary read modes), every iteration bound `fuel` — i.e. every prefix of every
run. `evs` is the chronological list of observable events of `scenario …`.
-/
namespace MgProof.C13
open MgModel.C13

/-- the state when the back-end's loop returns, before the clear / exit callbacks -/
def loopEnd (b : Backend) (hints : Nat) (legacy : Bool) (kinds : List Kind) (pre : List Act)
    (sc : Script) (fuel : Nat) (lsel cfd : Bool) : St :=
  backendRun sc fuel (runActs pre (initSt b hints legacy kinds lsel cfd))

theorem initSt_inv (b : Backend) (hints : Nat) (legacy : Bool) (kinds : List Kind) (lsel cfd : Bool) :
    Inv none (initSt b hints legacy kinds lsel cfd) := by
  constructor <;> simp [initSt, LoopWF]

theorem loopEnd_inv (b : Backend) (hints : Nat) (legacy : Bool) (kinds : List Kind) (pre : List Act)
    (sc : Script) (fuel : Nat) (lsel cfd : Bool) :
    Inv none (loopEnd b hints legacy kinds pre sc fuel lsel cfd) := by
  unfold loopEnd backendRun
  have h0 : Inv none (runActs pre (initSt b hints legacy kinds lsel cfd)) := runActs_inv pre (initSt_inv _ _ _ _ _ _)
  have hb : (runActs pre (initSt b hints legacy kinds lsel cfd)).backend = b := (runActs_ext pre _).backend
  generalize runActs pre (initSt b hints legacy kinds lsel cfd) = s0 at h0 hb
  split
  · rename_i hh; exact selLoop_inv sc fuel h0 hh
  · exact pollLoop_inv sc fuel h0
  · rename_i hh
    have hbe : (epStart s0).backend = .epoll := by
      unfold epStart armSig
      simp only []
      split
      · split <;> exact hh
      · exact hh
    exact epLoop_inv sc fuel (epStart_inv h0) hbe

/-- **Shape of a run** (clauses "clear … when the loop exits, and the exit callback once"):
the events are the events of the back-end loop, then one `cb_clear` per context in
`ctx_list` in list order, then `cb_exit`. -/
theorem run_events (b : Backend) (hints : Nat) (legacy : Bool) (kinds : List Kind) (pre : List Act)
    (sc : Script) (fuel : Nat) (lsel cfd : Bool) :
    (scenario b hints legacy kinds pre sc fuel lsel cfd).events =
      (loopEnd b hints legacy kinds pre sc fuel lsel cfd).events ++
        (loopEnd b hints legacy kinds pre sc fuel lsel cfd).ctxList.map Ev.clear ++ [Ev.exit] := by
  unfold scenario run loopEnd
  generalize backendRun sc fuel (runActs pre (initSt b hints legacy kinds lsel cfd)) = s
  have key : ∀ (l : List Nat) (s : St),
      (l.foldl (fun s c => emit (.clear c) s) s).trace = (l.map Ev.clear).reverse ++ s.trace := by
    intro l
    induction l with
    | nil => intro s; simp
    | cons c l ih => intro s; rw [List.foldl_cons, ih]; simp [emit]
  have hk := key s.ctxList s
  show (Ev.exit :: (List.foldl (fun s c => emit (.clear c) s) s s.ctxList).trace).reverse = _
  rw [hk]
  simp [St.events]

section LifeCycle
variable (b : Backend) (hints : Nat) (legacy : Bool) (kinds : List Kind) (pre : List Act)
  (sc : Script) (fuel : Nat) (lsel cfd : Bool)

private theorem regL : ∀ c, c ∈ (loopEnd b hints legacy kinds pre sc fuel lsel cfd).ctxList ↔
    Registered (loopEnd b hints legacy kinds pre sc fuel lsel cfd).trace c := by
  intro c
  have h := loopEnd_inv b hints legacy kinds pre sc fuel lsel cfd
  constructor
  · intro hc; exact registered_of_mem h hc
  · intro hr; exact h.complete c hr.1 hr.2

/-- **Life-cycle 1a** — `cb_close c` is called at most once for every context `c`. -/
theorem close_at_most_once (c : Nat) :
    (scenario b hints legacy kinds pre sc fuel lsel cfd).events.count (Ev.close c) ≤ 1 := by
  rw [run_events]
  exact chrono_close_once (loopEnd_inv b hints legacy kinds pre sc fuel lsel cfd).wf c

/-- **Life-cycle 1b** — after `cb_close c` no callback (read, close, clear) mentions `c` again. -/
theorem no_callback_after_close {pre' post : List Ev} {c : Nat}
    (h : (scenario b hints legacy kinds pre sc fuel lsel cfd).events = pre' ++ Ev.close c :: post) :
    ∀ e ∈ post, ¬ Ev.callsBack c e := by
  rw [run_events] at h
  exact chrono_after_close (loopEnd_inv b hints legacy kinds pre sc fuel lsel cfd).wf
    (fun c hc => (regL b hints legacy kinds pre sc fuel lsel cfd c).mp hc) h

/-- **Life-cycle 1c** — `cb_read c` and `cb_close c` are only called while `c` is registered:
`muggle_evloop_add_ctx` accepted it earlier and it has not been closed. -/
theorem read_only_while_registered {pre' post : List Ev} {c n : Nat} {e : Bool}
    (h : (scenario b hints legacy kinds pre sc fuel lsel cfd).events = pre' ++ Ev.read c n e :: post) :
    Ev.addOk c ∈ pre' ∧ Ev.close c ∉ pre' := by
  rw [run_events] at h
  exact chrono_read_registered (loopEnd_inv b hints legacy kinds pre sc fuel lsel cfd).wf h

theorem close_only_while_registered {pre' post : List Ev} {c : Nat}
    (h : (scenario b hints legacy kinds pre sc fuel lsel cfd).events = pre' ++ Ev.close c :: post) :
    Ev.addOk c ∈ pre' ∧ Ev.close c ∉ pre' := by
  rw [run_events] at h
  exact chrono_close_registered (loopEnd_inv b hints legacy kinds pre sc fuel lsel cfd).wf h

/-- **Life-cycle 1d** — `cb_clear c` is called exactly once for every context that was accepted
and not closed (i.e. is still registered when the loop exits) and never for any other. -/
theorem clear_exactly_once_each_registered (c : Nat) :
    (scenario b hints legacy kinds pre sc fuel lsel cfd).events.count (Ev.clear c) =
      if Ev.addOk c ∈ (scenario b hints legacy kinds pre sc fuel lsel cfd).events ∧
         Ev.close c ∉ (scenario b hints legacy kinds pre sc fuel lsel cfd).events then 1 else 0 := by
  rw [run_events]
  have h := loopEnd_inv b hints legacy kinds pre sc fuel lsel cfd
  exact chrono_clear_count h.wf h.nodupL (regL b hints legacy kinds pre sc fuel lsel cfd) c

/-- **Life-cycle 1e** — `cb_exit` is called exactly once and is the last event. -/
theorem exit_once_and_last :
    (scenario b hints legacy kinds pre sc fuel lsel cfd).events.getLast? = some Ev.exit ∧
    (scenario b hints legacy kinds pre sc fuel lsel cfd).events.count Ev.exit = 1 := by
  rw [run_events]
  exact chrono_exit (loopEnd_inv b hints legacy kinds pre sc fuel lsel cfd).wf

/-- every context is answered at most once by `muggle_evloop_add_ctx` (the harness adds a
context at most once; this is what makes "never called back after close" meaningful) -/
theorem add_at_most_once (c : Nat) :
    (scenario b hints legacy kinds pre sc fuel lsel cfd).events.count (Ev.addOk c) +
    (scenario b hints legacy kinds pre sc fuel lsel cfd).events.count (Ev.addRej c) ≤ 1 := by
  rw [run_events]
  exact chrono_add_once (loopEnd_inv b hints legacy kinds pre sc fuel lsel cfd).wf c

end LifeCycle

/-! ### clause 2: pending input is never slept on (level-triggered back-ends) -/

/-- **Clause 2, poll** — whenever `poll` would block, no context of `ctx_list` is readable:
the loop never goes to sleep while a registered context has pending input (or a pending
end-of-stream). Every script, every `hints_max_fd`, both accountings. -/
theorem poll_never_sleeps_on_pending (hints : Nat) (legacy : Bool) (kinds : List Kind) (pre : List Act)
    (sc : Script) (fuel : Nat) (lsel cfd : Bool) :
    Ev.sleep true ∉ (scenario .poll hints legacy kinds pre sc fuel lsel cfd).events := by
  rw [run_events]
  have h0 : PInv (runActs pre (initSt .poll hints legacy kinds lsel cfd)) :=
    runActs_pinv pre ⟨rfl, by simp [initSt], by simp [initSt], by simp [initSt, NoLost]⟩
  have i0 : Inv none (runActs pre (initSt .poll hints legacy kinds lsel cfd)) :=
    runActs_inv pre (initSt_inv _ _ _ _ _ _)
  have hb : (runActs pre (initSt .poll hints legacy kinds lsel cfd)).backend = .poll := h0.backend
  have h1 : NoLost (loopEnd .poll hints legacy kinds pre sc fuel lsel cfd).trace := by
    unfold loopEnd backendRun
    rw [hb]
    exact (pollLoop_pinv sc fuel h0 i0).noLost
  intro hh
  simp [St.events] at hh
  exact h1 hh

/-- **Clause 2, select** — the same for `select`; this is the *rebuild lemma*: at the end of
every dispatch `allset/nfds` again cover every context of `ctx_list` (survivors and the ones
added by callbacks), whatever was removed or added during the scan. -/
theorem select_never_sleeps_on_pending (hints : Nat) (legacy : Bool) (kinds : List Kind)
    (pre : List Act) (sc : Script) (fuel : Nat) (lsel cfd : Bool) :
    Ev.sleep true ∉ (scenario .select hints legacy kinds pre sc fuel lsel cfd).events := by
  rw [run_events]
  have c0 : SelC (initSt .select hints legacy kinds lsel cfd) :=
    ⟨rfl, rfl, by simp [initSt], by simp [initSt, NoLost]⟩
  have h0 : SelC (runActs pre (initSt .select hints legacy kinds lsel cfd)) := c0.step (runActs_srel _ _)
  have i0 : Inv none (runActs pre (initSt .select hints legacy kinds lsel cfd)) :=
    runActs_inv pre (initSt_inv _ _ _ _ _ _)
  have h1 : NoLost (loopEnd .select hints legacy kinds pre sc fuel lsel cfd).trace := by
    unfold loopEnd backendRun
    rw [h0.backend]
    exact selLoop_c sc fuel h0 i0
  intro hh
  simp [St.events] at hh
  exact h1 hh

/-- **Clause 2, epoll** — under the documented contract of an `EPOLLET` consumer (every read
callback drains its descriptor) the edge-triggered back-end never goes to sleep while a
registered context is readable either: every readable registered context is in the kernel's
ready list or still in the batch being dispatched. Every script whose read modes are `all`,
every `hints_max_fd` (truncated batches included), actions of every kind in every callback. -/
theorem epoll_never_sleeps_on_pending (hints : Nat) (legacy : Bool) (kinds : List Kind)
    (pre : List Act) (sc : Script) (hdrain : ∀ c, sc.rmode c = .all) (fuel : Nat) (lsel cfd : Bool) :
    Ev.sleep true ∉ (scenario .epoll hints legacy kinds pre sc fuel lsel cfd).events := by
  rw [run_events]
  have e0 : EInv none [] (initSt .epoll hints legacy kinds lsel cfd) :=
    ⟨rfl, by simp [initSt], by simp [initSt], by intro c; simp [initSt, HupEof], by simp [initSt, NoLost]⟩
  have h0 : EInv none [] (runActs pre (initSt .epoll hints legacy kinds lsel cfd)) := runActs_einv pre e0
  have i0 : Inv none (runActs pre (initSt .epoll hints legacy kinds lsel cfd)) :=
    runActs_inv pre (initSt_inv _ _ _ _ _ _)
  have h1 : NoLost (loopEnd .epoll hints legacy kinds pre sc fuel lsel cfd).trace := by
    unfold loopEnd backendRun
    rw [h0.backend]
    exact epLoop_einv sc hdrain fuel (epStart_einv h0) (epStart_inv i0)
  intro hh
  simp [St.events] at hh
  exact h1 hh

/-- the contract is needed: a read callback that takes one byte of two leaves the second byte
unannounced (no new edge), and the loop sleeps on it -/
def lazyScript : Script :=
  { onRead := fun _ _ _ => [], onClose := fun _ => [], onWake := fun _ => [],
    onIdle := fun _ => [.write 0 2], nIdle := 1, rmode := fun _ => .upto 1 }

theorem epoll_partial_read_sleeps_on_pending :
    Ev.sleep true ∈ (scenario .epoll 4 false [.pipe] [.add 0] lazyScript 100).events := by decide

/-! ### the select defect repaired by fixes/C13-select-stale-fd.patch -/

/-- **No spontaneous exit (select, repaired scan).** With the `FD_CLR` of the patch, `select` never
has a closed descriptor in its set: the wait call never fails with `EBADF`, whatever the
callbacks add, shut down or close (including descriptors closed by the close callback). -/
theorem select_never_ebadf (hints : Nat) (legacy : Bool) (kinds : List Kind) (pre : List Act)
    (sc : Script) (fuel : Nat) (cfd : Bool) :
    Ev.waitErr ∉ (scenario .select hints legacy kinds pre sc fuel false cfd).events := by
  rw [run_events]
  have f0 : SelF none (initSt .select hints legacy kinds false cfd) :=
    ⟨rfl, by simp [initSt], by simp [initSt], by simp [initSt], by simp [initSt]⟩
  have i0 : Inv none (runActs pre (initSt .select hints legacy kinds false cfd)) :=
    runActs_inv pre (initSt_inv _ _ _ _ _ _)
  have h0 : SelF none (runActs pre (initSt .select hints legacy kinds false cfd)) :=
    runActs_self pre f0 (initSt_inv _ _ _ _ _ _)
  have hb : (runActs pre (initSt .select hints legacy kinds false cfd)).backend = .select :=
    (runActs_ext pre _).backend
  have h1 : Ev.waitErr ∉ (loopEnd .select hints legacy kinds pre sc fuel false cfd).trace := by
    unfold loopEnd backendRun
    rw [hb]
    exact selLoop_self sc fuel h0 i0 hb
  intro hh
  simp [St.events] at hh
  exact h1 hh

/-- context 0 is a registered socket; while the loop sleeps its peer sends 2 bytes; its read
callback adds context 1 and shuts it down at once; the close callback closes the descriptor;
later the peer of context 0 sends 3 more bytes -/
def staleScript : Script :=
  { onRead := fun c b a => if c = 0 ∧ b < 1 ∧ 1 ≤ a then [.add 1, .shut 1] else [],
    onClose := fun _ => [], onWake := fun _ => [],
    onIdle := fun k => if k = 0 then [.write 0 2] else [.write 0 3],
    nIdle := 2, rmode := fun _ => .all }

/-- with the original scan (`legacySel = true`) the descriptor of context 1 stays in `allset`, the
next `select` fails, the loop gives up and context 0 never sees its last 3 bytes — poll delivers
all 5 (corpus/C13/select-stale-fd-read.ops, replayed on the implementation) -/
theorem legacy_select_gives_up :
    Ev.waitErr ∈ (scenario .select 4 false [.sock, .sock] [.add 0] staleScript 100 true true).events ∧
    outcome (scenario .select 4 false [.sock, .sock] [.add 0] staleScript 100 true true) 0 = (2, .cleared) ∧
    outcome (scenario .poll 4 false [.sock, .sock] [.add 0] staleScript 100 true true) 0 = (5, .cleared) := by
  decide

theorem fixed_select_agrees_on_witness :
    outcomes (scenario .select 4 false [.sock, .sock] [.add 0] staleScript 100 false true) =
    outcomes (scenario .poll 4 false [.sock, .sock] [.add 0] staleScript 100 false true) := by
  decide

/-! ### clause 3 (agreement), class P: the outcome is a function of the kernel history -/

theorem clearAll_fields (s : St) :
    (clearAll s).delivered = s.delivered := by
  unfold clearAll
  have key : ∀ (l : List Nat) (s : St),
      (l.foldl (fun s c => emit (.clear c) s) s).delivered = s.delivered := by
    intro l
    induction l with
    | nil => intro s; rfl
    | cons c l ih => intro s; rw [List.foldl_cons, ih]; rfl
  exact key _ _

/-- the outcome of a finished run, read off the state at the end of the back-end loop -/
theorem outcome_run (b : Backend) (hints : Nat) (legacy : Bool) (kinds : List Kind) (pre : List Act)
    (sc : Script) (fuel : Nat) (lsel cfd : Bool) (c : Nat) :
    outcome (scenario b hints legacy kinds pre sc fuel lsel cfd) c =
      ((loopEnd b hints legacy kinds pre sc fuel lsel cfd).delivered c,
        if Ev.close c ∈ (loopEnd b hints legacy kinds pre sc fuel lsel cfd).trace then Fate.closed
        else if c ∈ (loopEnd b hints legacy kinds pre sc fuel lsel cfd).ctxList then Fate.cleared
        else Fate.none) := by
  have hwf := (loopEnd_inv b hints legacy kinds pre sc fuel lsel cfd).wf
  unfold outcome
  rw [run_events]
  have hd : (scenario b hints legacy kinds pre sc fuel lsel cfd).delivered =
      (loopEnd b hints legacy kinds pre sc fuel lsel cfd).delivered := by
    unfold scenario run loopEnd
    show (clearAll _).delivered = _
    rw [clearAll_fields]
  rw [hd]
  congr 1
  unfold fateOf
  generalize loopEnd b hints legacy kinds pre sc fuel lsel cfd = L at hwf
  have h1 : (L.events ++ L.ctxList.map Ev.clear ++ [Ev.exit]).contains (Ev.close c) = true ↔
      Ev.close c ∈ L.trace := by simp [St.events]
  have h2 : (L.events ++ L.ctxList.map Ev.clear ++ [Ev.exit]).contains (Ev.clear c) = true ↔
      c ∈ L.ctxList := by
    simp [St.events]
    intro hh
    exact absurd hh ((wf_no_clear_exit hwf).1 c)
  by_cases hcl : Ev.close c ∈ L.trace
  · rw [if_pos (h1.mpr hcl), if_pos hcl]
  · rw [if_neg (fun hh => hcl (h1.mp hh)), if_neg hcl]
    by_cases hm : c ∈ L.ctxList
    · rw [if_pos (h2.mpr hm), if_pos hm]
    · rw [if_neg (fun hh => hm (h2.mp hh)), if_neg hm]

/-- **Agreement, select (class P).** For every externally driven draining script — read callbacks
drain and do nothing else, peers act before the run or while the loop sleeps — whose adds were all
accepted and whose run finished, every context's outcome (bytes offered, closed / cleared /
never registered) is exactly the one computed by the kernel-only specification `specOutcome`,
which does not mention the back-end. -/
theorem select_outcome_is_spec {kinds : List Kind} {pre : List Act} {sc : Script} (hp : ClassP pre sc)
    (hints : Nat) (legacy cfd : Bool) (fuel : Nat)
    (hfuel : Ev.fuel ∉ (scenario .select hints legacy kinds pre sc fuel false cfd).events)
    (hrej : ∀ c, Ev.addRej c ∉ (scenario .select hints legacy kinds pre sc fuel false cfd).events) (c : Nat) :
    outcome (scenario .select hints legacy kinds pre sc fuel false cfd) c = specOutcome kinds pre sc c := by
  rw [outcome_run]
  rw [run_events] at hfuel hrej
  have p0 := pre_pc (kinds := kinds) hp .select hints legacy false cfd
  have f0 : SelF none (initSt .select hints legacy kinds false cfd) :=
    ⟨rfl, by simp [initSt], by simp [initSt], by simp [initSt], by simp [initSt]⟩
  have c0 : SelC (initSt .select hints legacy kinds false cfd) :=
    ⟨rfl, rfl, by simp [initSt], by simp [initSt, NoLost]⟩
  have i0 : Inv none (runActs pre (initSt .select hints legacy kinds false cfd)) :=
    runActs_inv pre (initSt_inv _ _ _ _ _ _)
  have hc0 := c0.step (runActs_srel pre _)
  have hf0 := runActs_self pre f0 (initSt_inv _ _ _ _ _ _)
  have hi := loopEnd_inv .select hints legacy kinds pre sc fuel false cfd
  have hb : (runActs pre (initSt .select hints legacy kinds false cfd)).backend = .select := hc0.backend
  have hloop : loopEnd .select hints legacy kinds pre sc fuel false cfd =
      selLoop sc fuel (runActs pre (initSt .select hints legacy kinds false cfd)) := by
    unfold loopEnd backendRun; rw [hb]
  obtain ⟨p1, hend⟩ := selLoop_pc hp fuel p0 hc0 hf0 i0
  rw [← hloop] at p1 hend
  have hexit : (loopEnd .select hints legacy kinds pre sc fuel false cfd).toExit = 1 := by
    rcases hend with h' | h'
    · exact h'
    · exact absurd (by simp [St.events, h']) hfuel
  exact outcome_of_pc p1 hi hexit (fun c hh => hrej c (by simp [St.events, hh])) c

/-- **Agreement, poll (class P).** -/
theorem poll_outcome_is_spec {kinds : List Kind} {pre : List Act} {sc : Script} (hp : ClassP pre sc)
    (hints : Nat) (legacy lsel cfd : Bool) (fuel : Nat)
    (hfuel : Ev.fuel ∉ (scenario .poll hints legacy kinds pre sc fuel lsel cfd).events)
    (hrej : ∀ c, Ev.addRej c ∉ (scenario .poll hints legacy kinds pre sc fuel lsel cfd).events) (c : Nat) :
    outcome (scenario .poll hints legacy kinds pre sc fuel lsel cfd) c = specOutcome kinds pre sc c := by
  rw [outcome_run]
  rw [run_events] at hfuel hrej
  have p0 := pre_pc (kinds := kinds) hp .poll hints legacy lsel cfd
  have v0 : PInv (runActs pre (initSt .poll hints legacy kinds lsel cfd)) :=
    runActs_pinv pre ⟨rfl, by simp [initSt], by simp [initSt], by simp [initSt, NoLost]⟩
  have i0 : Inv none (runActs pre (initSt .poll hints legacy kinds lsel cfd)) :=
    runActs_inv pre (initSt_inv _ _ _ _ _ _)
  have hi := loopEnd_inv .poll hints legacy kinds pre sc fuel lsel cfd
  have hloop : loopEnd .poll hints legacy kinds pre sc fuel lsel cfd =
      pollLoop sc fuel (runActs pre (initSt .poll hints legacy kinds lsel cfd)) := by
    unfold loopEnd backendRun; rw [v0.backend]
  obtain ⟨p1, hend⟩ := pollLoop_pc hp fuel p0 v0 i0
  rw [← hloop] at p1 hend
  have hexit : (loopEnd .poll hints legacy kinds pre sc fuel lsel cfd).toExit = 1 := by
    rcases hend with h' | h'
    · exact h'
    · exact absurd (by simp [St.events, h']) hfuel
  exact outcome_of_pc p1 hi hexit (fun c hh => hrej c (by simp [St.events, hh])) c

/-- **Agreement, epoll (class P).** -/
theorem epoll_outcome_is_spec {kinds : List Kind} {pre : List Act} {sc : Script} (hp : ClassP pre sc)
    (hints : Nat) (legacy lsel cfd : Bool) (fuel : Nat)
    (hfuel : Ev.fuel ∉ (scenario .epoll hints legacy kinds pre sc fuel lsel cfd).events)
    (hrej : ∀ c, Ev.addRej c ∉ (scenario .epoll hints legacy kinds pre sc fuel lsel cfd).events) (c : Nat) :
    outcome (scenario .epoll hints legacy kinds pre sc fuel lsel cfd) c = specOutcome kinds pre sc c := by
  rw [outcome_run]
  rw [run_events] at hfuel hrej
  have p0 := pre_pc (kinds := kinds) hp .epoll hints legacy lsel cfd
  have e00 : EInv none [] (initSt .epoll hints legacy kinds lsel cfd) :=
    ⟨rfl, by simp [initSt], by simp [initSt], by intro c; simp [initSt, HupEof], by simp [initSt, NoLost]⟩
  have e0 : EInv none [] (runActs pre (initSt .epoll hints legacy kinds lsel cfd)) := runActs_einv pre e00
  have i0 : Inv none (runActs pre (initSt .epoll hints legacy kinds lsel cfd)) :=
    runActs_inv pre (initSt_inv _ _ _ _ _ _)
  have hi := loopEnd_inv .epoll hints legacy kinds pre sc fuel lsel cfd
  have hloop : loopEnd .epoll hints legacy kinds pre sc fuel lsel cfd =
      epLoop sc fuel (epStart (runActs pre (initSt .epoll hints legacy kinds lsel cfd))) := by
    unfold loopEnd backendRun; rw [e0.backend]
  have ps : PC none kinds pre sc (epStart (runActs pre (initSt .epoll hints legacy kinds lsel cfd))) := by
    unfold epStart
    simp only []
    split
    · obtain ⟨a1, a2, a3, a4, a5, a6, a7, a8⟩ := armSig_same
        { runActs pre (initSt .epoll hints legacy kinds lsel cfd) with epSig := true }
      exact p0.congr a1 a2 a3 a4 a5 a6 a7 a8
    · exact p0.congr rfl rfl rfl rfl rfl rfl rfl rfl
  obtain ⟨p1, hend⟩ := epLoop_pc hp fuel ps (epStart_einv e0) (epStart_inv i0)
  rw [← hloop] at p1 hend
  have hexit : (loopEnd .epoll hints legacy kinds pre sc fuel lsel cfd).toExit = 1 := by
    rcases hend with h' | h'
    · exact h'
    · exact absurd (by simp [St.events, h']) hfuel
  exact outcome_of_pc p1 hi hexit (fun c hh => hrej c (by simp [St.events, hh])) c

/-- **Agreement (clause 3 of the property), class P.** For every externally driven draining
script — read callbacks drain and perform no actions, peers act before the run or while the loop
sleeps, every `hints_max_fd`, pool on or off, close callback closing the descriptor or not — on
which no add was rejected for capacity and every run finished, select, poll and epoll give every
context the same outcome: the same number of bytes offered to its read callback (hence, the
stream being fixed, the same bytes) and the same fate (closed / cleared / never registered).
`_partial`: scripts whose callbacks act (add, shut down, wake, exit from inside callbacks) are
outside class P; for them agreement is checked on the three real back-ends by the differential
run of checks/C13 (classes Q and R there), not proved. -/
theorem backends_agree_partial {kinds : List Kind} {pre : List Act} {sc : Script} (hp : ClassP pre sc)
    (hints : Nat) (legacy cfd : Bool) (fuel : Nat) (b1 b2 : Backend)
    (hfuel : ∀ b, Ev.fuel ∉ (scenario b hints legacy kinds pre sc fuel false cfd).events)
    (hrej : ∀ b c, Ev.addRej c ∉ (scenario b hints legacy kinds pre sc fuel false cfd).events) (c : Nat) :
    outcome (scenario b1 hints legacy kinds pre sc fuel false cfd) c =
    outcome (scenario b2 hints legacy kinds pre sc fuel false cfd) c := by
  have key : ∀ b, outcome (scenario b hints legacy kinds pre sc fuel false cfd) c = specOutcome kinds pre sc c := by
    intro b
    cases b with
    | select => exact select_outcome_is_spec hp hints legacy cfd fuel (hfuel _) (hrej _) c
    | poll => exact poll_outcome_is_spec hp hints legacy false cfd fuel (hfuel _) (hrej _) c
    | epoll => exact epoll_outcome_is_spec hp hints legacy false cfd fuel (hfuel _) (hrej _) c
  rw [key b1, key b2]

/-- non-vacuity of class P: a script with three scripted sleeps on which all three back-ends
finish, accept every add and deliver bytes / close / clear -/
def classPScript : Script :=
  { onRead := fun _ _ _ => [], onClose := fun _ => [], onWake := fun _ => [],
    onIdle := fun k => if k = 0 then [.write 0 5, .write 1 2] else if k = 1 then [.pclose 0, .write 2 7]
      else [.hclose 2],
    nIdle := 3, rmode := fun _ => .all }

example : ClassP [.add 0, .add 1, .write 1 4, .add 2] classPScript :=
  ⟨fun _ => rfl, fun _ _ _ => rfl, fun _ => rfl, fun _ => rfl,
   by intro k a ha; simp only [classPScript] at ha; split at ha
      · simp at ha; rcases ha with rfl | rfl <;> rfl
      · split at ha
        · simp at ha; rcases ha with rfl | rfl <;> rfl
        · simp at ha; subst ha; rfl,
   by intro a ha; simp at ha; rcases ha with rfl | rfl | rfl | rfl <;> rfl⟩

example : ∀ b : Backend,
    outcomes (scenario b 4 false [.pipe, .sock, .tcp] [.add 0, .add 1, .write 1 4, .add 2] classPScript 100) =
      [(5, .closed), (6, .cleared), (7, .closed)] ∧
    Ev.fuel ∉ (scenario b 4 false [.pipe, .sock, .tcp] [.add 0, .add 1, .write 1 4, .add 2] classPScript 100).events := by
  intro b; cases b <;> decide

/-! ### clause 4: adding, rejecting and removing a context never disturbs the others -/

/-- **Isolation, rejected add** (poll, `nfd == capacity`): nothing but the answer is changed —
the linked-list append is rolled back, no table, no descriptor, no flag is touched. -/
theorem add_rejected_changes_nothing {s : St} {c : Nat} (hb : s.backend = .poll)
    (hfull : s.ptab.length = s.hints) (ht : s.tried c = false) (hc : c < s.nds) :
    addCtx c s = emit (.addRej c) { s with tried := upd s.tried c true } := by
  unfold addCtx
  simp [ht, hc, hb, hfull]

/-- **Isolation, accepted add**: for every other context `c'` membership in `ctx_list`, in the
poll table, in `allset`, in the epoll registration and in the epoll ready list is unchanged, and
no descriptor state, closed flag or delivered-byte count changes at all. -/
theorem add_isolation (s : St) (c : Nat) :
    (addCtx c s).ds = s.ds ∧ (addCtx c s).flag = s.flag ∧ (addCtx c s).delivered = s.delivered ∧
    (addCtx c s).evc = s.evc ∧ (addCtx c s).toExit = s.toExit ∧
    ∀ c', c' ≠ c →
      (c' ∈ (addCtx c s).ctxList ↔ c' ∈ s.ctxList) ∧
      (∀ e : PEnt, e.node = c' → (e ∈ (addCtx c s).ptab ↔ e ∈ s.ptab)) ∧
      (c' ∈ (addCtx c s).allset ↔ c' ∈ s.allset) ∧
      (c' ∈ (addCtx c s).epReg ↔ c' ∈ s.epReg) ∧
      (Src.ctx c' ∈ (addCtx c s).armed ↔ Src.ctx c' ∈ s.armed) := by
  unfold addCtx
  split
  · simp
  · have hptab : ∀ (c' : Nat) (e : PEnt), c' ≠ c → e.node = c' →
        (e ∈ s.ptab ++ [{ node := c, fd := c }] ↔ e ∈ s.ptab) := by
      intro c' e hne he
      simp only [List.mem_append, List.mem_singleton]
      constructor
      · rintro (h | h)
        · exact h
        · subst h; exact absurd he.symm hne
      · exact Or.inl
    cases hb : s.backend with
    | select =>
      refine ⟨rfl, rfl, rfl, rfl, rfl, ?_⟩
      intro c' hne
      refine ⟨?_, ?_, ?_, ?_, ?_⟩
      · simp [emit, selSetFd, hne]
      · intro e _; simp [emit, selSetFd]
      · simp only [emit, selSetFd]; split <;> simp [hne]
      · simp [emit, selSetFd]
      · simp [emit, selSetFd]
    | poll =>
      simp only []
      split
      · refine ⟨rfl, rfl, rfl, rfl, rfl, ?_⟩
        intro c' hne
        refine ⟨?_, ?_, ?_, ?_, ?_⟩ <;> simp [emit]
      · refine ⟨rfl, rfl, rfl, rfl, rfl, ?_⟩
        intro c' hne
        refine ⟨?_, ?_, ?_, ?_, ?_⟩
        · simp [emit, hne]
        · intro e he; exact hptab c' e hne he
        · simp [emit]
        · simp [emit]
        · simp [emit]
    | epoll =>
      simp only []
      split
      · simp only [emit, arm]
        split
        · refine ⟨rfl, rfl, rfl, rfl, rfl, ?_⟩
          intro c' hne
          refine ⟨?_, ?_, ?_, ?_, ?_⟩
          · simp [hne]
          · intro e _; simp
          · simp
          · simp [hne]
          · simp [hne]
        · refine ⟨rfl, rfl, rfl, rfl, rfl, ?_⟩
          intro c' hne
          refine ⟨?_, ?_, ?_, ?_, ?_⟩
          · simp [hne]
          · intro e _; simp
          · simp
          · simp [hne]
          · simp
      · refine ⟨rfl, rfl, rfl, rfl, rfl, ?_⟩
        intro c' hne
        refine ⟨?_, ?_, ?_, ?_, ?_⟩
        · simp [emit, hne]
        · intro e _; simp [emit]
        · simp [emit]
        · simp [emit, hne]
        · simp [emit]

/-- **Isolation, poll removal (swap-with-last lemma)**: unregistering slot `i` keeps every
other table entry (with its fd and its revents), removes every entry of the closed context,
and keeps every other context in `ctx_list`. -/
theorem poll_remove_isolation {pend : Option Nat} {s : St} (h : Inv pend s) {i : Nat} {e : PEnt}
    (hi : s.ptab[i]? = some e) :
    (∀ x : PEnt, x.node ≠ e.node → (x ∈ (pollRemove i e s).ptab ↔ x ∈ s.ptab)) ∧
    (∀ x ∈ (pollRemove i e s).ptab, x.node ≠ e.node) ∧
    (∀ c, c ≠ e.node → (c ∈ (pollRemove i e s).ctxList ↔ c ∈ s.ctxList)) ∧
    e.node ∉ (pollRemove i e s).ctxList ∧
    (pollRemove i e s).ds = s.ds ∧ (pollRemove i e s).flag = s.flag ∧
    (pollRemove i e s).delivered = s.delivered := by
  obtain ⟨_, f2, f3⟩ := swapRemove_facts (·.node) s.ptab i e hi h.pNodup
  refine ⟨fun x hx => ⟨fun hm => (f2 x hm).1, fun hm => f3 x hm hx⟩, fun x hm => (f2 x hm).2, ?_, ?_,
    rfl, rfl, rfl⟩
  · intro c hne
    exact List.mem_erase_of_ne hne
  · exact h.nodupL.not_mem_erase

/-- **Isolation, epoll removal** (`EPOLL_CTL_DEL`): every other registration and every other
pending event stays. -/
theorem epoll_remove_isolation (s : St) (c : Nat) :
    (∀ c', c' ≠ c → (c' ∈ (epDel c s).epReg ↔ c' ∈ s.epReg)) ∧
    (∀ x : Src, x ≠ .ctx c → (x ∈ (epDel c s).armed ↔ x ∈ s.armed)) ∧
    (epDel c s).ds = s.ds ∧ (epDel c s).ctxList = s.ctxList := by
  refine ⟨fun c' hne => List.mem_erase_of_ne hne, fun x hne => List.mem_erase_of_ne hne, rfl, rfl⟩

/-- **Isolation, select (rebuild lemma)**: after a complete dispatch — whatever the callbacks
removed or added — `allset` contains every context of `ctx_list`, `nfds` is at least its fd,
and the eventfd is in the set. -/
theorem select_rebuild (sc : Script) {s : St} (h : SelC s) (hi : Inv none s) :
    (selDispatch sc s).allsig = true ∧
    ∀ c ∈ (selDispatch sc s).ctxList, c ∈ (selDispatch sc s).allset ∧ fdOf c ≤ (selDispatch sc s).nfds :=
  ⟨(selDispatch_c sc h hi).allsig, (selDispatch_c sc h hi).cover⟩

/-! ### the defect repaired by fixes/C13-poll-ready-count.patch, as a negation witness -/

/-- two pipes; while the loop sleeps: peer 0 closes, peer 1 writes 11 bytes and closes;
the read callback of context 1 asks the loop to exit -/
def countScript : Script :=
  { onRead := fun c b a => if c = 1 ∧ b < 2 ∧ 2 ≤ a then [.exit] else [],
    onClose := fun _ => [], onWake := fun _ => [],
    onIdle := fun _ => [.pclose 0, .write 1 1, .write 1 10, .pclose 1],
    nIdle := 1, rmode := fun _ => .all }

/-- with the original `--n` accounting (`legacy = true`) the poll back-end leaves context 0 —
whose stream has ended — unvisited and clears it, while select closes it: the back-ends
disagree on its outcome. This is the input replayed on the implementation
(corpus/C13/poll-double-decrement.ops). -/
theorem legacy_poll_disagrees_with_select :
    outcome (scenario .poll 16 true [.pipe, .pipe] [.add 0, .add 1] countScript 100) 0 = (0, .cleared) ∧
    outcome (scenario .select 16 true [.pipe, .pipe] [.add 0, .add 1] countScript 100) 0 = (0, .closed) := by
  decide

/-- with the repaired accounting they agree on this script -/
theorem fixed_poll_agrees_with_select_on_witness :
    outcomes (scenario .poll 16 false [.pipe, .pipe] [.add 0, .add 1] countScript 100) =
    outcomes (scenario .select 16 false [.pipe, .pipe] [.add 0, .add 1] countScript 100) := by
  decide

/-! ### non-vacuity: a concrete script on which all the events above occur -/

/-- two pipes and a socket pair; context 2 is added from the close callback of context 0;
the read callback of context 1 shuts its own socket down after 3 bytes -/
def demoScript : Script :=
  { onRead := fun c b a => if c = 1 ∧ b < 3 ∧ 3 ≤ a then [.shut 1] else [],
    onClose := fun c => if c = 0 then [.add 2] else [],
    onWake := fun _ => [],
    onIdle := fun k => if k = 0 then [.write 0 5, .pclose 0, .write 1 4] else [.write 2 2],
    nIdle := 2,
    rmode := fun _ => .all }

def demoRun (b : Backend) : List Ev :=
  (scenario b 4 false [.pipe, .sock, .pipe] [.add 0, .add 1] demoScript 100).events

example : demoRun .poll =
    [.addOk 0, .addOk 1, .sleep false, .disp, .read 1 4 false, .close 1, .read 0 5 true, .close 0,
     .addOk 2, .sleep false, .disp, .read 2 2 false, .sleep false, .disp, .wake, .clear 2, .exit] := by
  decide

example : demoRun .select =
    [.addOk 0, .addOk 1, .sleep false, .disp, .read 0 5 true, .close 0, .addOk 2, .read 1 4 false,
     .close 1, .sleep false, .disp, .read 2 2 false, .sleep false, .disp, .wake, .clear 2, .exit] := by
  decide

example : demoRun .epoll =
    [.addOk 0, .addOk 1, .sleep false, .disp, .read 0 5 true, .close 0, .addOk 2, .read 1 4 false,
     .close 1, .sleep false, .disp, .read 2 2 false, .sleep false, .disp, .wake, .clear 2, .exit] := by
  decide

end MgProof.C13
