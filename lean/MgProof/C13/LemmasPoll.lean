import MgProof.C13.Lemmas
/-!
# C13 — poll back-end: swap-with-last lemma and the life-cycle invariant through the scan
-/
namespace MgProof.C13
open MgModel.C13

/-! ### swap-with-last on plain lists -/

theorem swap_decomp {α : Type} (l : List α) (i : Nat) (hi : i < l.length) (hne : i ≠ l.length - 1) :
    ∃ a x b y, l = a ++ x :: (b ++ [y]) ∧ a.length = i := by
  have h1 : l = l.take i ++ l[i] :: l.drop (i + 1) := by
    rw [← List.drop_eq_getElem_cons hi, List.take_append_drop]
  have h2 : l.drop (i + 1) ≠ [] := by
    intro h
    have := congrArg List.length h
    simp at this
    omega
  refine ⟨l.take i, l[i], (l.drop (i + 1)).dropLast, (l.drop (i + 1)).getLast h2, ?_, ?_⟩
  · rw [List.dropLast_concat_getLast h2]; exact h1
  · simp; try omega

theorem swapRemove_last {α : Type} (l : List α) (i : Nat) (hi : i = l.length - 1) :
    swapRemove l i = l.dropLast := by
  simp [swapRemove, hi]

theorem swapRemove_mid {α : Type} (a b : List α) (x y : α) :
    swapRemove (a ++ x :: (b ++ [y])) a.length = a ++ y :: b := by
  have hlen : (a ++ x :: (b ++ [y])).length - 1 = a.length + (b.length + 1) := by
    simp
  have hne : a.length ≠ (a ++ x :: (b ++ [y])).length - 1 := by rw [hlen]; omega
  have hlast : (a ++ x :: (b ++ [y]))[(a ++ x :: (b ++ [y])).length - 1]? = some y := by
    rw [← List.getLast?_eq_getElem?]
    rw [show a ++ x :: (b ++ [y]) = (a ++ x :: b) ++ [y] by simp, List.getLast?_concat]
  unfold swapRemove
  rw [if_pos hne, hlast]
  simp only []
  have : (a ++ x :: (b ++ [y])).set a.length y = (a ++ y :: b) ++ [y] := by
    simp
  rw [this, List.dropLast_concat]

/-- **Swap-with-last lemma.** Removing slot `i` keeps every other entry (and nothing
else), and keeps the keys distinct. -/
theorem swapRemove_facts {α β : Type} (f : α → β) (l : List α) (i : Nat) (e : α)
    (hi : l[i]? = some e) (hnd : (l.map f).Nodup) :
    ((swapRemove l i).map f).Nodup ∧
    (∀ x ∈ swapRemove l i, x ∈ l ∧ f x ≠ f e) ∧
    (∀ x ∈ l, f x ≠ f e → x ∈ swapRemove l i) := by
  have hlt : i < l.length := by
    rcases Nat.lt_or_ge i l.length with h | h
    · exact h
    · rw [List.getElem?_eq_none h] at hi; cases hi
  have hie : l[i] = e := by
    rw [List.getElem?_eq_getElem hlt] at hi; exact Option.some.inj hi
  by_cases hlast : i = l.length - 1
  · rw [swapRemove_last l i hlast]
    have hne : l ≠ [] := by intro h; subst h; simp at hlt
    have hl : l = l.dropLast ++ [e] := by
      have := (List.dropLast_concat_getLast hne).symm
      rw [List.getLast_eq_getElem] at this
      rw [this]
      simp [← hie, hlast]
    rw [hl, List.map_append, List.nodup_append] at hnd
    refine ⟨hnd.1, ?_, ?_⟩
    · intro x hx
      refine ⟨(List.dropLast_sublist l).subset hx, ?_⟩
      intro hfe
      exact hnd.2.2 (f x) (List.mem_map_of_mem hx) (f e) (by simp) hfe
    · intro x hx hfe
      rw [hl] at hx
      simp at hx
      rcases hx with hx | hx
      · exact hx
      · subst hx; exact absurd rfl hfe
  · obtain ⟨a, x, b, y, hl, hal⟩ := swap_decomp l i hlt hlast
    subst hal
    have hxe : x = e := by
      rw [← hie]; simp [hl]
    subst hxe
    rw [hl, swapRemove_mid]
    rw [hl] at hnd
    simp only [List.map_append, List.map_cons, List.map_nil] at hnd ⊢
    refine ⟨?_, ?_, ?_⟩
    · simp only [List.nodup_append, List.nodup_cons, List.mem_append, List.mem_cons] at hnd ⊢
      grind
    · intro z hz
      simp only [List.nodup_append, List.nodup_cons, List.mem_append, List.mem_cons] at hnd hz ⊢
      grind
    · intro z hz hfe
      simp only [List.mem_append, List.mem_cons] at hz ⊢
      grind

/-! ### the scan -/

theorem getElem?_mem' {α : Type} {l : List α} {i : Nat} {a : α} (h : l[i]? = some a) : a ∈ l :=
  List.mem_of_getElem? h

theorem pollQuery_inv {pend} {s : St} (h : Inv pend s) : Inv pend (pollQuery s) := by
  unfold pollQuery
  constructor
  · exact h.nodupL
  · exact h.sound
  · exact h.complete
  · exact h.triedOk
  · exact h.wf
  · show ((s.ptab.map _).map _).Nodup
    rw [List.map_map]
    exact h.pNodup
  · intro e he
    have he' : e ∈ s.ptab.map (fun e => { e with rev := (s.ds e.fd).mask }) := he
    simp at he'
    obtain ⟨e0, he0, hee⟩ := he'
    subst hee
    exact h.pMem e0 he0
  · exact h.eNodup
  · exact h.eMem
  · exact h.aNodup
  · exact h.aMem
  · intro hb
    show s.ptab.map _ = []
    rw [h.pOnly hb]; rfl
  · exact h.eOnly

theorem pollRead_inv (sc : Script) {s : St} (h : Inv none s) {e : PEnt} (hc : e.node ∈ s.ctxList) :
    Inv none (pollRead sc e s) := by
  unfold pollRead; split
  · exact cbRead_inv sc h hc
  · exact h

theorem pollRead_ext (sc : Script) (e : PEnt) (s : St) : Ext s (pollRead sc e s) := by
  unfold pollRead; split
  · exact cbRead_ext sc _ s
  · exact Ext.refl s

theorem pollFlag_inv {pend} {s : St} (e : PEnt) (h : Inv pend s) : Inv pend (pollFlag e s) := by
  unfold pollFlag; split
  · exact h.congr rfl rfl rfl rfl rfl rfl rfl
  · exact h

theorem pollFlag_ext (e : PEnt) (s : St) : Ext s (pollFlag e s) := by
  unfold pollFlag; split
  · exact Ext.of_eq rfl rfl rfl rfl
  · exact Ext.refl s

theorem pollFinish_inv (sc : Script) {s : St} (h : Inv none s) {i : Nat} {e : PEnt}
    (hi : s.ptab[i]? = some e) : Inv none (pollFinish sc i e s) := by
  have hc : e.node ∈ s.ctxList := h.pMem e (getElem?_mem' hi)
  unfold pollFinish
  split
  · have h3 := cbClose_inv sc h hc
    have x3 := cbClose_ext sc e.node s
    have hi3 := x3.ptab_get hi
    have hcl := cbClose_closed sc e.node s
    generalize cbClose sc e.node s = s3 at h3 x3 hi3 hcl
    obtain ⟨f1, f2, f3⟩ := swapRemove_facts (·.node) s3.ptab i e hi3 h3.pNodup
    have hpoll : s3.backend = .poll := by
      apply Classical.byContradiction
      intro hb
      have := h3.pOnly hb
      rw [this] at hi3; simp at hi3
    refine inv_remove h3 hcl rfl rfl rfl rfl ?_ ?_ rfl ?_ rfl
    · refine ⟨f1, fun x hx => ?_⟩
      exact ⟨(f2 x hx).2, x, (f2 x hx).1, rfl⟩
    · intro hnil; rw [hnil] at hi3; simp at hi3
    · rw [h3.eOnly (by rw [hpoll]; decide)]; simp
  · exact h

theorem pollVisit_inv (sc : Script) {s : St} (h : Inv none s) {i : Nat} {e : PEnt}
    (hi : s.ptab[i]? = some e) : Inv none (pollVisit sc i e s) := by
  have hc : e.node ∈ s.ctxList := h.pMem e (getElem?_mem' hi)
  unfold pollVisit
  apply pollFinish_inv sc (pollFlag_inv e (pollRead_inv sc h hc))
  exact ((pollRead_ext sc e s).trans (pollFlag_ext e _)).ptab_get hi

theorem pollScan_inv (sc : Script) (i : Nat) : ∀ (n : Int) {s : St}, Inv none s →
    Inv none (pollScan sc i n s) := by
  induction i with
  | zero =>
    intro n s h
    unfold pollScan
    split
    · exact handleWake_inv sc h
    · exact h
  | succ i ih =>
    intro n s h
    unfold pollScan
    split
    · exact h.congr rfl rfl rfl rfl rfl rfl rfl
    · rename_i e he
      simp only []
      split
      · exact pollVisit_inv sc h he
      · exact ih _ (pollVisit_inv sc h he)

theorem pollLoop_inv (sc : Script) (f : Nat) : ∀ {s : St}, Inv none s → Inv none (pollLoop sc f s) := by
  induction f with
  | zero =>
    intro s h
    unfold pollLoop
    exact inv_emit_of h (by simp) (by simp) (by simp) trivial
  | succ f ih =>
    intro s h
    unfold pollLoop
    simp only []
    split
    · exact ih (idle_inv sc (pollQuery_inv h))
    · have h1 : Inv none (pollScan sc (pollQuery s).ptab.length (pollCount (pollQuery s))
          (emit .disp (pollQuery s))) :=
        pollScan_inv sc _ _ (inv_emit_of (pollQuery_inv h) (by simp) (by simp) (by simp) trivial)
      split
      · exact h1
      · exact ih h1

end MgProof.C13
