import MgProof.C13.LemmasReady
/-!
# C13 — select with fixes/C13-select-stale-fd.patch never watches a closed descriptor

`SelF x s`: no context whose `cb_close` has run is still in `allset` (except `x`, the context
whose close callback is running right now); `FdC s`: a descriptor is only ever closed by the
close callback of its context. Together: `select` never fails with `EBADF`.
-/
namespace MgProof.C13
open MgModel.C13

structure SelF (x : Option Nat) (s : St) : Prop where
  fixed : s.legacySel = false
  nodup : s.allset.Nodup
  clean : ∀ c ∈ s.allset, x ≠ some c → Ev.close c ∉ s.trace
  fdc : ∀ c, s.fdClosed c = true → Ev.close c ∈ s.trace
  noErr : Ev.waitErr ∉ s.trace

theorem SelF.congr {x} {s t : St} (h : SelF x s) (h1 : t.legacySel = s.legacySel) (h2 : t.allset = s.allset)
    (h3 : t.trace = s.trace) (h4 : t.fdClosed = s.fdClosed) : SelF x t :=
  ⟨by rw [h1]; exact h.fixed, by rw [h2]; exact h.nodup, by rw [h2, h3]; exact h.clean,
   by rw [h3, h4]; exact h.fdc, by rw [h3]; exact h.noErr⟩

theorem arm_self {x} {s : St} (c : Nat) (h : SelF x s) : SelF x (arm c s) := by
  unfold arm; split
  · exact h.congr rfl rfl rfl rfl
  · exact h

theorem armSig_self {x} {s : St} (h : SelF x s) : SelF x (armSig s) := by
  unfold armSig; split
  · exact h.congr rfl rfl rfl rfl
  · exact h

theorem setDesc_self {x} {s : St} (c : Nat) (r : Desc × Bool) (h : SelF x s) : SelF x (setDesc c r s) := by
  unfold setDesc
  simp only []
  split
  · exact arm_self c (h.congr rfl rfl rfl rfl)
  · exact h.congr rfl rfl rfl rfl

theorem emit_self {x} {s : St} {e : Ev} (he : ∀ c, e ≠ .close c) (he2 : e ≠ .waitErr) (h : SelF x s) :
    SelF x (emit e s) := by
  refine ⟨h.fixed, h.nodup, ?_, ?_, ?_⟩
  · intro c hc hx hcl
    exact h.clean c hc hx (mem_cons_ne hcl (he c).symm)
  · intro c hc
    exact List.mem_cons_of_mem _ (h.fdc c hc)
  · intro hh
    exact h.noErr (mem_cons_ne hh he2.symm)

theorem selSetFd_self {x} {s : St} (c : Nat) (h : SelF x s) (hc : Ev.close c ∉ s.trace) :
    SelF x (selSetFd c s) := by
  unfold selSetFd
  refine ⟨h.fixed, ?_, ?_, h.fdc, h.noErr⟩
  · show (if s.allset.contains c then s.allset else c :: s.allset).Nodup
    split
    · exact h.nodup
    · rename_i hn
      exact List.nodup_cons.mpr ⟨by simpa using hn, h.nodup⟩
  · intro c' hc' hx
    have hc'' : c' ∈ (if s.allset.contains c then s.allset else c :: s.allset) := hc'
    split at hc''
    · exact h.clean c' hc'' hx
    · simp at hc''
      rcases hc'' with hc'' | hc''
      · subst hc''; exact hc
      · exact h.clean c' hc'' hx

theorem addCtx_self {x pend} {s : St} (c : Nat) (h : SelF x s) (hi : Inv pend s) : SelF x (addCtx c s) := by
  unfold addCtx
  split
  · exact h
  · rename_i hc
    have htr : s.tried c = false := by cases ht : s.tried c <;> simp_all
    have hncl : Ev.close c ∉ s.trace := by
      intro hcl
      have := hi.triedOk c (Or.inl (close_mem_addOk hi.wf hcl))
      rw [htr] at this; cases this
    cases hb : s.backend with
    | select =>
      simp only []
      refine emit_self (by simp) (by simp) ?_
      exact selSetFd_self c (h.congr rfl rfl rfl rfl) hncl
    | poll =>
      simp only []
      split
      · exact emit_self (by simp) (by simp) (h.congr rfl rfl rfl rfl)
      · exact emit_self (by simp) (by simp) (h.congr rfl rfl rfl rfl)
    | epoll =>
      simp only []
      refine emit_self (by simp) (by simp) ?_
      split
      · exact arm_self c (h.congr rfl rfl rfl rfl)
      · exact h.congr rfl rfl rfl rfl

theorem act_self {x pend} {s : St} (a : Act) (h : SelF x s) (hi : Inv pend s) : SelF x (act a s) := by
  cases a with
  | write d n => simp only [act]; split; exact setDesc_self _ _ h; exact h
  | hclose d => simp only [act]; split; exact setDesc_self _ _ h; exact h
  | pclose d => simp only [act]; split; exact setDesc_self _ _ h; exact h
  | add d => exact addCtx_self d h hi
  | shut d =>
    simp only [act]; split
    · exact setDesc_self _ _ (h.congr rfl rfl rfl rfl)
    · exact h
  | wakeup => exact armSig_self (h.congr rfl rfl rfl rfl)
  | exit => exact armSig_self (h.congr rfl rfl rfl rfl)
  | xexit => exact armSig_self (h.congr rfl rfl rfl rfl)

theorem runActs_self {x pend} (as : List Act) {s : St} (h : SelF x s) (hi : Inv pend s) :
    SelF x (runActs as s) := by
  unfold runActs
  induction as generalizing s with
  | nil => exact h
  | cons a as ih => exact ih (act_self a h hi) (act_inv a hi)

theorem cbRead_self (sc : Script) {s : St} (h : SelF none s) (hi : Inv none s) {c : Nat}
    (hc : c ∈ s.ctxList) : SelF none (cbRead sc c s) := by
  unfold cbRead
  refine runActs_self _ (emit_self (by simp) (by simp) (h.congr rfl rfl rfl rfl)) (pend := none) ?_
  refine emit_read_inv ?_ ?_ _ _
  · exact hi.congr rfl rfl rfl rfl rfl rfl rfl
  · exact hc

theorem cbClose_self (sc : Script) {s : St} (h : SelF none s) (hi : Inv none s) {c : Nat}
    (hc : c ∈ s.ctxList) : SelF (some c) (cbClose sc c s) := by
  have h0 : SelF (some c) (emit (.close c) s) := by
    refine ⟨h.fixed, h.nodup, ?_, fun c' hc' => List.mem_cons_of_mem _ (h.fdc c' hc'),
      fun hh => h.noErr (mem_cons_ne hh (by simp))⟩
    intro c' hc' hx hcl
    have hne : c' ≠ c := fun hh => hx (by rw [hh])
    exact h.clean c' hc' (by simp) (mem_cons_ne hcl (by simp [hne]))
  have h1 : SelF (some c) (runActs (sc.onClose c) (emit (.close c) s)) :=
    runActs_self _ h0 (emit_close_inv hi hc)
  have hcl : Ev.close c ∈ (runActs (sc.onClose c) (emit (.close c) s)).trace :=
    (runActs_ext _ _).mem_tr (by simp [emit])
  rcases cbClose_eq sc c s with he | he <;> rw [he]
  · exact h1
  · refine ⟨h1.fixed, h1.nodup, h1.clean, ?_, h1.noErr⟩
    intro c' hc'
    have hc'' : upd (runActs (sc.onClose c) (emit (.close c) s)).fdClosed c true c' = true := hc'
    by_cases hcc : c' = c
    · subst hcc; exact hcl
    · simp [upd, hcc] at hc''; exact h1.fdc c' hc''

theorem handleWake_self (sc : Script) {s : St} (h : SelF none s) (hi : Inv none s) :
    SelF none (handleWake sc s) := by
  unfold handleWake
  simp only []
  have h1 : SelF none (runActs (sc.onWake s.nWake) (emit .wake { s with evc := 0, nWake := s.nWake + 1 })) :=
    runActs_self _ (emit_self (by simp) (by simp) (h.congr rfl rfl rfl rfl))
      (inv_emit_of (hi.congr rfl rfl rfl rfl rfl rfl rfl) (by simp) (by simp) (by simp) trivial)
  split
  · exact h1.congr rfl rfl rfl rfl
  · exact h1

theorem idle_self (sc : Script) {s : St} (h : SelF none s) (hi : Inv none s) : SelF none (idle sc s) := by
  unfold idle
  simp only []
  have h1 : SelF none (emit (.sleep (s.ctxList.any fun c => (s.ds c).readable)) { s with nIdle := s.nIdle + 1 }) :=
    emit_self (by simp) (by simp) (h.congr rfl rfl rfl rfl)
  have i1 : Inv none (emit (.sleep (s.ctxList.any fun c => (s.ds c).readable)) { s with nIdle := s.nIdle + 1 }) :=
    inv_emit_of (hi.congr rfl rfl rfl rfl rfl rfl rfl) (by simp) (by simp) (by simp) trivial
  split
  · exact runActs_self _ h1 i1
  · exact act_self _ h1 i1

theorem selClose_self (sc : Script) {s : St} (h : SelF none s) (hi : Inv none s) {i c : Nat}
    (hic : s.ctxList[i]? = some c) : SelF none (selClose sc i c s) := by
  have hc : c ∈ s.ctxList := List.mem_of_getElem? hic
  have h3 := cbClose_self sc h hi hc
  unfold selClose
  generalize cbClose sc c s = s3 at h3
  simp only []
  refine ⟨h3.fixed, ?_, ?_, h3.fdc, h3.noErr⟩
  · show (if s3.legacySel then s3.allset else s3.allset.erase c).Nodup
    rw [h3.fixed]; exact h3.nodup.erase c
  · intro c' hc' _
    have hc'' : c' ∈ (if s3.legacySel then s3.allset else s3.allset.erase c) := hc'
    rw [h3.fixed] at hc''
    simp only [Bool.false_eq_true, ↓reduceIte] at hc''
    have hne : c' ≠ c := fun hh => by subst hh; exact h3.nodup.not_mem_erase hc''
    exact h3.clean c' (List.mem_of_mem_erase hc'') (by simp [Ne.symm hne])

theorem selScan_self (sc : Script) (f : Nat) : ∀ (i : Nat) {s : St}, SelF none s → Inv none s →
    s.backend = .select → SelF none (selScan sc f i s) := by
  induction f with
  | zero => intro i s h _ _; unfold selScan; exact h.congr rfl rfl rfl rfl
  | succ f ih =>
    intro i s h hi hb
    unfold selScan
    split
    · exact h
    · rename_i c hic
      have hc : c ∈ s.ctxList := List.mem_of_getElem? hic
      have h1 : SelF none (selRead sc c s) := by
        unfold selRead; split
        · exact cbRead_self sc h hi hc
        · exact h
      have i1 := selRead_inv sc hi hc
      have x1 := selRead_ext sc c s
      have hic1 := x1.ctx_get hic
      have hb1 : (selRead sc c s).backend = .select := by rw [x1.backend, hb]
      generalize selRead sc c s = s1 at h1 i1 hic1 hb1
      simp only []
      split
      · exact ih i (selClose_self sc h1 i1 hic1) (selClose_inv sc i1 hb1 hic1) (by rw [selClose_backend, hb1])
      · have hreg := registered_of_mem i1 (List.mem_of_getElem? hic1)
        exact ih (i + 1) (selSetFd_self c h1 hreg.2) (selSetFd_inv c i1) hb1

theorem selDispatch_self (sc : Script) {s : St} (h : SelF none s) (hi : Inv none s) (hb : s.backend = .select) :
    SelF none (selDispatch sc s) := by
  unfold selDispatch
  simp only []
  have h0 : SelF none { s with nfds := 0, allset := [], allsig := false } :=
    ⟨h.fixed, by simp, by simp, h.fdc, h.noErr⟩
  have i0 : Inv none { s with nfds := 0, allset := [], allsig := false } :=
    hi.congr rfl rfl rfl rfl rfl rfl rfl
  have h1 : ∃ s1, s1 = (if s.rsig then handleWake sc { s with nfds := 0, allset := [], allsig := false }
      else { s with nfds := 0, allset := [], allsig := false }) ∧ SelF none s1 ∧ Inv none s1 ∧
      s1.backend = .select := by
    refine ⟨_, rfl, ?_⟩
    split
    · exact ⟨handleWake_self sc h0 i0, handleWake_inv sc i0, by rw [(handleWake_ext sc _).backend]; exact hb⟩
    · exact ⟨h0, i0, hb⟩
  obtain ⟨s1, hs1, p1, i1, b1⟩ := h1
  rw [← hs1]
  exact selScan_self sc _ 0 (p1.congr rfl rfl rfl rfl) (i1.congr rfl rfl rfl rfl rfl rfl rfl) b1

/-- with the repaired scan `select` never has to examine a closed descriptor -/
theorem selBad_false {s : St} (h : SelF none s) : selBad s = false := by
  unfold selBad
  rw [List.any_eq_false]
  intro c hc hbad
  simp only [Bool.and_eq_true] at hbad
  exact h.clean c hc (by simp) (h.fdc c hbad.2)

theorem selLoop_self (sc : Script) (f : Nat) : ∀ {s : St}, SelF none s → Inv none s → s.backend = .select →
    Ev.waitErr ∉ (selLoop sc f s).trace := by
  induction f with
  | zero =>
    intro s h _ _
    unfold selLoop
    exact (emit_self (e := .fuel) (by simp) (by simp) h).noErr
  | succ f ih =>
    intro s h hi hb
    unfold selLoop
    rw [selBad_false h]
    simp only [Bool.false_eq_true, ↓reduceIte]
    have hq : SelF none (selQuery s) := by unfold selQuery; exact h.congr rfl rfl rfl rfl
    have hiq : Inv none (selQuery s) := by unfold selQuery; exact hi.congr rfl rfl rfl rfl rfl rfl rfl
    split
    · exact ih (idle_self sc hq hiq) (idle_inv sc hiq) (by rw [idle_backend]; exact hb)
    · have hid : Inv none (emit .disp (selQuery s)) :=
        inv_emit_of hiq (by simp) (by simp) (by simp) trivial
      have h1 := selDispatch_self sc (emit_self (e := .disp) (by simp) (by simp) hq) hid hb
      split
      · exact h1.noErr
      · exact ih h1 (selDispatch_inv sc hid hb).1 (selDispatch_inv sc hid hb).2

end MgProof.C13
