import MgProof.C01.ABQInv
import MgProof.C01.DBufInv
/-!
# C01 — property theorems (array blocking queue, double buffer)

Monitor-granularity models (`MgModel/C01/ABQ.lean`, `DoubleBuffer.lean`): one step per pthread
call; justified on every run of the check by the lock-coverage oracle on the `fine` harness
variant (every access to the queue's fields lies between `mutex_lock` and `mutex_unlock`).
Quantified over every capacity ≥ 1, any number of producers (and consumers for the queue),
every workload and every schedule, including spurious condition-variable wake-ups.
-/
namespace MgProof.C01
open MgModel.Conc

namespace ABQ
open MgModel.C01.ABQ
variable {c : Cfg} {s : St}

/-- **FIFO, exactly the puts**: the results of the takes, in the order of the dequeues, are the
first `|taken|` puts in enqueue order — nothing else, nothing twice, nothing out of order. -/
theorem taken_is_prefix_of_puts (hc : 0 < c.cap) (hr : Reach step (mkInit c) s) :
    s.taken = (s.puts.take s.taken.length).map some :=
  (reach_inv c hc s hr).fifo

/-- **`cnt` is the number of untaken puts and never exceeds the capacity**; the ring indices
are the counts modulo the capacity and slot `j mod cap` holds `puts[j]` for every untaken `j`
(so an enqueue never lands on an untaken element) -/
theorem count_and_capacity (hc : 0 < c.cap) (hr : Reach step (mkInit c) s) :
    s.cnt + s.taken.length = s.puts.length ∧ s.cnt ≤ s.cfg.cap ∧
    s.putIdx = s.puts.length % s.cfg.cap ∧ s.takeIdx = s.taken.length % s.cfg.cap ∧
    ∀ j, s.taken.length ≤ j → j < s.puts.length → s.datas (j % s.cfg.cap) = s.puts[j]? :=
  let i := reach_inv c hc s hr
  ⟨i.count, i.bound, i.putI, i.takeI, i.slots⟩

/-- the mutex is owned exactly by the thread inside a critical section -/
theorem mutex_owner (hc : 0 < c.cap) (hr : Reach step (mkInit c) s) (t : Nat) :
    s.mtx = some t ↔ (t < s.cfg.P + s.cfg.C ∧ inM (s.pc t) = true) :=
  (reach_inv c hc s hr).own t

private def cfg0 : Cfg := { cap := 1, ns := [2], ks := [2] }
example : (runSched step (mkInit cfg0)
    ([0, 0, 0, 0, 1, 1, 1, 1, 0, 0, 0, 0, 1, 1, 1, 1].map fun t => { tid := t })).1.taken =
    [some ⟨0, 0⟩, some ⟨0, 1⟩] := by decide
end ABQ

namespace DBuf
open MgModel.C01.DBuf
variable {c : Cfg} {s : St}

/-- **the concatenation of the buffers returned by `read`, followed by the back buffer, is the
sequence of successful writes, in order, each once**; the back buffer never exceeds the
capacity -/
theorem handed_buffers_are_the_writes (hr : Reach step (mkInit c) s) :
    s.written = s.handed ++ s.back ∧ s.back.length ≤ s.cfg.cap :=
  let i := reach_inv c s hr
  ⟨i.wr, i.bound⟩

/-- what the consumer has looked at so far is a prefix of the writes: `written =
delivered ++ (rest of the front buffer) ++ back` -/
theorem delivered_is_prefix_of_written (hr : Reach step (mkInit c) s) :
    s.written = s.delivered ++ pending s.front (s.pc s.cfg.W) ++ s.back := by
  have i := reach_inv c s hr
  rw [i.wr, i.hd]

/-- **a non-blocking write is refused only when the back buffer holds `capacity` items** -/
theorem full_only_when_back_is_full (hr : Reach step (mkInit c) s) : ∀ u ∈ s.fulls, u = s.cfg.cap :=
  (reach_inv c s hr).fullsOk

private def cfg0 : Cfg := { cap := 1, nonblocking := false, tries := 0, reads := 1, ns := [1] }
example : (runSched step (mkInit cfg0)
    ([0, 0, 0, 0, 1, 1, 1, 1].map fun t => { tid := t })).1.delivered = [⟨0, 0⟩] := by decide
end DBuf

end MgProof.C01
