import MgProof.C01.InvW
/-!
# C01 — channel: every reader step preserves `Inv`; the invariant holds in every reachable state
-/
namespace MgProof.C01
open MgModel.Conc MgModel.C01
set_option linter.unusedSimpArgs false
set_option linter.unusedVariables false

set_option hygiene false in
macro "open_rstep" : tactic => `(tactic|
  (simp only [rstep, hpc, Option.some.injEq, Prod.mk.injEq] at h))

set_option hygiene false in
/-- `hl` = the reader's local facts at its pc -/
macro "reader_facts" : tactic => `(tactic|
  (have hl := hi.rloc
   rw [hpc] at hl
   simp only [RLoc] at hl))

theorem readReturned_upd (s : St) (t : Nat) (q : Pc) (d : Option Msg) :
    (readReturned { s with pc := upd s.pc t q } t d).1 = (readReturned s t d).1 := by
  unfold readReturned
  cases d <;> simp only [upd_upd]

theorem Inv_readReturned {s : St} (d : Option Msg) (hi : Inv s) (r0 : inRM (s.pc s.cfg.W) = false) :
    Inv (readReturned s s.cfg.W d).1 := by
  refine Inv_move_reader (p' := rrPc s s.cfg.W d) hi ⟨by simp, by simp, by simp, by simp, by simp, by simp,
    by simp, by simp, by simp, by simp, by simp, by simp, by simp⟩ (by simp) (readReturned_pc _ _ _) ?_ ?_ ?_
  · intro t ht; exact readReturned_k_other _ _ _ _ ht
  · rw [r0, rrPc_inRM]
  · exact rrPc_RLoc _ _ _ _ _ _ _

/-- the reader takes / releases `read_mutex` -/
theorem Inv_rm_reader {s s' : St} {p' : Pc} (hi : Inv s)
    (hr : SameRing { s with rmtx := s'.rmtx } s')
    (hobs : s'.obs = s.obs) (hpc' : s'.pc = upd s.pc s.cfg.W p') (hk : s'.k = s.k)
    (hrm : (s.rmtx = none ∧ s'.rmtx = some s.cfg.W ∧ inRM p' = true) ∨
           (s.rmtx = some s.cfg.W ∧ s'.rmtx = none ∧ inRM p' = false))
    (hnew : RLoc s.cfg.cap s.accepted.length s.delivered.length s.accepted[s.delivered.length]? p') :
    Inv s' := by
  obtain ⟨e1, e2, e3, e4, e5, e6, e7, e8, e10, e11, e12, e13, e14⟩ := hr
  obtain ⟨hv, h1, h2, h3, h4, h5, h6, h7, h8, h9, h10, h11, h12, h13, h14⟩ := hi
  simp only [] at e1 e2 e3 e4 e5 e6 e7 e8 e10 e11 e12 e13 e14
  refine Inv.mk ?valid ?hold ?lock0 ?rmo ?wc_eq ?rc_eq ?le1 ?le2 ?slots ?cachedOk ?wloc ?rloc ?fifo ?fullsOk ?ow
  all_goals simp only [e1, e2, e3, e4, e5, e6, e7, e10, e11, e12, e13, e14, hobs, hpc', hk, cur] at *
  case valid => exact hv
  case hold =>
    intro t
    by_cases ht : t = s.cfg.W
    · subst ht
      constructor
      · intro hh; exact absurd ((h1 _).1 hh).1 (by omega)
      · intro hh; exact absurd hh.1 (by omega)
    · rw [upd_other _ _ _ _ ht]; exact h1 t
  case lock0 => exact h2
  case rmo =>
    rcases hrm with ⟨a, b, c⟩ | ⟨a, b, c⟩
    · rw [b]; exact rmo_acquire h3 a (Nat.le_refl _) c
    · rw [b]; exact rmo_release h3 a c
  case wloc =>
    intro t hh
    have ht : t ≠ s.cfg.W := by
      intro e; subst e; exact absurd ((h1 _).1 hh).1 (by omega)
    rw [upd_other _ _ _ _ ht]; exact h10 t hh
  case rloc => rw [upd_same]; exact hnew
  all_goals assumption

/-- the reader consumes slot `D mod cap`: `read_cursor := D mod cap`, `delivered ++ [d]` -/
theorem Inv_consume {s s' : St} {p' : Pc} {d : Option Msg} (hi : Inv s)
    (hr : SameRing { s with rc := s'.rc, delivered := s'.delivered } s')
    (hrc : s'.rc = s.delivered.length % s.cfg.cap)
    (hdel : s'.delivered = s.delivered ++ [d])
    (hobs : s'.obs = s.obs) (hpc' : s'.pc = upd s.pc s.cfg.W p') (hk : s'.k = s.k)
    (r1 : inRM p' = inRM (s.pc s.cfg.W))
    (hlt : s.delivered.length < s.accepted.length) (hd : d = s.accepted[s.delivered.length]?)
    (hnew : ∀ n A D nxt, RLoc n A D nxt p') : Inv s' := by
  obtain ⟨e1, e2, e3, e4, e5, e6, e7, e8, e10, e11, e12, e13, e14⟩ := hr
  obtain ⟨hv, h1, h2, h3, h4, h5, h6, h7, h8, h9, h10, h11, h12, h13, h14⟩ := hi
  simp only [] at e1 e2 e3 e4 e5 e6 e7 e8 e10 e11 e12 e13 e14
  have hcap := cap_pos s.cfg
  refine Inv.mk ?valid ?hold ?lock0 ?rmo ?wc_eq ?rc_eq ?le1 ?le2 ?slots ?cachedOk ?wloc ?rloc ?fifo ?fullsOk ?ow
  all_goals simp only [e1, e2, e4, e5, e6, e7, e8, e10, e12, e13, e14, hrc, hdel, hobs, hpc', hk, cur,
    List.length_append, List.length_cons, List.length_nil] at *
  case valid => exact hv
  case hold =>
    intro t
    by_cases ht : t = s.cfg.W
    · subst ht
      constructor
      · intro hh; exact absurd ((h1 _).1 hh).1 (by omega)
      · intro hh; exact absurd hh.1 (by omega)
    · rw [upd_other _ _ _ _ ht]; exact h1 t
  case lock0 => exact h2
  case rmo => exact rmo_same h3 r1
  case wc_eq => exact h4
  case rc_eq =>
    have : s.delivered.length + 1 + (s.cfg.cap - 1) = s.delivered.length + s.cfg.cap := by omega
    rw [this, Nat.add_mod_right]
  case le1 => omega
  case le2 => omega
  case slots => intro j hj1 hj2; exact h8 j (by omega) hj2
  case cachedOk => intro hb; have := h9 hb; omega
  case wloc =>
    intro t hh
    have ht : t ≠ s.cfg.W := by
      intro e; subst e; exact absurd ((h1 _).1 hh).1 (by omega)
    rw [upd_other _ _ _ _ ht]; exact WLoc_mono_D (Nat.le_succ _) (h10 t hh)
  case rloc => rw [upd_same]; exact hnew _ _ _ _
  case fifo => rw [hd]; exact fifo_consume hlt h12
  case fullsOk => exact h13
  case ow => exact h14

variable {s s' : St} {tok : Tok} {ev : List String}

theorem r_rRdR (hpc : s.pc s.cfg.W = .rRdR) (hi : Inv s) (h : rstep s s.cfg.W tok.flag = some (s', ev)) : Inv s' := by
  open_rstep; obtain ⟨rfl, -⟩ := h
  exact Inv_move_reader hi (by same_ring) rfl rfl (fun _ _ => rfl) (by simp [hpc, inRM])
    (by simp only [RLoc]; rw [ring_cap, hi.rc_eq, next_rc _ _ (cap_pos _)])

theorem r_rLdW (rpos : Nat) (hpc : s.pc s.cfg.W = .rLdW rpos) (hi : Inv s)
    (h : rstep s s.cfg.W tok.flag = some (s', ev)) : Inv s' := by
  reader_facts; open_rstep
  split at h
  next hne =>
    simp only [Option.some.injEq, Prod.mk.injEq] at h; obtain ⟨rfl, -⟩ := h
    have hlt : s.delivered.length < s.accepted.length := by
      rcases Nat.lt_or_ge s.delivered.length s.accepted.length with hx | hx
      · exact hx
      · have : s.delivered.length = s.accepted.length := Nat.le_antisymm hi.le1 hx
        exact absurd (by rw [hi.wc_eq, hl, this]) hne
    exact Inv_move_reader hi (by same_ring) rfl rfl (fun _ _ => rfl) (by simp [hpc, inRM])
      (by simp only [RLoc]; exact ⟨hl, hlt⟩)
  next =>
    cases hrm : s.cfg.rm <;> simp only [hrm, Option.some.injEq, Prod.mk.injEq] at h <;> obtain ⟨rfl, -⟩ := h
    · exact Inv_move_reader hi (by same_ring) rfl rfl (fun _ _ => rfl) (by simp [hpc, inRM])
        (by simp only [RLoc]; exact hl)
    · exact Inv_move_reader hi (by same_ring) rfl rfl (fun _ _ => rfl) (by simp [hpc, inRM])
        (by simp only [RLoc]; exact hl)
    · exact Inv_congr hi (by same_ring) rfl rfl rfl

theorem r_rFwait (rpos wpos : Nat) (hpc : s.pc s.cfg.W = .rFwait rpos wpos) (hi : Inv s)
    (h : rstep s s.cfg.W tok.flag = some (s', ev)) : Inv s' := by
  reader_facts; open_rstep
  split at h <;> (simp only [Option.some.injEq, Prod.mk.injEq] at h; obtain ⟨rfl, -⟩ := h)
  · exact Inv_move_reader hi (by same_ring) rfl rfl (fun _ _ => rfl) (by simp [hpc, inRM]) (by simp only [RLoc]; exact hl)
  · exact Inv_move_reader hi (by same_ring) rfl rfl (fun _ _ => rfl) (by simp [hpc, inRM]) (by simp only [RLoc]; exact hl)

theorem r_rWoken (rpos : Nat) (hpc : s.pc s.cfg.W = .rWoken rpos) (hi : Inv s)
    (h : rstep s s.cfg.W tok.flag = some (s', ev)) : Inv s' := by
  reader_facts; open_rstep; obtain ⟨rfl, -⟩ := h
  exact Inv_move_reader hi (by same_ring) rfl rfl (fun _ _ => rfl) (by simp [hpc, inRM]) (by simp only [RLoc]; exact hl)

theorem r_rRdB (rpos : Nat) (hpc : s.pc s.cfg.W = .rRdB rpos) (hi : Inv s)
    (h : rstep s s.cfg.W tok.flag = some (s', ev)) : Inv s' := by
  reader_facts; open_rstep; obtain ⟨rfl, -⟩ := h
  exact Inv_move_reader hi (by same_ring) rfl rfl (fun _ _ => rfl) (by simp [hpc, inRM])
    (by simp only [RLoc]; exact ⟨hl.1, hl.2, by rw [hl.1]; exact hi.slots _ (Nat.le_refl _) hl.2⟩)

theorem r_rStR (rpos : Nat) (d : Option Msg) (hpc : s.pc s.cfg.W = .rStR rpos d) (hi : Inv s)
    (h : rstep s s.cfg.W tok.flag = some (s', ev)) : Inv s' := by
  reader_facts; open_rstep; obtain ⟨rfl, -⟩ := h
  obtain ⟨hl1, hl2, hl3⟩ := hl
  rw [← readReturned_upd _ s.cfg.W .rRdR d]
  refine Inv_readReturned d (s := { s with rc := rpos, delivered := s.delivered ++ [d], pc := upd s.pc s.cfg.W .rRdR }) ?_ (by simp [inRM])
  exact Inv_consume hi (by same_ring) hl1 rfl rfl rfl rfl (by simp [hpc, inRM]) hl2 hl3 (by intros; simp [RLoc])

theorem r_rPay (m : Msg) (hpc : s.pc s.cfg.W = .rPay m) (hi : Inv s)
    (h : rstep s s.cfg.W tok.flag = some (s', ev)) : Inv s' := by
  open_rstep; obtain ⟨rfl, -⟩ := h
  refine Inv_move_reader hi (by same_ring) rfl rfl (fun t ht => by simp [upd, ht]) ?_ ?_
  · split <;> (try split) <;> simp [hpc, inRM]
  · split <;> (try split) <;> simp [RLoc]


/-! ### `muggle_channel_read_mutex` -/

theorem r_rmLock (hpc : s.pc s.cfg.W = .rmLock) (hen : s.enabled tok = true) (hW : tok.tid = s.cfg.W) (hi : Inv s)
    (h : rstep s s.cfg.W tok.flag = some (s', ev)) : Inv s' := by
  open_rstep; obtain ⟨rfl, -⟩ := h
  have hn : s.rmtx = none := by
    simp only [St.enabled, hW, hpc, Bool.and_eq_true, Option.isNone_iff_eq_none] at hen
    exact hen.2.1
  exact Inv_rm_reader hi (by same_ring) rfl rfl rfl (Or.inl ⟨hn, rfl, rfl⟩) (by simp [RLoc])

theorem r_rmRdR (hpc : s.pc s.cfg.W = .rmRdR) (hi : Inv s) (h : rstep s s.cfg.W tok.flag = some (s', ev)) : Inv s' := by
  open_rstep; obtain ⟨rfl, -⟩ := h
  exact Inv_move_reader hi (by same_ring) rfl rfl (fun _ _ => rfl) (by simp [hpc, inRM])
    (by simp only [RLoc]; rw [ring_cap, hi.rc_eq, next_rc _ _ (cap_pos _)])

theorem r_rmRdW (rpos : Nat) (hpc : s.pc s.cfg.W = .rmRdW rpos) (hi : Inv s)
    (h : rstep s s.cfg.W tok.flag = some (s', ev)) : Inv s' := by
  reader_facts; open_rstep
  split at h <;> (simp only [Option.some.injEq, Prod.mk.injEq] at h; obtain ⟨rfl, -⟩ := h)
  next hne =>
    have hlt : s.delivered.length < s.accepted.length := by
      rcases Nat.lt_or_ge s.delivered.length s.accepted.length with hx | hx
      · exact hx
      · have : s.delivered.length = s.accepted.length := Nat.le_antisymm hi.le1 hx
        exact absurd (by rw [hi.wc_eq, hl, this]) hne
    exact Inv_move_reader hi (by same_ring) rfl rfl (fun _ _ => rfl) (by simp [hpc, inRM])
      (by simp only [RLoc]; exact ⟨hl, hlt⟩)
  next =>
    exact Inv_move_reader hi (by same_ring) rfl rfl (fun _ _ => rfl) (by simp [hpc, inRM]) (by simp [RLoc])

theorem r_rmCvWait (hpc : s.pc s.cfg.W = .rmCvWait) (hi : Inv s)
    (h : rstep s s.cfg.W tok.flag = some (s', ev)) : Inv s' := by
  open_rstep; obtain ⟨rfl, -⟩ := h
  have hr : s.rmtx = some s.cfg.W := (hi.rmo _).2 ⟨Nat.le_refl _, by simp [hpc, inRM]⟩
  exact Inv_rm_reader hi (by same_ring) rfl rfl rfl (Or.inr ⟨hr, rfl, rfl⟩) (by simp [RLoc])

theorem r_rmCvBlocked (hpc : s.pc s.cfg.W = .rmCvBlocked) (hen : s.enabled tok = true) (hW : tok.tid = s.cfg.W)
    (hi : Inv s) (h : rstep s s.cfg.W tok.flag = some (s', ev)) : Inv s' := by
  open_rstep
  have hn : s.rmtx = none := by
    simp only [St.enabled, hW, hpc, Bool.and_eq_true, Option.isNone_iff_eq_none] at hen
    exact hen.2.1
  split at h
  · simp only [Option.some.injEq, Prod.mk.injEq] at h; obtain ⟨rfl, -⟩ := h
    exact Inv_rm_reader hi (by same_ring) rfl rfl rfl (Or.inl ⟨hn, rfl, rfl⟩) (by simp [RLoc])
  · cases h

theorem r_rmCvSignaled (hpc : s.pc s.cfg.W = .rmCvSignaled) (hen : s.enabled tok = true) (hW : tok.tid = s.cfg.W)
    (hi : Inv s) (h : rstep s s.cfg.W tok.flag = some (s', ev)) : Inv s' := by
  open_rstep; obtain ⟨rfl, -⟩ := h
  have hn : s.rmtx = none := by
    simp only [St.enabled, hW, hpc, Bool.and_eq_true, Option.isNone_iff_eq_none] at hen
    exact hen.2.1
  exact Inv_rm_reader hi (by same_ring) rfl rfl rfl (Or.inl ⟨hn, rfl, rfl⟩) (by simp [RLoc])

theorem r_rmRdB (rpos : Nat) (hpc : s.pc s.cfg.W = .rmRdB rpos) (hi : Inv s)
    (h : rstep s s.cfg.W tok.flag = some (s', ev)) : Inv s' := by
  reader_facts; open_rstep; obtain ⟨rfl, -⟩ := h
  exact Inv_move_reader hi (by same_ring) rfl rfl (fun _ _ => rfl) (by simp [hpc, inRM])
    (by simp only [RLoc]; exact ⟨hl.1, hl.2, by rw [hl.1]; exact hi.slots _ (Nat.le_refl _) hl.2⟩)

theorem r_rmWrR (rpos : Nat) (d : Option Msg) (hpc : s.pc s.cfg.W = .rmWrR rpos d) (hi : Inv s)
    (h : rstep s s.cfg.W tok.flag = some (s', ev)) : Inv s' := by
  reader_facts; open_rstep; obtain ⟨rfl, -⟩ := h
  obtain ⟨hl1, hl2, hl3⟩ := hl
  exact Inv_consume hi (by same_ring) hl1 rfl rfl rfl rfl (by simp [hpc, inRM]) hl2 hl3 (by intros; simp [RLoc])

theorem r_rmUnlock (d : Option Msg) (hpc : s.pc s.cfg.W = .rmUnlock d) (hi : Inv s)
    (h : rstep s s.cfg.W tok.flag = some (s', ev)) : Inv s' := by
  open_rstep; obtain ⟨rfl, -⟩ := h
  have hr : s.rmtx = some s.cfg.W := (hi.rmo _).2 ⟨Nat.le_refl _, by simp [hpc, inRM]⟩
  rw [← readReturned_upd _ s.cfg.W .rRdR d]
  refine Inv_readReturned d (s := { s with rmtx := none, relRM := s.know s.cfg.W, pc := upd s.pc s.cfg.W .rRdR }) ?_ (by simp [inRM])
  exact Inv_rm_reader hi (by same_ring) rfl rfl rfl (Or.inr ⟨hr, rfl, rfl⟩) (by simp [RLoc])

/-- every reader step preserves the invariant -/
theorem rstep_inv (hW : tok.tid = s.cfg.W) (hen : s.enabled tok = true)
    (hi : Inv s) (h : rstep s s.cfg.W tok.flag = some (s', ev)) : Inv s' := by
  cases hpc : s.pc s.cfg.W with
  | rRdR => exact r_rRdR hpc hi h
  | rLdW rpos => exact r_rLdW rpos hpc hi h
  | rFwait rpos wpos => exact r_rFwait rpos wpos hpc hi h
  | rWoken rpos => exact r_rWoken rpos hpc hi h
  | rRdB rpos => exact r_rRdB rpos hpc hi h
  | rStR rpos d => exact r_rStR rpos d hpc hi h
  | rPay m => exact r_rPay m hpc hi h
  | rmLock => exact r_rmLock hpc hen hW hi h
  | rmRdR => exact r_rmRdR hpc hi h
  | rmRdW rpos => exact r_rmRdW rpos hpc hi h
  | rmCvWait => exact r_rmCvWait hpc hi h
  | rmCvBlocked => exact r_rmCvBlocked hpc hen hW hi h
  | rmCvSignaled => exact r_rmCvSignaled hpc hen hW hi h
  | rmRdB rpos => exact r_rmRdB rpos hpc hi h
  | rmWrR rpos d => exact r_rmWrR rpos d hpc hi h
  | rmUnlock d => exact r_rmUnlock d hpc hi h
  | _ => simp [rstep, hpc] at h

/-! ### all steps, all reachable states -/

theorem wstep_cfg {s s' : St} {t : Nat} {ev : List String} (h : wstep s t = some (s', ev)) : s'.cfg = s.cfg := by
  cases hpc : s.pc t <;> simp only [wstep, hpc] at h <;> (try (cases h; done)) <;> (repeat' split at h)
  all_goals first
    | (cases h; done)
    | (simp only [Option.some.injEq, Prod.mk.injEq] at h; obtain ⟨rfl, -⟩ := h; simp [publish, acquired])

theorem rstep_cfg {s s' : St} {t : Nat} {f : Flag} {ev : List String} (h : rstep s t f = some (s', ev)) :
    s'.cfg = s.cfg := by
  cases hpc : s.pc t <;> simp only [rstep, hpc] at h <;> (try (cases h; done)) <;> (repeat' split at h)
  all_goals first
    | (cases h; done)
    | (simp only [Option.some.injEq, Prod.mk.injEq] at h; obtain ⟨rfl, -⟩ := h; simp)

theorem step_cfg {s s' : St} {tok : Tok} {ev : List String} (h : step s tok = some (s', ev)) : s'.cfg = s.cfg := by
  rcases step_cases h with ⟨-, q, rfl, -⟩ | h
  · rfl
  unfold stepMain at h
  split at h
  · cases h
  · split at h
    · exact wstep_cfg h
    · exact rstep_cfg h

theorem reach_cfg (c : Cfg) (s : St) (hr : Reach step (mkInit c) s) : s.cfg = c :=
  Reach.inv (fun s => s.cfg = c) rfl (fun _ _ _ _ hi h => by rw [step_cfg h]; exact hi) s hr


/-- the interrupted futex wait preserves the invariant: the parked thread holds neither lock, and
the reader's position is the one it went to sleep with -/
theorem spur_inv {s : St} {t : Nat} {q : Pc} (hi : Inv s)
    (hq : (∃ rpos, s.pc t = .rBlocked rpos ∧ q = .rLdW rpos) ∨ (s.pc t = .wBlocked ∧ q = .wLock)) :
    Inv { s with pc := upd s.pc t q } := by
  have hcs : inCS q = inCS (s.pc t) := by
    rcases hq with ⟨rpos, h1, rfl⟩ | ⟨h1, rfl⟩ <;> simp [h1, inCS]
  have hrm : inRM q = inRM (s.pc t) := by
    rcases hq with ⟨rpos, h1, rfl⟩ | ⟨h1, rfl⟩ <;> simp [h1, inRM]
  have hnc : inCS (s.pc t) = false := by
    rcases hq with ⟨rpos, h1, -⟩ | ⟨h1, -⟩ <;> simp [h1, inCS]
  obtain ⟨h1, h2, h3, h4, h5, h6, h7, h8, h9, h10, h11, h12, h13, h14, h15⟩ := hi
  refine ⟨h1, ?_, h3, ?_, h5, h6, h7, h8, h9, h10, ?_, ?_, h13, h14, h15⟩
  · intro u
    by_cases hu : u = t
    · subst hu; simp only [upd_same, hcs]; exact h2 u
    · simp only [upd_other _ _ _ _ hu]; exact h2 u
  · intro u
    by_cases hu : u = t
    · subst hu; simp only [upd_same, hrm]; exact h4 u
    · simp only [upd_other _ _ _ _ hu]; exact h4 u
  · intro u hh
    have hne : u ≠ t := by
      intro e; subst e
      have := ((h2 u).1 hh).2; rw [hnc] at this; cases this
    simp only [upd_other _ _ _ _ hne]; exact h11 u hh
  · by_cases hW : s.cfg.W = t
    · subst hW
      simp only [upd_same]
      rcases hq with ⟨rpos, hp, rfl⟩ | ⟨hp, rfl⟩
      · have := h12; rw [hp] at this; simpa [RLoc] using this
      · simp [RLoc]
    · simp only [upd_other _ _ _ _ hW]; exact h12

theorem step_inv {s s' : St} {tok : Tok} {ev : List String} (hi : Inv s)
    (h : step s tok = some (s', ev)) : Inv s' := by
  rcases step_cases h with ⟨-, q, rfl, hq⟩ | h
  · exact spur_inv hi hq
  unfold stepMain at h
  split at h
  · cases h
  next hen =>
    have hen' : s.enabled tok = true := by simpa using hen
    split at h
    next hlt => exact wstep_inv hlt hen' hi h
    next hge =>
      have hle : tok.tid ≤ s.cfg.W := by
        simp only [St.enabled, Bool.and_eq_true, decide_eq_true_eq] at hen'
        exact hen'.1
      have hW : tok.tid = s.cfg.W := Nat.le_antisymm hle (Nat.le_of_not_lt hge)
      rw [hW] at h
      exact rstep_inv hW hen' hi h

theorem init_inv (c : Cfg) (hv : Valid c) : Inv (mkInit c) := by
  have hcap := cap_pos c
  refine Inv.mk ?valid ?hold ?lock0 ?rmo ?wc_eq ?rc_eq ?le1 ?le2 ?slots ?cachedOk ?wloc ?rloc ?fifo ?fullsOk ?ow
  all_goals simp only [mkInit, List.length_nil]
  case valid => exact hv
  case hold =>
    intro t
    constructor
    · intro h; cases h
    · intro ⟨h1, h2⟩
      simp only [h1, if_true] at h2
      split at h2 <;> simp [inCS] at h2
  case lock0 => intro _ _; trivial
  case rmo =>
    intro t
    constructor
    · intro h; cases h
    · intro ⟨h1, h2⟩
      exfalso
      split at h2
      · split at h2 <;> simp [inRM] at h2
      · split at h2
        · split at h2
          · simp [inRM] at h2
          · split at h2 <;> simp [inRM] at h2
        · simp [inRM] at h2
  case wc_eq => simp [Nat.zero_mod]
  case rc_eq => simp only [Nat.zero_add]; exact (Nat.mod_eq_of_lt (by omega)).symm
  case le1 => exact Nat.le_refl _
  case le2 => omega
  case slots => intro j _ h; omega
  case cachedOk => intro _; simp only [Nat.zero_add]; exact ⟨(Nat.mod_eq_of_lt (by omega)).symm, Nat.le_refl _, by omega⟩
  case wloc => intro t h; cases h
  case rloc =>
    simp only [Nat.lt_irrefl, if_false, if_true]
    split
    · simp [RLoc]
    · split <;> simp [RLoc]
  case fifo => simp
  case fullsOk => intro u h; cases h

/-- **the invariant holds after every schedule** -/
theorem reach_inv (c : Cfg) (hv : Valid c) (s : St) (hr : Reach step (mkInit c) s) : Inv s :=
  Reach.inv Inv (init_inv c hv) (fun _ _ _ _ hi h => step_inv hi h) s hr

end MgProof.C01
