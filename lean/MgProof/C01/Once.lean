import MgProof.C01.InvR
/-!
# C01 — channel: exactly-once acceptance, per-writer order, success ⇔ accepted

`InvE`: every accepted message belongs to a real writer and is either one of its earlier
messages or its current one whose call has passed the publication; `accepted` is strictly
increasing per writer (hence duplicate free); `write=ok` was only ever reported for accepted
messages; a call that has published will find its message in `accepted`.
-/
namespace MgProof.C01
open MgModel.Conc MgModel.C01
set_option linter.unusedSimpArgs false
set_option linter.unusedVariables false

structure InvE (s : St) : Prop where
  e1 : ∀ m ∈ s.accepted, m.w < s.cfg.W ∧
    (m.k < s.k m.w ∨ (m.k = s.k m.w ∧ published (s.pc m.w) = true))
  e2 : s.accepted.Pairwise (fun a b => a.w = b.w → a.k < b.k)
  e3 : ∀ m ∈ s.okNotes, m ∈ s.accepted
  e4 : ∀ t, t < s.cfg.W → published (s.pc t) = true → (⟨t, s.k t⟩ : Msg) ∈ s.accepted
  e5 : ∀ m ∈ s.accepted, m ∈ s.okNotes ∨ (m.k = s.k m.w ∧ published (s.pc m.w) = true)

/-- what one step of writer `t0` may do to the data `InvE` talks about -/
def ECase (s s' : St) (t0 : Nat) : Prop :=
  (s'.accepted = s.accepted ∧ s'.k t0 = s.k t0 ∧ s'.okNotes = s.okNotes ∧
      published (s'.pc t0) = published (s.pc t0)) ∨
  (s'.accepted = s.accepted ∧ s'.k t0 = s.k t0 + 1 ∧ published (s'.pc t0) = false ∧
      ((s'.okNotes = s.okNotes ∧ published (s.pc t0) = false) ∨
       (s'.okNotes = s.okNotes ++ [⟨t0, s.k t0⟩] ∧ published (s.pc t0) = true))) ∨
  (s'.accepted = s.accepted ++ [⟨t0, s.k t0⟩] ∧ published (s.pc t0) = false ∧ s'.k t0 = s.k t0 ∧
      s'.okNotes = s.okNotes ∧ published (s'.pc t0) = true) ∨
  (s'.accepted = s.accepted ++ [⟨t0, s.k t0⟩] ∧ published (s.pc t0) = false ∧ s'.k t0 = s.k t0 + 1 ∧
      published (s'.pc t0) = false ∧ s'.okNotes = s.okNotes ++ [⟨t0, s.k t0⟩])

theorem InvE_step {s s' : St} {t0 : Nat} (hi : InvE s) (ht0 : t0 < s.cfg.W) (hcfg : s'.cfg = s.cfg)
    (hpcO : ∀ t, t ≠ t0 → t < s.cfg.W → published (s'.pc t) = published (s.pc t))
    (hkO : ∀ t, t ≠ t0 → s'.k t = s.k t) (hcase : ECase s s' t0) : InvE s' := by
  obtain ⟨e1, e2, e3, e4, e5⟩ := hi
  have fresh : ∀ a ∈ s.accepted, published (s.pc t0) = false → a.w = t0 → a.k < s.k t0 := by
    intro a ha hp hw
    have := (e1 a ha).2
    rw [hw] at this
    rcases this with h | ⟨_, h⟩
    · exact h
    · rw [hp] at h; cases h
  rcases hcase with ⟨ha, hk, ho, hp⟩ | ⟨ha, hk, hp, ho⟩ | ⟨ha, hp0, hk, ho, hp⟩ | ⟨ha, hp0, hk, hp, ho⟩
  · refine ⟨?_, by rw [ha]; exact e2, by rw [ha, ho]; exact e3, ?_, ?_⟩
    · intro m hm; rw [ha] at hm
      have := e1 m hm
      rw [hcfg]
      refine ⟨this.1, ?_⟩
      by_cases hw : m.w = t0
      · rw [hw, hk, hp]; rw [hw] at this; exact this.2
      · rw [hkO _ hw, hpcO _ hw this.1]; exact this.2
    · intro t ht hpt; rw [hcfg] at ht; rw [ha]
      by_cases hw : t = t0
      · subst hw; rw [hk]; rw [hp] at hpt; exact e4 t ht hpt
      · rw [hkO _ hw]; rw [hpcO _ hw ht] at hpt; exact e4 t ht hpt
    · intro m hm; rw [ha] at hm; rw [ho]
      have h1 := e1 m hm
      by_cases hw : m.w = t0
      · rw [hw, hk, hp]; have := e5 m hm; rw [hw] at this; exact this
      · rw [hkO _ hw, hpcO _ hw h1.1]; exact e5 m hm
  · refine ⟨?_, by rw [ha]; exact e2, ?_, ?_, ?_⟩
    · intro m hm; rw [ha] at hm
      have := e1 m hm
      rw [hcfg]
      refine ⟨this.1, ?_⟩
      by_cases hw : m.w = t0
      · rw [hw, hk]; rw [hw] at this; left; rcases this.2 with h | ⟨h, _⟩ <;> omega
      · rw [hkO _ hw, hpcO _ hw this.1]; exact this.2
    · rw [ha]
      rcases ho with ⟨ho, -⟩ | ⟨ho, hp0⟩
      · rw [ho]; exact e3
      · rw [ho]; intro m hm
        rcases List.mem_append.1 hm with hm | hm
        · exact e3 m hm
        · simp at hm; rw [hm]; exact e4 t0 ht0 hp0
    · intro t ht hpt; rw [hcfg] at ht; rw [ha]
      by_cases hw : t = t0
      · subst hw; rw [hp] at hpt; cases hpt
      · rw [hkO _ hw]; rw [hpcO _ hw ht] at hpt; exact e4 t ht hpt
    · intro m hm; rw [ha] at hm
      have h1 := e1 m hm
      by_cases hw : m.w = t0
      · left
        rcases ho with ⟨ho, hp0⟩ | ⟨ho, hp0⟩
        · rw [ho]
          rcases e5 m hm with h | ⟨_, h⟩
          · exact h
          · rw [hw, hp0] at h; cases h
        · rw [ho]
          rcases e5 m hm with h | ⟨h, _⟩
          · exact List.mem_append_left _ h
          · refine List.mem_append_right _ ?_
            have : m = ⟨t0, s.k t0⟩ := by cases m; simp at hw h ⊢; exact ⟨hw, by rw [h, hw]⟩
            rw [this]; simp
      · rw [hkO _ hw, hpcO _ hw h1.1]
        rcases e5 m hm with h | h
        · left
          rcases ho with ⟨ho, -⟩ | ⟨ho, -⟩ <;> rw [ho]
          · exact h
          · exact List.mem_append_left _ h
        · exact Or.inr h
  · refine ⟨?_, ?_, ?_, ?_, ?_⟩
    · intro m hm; rw [ha] at hm; rw [hcfg]
      rcases List.mem_append.1 hm with hm | hm
      · have := e1 m hm
        refine ⟨this.1, ?_⟩
        by_cases hw : m.w = t0
        · rw [hw, hk]; left; exact fresh m hm hp0 hw
        · rw [hkO _ hw, hpcO _ hw this.1]; exact this.2
      · simp at hm; subst hm; exact ⟨ht0, Or.inr ⟨hk.symm, hp⟩⟩
    · rw [ha, List.pairwise_append]
      refine ⟨e2, by simp, ?_⟩
      intro a ha' b hb hw; simp at hb; subst hb
      exact fresh a ha' hp0 hw
    · rw [ha, ho]; intro m hm; exact List.mem_append_left _ (e3 m hm)
    · intro t ht hpt; rw [hcfg] at ht; rw [ha]
      by_cases hw : t = t0
      · subst hw; rw [hk]; exact List.mem_append_right _ (by simp)
      · rw [hkO _ hw]; rw [hpcO _ hw ht] at hpt; exact List.mem_append_left _ (e4 t ht hpt)
    · intro m hm; rw [ha] at hm; rw [ho]
      rcases List.mem_append.1 hm with hm | hm
      · have h1 := e1 m hm
        by_cases hw : m.w = t0
        · left
          rcases e5 m hm with h | ⟨_, h⟩
          · exact h
          · rw [hw, hp0] at h; cases h
        · rw [hkO _ hw, hpcO _ hw h1.1]; exact e5 m hm
      · simp at hm; subst hm; exact Or.inr ⟨hk.symm, hp⟩
  · refine ⟨?_, ?_, ?_, ?_, ?_⟩
    · intro m hm; rw [ha] at hm; rw [hcfg]
      rcases List.mem_append.1 hm with hm | hm
      · have := e1 m hm
        refine ⟨this.1, ?_⟩
        by_cases hw : m.w = t0
        · rw [hw, hk]; left; have := fresh m hm hp0 hw; omega
        · rw [hkO _ hw, hpcO _ hw this.1]; exact this.2
      · simp at hm; subst hm; exact ⟨ht0, Or.inl (by simp [hk])⟩
    · rw [ha, List.pairwise_append]
      refine ⟨e2, by simp, ?_⟩
      intro a ha' b hb hw; simp at hb; subst hb
      exact fresh a ha' hp0 hw
    · rw [ha, ho]; intro m hm
      rcases List.mem_append.1 hm with hm | hm
      · exact List.mem_append_left _ (e3 m hm)
      · exact List.mem_append_right _ hm
    · intro t ht hpt; rw [hcfg] at ht; rw [ha]
      by_cases hw : t = t0
      · subst hw; rw [hp] at hpt; cases hpt
      · rw [hkO _ hw]; rw [hpcO _ hw ht] at hpt; exact List.mem_append_left _ (e4 t ht hpt)
    · intro m hm; rw [ha] at hm; rw [ho]
      rcases List.mem_append.1 hm with hm | hm
      · have h1 := e1 m hm
        by_cases hw : m.w = t0
        · left
          rcases e5 m hm with h | ⟨_, h⟩
          · exact List.mem_append_left _ h
          · rw [hw, hp0] at h; cases h
        · rw [hkO _ hw, hpcO _ hw h1.1]
          rcases e5 m hm with h | h
          · exact Or.inl (List.mem_append_left _ h)
          · exact Or.inr h
      · left; exact List.mem_append_right _ hm

macro "all_proj" : tactic => `(tactic|
  (simp only [leaveFn_cfg, leaveFn_accepted, leaveFn_pc, leaveFn_k, afterUnlock_cfg, afterUnlock_accepted,
    afterUnlock_pc, afterUnlock_k, finishCall_cfg, finishCall_accepted, finishCall_pc, finishCall_k,
    enterCall_cfg, enterCall_accepted, enterCall_pc, enterCall_k, enterCall_okNotes, publish, acquired, cur,
    upd_same]))

theorem wstep_pcO {s s' : St} {t : Nat} {ev : List String} (h : wstep s t = some (s', ev)) (ht : t < s.cfg.W) :
    ∀ t', t' ≠ t → t' < s.cfg.W → published (s'.pc t') = published (s.pc t') := by
  have hfb := firstBlocked_spec s.pc s.cfg.W 0
  cases hpc : s.pc t <;> simp only [wstep, hpc] at h <;> (try (cases h; done)) <;> (repeat' split at h)
  all_goals first
    | (cases h; done)
    | (simp only [Option.some.injEq, Prod.mk.injEq] at h; obtain ⟨rfl, -⟩ := h
       intro t' hne hlt
       have hneW : t' ≠ s.cfg.W := Nat.ne_of_lt hlt
       all_proj
       simp only [upd, hne, hneW, if_false, Cfg.reader]
       try (first | rfl | (split <;> first | rfl | (rename_i w hw heq; rw [heq, hfb w hw]; rfl))))


theorem wstep_kO {s s' : St} {t : Nat} {ev : List String} (h : wstep s t = some (s', ev)) :
    ∀ t', t' ≠ t → s'.k t' = s.k t' := by
  cases hpc : s.pc t <;> simp only [wstep, hpc] at h <;> (try (cases h; done)) <;> (repeat' split at h)
  all_goals first
    | (cases h; done)
    | (simp only [Option.some.injEq, Prod.mk.injEq] at h; obtain ⟨rfl, -⟩ := h
       intro t' hne
       all_proj
       try simp only [upd, hne, if_false])

/-- the exit helpers, seen from a pc that has not published / has published -/
theorem ECase_of_exit {s s1 s' : St} {t : Nat} {r : Ret} {k' : Nat} {p' : Pc} {ok' : List Msg}
    (hk : s'.k t = k') (hp : s'.pc t = p') (ho : s'.okNotes = ok')
    (hs : ExitSpec s1 t k' p' ok' r) (h1k : s1.k t = s.k t) (h1o : s1.okNotes = s.okNotes)
    (hacc : s'.accepted = s.accepted)
    (hpub : published (s.pc t) = (r == .ok)) : ECase s s' t := by
  unfold ExitSpec at hs
  rw [h1k, h1o] at hs
  simp only [cur, h1k] at hs
  rcases hs with ⟨a, b, c⟩ | ⟨a, c, b⟩
  · right; left
    refine ⟨hacc, by rw [hk, a], by rw [hp]; rcases b with b | b <;> simp [b, published], ?_⟩
    cases r
    · right; exact ⟨by rw [ho, c]; simp, by rw [hpub]; rfl⟩
    · left; exact ⟨by rw [ho, c]; simp, by rw [hpub]; rfl⟩
  · left
    refine ⟨hacc, by rw [hk, a], by rw [ho, c], ?_⟩
    rw [hp, hpub]
    rcases b with ⟨b, rfl⟩ | ⟨b, rfl⟩ | b
    · simp [b, published]
    · simp [b, published]
    · cases r <;> simp [b, published]


theorem ECase_publish_exit {s s1 s' : St} {t : Nat} {k' : Nat} {p' : Pc} {ok' : List Msg}
    (hk : s'.k t = k') (hp : s'.pc t = p') (ho : s'.okNotes = ok')
    (hs : ExitSpec s1 t k' p' ok' .ok) (h1k : s1.k t = s.k t) (h1o : s1.okNotes = s.okNotes)
    (hacc : s'.accepted = s.accepted ++ [⟨t, s.k t⟩])
    (hpub : published (s.pc t) = false) : ECase s s' t := by
  unfold ExitSpec at hs
  rw [h1k, h1o] at hs
  simp only [cur, h1k] at hs
  rcases hs with ⟨a, b, c⟩ | ⟨a, c, b⟩
  · right; right; right
    exact ⟨hacc, hpub, by rw [hk, a], by rw [hp]; rcases b with b | b <;> simp [b, published],
      by rw [ho, c]; simp⟩
  · right; right; left
    refine ⟨hacc, hpub, by rw [hk, a], by rw [ho, c], ?_⟩
    rw [hp]
    rcases b with ⟨b, h⟩ | ⟨b, -⟩ | b
    · cases h
    · simp [b, published]
    · simp [b, published]

set_option maxHeartbeats 1000000 in
theorem wstep_ECase {s s' : St} {t : Nat} {ev : List String} (h : wstep s t = some (s', ev)) :
    ECase s s' t := by
  cases hpc : s.pc t <;> simp only [wstep, hpc] at h <;> (try (cases h; done))
  case wPay =>
    simp only [Option.some.injEq, Prod.mk.injEq] at h; obtain ⟨rfl, -⟩ := h
    left; all_proj; simp only [hpc]; refine ⟨trivial, trivial, trivial, ?_⟩
    split <;> (try cases s.cfg.rm) <;> simp [published, entryFn]
  case wYield =>
    simp only [Option.some.injEq, Prod.mk.injEq] at h; obtain ⟨rfl, -⟩ := h
    left; all_proj; simp only [hpc]; refine ⟨trivial, trivial, trivial, ?_⟩
    split <;> (try cases s.cfg.rm) <;> simp [published, entryFn]
  case sRdW rpos =>
    split at h <;> (simp only [Option.some.injEq, Prod.mk.injEq] at h; obtain ⟨rfl, -⟩ := h)
    · exact ECase_of_exit (k' := _) rfl rfl rfl (lf_spec _ t .full) rfl rfl (by simp)
        (by simp [hpc, published])
    · left; simp [hpc, published]
  case bRdC2 wpos =>
    split at h <;> (simp only [Option.some.injEq, Prod.mk.injEq] at h; obtain ⟨rfl, -⟩ := h)
    · left; simp [hpc, published]
    · exact ECase_of_exit (k' := _) rfl rfl rfl (lf_spec _ t .full) rfl rfl (by simp)
        (by simp [hpc, published])
  case cSt wpos =>
    simp only [Option.some.injEq, Prod.mk.injEq] at h; obtain ⟨rfl, -⟩ := h
    exact ECase_publish_exit rfl rfl rfl (lf_spec _ t .ok) rfl rfl (by simp [publish, cur]) (by simp [hpc, published])
  case mWrW wpos =>
    simp only [Option.some.injEq, Prod.mk.injEq] at h; obtain ⟨rfl, -⟩ := h
    right; right; left; simp [publish, cur, hpc, published]
  case mUnlock r =>
    simp only [Option.some.injEq, Prod.mk.injEq] at h; obtain ⟨rfl, -⟩ := h
    exact ECase_of_exit (k' := _) rfl rfl rfl (lf_spec _ t r) rfl rfl (by simp)
      (by cases r <;> simp [hpc, published])
  case wUnlock r =>
    cases hwl : s.cfg.wl <;> simp only [hwl] at h
    case single => cases h
    case sync =>
      simp only [Option.some.injEq, Prod.mk.injEq] at h; obtain ⟨rfl, -⟩ := h
      left; cases r <;> simp [hpc, published]
    case spin =>
      simp only [Option.some.injEq, Prod.mk.injEq] at h; obtain ⟨rfl, -⟩ := h
      exact ECase_of_exit (k' := _) rfl rfl rfl (afterUnlock_okNotes_eq _ t r) rfl rfl (by simp) (by cases r <;> simp [hpc, published])
    case mutex =>
      simp only [Option.some.injEq, Prod.mk.injEq] at h; obtain ⟨rfl, -⟩ := h
      exact ECase_of_exit (k' := _) rfl rfl rfl (afterUnlock_okNotes_eq _ t r) rfl rfl (by simp) (by cases r <;> simp [hpc, published])
  case wUnlockWake r =>
    split at h <;> (simp only [Option.some.injEq, Prod.mk.injEq] at h; obtain ⟨rfl, -⟩ := h)
    · exact ECase_of_exit (k' := _) rfl rfl rfl (afterUnlock_okNotes_eq _ t r) rfl rfl (by simp) (by cases r <;> simp [hpc, published])
    · exact ECase_of_exit (k' := _) rfl rfl rfl (afterUnlock_okNotes_eq _ t r) rfl rfl (by simp) (by cases r <;> simp [hpc, published])
  case wWake =>
    cases hrm : s.cfg.rm <;> simp only [hrm] at h
    case busy => cases h
    all_goals
      split at h <;> (simp only [Option.some.injEq, Prod.mk.injEq] at h; obtain ⟨rfl, -⟩ := h) <;>
      exact ECase_of_exit (k' := _) rfl rfl rfl (fc_spec _ t .ok) rfl rfl (by simp) (by simp [hpc, published])
  all_goals
    (repeat' split at h)
    all_goals first
      | (cases h; done)
      | (simp only [Option.some.injEq, Prod.mk.injEq] at h; obtain ⟨rfl, -⟩ := h
         left; simp [hpc, published, acquired, entryFn]
         try (cases s.cfg.rm <;> simp [published]))


theorem wstep_invE {s s' : St} {t : Nat} {ev : List String} (ht : t < s.cfg.W) (hi : InvE s)
    (h : wstep s t = some (s', ev)) : InvE s' :=
  InvE_step hi ht (wstep_cfg h) (wstep_pcO h ht) (wstep_kO h) (wstep_ECase h)

/-- reader steps touch nothing `InvE` mentions -/
theorem rstep_frameE {s s' : St} {f : Flag} {ev : List String} (h : rstep s s.cfg.W f = some (s', ev)) :
    s'.accepted = s.accepted ∧ s'.okNotes = s.okNotes ∧
    (∀ t, t ≠ s.cfg.W → s'.k t = s.k t ∧ s'.pc t = s.pc t) := by
  cases hpc : s.pc s.cfg.W <;> simp only [rstep, hpc] at h <;> (try (cases h; done)) <;> (repeat' split at h)
  all_goals first
    | (cases h; done)
    | (simp only [Option.some.injEq, Prod.mk.injEq] at h; obtain ⟨rfl, -⟩ := h
       refine ⟨by simp, by simp, ?_⟩
       intro t ht
       simp [readReturned_pc, readReturned_k_other, upd, ht])

theorem rstep_invE {s s' : St} {f : Flag} {ev : List String} (hi : InvE s)
    (h : rstep s s.cfg.W f = some (s', ev)) : InvE s' := by
  obtain ⟨ha, ho, hf⟩ := rstep_frameE h
  have hc := rstep_cfg h
  obtain ⟨e1, e2, e3, e4, e5⟩ := hi
  refine ⟨?_, by rw [ha]; exact e2, by rw [ha, ho]; exact e3, ?_, ?_⟩
  · intro m hm; rw [ha] at hm
    have := e1 m hm
    have hne : m.w ≠ s.cfg.W := Nat.ne_of_lt this.1
    rw [hc, (hf _ hne).1, (hf _ hne).2]; exact this
  · intro t ht hp
    rw [hc] at ht
    have hne : t ≠ s.cfg.W := Nat.ne_of_lt ht
    rw [(hf _ hne).2] at hp
    rw [ha, (hf _ hne).1]; exact e4 t ht hp
  · intro m hm; rw [ha] at hm
    have hne : m.w ≠ s.cfg.W := Nat.ne_of_lt (e1 m hm).1
    rw [ho, (hf _ hne).1, (hf _ hne).2]; exact e5 m hm

/-- the interrupted futex wait touches nothing `InvE` mentions (a parked thread has not published) -/
theorem spur_invE {s : St} {t : Nat} {q : Pc} (hi : InvE s)
    (hq : (∃ rpos, s.pc t = .rBlocked rpos ∧ q = .rLdW rpos) ∨ (s.pc t = .wBlocked ∧ q = .wLock)) :
    InvE { s with pc := upd s.pc t q } := by
  have hp : ∀ u, published (upd s.pc t q u) = published (s.pc u) := by
    intro u
    by_cases hu : u = t
    · subst hu
      rcases hq with ⟨rpos, h1, rfl⟩ | ⟨h1, rfl⟩ <;> simp [h1, published]
    · rw [upd_other _ _ _ _ hu]
  obtain ⟨e1, e2, e3, e4, e5⟩ := hi
  refine ⟨?_, e2, e3, ?_, ?_⟩
  · intro m hm; simp only [hp]; exact e1 m hm
  · intro u hu hpu; simp only [hp] at hpu; exact e4 u hu hpu
  · intro m hm; simp only [hp]; exact e5 m hm

theorem step_invE {s s' : St} {tok : Tok} {ev : List String} (hi : InvE s)
    (h : step s tok = some (s', ev)) : InvE s' := by
  rcases step_cases h with ⟨-, q, rfl, hq⟩ | h
  · exact spur_invE hi hq
  unfold stepMain at h
  split at h
  · cases h
  next hen =>
    have hen' : s.enabled tok = true := by simpa using hen
    split at h
    next hlt => exact wstep_invE hlt hi h
    next hge =>
      have hle : tok.tid ≤ s.cfg.W := by
        simp only [St.enabled, Bool.and_eq_true, decide_eq_true_eq] at hen'
        exact hen'.1
      have hW : tok.tid = s.cfg.W := Nat.le_antisymm hle (Nat.le_of_not_lt hge)
      rw [hW] at h
      exact rstep_invE hi h

theorem init_invE (c : Cfg) : InvE (mkInit c) := by
  refine ⟨?_, ?_, ?_, ?_, ?_⟩ <;> simp only [mkInit]
  · intro m hm; cases hm
  · exact List.Pairwise.nil
  · intro m hm; cases hm
  · intro t ht hp
    simp only [ht, if_true] at hp
    split at hp <;> simp [published] at hp
  · intro m hm; cases hm

theorem reach_invE (c : Cfg) (s : St) (hr : Reach step (mkInit c) s) : InvE s :=
  Reach.inv InvE (init_invE c) (fun _ _ _ _ hi h => step_invE hi h) s hr

end MgProof.C01
