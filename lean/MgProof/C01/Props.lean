import MgProof.C01.InvR
import MgProof.C01.Once
import MgProof.C01.HB
/-!
# C01 — property theorems (channel)

Everything below is about `MgModel.C01.step`, the step model of `muggle/c/sync/channel.c`
(tied to the real object code by the trace correspondence of `checks/C01/check.py`), and is
quantified over

* every configuration `c` with `Valid c` (`WRITE_SINGLE` ⇒ one writer; nothing else): all 4
  writer locks x 3 reader modes, every capacity `2 ^ capLog` (including 1 and 2: permanently
  full), every number of writers, every workload (`ns`, `tries`, `reads`);
* every schedule of every length (`Reach step (mkInit c) s`), including spurious condition
  variable wake-ups.

Ghost lists of the model: `accepted` = messages in the order their write took effect (the
release store of `write_cursor`, resp. the store under `read_mutex`), `delivered` = what
`muggle_channel_read` returned, in order.
-/
namespace MgProof.C01
open MgModel.Conc MgModel.C01

variable {c : Cfg} {s : St}

/-- **Clause "reads return nothing else / in order / at most once"**: at every instant the
list of values returned by the reads is exactly the first `|delivered|` accepted messages, in
acceptance order (so no read returns NULL, a stale slot, a message twice or out of order). -/
theorem delivered_is_prefix_of_accepted (hv : Valid c) (hr : Reach step (mkInit c) s) :
    s.delivered = (s.accepted.take s.delivered.length).map some :=
  (reach_inv c hv s hr).fifo

/-- the same, element-wise: the `i`-th read returned the `i`-th accepted message -/
theorem read_i_returns_accepted_i (hv : Valid c) (hr : Reach step (mkInit c) s) (i : Nat)
    (hi : i < s.delivered.length) :
    ∃ m, s.accepted[i]? = some m ∧ s.delivered[i]? = some (some m) := by
  have inv := reach_inv c hv s hr
  have hlt : i < s.accepted.length := Nat.lt_of_lt_of_le hi inv.le1
  refine ⟨s.accepted[i], List.getElem?_eq_getElem hlt, ?_⟩
  rw [inv.fifo]
  simp [List.getElem?_map, hi, List.getElem?_eq_getElem hlt]

/-- **Clause "refused as full only if really at capacity at some instant during the call"**:
every FULL verdict was decided at an instant (the relaxed load of `read_cursor` in sync mode,
the refresh of `cached_r_cur` in busy mode — a stale cache alone never refuses —, the read
under `read_mutex` in mutex mode) at which exactly `cap - 2` messages, the usable capacity,
were unread (`fulls` records `|accepted| - |delivered at that instant|`). For capacity 1 and 2
this is 0: the channel is permanently full. -/
theorem full_only_when_at_capacity (hv : Valid c) (hr : Reach step (mkInit c) s) :
    ∀ u ∈ s.fulls, u = c.cap - 2 := by
  have inv := reach_inv c hv s hr
  have hc : s.cfg = c := reach_cfg c s hr
  rw [← hc]; exact inv.fullsOk

/-- **Clause "an accepted message is never overwritten before it has been read"**: no slot
store ever targets a slot that holds an accepted, not yet consumed message
(`overwrites` counts such stores). -/
theorem never_overwrites_unread (hv : Valid c) (hr : Reach step (mkInit c) s) : s.overwrites = 0 :=
  (reach_inv c hv s hr).ow

/-- the ring never holds more than `cap - 2` unread messages, and every unread message is in
its slot: slot `j mod cap` holds `accepted[j]` for every `j` between the cursors -/
theorem unread_messages_are_in_their_slots (hv : Valid c) (hr : Reach step (mkInit c) s) :
    s.delivered.length ≤ s.accepted.length ∧ s.accepted.length ≤ s.delivered.length + (s.cfg.cap - 2) ∧
    ∀ j, s.delivered.length ≤ j → j < s.accepted.length → s.blocks (j % s.cfg.cap) = s.accepted[j]? :=
  let inv := reach_inv c hv s hr
  ⟨inv.le1, inv.le2, inv.slots⟩

/-- **writer serialisation**: whatever the lock kind (mutex, inlined futex lock, inlined spin
lock, or the single-writer promise), at most one writer is between `fn_lock` and `fn_unlock` -/
theorem writers_are_serialised (hv : Valid c) (hr : Reach step (mkInit c) s) (t1 t2 : Nat)
    (h1 : t1 < s.cfg.W) (h2 : t2 < s.cfg.W) (c1 : inCS (s.pc t1) = true) (c2 : inCS (s.pc t2) = true) :
    t1 = t2 := by
  have inv := reach_inv c hv s hr
  have a := (inv.hold t1).2 ⟨h1, c1⟩
  have b := (inv.hold t2).2 ⟨h2, c2⟩
  rw [a] at b; cases b; rfl

/-- **Clause "messages are read in the order their writes took effect, so each writer's
messages keep that writer's order"**: within `accepted` (= the read order, by
`delivered_is_prefix_of_accepted`) the messages of one writer appear with strictly increasing
index, i.e. in that writer's program order. No hypothesis on `c` at all. -/
theorem accepted_keeps_each_writers_order (hr : Reach step (mkInit c) s) :
    s.accepted.Pairwise (fun a b => a.w = b.w → a.k < b.k) :=
  (reach_invE c s hr).e2

/-- no message is accepted twice -/
theorem accepted_nodup (hr : Reach step (mkInit c) s) : s.accepted.Nodup := by
  have h := (reach_invE c s hr).e2
  refine List.Pairwise.imp ?_ h
  intro a b hab e
  subst e
  exact absurd (hab rfl) (Nat.lt_irrefl _)

/-- **Clause "every message whose write returned success is returned by exactly one read"**,
safety half: no message is returned by two reads (the delivered list has no duplicates and
contains only accepted messages; that every accepted message *is* eventually read is the
progress theorem of C03). -/
theorem delivered_nodup (hv : Valid c) (hr : Reach step (mkInit c) s) : s.delivered.Nodup := by
  rw [delivered_is_prefix_of_accepted hv hr]
  have h : (s.accepted.take s.delivered.length).Nodup :=
    List.Sublist.nodup (List.take_sublist _ _) (accepted_nodup hr)
  rw [List.Nodup, List.pairwise_map]
  exact List.Pairwise.imp (fun hab e => hab (Option.some.inj e)) h

/-- **success ⇒ accepted**: `muggle_channel_write` reported success only for messages that are
in `accepted` (took effect exactly once, by `accepted_nodup`) -/
theorem success_implies_accepted (hr : Reach step (mkInit c) s) : ∀ m ∈ s.okNotes, m ∈ s.accepted :=
  (reach_invE c s hr).e3

/-- **accepted ⇒ success**: a message that took effect has been reported as success, unless
its writer is still inside that very call, past the publication (between the cursor store and
the return) -/
theorem accepted_implies_success_or_in_flight (hr : Reach step (mkInit c) s) :
    ∀ m ∈ s.accepted, m ∈ s.okNotes ∨ (m.k = s.k m.w ∧ published (s.pc m.w) = true) :=
  (reach_invE c s hr).e5

/-- a refused (FULL) or not yet published call has not taken effect: the current message of a
writer whose pc is not past the publication is not in `accepted` -/
theorem unpublished_not_accepted (hr : Reach step (mkInit c) s) (t : Nat)
    (hp : published (s.pc t) = false) : (⟨t, s.k t⟩ : Msg) ∉ s.accepted := by
  intro hm
  have := ((reach_invE c s hr).e1 _ hm).2
  rcases this with h | ⟨_, h⟩
  · exact Nat.lt_irrefl _ h
  · rw [hp] at h; cases h

/-- **Clause "everything the producer stored in a message before writing it is visible to the
reader that receives it (the hand-over is a happens-before edge)"**: whenever the reader is
about to read the payload of the message `m` it received, the producer's payload store is in
the reader's knowledge set, i.e. there is a chain of release/acquire (or unlock/lock) edges
from that store to this read — through the release store / acquire load of `write_cursor`
(sync and busy readers; with several writers via the write lock hand-over between them), or
through `read_mutex` (mutex reader). Relaxed accesses and futex operations contribute no edge
in the model, so a downgraded order in the model would falsify this theorem; the orders of
the real code are compared with the model's on every run (trace tie + static inventory). -/
theorem handover_is_happens_before (hv : Valid c) (hr : Reach step (mkInit c) s) (m : Msg)
    (hp : s.pc s.cfg.W = .rPay m) : m ∈ s.know s.cfg.W := by
  have h := (reach_all c hv s hr).2.2.rd
  rw [hp] at h
  exact h

/-- the same as a counter: no payload read ever happened outside the happens-before cone -/
theorem no_unordered_payload_read (hv : Valid c) (hr : Reach step (mkInit c) s) : s.hbViol = 0 :=
  (reach_all c hv s hr).2.2.viol

/-- the slot load of the reader is ordered as well: the message it is about to fetch /
has fetched is known to it (sync and busy readers; the mutex reader holds `read_mutex`) -/
theorem slot_load_is_ordered (hv : Valid c) (hr : Reach step (mkInit c) s) (rpos : Nat)
    (hp : s.pc s.cfg.W = .rRdB rpos) : ∀ m, s.accepted[s.delivered.length]? = some m → m ∈ s.know s.cfg.W := by
  have h := (reach_all c hv s hr).2.2.rd
  rw [hp] at h
  exact h

/-! ### non-vacuity: a concrete run with a delivery -/

private def cfg0 : Cfg := { wl := .single, rm := .sync, capLog := 2, tries := 0, reads := 1, ns := [1] }
private def sched0 : List Tok := [0, 0, 0, 0, 0, 0, 0, 1, 1, 1, 1, 1].map fun t => { tid := t }

example : Valid cfg0 := ⟨fun _ => rfl⟩
example : Reach step (mkInit cfg0) (runSched step (mkInit cfg0) sched0).1 :=
  reach_runSched step _ _ Reach.init _
example : (runSched step (mkInit cfg0) sched0).1.delivered = [some ⟨0, 0⟩] := by decide
example : (runSched step (mkInit cfg0) sched0).2.2 = true := by decide

/-- a permanently full channel (requested capacity 1 or 2) really reports FULL -/
private def cfg1 : Cfg := { wl := .single, rm := .busy, capLog := 1, tries := 1, reads := 0, ns := [1] }
example : (runSched step (mkInit cfg1) ([0, 0, 0, 0, 0, 0].map fun t => { tid := t })).1.fulls = [0] := by decide

end MgProof.C01
