import MgModel.C01.DoubleBuffer
import MgProof.C01.Lemmas
/-!
# C01 — double buffer: the buffers handed to the consumer are the writes, in order, each once

`written` = messages in the order they were appended to the back buffer, `handed` = the
concatenation of the buffers `read` swapped to the front, `delivered` = the items the consumer
has looked at. For every capacity, blocking and non-blocking, any number of producers, every
workload and schedule (incl. spurious wake-ups):

* `written = handed ++ back` and `|back| ≤ capacity`;
* `handed = delivered ++ (the part of the front buffer not yet looked at)`;
* a non-blocking write is refused only with `|back| = capacity`.
-/
namespace MgProof.C01.DBuf
open MgModel.Conc MgModel.C01.DBuf
open MgModel.C01 (Msg joinK Ret)
set_option linter.unusedSimpArgs false
set_option linter.unusedVariables false

/-- pcs holding the mutex -/
def inM : Pc → Bool
  | .dCvWait | .dSignal | .dUnlock _ | .rCvWait | .rSignal | .rUnlock => true
  | _ => false

/-- the part of the front buffer the consumer still has to look at -/
def pending (front : List Msg) : Pc → List Msg
  | .rItem i => front.drop i
  | .rSignal => front
  | .rUnlock => front
  | _ => []

/-- is this a pc of a producer (never of the consumer)? -/
def isW : Pc → Bool
  | .dPay | .dLock | .dCvWait | .dCvBlocked | .dCvSignaled | .dSignal | .dUnlock _ | .dYield => true
  | _ => false

structure Inv (s : St) : Prop where
  own : ∀ t, s.mtx = some t ↔ (t ≤ s.cfg.W ∧ inM (s.pc t) = true)
  bound : s.back.length ≤ s.cfg.cap
  wr : s.written = s.handed ++ s.back
  hd : s.handed = s.delivered ++ pending s.front (s.pc s.cfg.W)
  item : ∀ i, s.pc s.cfg.W = .rItem i → i < s.front.length
  fullsOk : ∀ u ∈ s.fulls, u = s.cfg.cap
  rdr : isW (s.pc s.cfg.W) = false
  wtr : ∀ t, t < s.cfg.W → isW (s.pc t) = true ∨ s.pc t = .done

theorem own_same {n : Nat} {mtx : Option Nat} {pc : Nat → Pc} {t0 : Nat} {p' : Pc}
    (h : ∀ t, mtx = some t ↔ (t ≤ n ∧ inM (pc t) = true)) (heq : inM p' = inM (pc t0)) :
    ∀ t, mtx = some t ↔ (t ≤ n ∧ inM (upd pc t0 p' t) = true) := by
  intro t; by_cases ht : t = t0
  · subst ht; simp only [upd_same, heq]; exact h t
  · simp only [upd_other _ _ _ _ ht]; exact h t

theorem own_acquire {n : Nat} {mtx : Option Nat} {pc : Nat → Pc} {t0 : Nat} {p' : Pc}
    (h : ∀ t, mtx = some t ↔ (t ≤ n ∧ inM (pc t) = true)) (hn : mtx = none) (ht0 : t0 ≤ n)
    (hp : inM p' = true) : ∀ t, some t0 = some t ↔ (t ≤ n ∧ inM (upd pc t0 p' t) = true) := by
  intro t; by_cases ht : t = t0
  · subst ht; simp [upd_same, hp, ht0]
  · simp only [upd_other _ _ _ _ ht]
    have := h t
    rw [hn] at this
    constructor
    · intro e; cases e; exact absurd rfl ht
    · intro e; exact absurd (this.2 e) (by simp)

theorem own_release {n : Nat} {mtx : Option Nat} {pc : Nat → Pc} {t0 : Nat} {p' : Pc}
    (h : ∀ t, mtx = some t ↔ (t ≤ n ∧ inM (pc t) = true)) (hh : mtx = some t0) (hp : inM p' = false) :
    ∀ t, (none : Option Nat) = some t ↔ (t ≤ n ∧ inM (upd pc t0 p' t) = true) := by
  intro t; by_cases ht : t = t0
  · subst ht; simp [upd_same, hp]
  · simp only [upd_other _ _ _ _ ht]
    have := h t
    rw [hh] at this
    constructor
    · intro e; cases e
    · intro e; have := this.2 e; cases this; exact absurd rfl ht

theorem firstWaiting_spec (pc : Nat → Pc) :
    ∀ n i w, firstWaiting pc n i = some w → pc w = .dCvBlocked ∧ w < i + n := by
  intro n
  induction n with
  | zero => intro i w h; simp [firstWaiting] at h
  | succ n ih =>
    intro i w h
    simp only [firstWaiting] at h
    split at h
    · cases h; exact ⟨by assumption, by omega⟩
    · have := ih _ _ h; exact ⟨this.1, by omega⟩

variable {s s' : St} {tok : Tok} {ev : List String}

theorem drop_step {l : List Msg} {i : Nat} (h : i < l.length) : l.drop i = l[i] :: l.drop (i + 1) :=
  List.drop_eq_getElem_cons h

set_option hygiene false in
macro "db_intro" : tactic => `(tactic|
  (have hen' : s.enabled tok = true := hen
   have hle : tok.tid ≤ s.cfg.W := by
     simp only [St.enabled, Bool.and_eq_true, decide_eq_true_eq] at hen'; exact hen'.1
   have hfw := firstWaiting_spec s.pc s.cfg.W 0
   have hown : inM (s.pc tok.tid) = true → s.mtx = some tok.tid := fun e => (hi.own tok.tid).2 ⟨hle, e⟩
   have hfree : (s.pc tok.tid = .dLock ∨ s.pc tok.tid = .rLock ∨ s.pc tok.tid = .dCvSignaled ∨
       s.pc tok.tid = .rCvSignaled ∨ s.pc tok.tid = .dCvBlocked ∨ s.pc tok.tid = .rCvBlocked) → s.mtx = none := by
     intro hp
     rcases hp with hp | hp | hp | hp | hp | hp <;>
       (simp only [St.enabled, hp, Bool.and_eq_true, Option.isNone_iff_eq_none] at hen'; exact hen'.2.1)
   obtain ⟨h1, h2, h3, h4, h5, h6, h7, h8⟩ := hi
   have hkind : tok.tid = s.cfg.W ∨ (tok.tid < s.cfg.W ∧ (isW (s.pc tok.tid) = true ∨ s.pc tok.tid = .done)) := by
     rcases Nat.lt_or_ge tok.tid s.cfg.W with hlt | hge
     · exact Or.inr ⟨hlt, h8 _ hlt⟩
     · exact Or.inl (Nat.le_antisymm hle hge)))

set_option hygiene false in
macro "db_finish" : tactic => `(tactic|
  (simp only [Option.some.injEq, Prod.mk.injEq] at h; obtain ⟨rfl, -⟩ := h
   refine ⟨?_, ?_, ?_, ?_, ?_, ?_, ?_, ?_⟩
   all_goals simp only [List.length_append, List.length_cons, List.length_nil]
   all_goals grind [upd, inM, isW, pending, drop_step, MgModel.C01.DBuf.cur]))

set_option maxHeartbeats 1000000 in
theorem d_dPay (hpc : s.pc tok.tid = .dPay) (hen : s.enabled tok = true) (hi : Inv s)
    (h : step s tok = some (s', ev)) : Inv s' := by
  db_intro
  simp only [step, hen, Bool.not_true, Bool.false_eq_true, if_false, hpc, dEnter, rEnter, nextMsg] at h
  repeat' split at h
  all_goals first | (cases h; done) | db_finish

set_option maxHeartbeats 1000000 in
theorem d_dLock (hpc : s.pc tok.tid = .dLock) (hen : s.enabled tok = true) (hi : Inv s)
    (h : step s tok = some (s', ev)) : Inv s' := by
  db_intro
  simp only [step, hen, Bool.not_true, Bool.false_eq_true, if_false, hpc, dEnter, rEnter, nextMsg] at h
  repeat' split at h
  all_goals first | (cases h; done) | db_finish

set_option maxHeartbeats 1000000 in
theorem d_dCvWait (hpc : s.pc tok.tid = .dCvWait) (hen : s.enabled tok = true) (hi : Inv s)
    (h : step s tok = some (s', ev)) : Inv s' := by
  db_intro
  simp only [step, hen, Bool.not_true, Bool.false_eq_true, if_false, hpc, dEnter, rEnter, nextMsg] at h
  repeat' split at h
  all_goals first | (cases h; done) | db_finish

set_option maxHeartbeats 1000000 in
theorem d_dCvBlocked (hpc : s.pc tok.tid = .dCvBlocked) (hen : s.enabled tok = true) (hi : Inv s)
    (h : step s tok = some (s', ev)) : Inv s' := by
  db_intro
  simp only [step, hen, Bool.not_true, Bool.false_eq_true, if_false, hpc, dEnter, rEnter, nextMsg] at h
  repeat' split at h
  all_goals first | (cases h; done) | db_finish

set_option maxHeartbeats 1000000 in
theorem d_dCvSignaled (hpc : s.pc tok.tid = .dCvSignaled) (hen : s.enabled tok = true) (hi : Inv s)
    (h : step s tok = some (s', ev)) : Inv s' := by
  db_intro
  simp only [step, hen, Bool.not_true, Bool.false_eq_true, if_false, hpc, dEnter, rEnter, nextMsg] at h
  repeat' split at h
  all_goals first | (cases h; done) | db_finish

set_option maxHeartbeats 1000000 in
theorem d_dSignal (hpc : s.pc tok.tid = .dSignal) (hen : s.enabled tok = true) (hi : Inv s)
    (h : step s tok = some (s', ev)) : Inv s' := by
  db_intro
  simp only [step, hen, Bool.not_true, Bool.false_eq_true, if_false, hpc, dEnter, rEnter, nextMsg] at h
  repeat' split at h
  all_goals first | (cases h; done) | db_finish

set_option maxHeartbeats 1000000 in
theorem d_dUnlock (r : Ret) (hpc : s.pc tok.tid = .dUnlock r) (hen : s.enabled tok = true) (hi : Inv s)
    (h : step s tok = some (s', ev)) : Inv s' := by
  db_intro
  simp only [step, hen, Bool.not_true, Bool.false_eq_true, if_false, hpc, dEnter, rEnter, nextMsg] at h
  repeat' split at h
  all_goals first | (cases h; done) | db_finish

set_option maxHeartbeats 1000000 in
theorem d_dYield (hpc : s.pc tok.tid = .dYield) (hen : s.enabled tok = true) (hi : Inv s)
    (h : step s tok = some (s', ev)) : Inv s' := by
  db_intro
  simp only [step, hen, Bool.not_true, Bool.false_eq_true, if_false, hpc, dEnter, rEnter, nextMsg] at h
  repeat' split at h
  all_goals first | (cases h; done) | db_finish

set_option maxHeartbeats 1000000 in
theorem d_rLock (hpc : s.pc tok.tid = .rLock) (hen : s.enabled tok = true) (hi : Inv s)
    (h : step s tok = some (s', ev)) : Inv s' := by
  db_intro
  simp only [step, hen, Bool.not_true, Bool.false_eq_true, if_false, hpc, dEnter, rEnter, nextMsg] at h
  repeat' split at h
  all_goals first | (cases h; done) | db_finish

set_option maxHeartbeats 1000000 in
theorem d_rCvWait (hpc : s.pc tok.tid = .rCvWait) (hen : s.enabled tok = true) (hi : Inv s)
    (h : step s tok = some (s', ev)) : Inv s' := by
  db_intro
  simp only [step, hen, Bool.not_true, Bool.false_eq_true, if_false, hpc, dEnter, rEnter, nextMsg] at h
  repeat' split at h
  all_goals first | (cases h; done) | db_finish

set_option maxHeartbeats 1000000 in
theorem d_rCvBlocked (hpc : s.pc tok.tid = .rCvBlocked) (hen : s.enabled tok = true) (hi : Inv s)
    (h : step s tok = some (s', ev)) : Inv s' := by
  db_intro
  simp only [step, hen, Bool.not_true, Bool.false_eq_true, if_false, hpc, dEnter, rEnter, nextMsg] at h
  repeat' split at h
  all_goals first | (cases h; done) | db_finish

set_option maxHeartbeats 1000000 in
theorem d_rCvSignaled (hpc : s.pc tok.tid = .rCvSignaled) (hen : s.enabled tok = true) (hi : Inv s)
    (h : step s tok = some (s', ev)) : Inv s' := by
  db_intro
  simp only [step, hen, Bool.not_true, Bool.false_eq_true, if_false, hpc, dEnter, rEnter, nextMsg] at h
  repeat' split at h
  all_goals first | (cases h; done) | db_finish

set_option maxHeartbeats 1000000 in
theorem d_rSignal (hpc : s.pc tok.tid = .rSignal) (hen : s.enabled tok = true) (hi : Inv s)
    (h : step s tok = some (s', ev)) : Inv s' := by
  db_intro
  simp only [step, hen, Bool.not_true, Bool.false_eq_true, if_false, hpc, dEnter, rEnter, nextMsg] at h
  repeat' split at h
  all_goals first | (cases h; done) | db_finish

set_option maxHeartbeats 1000000 in
theorem d_rUnlock (hpc : s.pc tok.tid = .rUnlock) (hen : s.enabled tok = true) (hi : Inv s)
    (h : step s tok = some (s', ev)) : Inv s' := by
  db_intro
  simp only [step, hen, Bool.not_true, Bool.false_eq_true, if_false, hpc, dEnter, rEnter, nextMsg] at h
  repeat' split at h
  all_goals first | (cases h; done) | db_finish

set_option maxHeartbeats 1000000 in
theorem d_rItem (i : Nat) (hpc : s.pc tok.tid = .rItem i) (hen : s.enabled tok = true) (hi : Inv s)
    (h : step s tok = some (s', ev)) : Inv s' := by
  db_intro
  simp only [step, hen, Bool.not_true, Bool.false_eq_true, if_false, hpc, dEnter, rEnter, nextMsg] at h
  repeat' split at h
  all_goals first | (cases h; done) | db_finish

theorem step_inv (hi : Inv s) (h : step s tok = some (s', ev)) : Inv s' := by
  cases hen : s.enabled tok with
  | false => simp [step, hen] at h
  | true =>
    cases hpc : s.pc tok.tid with
    | dPay => exact d_dPay hpc hen hi h
    | dLock => exact d_dLock hpc hen hi h
    | dCvWait => exact d_dCvWait hpc hen hi h
    | dCvBlocked => exact d_dCvBlocked hpc hen hi h
    | dCvSignaled => exact d_dCvSignaled hpc hen hi h
    | dSignal => exact d_dSignal hpc hen hi h
    | dUnlock r => exact d_dUnlock r hpc hen hi h
    | dYield => exact d_dYield hpc hen hi h
    | rLock => exact d_rLock hpc hen hi h
    | rCvWait => exact d_rCvWait hpc hen hi h
    | rCvBlocked => exact d_rCvBlocked hpc hen hi h
    | rCvSignaled => exact d_rCvSignaled hpc hen hi h
    | rSignal => exact d_rSignal hpc hen hi h
    | rUnlock => exact d_rUnlock hpc hen hi h
    | rItem i => exact d_rItem i hpc hen hi h
    | done => simp [step, hen, hpc] at h

theorem init_inv (c : Cfg) : Inv (mkInit c) := by
  refine ⟨?_, Nat.zero_le _, rfl, ?_, ?_, ?_, ?_, ?_⟩ <;> simp only [mkInit]
  · intro t
    constructor
    · intro h; cases h
    · intro ⟨_, h2⟩
      exfalso
      repeat' split at h2
      all_goals simp [inM] at h2
  · simp only [Nat.lt_irrefl, if_false, if_true]
    split <;> simp [pending]
  · intro i hi
    simp only [Nat.lt_irrefl, if_false, if_true] at hi
    split at hi <;> cases hi
  · intro u h; cases h
  · simp only [Nat.lt_irrefl, if_false, if_true]
    split <;> rfl
  · intro t ht
    simp only [ht, if_true]
    split
    · exact Or.inr rfl
    · exact Or.inl rfl

theorem reach_inv (c : Cfg) (s : St) (hr : Reach step (mkInit c) s) : Inv s :=
  Reach.inv Inv (init_inv c) (fun _ _ _ _ hi h => step_inv hi h) s hr

end MgProof.C01.DBuf
