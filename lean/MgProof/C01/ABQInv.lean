import MgModel.C01.ABQ
import MgProof.C01.Lemmas
/-!
# C01 — array blocking queue: FIFO, count and capacity invariant

`puts` = messages in enqueue order, `taken` = results of the dequeues in order. For every
capacity ≥ 1, any number of producers and consumers, every workload and schedule (incl.
spurious condition-variable wake-ups):

* `cnt = |puts| - |taken| ≤ capacity`, `put_idx = |puts| mod cap`, `take_idx = |taken| mod cap`;
* slot `j mod cap` holds `puts[j]` for every `j ∈ [|taken|, |puts|)`;
* `taken = (puts.take |taken|).map some` — takes return exactly the puts, in put order.
-/
namespace MgProof.C01.ABQ
open MgModel.Conc MgModel.C01.ABQ
open MgModel.C01 (Msg joinK)
set_option linter.unusedSimpArgs false
set_option linter.unusedVariables false

theorem succ_mod_wrap (a n : Nat) (hn : 0 < n) :
    (if a % n + 1 = n then 0 else a % n + 1) = (a + 1) % n := by
  have h : (a + 1) % n = (a % n + 1) % n := (Nat.mod_add_mod a n 1).symm
  have hlt : a % n < n := Nat.mod_lt _ hn
  split
  next e => rw [h, e, Nat.mod_self]
  next ne =>
    have : a % n + 1 < n := by omega
    rw [h, Nat.mod_eq_of_lt this]

/-- pcs holding the mutex -/
def inM : Pc → Bool
  | .pCvWait | .pSignal | .pUnlock | .cCvWait | .cSignal _ | .cUnlock _ => true
  | _ => false

structure Inv (s : St) : Prop where
  capPos : 0 < s.cfg.cap
  own : ∀ t, s.mtx = some t ↔ (t < s.cfg.P + s.cfg.C ∧ inM (s.pc t) = true)
  count : s.cnt + s.taken.length = s.puts.length
  bound : s.cnt ≤ s.cfg.cap
  putI : s.putIdx = s.puts.length % s.cfg.cap
  takeI : s.takeIdx = s.taken.length % s.cfg.cap
  slots : ∀ j, s.taken.length ≤ j → j < s.puts.length → s.datas (j % s.cfg.cap) = s.puts[j]?
  fifo : s.taken = (s.puts.take s.taken.length).map some

theorem own_same {n : Nat} {mtx : Option Nat} {pc : Nat → Pc} {t0 : Nat} {p' : Pc}
    (h : ∀ t, mtx = some t ↔ (t < n ∧ inM (pc t) = true)) (heq : inM p' = inM (pc t0)) :
    ∀ t, mtx = some t ↔ (t < n ∧ inM (upd pc t0 p' t) = true) := by
  intro t; by_cases ht : t = t0
  · subst ht; simp only [upd_same, heq]; exact h t
  · simp only [upd_other _ _ _ _ ht]; exact h t

theorem own_acquire {n : Nat} {mtx : Option Nat} {pc : Nat → Pc} {t0 : Nat} {p' : Pc}
    (h : ∀ t, mtx = some t ↔ (t < n ∧ inM (pc t) = true)) (hn : mtx = none) (ht0 : t0 < n)
    (hp : inM p' = true) : ∀ t, some t0 = some t ↔ (t < n ∧ inM (upd pc t0 p' t) = true) := by
  intro t; by_cases ht : t = t0
  · subst ht; simp [upd_same, hp, ht0]
  · simp only [upd_other _ _ _ _ ht]
    have := h t
    rw [hn] at this
    constructor
    · intro e; cases e; exact absurd rfl ht
    · intro e; exact absurd (this.2 e) (by simp)

theorem own_release {n : Nat} {mtx : Option Nat} {pc : Nat → Pc} {t0 : Nat} {p' : Pc}
    (h : ∀ t, mtx = some t ↔ (t < n ∧ inM (pc t) = true)) (hh : mtx = some t0) (hp : inM p' = false) :
    ∀ t, (none : Option Nat) = some t ↔ (t < n ∧ inM (upd pc t0 p' t) = true) := by
  intro t; by_cases ht : t = t0
  · subst ht; simp [upd_same, hp]
  · simp only [upd_other _ _ _ _ ht]
    have := h t
    rw [hh] at this
    constructor
    · intro e; cases e
    · intro e; have := this.2 e; cases this; exact absurd rfl ht

theorem firstWaiting_spec (pc : Nat → Pc) (which : Pc) :
    ∀ n i w, firstWaiting pc which n i = some w → pc w = which ∧ w < i + n := by
  intro n
  induction n with
  | zero => intro i w h; simp [firstWaiting] at h
  | succ n ih =>
    intro i w h
    simp only [firstWaiting] at h
    split at h
    · cases h; exact ⟨by assumption, by omega⟩
    · have := ih _ _ h; exact ⟨this.1, by omega⟩

/-- the producer holding the mutex after `mtx-lock` / `cv-resume` -/
theorem inv_pEnter {s : St} {t : Nat} (hi : Inv s) (ht : t < s.cfg.P + s.cfg.C) (hn : s.mtx = none)
    (hp : inM (s.pc t) = false) : Inv (pEnter s t) := by
  obtain ⟨h0, h1, h2, h3, h4, h5, h6, h7⟩ := hi
  unfold pEnter
  simp only
  split
  · refine ⟨h0, own_acquire h1 hn ht rfl, h2, h3, h4, h5, h6, h7⟩
  next hne =>
    refine ⟨h0, own_acquire h1 hn ht rfl, ?_, ?_, ?_, h5, ?_, ?_⟩
    all_goals simp only [List.length_append, List.length_cons, List.length_nil]
    · omega
    · omega
    · rw [h4]; exact succ_mod_wrap _ _ h0
    · intro j hj1 hj2
      simp only [h4]
      rcases Nat.lt_or_ge j s.puts.length with hlt | hge
      · have hne' : j % s.cfg.cap ≠ s.puts.length % s.cfg.cap := by
          intro e
          have := mod_inj_close (a := j) (b := s.puts.length) (n := s.cfg.cap) (by omega) (by omega) e
          omega
        rw [upd_other _ _ _ _ hne', List.getElem?_append_left hlt]; exact h6 j hj1 hlt
      · have : j = s.puts.length := by omega
        subst this
        rw [upd_same]; simp [MgModel.C01.ABQ.cur]
    · rw [List.take_append_of_le_length (by omega)]; exact h7

/-- the consumer holding the mutex after `mtx-lock` / `cv-resume` -/
theorem inv_cEnter {s : St} {t : Nat} (hi : Inv s) (ht : t < s.cfg.P + s.cfg.C) (hn : s.mtx = none)
    (hp : inM (s.pc t) = false) : Inv (cEnter s t) := by
  obtain ⟨h0, h1, h2, h3, h4, h5, h6, h7⟩ := hi
  unfold cEnter
  simp only
  split
  · refine ⟨h0, own_acquire h1 hn ht rfl, h2, h3, h4, h5, h6, h7⟩
  next hne =>
    have hlt : s.taken.length < s.puts.length := by omega
    refine ⟨h0, own_acquire h1 hn ht rfl, ?_, ?_, h4, ?_, ?_, ?_⟩
    all_goals simp only [List.length_append, List.length_cons, List.length_nil]
    · omega
    · omega
    · rw [h5]; exact succ_mod_wrap _ _ h0
    · intro j hj1 hj2
      exact h6 j (by omega) hj2
    · rw [h5, h6 _ (Nat.le_refl _) hlt]
      exact fifo_consume hlt h7

variable {s s' : St} {tok : Tok} {ev : List String}

theorem step_inv (hi : Inv s) (h : step s tok = some (s', ev)) : Inv s' := by
  unfold step at h
  split at h
  · cases h
  next hen =>
    have hen' : s.enabled tok = true := by simpa using hen
    have hlt : tok.tid < s.cfg.P + s.cfg.C := by
      simp only [St.enabled, Bool.and_eq_true, decide_eq_true_eq] at hen'; exact hen'.1
    have hfw := firstWaiting_spec s.pc
    cases hpc : s.pc tok.tid <;> simp only [hpc] at h
    case done => cases h
    case pLock =>
      simp only [Option.some.injEq, Prod.mk.injEq] at h; obtain ⟨rfl, -⟩ := h
      have hn : s.mtx = none := by
        simp only [St.enabled, hpc, Bool.and_eq_true, Option.isNone_iff_eq_none] at hen'; exact hen'.2.1
      exact inv_pEnter hi hlt hn (by simp [hpc, inM])
    case pCvBlocked =>
      simp only [Option.some.injEq, Prod.mk.injEq] at h; obtain ⟨rfl, -⟩ := h
      have hn : s.mtx = none := by
        simp only [St.enabled, hpc, Bool.and_eq_true, Option.isNone_iff_eq_none] at hen'; exact hen'.2.1
      exact inv_pEnter hi hlt hn (by simp [hpc, inM])
    case pCvSignaled =>
      simp only [Option.some.injEq, Prod.mk.injEq] at h; obtain ⟨rfl, -⟩ := h
      have hn : s.mtx = none := by
        simp only [St.enabled, hpc, Bool.and_eq_true, Option.isNone_iff_eq_none] at hen'; exact hen'.2.1
      exact inv_pEnter hi hlt hn (by simp [hpc, inM])
    case cLock =>
      simp only [Option.some.injEq, Prod.mk.injEq] at h; obtain ⟨rfl, -⟩ := h
      have hn : s.mtx = none := by
        simp only [St.enabled, hpc, Bool.and_eq_true, Option.isNone_iff_eq_none] at hen'; exact hen'.2.1
      exact inv_cEnter hi hlt hn (by simp [hpc, inM])
    case cCvBlocked =>
      simp only [Option.some.injEq, Prod.mk.injEq] at h; obtain ⟨rfl, -⟩ := h
      have hn : s.mtx = none := by
        simp only [St.enabled, hpc, Bool.and_eq_true, Option.isNone_iff_eq_none] at hen'; exact hen'.2.1
      exact inv_cEnter hi hlt hn (by simp [hpc, inM])
    case cCvSignaled =>
      simp only [Option.some.injEq, Prod.mk.injEq] at h; obtain ⟨rfl, -⟩ := h
      have hn : s.mtx = none := by
        simp only [St.enabled, hpc, Bool.and_eq_true, Option.isNone_iff_eq_none] at hen'; exact hen'.2.1
      exact inv_cEnter hi hlt hn (by simp [hpc, inM])
    all_goals
      have hown : inM (s.pc tok.tid) = true → s.mtx = some tok.tid := fun e => (hi.own tok.tid).2 ⟨hlt, e⟩
      obtain ⟨h0, h1, h2, h3, h4, h5, h6, h7⟩ := hi
      (repeat' split at h)
      all_goals first
        | (cases h; done)
        | (simp only [Option.some.injEq, Prod.mk.injEq] at h; obtain ⟨rfl, -⟩ := h
           refine ⟨h0, ?_, h2, h3, h4, h5, h6, h7⟩
           simp only [nextConsumer]
           first
             | exact own_same h1 (by first | (simp [hpc, inM]; done) | (simp only [hpc]; split <;> simp [inM]))
             | exact own_release h1 (hown (by simp [hpc, inM])) (by first | rfl | (split <;> rfl))
             | (rename_i w hw
                have hb := (hfw _ _ _ _ hw).1
                have hne : tok.tid ≠ w := by intro e; rw [e, hb] at hpc; cases hpc
                refine own_same (own_same h1 (by simp [hb, inM])) (by simp [upd_other _ _ _ _ hne, hpc, inM])))

theorem init_inv (c : Cfg) (hc : 0 < c.cap) : Inv (mkInit c) := by
  refine ⟨hc, ?_, rfl, Nat.zero_le _, ?_, ?_, ?_, rfl⟩ <;> simp only [mkInit, List.length_nil, Nat.zero_mod]
  · intro t
    constructor
    · intro h; cases h
    · intro ⟨_, h2⟩
      exfalso
      repeat' split at h2
      all_goals simp [inM] at h2
  · intro j _ h; omega

theorem reach_inv (c : Cfg) (hc : 0 < c.cap) (s : St) (hr : Reach step (mkInit c) s) : Inv s :=
  Reach.inv Inv (init_inv c hc) (fun _ _ _ _ hi h => step_inv hi h) s hr

end MgProof.C01.ABQ
