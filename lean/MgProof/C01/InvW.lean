import MgProof.C01.StepLemmas
/-!
# C01 — channel: every writer step preserves `Inv`

One lemma per program counter of `wstep` (the acting thread is `tok.tid < W`), for every writer
lock kind and reader mode at once.
-/
namespace MgProof.C01
open MgModel.Conc MgModel.C01
set_option linter.unusedSimpArgs false
set_option linter.unusedVariables false

set_option hygiene false in
/-- destructure `hi : Inv s` into `hv h1 … h14` and split the goal `Inv s'` into its fields -/
macro "inv_split" : tactic => `(tactic|
  (obtain ⟨hv, h1, h2, h3, h4, h5, h6, h7, h8, h9, h10, h11, h12, h13, h14⟩ := hi
   refine Inv.mk ?_ ?_ ?_ ?_ ?_ ?_ ?_ ?_ ?_ ?_ ?_ ?_ ?_ ?_ ?_
   all_goals simp only [cur] at *))

set_option hygiene false in
/-- the acting writer is inside the critical section: it is the holder; `hw` = its local facts -/
macro "holder_facts" : tactic => `(tactic|
  (have hh := (hi.hold tok.tid).2 ⟨ht, by simp [hpc, inCS]⟩
   have hw := hi.wloc tok.tid hh
   rw [hpc] at hw
   simp only [WLoc, Room, cur] at hw))

set_option hygiene false in
macro "open_step" : tactic => `(tactic|
  (simp only [wstep, hpc, Option.some.injEq, Prod.mk.injEq] at h))

/-- close a goal that is literally one of the hypotheses, or simple arithmetic -/
macro "triv" : tactic => `(tactic| (first | assumption | omega))

theorem mod_succ (a n : Nat) : (a % n + 1) % n = (a + 1) % n := Nat.mod_add_mod a n 1

theorem rloc_w {n A D W t0 : Nat} {nxt : Option Msg} {pc : Nat → Pc} {p' : Pc}
    (h11 : RLoc n A D nxt (pc W)) (ht : t0 < W) : RLoc n A D nxt (upd pc t0 p' W) := by
  rw [upd_other _ _ _ _ (by omega)]; exact h11

variable {s s' : St} {tok : Tok} {ev : List String}


/-- normalise the projections of the post-state of a step that ends in `leaveFn` -/
macro "lf_norm" : tactic => `(tactic|
  (simp only [leaveFn_cfg, leaveFn_wc, leaveFn_rc, leaveFn_cached, leaveFn_blocks, leaveFn_wlock,
    leaveFn_rmtx, leaveFn_accepted, leaveFn_delivered, leaveFn_fulls, leaveFn_overwrites, leaveFn_obs,
    leaveFn_cachedObs, leaveFn_holder, leaveFn_pc, leaveFn_k, publish, List.length_append,
    List.length_cons, List.length_nil, cur]))

macro "au_norm" : tactic => `(tactic|
  (simp only [afterUnlock_cfg, afterUnlock_wc, afterUnlock_rc, afterUnlock_cached, afterUnlock_blocks,
    afterUnlock_wlock, afterUnlock_rmtx, afterUnlock_accepted, afterUnlock_delivered, afterUnlock_fulls,
    afterUnlock_overwrites, afterUnlock_obs, afterUnlock_cachedObs, afterUnlock_holder, afterUnlock_pc,
    afterUnlock_k, cur]))

macro "fc_norm" : tactic => `(tactic|
  (simp only [finishCall_cfg, finishCall_wc, finishCall_rc, finishCall_cached, finishCall_blocks,
    finishCall_wlock, finishCall_rmtx, finishCall_accepted, finishCall_delivered, finishCall_fulls,
    finishCall_overwrites, finishCall_obs, finishCall_cachedObs, finishCall_holder, finishCall_pc,
    finishCall_k, cur]))

macro "ec_norm" : tactic => `(tactic|
  (simp only [enterCall_cfg, enterCall_wc, enterCall_rc, enterCall_cached, enterCall_blocks,
    enterCall_wlock, enterCall_rmtx, enterCall_accepted, enterCall_delivered, enterCall_fulls,
    enterCall_overwrites, enterCall_obs, enterCall_cachedObs, enterCall_holder, enterCall_pc,
    enterCall_k, cur]))

/-! ### two generic moves -/

/-- the parts of the state the ring invariants talk about are unchanged -/
structure SameRing (s s' : St) : Prop where
  cfg : s'.cfg = s.cfg
  wc : s'.wc = s.wc
  rc : s'.rc = s.rc
  cached : s'.cached = s.cached
  blocks : s'.blocks = s.blocks
  wlock : s'.wlock = s.wlock
  holder : s'.holder = s.holder
  rmtx : s'.rmtx = s.rmtx
  accepted : s'.accepted = s.accepted
  delivered : s'.delivered = s.delivered
  fulls : s'.fulls = s.fulls
  overwrites : s'.overwrites = s.overwrites
  cachedObs : s'.cachedObs = s.cachedObs

/-- a writer outside the critical section moves to another pc outside it -/
theorem Inv_move_out {s s' : St} {t0 : Nat} {p' : Pc} (hi : Inv s) (hr : SameRing s s')
    (hobs : s'.obs = s.obs) (hpc' : s'.pc = upd s.pc t0 p') (hk : ∀ t, t ≠ t0 → s'.k t = s.k t)
    (ht0 : t0 < s.cfg.W)
    (c0 : inCS (s.pc t0) = false) (c1 : inCS p' = false)
    (r0 : inRM (s.pc t0) = false) (r1 : inRM p' = false) : Inv s' := by
  obtain ⟨e1, e2, e3, e4, e5, e6, e7, e8, e10, e11, e12, e13, e14⟩ := hr
  obtain ⟨hv, h1, h2, h3, h4, h5, h6, h7, h8, h9, h10, h11, h12, h13, h14⟩ := hi
  refine Inv.mk ?_ ?_ ?_ ?_ ?_ ?_ ?_ ?_ ?_ ?_ ?_ ?_ ?_ ?_ ?_
  all_goals simp only [e1, e2, e3, e4, e5, e6, e7, e8, e10, e11, e12, e13, e14, hobs, hpc', cur] at *
  · exact hv
  · exact hold_same h1 (by rw [c0, c1])
  · exact h2
  · exact rmo_same h3 (by rw [r0, r1])
  · exact h4
  · exact h5
  · exact h6
  · exact h7
  · exact h8
  · exact h9
  · exact wloc_other h1 h10 c0 s.obs s'.k (fun _ _ => rfl) hk
  · exact rloc_w h11 ht0
  · exact h12
  · exact h13
  · exact h14

/-- the holder of the write lock moves inside the critical section without touching the ring -/
theorem Inv_move_in {s s' : St} {t0 : Nat} {p' : Pc} (hi : Inv s) (hr : SameRing s s')
    (hpc' : s'.pc = upd s.pc t0 p') (hk : s'.k = s.k) (ht0 : t0 < s.cfg.W) (hh : s.holder = some t0)
    (c1 : inCS p' = true) (r1 : inRM p' = inRM (s.pc t0))
    (hnew : WLoc s.cfg.cap s.accepted.length s.delivered.length (s'.obs t0) s.cachedObs s.cfg.rm
      (s.blocks (s.accepted.length % s.cfg.cap)) ⟨t0, s.k t0⟩ p') : Inv s' := by
  obtain ⟨e1, e2, e3, e4, e5, e6, e7, e8, e10, e11, e12, e13, e14⟩ := hr
  obtain ⟨hv, h1, h2, h3, h4, h5, h6, h7, h8, h9, h10, h11, h12, h13, h14⟩ := hi
  refine Inv.mk ?_ ?_ ?_ ?_ ?_ ?_ ?_ ?_ ?_ ?_ ?_ ?_ ?_ ?_ ?_
  all_goals simp only [e1, e2, e3, e4, e5, e6, e7, e8, e10, e11, e12, e13, e14, hpc', hk, cur] at *
  · exact hv
  · exact hold_same h1 (by rw [c1, ((h1 t0).1 hh).2])
  · exact h2
  · exact rmo_same h3 r1
  · exact h4
  · exact h5
  · exact h6
  · exact h7
  · exact h8
  · exact h9
  · exact wloc_holder s'.obs s.k hh hnew
  · exact rloc_w h11 ht0
  · exact h12
  · exact h13
  · exact h14

macro "same_ring" : tactic => `(tactic| exact ⟨rfl, rfl, rfl, rfl, rfl, rfl, rfl, rfl, rfl, rfl, rfl, rfl, rfl⟩)

/-! ### the helper functions preserve the invariant -/

theorem upd_upd {α : Type} (f : Nat → α) (i : Nat) (a b : α) : upd (upd f i a) i b = upd f i b := by
  funext j; simp only [upd]; split <;> rfl

theorem Inv_finishCall {s : St} {t : Nat} (r : Ret) (hi : Inv s) (ht : t < s.cfg.W)
    (c0 : inCS (s.pc t) = false) (r0 : inRM (s.pc t) = false) : Inv (finishCall s t r).1 := by
  refine Inv_move_out (p' := fcPc s t r) hi ⟨by simp, by simp, by simp, by simp, by simp, by simp, by simp, by simp,
    by simp, by simp, by simp, by simp, by simp⟩ (by simp) (finishCall_pc s t r) ?_ ht c0 ?_ r0 ?_
  · intro t' ht'; rw [finishCall_k, upd_other _ _ _ _ ht']
  · rcases fcPc_cases s t r with h | h | ⟨h, -⟩ <;> simp [h, inCS]
  · rcases fcPc_cases s t r with h | h | ⟨h, -⟩ <;> simp [h, inRM]

theorem Inv_afterUnlock {s : St} {t : Nat} (r : Ret) (hi : Inv s) (ht : t < s.cfg.W)
    (c0 : inCS (s.pc t) = false) (r0 : inRM (s.pc t) = false) : Inv (afterUnlock s t r).1 := by
  refine Inv_move_out (p' := auPc s t r) hi ⟨by simp, by simp, by simp, by simp, by simp, by simp, by simp, by simp,
    by simp, by simp, by simp, by simp, by simp⟩ (by simp) (afterUnlock_pc s t r) ?_ ht c0 ?_ r0 ?_
  · intro t' ht'; rw [afterUnlock_k, upd_other _ _ _ _ ht']
  · rcases auPc_cases s t r with ⟨h, -⟩ | h | h | ⟨h, -⟩ <;> simp [h, inCS]
  · rcases auPc_cases s t r with ⟨h, -⟩ | h | h | ⟨h, -⟩ <;> simp [h, inRM]

/-- releasing the write lock (ghost owner for spin/sync/single, the mutex for `mutex`) from the
last pc of the critical section -/
theorem Inv_release {s s' : St} {t0 : Nat} {p' : Pc} (hi : Inv s) (hr : SameRing { s with holder := none, wlock := s'.wlock } s')
    (hobs : s'.obs = s.obs) (hpc' : s'.pc = upd s.pc t0 p') (hk : s'.k = s.k)
    (ht0 : t0 < s.cfg.W) (hh : s.holder = some t0)
    (c1 : inCS p' = false) (r0 : inRM (s.pc t0) = false) (r1 : inRM p' = false) : Inv s' := by
  obtain ⟨e1, e2, e3, e4, e5, e6, e7, e8, e10, e11, e12, e13, e14⟩ := hr
  obtain ⟨hv, h1, h2, h3, h4, h5, h6, h7, h8, h9, h10, h11, h12, h13, h14⟩ := hi
  simp only [] at e1 e2 e3 e4 e5 e6 e7 e8 e10 e11 e12 e13 e14
  refine Inv.mk ?_ ?_ ?_ ?_ ?_ ?_ ?_ ?_ ?_ ?_ ?_ ?_ ?_ ?_ ?_
  all_goals simp only [e1, e2, e3, e4, e5, e7, e8, e10, e11, e12, e13, e14, hobs, hpc', hk, cur] at *
  · exact hv
  · exact hold_release h1 hh c1
  · intro _ _; trivial
  · exact rmo_same h3 (by rw [r0, r1])
  · exact h4
  · exact h5
  · exact h6
  · exact h7
  · exact h8
  · exact h9
  · exact wloc_none
  · exact rloc_w h11 ht0
  · exact h12
  · exact h13
  · exact h14

theorem Inv_leaveFn {s : St} {t : Nat} (r : Ret) (hi : Inv s) (ht : t < s.cfg.W)
    (hpc : s.pc t = .wUnlock r) : Inv (leaveFn s t r).1 := by
  have hh := (hi.hold t).2 ⟨ht, by simp [hpc, inCS]⟩
  unfold leaveFn
  cases hwl : s.cfg.wl <;> simp only
  case single =>
    have h1 : Inv { s with holder := none, pc := upd s.pc t .wYield } :=
      Inv_release (p' := .wYield) hi (by same_ring) rfl rfl rfl ht hh rfl (by simp [hpc, inRM]) rfl
    have h2 := Inv_afterUnlock (t := t) r h1 ht (by simp [inCS]) (by simp [inRM])
    have e : (afterUnlock { s with holder := none, pc := upd s.pc t .wYield } t r).1 =
        (afterUnlock { s with holder := none } t r).1 := by
      unfold afterUnlock finishCall
      cases r <;> cases s.cfg.rm <;> simp only [upd_upd, upd_same, cur] <;> (try split) <;> (try simp only [upd_upd, upd_same, cur])
    rw [e] at h2; exact h2
  all_goals
    have e : ({ s with pc := upd s.pc t (.wUnlock r) } : St) = s := by
      have : upd s.pc t (.wUnlock r) = s.pc := by
        funext j; simp only [upd]; split
        next h => rw [h, hpc]
        next => rfl
      rw [this]
    rw [e]; exact hi

theorem leaveFn_upd (s : St) (t : Nat) (q : Pc) (r : Ret) :
    (leaveFn { s with pc := upd s.pc t q } t r).1 = (leaveFn s t r).1 := by
  unfold leaveFn afterUnlock finishCall
  cases s.cfg.wl <;> cases r <;> cases s.cfg.rm <;> simp only [upd_upd, upd_same, cur] <;> (try split) <;>
    (try simp only [upd_upd, upd_same, cur])

/-- a step of the holder that ends in `leaveFn`: it suffices to show the invariant for the
intermediate state in which the thread sits at `wUnlock r` -/
theorem Inv_via_unlock {s1 : St} {t : Nat} (r : Ret) (ht : t < s1.cfg.W)
    (hi : Inv { s1 with pc := upd s1.pc t (.wUnlock r) }) : Inv (leaveFn s1 t r).1 := by
  rw [← leaveFn_upd s1 t (.wUnlock r) r]
  exact Inv_leaveFn r hi ht (by simp)

theorem Inv_enterCall {s : St} {t : Nat} (hi : Inv s) (ht : t < s.cfg.W)
    (c0 : inCS (s.pc t) = false) (r0 : inRM (s.pc t) = false) : Inv (enterCall s t) := by
  unfold enterCall
  cases hwl : s.cfg.wl <;> simp only
  case single =>
    have hW := hi.valid.single hwl
    have hn : s.holder = none := by
      cases hh : s.holder with
      | none => rfl
      | some t' =>
        have := (hi.hold t').1 hh
        have e : t' = t := by omega
        rw [e, c0] at this; exact absurd this.2 (by simp)
    obtain ⟨hv, h1, h2, h3, h4, h5, h6, h7, h8, h9, h10, h11, h12, h13, h14⟩ := hi
    refine Inv.mk ?_ ?_ ?_ ?_ ?_ ?_ ?_ ?_ ?_ ?_ ?_ ?_ ?_ ?_ ?_
    all_goals simp only [cur] at *
    · exact hv
    · exact hold_acquire h1 hn ht (entryFn_inCS _)
    · intro hx; rw [hwl] at hx; rcases hx with hx | hx <;> cases hx
    · exact rmo_same h3 (by rw [r0, entryFn_inRM])
    · exact h4
    · exact h5
    · exact h6
    · exact h7
    · exact h8
    · exact h9
    · exact wloc_holder s.obs s.k rfl (entryFn_WLoc _ _ _ _ _ _ _ _)
    · exact rloc_w h11 ht
    · exact h12
    · exact h13
    · exact h14
  all_goals exact Inv_move_out hi (by same_ring) rfl rfl (fun _ _ => rfl) ht c0 rfl r0 rfl

theorem afterUnlock_upd (s : St) (t : Nat) (q : Pc) (r : Ret) :
    (afterUnlock { s with pc := upd s.pc t q } t r).1 = (afterUnlock s t r).1 := by
  unfold afterUnlock finishCall
  cases r <;> cases s.cfg.rm <;> simp only [upd_upd, upd_same, cur] <;> (try split) <;>
    (try simp only [upd_upd, upd_same, cur])

theorem finishCall_upd (s : St) (t : Nat) (q : Pc) (r : Ret) :
    (finishCall { s with pc := upd s.pc t q } t r).1 = (finishCall s t r).1 := by
  unfold finishCall
  cases r <;> simp only [upd_upd, upd_same, cur] <;> (try split) <;>
    (try simp only [upd_upd, upd_same, cur])

/-- fields the invariant does not mention may change freely -/
theorem Inv_congr {s s' : St} (hi : Inv s) (hr : SameRing s s') (hobs : s'.obs = s.obs)
    (hpc' : s'.pc = s.pc) (hk : s'.k = s.k) : Inv s' := by
  obtain ⟨e1, e2, e3, e4, e5, e6, e7, e8, e10, e11, e12, e13, e14⟩ := hr
  obtain ⟨hv, h1, h2, h3, h4, h5, h6, h7, h8, h9, h10, h11, h12, h13, h14⟩ := hi
  refine Inv.mk ?_ ?_ ?_ ?_ ?_ ?_ ?_ ?_ ?_ ?_ ?_ ?_ ?_ ?_ ?_
  all_goals simp only [e1, e2, e3, e4, e5, e6, e7, e8, e10, e11, e12, e13, e14, hobs, hpc', hk, cur] at *
  all_goals assumption

theorem Inv_fulls {s : St} (hi : Inv s) (u : Nat) (hu : u = s.cfg.cap - 2) :
    Inv { s with fulls := s.fulls ++ [u] } := by
  obtain ⟨hv, h1, h2, h3, h4, h5, h6, h7, h8, h9, h10, h11, h12, h13, h14⟩ := hi
  refine Inv.mk ?_ ?_ ?_ ?_ ?_ ?_ ?_ ?_ ?_ ?_ ?_ ?_ ?_ ?_ ?_
  all_goals simp only [cur] at *
  case refine_14 =>
    intro u' hu'
    rcases List.mem_append.1 hu' with hu' | hu'
    · exact h13 u' hu'
    · simp at hu'; omega
  all_goals assumption

/-- acquisition of the write lock -/
theorem Inv_acquire {s s' : St} {t0 : Nat} (hi : Inv s) (hr : SameRing { s with holder := some t0, wlock := s'.wlock } s')
    (hobs : s'.obs = s.obs) (hpc' : s'.pc = upd s.pc t0 (entryFn s.cfg.rm)) (hk : s'.k = s.k)
    (ht0 : t0 < s.cfg.W) (hn : s.holder = none) (r0 : inRM (s.pc t0) = false)
    (hl : s.cfg.wl = .spin ∨ s.cfg.wl = .sync → s'.wlock ≠ 0) : Inv s' := by
  obtain ⟨e1, e2, e3, e4, e5, e6, e7, e8, e10, e11, e12, e13, e14⟩ := hr
  obtain ⟨hv, h1, h2, h3, h4, h5, h6, h7, h8, h9, h10, h11, h12, h13, h14⟩ := hi
  simp only [] at e1 e2 e3 e4 e5 e6 e7 e8 e10 e11 e12 e13 e14
  refine Inv.mk ?_ ?_ ?_ ?_ ?_ ?_ ?_ ?_ ?_ ?_ ?_ ?_ ?_ ?_ ?_
  all_goals simp only [e1, e2, e3, e4, e5, e7, e8, e10, e11, e12, e13, e14, hobs, hpc', hk, cur] at *
  · exact hv
  · exact hold_acquire h1 hn ht0 (entryFn_inCS _)
  · intro hx h0; exact absurd h0 (hl hx)
  · exact rmo_same h3 (by rw [r0, entryFn_inRM])
  · exact h4
  · exact h5
  · exact h6
  · exact h7
  · exact h8
  · exact h9
  · exact wloc_holder s.obs s.k rfl (entryFn_WLoc _ _ _ _ _ _ _ _)
  · exact rloc_w h11 ht0
  · exact h12
  · exact h13
  · exact h14

/-- the reader's pc is changed (by itself or by a waker) without touching the ring -/
theorem Inv_move_reader {s s' : St} {p' : Pc} (hi : Inv s) (hr : SameRing s s')
    (hobs : s'.obs = s.obs) (hpc' : s'.pc = upd s.pc s.cfg.W p') (hk : ∀ t, t ≠ s.cfg.W → s'.k t = s.k t)
    (r1 : inRM p' = inRM (s.pc s.cfg.W))
    (hnew : RLoc s.cfg.cap s.accepted.length s.delivered.length s.accepted[s.delivered.length]? p') :
    Inv s' := by
  obtain ⟨e1, e2, e3, e4, e5, e6, e7, e8, e10, e11, e12, e13, e14⟩ := hr
  obtain ⟨hv, h1, h2, h3, h4, h5, h6, h7, h8, h9, h10, h11, h12, h13, h14⟩ := hi
  refine Inv.mk ?_ ?_ ?_ ?_ ?_ ?_ ?_ ?_ ?_ ?_ ?_ ?_ ?_ ?_ ?_
  all_goals simp only [e1, e2, e3, e4, e5, e6, e7, e8, e10, e11, e12, e13, e14, hobs, hpc', cur] at *
  · exact hv
  · intro t
    by_cases ht : t = s.cfg.W
    · subst ht
      constructor
      · intro hh; exact absurd ((h1 _).1 hh).1 (by omega)
      · intro hh; exact absurd hh.1 (by omega)
    · rw [upd_other _ _ _ _ ht]; exact h1 t
  · exact h2
  · exact rmo_same h3 r1
  · exact h4
  · exact h5
  · exact h6
  · exact h7
  · exact h8
  · exact h9
  · intro t hh
    have ht : t ≠ s.cfg.W := by
      intro e; subst e; exact absurd ((h1 _).1 hh).1 (by omega)
    rw [upd_other _ _ _ _ ht, hk t ht]; exact h10 t hh
  · rw [upd_same]; exact hnew
  · exact h12
  · exact h13
  · exact h14

theorem firstBlocked_lt (pc : Nat → Pc) : ∀ n i w, firstBlocked pc n i = some w → w < i + n := by
  intro n
  induction n with
  | zero => intro i w h; simp [firstBlocked] at h
  | succ n ih =>
    intro i w h
    simp only [firstBlocked] at h
    split at h
    · cases h; omega
    · have := ih _ _ h; omega

/-- the holder stores its message into slot `A mod cap` -/
theorem Inv_store {s s' : St} {t0 : Nat} {p' : Pc} (hi : Inv s)
    (hr : SameRing { s with blocks := s'.blocks, overwrites := s'.overwrites } s')
    (hb : s'.blocks = upd s.blocks (s.accepted.length % s.cfg.cap) (some ⟨t0, s.k t0⟩))
    (how : s'.overwrites = s.overwrites + (if liveSlot s (s.accepted.length % s.cfg.cap) then 1 else 0))
    (hobs : s'.obs = s.obs) (hpc' : s'.pc = upd s.pc t0 p') (hk : s'.k = s.k)
    (ht0 : t0 < s.cfg.W) (hh : s.holder = some t0)
    (c1 : inCS p' = true) (r1 : inRM p' = inRM (s.pc t0))
    (hnew : WLoc s.cfg.cap s.accepted.length s.delivered.length (s.obs t0) s.cachedObs s.cfg.rm
      (some ⟨t0, s.k t0⟩) ⟨t0, s.k t0⟩ p') : Inv s' := by
  obtain ⟨e1, e2, e3, e4, e5, e6, e7, e8, e10, e11, e12, e13, e14⟩ := hr
  obtain ⟨hv, h1, h2, h3, h4, h5, h6, h7, h8, h9, h10, h11, h12, h13, h14⟩ := hi
  simp only [] at e1 e2 e3 e4 e5 e6 e7 e8 e10 e11 e12 e13 e14
  refine Inv.mk ?_ ?_ ?_ ?_ ?_ ?_ ?_ ?_ ?_ ?_ ?_ ?_ ?_ ?_ ?_
  all_goals simp only [e1, e2, e3, e4, e6, e7, e8, e10, e11, e12, e14, hb, how, hobs, hpc', hk, cur] at *
  · exact hv
  · exact hold_same h1 (by rw [c1, ((h1 t0).1 hh).2])
  · exact h2
  · exact rmo_same h3 r1
  · exact h4
  · exact h5
  · exact h6
  · exact h7
  · intro j hj1 hj2
    rw [upd_other _ _ _ _ (slot_ne h7 hj1 hj2)]; exact h8 j hj1 hj2
  · exact h9
  · exact wloc_holder s.obs s.k hh (by rw [upd_same]; exact hnew)
  · exact rloc_w h11 ht0
  · exact h12
  · exact h13
  · rw [liveSlot_false s h7, h14]; rfl

/-- the holder publishes its message: `write_cursor := (A+1) mod cap`, `accepted ++ [m]` -/
theorem Inv_publish {s s' : St} {t0 : Nat} {p' : Pc} (hi : Inv s)
    (hr : SameRing { s with wc := s'.wc, accepted := s'.accepted } s')
    (hwc : s'.wc = (s.accepted.length + 1) % s.cfg.cap)
    (hacc : s'.accepted = s.accepted ++ [⟨t0, s.k t0⟩])
    (hobs : s'.obs = s.obs) (hpc' : s'.pc = upd s.pc t0 p') (hk : s'.k = s.k)
    (ht0 : t0 < s.cfg.W) (hh : s.holder = some t0)
    (c1 : inCS p' = true) (r1 : inRM p' = inRM (s.pc t0))
    (hslot : s.blocks (s.accepted.length % s.cfg.cap) = some ⟨t0, s.k t0⟩)
    (hroom1 : s.accepted.length + 1 ≤ s.delivered.length + (s.cfg.cap - 2))
    (hroom2 : s.cfg.rm = .busy → s.accepted.length + 1 ≤ s.cachedObs + (s.cfg.cap - 2))
    (hnew : ∀ n A D o c rm sl m, WLoc n A D o c rm sl m p') : Inv s' := by
  obtain ⟨e1, e2, e3, e4, e5, e6, e7, e8, e10, e11, e12, e13, e14⟩ := hr
  obtain ⟨hv, h1, h2, h3, h4, h5, h6, h7, h8, h9, h10, h11, h12, h13, h14⟩ := hi
  simp only [] at e1 e2 e3 e4 e5 e6 e7 e8 e10 e11 e12 e13 e14
  refine Inv.mk ?valid ?hold ?lock0 ?rmo ?wc_eq ?rc_eq ?le1 ?le2 ?slots ?cachedOk ?wloc ?rloc ?fifo ?fullsOk ?ow
  all_goals simp only [e1, e3, e4, e5, e6, e7, e8, e11, e12, e13, e14, hwc, hacc, hobs, hpc', hk, cur,
    List.length_append, List.length_cons, List.length_nil] at *
  case valid => exact hv
  case hold => exact hold_same h1 (by rw [c1, ((h1 t0).1 hh).2])
  case lock0 => exact h2
  case rmo => exact rmo_same h3 r1
  case rc_eq => exact h5
  case le1 => omega
  case le2 => omega
  case slots =>
    intro j hj1 hj2
    rcases Nat.lt_or_ge j s.accepted.length with hlt | hge
    · rw [List.getElem?_append_left hlt]; exact h8 j hj1 hlt
    · have : j = s.accepted.length := by omega
      subst this
      rw [hslot]; simp
  case cachedOk =>
    intro hb
    have := h9 hb
    have := hroom2 hb
    omega
  case wloc => exact wloc_holder s.obs s.k hh (hnew _ _ _ _ _ _ _ _)
  case rloc => rw [upd_other _ _ _ _ (by omega)]; exact RLoc_publish h11
  case fifo => exact fifo_publish h6 h12
  case fullsOk => exact h13
  case ow => exact h14

/-- the busy-mode writer refreshes `cached_r_cur` -/
theorem Inv_cached {s s' : St} {t0 : Nat} {p' : Pc} (hi : Inv s)
    (hr : SameRing { s with cached := s'.cached, cachedObs := s'.cachedObs } s')
    (hobs : s'.obs = s.obs) (hpc' : s'.pc = upd s.pc t0 p') (hk : s'.k = s.k)
    (ht0 : t0 < s.cfg.W) (hh : s.holder = some t0)
    (c1 : inCS p' = true) (r1 : inRM p' = inRM (s.pc t0))
    (hc : s'.cached = (s'.cachedObs + (s.cfg.cap - 1)) % s.cfg.cap ∧ s'.cachedObs ≤ s.delivered.length ∧
      s.accepted.length ≤ s'.cachedObs + (s.cfg.cap - 2))
    (hnew : WLoc s.cfg.cap s.accepted.length s.delivered.length (s.obs t0) s'.cachedObs s.cfg.rm
      (s.blocks (s.accepted.length % s.cfg.cap)) ⟨t0, s.k t0⟩ p') : Inv s' := by
  obtain ⟨e1, e2, e3, e4, e5, e6, e7, e8, e10, e11, e12, e13, e14⟩ := hr
  obtain ⟨hv, h1, h2, h3, h4, h5, h6, h7, h8, h9, h10, h11, h12, h13, h14⟩ := hi
  simp only [] at e1 e2 e3 e4 e5 e6 e7 e8 e10 e11 e12 e13 e14
  refine Inv.mk ?_ ?_ ?_ ?_ ?_ ?_ ?_ ?_ ?_ ?_ ?_ ?_ ?_ ?_ ?_
  all_goals simp only [e1, e2, e3, e5, e6, e7, e8, e10, e11, e12, e13, hobs, hpc', hk, cur] at *
  · exact hv
  · exact hold_same h1 (by rw [c1, ((h1 t0).1 hh).2])
  · exact h2
  · exact rmo_same h3 r1
  · exact h4
  · exact h5
  · exact h6
  · exact h7
  · exact h8
  · intro _; exact hc
  · exact wloc_holder s.obs s.k hh hnew
  · exact rloc_w h11 ht0
  · exact h12
  · exact h13
  · exact h14

/-- a writer (holder of the write lock) takes / releases `read_mutex` -/
theorem Inv_rm {s s' : St} {t0 : Nat} {p' : Pc} (hi : Inv s)
    (hr : SameRing { s with rmtx := s'.rmtx } s')
    (hobs : s'.obs = s.obs) (hpc' : s'.pc = upd s.pc t0 p') (hk : s'.k = s.k)
    (ht0 : t0 < s.cfg.W) (hh : s.holder = some t0) (c1 : inCS p' = true)
    (hrm : (s.rmtx = none ∧ s'.rmtx = some t0 ∧ inRM p' = true) ∨
           (s.rmtx = some t0 ∧ s'.rmtx = none ∧ inRM p' = false))
    (hnew : WLoc s.cfg.cap s.accepted.length s.delivered.length (s.obs t0) s.cachedObs s.cfg.rm
      (s.blocks (s.accepted.length % s.cfg.cap)) ⟨t0, s.k t0⟩ p') : Inv s' := by
  obtain ⟨e1, e2, e3, e4, e5, e6, e7, e8, e10, e11, e12, e13, e14⟩ := hr
  obtain ⟨hv, h1, h2, h3, h4, h5, h6, h7, h8, h9, h10, h11, h12, h13, h14⟩ := hi
  simp only [] at e1 e2 e3 e4 e5 e6 e7 e8 e10 e11 e12 e13 e14
  refine Inv.mk ?_ ?_ ?_ ?_ ?_ ?_ ?_ ?_ ?_ ?_ ?_ ?_ ?_ ?_ ?_
  all_goals simp only [e1, e2, e3, e4, e5, e6, e7, e10, e11, e12, e13, e14, hobs, hpc', hk, cur] at *
  · exact hv
  · exact hold_same h1 (by rw [c1, ((h1 t0).1 hh).2])
  · exact h2
  · rcases hrm with ⟨a, b, c⟩ | ⟨a, b, c⟩
    · rw [b]; exact rmo_acquire h3 a (by omega) c
    · rw [b]; exact rmo_release h3 a c
  · exact h4
  · exact h5
  · exact h6
  · exact h7
  · exact h8
  · exact h9
  · exact wloc_holder s.obs s.k hh hnew
  · exact rloc_w h11 ht0
  · exact h12
  · exact h13
  · exact h14

/-! ### steps outside the critical section -/

theorem w_wSpinYield (hpc : s.pc tok.tid = .wSpinYield) (ht : tok.tid < s.cfg.W)
    (hi : Inv s) (h : wstep s tok.tid = some (s', ev)) : Inv s' := by
  open_step; obtain ⟨rfl, -⟩ := h
  exact Inv_move_out hi (by same_ring) rfl rfl (fun _ _ => rfl) ht (by simp [hpc, inCS]) rfl (by simp [hpc, inRM]) rfl

theorem w_wWoken (hpc : s.pc tok.tid = .wWoken) (ht : tok.tid < s.cfg.W)
    (hi : Inv s) (h : wstep s tok.tid = some (s', ev)) : Inv s' := by
  open_step; obtain ⟨rfl, -⟩ := h
  exact Inv_move_out hi (by same_ring) rfl rfl (fun _ _ => rfl) ht (by simp [hpc, inCS]) rfl (by simp [hpc, inRM]) rfl

theorem w_wFwait (e : Nat) (hpc : s.pc tok.tid = .wFwait e) (ht : tok.tid < s.cfg.W)
    (hi : Inv s) (h : wstep s tok.tid = some (s', ev)) : Inv s' := by
  open_step
  split at h <;> (simp only [Option.some.injEq, Prod.mk.injEq] at h; obtain ⟨rfl, -⟩ := h)
  · exact Inv_move_out hi (by same_ring) rfl rfl (fun _ _ => rfl) ht (by simp [hpc, inCS]) rfl (by simp [hpc, inRM]) rfl
  · exact Inv_move_out hi (by same_ring) rfl rfl (fun _ _ => rfl) ht (by simp [hpc, inCS]) rfl (by simp [hpc, inRM]) rfl

/-! ### `muggle_channel_write_sync` -/

theorem w_sLdR (hpc : s.pc tok.tid = .sLdR) (ht : tok.tid < s.cfg.W)
    (hi : Inv s) (h : wstep s tok.tid = some (s', ev)) : Inv s' := by
  holder_facts; open_step; obtain ⟨rfl, -⟩ := h
  exact Inv_move_in hi (by same_ring) rfl rfl ht hh rfl (by simp [hpc, inRM])
    (by simp only [WLoc, upd_same]; exact ⟨hw, hi.rc_eq, Nat.le_refl _, hi.le2⟩)

theorem w_cRdW2 (wpos : Nat) (hpc : s.pc tok.tid = .cRdW2 wpos) (ht : tok.tid < s.cfg.W)
    (hi : Inv s) (h : wstep s tok.tid = some (s', ev)) : Inv s' := by
  holder_facts; open_step; obtain ⟨rfl, -⟩ := h
  exact Inv_move_in hi (by same_ring) rfl rfl ht hh rfl (by simp [hpc, inRM])
    (by simp only [WLoc, Room]; exact ⟨hw.1, hi.wc_eq, hw.2⟩)


theorem w_wYield (hpc : s.pc tok.tid = .wYield) (ht : tok.tid < s.cfg.W)
    (hi : Inv s) (h : wstep s tok.tid = some (s', ev)) : Inv s' := by
  open_step; obtain ⟨rfl, -⟩ := h
  exact Inv_enterCall hi ht (by simp [hpc, inCS]) (by simp [hpc, inRM])

theorem w_wPay (hpc : s.pc tok.tid = .wPay) (ht : tok.tid < s.cfg.W)
    (hi : Inv s) (h : wstep s tok.tid = some (s', ev)) : Inv s' := by
  open_step; obtain ⟨rfl, -⟩ := h
  exact Inv_enterCall (Inv_congr hi (by same_ring) rfl rfl rfl) ht (by simp [hpc, inCS]) (by simp [hpc, inRM])

theorem w_wLock (hpc : s.pc tok.tid = .wLock) (ht : tok.tid < s.cfg.W) (hen : s.enabled tok = true)
    (hi : Inv s) (h : wstep s tok.tid = some (s', ev)) : Inv s' := by
  open_step
  cases hwl : s.cfg.wl <;> simp only [hwl] at h
  case single => cases h
  case spin =>
    split at h <;> (simp only [Option.some.injEq, Prod.mk.injEq] at h; obtain ⟨rfl, -⟩ := h)
    next h0 =>
      exact Inv_acquire hi (by same_ring) rfl rfl rfl ht (hi.lock0 (Or.inl hwl) h0) (by simp [hpc, inRM])
        (fun _ => by simp [acquired])
    next => exact Inv_move_out hi (by same_ring) rfl rfl (fun _ _ => rfl) ht (by simp [hpc, inCS]) rfl (by simp [hpc, inRM]) rfl
  case sync =>
    split at h <;> (simp only [Option.some.injEq, Prod.mk.injEq] at h; obtain ⟨rfl, -⟩ := h)
    next h0 =>
      exact Inv_acquire hi (by same_ring) rfl rfl rfl ht (hi.lock0 (Or.inr hwl) h0) (by simp [hpc, inRM])
        (fun _ => by simp [acquired])
    next => exact Inv_move_out hi (by same_ring) rfl rfl (fun _ _ => rfl) ht (by simp [hpc, inCS]) rfl (by simp [hpc, inRM]) rfl
  case mutex =>
    simp only [Option.some.injEq, Prod.mk.injEq] at h; obtain ⟨rfl, -⟩ := h
    have hn : s.holder = none := by
      simp only [St.enabled, hpc, hwl, Bool.and_eq_true, Option.isNone_iff_eq_none] at hen
      exact hen.2.1
    exact Inv_acquire hi (by same_ring) rfl rfl rfl ht hn (by simp [hpc, inRM])
      (fun hx => by rw [hwl] at hx; rcases hx with hx | hx <;> cases hx)

theorem w_sRdW (rpos : Nat) (hpc : s.pc tok.tid = .sRdW rpos) (ht : tok.tid < s.cfg.W)
    (hi : Inv s) (h : wstep s tok.tid = some (s', ev)) : Inv s' := by
  holder_facts; open_step
  obtain ⟨hm, hr, ho, ha⟩ := hw
  have hwp : ring (s.wc + 1) s.cfg.cap = (s.accepted.length + 1) % s.cfg.cap := by
    rw [ring_cap, hi.wc_eq, mod_succ]
  have hfull := full_iff (cap_pos s.cfg) (Nat.le_trans ho hi.le1) ha
  rw [hwp] at h
  split at h
  next heq =>
    simp only [Option.some.injEq, Prod.mk.injEq] at h; obtain ⟨rfl, -⟩ := h
    have hA : s.accepted.length = s.obs tok.tid + (s.cfg.cap - 2) := hfull.1 (by rw [heq, hr])
    refine Inv_via_unlock .full ht ?_
    exact Inv_move_in (Inv_fulls hi _ (by omega)) (by same_ring) rfl rfl ht hh rfl (by simp [hpc, inRM]) (by simp [WLoc])
  next hne =>
    simp only [Option.some.injEq, Prod.mk.injEq] at h; obtain ⟨rfl, -⟩ := h
    have hA : ¬ s.accepted.length = s.obs tok.tid + (s.cfg.cap - 2) := fun e => hne (by rw [hr]; exact hfull.2 e)
    exact Inv_move_in hi (by same_ring) rfl rfl ht hh rfl (by simp [hpc, inRM]) (by
      simp only [WLoc, Room]
      refine ⟨trivial, by omega, ?_, by rw [hm]; simp⟩
      intro hb; rw [hm] at hb; cases hb)


theorem w_cWrB (wpos idx : Nat) (hpc : s.pc tok.tid = .cWrB wpos idx) (ht : tok.tid < s.cfg.W)
    (hi : Inv s) (h : wstep s tok.tid = some (s', ev)) : Inv s' := by
  holder_facts; open_step; obtain ⟨rfl, -⟩ := h
  obtain ⟨hw1, hw2, hw3⟩ := hw
  subst hw2
  exact Inv_store hi (by same_ring) rfl rfl rfl rfl rfl ht hh rfl (by simp [hpc, inRM])
    (by simp only [WLoc, Room]; exact ⟨hw1, trivial, hw3⟩)

theorem w_cSt (wpos : Nat) (hpc : s.pc tok.tid = .cSt wpos) (ht : tok.tid < s.cfg.W)
    (hi : Inv s) (h : wstep s tok.tid = some (s', ev)) : Inv s' := by
  holder_facts; open_step; obtain ⟨rfl, -⟩ := h
  obtain ⟨hw1, hw2, hw3, hw4, -⟩ := hw
  refine Inv_via_unlock .ok ht ?_
  exact Inv_publish hi (by same_ring) hw1 rfl rfl rfl rfl ht hh rfl (by simp [hpc, inRM]) hw2 hw3 hw4
    (by intros; simp [WLoc])

/-! ### `muggle_channel_write_busy` -/

theorem w_bRdW (hpc : s.pc tok.tid = .bRdW) (ht : tok.tid < s.cfg.W)
    (hi : Inv s) (h : wstep s tok.tid = some (s', ev)) : Inv s' := by
  holder_facts; open_step; obtain ⟨rfl, -⟩ := h
  exact Inv_move_in hi (by same_ring) rfl rfl ht hh rfl (by simp [hpc, inRM])
    (by simp only [WLoc]; exact ⟨hw, by rw [ring_cap, hi.wc_eq, mod_succ]⟩)

theorem w_bRdC (wpos : Nat) (hpc : s.pc tok.tid = .bRdC wpos) (ht : tok.tid < s.cfg.W)
    (hi : Inv s) (h : wstep s tok.tid = some (s', ev)) : Inv s' := by
  holder_facts; open_step
  obtain ⟨hm, hwp⟩ := hw
  obtain ⟨hc1, hc2, hc3⟩ := hi.cachedOk hm
  have hfull := full_iff (cap_pos s.cfg) (Nat.le_trans hc2 hi.le1) hc3
  split at h <;> (simp only [Option.some.injEq, Prod.mk.injEq] at h; obtain ⟨rfl, -⟩ := h)
  next hne =>
    have hA : ¬ s.accepted.length = s.cachedObs + (s.cfg.cap - 2) :=
      fun e => hne (by rw [hwp, hc1]; exact hfull.2 e)
    exact Inv_move_in hi (by same_ring) rfl rfl ht hh rfl (by simp [hpc, inRM])
      (by simp only [WLoc, Room]; exact ⟨hwp, by omega, fun _ => by omega, by rw [hm]; simp⟩)
  next =>
    exact Inv_move_in hi (by same_ring) rfl rfl ht hh rfl (by simp [hpc, inRM])
      (by simp only [WLoc]; exact ⟨hm, hwp⟩)

theorem w_bLdR (wpos : Nat) (hpc : s.pc tok.tid = .bLdR wpos) (ht : tok.tid < s.cfg.W)
    (hi : Inv s) (h : wstep s tok.tid = some (s', ev)) : Inv s' := by
  holder_facts; open_step; obtain ⟨rfl, -⟩ := h
  exact Inv_move_in hi (by same_ring) rfl rfl ht hh rfl (by simp [hpc, inRM])
    (by simp only [WLoc, upd_same]; exact ⟨hw.1, hw.2, hi.rc_eq, Nat.le_refl _, hi.le2⟩)

theorem w_bWrC (wpos v : Nat) (hpc : s.pc tok.tid = .bWrC wpos v) (ht : tok.tid < s.cfg.W)
    (hi : Inv s) (h : wstep s tok.tid = some (s', ev)) : Inv s' := by
  holder_facts; open_step; obtain ⟨rfl, -⟩ := h
  obtain ⟨hm, hwp, hv, ho, ha⟩ := hw
  exact Inv_cached hi (by same_ring) rfl rfl rfl ht hh rfl (by simp [hpc, inRM]) ⟨hv, ho, ha⟩
    (by simp only [WLoc]; exact ⟨hm, hwp⟩)

theorem w_bRdC2 (wpos : Nat) (hpc : s.pc tok.tid = .bRdC2 wpos) (ht : tok.tid < s.cfg.W)
    (hi : Inv s) (h : wstep s tok.tid = some (s', ev)) : Inv s' := by
  holder_facts; open_step
  obtain ⟨hm, hwp⟩ := hw
  obtain ⟨hc1, hc2, hc3⟩ := hi.cachedOk hm
  have hfull := full_iff (cap_pos s.cfg) (Nat.le_trans hc2 hi.le1) hc3
  split at h <;> (simp only [Option.some.injEq, Prod.mk.injEq] at h; obtain ⟨rfl, -⟩ := h)
  next hne =>
    have hA : ¬ s.accepted.length = s.cachedObs + (s.cfg.cap - 2) :=
      fun e => hne (by rw [hwp, hc1]; exact hfull.2 e)
    exact Inv_move_in hi (by same_ring) rfl rfl ht hh rfl (by simp [hpc, inRM])
      (by simp only [WLoc, Room]; exact ⟨hwp, by omega, fun _ => by omega, by rw [hm]; simp⟩)
  next heq =>
    have heq' : wpos = s.cached := Classical.not_not.1 heq
    have hA : s.accepted.length = s.cachedObs + (s.cfg.cap - 2) := hfull.1 (by rw [← hwp, heq', hc1])
    refine Inv_via_unlock .full ht ?_
    exact Inv_move_in (Inv_fulls hi _ (by omega)) (by same_ring) rfl rfl ht hh rfl (by simp [hpc, inRM]) (by simp [WLoc])

/-! ### `muggle_channel_write_mutex` -/

theorem w_mLock (hpc : s.pc tok.tid = .mLock) (ht : tok.tid < s.cfg.W) (hen : s.enabled tok = true)
    (hi : Inv s) (h : wstep s tok.tid = some (s', ev)) : Inv s' := by
  holder_facts; open_step; obtain ⟨rfl, -⟩ := h
  have hn : s.rmtx = none := by
    simp only [St.enabled, hpc, Bool.and_eq_true, Option.isNone_iff_eq_none] at hen
    exact hen.2.1
  exact Inv_rm hi (by same_ring) rfl rfl rfl ht hh rfl (Or.inl ⟨hn, rfl, rfl⟩) (by simp only [WLoc]; exact hw)

theorem w_mRdW (hpc : s.pc tok.tid = .mRdW) (ht : tok.tid < s.cfg.W)
    (hi : Inv s) (h : wstep s tok.tid = some (s', ev)) : Inv s' := by
  holder_facts; open_step; obtain ⟨rfl, -⟩ := h
  exact Inv_move_in hi (by same_ring) rfl rfl ht hh rfl (by simp [hpc, inRM])
    (by simp only [WLoc]; exact ⟨hw, by rw [ring_cap, hi.wc_eq, mod_succ]⟩)

theorem w_mRdR (wpos : Nat) (hpc : s.pc tok.tid = .mRdR wpos) (ht : tok.tid < s.cfg.W)
    (hi : Inv s) (h : wstep s tok.tid = some (s', ev)) : Inv s' := by
  holder_facts; open_step
  obtain ⟨hm, hwp⟩ := hw
  have hfull := full_iff (cap_pos s.cfg) hi.le1 hi.le2
  split at h <;> (simp only [Option.some.injEq, Prod.mk.injEq] at h; obtain ⟨rfl, -⟩ := h)
  next heq =>
    have hA : s.accepted.length = s.delivered.length + (s.cfg.cap - 2) := hfull.1 (by rw [← hwp, heq, hi.rc_eq])
    exact Inv_move_in (Inv_fulls hi (s.accepted.length - s.delivered.length) (by omega)) (by same_ring) rfl rfl ht hh rfl
      (by simp [hpc, inRM]) (by simp [WLoc])
  next hne =>
    have hA : ¬ s.accepted.length = s.delivered.length + (s.cfg.cap - 2) :=
      fun e => hne (by rw [hwp, hi.rc_eq]; exact hfull.2 e)
    have := hi.le2
    exact Inv_move_in hi (by same_ring) rfl rfl ht hh rfl (by simp [hpc, inRM])
      (by simp only [WLoc]; exact ⟨hm, hwp, by omega⟩)

theorem w_mRdW2 (wpos : Nat) (hpc : s.pc tok.tid = .mRdW2 wpos) (ht : tok.tid < s.cfg.W)
    (hi : Inv s) (h : wstep s tok.tid = some (s', ev)) : Inv s' := by
  holder_facts; open_step; obtain ⟨rfl, -⟩ := h
  exact Inv_move_in hi (by same_ring) rfl rfl ht hh rfl (by simp [hpc, inRM])
    (by simp only [WLoc]; exact ⟨hw.1, hw.2.1, hi.wc_eq, hw.2.2⟩)

theorem w_mWrB (wpos idx : Nat) (hpc : s.pc tok.tid = .mWrB wpos idx) (ht : tok.tid < s.cfg.W)
    (hi : Inv s) (h : wstep s tok.tid = some (s', ev)) : Inv s' := by
  holder_facts; open_step; obtain ⟨rfl, -⟩ := h
  obtain ⟨hm, hw1, hw2, hw3⟩ := hw
  subst hw2
  exact Inv_store hi (by same_ring) rfl rfl rfl rfl rfl ht hh rfl (by simp [hpc, inRM])
    (by simp only [WLoc]; exact ⟨hm, hw1, trivial, hw3⟩)

theorem w_mWrW (wpos : Nat) (hpc : s.pc tok.tid = .mWrW wpos) (ht : tok.tid < s.cfg.W)
    (hi : Inv s) (h : wstep s tok.tid = some (s', ev)) : Inv s' := by
  holder_facts; open_step; obtain ⟨rfl, -⟩ := h
  obtain ⟨hm, hw1, hw2, hw3⟩ := hw
  exact Inv_publish hi (by same_ring) hw1 rfl rfl rfl rfl ht hh rfl (by simp [hpc, inRM]) hw2
    hw3 (fun hb => by rw [hm] at hb; cases hb) (by intros; simp [WLoc])

theorem w_mUnlock (r : Ret) (hpc : s.pc tok.tid = .mUnlock r) (ht : tok.tid < s.cfg.W)
    (hi : Inv s) (h : wstep s tok.tid = some (s', ev)) : Inv s' := by
  holder_facts; open_step; obtain ⟨rfl, -⟩ := h
  have hr : s.rmtx = some tok.tid := (hi.rmo tok.tid).2 ⟨Nat.le_of_lt ht, by simp [hpc, inRM]⟩
  refine Inv_via_unlock r ht ?_
  exact Inv_rm hi (by same_ring) rfl rfl rfl ht hh rfl (Or.inr ⟨hr, rfl, rfl⟩) (by simp [WLoc])

/-! ### `fn_unlock`, `fn_wake` -/

theorem w_wUnlock (r : Ret) (hpc : s.pc tok.tid = .wUnlock r) (ht : tok.tid < s.cfg.W)
    (hi : Inv s) (h : wstep s tok.tid = some (s', ev)) : Inv s' := by
  have hh := (hi.hold tok.tid).2 ⟨ht, by simp [hpc, inCS]⟩
  open_step
  cases hwl : s.cfg.wl <;> simp only [hwl] at h
  case single => cases h
  case sync =>
    simp only [Option.some.injEq, Prod.mk.injEq] at h; obtain ⟨rfl, -⟩ := h
    exact Inv_release hi (by same_ring) rfl rfl rfl ht hh rfl (by simp [hpc, inRM]) rfl
  case spin =>
    simp only [Option.some.injEq, Prod.mk.injEq] at h; obtain ⟨rfl, -⟩ := h
    rw [← afterUnlock_upd _ tok.tid .wYield r]
    exact Inv_afterUnlock r
      (Inv_release (p' := .wYield) hi (by same_ring) rfl rfl rfl ht hh rfl (by simp [hpc, inRM]) rfl)
      ht (by simp [inCS]) (by simp [inRM])
  case mutex =>
    simp only [Option.some.injEq, Prod.mk.injEq] at h; obtain ⟨rfl, -⟩ := h
    rw [← afterUnlock_upd _ tok.tid .wYield r]
    exact Inv_afterUnlock r
      (Inv_release (p' := .wYield) hi (by same_ring) rfl rfl rfl ht hh rfl (by simp [hpc, inRM]) rfl)
      ht (by simp [inCS]) (by simp [inRM])

theorem w_wUnlockWake (r : Ret) (hpc : s.pc tok.tid = .wUnlockWake r) (ht : tok.tid < s.cfg.W)
    (hi : Inv s) (h : wstep s tok.tid = some (s', ev)) : Inv s' := by
  open_step
  split at h <;> (simp only [Option.some.injEq, Prod.mk.injEq] at h; obtain ⟨rfl, -⟩ := h)
  next w hw =>
    have hb := firstBlocked_spec _ _ _ _ hw
    have hlt := firstBlocked_lt _ _ _ _ hw
    have hne : tok.tid ≠ w := by intro e; rw [e, hb] at hpc; cases hpc
    have hi1 : Inv { s with pc := upd s.pc w .wWoken } :=
      Inv_move_out hi (by same_ring) rfl rfl (fun _ _ => rfl) (by omega) (by simp [hb, inCS]) rfl (by simp [hb, inRM]) rfl
    exact Inv_afterUnlock r hi1 ht (by simp [upd_other _ _ _ _ hne, hpc, inCS]) (by simp [upd_other _ _ _ _ hne, hpc, inRM])
  next => exact Inv_afterUnlock r hi ht (by simp [hpc, inCS]) (by simp [hpc, inRM])

theorem w_wWake (hpc : s.pc tok.tid = .wWake) (ht : tok.tid < s.cfg.W)
    (hi : Inv s) (h : wstep s tok.tid = some (s', ev)) : Inv s' := by
  open_step
  have hne : tok.tid ≠ s.cfg.W := Nat.ne_of_lt ht
  cases hrm : s.cfg.rm <;> simp only [hrm, Cfg.reader] at h
  case busy => cases h
  case sync =>
    split at h <;> (simp only [Option.some.injEq, Prod.mk.injEq] at h; obtain ⟨rfl, -⟩ := h)
    next rpos hr =>
      have h11 := hi.rloc
      rw [hr] at h11; simp only [RLoc] at h11
      have hi1 : Inv { s with pc := upd s.pc s.cfg.W (.rWoken rpos) } :=
        Inv_move_reader hi (by same_ring) rfl rfl (fun _ _ => rfl) (by simp [hr, inRM]) (by simp only [RLoc]; exact h11)
      exact Inv_finishCall .ok hi1 ht (by simp [upd_other _ _ _ _ hne, hpc, inCS]) (by simp [upd_other _ _ _ _ hne, hpc, inRM])
    next => exact Inv_finishCall .ok hi ht (by simp [hpc, inCS]) (by simp [hpc, inRM])
  case mutex =>
    split at h <;> (simp only [Option.some.injEq, Prod.mk.injEq] at h; obtain ⟨rfl, -⟩ := h)
    next hr =>
      have hi1 : Inv { s with pc := upd s.pc s.cfg.W .rmCvSignaled } :=
        Inv_move_reader hi (by same_ring) rfl rfl (fun _ _ => rfl) (by simp [hr, inRM]) (by simp [RLoc])
      exact Inv_finishCall .ok hi1 ht (by simp [upd_other _ _ _ _ hne, hpc, inCS]) (by simp [upd_other _ _ _ _ hne, hpc, inRM])
    next => exact Inv_finishCall .ok hi ht (by simp [hpc, inCS]) (by simp [hpc, inRM])


/-- every writer step preserves the invariant -/
theorem wstep_inv (ht : tok.tid < s.cfg.W) (hen : s.enabled tok = true)
    (hi : Inv s) (h : wstep s tok.tid = some (s', ev)) : Inv s' := by
  cases hpc : s.pc tok.tid with
  | wPay => exact w_wPay hpc ht hi h
  | wLock => exact w_wLock hpc ht hen hi h
  | wSpinYield => exact w_wSpinYield hpc ht hi h
  | wFwait e => exact w_wFwait e hpc ht hi h
  | wWoken => exact w_wWoken hpc ht hi h
  | sLdR => exact w_sLdR hpc ht hi h
  | sRdW rpos => exact w_sRdW rpos hpc ht hi h
  | cRdW2 wpos => exact w_cRdW2 wpos hpc ht hi h
  | cWrB wpos idx => exact w_cWrB wpos idx hpc ht hi h
  | cSt wpos => exact w_cSt wpos hpc ht hi h
  | bRdW => exact w_bRdW hpc ht hi h
  | bRdC wpos => exact w_bRdC wpos hpc ht hi h
  | bLdR wpos => exact w_bLdR wpos hpc ht hi h
  | bWrC wpos v => exact w_bWrC wpos v hpc ht hi h
  | bRdC2 wpos => exact w_bRdC2 wpos hpc ht hi h
  | mLock => exact w_mLock hpc ht hen hi h
  | mRdW => exact w_mRdW hpc ht hi h
  | mRdR wpos => exact w_mRdR wpos hpc ht hi h
  | mRdW2 wpos => exact w_mRdW2 wpos hpc ht hi h
  | mWrB wpos idx => exact w_mWrB wpos idx hpc ht hi h
  | mWrW wpos => exact w_mWrW wpos hpc ht hi h
  | mUnlock r => exact w_mUnlock r hpc ht hi h
  | wUnlock r => exact w_wUnlock r hpc ht hi h
  | wUnlockWake r => exact w_wUnlockWake r hpc ht hi h
  | wWake => exact w_wWake hpc ht hi h
  | wYield => exact w_wYield hpc ht hi h
  | _ => simp [wstep, hpc] at h

end MgProof.C01
