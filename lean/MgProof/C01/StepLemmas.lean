import MgProof.C01.Lemmas
/-!
# C01 — channel: projection lemmas for the helper functions of the step model

`enterCall`, `leaveFn`, `afterUnlock`, `finishCall`, `readReturned` only touch the program
counter of the acting thread, its message index / attempt counter, the note counters and (for
`WRITE_SINGLE`) the ghost lock owner. These lemmas let the per-pc preservation proofs treat
them as opaque.
-/
namespace MgProof.C01
open MgModel.Conc MgModel.C01

@[simp] theorem finishCall_cfg (s : St) (t : Nat) (r : Ret) : (finishCall s t r).1.cfg = s.cfg := by
  unfold finishCall; cases r <;> simp only <;> (try split) <;> rfl

@[simp] theorem finishCall_wc (s : St) (t : Nat) (r : Ret) : (finishCall s t r).1.wc = s.wc := by
  unfold finishCall; cases r <;> simp only <;> (try split) <;> rfl

@[simp] theorem finishCall_rc (s : St) (t : Nat) (r : Ret) : (finishCall s t r).1.rc = s.rc := by
  unfold finishCall; cases r <;> simp only <;> (try split) <;> rfl

@[simp] theorem finishCall_cached (s : St) (t : Nat) (r : Ret) : (finishCall s t r).1.cached = s.cached := by
  unfold finishCall; cases r <;> simp only <;> (try split) <;> rfl

@[simp] theorem finishCall_blocks (s : St) (t : Nat) (r : Ret) : (finishCall s t r).1.blocks = s.blocks := by
  unfold finishCall; cases r <;> simp only <;> (try split) <;> rfl

@[simp] theorem finishCall_wlock (s : St) (t : Nat) (r : Ret) : (finishCall s t r).1.wlock = s.wlock := by
  unfold finishCall; cases r <;> simp only <;> (try split) <;> rfl

@[simp] theorem finishCall_rmtx (s : St) (t : Nat) (r : Ret) : (finishCall s t r).1.rmtx = s.rmtx := by
  unfold finishCall; cases r <;> simp only <;> (try split) <;> rfl

@[simp] theorem finishCall_accepted (s : St) (t : Nat) (r : Ret) : (finishCall s t r).1.accepted = s.accepted := by
  unfold finishCall; cases r <;> simp only <;> (try split) <;> rfl

@[simp] theorem finishCall_delivered (s : St) (t : Nat) (r : Ret) : (finishCall s t r).1.delivered = s.delivered := by
  unfold finishCall; cases r <;> simp only <;> (try split) <;> rfl

@[simp] theorem finishCall_fulls (s : St) (t : Nat) (r : Ret) : (finishCall s t r).1.fulls = s.fulls := by
  unfold finishCall; cases r <;> simp only <;> (try split) <;> rfl

@[simp] theorem finishCall_overwrites (s : St) (t : Nat) (r : Ret) : (finishCall s t r).1.overwrites = s.overwrites := by
  unfold finishCall; cases r <;> simp only <;> (try split) <;> rfl

@[simp] theorem finishCall_obs (s : St) (t : Nat) (r : Ret) : (finishCall s t r).1.obs = s.obs := by
  unfold finishCall; cases r <;> simp only <;> (try split) <;> rfl

@[simp] theorem finishCall_cachedObs (s : St) (t : Nat) (r : Ret) : (finishCall s t r).1.cachedObs = s.cachedObs := by
  unfold finishCall; cases r <;> simp only <;> (try split) <;> rfl

@[simp] theorem finishCall_know (s : St) (t : Nat) (r : Ret) : (finishCall s t r).1.know = s.know := by
  unfold finishCall; cases r <;> simp only <;> (try split) <;> rfl

@[simp] theorem finishCall_relWC (s : St) (t : Nat) (r : Ret) : (finishCall s t r).1.relWC = s.relWC := by
  unfold finishCall; cases r <;> simp only <;> (try split) <;> rfl

@[simp] theorem finishCall_relWL (s : St) (t : Nat) (r : Ret) : (finishCall s t r).1.relWL = s.relWL := by
  unfold finishCall; cases r <;> simp only <;> (try split) <;> rfl

@[simp] theorem finishCall_relRM (s : St) (t : Nat) (r : Ret) : (finishCall s t r).1.relRM = s.relRM := by
  unfold finishCall; cases r <;> simp only <;> (try split) <;> rfl

@[simp] theorem finishCall_hbViol (s : St) (t : Nat) (r : Ret) : (finishCall s t r).1.hbViol = s.hbViol := by
  unfold finishCall; cases r <;> simp only <;> (try split) <;> rfl

@[simp] theorem finishCall_holder (s : St) (t : Nat) (r : Ret) : (finishCall s t r).1.holder = s.holder := by
  unfold finishCall; cases r <;> simp only <;> (try split) <;> rfl

@[simp] theorem afterUnlock_cfg (s : St) (t : Nat) (r : Ret) : (afterUnlock s t r).1.cfg = s.cfg := by
  unfold afterUnlock; cases r <;> cases s.cfg.rm <;> simp only [finishCall_cfg]

@[simp] theorem afterUnlock_wc (s : St) (t : Nat) (r : Ret) : (afterUnlock s t r).1.wc = s.wc := by
  unfold afterUnlock; cases r <;> cases s.cfg.rm <;> simp only [finishCall_wc]

@[simp] theorem afterUnlock_rc (s : St) (t : Nat) (r : Ret) : (afterUnlock s t r).1.rc = s.rc := by
  unfold afterUnlock; cases r <;> cases s.cfg.rm <;> simp only [finishCall_rc]

@[simp] theorem afterUnlock_cached (s : St) (t : Nat) (r : Ret) : (afterUnlock s t r).1.cached = s.cached := by
  unfold afterUnlock; cases r <;> cases s.cfg.rm <;> simp only [finishCall_cached]

@[simp] theorem afterUnlock_blocks (s : St) (t : Nat) (r : Ret) : (afterUnlock s t r).1.blocks = s.blocks := by
  unfold afterUnlock; cases r <;> cases s.cfg.rm <;> simp only [finishCall_blocks]

@[simp] theorem afterUnlock_wlock (s : St) (t : Nat) (r : Ret) : (afterUnlock s t r).1.wlock = s.wlock := by
  unfold afterUnlock; cases r <;> cases s.cfg.rm <;> simp only [finishCall_wlock]

@[simp] theorem afterUnlock_rmtx (s : St) (t : Nat) (r : Ret) : (afterUnlock s t r).1.rmtx = s.rmtx := by
  unfold afterUnlock; cases r <;> cases s.cfg.rm <;> simp only [finishCall_rmtx]

@[simp] theorem afterUnlock_accepted (s : St) (t : Nat) (r : Ret) : (afterUnlock s t r).1.accepted = s.accepted := by
  unfold afterUnlock; cases r <;> cases s.cfg.rm <;> simp only [finishCall_accepted]

@[simp] theorem afterUnlock_delivered (s : St) (t : Nat) (r : Ret) : (afterUnlock s t r).1.delivered = s.delivered := by
  unfold afterUnlock; cases r <;> cases s.cfg.rm <;> simp only [finishCall_delivered]

@[simp] theorem afterUnlock_fulls (s : St) (t : Nat) (r : Ret) : (afterUnlock s t r).1.fulls = s.fulls := by
  unfold afterUnlock; cases r <;> cases s.cfg.rm <;> simp only [finishCall_fulls]

@[simp] theorem afterUnlock_overwrites (s : St) (t : Nat) (r : Ret) : (afterUnlock s t r).1.overwrites = s.overwrites := by
  unfold afterUnlock; cases r <;> cases s.cfg.rm <;> simp only [finishCall_overwrites]

@[simp] theorem afterUnlock_obs (s : St) (t : Nat) (r : Ret) : (afterUnlock s t r).1.obs = s.obs := by
  unfold afterUnlock; cases r <;> cases s.cfg.rm <;> simp only [finishCall_obs]

@[simp] theorem afterUnlock_cachedObs (s : St) (t : Nat) (r : Ret) : (afterUnlock s t r).1.cachedObs = s.cachedObs := by
  unfold afterUnlock; cases r <;> cases s.cfg.rm <;> simp only [finishCall_cachedObs]

@[simp] theorem afterUnlock_know (s : St) (t : Nat) (r : Ret) : (afterUnlock s t r).1.know = s.know := by
  unfold afterUnlock; cases r <;> cases s.cfg.rm <;> simp only [finishCall_know]

@[simp] theorem afterUnlock_relWC (s : St) (t : Nat) (r : Ret) : (afterUnlock s t r).1.relWC = s.relWC := by
  unfold afterUnlock; cases r <;> cases s.cfg.rm <;> simp only [finishCall_relWC]

@[simp] theorem afterUnlock_relWL (s : St) (t : Nat) (r : Ret) : (afterUnlock s t r).1.relWL = s.relWL := by
  unfold afterUnlock; cases r <;> cases s.cfg.rm <;> simp only [finishCall_relWL]

@[simp] theorem afterUnlock_relRM (s : St) (t : Nat) (r : Ret) : (afterUnlock s t r).1.relRM = s.relRM := by
  unfold afterUnlock; cases r <;> cases s.cfg.rm <;> simp only [finishCall_relRM]

@[simp] theorem afterUnlock_hbViol (s : St) (t : Nat) (r : Ret) : (afterUnlock s t r).1.hbViol = s.hbViol := by
  unfold afterUnlock; cases r <;> cases s.cfg.rm <;> simp only [finishCall_hbViol]

@[simp] theorem afterUnlock_holder (s : St) (t : Nat) (r : Ret) : (afterUnlock s t r).1.holder = s.holder := by
  unfold afterUnlock; cases r <;> cases s.cfg.rm <;> simp only [finishCall_holder]

@[simp] theorem leaveFn_cfg (s : St) (t : Nat) (r : Ret) : (leaveFn s t r).1.cfg = s.cfg := by
  unfold leaveFn; cases s.cfg.wl <;> simp only [afterUnlock_cfg]

@[simp] theorem leaveFn_wc (s : St) (t : Nat) (r : Ret) : (leaveFn s t r).1.wc = s.wc := by
  unfold leaveFn; cases s.cfg.wl <;> simp only [afterUnlock_wc]

@[simp] theorem leaveFn_rc (s : St) (t : Nat) (r : Ret) : (leaveFn s t r).1.rc = s.rc := by
  unfold leaveFn; cases s.cfg.wl <;> simp only [afterUnlock_rc]

@[simp] theorem leaveFn_cached (s : St) (t : Nat) (r : Ret) : (leaveFn s t r).1.cached = s.cached := by
  unfold leaveFn; cases s.cfg.wl <;> simp only [afterUnlock_cached]

@[simp] theorem leaveFn_blocks (s : St) (t : Nat) (r : Ret) : (leaveFn s t r).1.blocks = s.blocks := by
  unfold leaveFn; cases s.cfg.wl <;> simp only [afterUnlock_blocks]

@[simp] theorem leaveFn_wlock (s : St) (t : Nat) (r : Ret) : (leaveFn s t r).1.wlock = s.wlock := by
  unfold leaveFn; cases s.cfg.wl <;> simp only [afterUnlock_wlock]

@[simp] theorem leaveFn_rmtx (s : St) (t : Nat) (r : Ret) : (leaveFn s t r).1.rmtx = s.rmtx := by
  unfold leaveFn; cases s.cfg.wl <;> simp only [afterUnlock_rmtx]

@[simp] theorem leaveFn_accepted (s : St) (t : Nat) (r : Ret) : (leaveFn s t r).1.accepted = s.accepted := by
  unfold leaveFn; cases s.cfg.wl <;> simp only [afterUnlock_accepted]

@[simp] theorem leaveFn_delivered (s : St) (t : Nat) (r : Ret) : (leaveFn s t r).1.delivered = s.delivered := by
  unfold leaveFn; cases s.cfg.wl <;> simp only [afterUnlock_delivered]

@[simp] theorem leaveFn_fulls (s : St) (t : Nat) (r : Ret) : (leaveFn s t r).1.fulls = s.fulls := by
  unfold leaveFn; cases s.cfg.wl <;> simp only [afterUnlock_fulls]

@[simp] theorem leaveFn_overwrites (s : St) (t : Nat) (r : Ret) : (leaveFn s t r).1.overwrites = s.overwrites := by
  unfold leaveFn; cases s.cfg.wl <;> simp only [afterUnlock_overwrites]

@[simp] theorem leaveFn_obs (s : St) (t : Nat) (r : Ret) : (leaveFn s t r).1.obs = s.obs := by
  unfold leaveFn; cases s.cfg.wl <;> simp only [afterUnlock_obs]

@[simp] theorem leaveFn_cachedObs (s : St) (t : Nat) (r : Ret) : (leaveFn s t r).1.cachedObs = s.cachedObs := by
  unfold leaveFn; cases s.cfg.wl <;> simp only [afterUnlock_cachedObs]

@[simp] theorem leaveFn_know (s : St) (t : Nat) (r : Ret) : (leaveFn s t r).1.know = s.know := by
  unfold leaveFn; cases s.cfg.wl <;> simp only [afterUnlock_know]

@[simp] theorem leaveFn_relWC (s : St) (t : Nat) (r : Ret) : (leaveFn s t r).1.relWC = s.relWC := by
  unfold leaveFn; cases s.cfg.wl <;> simp only [afterUnlock_relWC]

@[simp] theorem leaveFn_relWL (s : St) (t : Nat) (r : Ret) : (leaveFn s t r).1.relWL = s.relWL := by
  unfold leaveFn; cases s.cfg.wl <;> simp only [afterUnlock_relWL]

@[simp] theorem leaveFn_relRM (s : St) (t : Nat) (r : Ret) : (leaveFn s t r).1.relRM = s.relRM := by
  unfold leaveFn; cases s.cfg.wl <;> simp only [afterUnlock_relRM]

@[simp] theorem leaveFn_hbViol (s : St) (t : Nat) (r : Ret) : (leaveFn s t r).1.hbViol = s.hbViol := by
  unfold leaveFn; cases s.cfg.wl <;> simp only [afterUnlock_hbViol]

@[simp] theorem enterCall_cfg (s : St) (t : Nat) : (enterCall s t).cfg = s.cfg := by
  unfold enterCall; cases s.cfg.wl <;> rfl

@[simp] theorem enterCall_wc (s : St) (t : Nat) : (enterCall s t).wc = s.wc := by
  unfold enterCall; cases s.cfg.wl <;> rfl

@[simp] theorem enterCall_rc (s : St) (t : Nat) : (enterCall s t).rc = s.rc := by
  unfold enterCall; cases s.cfg.wl <;> rfl

@[simp] theorem enterCall_cached (s : St) (t : Nat) : (enterCall s t).cached = s.cached := by
  unfold enterCall; cases s.cfg.wl <;> rfl

@[simp] theorem enterCall_blocks (s : St) (t : Nat) : (enterCall s t).blocks = s.blocks := by
  unfold enterCall; cases s.cfg.wl <;> rfl

@[simp] theorem enterCall_wlock (s : St) (t : Nat) : (enterCall s t).wlock = s.wlock := by
  unfold enterCall; cases s.cfg.wl <;> rfl

@[simp] theorem enterCall_rmtx (s : St) (t : Nat) : (enterCall s t).rmtx = s.rmtx := by
  unfold enterCall; cases s.cfg.wl <;> rfl

@[simp] theorem enterCall_accepted (s : St) (t : Nat) : (enterCall s t).accepted = s.accepted := by
  unfold enterCall; cases s.cfg.wl <;> rfl

@[simp] theorem enterCall_delivered (s : St) (t : Nat) : (enterCall s t).delivered = s.delivered := by
  unfold enterCall; cases s.cfg.wl <;> rfl

@[simp] theorem enterCall_fulls (s : St) (t : Nat) : (enterCall s t).fulls = s.fulls := by
  unfold enterCall; cases s.cfg.wl <;> rfl

@[simp] theorem enterCall_overwrites (s : St) (t : Nat) : (enterCall s t).overwrites = s.overwrites := by
  unfold enterCall; cases s.cfg.wl <;> rfl

@[simp] theorem enterCall_obs (s : St) (t : Nat) : (enterCall s t).obs = s.obs := by
  unfold enterCall; cases s.cfg.wl <;> rfl

@[simp] theorem enterCall_cachedObs (s : St) (t : Nat) : (enterCall s t).cachedObs = s.cachedObs := by
  unfold enterCall; cases s.cfg.wl <;> rfl

@[simp] theorem enterCall_know (s : St) (t : Nat) : (enterCall s t).know = s.know := by
  unfold enterCall; cases s.cfg.wl <;> rfl

@[simp] theorem enterCall_relWC (s : St) (t : Nat) : (enterCall s t).relWC = s.relWC := by
  unfold enterCall; cases s.cfg.wl <;> rfl

@[simp] theorem enterCall_relWL (s : St) (t : Nat) : (enterCall s t).relWL = s.relWL := by
  unfold enterCall; cases s.cfg.wl <;> rfl

@[simp] theorem enterCall_relRM (s : St) (t : Nat) : (enterCall s t).relRM = s.relRM := by
  unfold enterCall; cases s.cfg.wl <;> rfl

@[simp] theorem enterCall_hbViol (s : St) (t : Nat) : (enterCall s t).hbViol = s.hbViol := by
  unfold enterCall; cases s.cfg.wl <;> rfl

@[simp] theorem enterCall_k (s : St) (t : Nat) : (enterCall s t).k = s.k := by
  unfold enterCall; cases s.cfg.wl <;> rfl

@[simp] theorem enterCall_att (s : St) (t : Nat) : (enterCall s t).att = s.att := by
  unfold enterCall; cases s.cfg.wl <;> rfl

@[simp] theorem enterCall_okNotes (s : St) (t : Nat) : (enterCall s t).okNotes = s.okNotes := by
  unfold enterCall; cases s.cfg.wl <;> rfl

@[simp] theorem enterCall_fullNotes (s : St) (t : Nat) : (enterCall s t).fullNotes = s.fullNotes := by
  unfold enterCall; cases s.cfg.wl <;> rfl

@[simp] theorem readReturned_cfg (s : St) (t : Nat) (d : Option Msg) : (readReturned s t d).1.cfg = s.cfg := by
  unfold readReturned; cases d <;> rfl

@[simp] theorem readReturned_wc (s : St) (t : Nat) (d : Option Msg) : (readReturned s t d).1.wc = s.wc := by
  unfold readReturned; cases d <;> rfl

@[simp] theorem readReturned_rc (s : St) (t : Nat) (d : Option Msg) : (readReturned s t d).1.rc = s.rc := by
  unfold readReturned; cases d <;> rfl

@[simp] theorem readReturned_cached (s : St) (t : Nat) (d : Option Msg) : (readReturned s t d).1.cached = s.cached := by
  unfold readReturned; cases d <;> rfl

@[simp] theorem readReturned_blocks (s : St) (t : Nat) (d : Option Msg) : (readReturned s t d).1.blocks = s.blocks := by
  unfold readReturned; cases d <;> rfl

@[simp] theorem readReturned_wlock (s : St) (t : Nat) (d : Option Msg) : (readReturned s t d).1.wlock = s.wlock := by
  unfold readReturned; cases d <;> rfl

@[simp] theorem readReturned_rmtx (s : St) (t : Nat) (d : Option Msg) : (readReturned s t d).1.rmtx = s.rmtx := by
  unfold readReturned; cases d <;> rfl

@[simp] theorem readReturned_accepted (s : St) (t : Nat) (d : Option Msg) : (readReturned s t d).1.accepted = s.accepted := by
  unfold readReturned; cases d <;> rfl

@[simp] theorem readReturned_delivered (s : St) (t : Nat) (d : Option Msg) : (readReturned s t d).1.delivered = s.delivered := by
  unfold readReturned; cases d <;> rfl

@[simp] theorem readReturned_fulls (s : St) (t : Nat) (d : Option Msg) : (readReturned s t d).1.fulls = s.fulls := by
  unfold readReturned; cases d <;> rfl

@[simp] theorem readReturned_overwrites (s : St) (t : Nat) (d : Option Msg) : (readReturned s t d).1.overwrites = s.overwrites := by
  unfold readReturned; cases d <;> rfl

@[simp] theorem readReturned_obs (s : St) (t : Nat) (d : Option Msg) : (readReturned s t d).1.obs = s.obs := by
  unfold readReturned; cases d <;> rfl

@[simp] theorem readReturned_cachedObs (s : St) (t : Nat) (d : Option Msg) : (readReturned s t d).1.cachedObs = s.cachedObs := by
  unfold readReturned; cases d <;> rfl

@[simp] theorem readReturned_know (s : St) (t : Nat) (d : Option Msg) : (readReturned s t d).1.know = s.know := by
  unfold readReturned; cases d <;> rfl

@[simp] theorem readReturned_relWC (s : St) (t : Nat) (d : Option Msg) : (readReturned s t d).1.relWC = s.relWC := by
  unfold readReturned; cases d <;> rfl

@[simp] theorem readReturned_relWL (s : St) (t : Nat) (d : Option Msg) : (readReturned s t d).1.relWL = s.relWL := by
  unfold readReturned; cases d <;> rfl

@[simp] theorem readReturned_relRM (s : St) (t : Nat) (d : Option Msg) : (readReturned s t d).1.relRM = s.relRM := by
  unfold readReturned; cases d <;> rfl

@[simp] theorem readReturned_hbViol (s : St) (t : Nat) (d : Option Msg) : (readReturned s t d).1.hbViol = s.hbViol := by
  unfold readReturned; cases d <;> rfl

@[simp] theorem readReturned_holder (s : St) (t : Nat) (d : Option Msg) : (readReturned s t d).1.holder = s.holder := by
  unfold readReturned; cases d <;> rfl

@[simp] theorem readReturned_att (s : St) (t : Nat) (d : Option Msg) : (readReturned s t d).1.att = s.att := by
  unfold readReturned; cases d <;> rfl

@[simp] theorem readReturned_okNotes (s : St) (t : Nat) (d : Option Msg) : (readReturned s t d).1.okNotes = s.okNotes := by
  unfold readReturned; cases d <;> rfl

@[simp] theorem readReturned_fullNotes (s : St) (t : Nat) (d : Option Msg) : (readReturned s t d).1.fullNotes = s.fullNotes := by
  unfold readReturned; cases d <;> rfl


/-! ### program counters, message index, lock owner -/

/-- pc / message index of thread `t` after the helper (opaque names, so that the projection
lemmas below can be used as rewrite rules) -/
def fcPc (s : St) (t : Nat) (r : Ret) : Pc := (finishCall s t r).1.pc t
def fcK (s : St) (t : Nat) (r : Ret) : Nat := (finishCall s t r).1.k t
def auPc (s : St) (t : Nat) (r : Ret) : Pc := (afterUnlock s t r).1.pc t
def auK (s : St) (t : Nat) (r : Ret) : Nat := (afterUnlock s t r).1.k t
def lfPc (s : St) (t : Nat) (r : Ret) : Pc := (leaveFn s t r).1.pc t
def lfK (s : St) (t : Nat) (r : Ret) : Nat := (leaveFn s t r).1.k t
def rrPc (s : St) (t : Nat) (d : Option Msg) : Pc := (readReturned s t d).1.pc t

theorem finishCall_pc (s : St) (t : Nat) (r : Ret) :
    (finishCall s t r).1.pc = upd s.pc t (fcPc s t r) := by
  funext j
  unfold fcPc finishCall; cases r <;> simp only <;> (try split) <;> simp [upd]

theorem fcPc_cases (s : St) (t : Nat) (r : Ret) :
    fcPc s t r = .wPay ∨ fcPc s t r = .done ∨ (fcPc s t r = .wYield ∧ r = .full) := by
  unfold fcPc finishCall; cases r <;> simp only <;> (try split) <;> simp only [upd_same] <;> (try split) <;> simp

theorem finishCall_k (s : St) (t : Nat) (r : Ret) :
    (finishCall s t r).1.k = upd s.k t (fcK s t r) := by
  funext j
  unfold fcK finishCall; cases r <;> simp only <;> (try split) <;> simp only [upd] <;> split <;> simp_all

/-- after `finishCall` the thread either starts its next message (index + 1) or retries -/
theorem fc_next (s : St) (t : Nat) (r : Ret) :
    (fcK s t r = s.k t + 1 ∧ (fcPc s t r = .wPay ∨ fcPc s t r = .done)) ∨
    (fcK s t r = s.k t ∧ fcPc s t r = .wYield ∧ r = .full) := by
  unfold fcK fcPc finishCall; cases r <;> simp only <;> (try split) <;> simp only [upd_same] <;> (try split) <;> simp

theorem finishCall_okNotes (s : St) (t : Nat) (r : Ret) :
    (finishCall s t r).1.okNotes = if r = .ok then s.okNotes ++ [cur s t] else s.okNotes := by
  unfold finishCall; cases r <;> simp only <;> (try split) <;> simp_all

theorem afterUnlock_pc (s : St) (t : Nat) (r : Ret) :
    (afterUnlock s t r).1.pc = upd s.pc t (auPc s t r) := by
  unfold auPc afterUnlock; cases r <;> cases s.cfg.rm <;> simp only <;>
    first | exact finishCall_pc s t _ | (funext j; simp [upd])

theorem auPc_cases (s : St) (t : Nat) (r : Ret) :
    (auPc s t r = .wWake ∧ r = .ok ∧ s.cfg.rm ≠ .busy) ∨ auPc s t r = .wPay ∨
    auPc s t r = .done ∨ (auPc s t r = .wYield ∧ r = .full) := by
  unfold auPc afterUnlock; cases r <;> cases hrm : s.cfg.rm <;> simp only [upd_same] <;>
    first | (have := fcPc_cases s t .ok; unfold fcPc at this; simp_all; done)
          | (have := fcPc_cases s t .full; unfold fcPc at this; simp_all; done) | simp

theorem afterUnlock_k (s : St) (t : Nat) (r : Ret) :
    (afterUnlock s t r).1.k = upd s.k t (auK s t r) := by
  unfold auK afterUnlock; cases r <;> cases s.cfg.rm <;> simp only <;>
    first | exact finishCall_k s t _ | (funext j; simp only [upd]; split <;> simp_all)

/-- k advances by one exactly when the thread leaves its message (pc wPay/done) -/
theorem au_next (s : St) (t : Nat) (r : Ret) :
    (auK s t r = s.k t + 1 ∧ (auPc s t r = .wPay ∨ auPc s t r = .done)) ∨
    (auK s t r = s.k t ∧ ((auPc s t r = .wYield ∧ r = .full) ∨ (auPc s t r = .wWake ∧ r = .ok ∧ s.cfg.rm ≠ .busy))) := by
  unfold auK auPc afterUnlock; cases r <;> cases hrm : s.cfg.rm <;> simp only [upd_same] <;>
    first | (have := fc_next s t .ok; unfold fcPc fcK at this; simp_all; done)
          | (have := fc_next s t .full; unfold fcPc fcK at this; simp_all; done) | simp

theorem leaveFn_pc (s : St) (t : Nat) (r : Ret) :
    (leaveFn s t r).1.pc = upd s.pc t (lfPc s t r) := by
  unfold lfPc leaveFn; cases s.cfg.wl <;> simp only <;>
    first | exact afterUnlock_pc _ t r | (funext j; simp [upd])

theorem leaveFn_holder (s : St) (t : Nat) (r : Ret) :
    (leaveFn s t r).1.holder = if s.cfg.wl = .single then none else s.holder := by
  unfold leaveFn; cases s.cfg.wl <;> simp

theorem lfPc_cases (s : St) (t : Nat) (r : Ret) :
    (s.cfg.wl ≠ .single ∧ lfPc s t r = .wUnlock r) ∨
    (s.cfg.wl = .single ∧ ((lfPc s t r = .wWake ∧ r = .ok ∧ s.cfg.rm ≠ .busy) ∨ lfPc s t r = .wPay ∨
      lfPc s t r = .done ∨ (lfPc s t r = .wYield ∧ r = .full))) := by
  unfold lfPc leaveFn; cases hwl : s.cfg.wl <;> simp only [upd_same] <;>
    first | (have := auPc_cases { s with holder := none } t r; unfold auPc at this; simp_all; done) | simp

theorem leaveFn_k (s : St) (t : Nat) (r : Ret) :
    (leaveFn s t r).1.k = upd s.k t (lfK s t r) := by
  unfold lfK leaveFn; cases s.cfg.wl <;> simp only <;>
    first | exact afterUnlock_k _ t r | (funext j; simp only [upd]; split <;> simp_all)

theorem lf_next (s : St) (t : Nat) (r : Ret) :
    (lfK s t r = s.k t + 1 ∧ (lfPc s t r = .wPay ∨ lfPc s t r = .done)) ∨
    (lfK s t r = s.k t ∧ ((lfPc s t r = .wYield ∧ r = .full) ∨ (lfPc s t r = .wWake ∧ r = .ok ∧ s.cfg.rm ≠ .busy)
      ∨ lfPc s t r = .wUnlock r)) := by
  unfold lfK lfPc leaveFn; cases hwl : s.cfg.wl <;> simp only [upd_same] <;>
    first | (have := au_next { s with holder := none } t r; simp only [auPc, auK] at this; grind) | simp

theorem enterCall_pc (s : St) (t : Nat) :
    (enterCall s t).pc = upd s.pc t (if s.cfg.wl = .single then entryFn s.cfg.rm else .wLock) := by
  unfold enterCall; cases s.cfg.wl <;> simp

theorem enterCall_holder (s : St) (t : Nat) :
    (enterCall s t).holder = if s.cfg.wl = .single then some t else s.holder := by
  unfold enterCall; cases s.cfg.wl <;> simp

theorem readReturned_pc (s : St) (t : Nat) (d : Option Msg) :
    (readReturned s t d).1.pc = upd s.pc t (rrPc s t d) := by
  funext j
  unfold rrPc readReturned; cases d <;> simp [upd]

theorem rrPc_cases (s : St) (t : Nat) (d : Option Msg) :
    (∃ m, d = some m ∧ rrPc s t d = .rPay m) ∨
    (d = none ∧ (rrPc s t d = .rmLock ∨ rrPc s t d = .rRdR ∨ rrPc s t d = .done)) := by
  unfold rrPc readReturned; cases d <;> simp only [upd_same]
  · right; simp only [true_and]; split <;> (try split) <;> simp
  · left; simp

/-! ### what the exit helpers do to (message index, pc, ok-notes) of the acting thread -/

/-- `stay`: same message, `advance`: next message (with or without an ok-note for the old one) -/
def ExitSpec (s : St) (t : Nat) (k' : Nat) (p' : Pc) (ok' : List Msg) (r : Ret) : Prop :=
  (k' = s.k t + 1 ∧ (p' = .wPay ∨ p' = .done) ∧
      ok' = (if r = .ok then s.okNotes ++ [cur s t] else s.okNotes)) ∨
  (k' = s.k t ∧ ok' = s.okNotes ∧
      ((p' = .wYield ∧ r = .full) ∨ (p' = .wWake ∧ r = .ok) ∨ p' = .wUnlock r))

theorem fc_spec (s : St) (t : Nat) (r : Ret) :
    ExitSpec s t (fcK s t r) (fcPc s t r) (finishCall s t r).1.okNotes r := by
  unfold ExitSpec fcK fcPc finishCall; cases r <;> simp only <;> (try split) <;> simp only [upd_same] <;>
    (try split) <;> simp_all

theorem afterUnlock_okNotes_eq (s : St) (t : Nat) (r : Ret) :
    ExitSpec s t (auK s t r) (auPc s t r) (afterUnlock s t r).1.okNotes r := by
  unfold auK auPc afterUnlock; cases r <;> cases hrm : s.cfg.rm <;> simp only [upd_same] <;>
    first | (exact fc_spec s t _) | (unfold ExitSpec; simp)

theorem lf_spec (s : St) (t : Nat) (r : Ret) :
    ExitSpec s t (lfK s t r) (lfPc s t r) (leaveFn s t r).1.okNotes r := by
  unfold lfK lfPc leaveFn; cases hwl : s.cfg.wl <;> simp only [upd_same] <;>
    first | (exact afterUnlock_okNotes_eq { s with holder := none } t r) | (unfold ExitSpec; simp)

/-- with a waiting reader mode a successful call always goes through `fn_wake` -/
theorem auPc_ok_wake (s : St) (t : Nat) (h : s.cfg.rm ≠ .busy) : auPc s t .ok = .wWake := by
  unfold auPc afterUnlock; cases hrm : s.cfg.rm <;> simp_all

theorem lfPc_ok_pub (s : St) (t : Nat) (h : s.cfg.rm ≠ .busy) : published (lfPc s t .ok) = true := by
  unfold lfPc leaveFn
  cases hwl : s.cfg.wl <;> simp only [upd_same, published]
  have := auPc_ok_wake { s with holder := none } t h
  unfold auPc at this; rw [this]

theorem firstBlocked_none (pc : Nat → Pc) :
    ∀ n i, firstBlocked pc n i = none → ∀ t, i ≤ t → t < i + n → pc t ≠ .wBlocked := by
  intro n
  induction n with
  | zero => intro i _ t h1 h2; omega
  | succ n ih =>
    intro i h t h1 h2
    simp only [firstBlocked] at h
    split at h
    · cases h
    next hne =>
      rcases Nat.eq_or_lt_of_le h1 with e | hlt
      · rw [← e]; exact hne
      · exact ih (i + 1) h t hlt (by omega)

theorem readReturned_k_other (s : St) (t t' : Nat) (d : Option Msg) (h : t' ≠ t) :
    (readReturned s t d).1.k t' = s.k t' := by
  unfold readReturned; cases d <;> simp [upd, h]

theorem rrPc_inRM (s : St) (t : Nat) (d : Option Msg) : inRM (rrPc s t d) = false := by
  rcases rrPc_cases s t d with ⟨m, -, h⟩ | ⟨-, h | h | h⟩ <;> simp [h, inRM]

theorem rrPc_RLoc (s : St) (t : Nat) (d : Option Msg) (n A D : Nat) (nxt : Option Msg) :
    RLoc n A D nxt (rrPc s t d) := by
  rcases rrPc_cases s t d with ⟨m, -, h⟩ | ⟨-, h | h | h⟩ <;> simp [h, RLoc]

theorem entryFn_inCS (rm : RMode) : inCS (entryFn rm) = true := by cases rm <;> rfl
theorem entryFn_inRM (rm : RMode) : inRM (entryFn rm) = false := by cases rm <;> rfl
theorem entryFn_WLoc (rm : RMode) (n A D o c : Nat) (sl : Option Msg) (m : Msg) :
    WLoc n A D o c rm sl m (entryFn rm) := by cases rm <;> simp [entryFn, WLoc]

end MgProof.C01
