import MgModel.C01.Channel
/-!
# C01 — channel: the inductive invariant (definitions and arithmetic)

`Inv s` relates the cursors, the per-thread program counters / locals, the lock owners and
the slot contents to the ghost lists `accepted` / `delivered`:

* `A = |accepted|`, `D = |delivered|`, `cap = 2 ^ capLog`;
* `write_cursor = A mod cap`, `read_cursor = (D + cap - 1) mod cap`, `D ≤ A ≤ D + (cap - 2)`;
* slot `j mod cap` holds `accepted[j]` for every unread `j ∈ [D, A)`;
* the owner of the write lock is exactly the thread whose pc is inside `fn_lock … fn_unlock`,
  the owner of `read_mutex` exactly the thread inside its critical section;
* per pc, what the locals are (`WLoc`, `RLoc`).

Everything is stated for every writer-lock kind, reader mode, `capLog`, workload and thread
count at once; `Valid` only asks what the API documents (`WRITE_SINGLE` ⇒ one writer).
-/
namespace MgProof.C01
open MgModel.Conc MgModel.C01

/-! ## arithmetic -/

theorem mod_inj_close {a b n : Nat} (h1 : a ≤ b) (h2 : b < a + n) (h : a % n = b % n) : a = b := by
  have ha := Nat.div_add_mod a n
  have hb := Nat.div_add_mod b n
  rcases Nat.lt_or_ge (a / n) (b / n) with hq | hq
  · have : n * (a / n + 1) ≤ n * (b / n) := Nat.mul_le_mul_left n hq
    rw [Nat.mul_add, Nat.mul_one] at this
    have hr : a % n < n := Nat.mod_lt _ (by omega)
    omega
  · have : n * (b / n) ≤ n * (a / n) := Nat.mul_le_mul_left n hq
    omega

theorem ring_eq (i k : Nat) : ring i (2 ^ k) = i % 2 ^ k := by
  unfold ring; exact Nat.and_two_pow_sub_one_eq_mod i k

theorem cap_pos (c : Cfg) : 0 < c.cap := Nat.pow_pos (by decide)

theorem ring_cap (i : Nat) (c : Cfg) : ring i c.cap = i % c.cap := ring_eq i c.capLog

/-- the cursor that follows `read_cursor = (D + cap - 1) mod cap` is `D mod cap` -/
theorem next_rc (D n : Nat) (hn : 0 < n) : ((D + (n - 1)) % n + 1) % n = D % n := by
  rw [Nat.mod_add_mod]
  have : D + (n - 1) + 1 = D + n := by omega
  rw [this, Nat.add_mod_right]

/-- the full test: with `d ≤ A ≤ d + (cap - 2)`, `(A + 1) mod cap = (d + cap - 1) mod cap`
exactly when `A - d = cap - 2` (the channel is at capacity) -/
theorem full_iff {A d n : Nat} (hn : 0 < n) (h1 : d ≤ A) (h2 : A ≤ d + (n - 2)) :
    (A + 1) % n = (d + (n - 1)) % n ↔ A = d + (n - 2) := by
  constructor
  · intro h
    rcases Nat.lt_or_ge n 2 with hlt | hge
    · omega
    · have := mod_inj_close (a := A + 1) (b := d + (n - 1)) (n := n) (by omega) (by omega) h
      omega
  · intro h
    rcases Nat.lt_or_ge n 2 with hlt | hge
    · have : n = 1 := by omega
      subst this; simp [Nat.mod_one]
    · have : A + 1 = d + (n - 1) := by omega
      rw [this]

/-- unread slots are pairwise distinct and differ from the slot the writer is about to use -/
theorem slot_ne {A D j n : Nat} (h2 : A ≤ D + (n - 2)) (hj1 : D ≤ j) (hj2 : j < A) :
    j % n ≠ A % n := by
  intro h
  have := mod_inj_close (a := j) (b := A) (n := n) (by omega) (by omega) h
  omega

/-! ## the invariant -/

/-- pcs between the acquisition of the write lock and its release -/
def inCS : Pc → Bool
  | .sLdR | .sRdW _ | .cRdW2 _ | .cWrB _ _ | .cSt _ | .bRdW | .bRdC _ | .bLdR _ | .bWrC _ _ | .bRdC2 _
  | .mLock | .mRdW | .mRdR _ | .mRdW2 _ | .mWrB _ _ | .mWrW _ | .mUnlock _ | .wUnlock _ => true
  | _ => false

/-- pcs holding `read_mutex` -/
def inRM : Pc → Bool
  | .mRdW | .mRdR _ | .mRdW2 _ | .mWrB _ _ | .mWrW _ | .mUnlock _
  | .rmRdR | .rmRdW _ | .rmCvWait | .rmRdB _ | .rmWrR _ _ | .rmUnlock _ => true
  | _ => false

/-- the write call of the thread's current message has published it -/
def published : Pc → Bool
  | .mUnlock .ok | .wUnlock .ok | .wUnlockWake .ok | .wWake => true
  | _ => false

structure Valid (c : Cfg) : Prop where
  single : c.wl = .single → c.W = 1

/-- room for one more message, as established by the full test that was passed -/
def Room (n A D cObs : Nat) (rm : RMode) : Prop :=
  A + 1 ≤ D + (n - 2) ∧ (rm = .busy → A + 1 ≤ cObs + (n - 2)) ∧ rm ≠ .mutex

/-- what the holder of the write lock knows at each pc (`n` = capacity, `slot` = contents of
slot `A mod n`, `m` = its message) -/
def WLoc (n A D obsT cObs : Nat) (rm : RMode) (slot : Option Msg) (m : Msg) : Pc → Prop
  | .sLdR => rm = .sync
  | .sRdW rpos => rm = .sync ∧ rpos = (obsT + (n - 1)) % n ∧ obsT ≤ D ∧ A ≤ obsT + (n - 2)
  | .cRdW2 wpos => wpos = (A + 1) % n ∧ Room n A D cObs rm
  | .cWrB wpos idx => wpos = (A + 1) % n ∧ idx = A % n ∧ Room n A D cObs rm
  | .cSt wpos => wpos = (A + 1) % n ∧ slot = some m ∧ Room n A D cObs rm
  | .bRdW => rm = .busy
  | .bRdC wpos => rm = .busy ∧ wpos = (A + 1) % n
  | .bLdR wpos => rm = .busy ∧ wpos = (A + 1) % n
  | .bRdC2 wpos => rm = .busy ∧ wpos = (A + 1) % n
  | .bWrC wpos v => rm = .busy ∧ wpos = (A + 1) % n ∧ v = (obsT + (n - 1)) % n ∧ obsT ≤ D ∧ A ≤ obsT + (n - 2)
  | .mLock => rm = .mutex
  | .mRdW => rm = .mutex
  | .mRdR wpos => rm = .mutex ∧ wpos = (A + 1) % n
  | .mRdW2 wpos => rm = .mutex ∧ wpos = (A + 1) % n ∧ A + 1 ≤ D + (n - 2)
  | .mWrB wpos idx => rm = .mutex ∧ wpos = (A + 1) % n ∧ idx = A % n ∧ A + 1 ≤ D + (n - 2)
  | .mWrW wpos => rm = .mutex ∧ wpos = (A + 1) % n ∧ slot = some m ∧ A + 1 ≤ D + (n - 2)
  | _ => True

/-- what the reader knows at each pc (`nxt` = `accepted[D]?`) -/
def RLoc (n A D : Nat) (nxt : Option Msg) : Pc → Prop
  | .rLdW rpos => rpos = D % n
  | .rFwait rpos _ => rpos = D % n
  | .rBlocked rpos => rpos = D % n
  | .rWoken rpos => rpos = D % n
  | .rRdB rpos => rpos = D % n ∧ D < A
  | .rStR rpos d => rpos = D % n ∧ D < A ∧ d = nxt
  | .rmRdW rpos => rpos = D % n
  | .rmRdB rpos => rpos = D % n ∧ D < A
  | .rmWrR rpos d => rpos = D % n ∧ D < A ∧ d = nxt
  | _ => True

structure Inv (s : St) : Prop where
  valid : Valid s.cfg
  hold : ∀ t, s.holder = some t ↔ (t < s.cfg.W ∧ inCS (s.pc t) = true)
  lock0 : s.cfg.wl = .spin ∨ s.cfg.wl = .sync → s.wlock = 0 → s.holder = none
  rmo : ∀ t, s.rmtx = some t ↔ (t ≤ s.cfg.W ∧ inRM (s.pc t) = true)
  wc_eq : s.wc = s.accepted.length % s.cfg.cap
  rc_eq : s.rc = (s.delivered.length + (s.cfg.cap - 1)) % s.cfg.cap
  le1 : s.delivered.length ≤ s.accepted.length
  le2 : s.accepted.length ≤ s.delivered.length + (s.cfg.cap - 2)
  slots : ∀ j, s.delivered.length ≤ j → j < s.accepted.length →
    s.blocks (j % s.cfg.cap) = s.accepted[j]?
  cachedOk : s.cfg.rm = .busy →
    s.cached = (s.cachedObs + (s.cfg.cap - 1)) % s.cfg.cap ∧ s.cachedObs ≤ s.delivered.length ∧
    s.accepted.length ≤ s.cachedObs + (s.cfg.cap - 2)
  wloc : ∀ t, s.holder = some t →
    WLoc s.cfg.cap s.accepted.length s.delivered.length (s.obs t) s.cachedObs s.cfg.rm
      (s.blocks (s.accepted.length % s.cfg.cap)) (cur s t) (s.pc t)
  rloc : RLoc s.cfg.cap s.accepted.length s.delivered.length s.accepted[s.delivered.length]?
    (s.pc s.cfg.W)
  fifo : s.delivered = (s.accepted.take s.delivered.length).map some
  fullsOk : ∀ u ∈ s.fulls, u = s.cfg.cap - 2
  ow : s.overwrites = 0

theorem WLoc_mono_D {n A D D' o c : Nat} {rm : RMode} {sl : Option Msg} {m : Msg} {p : Pc} (h : D ≤ D')
    (hw : WLoc n A D o c rm sl m p) : WLoc n A D' o c rm sl m p := by
  cases p <;> simp only [WLoc, Room] at * <;> (first | trivial | grind)

theorem RLoc_publish {n D : Nat} {l : List Msg} {m : Msg} {p : Pc} (h : RLoc n l.length D l[D]? p) :
    RLoc n (l.length + 1) D (l ++ [m])[D]? p := by
  cases p <;> simp only [RLoc] at * <;> (try omega)
  all_goals (obtain ⟨h1, h2, h3⟩ := h; refine ⟨h1, by omega, ?_⟩; rw [List.getElem?_append_left h2]; exact h3)

theorem fifo_publish {D : Nat} {l : List Msg} {m : Msg} {dl : List (Option Msg)} (hD : D ≤ l.length)
    (h : dl = (l.take D).map some) : dl = ((l ++ [m]).take D).map some := by
  rw [List.take_append_of_le_length hD]; exact h

theorem fifo_consume {l : List Msg} {dl : List (Option Msg)} (hD : dl.length < l.length)
    (h : dl = (l.take dl.length).map some) :
    dl ++ [l[dl.length]?] = (l.take (dl.length + 1)).map some := by
  rw [List.take_add_one, List.map_append, ← h]
  simp [List.getElem?_eq_getElem hD]

theorem firstBlocked_spec (pc : Nat → Pc) : ∀ n i w, firstBlocked pc n i = some w → pc w = .wBlocked := by
  intro n
  induction n with
  | zero => intro i w h; simp [firstBlocked] at h
  | succ n ih =>
    intro i w h
    simp only [firstBlocked] at h
    split at h
    · cases h; assumption
    · exact ih _ _ h

theorem liveSlot_false (s : St) (hi2 : s.accepted.length ≤ s.delivered.length + (s.cfg.cap - 2)) :
    liveSlot s (s.accepted.length % s.cfg.cap) = false := by
  unfold liveSlot
  rw [List.any_eq_false]
  intro j hj
  rw [List.mem_range'_1] at hj
  have := slot_ne (n := s.cfg.cap) hi2 hj.1 (by omega)
  simpa using this


/-! ## generic preservation lemmas (one thread `t0` moves from `pc t0` to `p'`) -/

section generic
variable {W t0 : Nat} {holder : Option Nat} {pc : Nat → Pc} {p' : Pc}

theorem hold_same (h1 : ∀ t, holder = some t ↔ (t < W ∧ inCS (pc t) = true))
    (heq : inCS p' = inCS (pc t0)) :
    ∀ t, holder = some t ↔ (t < W ∧ inCS (upd pc t0 p' t) = true) := by
  intro t; by_cases ht : t = t0
  · subst ht; simp only [upd_same, heq]; exact h1 t
  · simp only [upd_other _ _ _ _ ht]; exact h1 t

theorem hold_acquire (h1 : ∀ t, holder = some t ↔ (t < W ∧ inCS (pc t) = true))
    (hn : holder = none) (ht0 : t0 < W) (hp : inCS p' = true) :
    ∀ t, some t0 = some t ↔ (t < W ∧ inCS (upd pc t0 p' t) = true) := by
  intro t; by_cases ht : t = t0
  · subst ht; simp [upd_same, hp, ht0]
  · simp only [upd_other _ _ _ _ ht]
    have := h1 t
    rw [hn] at this
    constructor
    · intro h; cases h; exact absurd rfl ht
    · intro h; exact absurd (this.2 h) (by simp)

theorem hold_release (h1 : ∀ t, holder = some t ↔ (t < W ∧ inCS (pc t) = true))
    (hh : holder = some t0) (hp : inCS p' = false) :
    ∀ t, (none : Option Nat) = some t ↔ (t < W ∧ inCS (upd pc t0 p' t) = true) := by
  intro t; by_cases ht : t = t0
  · subst ht; simp [upd_same, hp]
  · simp only [upd_other _ _ _ _ ht]
    have := h1 t
    rw [hh] at this
    constructor
    · intro h; cases h
    · intro h; have := this.2 h; cases this; exact absurd rfl ht

theorem rmo_same {rmtx : Option Nat} (h3 : ∀ t, rmtx = some t ↔ (t ≤ W ∧ inRM (pc t) = true))
    (heq : inRM p' = inRM (pc t0)) :
    ∀ t, rmtx = some t ↔ (t ≤ W ∧ inRM (upd pc t0 p' t) = true) := by
  intro t; by_cases ht : t = t0
  · subst ht; simp only [upd_same, heq]; exact h3 t
  · simp only [upd_other _ _ _ _ ht]; exact h3 t

theorem rmo_acquire {rmtx : Option Nat} (h3 : ∀ t, rmtx = some t ↔ (t ≤ W ∧ inRM (pc t) = true))
    (hn : rmtx = none) (ht0 : t0 ≤ W) (hp : inRM p' = true) :
    ∀ t, some t0 = some t ↔ (t ≤ W ∧ inRM (upd pc t0 p' t) = true) := by
  intro t; by_cases ht : t = t0
  · subst ht; simp [upd_same, hp, ht0]
  · simp only [upd_other _ _ _ _ ht]
    have := h3 t
    rw [hn] at this
    constructor
    · intro h; cases h; exact absurd rfl ht
    · intro h; exact absurd (this.2 h) (by simp)

theorem rmo_release {rmtx : Option Nat} (h3 : ∀ t, rmtx = some t ↔ (t ≤ W ∧ inRM (pc t) = true))
    (hh : rmtx = some t0) (hp : inRM p' = false) :
    ∀ t, (none : Option Nat) = some t ↔ (t ≤ W ∧ inRM (upd pc t0 p' t) = true) := by
  intro t; by_cases ht : t = t0
  · subst ht; simp [upd_same, hp]
  · simp only [upd_other _ _ _ _ ht]
    have := h3 t
    rw [hh] at this
    constructor
    · intro h; cases h
    · intro h; have := this.2 h; cases this; exact absurd rfl ht

variable {n A D c : Nat} {rm : RMode} {sl : Option Msg} {obs k : Nat → Nat}

/-- the acting thread is not the holder (before and after): the holder's facts are untouched -/
theorem wloc_other (h1 : ∀ t, holder = some t ↔ (t < W ∧ inCS (pc t) = true))
    (h10 : ∀ t, holder = some t → WLoc n A D (obs t) c rm sl ⟨t, k t⟩ (pc t))
    (hnot : inCS (pc t0) = false) (obs' k' : Nat → Nat)
    (ho : ∀ t, t ≠ t0 → obs' t = obs t) (hk : ∀ t, t ≠ t0 → k' t = k t) :
    ∀ t, holder = some t → WLoc n A D (obs' t) c rm sl ⟨t, k' t⟩ (upd pc t0 p' t) := by
  intro t hh
  have ht : t ≠ t0 := by
    intro e; subst e
    have := ((h1 t).1 hh).2
    rw [hnot] at this; cases this
  rw [upd_other _ _ _ _ ht, ho t ht, hk t ht]
  exact h10 t hh

/-- the acting thread is the holder after the step: only its new fact has to be shown -/
theorem wloc_holder {n' A' D' c' : Nat} {sl' : Option Msg} {h' : Option Nat} (obs' k' : Nat → Nat)
    (hh : h' = some t0) (hnew : WLoc n' A' D' (obs' t0) c' rm sl' ⟨t0, k' t0⟩ p') :
    ∀ t, h' = some t → WLoc n' A' D' (obs' t) c' rm sl' ⟨t, k' t⟩ (upd pc t0 p' t) := by
  intro t ht
  rw [hh] at ht; cases ht
  rw [upd_same]; exact hnew

theorem wloc_none {P : Nat → Prop} : ∀ t, (none : Option Nat) = some t → P t := by
  intro t h; cases h

end generic

/-- a step of the interleaving semantics is either the interrupted futex wait (`~` on a parked
thread: only that thread's pc changes, to the pc a regular wake-up leads to) or a regular step -/
theorem step_cases {s s' : St} {tok : Tok} {ev : List String} (h : step s tok = some (s', ev)) :
    (tok.tid ≤ s.cfg.W ∧ ∃ q, s' = { s with pc := upd s.pc tok.tid q } ∧
      ((∃ rpos, s.pc tok.tid = .rBlocked rpos ∧ q = .rLdW rpos) ∨ (s.pc tok.tid = .wBlocked ∧ q = .wLock))) ∨
    stepMain s tok = some (s', ev) := by
  unfold step at h
  split at h
  next hc =>
    left
    refine ⟨hc.2.1, ?_⟩
    unfold spurStep at h
    split at h
    next rpos hp =>
      simp only [Option.some.injEq, Prod.mk.injEq] at h
      exact ⟨_, h.1.symm, Or.inl ⟨rpos, hp, rfl⟩⟩
    next hp =>
      simp only [Option.some.injEq, Prod.mk.injEq] at h
      exact ⟨_, h.1.symm, Or.inr ⟨hp, rfl⟩⟩
    next => cases h
  next => exact Or.inr h


end MgProof.C01
