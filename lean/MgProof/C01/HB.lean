import MgProof.C01.Once
/-!
# C01 — channel: the hand-over is a happens-before edge

Knowledge sets (`know t` = payload stores that happen-before thread `t`'s current point):
a release store / unlock publishes `know t` on the location, an acquire load / lock joins it,
relaxed accesses and futex operations transfer nothing. `InvHB` shows that at the moment the
reader reads the payload of a message it received, that payload's store is in `know reader`.
-/
namespace MgProof.C01
open MgModel.Conc MgModel.C01
set_option linter.unusedSimpArgs false
set_option linter.unusedVariables false

theorem mem_joinK {m : Msg} {a b : List Msg} : m ∈ joinK a b ↔ m ∈ a ∨ m ∈ b := by
  unfold joinK
  simp only [List.mem_append, List.mem_filter]
  constructor
  · rintro (h | ⟨h, _⟩)
    · exact Or.inl h
    · exact Or.inr h
  · rintro (h | h)
    · exact Or.inl h
    · by_cases hm : m ∈ a
      · exact Or.inl hm
      · exact Or.inr ⟨h, by simpa using hm⟩

/-- what the reader knows about the message it is about to return -/
def RHB (rm : RMode) (nxt : Option Msg) (kn : List Msg) : Pc → Prop
  | .rRdR => rm ≠ .mutex
  | .rLdW _ => rm ≠ .mutex
  | .rFwait _ _ => rm ≠ .mutex
  | .rBlocked _ => rm ≠ .mutex
  | .rWoken _ => rm ≠ .mutex
  | .rRdB _ => ∀ m, nxt = some m → m ∈ kn
  | .rStR _ _ => ∀ m, nxt = some m → m ∈ kn
  | .rmLock => rm = .mutex
  | .rmRdR => rm = .mutex
  | .rmRdW _ => rm = .mutex
  | .rmCvWait => rm = .mutex
  | .rmCvBlocked => rm = .mutex
  | .rmCvSignaled => rm = .mutex
  | .rmRdB _ => rm = .mutex
  | .rmWrR _ _ => rm = .mutex
  | .rmUnlock d => ∀ m, d = some m → m ∈ kn
  | .rPay m => m ∈ kn
  | _ => True

theorem RHB_publish {rm : RMode} {n D : Nat} {l : List Msg} {m : Msg} {kn : List Msg} {p : Pc}
    (h : RHB rm l[D]? kn p) (hl : RLoc n l.length D l[D]? p) : RHB rm (l ++ [m])[D]? kn p := by
  cases p <;> simp only [RHB, RLoc] at * <;> (try exact h)
  all_goals (intro x hx; rw [List.getElem?_append_left (by omega)] at hx; exact h x hx)

structure InvHB (s : St) : Prop where
  own : ∀ m ∈ s.accepted, m ∈ s.know m.w
  curK : ∀ t, t < s.cfg.W → s.pc t ≠ .wPay → s.pc t ≠ .done → (⟨t, s.k t⟩ : Msg) ∈ s.know t
  holdK : ∀ t, s.holder = some t → ∀ m ∈ s.accepted, m ∈ s.know t
  freeL : s.cfg.wl ≠ .single → s.holder = none → ∀ m ∈ s.accepted, m ∈ s.relWL
  relC : s.cfg.rm ≠ .mutex → ∀ m ∈ s.accepted, m ∈ s.relWC
  rmK : s.cfg.rm = .mutex → ∀ t, s.rmtx = some t → ∀ m ∈ s.accepted, m ∈ s.know t
  rmFree : s.cfg.rm = .mutex → s.rmtx = none → ∀ m ∈ s.accepted, m ∈ s.relRM
  rd : RHB s.cfg.rm s.accepted[s.delivered.length]? (s.know s.cfg.W) (s.pc s.cfg.W)
  viol : s.hbViol = 0

macro "hb_proj" : tactic => `(tactic|
  (simp only [leaveFn_cfg, leaveFn_accepted, leaveFn_delivered, leaveFn_pc, leaveFn_k, leaveFn_holder, leaveFn_rmtx,
    leaveFn_know, leaveFn_relWC, leaveFn_relWL, leaveFn_relRM, leaveFn_hbViol,
    afterUnlock_cfg, afterUnlock_accepted, afterUnlock_delivered, afterUnlock_pc, afterUnlock_k, afterUnlock_holder,
    afterUnlock_rmtx, afterUnlock_know, afterUnlock_relWC, afterUnlock_relWL, afterUnlock_relRM, afterUnlock_hbViol,
    finishCall_cfg, finishCall_accepted, finishCall_delivered, finishCall_pc, finishCall_k, finishCall_holder,
    finishCall_rmtx, finishCall_know, finishCall_relWC, finishCall_relWL, finishCall_relRM, finishCall_hbViol,
    enterCall_cfg, enterCall_accepted, enterCall_delivered, enterCall_pc, enterCall_k, enterCall_holder,
    enterCall_rmtx, enterCall_know, enterCall_relWC, enterCall_relWL, enterCall_relRM, enterCall_hbViol,
    publish, acquired, cur] at *))

variable {s s' : St} {t : Nat} {f : Flag} {ev : List String}

set_option hygiene false in
/-- common prologue of a writer case: facts of the other invariants, destructured `InvHB s` -/
macro "hb_intro" : tactic => `(tactic|
  (have hI1 := hI.hold
   have hI3 := hI.rmo
   have hI11 := hI.rloc
   have hW := hI.wloc t
   have hE1 := hE.e1
   have hv := hI.valid.single
   have hfb := firstBlocked_spec s.pc s.cfg.W 0
   have hfl := firstBlocked_lt s.pc s.cfg.W 0
   have hL := hI.lock0
   have hsg : s.cfg.wl = .single → ∀ m ∈ s.accepted, m ∈ s.know t := by
     intro hs m hm
     have h1 := (hE1 m hm).1
     have h2 := hv hs
     have e : m.w = t := by omega
     rw [← e]; exact hi.own m hm
   obtain ⟨o1, o2, o3, o4, o5, o6, o7, o8, o9⟩ := hi))

set_option hygiene false in
macro "hb_finish" : tactic => `(tactic|
  (simp only [Option.some.injEq, Prod.mk.injEq] at h; obtain ⟨rfl, -⟩ := h
   refine ⟨?_, ?_, ?_, ?_, ?_, ?_, ?_, ?_, ?_⟩
   all_goals hb_proj
   all_goals first
     | (rw [upd_other _ _ _ _ (Nat.ne_of_lt ht).symm]; exact RHB_publish o8 hI11)
     | grind [upd, RHB, mem_joinK, WLoc, Room, inCS, inRM, lfPc_cases, lf_next, auPc_cases, au_next,
         fcPc_cases, fc_next, entryFn, Cfg.reader]))

set_option maxHeartbeats 4000000 in
theorem hb_wPay (hpc : s.pc t = .wPay) (ht : t < s.cfg.W) (hen : s.enabled ⟨t, f⟩ = true)
    (hI : Inv s) (hE : InvE s) (hi : InvHB s) (h : wstep s t = some (s', ev)) : InvHB s' := by
  hb_intro
  have hmx : s.cfg.wl = .mutex → s.pc t = .wLock → s.holder = none := by
    intro hm hp
    simp only [St.enabled, hp, hm, Bool.and_eq_true, Option.isNone_iff_eq_none] at hen
    exact hen.2.1
  simp only [St.enabled, hpc, Bool.and_eq_true, Option.isNone_iff_eq_none, decide_eq_true_eq] at hen
  simp only [wstep, hpc] at h
  repeat' split at h
  all_goals first | (cases h; done) | hb_finish

set_option maxHeartbeats 4000000 in
theorem hb_wLock (hpc : s.pc t = .wLock) (ht : t < s.cfg.W) (hen : s.enabled ⟨t, f⟩ = true)
    (hI : Inv s) (hE : InvE s) (hi : InvHB s) (h : wstep s t = some (s', ev)) : InvHB s' := by
  hb_intro
  have hmx : s.cfg.wl = .mutex → s.pc t = .wLock → s.holder = none := by
    intro hm hp
    simp only [St.enabled, hp, hm, Bool.and_eq_true, Option.isNone_iff_eq_none] at hen
    exact hen.2.1
  simp only [St.enabled, hpc, Bool.and_eq_true, Option.isNone_iff_eq_none, decide_eq_true_eq] at hen
  simp only [wstep, hpc] at h
  repeat' split at h
  all_goals first | (cases h; done) | hb_finish

set_option maxHeartbeats 4000000 in
theorem hb_wSpinYield (hpc : s.pc t = .wSpinYield) (ht : t < s.cfg.W) (hen : s.enabled ⟨t, f⟩ = true)
    (hI : Inv s) (hE : InvE s) (hi : InvHB s) (h : wstep s t = some (s', ev)) : InvHB s' := by
  hb_intro
  have hmx : s.cfg.wl = .mutex → s.pc t = .wLock → s.holder = none := by
    intro hm hp
    simp only [St.enabled, hp, hm, Bool.and_eq_true, Option.isNone_iff_eq_none] at hen
    exact hen.2.1
  simp only [St.enabled, hpc, Bool.and_eq_true, Option.isNone_iff_eq_none, decide_eq_true_eq] at hen
  simp only [wstep, hpc] at h
  repeat' split at h
  all_goals first | (cases h; done) | hb_finish

set_option maxHeartbeats 4000000 in
theorem hb_wFwait (e : Nat) (hpc : s.pc t = .wFwait e) (ht : t < s.cfg.W) (hen : s.enabled ⟨t, f⟩ = true)
    (hI : Inv s) (hE : InvE s) (hi : InvHB s) (h : wstep s t = some (s', ev)) : InvHB s' := by
  hb_intro
  have hmx : s.cfg.wl = .mutex → s.pc t = .wLock → s.holder = none := by
    intro hm hp
    simp only [St.enabled, hp, hm, Bool.and_eq_true, Option.isNone_iff_eq_none] at hen
    exact hen.2.1
  simp only [St.enabled, hpc, Bool.and_eq_true, Option.isNone_iff_eq_none, decide_eq_true_eq] at hen
  simp only [wstep, hpc] at h
  repeat' split at h
  all_goals first | (cases h; done) | hb_finish

set_option maxHeartbeats 4000000 in
theorem hb_wWoken (hpc : s.pc t = .wWoken) (ht : t < s.cfg.W) (hen : s.enabled ⟨t, f⟩ = true)
    (hI : Inv s) (hE : InvE s) (hi : InvHB s) (h : wstep s t = some (s', ev)) : InvHB s' := by
  hb_intro
  have hmx : s.cfg.wl = .mutex → s.pc t = .wLock → s.holder = none := by
    intro hm hp
    simp only [St.enabled, hp, hm, Bool.and_eq_true, Option.isNone_iff_eq_none] at hen
    exact hen.2.1
  simp only [St.enabled, hpc, Bool.and_eq_true, Option.isNone_iff_eq_none, decide_eq_true_eq] at hen
  simp only [wstep, hpc] at h
  repeat' split at h
  all_goals first | (cases h; done) | hb_finish

set_option maxHeartbeats 4000000 in
theorem hb_sLdR (hpc : s.pc t = .sLdR) (ht : t < s.cfg.W) (hen : s.enabled ⟨t, f⟩ = true)
    (hI : Inv s) (hE : InvE s) (hi : InvHB s) (h : wstep s t = some (s', ev)) : InvHB s' := by
  hb_intro
  have hmx : s.cfg.wl = .mutex → s.pc t = .wLock → s.holder = none := by
    intro hm hp
    simp only [St.enabled, hp, hm, Bool.and_eq_true, Option.isNone_iff_eq_none] at hen
    exact hen.2.1
  simp only [St.enabled, hpc, Bool.and_eq_true, Option.isNone_iff_eq_none, decide_eq_true_eq] at hen
  simp only [wstep, hpc] at h
  repeat' split at h
  all_goals first | (cases h; done) | hb_finish

set_option maxHeartbeats 4000000 in
theorem hb_sRdW (rpos : Nat) (hpc : s.pc t = .sRdW rpos) (ht : t < s.cfg.W) (hen : s.enabled ⟨t, f⟩ = true)
    (hI : Inv s) (hE : InvE s) (hi : InvHB s) (h : wstep s t = some (s', ev)) : InvHB s' := by
  hb_intro
  have hmx : s.cfg.wl = .mutex → s.pc t = .wLock → s.holder = none := by
    intro hm hp
    simp only [St.enabled, hp, hm, Bool.and_eq_true, Option.isNone_iff_eq_none] at hen
    exact hen.2.1
  simp only [St.enabled, hpc, Bool.and_eq_true, Option.isNone_iff_eq_none, decide_eq_true_eq] at hen
  simp only [wstep, hpc] at h
  repeat' split at h
  all_goals first | (cases h; done) | hb_finish

set_option maxHeartbeats 4000000 in
theorem hb_cRdW2 (wpos : Nat) (hpc : s.pc t = .cRdW2 wpos) (ht : t < s.cfg.W) (hen : s.enabled ⟨t, f⟩ = true)
    (hI : Inv s) (hE : InvE s) (hi : InvHB s) (h : wstep s t = some (s', ev)) : InvHB s' := by
  hb_intro
  have hmx : s.cfg.wl = .mutex → s.pc t = .wLock → s.holder = none := by
    intro hm hp
    simp only [St.enabled, hp, hm, Bool.and_eq_true, Option.isNone_iff_eq_none] at hen
    exact hen.2.1
  simp only [St.enabled, hpc, Bool.and_eq_true, Option.isNone_iff_eq_none, decide_eq_true_eq] at hen
  simp only [wstep, hpc] at h
  repeat' split at h
  all_goals first | (cases h; done) | hb_finish

set_option maxHeartbeats 4000000 in
theorem hb_cWrB (wpos : Nat) (idx : Nat) (hpc : s.pc t = .cWrB wpos idx) (ht : t < s.cfg.W) (hen : s.enabled ⟨t, f⟩ = true)
    (hI : Inv s) (hE : InvE s) (hi : InvHB s) (h : wstep s t = some (s', ev)) : InvHB s' := by
  hb_intro
  have hmx : s.cfg.wl = .mutex → s.pc t = .wLock → s.holder = none := by
    intro hm hp
    simp only [St.enabled, hp, hm, Bool.and_eq_true, Option.isNone_iff_eq_none] at hen
    exact hen.2.1
  simp only [St.enabled, hpc, Bool.and_eq_true, Option.isNone_iff_eq_none, decide_eq_true_eq] at hen
  simp only [wstep, hpc] at h
  repeat' split at h
  all_goals first | (cases h; done) | hb_finish

set_option maxHeartbeats 4000000 in
theorem hb_cSt (wpos : Nat) (hpc : s.pc t = .cSt wpos) (ht : t < s.cfg.W) (hen : s.enabled ⟨t, f⟩ = true)
    (hI : Inv s) (hE : InvE s) (hi : InvHB s) (h : wstep s t = some (s', ev)) : InvHB s' := by
  hb_intro
  have hmx : s.cfg.wl = .mutex → s.pc t = .wLock → s.holder = none := by
    intro hm hp
    simp only [St.enabled, hp, hm, Bool.and_eq_true, Option.isNone_iff_eq_none] at hen
    exact hen.2.1
  simp only [St.enabled, hpc, Bool.and_eq_true, Option.isNone_iff_eq_none, decide_eq_true_eq] at hen
  simp only [wstep, hpc] at h
  repeat' split at h
  all_goals first | (cases h; done) | hb_finish

set_option maxHeartbeats 4000000 in
theorem hb_bRdW (hpc : s.pc t = .bRdW) (ht : t < s.cfg.W) (hen : s.enabled ⟨t, f⟩ = true)
    (hI : Inv s) (hE : InvE s) (hi : InvHB s) (h : wstep s t = some (s', ev)) : InvHB s' := by
  hb_intro
  have hmx : s.cfg.wl = .mutex → s.pc t = .wLock → s.holder = none := by
    intro hm hp
    simp only [St.enabled, hp, hm, Bool.and_eq_true, Option.isNone_iff_eq_none] at hen
    exact hen.2.1
  simp only [St.enabled, hpc, Bool.and_eq_true, Option.isNone_iff_eq_none, decide_eq_true_eq] at hen
  simp only [wstep, hpc] at h
  repeat' split at h
  all_goals first | (cases h; done) | hb_finish

set_option maxHeartbeats 4000000 in
theorem hb_bRdC (wpos : Nat) (hpc : s.pc t = .bRdC wpos) (ht : t < s.cfg.W) (hen : s.enabled ⟨t, f⟩ = true)
    (hI : Inv s) (hE : InvE s) (hi : InvHB s) (h : wstep s t = some (s', ev)) : InvHB s' := by
  hb_intro
  have hmx : s.cfg.wl = .mutex → s.pc t = .wLock → s.holder = none := by
    intro hm hp
    simp only [St.enabled, hp, hm, Bool.and_eq_true, Option.isNone_iff_eq_none] at hen
    exact hen.2.1
  simp only [St.enabled, hpc, Bool.and_eq_true, Option.isNone_iff_eq_none, decide_eq_true_eq] at hen
  simp only [wstep, hpc] at h
  repeat' split at h
  all_goals first | (cases h; done) | hb_finish

set_option maxHeartbeats 4000000 in
theorem hb_bLdR (wpos : Nat) (hpc : s.pc t = .bLdR wpos) (ht : t < s.cfg.W) (hen : s.enabled ⟨t, f⟩ = true)
    (hI : Inv s) (hE : InvE s) (hi : InvHB s) (h : wstep s t = some (s', ev)) : InvHB s' := by
  hb_intro
  have hmx : s.cfg.wl = .mutex → s.pc t = .wLock → s.holder = none := by
    intro hm hp
    simp only [St.enabled, hp, hm, Bool.and_eq_true, Option.isNone_iff_eq_none] at hen
    exact hen.2.1
  simp only [St.enabled, hpc, Bool.and_eq_true, Option.isNone_iff_eq_none, decide_eq_true_eq] at hen
  simp only [wstep, hpc] at h
  repeat' split at h
  all_goals first | (cases h; done) | hb_finish

set_option maxHeartbeats 4000000 in
theorem hb_bWrC (wpos : Nat) (v : Nat) (hpc : s.pc t = .bWrC wpos v) (ht : t < s.cfg.W) (hen : s.enabled ⟨t, f⟩ = true)
    (hI : Inv s) (hE : InvE s) (hi : InvHB s) (h : wstep s t = some (s', ev)) : InvHB s' := by
  hb_intro
  have hmx : s.cfg.wl = .mutex → s.pc t = .wLock → s.holder = none := by
    intro hm hp
    simp only [St.enabled, hp, hm, Bool.and_eq_true, Option.isNone_iff_eq_none] at hen
    exact hen.2.1
  simp only [St.enabled, hpc, Bool.and_eq_true, Option.isNone_iff_eq_none, decide_eq_true_eq] at hen
  simp only [wstep, hpc] at h
  repeat' split at h
  all_goals first | (cases h; done) | hb_finish

set_option maxHeartbeats 4000000 in
theorem hb_bRdC2 (wpos : Nat) (hpc : s.pc t = .bRdC2 wpos) (ht : t < s.cfg.W) (hen : s.enabled ⟨t, f⟩ = true)
    (hI : Inv s) (hE : InvE s) (hi : InvHB s) (h : wstep s t = some (s', ev)) : InvHB s' := by
  hb_intro
  have hmx : s.cfg.wl = .mutex → s.pc t = .wLock → s.holder = none := by
    intro hm hp
    simp only [St.enabled, hp, hm, Bool.and_eq_true, Option.isNone_iff_eq_none] at hen
    exact hen.2.1
  simp only [St.enabled, hpc, Bool.and_eq_true, Option.isNone_iff_eq_none, decide_eq_true_eq] at hen
  simp only [wstep, hpc] at h
  repeat' split at h
  all_goals first | (cases h; done) | hb_finish

set_option maxHeartbeats 4000000 in
theorem hb_mLock (hpc : s.pc t = .mLock) (ht : t < s.cfg.W) (hen : s.enabled ⟨t, f⟩ = true)
    (hI : Inv s) (hE : InvE s) (hi : InvHB s) (h : wstep s t = some (s', ev)) : InvHB s' := by
  hb_intro
  have hmx : s.cfg.wl = .mutex → s.pc t = .wLock → s.holder = none := by
    intro hm hp
    simp only [St.enabled, hp, hm, Bool.and_eq_true, Option.isNone_iff_eq_none] at hen
    exact hen.2.1
  simp only [St.enabled, hpc, Bool.and_eq_true, Option.isNone_iff_eq_none, decide_eq_true_eq] at hen
  simp only [wstep, hpc] at h
  repeat' split at h
  all_goals first | (cases h; done) | hb_finish

set_option maxHeartbeats 4000000 in
theorem hb_mRdW (hpc : s.pc t = .mRdW) (ht : t < s.cfg.W) (hen : s.enabled ⟨t, f⟩ = true)
    (hI : Inv s) (hE : InvE s) (hi : InvHB s) (h : wstep s t = some (s', ev)) : InvHB s' := by
  hb_intro
  have hmx : s.cfg.wl = .mutex → s.pc t = .wLock → s.holder = none := by
    intro hm hp
    simp only [St.enabled, hp, hm, Bool.and_eq_true, Option.isNone_iff_eq_none] at hen
    exact hen.2.1
  simp only [St.enabled, hpc, Bool.and_eq_true, Option.isNone_iff_eq_none, decide_eq_true_eq] at hen
  simp only [wstep, hpc] at h
  repeat' split at h
  all_goals first | (cases h; done) | hb_finish

set_option maxHeartbeats 4000000 in
theorem hb_mRdR (wpos : Nat) (hpc : s.pc t = .mRdR wpos) (ht : t < s.cfg.W) (hen : s.enabled ⟨t, f⟩ = true)
    (hI : Inv s) (hE : InvE s) (hi : InvHB s) (h : wstep s t = some (s', ev)) : InvHB s' := by
  hb_intro
  have hmx : s.cfg.wl = .mutex → s.pc t = .wLock → s.holder = none := by
    intro hm hp
    simp only [St.enabled, hp, hm, Bool.and_eq_true, Option.isNone_iff_eq_none] at hen
    exact hen.2.1
  simp only [St.enabled, hpc, Bool.and_eq_true, Option.isNone_iff_eq_none, decide_eq_true_eq] at hen
  simp only [wstep, hpc] at h
  repeat' split at h
  all_goals first | (cases h; done) | hb_finish

set_option maxHeartbeats 4000000 in
theorem hb_mRdW2 (wpos : Nat) (hpc : s.pc t = .mRdW2 wpos) (ht : t < s.cfg.W) (hen : s.enabled ⟨t, f⟩ = true)
    (hI : Inv s) (hE : InvE s) (hi : InvHB s) (h : wstep s t = some (s', ev)) : InvHB s' := by
  hb_intro
  have hmx : s.cfg.wl = .mutex → s.pc t = .wLock → s.holder = none := by
    intro hm hp
    simp only [St.enabled, hp, hm, Bool.and_eq_true, Option.isNone_iff_eq_none] at hen
    exact hen.2.1
  simp only [St.enabled, hpc, Bool.and_eq_true, Option.isNone_iff_eq_none, decide_eq_true_eq] at hen
  simp only [wstep, hpc] at h
  repeat' split at h
  all_goals first | (cases h; done) | hb_finish

set_option maxHeartbeats 4000000 in
theorem hb_mWrB (wpos : Nat) (idx : Nat) (hpc : s.pc t = .mWrB wpos idx) (ht : t < s.cfg.W) (hen : s.enabled ⟨t, f⟩ = true)
    (hI : Inv s) (hE : InvE s) (hi : InvHB s) (h : wstep s t = some (s', ev)) : InvHB s' := by
  hb_intro
  have hmx : s.cfg.wl = .mutex → s.pc t = .wLock → s.holder = none := by
    intro hm hp
    simp only [St.enabled, hp, hm, Bool.and_eq_true, Option.isNone_iff_eq_none] at hen
    exact hen.2.1
  simp only [St.enabled, hpc, Bool.and_eq_true, Option.isNone_iff_eq_none, decide_eq_true_eq] at hen
  simp only [wstep, hpc] at h
  repeat' split at h
  all_goals first | (cases h; done) | hb_finish

set_option maxHeartbeats 4000000 in
theorem hb_mWrW (wpos : Nat) (hpc : s.pc t = .mWrW wpos) (ht : t < s.cfg.W) (hen : s.enabled ⟨t, f⟩ = true)
    (hI : Inv s) (hE : InvE s) (hi : InvHB s) (h : wstep s t = some (s', ev)) : InvHB s' := by
  hb_intro
  have hmx : s.cfg.wl = .mutex → s.pc t = .wLock → s.holder = none := by
    intro hm hp
    simp only [St.enabled, hp, hm, Bool.and_eq_true, Option.isNone_iff_eq_none] at hen
    exact hen.2.1
  simp only [St.enabled, hpc, Bool.and_eq_true, Option.isNone_iff_eq_none, decide_eq_true_eq] at hen
  simp only [wstep, hpc] at h
  repeat' split at h
  all_goals first | (cases h; done) | hb_finish

set_option maxHeartbeats 4000000 in
theorem hb_mUnlock (r : Ret) (hpc : s.pc t = .mUnlock r) (ht : t < s.cfg.W) (hen : s.enabled ⟨t, f⟩ = true)
    (hI : Inv s) (hE : InvE s) (hi : InvHB s) (h : wstep s t = some (s', ev)) : InvHB s' := by
  hb_intro
  have hmx : s.cfg.wl = .mutex → s.pc t = .wLock → s.holder = none := by
    intro hm hp
    simp only [St.enabled, hp, hm, Bool.and_eq_true, Option.isNone_iff_eq_none] at hen
    exact hen.2.1
  simp only [St.enabled, hpc, Bool.and_eq_true, Option.isNone_iff_eq_none, decide_eq_true_eq] at hen
  simp only [wstep, hpc] at h
  repeat' split at h
  all_goals first | (cases h; done) | hb_finish

set_option maxHeartbeats 4000000 in
theorem hb_wUnlock (r : Ret) (hpc : s.pc t = .wUnlock r) (ht : t < s.cfg.W) (hen : s.enabled ⟨t, f⟩ = true)
    (hI : Inv s) (hE : InvE s) (hi : InvHB s) (h : wstep s t = some (s', ev)) : InvHB s' := by
  hb_intro
  have hmx : s.cfg.wl = .mutex → s.pc t = .wLock → s.holder = none := by
    intro hm hp
    simp only [St.enabled, hp, hm, Bool.and_eq_true, Option.isNone_iff_eq_none] at hen
    exact hen.2.1
  simp only [St.enabled, hpc, Bool.and_eq_true, Option.isNone_iff_eq_none, decide_eq_true_eq] at hen
  simp only [wstep, hpc] at h
  repeat' split at h
  all_goals first | (cases h; done) | hb_finish

set_option maxHeartbeats 4000000 in
theorem hb_wUnlockWake (r : Ret) (hpc : s.pc t = .wUnlockWake r) (ht : t < s.cfg.W) (hen : s.enabled ⟨t, f⟩ = true)
    (hI : Inv s) (hE : InvE s) (hi : InvHB s) (h : wstep s t = some (s', ev)) : InvHB s' := by
  hb_intro
  have hmx : s.cfg.wl = .mutex → s.pc t = .wLock → s.holder = none := by
    intro hm hp
    simp only [St.enabled, hp, hm, Bool.and_eq_true, Option.isNone_iff_eq_none] at hen
    exact hen.2.1
  simp only [St.enabled, hpc, Bool.and_eq_true, Option.isNone_iff_eq_none, decide_eq_true_eq] at hen
  simp only [wstep, hpc] at h
  repeat' split at h
  all_goals first | (cases h; done) | hb_finish

set_option maxHeartbeats 4000000 in
theorem hb_wWake (hpc : s.pc t = .wWake) (ht : t < s.cfg.W) (hen : s.enabled ⟨t, f⟩ = true)
    (hI : Inv s) (hE : InvE s) (hi : InvHB s) (h : wstep s t = some (s', ev)) : InvHB s' := by
  hb_intro
  have hmx : s.cfg.wl = .mutex → s.pc t = .wLock → s.holder = none := by
    intro hm hp
    simp only [St.enabled, hp, hm, Bool.and_eq_true, Option.isNone_iff_eq_none] at hen
    exact hen.2.1
  simp only [St.enabled, hpc, Bool.and_eq_true, Option.isNone_iff_eq_none, decide_eq_true_eq] at hen
  simp only [wstep, hpc] at h
  repeat' split at h
  all_goals first | (cases h; done) | hb_finish

set_option maxHeartbeats 4000000 in
theorem hb_wYield (hpc : s.pc t = .wYield) (ht : t < s.cfg.W) (hen : s.enabled ⟨t, f⟩ = true)
    (hI : Inv s) (hE : InvE s) (hi : InvHB s) (h : wstep s t = some (s', ev)) : InvHB s' := by
  hb_intro
  have hmx : s.cfg.wl = .mutex → s.pc t = .wLock → s.holder = none := by
    intro hm hp
    simp only [St.enabled, hp, hm, Bool.and_eq_true, Option.isNone_iff_eq_none] at hen
    exact hen.2.1
  simp only [St.enabled, hpc, Bool.and_eq_true, Option.isNone_iff_eq_none, decide_eq_true_eq] at hen
  simp only [wstep, hpc] at h
  repeat' split at h
  all_goals first | (cases h; done) | hb_finish


/-! ### reader steps -/

theorem mem_of_getElem?_eq {l : List Msg} {i : Nat} {m : Msg} (h : l[i]? = some m) : m ∈ l :=
  List.mem_of_getElem? h

theorem rrPc_mode (s : St) (t : Nat) (d : Option Msg) :
    (rrPc s t d = .rmLock → s.cfg.rm = .mutex) ∧ (rrPc s t d = .rRdR → s.cfg.rm ≠ .mutex) := by
  unfold rrPc readReturned
  cases d <;> simp only [upd_same]
  · split
    · cases hrm : s.cfg.rm <;> simp
    · simp
  · simp

set_option hygiene false in
macro "hbr_intro" : tactic => `(tactic|
  (have hI1 := hI.hold
   have hI3 := hI.rmo
   have hI6 := hI.le1
   have hI11 := hI.rloc
   have hE1 := hE.e1
   obtain ⟨o1, o2, o3, o4, o5, o6, o7, o8, o9⟩ := hi
   rw [hpc] at o8 hI11
   simp only [RHB, RLoc] at o8 hI11
   have hen1 := hen
   simp only [St.enabled, hpc, Bool.and_eq_true, Option.isNone_iff_eq_none, decide_eq_true_eq] at hen1))

macro "hbr_proj" : tactic => `(tactic|
  (simp only [readReturned_cfg, readReturned_accepted, readReturned_delivered, readReturned_pc, readReturned_holder,
    readReturned_rmtx, readReturned_know, readReturned_relWC, readReturned_relWL, readReturned_relRM,
    readReturned_hbViol, cur, List.length_append, List.length_cons, List.length_nil] at *))

set_option hygiene false in
macro "hbr_finish" : tactic => `(tactic|
  (simp only [Option.some.injEq, Prod.mk.injEq] at h; obtain ⟨rfl, -⟩ := h
   refine ⟨?_, ?_, ?_, ?_, ?_, ?_, ?_, ?_, ?_⟩
   all_goals hbr_proj
   all_goals grind [upd, RHB, mem_joinK, inCS, inRM, rrPc_cases, rrPc_mode, readReturned_k_other, mem_of_getElem?_eq]))

set_option maxHeartbeats 4000000 in
theorem hbr_rRdR (hpc : s.pc s.cfg.W = .rRdR) (hen : s.enabled ⟨s.cfg.W, f⟩ = true)
    (hI : Inv s) (hE : InvE s) (hi : InvHB s) (h : rstep s s.cfg.W f = some (s', ev)) : InvHB s' := by
  hbr_intro
  simp only [rstep, hpc] at h
  repeat' split at h
  all_goals first | (cases h; done) | hbr_finish

set_option maxHeartbeats 4000000 in
theorem hbr_rLdW (rpos : Nat) (hpc : s.pc s.cfg.W = .rLdW rpos) (hen : s.enabled ⟨s.cfg.W, f⟩ = true)
    (hI : Inv s) (hE : InvE s) (hi : InvHB s) (h : rstep s s.cfg.W f = some (s', ev)) : InvHB s' := by
  hbr_intro
  simp only [rstep, hpc] at h
  repeat' split at h
  all_goals first | (cases h; done) | hbr_finish

set_option maxHeartbeats 4000000 in
theorem hbr_rFwait (rpos : Nat) (wpos : Nat) (hpc : s.pc s.cfg.W = .rFwait rpos wpos) (hen : s.enabled ⟨s.cfg.W, f⟩ = true)
    (hI : Inv s) (hE : InvE s) (hi : InvHB s) (h : rstep s s.cfg.W f = some (s', ev)) : InvHB s' := by
  hbr_intro
  simp only [rstep, hpc] at h
  repeat' split at h
  all_goals first | (cases h; done) | hbr_finish

set_option maxHeartbeats 4000000 in
theorem hbr_rWoken (rpos : Nat) (hpc : s.pc s.cfg.W = .rWoken rpos) (hen : s.enabled ⟨s.cfg.W, f⟩ = true)
    (hI : Inv s) (hE : InvE s) (hi : InvHB s) (h : rstep s s.cfg.W f = some (s', ev)) : InvHB s' := by
  hbr_intro
  simp only [rstep, hpc] at h
  repeat' split at h
  all_goals first | (cases h; done) | hbr_finish

set_option maxHeartbeats 4000000 in
theorem hbr_rRdB (rpos : Nat) (hpc : s.pc s.cfg.W = .rRdB rpos) (hen : s.enabled ⟨s.cfg.W, f⟩ = true)
    (hI : Inv s) (hE : InvE s) (hi : InvHB s) (h : rstep s s.cfg.W f = some (s', ev)) : InvHB s' := by
  hbr_intro
  simp only [rstep, hpc] at h
  repeat' split at h
  all_goals first | (cases h; done) | hbr_finish

set_option maxHeartbeats 4000000 in
theorem hbr_rStR (rpos : Nat) (d : Option Msg) (hpc : s.pc s.cfg.W = .rStR rpos d) (hen : s.enabled ⟨s.cfg.W, f⟩ = true)
    (hI : Inv s) (hE : InvE s) (hi : InvHB s) (h : rstep s s.cfg.W f = some (s', ev)) : InvHB s' := by
  hbr_intro
  simp only [rstep, hpc] at h
  repeat' split at h
  all_goals first | (cases h; done) | hbr_finish

set_option maxHeartbeats 4000000 in
theorem hbr_rPay (m : Msg) (hpc : s.pc s.cfg.W = .rPay m) (hen : s.enabled ⟨s.cfg.W, f⟩ = true)
    (hI : Inv s) (hE : InvE s) (hi : InvHB s) (h : rstep s s.cfg.W f = some (s', ev)) : InvHB s' := by
  hbr_intro
  simp only [rstep, hpc] at h
  repeat' split at h
  all_goals first | (cases h; done) | hbr_finish

set_option maxHeartbeats 4000000 in
theorem hbr_rmLock (hpc : s.pc s.cfg.W = .rmLock) (hen : s.enabled ⟨s.cfg.W, f⟩ = true)
    (hI : Inv s) (hE : InvE s) (hi : InvHB s) (h : rstep s s.cfg.W f = some (s', ev)) : InvHB s' := by
  hbr_intro
  simp only [rstep, hpc] at h
  repeat' split at h
  all_goals first | (cases h; done) | hbr_finish

set_option maxHeartbeats 4000000 in
theorem hbr_rmRdR (hpc : s.pc s.cfg.W = .rmRdR) (hen : s.enabled ⟨s.cfg.W, f⟩ = true)
    (hI : Inv s) (hE : InvE s) (hi : InvHB s) (h : rstep s s.cfg.W f = some (s', ev)) : InvHB s' := by
  hbr_intro
  simp only [rstep, hpc] at h
  repeat' split at h
  all_goals first | (cases h; done) | hbr_finish

set_option maxHeartbeats 4000000 in
theorem hbr_rmRdW (rpos : Nat) (hpc : s.pc s.cfg.W = .rmRdW rpos) (hen : s.enabled ⟨s.cfg.W, f⟩ = true)
    (hI : Inv s) (hE : InvE s) (hi : InvHB s) (h : rstep s s.cfg.W f = some (s', ev)) : InvHB s' := by
  hbr_intro
  simp only [rstep, hpc] at h
  repeat' split at h
  all_goals first | (cases h; done) | hbr_finish

set_option maxHeartbeats 4000000 in
theorem hbr_rmCvWait (hpc : s.pc s.cfg.W = .rmCvWait) (hen : s.enabled ⟨s.cfg.W, f⟩ = true)
    (hI : Inv s) (hE : InvE s) (hi : InvHB s) (h : rstep s s.cfg.W f = some (s', ev)) : InvHB s' := by
  hbr_intro
  simp only [rstep, hpc] at h
  repeat' split at h
  all_goals first | (cases h; done) | hbr_finish

set_option maxHeartbeats 4000000 in
theorem hbr_rmCvBlocked (hpc : s.pc s.cfg.W = .rmCvBlocked) (hen : s.enabled ⟨s.cfg.W, f⟩ = true)
    (hI : Inv s) (hE : InvE s) (hi : InvHB s) (h : rstep s s.cfg.W f = some (s', ev)) : InvHB s' := by
  hbr_intro
  simp only [rstep, hpc] at h
  repeat' split at h
  all_goals first | (cases h; done) | hbr_finish

set_option maxHeartbeats 4000000 in
theorem hbr_rmCvSignaled (hpc : s.pc s.cfg.W = .rmCvSignaled) (hen : s.enabled ⟨s.cfg.W, f⟩ = true)
    (hI : Inv s) (hE : InvE s) (hi : InvHB s) (h : rstep s s.cfg.W f = some (s', ev)) : InvHB s' := by
  hbr_intro
  simp only [rstep, hpc] at h
  repeat' split at h
  all_goals first | (cases h; done) | hbr_finish

set_option maxHeartbeats 4000000 in
theorem hbr_rmRdB (rpos : Nat) (hpc : s.pc s.cfg.W = .rmRdB rpos) (hen : s.enabled ⟨s.cfg.W, f⟩ = true)
    (hI : Inv s) (hE : InvE s) (hi : InvHB s) (h : rstep s s.cfg.W f = some (s', ev)) : InvHB s' := by
  hbr_intro
  simp only [rstep, hpc] at h
  repeat' split at h
  all_goals first | (cases h; done) | hbr_finish

set_option maxHeartbeats 4000000 in
theorem hbr_rmWrR (rpos : Nat) (d : Option Msg) (hpc : s.pc s.cfg.W = .rmWrR rpos d) (hen : s.enabled ⟨s.cfg.W, f⟩ = true)
    (hI : Inv s) (hE : InvE s) (hi : InvHB s) (h : rstep s s.cfg.W f = some (s', ev)) : InvHB s' := by
  hbr_intro
  simp only [rstep, hpc] at h
  repeat' split at h
  all_goals first | (cases h; done) | hbr_finish

set_option maxHeartbeats 4000000 in
theorem hbr_rmUnlock (d : Option Msg) (hpc : s.pc s.cfg.W = .rmUnlock d) (hen : s.enabled ⟨s.cfg.W, f⟩ = true)
    (hI : Inv s) (hE : InvE s) (hi : InvHB s) (h : rstep s s.cfg.W f = some (s', ev)) : InvHB s' := by
  hbr_intro
  simp only [rstep, hpc] at h
  repeat' split at h
  all_goals first | (cases h; done) | hbr_finish


/-! ### all steps, all reachable states -/

theorem wstep_invHB (ht : t < s.cfg.W) (hen : s.enabled ⟨t, f⟩ = true) (hI : Inv s) (hE : InvE s)
    (hi : InvHB s) (h : wstep s t = some (s', ev)) : InvHB s' := by
  cases hpc : s.pc t with
  | wPay => exact hb_wPay hpc ht hen hI hE hi h
  | wLock => exact hb_wLock hpc ht hen hI hE hi h
  | wSpinYield => exact hb_wSpinYield hpc ht hen hI hE hi h
  | wFwait e => exact hb_wFwait e hpc ht hen hI hE hi h
  | wWoken => exact hb_wWoken hpc ht hen hI hE hi h
  | sLdR => exact hb_sLdR hpc ht hen hI hE hi h
  | sRdW rpos => exact hb_sRdW rpos hpc ht hen hI hE hi h
  | cRdW2 wpos => exact hb_cRdW2 wpos hpc ht hen hI hE hi h
  | cWrB wpos idx => exact hb_cWrB wpos idx hpc ht hen hI hE hi h
  | cSt wpos => exact hb_cSt wpos hpc ht hen hI hE hi h
  | bRdW => exact hb_bRdW hpc ht hen hI hE hi h
  | bRdC wpos => exact hb_bRdC wpos hpc ht hen hI hE hi h
  | bLdR wpos => exact hb_bLdR wpos hpc ht hen hI hE hi h
  | bWrC wpos v => exact hb_bWrC wpos v hpc ht hen hI hE hi h
  | bRdC2 wpos => exact hb_bRdC2 wpos hpc ht hen hI hE hi h
  | mLock => exact hb_mLock hpc ht hen hI hE hi h
  | mRdW => exact hb_mRdW hpc ht hen hI hE hi h
  | mRdR wpos => exact hb_mRdR wpos hpc ht hen hI hE hi h
  | mRdW2 wpos => exact hb_mRdW2 wpos hpc ht hen hI hE hi h
  | mWrB wpos idx => exact hb_mWrB wpos idx hpc ht hen hI hE hi h
  | mWrW wpos => exact hb_mWrW wpos hpc ht hen hI hE hi h
  | mUnlock r => exact hb_mUnlock r hpc ht hen hI hE hi h
  | wUnlock r => exact hb_wUnlock r hpc ht hen hI hE hi h
  | wUnlockWake r => exact hb_wUnlockWake r hpc ht hen hI hE hi h
  | wWake => exact hb_wWake hpc ht hen hI hE hi h
  | wYield => exact hb_wYield hpc ht hen hI hE hi h
  | _ => simp [wstep, hpc] at h

theorem rstep_invHB (hen : s.enabled ⟨s.cfg.W, f⟩ = true) (hI : Inv s) (hE : InvE s)
    (hi : InvHB s) (h : rstep s s.cfg.W f = some (s', ev)) : InvHB s' := by
  cases hpc : s.pc s.cfg.W with
  | rRdR => exact hbr_rRdR hpc hen hI hE hi h
  | rLdW rpos => exact hbr_rLdW rpos hpc hen hI hE hi h
  | rFwait rpos wpos => exact hbr_rFwait rpos wpos hpc hen hI hE hi h
  | rWoken rpos => exact hbr_rWoken rpos hpc hen hI hE hi h
  | rRdB rpos => exact hbr_rRdB rpos hpc hen hI hE hi h
  | rStR rpos d => exact hbr_rStR rpos d hpc hen hI hE hi h
  | rPay m => exact hbr_rPay m hpc hen hI hE hi h
  | rmLock => exact hbr_rmLock hpc hen hI hE hi h
  | rmRdR => exact hbr_rmRdR hpc hen hI hE hi h
  | rmRdW rpos => exact hbr_rmRdW rpos hpc hen hI hE hi h
  | rmCvWait => exact hbr_rmCvWait hpc hen hI hE hi h
  | rmCvBlocked => exact hbr_rmCvBlocked hpc hen hI hE hi h
  | rmCvSignaled => exact hbr_rmCvSignaled hpc hen hI hE hi h
  | rmRdB rpos => exact hbr_rmRdB rpos hpc hen hI hE hi h
  | rmWrR rpos d => exact hbr_rmWrR rpos d hpc hen hI hE hi h
  | rmUnlock d => exact hbr_rmUnlock d hpc hen hI hE hi h
  | _ => simp [rstep, hpc] at h

/-- the interrupted futex wait preserves the happens-before invariant: knowledge sets are untouched -/
theorem spur_invHB {s : St} {t : Nat} {q : Pc} (hi : InvHB s)
    (hq : (∃ rpos, s.pc t = .rBlocked rpos ∧ q = .rLdW rpos) ∨ (s.pc t = .wBlocked ∧ q = .wLock)) :
    InvHB { s with pc := upd s.pc t q } := by
  obtain ⟨h1, h2, h3, h4, h5, h6, h7, h8, h9⟩ := hi
  refine ⟨h1, ?_, h3, h4, h5, h6, h7, ?_, h9⟩
  · intro u hu n1 n2
    by_cases hut : u = t
    · subst hut
      apply h2 u hu
      · rcases hq with ⟨rpos, hp, -⟩ | ⟨hp, -⟩ <;> simp [hp]
      · rcases hq with ⟨rpos, hp, -⟩ | ⟨hp, -⟩ <;> simp [hp]
    · simp only [upd_other _ _ _ _ hut] at n1 n2; exact h2 u hu n1 n2
  · by_cases hW : s.cfg.W = t
    · subst hW
      simp only [upd_same]
      rcases hq with ⟨rpos, hp, rfl⟩ | ⟨hp, rfl⟩
      · have := h8; rw [hp] at this; simpa [RHB] using this
      · simp [RHB]
    · simp only [upd_other _ _ _ _ hW]; exact h8

theorem step_invHB {s s' : St} {tok : Tok} {ev : List String} (hI : Inv s) (hE : InvE s) (hi : InvHB s)
    (h : step s tok = some (s', ev)) : InvHB s' := by
  rcases step_cases h with ⟨-, q, rfl, hq⟩ | h
  · exact spur_invHB hi hq
  unfold stepMain at h
  split at h
  · cases h
  next hen =>
    have hen' : s.enabled tok = true := by simpa using hen
    split at h
    next hlt => exact wstep_invHB (f := tok.flag) hlt hen' hI hE hi h
    next hge =>
      have hle : tok.tid ≤ s.cfg.W := by
        simp only [St.enabled, Bool.and_eq_true, decide_eq_true_eq] at hen'
        exact hen'.1
      have hW : tok.tid = s.cfg.W := Nat.le_antisymm hle (Nat.le_of_not_lt hge)
      have hen2 : s.enabled ⟨s.cfg.W, tok.flag⟩ = true := by rw [← hW]; exact hen'
      rw [hW] at h
      exact rstep_invHB hen2 hI hE hi h

theorem init_invHB (c : Cfg) : InvHB (mkInit c) := by
  refine ⟨?_, ?_, ?_, ?_, ?_, ?_, ?_, ?_, ?_⟩ <;> simp only [mkInit]
  · intro m hm; cases hm
  · intro t ht h1 h2
    simp only [ht, if_true] at h1 h2
    split at h1 <;> simp_all
  · intro t h; cases h
  · intro _ _ m hm; cases hm
  · intro _ m hm; cases hm
  · intro _ t h; cases h
  · intro _ _ m hm; cases hm
  · simp only [Nat.lt_irrefl, if_false, if_true]
    split
    · simp [RHB]
    · cases hrm : c.rm <;> simp [RHB]

/-- all three invariants hold after every schedule -/
theorem reach_all (c : Cfg) (hv : Valid c) (s : St) (hr : Reach step (mkInit c) s) :
    Inv s ∧ InvE s ∧ InvHB s :=
  Reach.inv (fun s => Inv s ∧ InvE s ∧ InvHB s) ⟨init_inv c hv, init_invE c, init_invHB c⟩
    (fun _ _ _ _ hi h => ⟨step_inv hi.1 h, step_invE hi.2.1 h, step_invHB hi.1 hi.2.1 hi.2.2 h⟩) s hr

end MgProof.C01
