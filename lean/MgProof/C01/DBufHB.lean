import MgProof.C01.DBufInv
import MgProof.C01.HB
/-!
# C01 — double buffer: the hand-over is a happens-before edge (through the mutex)
-/
namespace MgProof.C01.DBuf
open MgModel.Conc MgModel.C01.DBuf
open MgModel.C01 (Msg joinK Ret)
set_option linter.unusedSimpArgs false
set_option linter.unusedVariables false

/-- after the swap (and until its next `read`) the consumer knows every item of the front buffer -/
def frontKnown (front kn : List Msg) : Pc → Prop
  | .rSignal => ∀ m ∈ front, m ∈ kn
  | .rUnlock => ∀ m ∈ front, m ∈ kn
  | .rItem _ => ∀ m ∈ front, m ∈ kn
  | _ => True

structure InvK (s : St) : Prop where
  curK : ∀ t, t < s.cfg.W → s.pc t ≠ .dPay → s.pc t ≠ .done → (⟨t, s.k t⟩ : Msg) ∈ s.know t
  free : s.mtx = none → ∀ m ∈ s.back, m ∈ s.relM
  held : ∀ t, s.mtx = some t → ∀ m ∈ s.back, m ∈ s.know t
  cons : frontKnown s.front (s.know s.cfg.W) (s.pc s.cfg.W)
  viol : s.hbViol = 0

theorem mem_of_get {l : List Msg} {i : Nat} {m : Msg} (h : l[i]? = some m) : m ∈ l := List.mem_of_getElem? h

variable {s s' : St} {tok : Tok} {ev : List String}

set_option hygiene false in
macro "k_intro" : tactic => `(tactic|
  (have hle : tok.tid ≤ s.cfg.W := by
     simp only [St.enabled, Bool.and_eq_true, decide_eq_true_eq] at hen; exact hen.1
   have hown := hi.own
   have hfw := firstWaiting_spec s.pc s.cfg.W 0
   have hrdr := hi.rdr
   have hwtr := hi.wtr
   have hmine : inM (s.pc tok.tid) = true → s.mtx = some tok.tid := fun e => (hown tok.tid).2 ⟨hle, e⟩
   have hfree : (s.pc tok.tid = .dLock ∨ s.pc tok.tid = .rLock ∨ s.pc tok.tid = .dCvSignaled ∨
       s.pc tok.tid = .rCvSignaled ∨ s.pc tok.tid = .dCvBlocked ∨ s.pc tok.tid = .rCvBlocked) → s.mtx = none := by
     intro hp
     rcases hp with hp | hp | hp | hp | hp | hp <;>
       (simp only [St.enabled, hp, Bool.and_eq_true, Option.isNone_iff_eq_none] at hen; exact hen.2.1)
   have hkind : tok.tid = s.cfg.W ∨ (tok.tid < s.cfg.W ∧ (isW (s.pc tok.tid) = true ∨ s.pc tok.tid = .done)) := by
     rcases Nat.lt_or_ge tok.tid s.cfg.W with hlt | hge
     · exact Or.inr ⟨hlt, hwtr _ hlt⟩
     · exact Or.inl (Nat.le_antisymm hle hge)
   obtain ⟨k1, k2, k3, k4, k5⟩ := hk))

set_option hygiene false in
macro "k_finish" : tactic => `(tactic|
  (simp only [Option.some.injEq, Prod.mk.injEq] at h; obtain ⟨rfl, -⟩ := h
   refine ⟨?_, ?_, ?_, ?_, ?_⟩
   all_goals simp only [MgModel.C01.DBuf.cur] at *
   all_goals grind [upd, frontKnown, mem_joinK, inM, isW, mem_of_get]))

set_option maxHeartbeats 2000000 in
theorem k_dPay (hpc : s.pc tok.tid = .dPay) (hen : s.enabled tok = true) (hi : Inv s)
    (hk : InvK s) (h : step s tok = some (s', ev)) : InvK s' := by
  k_intro
  simp only [step, hen, Bool.not_true, Bool.false_eq_true, if_false, hpc, dEnter, rEnter, nextMsg] at h
  repeat' split at h
  all_goals first | (cases h; done) | k_finish

set_option maxHeartbeats 2000000 in
theorem k_dLock (hpc : s.pc tok.tid = .dLock) (hen : s.enabled tok = true) (hi : Inv s)
    (hk : InvK s) (h : step s tok = some (s', ev)) : InvK s' := by
  k_intro
  simp only [step, hen, Bool.not_true, Bool.false_eq_true, if_false, hpc, dEnter, rEnter, nextMsg] at h
  repeat' split at h
  all_goals first | (cases h; done) | k_finish

set_option maxHeartbeats 2000000 in
theorem k_dCvWait (hpc : s.pc tok.tid = .dCvWait) (hen : s.enabled tok = true) (hi : Inv s)
    (hk : InvK s) (h : step s tok = some (s', ev)) : InvK s' := by
  k_intro
  simp only [step, hen, Bool.not_true, Bool.false_eq_true, if_false, hpc, dEnter, rEnter, nextMsg] at h
  repeat' split at h
  all_goals first | (cases h; done) | k_finish

set_option maxHeartbeats 2000000 in
theorem k_dCvBlocked (hpc : s.pc tok.tid = .dCvBlocked) (hen : s.enabled tok = true) (hi : Inv s)
    (hk : InvK s) (h : step s tok = some (s', ev)) : InvK s' := by
  k_intro
  simp only [step, hen, Bool.not_true, Bool.false_eq_true, if_false, hpc, dEnter, rEnter, nextMsg] at h
  repeat' split at h
  all_goals first | (cases h; done) | k_finish

set_option maxHeartbeats 2000000 in
theorem k_dCvSignaled (hpc : s.pc tok.tid = .dCvSignaled) (hen : s.enabled tok = true) (hi : Inv s)
    (hk : InvK s) (h : step s tok = some (s', ev)) : InvK s' := by
  k_intro
  simp only [step, hen, Bool.not_true, Bool.false_eq_true, if_false, hpc, dEnter, rEnter, nextMsg] at h
  repeat' split at h
  all_goals first | (cases h; done) | k_finish

set_option maxHeartbeats 2000000 in
theorem k_dSignal (hpc : s.pc tok.tid = .dSignal) (hen : s.enabled tok = true) (hi : Inv s)
    (hk : InvK s) (h : step s tok = some (s', ev)) : InvK s' := by
  k_intro
  simp only [step, hen, Bool.not_true, Bool.false_eq_true, if_false, hpc, dEnter, rEnter, nextMsg] at h
  repeat' split at h
  all_goals first | (cases h; done) | k_finish

set_option maxHeartbeats 2000000 in
theorem k_dUnlock (r : Ret) (hpc : s.pc tok.tid = .dUnlock r) (hen : s.enabled tok = true) (hi : Inv s)
    (hk : InvK s) (h : step s tok = some (s', ev)) : InvK s' := by
  k_intro
  simp only [step, hen, Bool.not_true, Bool.false_eq_true, if_false, hpc, dEnter, rEnter, nextMsg] at h
  repeat' split at h
  all_goals first | (cases h; done) | k_finish

set_option maxHeartbeats 2000000 in
theorem k_dYield (hpc : s.pc tok.tid = .dYield) (hen : s.enabled tok = true) (hi : Inv s)
    (hk : InvK s) (h : step s tok = some (s', ev)) : InvK s' := by
  k_intro
  simp only [step, hen, Bool.not_true, Bool.false_eq_true, if_false, hpc, dEnter, rEnter, nextMsg] at h
  repeat' split at h
  all_goals first | (cases h; done) | k_finish

set_option maxHeartbeats 2000000 in
theorem k_rLock (hpc : s.pc tok.tid = .rLock) (hen : s.enabled tok = true) (hi : Inv s)
    (hk : InvK s) (h : step s tok = some (s', ev)) : InvK s' := by
  k_intro
  simp only [step, hen, Bool.not_true, Bool.false_eq_true, if_false, hpc, dEnter, rEnter, nextMsg] at h
  repeat' split at h
  all_goals first | (cases h; done) | k_finish

set_option maxHeartbeats 2000000 in
theorem k_rCvWait (hpc : s.pc tok.tid = .rCvWait) (hen : s.enabled tok = true) (hi : Inv s)
    (hk : InvK s) (h : step s tok = some (s', ev)) : InvK s' := by
  k_intro
  simp only [step, hen, Bool.not_true, Bool.false_eq_true, if_false, hpc, dEnter, rEnter, nextMsg] at h
  repeat' split at h
  all_goals first | (cases h; done) | k_finish

set_option maxHeartbeats 2000000 in
theorem k_rCvBlocked (hpc : s.pc tok.tid = .rCvBlocked) (hen : s.enabled tok = true) (hi : Inv s)
    (hk : InvK s) (h : step s tok = some (s', ev)) : InvK s' := by
  k_intro
  simp only [step, hen, Bool.not_true, Bool.false_eq_true, if_false, hpc, dEnter, rEnter, nextMsg] at h
  repeat' split at h
  all_goals first | (cases h; done) | k_finish

set_option maxHeartbeats 2000000 in
theorem k_rCvSignaled (hpc : s.pc tok.tid = .rCvSignaled) (hen : s.enabled tok = true) (hi : Inv s)
    (hk : InvK s) (h : step s tok = some (s', ev)) : InvK s' := by
  k_intro
  simp only [step, hen, Bool.not_true, Bool.false_eq_true, if_false, hpc, dEnter, rEnter, nextMsg] at h
  repeat' split at h
  all_goals first | (cases h; done) | k_finish

set_option maxHeartbeats 2000000 in
theorem k_rSignal (hpc : s.pc tok.tid = .rSignal) (hen : s.enabled tok = true) (hi : Inv s)
    (hk : InvK s) (h : step s tok = some (s', ev)) : InvK s' := by
  k_intro
  simp only [step, hen, Bool.not_true, Bool.false_eq_true, if_false, hpc, dEnter, rEnter, nextMsg] at h
  repeat' split at h
  all_goals first | (cases h; done) | k_finish

set_option maxHeartbeats 2000000 in
theorem k_rUnlock (hpc : s.pc tok.tid = .rUnlock) (hen : s.enabled tok = true) (hi : Inv s)
    (hk : InvK s) (h : step s tok = some (s', ev)) : InvK s' := by
  k_intro
  simp only [step, hen, Bool.not_true, Bool.false_eq_true, if_false, hpc, dEnter, rEnter, nextMsg] at h
  repeat' split at h
  all_goals first | (cases h; done) | k_finish

set_option maxHeartbeats 2000000 in
theorem k_rItem (i : Nat) (hpc : s.pc tok.tid = .rItem i) (hen : s.enabled tok = true) (hi : Inv s)
    (hk : InvK s) (h : step s tok = some (s', ev)) : InvK s' := by
  k_intro
  simp only [step, hen, Bool.not_true, Bool.false_eq_true, if_false, hpc, dEnter, rEnter, nextMsg] at h
  repeat' split at h
  all_goals first | (cases h; done) | k_finish

theorem stepK (hi : Inv s) (hk : InvK s) (h : step s tok = some (s', ev)) : InvK s' := by
  cases hen : s.enabled tok with
  | false => simp [step, hen] at h
  | true =>
    cases hpc : s.pc tok.tid with
    | dPay => exact k_dPay hpc hen hi hk h
    | dLock => exact k_dLock hpc hen hi hk h
    | dCvWait => exact k_dCvWait hpc hen hi hk h
    | dCvBlocked => exact k_dCvBlocked hpc hen hi hk h
    | dCvSignaled => exact k_dCvSignaled hpc hen hi hk h
    | dSignal => exact k_dSignal hpc hen hi hk h
    | dUnlock r => exact k_dUnlock r hpc hen hi hk h
    | dYield => exact k_dYield hpc hen hi hk h
    | rLock => exact k_rLock hpc hen hi hk h
    | rCvWait => exact k_rCvWait hpc hen hi hk h
    | rCvBlocked => exact k_rCvBlocked hpc hen hi hk h
    | rCvSignaled => exact k_rCvSignaled hpc hen hi hk h
    | rSignal => exact k_rSignal hpc hen hi hk h
    | rUnlock => exact k_rUnlock hpc hen hi hk h
    | rItem i => exact k_rItem i hpc hen hi hk h
    | done => simp [step, hen, hpc] at h

theorem initK (c : Cfg) : InvK (mkInit c) := by
  refine ⟨?_, ?_, ?_, ?_, rfl⟩ <;> simp only [mkInit]
  · intro t ht h1 h2
    simp only [ht, if_true] at h1 h2
    split at h1 <;> simp_all
  · intro _ m hm; cases hm
  · intro t h; cases h
  · simp only [Nat.lt_irrefl, if_false, if_true]
    split <;> simp [frontKnown]

theorem reachK (c : Cfg) (s : St) (hr : Reach step (mkInit c) s) : Inv s ∧ InvK s :=
  Reach.inv (fun s => Inv s ∧ InvK s) ⟨init_inv c, initK c⟩
    (fun _ _ _ _ hi h => ⟨step_inv hi.1 h, stepK hi.1 hi.2 h⟩) s hr

end MgProof.C01.DBuf
