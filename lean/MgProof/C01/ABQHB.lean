import MgProof.C01.ABQInv
import MgProof.C01.HB
/-!
# C01 — array blocking queue: the hand-over is a happens-before edge (through the mutex)
-/
namespace MgProof.C01.ABQ
open MgModel.Conc MgModel.C01.ABQ
open MgModel.C01 (Msg joinK)
set_option linter.unusedSimpArgs false
set_option linter.unusedVariables false

/-- what a consumer knows about the message it holds -/
def CHB (kn : List Msg) : Pc → Prop
  | .cSignal d => ∀ m, d = some m → m ∈ kn
  | .cUnlock d => ∀ m, d = some m → m ∈ kn
  | .cPay m => m ∈ kn
  | _ => True

structure InvK (s : St) : Prop where
  curK : ∀ t, t < s.cfg.P + s.cfg.C → s.pc t ≠ .pPay → s.pc t ≠ .done →
    (∀ m, s.pc t ≠ .cPay m) → (∀ d, s.pc t ≠ .cSignal d) → (∀ d, s.pc t ≠ .cUnlock d) →
    s.pc t ≠ .cLock → s.pc t ≠ .cCvWait → s.pc t ≠ .cCvBlocked → s.pc t ≠ .cCvSignaled →
    (⟨t, s.k t⟩ : Msg) ∈ s.know t
  free : s.mtx = none → ∀ m ∈ s.puts, m ∈ s.relM
  held : ∀ t, s.mtx = some t → ∀ m ∈ s.puts, m ∈ s.know t
  cons : ∀ t, t < s.cfg.P + s.cfg.C → CHB (s.know t) (s.pc t)
  viol : s.hbViol = 0

theorem mem_of_get {l : List Msg} {i : Nat} {m : Msg} (h : l[i]? = some m) : m ∈ l := List.mem_of_getElem? h

variable {s s' : St} {tok : Tok} {ev : List String}

set_option maxHeartbeats 4000000 in
theorem stepK (hi : Inv s) (hk : InvK s) (h : step s tok = some (s', ev)) : InvK s' := by
  cases hen : s.enabled tok with
  | false => simp [step, hen] at h
  | true =>
    have hown := hi.own
    have hslot := hi.slots s.taken.length (Nat.le_refl _)
    have hcnt := hi.count
    have htk := hi.takeI
    have hfw := firstWaiting_spec s.pc
    have hlt : tok.tid < s.cfg.P + s.cfg.C := by
      simp only [St.enabled, Bool.and_eq_true, decide_eq_true_eq] at hen; exact hen.1
    obtain ⟨k1, k2, k3, k4, k5⟩ := hk
    have hfree : (s.pc tok.tid = .pLock ∨ s.pc tok.tid = .cLock ∨ s.pc tok.tid = .pCvSignaled ∨
        s.pc tok.tid = .cCvSignaled ∨ s.pc tok.tid = .pCvBlocked ∨ s.pc tok.tid = .cCvBlocked) → s.mtx = none := by
      intro hp
      rcases hp with hp | hp | hp | hp | hp | hp <;>
        (simp only [St.enabled, hp, Bool.and_eq_true, Option.isNone_iff_eq_none] at hen; exact hen.2.1)
    have hmine : inM (s.pc tok.tid) = true → s.mtx = some tok.tid := fun e => (hown tok.tid).2 ⟨hlt, e⟩
    have hck := k4 tok.tid hlt
    cases hpc : s.pc tok.tid <;>
      simp only [step, hen, Bool.not_true, Bool.false_eq_true, if_false, hpc, pEnter, cEnter, nextConsumer] at h
    case done => cases h
    all_goals
      rw [hpc] at hck
      simp only [CHB] at hck
      (repeat' split at h)
      all_goals first
        | (cases h; done)
        | (simp only [Option.some.injEq, Prod.mk.injEq] at h; obtain ⟨rfl, -⟩ := h
           refine ⟨?_, ?_, ?_, ?_, ?_⟩
           all_goals simp only [MgModel.C01.ABQ.cur] at *
           all_goals grind [upd, CHB, mem_joinK, inM, mem_of_get])


theorem initK (c : Cfg) : InvK (mkInit c) := by
  refine ⟨?_, ?_, ?_, ?_, rfl⟩ <;> simp only [mkInit]
  · intro t ht h1 h2 h3 h4 h5 h6 h7 h8 h9
    exfalso
    repeat' split at h1
    all_goals simp_all
  · intro _ m hm; cases hm
  · intro t h; cases h
  · intro t ht
    repeat' split
    all_goals simp [CHB]

theorem reachK (c : Cfg) (hc : 0 < c.cap) (s : St) (hr : Reach step (mkInit c) s) : Inv s ∧ InvK s :=
  Reach.inv (fun s => Inv s ∧ InvK s) ⟨init_inv c hc, initK c⟩
    (fun _ _ _ _ hi h => ⟨step_inv hi.1 h, stepK hi.1 hi.2 h⟩) s hr

end MgProof.C01.ABQ
