import MgProof.C14.LoopInv
/-! C14: the bookkeeping invariant of the handed-over contexts: every context is in exactly one
place (hand-over queue, registered list, released, dropped), never registered twice, never touched
after its release. Property theorems: `Props.lean`. -/
namespace MgProof.C14
open MgModel.Conc MgModel.C14

theorem cnt_snoc (l : List Ctx) (a c : Ctx) : (l ++ [a]).count c = l.count c + (if a = c then 1 else 0) := by
  rw [List.count_append, List.count_singleton]
  by_cases h : a = c <;> simp [h]

theorem cnt_cons (l : List Ctx) (a c : Ctx) : (a :: l).count c = l.count c + (if a = c then 1 else 0) := by
  rw [List.count_cons]
  by_cases h : a = c <;> simp [h]

theorem filter_mem_len_zero (cs l : List Ctx) (h : ∀ c ∈ cs, c ∉ l) :
    (cs.filter (· ∈ l)).length = 0 := by
  rw [List.length_eq_zero_iff, List.filter_eq_nil_iff]
  intro a ha
  simpa using h a ha

/-- 1 for the pre-registered I/O context -/
def ioOne (cfg : Cfg) (c : Ctx) : Nat := if cfg.ioCtx = true ∧ c = cfg.ioId then 1 else 0

structure CtxI (cfg : Cfg) (s : St) : Prop where
  fr1  : ∀ t i r, s.pc t = .hLock i r → ∀ d ∈ s.handed, d.1 = t → d.2 < i
  fr2  : ∀ t i r, s.pc t = .hUnlock i r → ∀ d ∈ s.handed, d.1 = t → d.2 ≤ i
  fr3  : ∀ t i r, s.pc t = .hWake i r → ∀ d ∈ s.handed, d.1 = t → d.2 ≤ i
  hnd  : s.handed.Nodup
  hbd  : ∀ d ∈ s.handed, d.1 < cfg.n
  /-- every context is in exactly one place -/
  part : ∀ c, s.queue.count c + s.reg.count c + s.relLog.count c + s.lost.count c
           = s.handed.count c + ioOne cfg c
  /-- a context leaves the queue before it is registered, and only once -/
  rl   : ∀ c, s.regLog.count c + s.queue.count c ≤ s.handed.count c
  uaf  : s.uaf = 0
  nolost : cfg.fix.addFail = true → s.lost = []
  ioreg : cfg.ioCtx = true → gone (s.pc cfg.lt) = false → cfg.ioId ∈ s.reg
  regE : gone (s.pc cfg.lt) = true → s.reg = []
  cnt  : (gone (s.pc cfg.lt) = true → s.clears = 1) ∧ (gone (s.pc cfg.lt) = false → s.clears = 0) ∧
         (s.pc cfg.lt = .exUnlock ∨ s.pc cfg.lt = .done → s.exits = 1) ∧
         (¬ (s.pc cfg.lt = .exUnlock ∨ s.pc cfg.lt = .done) → s.exits = 0)

/-- every context is in at most one place -/
theorem CtxI.total_le_one {cfg : Cfg} {s : St} (h : CtxI cfg s) (c : Ctx) :
    s.queue.count c + s.reg.count c + s.relLog.count c + s.lost.count c ≤ 1 := by
  rw [h.part c]
  have h1 : s.handed.count c ≤ 1 := List.nodup_iff_count.mp h.hnd c
  unfold ioOne
  split
  · rename_i hc
    have : c ∉ s.handed := by
      intro hm
      have := h.hbd c hm
      rw [hc.2] at this
      simp [Cfg.ioId] at this
    rw [List.count_eq_zero_of_not_mem this]
    omega
  · omega

/-- without an I/O context its identifier is never released -/
theorem CtxI.io_not_rel {cfg : Cfg} {s : St} (h : CtxI cfg s) (hio : cfg.ioCtx = false) :
    cfg.ioId ∉ s.relLog := by
  intro hm
  have h1 := h.part cfg.ioId
  have h2 : 1 ≤ s.relLog.count cfg.ioId := List.one_le_count_iff.mpr hm
  have h3 : s.handed.count cfg.ioId = 0 := by
    apply List.count_eq_zero_of_not_mem
    intro hm'
    have := h.hbd _ hm'
    simp [Cfg.ioId] at this
  simp only [ioOne, hio] at h1
  simp at h1
  omega

theorem initPc_ne_h (r : Role) :
    (∀ i l, initPc r = .hLock i l → i = 0) ∧ (∀ i l, initPc r ≠ .hUnlock i l) ∧ (∀ i l, initPc r ≠ .hWake i l) := by
  cases r with
  | loop k => simp [initPc]
  | exit => simp [initPc]
  | waker k => simp only [initPc]; split <;> simp
  | hand p => cases p <;> simp [initPc]
  | io k => simp only [initPc]; split <;> simp

theorem ctx_init (cfg : Cfg) (hl : ∃ k, cfg.role cfg.lt = .loop k) (hn : cfg.lt < cfg.n) :
    CtxI cfg (mkInit cfg) := by
  obtain ⟨k, hk⟩ := hl
  refine ⟨?_, ?_, ?_, ?_, ?_, ?_, ?_, rfl, fun _ => rfl, ?_, ?_, ?_⟩
  · intro t i r _ d hd; simp [mkInit] at hd
  · intro t i r _ d hd; simp [mkInit] at hd
  · intro t i r _ d hd; simp [mkInit] at hd
  · simp [mkInit]
  · intro d hd; simp [mkInit] at hd
  · intro c
    simp only [mkInit, ioOne]
    by_cases hio : cfg.ioCtx = true
    · by_cases hc : c = cfg.ioId
      · subst hc; simp [hio]
      · have : ¬ (cfg.ioId = c) := fun e => hc e.symm
        simp [hio, hc, this]
    · simp [hio]
  · intro c; simp [mkInit]
  · intro hio _; simp [mkInit, hio]
  · intro hg; simp [mkInit, hn, hk, initPc, gone] at hg
  · simp [mkInit, hn, hk, initPc, gone]


variable {cfg : Cfg} {s : St} {t : Nat}

theorem ctx_fr1 (ht : Typ cfg s) (h : CtxI cfg s) (hen : s.enabled cfg t = true) :
    ∀ u i r, (nxt cfg s t).pc u = .hLock i r → ∀ d ∈ (nxt cfg s t).handed, d.1 = u → d.2 < i := by
  have h1 := h.fr1
  have h2 := h.fr2
  have h3 := h.fr3
  safe_prep ht hen
  clear h ht
  unfold nxt
  generalize hq : s.pc t = q at hen hlt ⊢
  step_unfold q hen
  all_goals grind [upd, isLoopPc, isExitPc]

theorem ctx_fr2 (ht : Typ cfg s) (h : CtxI cfg s) (hen : s.enabled cfg t = true) :
    ∀ u i r, (nxt cfg s t).pc u = .hUnlock i r → ∀ d ∈ (nxt cfg s t).handed, d.1 = u → d.2 ≤ i := by
  have h1 := h.fr1
  have h2 := h.fr2
  have h3 := h.fr3
  safe_prep ht hen
  clear h ht
  unfold nxt
  generalize hq : s.pc t = q at hen hlt ⊢
  step_unfold q hen
  all_goals grind [upd, isLoopPc, isExitPc]

theorem ctx_fr3 (ht : Typ cfg s) (h : CtxI cfg s) (hen : s.enabled cfg t = true) :
    ∀ u i r, (nxt cfg s t).pc u = .hWake i r → ∀ d ∈ (nxt cfg s t).handed, d.1 = u → d.2 ≤ i := by
  have h1 := h.fr1
  have h2 := h.fr2
  have h3 := h.fr3
  safe_prep ht hen
  clear h ht
  unfold nxt
  generalize hq : s.pc t = q at hen hlt ⊢
  step_unfold q hen
  all_goals grind [upd, isLoopPc, isExitPc]

theorem ctx_hnd (ht : Typ cfg s) (h : CtxI cfg s) (hen : s.enabled cfg t = true) :
    (nxt cfg s t).handed.Nodup := by
  have h1 := h.fr1
  have h3 := h.hnd
  unfold St.enabled at hen
  clear h ht
  unfold nxt
  generalize hq : s.pc t = q at hen ⊢
  step_unfold q hen
  all_goals (try exact h3)
  all_goals grind [List.nodup_append]

theorem ctx_hbd (ht : Typ cfg s) (h : CtxI cfg s) (hen : s.enabled cfg t = true) :
    ∀ d ∈ (nxt cfg s t).handed, d.1 < cfg.n := by
  have h4 := h.hbd
  unfold St.enabled at hen
  clear h ht
  unfold nxt
  generalize hq : s.pc t = q at hen ⊢
  step_unfold q hen
  all_goals (try exact h4)
  all_goals grind


theorem ctx_part (ht : Typ cfg s) (h : CtxI cfg s) (hen : s.enabled cfg t = true) :
    ∀ c, (nxt cfg s t).queue.count c + (nxt cfg s t).reg.count c + (nxt cfg s t).relLog.count c +
         (nxt cfg s t).lost.count c = (nxt cfg s t).handed.count c + ioOne cfg c := by
  have h5 := h.part
  unfold St.enabled at hen
  clear h ht
  unfold nxt
  generalize hq : s.pc t = q at hen ⊢
  step_unfold q hen
  all_goals (try exact h5)
  all_goals (
    intro c
    have := h5 c
    simp only [cnt_snoc, cnt_cons, List.count_append, List.count_nil] at *
    grind [cnt_cons])

theorem ctx_rl (ht : Typ cfg s) (h : CtxI cfg s) (hen : s.enabled cfg t = true) :
    ∀ c, (nxt cfg s t).regLog.count c + (nxt cfg s t).queue.count c ≤ (nxt cfg s t).handed.count c := by
  have h6 := h.rl
  unfold St.enabled at hen
  clear h ht
  unfold nxt
  generalize hq : s.pc t = q at hen ⊢
  step_unfold q hen
  all_goals (try exact h6)
  all_goals (
    intro c
    have := h6 c
    (try simp only [cnt_snoc, cnt_cons, List.count_append, List.count_nil] at *)
    grind [cnt_cons])


theorem ctx_uaf (ht : Typ cfg s) (h : CtxI cfg s) (hen : s.enabled cfg t = true) :
    (nxt cfg s t).uaf = 0 := by
  have h7 := h.uaf
  have htot := h.total_le_one
  have hio := h.ioreg
  have hio2 := h.io_not_rel
  have hlt := thr ht t
  have hf1 := filter_mem_len_zero s.reg s.relLog
  have hf2 := filter_mem_len_zero s.queue s.relLog
  have hcp : ∀ (c : Ctx) (l : List Ctx), c ∈ l → 1 ≤ l.count c := fun c l hm => List.one_le_count_iff.mpr hm
  unfold St.enabled at hen
  clear h ht
  unfold nxt
  generalize hq : s.pc t = q at hen hlt ⊢
  step_unfold q hen
  all_goals (try exact h7)
  all_goals grind [gone, isLoopPc, isExitPc, cnt_cons]


theorem ctx_nolost (ht : Typ cfg s) (h : CtxI cfg s) (hen : s.enabled cfg t = true) :
    cfg.fix.addFail = true → (nxt cfg s t).lost = [] := by
  have h8 := h.nolost
  unfold St.enabled at hen
  clear h ht
  unfold nxt
  generalize hq : s.pc t = q at hen ⊢
  step_unfold q hen
  all_goals (try exact h8)
  all_goals grind

theorem ctx_ioreg (ht : Typ cfg s) (h : CtxI cfg s) (hen : s.enabled cfg t = true) :
    cfg.ioCtx = true → gone ((nxt cfg s t).pc cfg.lt) = false → cfg.ioId ∈ (nxt cfg s t).reg := by
  have h9 := h.ioreg
  safe_prep ht hen
  clear h ht
  unfold nxt
  generalize hq : s.pc t = q at hen hlt ⊢
  step_unfold q hen
  all_goals grind [upd, gone, isLoopPc, isExitPc]

theorem ctx_regE (ht : Typ cfg s) (h : CtxI cfg s) (hen : s.enabled cfg t = true) :
    gone ((nxt cfg s t).pc cfg.lt) = true → (nxt cfg s t).reg = [] := by
  have h10 := h.regE
  safe_prep ht hen
  clear h ht
  unfold nxt
  generalize hq : s.pc t = q at hen hlt ⊢
  step_unfold q hen
  all_goals grind [upd, gone, isLoopPc, isExitPc]

theorem ctx_cnt (ht : Typ cfg s) (h : CtxI cfg s) (hen : s.enabled cfg t = true) :
    (gone ((nxt cfg s t).pc cfg.lt) = true → (nxt cfg s t).clears = 1) ∧
    (gone ((nxt cfg s t).pc cfg.lt) = false → (nxt cfg s t).clears = 0) ∧
    ((nxt cfg s t).pc cfg.lt = .exUnlock ∨ (nxt cfg s t).pc cfg.lt = .done → (nxt cfg s t).exits = 1) ∧
    (¬ ((nxt cfg s t).pc cfg.lt = .exUnlock ∨ (nxt cfg s t).pc cfg.lt = .done) → (nxt cfg s t).exits = 0) := by
  have h11 := h.cnt
  safe_prep ht hen
  clear h ht
  unfold nxt
  generalize hq : s.pc t = q at hen hlt ⊢
  step_unfold q hen
  all_goals grind [upd, gone, isLoopPc, isExitPc]

theorem ctx_step {s' : St} {tok : Tok} {ev : List String}
    (ht : Typ cfg s) (h : CtxI cfg s) (hs : step cfg s tok = some (s', ev)) : CtxI cfg s' := by
  obtain ⟨hen, rfl⟩ := step_some hs
  exact ⟨ctx_fr1 ht h hen, ctx_fr2 ht h hen, ctx_fr3 ht h hen, ctx_hnd ht h hen, ctx_hbd ht h hen,
         ctx_part ht h hen, ctx_rl ht h hen, ctx_uaf ht h hen, ctx_nolost ht h hen, ctx_ioreg ht h hen,
         ctx_regE ht h hen, ctx_cnt ht h hen⟩

end MgProof.C14
