import MgModel.C14.EvLoop
/-! C14: control-flow ("typing") invariant of the event-loop model and basic facts about the
helper functions. Property theorems: `Props.lean`. -/
namespace MgProof.C14
open MgModel.Conc MgModel.C14

/-- program counters that only the loop thread can have -/
def isLoopPc : Pc → Bool
  | .runStart | .poll | .fwait _ | .blocked | .woken | .clearup | .wkLock | .wkAdd | .wkUnlock
  | .wkChk | .wkSet | .chkExit | .exLock | .exUnlock => true
  | _ => false

/-- the loop thread is not dispatching: the plan of the last poll is empty -/
def idlePc : Pc → Bool
  | .runStart | .poll | .fwait _ | .blocked | .woken | .chkExit | .exLock | .exUnlock | .done => true
  | _ => false

/-- well-formed configuration: `lt` is the only thread whose role is the loop -/
def WF (cfg : Cfg) : Prop := ∀ t, t ≠ cfg.lt → ∀ k, cfg.role t ≠ .loop k

/-- program counters inside `muggle_evloop_exit` -/
def isExitPc : Pc → Bool
  | .eRead | .eSetW | .eSetE | .eWake => true
  | _ => false

structure Typ (cfg : Cfg) (s : St) : Prop where
  nonloop : ∀ t, t ≠ cfg.lt → isLoopPc (s.pc t) = false
  loopthr : isLoopPc (s.pc cfg.lt) = true ∨ isExitPc (s.pc cfg.lt) = true ∨ s.pc cfg.lt = .done
  beyond  : ∀ t, cfg.n ≤ t → s.pc t = .done
  tid     : s.tid = 0 ∨ s.tid = cfg.lt
  owner   : ∀ o, s.mtx = some o → o < cfg.n ∧
              (s.pc o = .wkAdd ∨ s.pc o = .wkUnlock ∨ s.pc o = .exUnlock ∨ ∃ i r, s.pc o = .hUnlock i r)
  started : s.evAdded = (s.pc cfg.lt != .runStart)
  idle    : idlePc (s.pc cfg.lt) = true → s.plan = []
  exitrole : ∀ t, t ≠ cfg.lt → isExitPc (s.pc t) = true → cfg.role t = .exit
  /-- once `run` has recorded its thread id nobody changes it, so the loop thread's own exit call
  takes the `tid == self` branch -/
  tidl    : s.evAdded = true → s.tid = cfg.lt
  noSetW  : s.pc cfg.lt ≠ .eSetW

theorem initPc_nonloop {r : Role} (h : ∀ k, r ≠ .loop k) : isLoopPc (initPc r) = false := by
  cases r with
  | loop k => exact absurd rfl (h k)
  | exit => rfl
  | waker k => simp only [initPc]; split <;> rfl
  | hand p => cases p <;> rfl
  | io k => simp only [initPc]; split <;> rfl

theorem typ_init (cfg : Cfg) (hwf : WF cfg) (hl : ∃ k, cfg.role cfg.lt = .loop k) (hn : cfg.lt < cfg.n) :
    Typ cfg (mkInit cfg) := by
  obtain ⟨k, hk⟩ := hl
  refine ⟨?_, ?_, ?_, Or.inl rfl, ?_, ?_, ?_, ?_, ?_, ?_⟩
  · intro t ht
    simp only [mkInit]
    split
    · exact initPc_nonloop (hwf t ht)
    · rfl
  · simp [mkInit, hn, hk, initPc, isLoopPc]
  · intro t ht
    simp only [mkInit]
    split
    · omega
    · rfl
  · intro o h; simp [mkInit] at h
  · simp [mkInit, hn, hk, initPc]
  · intro _; rfl
  · intro t ht
    simp only [mkInit]
    split
    · have := hwf t ht
      cases hr : cfg.role t with
      | loop k => exact absurd hr (this k)
      | exit => intro _; rfl
      | waker k => simp only [initPc]; split <;> simp [isExitPc]
      | hand p => cases p <;> simp [initPc, isExitPc]
      | io k => simp only [initPc]; split <;> simp [isExitPc]
    · simp [isExitPc]
  · intro h; simp [mkInit] at h
  · simp [mkInit, hn, hk, initPc]

theorem advPc_cases (pl : List Src) : advPc pl = .clearup ∨ advPc pl = .chkExit := by
  induction pl with
  | nil => exact Or.inr rfl
  | cons x xs ih => cases x <;> simp [advPc, ih]

theorem advPlan_chk (pl : List Src) (h : advPc pl = .chkExit) : advPlan pl = [] := by
  induction pl with
  | nil => rfl
  | cons x xs ih => cases x <;> simp_all [advPc, advPlan]

/-- the step function, unfolded: `s'` is the result of `stepAt` at the thread's pc -/
theorem step_some {cfg : Cfg} {s s' : St} {tok : Tok} {ev : List String}
    (hs : step cfg s tok = some (s', ev)) :
    s.enabled cfg tok.tid = true ∧ s' = (stepAt cfg s tok.tid (s.pc tok.tid)).1 := by
  unfold step at hs
  split at hs
  · rename_i hen
    injection hs with hs
    exact ⟨hen, by rw [hs]⟩
  · simp at hs

/-- case split on the pc `q` of the stepping thread, unfold the step, split its branches, normalise
the resulting state to field values -/
macro "step_unfold" q:ident hen:ident : tactic => `(tactic|
  (cases $q:ident <;> simp only [stepAt, St.enabled] at $hen:ident ⊢ <;>
   (repeat' split) <;>
   (try simp only [pollNow, advance, exitReturn, evWrite, signal, release]) <;>
   (try dsimp only)))

end MgProof.C14
