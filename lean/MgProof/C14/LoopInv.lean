import MgProof.C14.TypStep
/-! C14: the safety invariant behind "wake-ups, hand-overs and exit requests are never lost"
(one preservation theorem per field). Property theorems: `Props.lean`. -/
namespace MgProof.C14
open MgModel.Conc MgModel.C14

/-- the loop has left its loop (decided to exit) -/
def gone : Pc → Bool
  | .exLock | .exUnlock | .done => true
  | _ => false

/-- the loop thread is inside `handle_wakeup` and will still execute the `to_exit == WAKE` test
(or is about to store EXIT) -/
def preChk : Pc → Bool
  | .clearup | .wkLock | .wkAdd | .wkUnlock | .wkChk | .wkSet | .eRead | .eSetW | .eSetE | .eWake => true
  | _ => false

/-- the loop thread is dispatching: it will reach the `to_exit == EXIT` test without parking -/
def dispatching : Pc → Bool
  | .clearup | .wkLock | .wkAdd | .wkUnlock | .wkChk | .wkSet | .eRead | .eSetW | .eSetE | .eWake
  | .chkExit => true
  | _ => false

/-- the thread that created the loop (thread 0) is the loop thread itself or never calls exit -/
def NoCreatorExit (cfg : Cfg) : Prop := cfg.lt = 0 ∨ cfg.role 0 ≠ .exit

/-- the hypothesis of the exit theorem: the repaired `muggle_evloop_exit`, or (original code) the
creating thread does not issue the exit -/
def ExitOk (cfg : Cfg) : Prop := cfg.fix.exitWake = true ∨ NoCreatorExit cfg

/-- some thread is about to write the eventfd inside `muggle_evloop_exit` -/
def hasWake (f : Nat → Pc) : Prop := ∃ u, f u = .eWake

/-- some hand-over thread has enqueued its context and not yet issued the wake-up -/
def hasHand (f : Nat → Pc) : Prop := ∃ u i r, f u = .hUnlock i r ∨ f u = .hWake i r

theorem hasWake_upd_self (f : Nat → Pc) (t : Nat) : hasWake (upd f t .eWake) := ⟨t, by simp⟩

theorem hasWake_upd_of_ne {f : Nat → Pc} {t : Nat} {p : Pc} (h : hasWake f) (hn : f t ≠ .eWake) :
    hasWake (upd f t p) := by
  obtain ⟨u, hu⟩ := h
  refine ⟨u, ?_⟩
  have : u ≠ t := by intro e; subst e; exact hn hu
  simp [upd, this, hu]

theorem hasHand_upd_self1 (f : Nat → Pc) (t i : Nat) (r : List Bool) : hasHand (upd f t (.hUnlock i r)) :=
  ⟨t, i, r, Or.inl (by simp)⟩

theorem hasHand_upd_self2 (f : Nat → Pc) (t i : Nat) (r : List Bool) : hasHand (upd f t (.hWake i r)) :=
  ⟨t, i, r, Or.inr (by simp)⟩

theorem hasHand_upd_of_ne {f : Nat → Pc} {t : Nat} {p : Pc} (h : hasHand f)
    (hn : ∀ i r, f t ≠ .hUnlock i r ∧ f t ≠ .hWake i r) : hasHand (upd f t p) := by
  obtain ⟨u, i, r, hu⟩ := h
  refine ⟨u, i, r, ?_⟩
  have : u ≠ t := by
    intro e; subst e
    rcases hu with hu | hu
    · exact (hn i r).1 hu
    · exact (hn i r).2 hu
  simpa [upd, this] using hu

theorem hasWake_signal {f : Nat → Pc} (l : Nat) (h : hasWake f) :
    hasWake (upd f l (if f l = .blocked then .woken else f l)) := by
  obtain ⟨u, hu⟩ := h
  refine ⟨u, ?_⟩
  by_cases e : u = l
  · subst e; simp [upd, hu]
  · simp [upd, e, hu]

theorem hasHand_signal {f : Nat → Pc} (l : Nat) (h : hasHand f) :
    hasHand (upd f l (if f l = .blocked then .woken else f l)) := by
  obtain ⟨u, i, r, hu⟩ := h
  refine ⟨u, i, r, ?_⟩
  by_cases e : u = l
  · subst e; rcases hu with hu | hu <;> simp [upd, hu]
  · simpa [upd, e] using hu

structure Safe (cfg : Cfg) (s : St) : Prop where
  /-- epoll: a readable eventfd is on the ready list, in the plan, or being handled -/
  vis  : s.counter > 0 → cfg.backend = .epoll → s.evAdded = true →
           Src.ev ∈ s.rdl ∨ Src.ev ∈ s.plan ∨ s.pc cfg.lt = .clearup
  /-- about to park on `s0`: if no writer came since, the eventfd is not readable -/
  park : ∀ s0, s.pc cfg.lt = .fwait s0 → s0 ≤ s.seq ∧ (s0 = s.seq → s.counter = 0)
  blk  : s.pc cfg.lt = .blocked → s.counter = 0
  /-- an unserved wake-up request keeps the eventfd readable until the wake callback is entered -/
  wake : s.unserved > 0 → gone (s.pc cfg.lt) = false → s.counter > 0 ∨ s.pc cfg.lt = .wkLock
  x2   : s.toExit = 2 → gone (s.pc cfg.lt) = false →
           s.counter > 0 ∨ preChk (s.pc cfg.lt) = true ∨ hasWake s.pc
  x1   : ExitOk cfg → s.toExit = 1 → gone (s.pc cfg.lt) = false →
           s.counter > 0 ∨ dispatching (s.pc cfg.lt) = true ∨ hasWake s.pc
  g    : cfg.fix.exitWake = false → NoCreatorExit cfg → ∀ u, u ≠ cfg.lt → s.pc u ≠ .eSetE
  /-- a non-empty hand-over queue will be drained: a request is pending, the loop is draining, or
  the hand-over thread has not issued its wake-up yet -/
  q    : s.queue ≠ [] → gone (s.pc cfg.lt) = false →
           s.unserved > 0 ∨ s.pc cfg.lt = .wkAdd ∨ s.pc cfg.lt = .wkLock ∨ hasHand s.pc
  ec   : s.toExit = 0 → s.exitCalls = 0 ∧ ∀ u, s.pc u ≠ .eWake
  rng  : s.toExit = 0 ∨ s.toExit = 1 ∨ s.toExit = 2

theorem initPc_ne_eWake (r : Role) : initPc r ≠ .eWake := by
  cases r with
  | loop k => simp [initPc]
  | exit => simp [initPc]
  | waker k => simp only [initPc]; split <;> simp
  | hand p => cases p <;> simp [initPc]
  | io k => simp only [initPc]; split <;> simp

theorem initPc_ne_eSetE (r : Role) : initPc r ≠ .eSetE := by
  cases r with
  | loop k => simp [initPc]
  | exit => simp [initPc]
  | waker k => simp only [initPc]; split <;> simp
  | hand p => cases p <;> simp [initPc]
  | io k => simp only [initPc]; split <;> simp

theorem safe_init (cfg : Cfg) : Safe cfg (mkInit cfg) := by
  refine ⟨?_, ?_, ?_, ?_, ?_, ?_, ?_, ?_, ?_, Or.inl rfl⟩
  · intro h; simp [mkInit] at h
  · intro s0 h
    simp only [mkInit] at h
    split at h
    · cases hr : cfg.role cfg.lt with
      | loop k => simp [hr, initPc] at h
      | exit => simp [hr, initPc] at h
      | waker k => simp only [hr, initPc] at h; split at h <;> simp at h
      | hand p => cases p <;> simp [hr, initPc] at h
      | io k => simp only [hr, initPc] at h; split at h <;> simp at h
    · simp at h
  · intro h
    simp only [mkInit] at h
    split at h
    · cases hr : cfg.role cfg.lt with
      | loop k => simp [hr, initPc] at h
      | exit => simp [hr, initPc] at h
      | waker k => simp only [hr, initPc] at h; split at h <;> simp at h
      | hand p => cases p <;> simp [hr, initPc] at h
      | io k => simp only [hr, initPc] at h; split at h <;> simp at h
    · simp at h
  · intro h; simp [mkInit] at h
  · intro h; simp [mkInit] at h
  · intro _ h; simp [mkInit] at h
  · intro _ _ u _
    simp only [mkInit]
    split
    · exact initPc_ne_eSetE _
    · simp
  · intro h; simp [mkInit] at h
  · intro _
    refine ⟨rfl, ?_⟩
    intro u
    simp only [mkInit]
    split
    · exact initPc_ne_eWake _
    · simp

/-! ## facts about the kernel-object helpers -/

theorem advPc_ev {pl : List Src} (h : Src.ev ∈ pl) : advPc pl = .clearup := by
  induction pl with
  | nil => simp at h
  | cons x xs ih =>
    cases x with
    | ev => rfl
    | io => simp only [advPc]; apply ih; simpa using h

theorem ev_mem_harvest {cfg : Cfg} {s : St} (hb : cfg.backend = .epoll) (hm : Src.ev ∈ s.rdl)
    (hc : s.counter > 0) : Src.ev ∈ harvest cfg s := by
  simp only [harvest, hb, List.mem_filter]
  exact ⟨hm, by simp [St.ready, hc]⟩

theorem harvest_nil_counter {cfg : Cfg} {s : St} (h : harvest cfg s = [])
    (hv : cfg.backend = .epoll → s.counter > 0 → Src.ev ∈ s.rdl) : s.counter = 0 := by
  by_cases hc : s.counter = 0
  · exact hc
  · exfalso
    have hpos : s.counter > 0 := Nat.pos_of_ne_zero hc
    cases hb : cfg.backend with
    | epoll =>
      have := ev_mem_harvest hb (hv hb hpos) hpos
      rw [h] at this; simp at this
    | poll =>
      simp only [harvest, hb, St.ready, hpos, decide_true, if_true] at h
      simp at h
    | select =>
      simp only [harvest, hb, St.ready, hpos, decide_true, if_true] at h
      simp at h

variable {cfg : Cfg} {s : St} {t : Nat}

set_option hygiene false in
/-- the facts every preservation proof starts from -/
macro "safe_prep" ht:ident hen:ident : tactic => `(tactic|
  (have hlt := thr $ht:ident t
   have hst := ($ht:ident).started
   have hidle := ($ht:ident).idle
   have hacp := advPc_cases (harvest cfg s)
   have hacp2 := advPc_cases s.plan
   have hev := @advPc_ev (harvest cfg s)
   have hev2 := @advPc_ev s.plan
   unfold St.enabled at $hen:ident))

/-- the state after the step of thread `t` -/
abbrev nxt (cfg : Cfg) (s : St) (t : Nat) : St := (stepAt cfg s t (s.pc t)).1

theorem safe_vis (ht : Typ cfg s) (h : Safe cfg s) (hen : s.enabled cfg t = true) :
    (nxt cfg s t).counter > 0 → cfg.backend = .epoll → (nxt cfg s t).evAdded = true →
      Src.ev ∈ (nxt cfg s t).rdl ∨ Src.ev ∈ (nxt cfg s t).plan ∨ (nxt cfg s t).pc cfg.lt = .clearup := by
  have h1 := h.vis
  have hmh := @ev_mem_harvest cfg s
  safe_prep ht hen
  clear h ht
  unfold nxt
  generalize hq : s.pc t = q at hen hlt ⊢
  step_unfold q hen
  all_goals grind [upd, isLoopPc, isExitPc, idlePc, advPlan, inSet]

theorem safe_park (ht : Typ cfg s) (h : Safe cfg s) (hen : s.enabled cfg t = true) :
    ∀ s0, (nxt cfg s t).pc cfg.lt = .fwait s0 →
      s0 ≤ (nxt cfg s t).seq ∧ (s0 = (nxt cfg s t).seq → (nxt cfg s t).counter = 0) := by
  have h1 := h.vis
  have h2 := h.park
  have hnil := @harvest_nil_counter cfg s
  safe_prep ht hen
  clear h ht
  unfold nxt
  generalize hq : s.pc t = q at hen hlt ⊢
  step_unfold q hen
  all_goals grind [upd, isLoopPc, isExitPc, idlePc]

theorem safe_blk (ht : Typ cfg s) (h : Safe cfg s) (hen : s.enabled cfg t = true) :
    (nxt cfg s t).pc cfg.lt = .blocked → (nxt cfg s t).counter = 0 := by
  have h2 := h.park
  have h3 := h.blk
  safe_prep ht hen
  clear h ht
  unfold nxt
  generalize hq : s.pc t = q at hen hlt ⊢
  step_unfold q hen
  all_goals grind [upd, isLoopPc, isExitPc]

theorem safe_wake (ht : Typ cfg s) (h : Safe cfg s) (hen : s.enabled cfg t = true) :
    (nxt cfg s t).unserved > 0 → gone ((nxt cfg s t).pc cfg.lt) = false →
      (nxt cfg s t).counter > 0 ∨ (nxt cfg s t).pc cfg.lt = .wkLock := by
  have h4 := h.wake
  safe_prep ht hen
  clear h ht
  unfold nxt
  generalize hq : s.pc t = q at hen hlt ⊢
  step_unfold q hen
  all_goals grind [upd, isLoopPc, isExitPc, gone]

theorem safe_x2 (ht : Typ cfg s) (h : Safe cfg s) (hen : s.enabled cfg t = true) :
    (nxt cfg s t).toExit = 2 → gone ((nxt cfg s t).pc cfg.lt) = false →
      (nxt cfg s t).counter > 0 ∨ preChk ((nxt cfg s t).pc cfg.lt) = true ∨
      hasWake (nxt cfg s t).pc := by
  have h5 := h.x2
  safe_prep ht hen
  clear h ht
  unfold nxt
  generalize hq : s.pc t = q at hen hlt ⊢
  step_unfold q hen
  all_goals grind [upd, isLoopPc, isExitPc, gone, preChk, WAKE, EXIT, hasWake_upd_self, hasWake_upd_of_ne, hasWake_signal]

theorem safe_x1 (ht : Typ cfg s) (h : Safe cfg s) (hen : s.enabled cfg t = true) :
    ExitOk cfg → (nxt cfg s t).toExit = 1 → gone ((nxt cfg s t).pc cfg.lt) = false →
      (nxt cfg s t).counter > 0 ∨ dispatching ((nxt cfg s t).pc cfg.lt) = true ∨
      hasWake (nxt cfg s t).pc := by
  intro hok
  have h5 := h.x2
  have h6 := h.x1 hok
  have h7 := h.g
  safe_prep ht hen
  clear h ht
  unfold nxt
  unfold ExitOk at hok
  generalize hq : s.pc t = q at hen hlt ⊢
  step_unfold q hen
  all_goals grind [upd, isLoopPc, isExitPc, gone, preChk, dispatching, WAKE, EXIT, hasWake_upd_self,
    hasWake_upd_of_ne, hasWake_signal]

theorem safe_g (ht : Typ cfg s) (h : Safe cfg s) (hen : s.enabled cfg t = true) :
    cfg.fix.exitWake = false → NoCreatorExit cfg → ∀ u, u ≠ cfg.lt → (nxt cfg s t).pc u ≠ .eSetE := by
  intro hf hnc
  have h7 := h.g hf hnc
  have htid := ht.tid
  have hrole := ht.exitrole
  safe_prep ht hen
  clear h ht
  unfold nxt
  unfold NoCreatorExit at hnc
  generalize hq : s.pc t = q at hen hlt ⊢
  step_unfold q hen
  all_goals grind [upd, isLoopPc, isExitPc]

theorem safe_q (ht : Typ cfg s) (h : Safe cfg s) (hen : s.enabled cfg t = true) :
    (nxt cfg s t).queue ≠ [] → gone ((nxt cfg s t).pc cfg.lt) = false →
      (nxt cfg s t).unserved > 0 ∨ (nxt cfg s t).pc cfg.lt = .wkAdd ∨ (nxt cfg s t).pc cfg.lt = .wkLock ∨
      hasHand (nxt cfg s t).pc := by
  have h8 := h.q
  safe_prep ht hen
  clear h ht
  unfold nxt
  generalize hq : s.pc t = q at hen hlt ⊢
  step_unfold q hen
  all_goals grind [upd, isLoopPc, isExitPc, gone, hasHand_upd_self1, hasHand_upd_self2, hasHand_upd_of_ne,
    hasHand_signal]

theorem safe_ec (ht : Typ cfg s) (h : Safe cfg s) (hen : s.enabled cfg t = true) :
    (nxt cfg s t).toExit = 0 → (nxt cfg s t).exitCalls = 0 ∧ ∀ u, (nxt cfg s t).pc u ≠ .eWake := by
  have h9 := h.ec
  safe_prep ht hen
  clear h ht
  unfold nxt
  generalize hq : s.pc t = q at hen hlt ⊢
  step_unfold q hen
  all_goals grind [upd, isLoopPc, isExitPc, WAKE, EXIT]

theorem safe_rng (ht : Typ cfg s) (h : Safe cfg s) (hen : s.enabled cfg t = true) :
    (nxt cfg s t).toExit = 0 ∨ (nxt cfg s t).toExit = 1 ∨ (nxt cfg s t).toExit = 2 := by
  have h10 := h.rng
  unfold St.enabled at hen
  clear h ht
  unfold nxt
  generalize hq : s.pc t = q at hen ⊢
  step_unfold q hen
  all_goals grind [WAKE, EXIT]

theorem safe_step {s' : St} {tok : Tok} {ev : List String}
    (ht : Typ cfg s) (h : Safe cfg s) (hs : step cfg s tok = some (s', ev)) : Safe cfg s' := by
  obtain ⟨hen, rfl⟩ := step_some hs
  exact ⟨safe_vis ht h hen, safe_park ht h hen, safe_blk ht h hen, safe_wake ht h hen, safe_x2 ht h hen,
         safe_x1 ht h hen, safe_g ht h hen, safe_q ht h hen, safe_ec ht h hen, safe_rng ht h hen⟩

end MgProof.C14
