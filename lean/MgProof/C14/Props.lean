import MgProof.C14.Progress
/-!
# C14 — property theorems

Property (properties.jsonl): *Whenever any thread requests a wake-up of a running event loop, the
wake callback runs at least once after that request (requests may coalesce but are never lost),
and socket contexts handed over from other threads are each registered or released exactly once.
An exit request from any thread, at any moment relative to loop start, I/O and other wake-ups,
makes run() return after the clear and exit callbacks, and no callback touches memory that has
been freed.*

Quantifiers: every back-end (poll / epoll / select), every registration capacity, with or without
an I/O context, every number of threads with any roles (exit / waker with any count / hand-over
with any program of good and bad descriptors / I/O writer / the loop thread itself exiting from its
k-th wake callback), the loop created by the loop thread or by any other thread (thread 0), and
**every schedule of every length** (`Conc.Reach` = closure of the step relation), at the
granularity of single accesses to `evloop->tid` / `evloop->to_exit`, mutex operations, eventfd
reads / writes and poll calls of the compiled code.

Liveness is stated in its safety form, which is exactly what the check observes on the real code
(a run that ends with threads parked is `end deadlock`): a state in which *no thread can take a
step* (`Terminal`) and the obligation is still open does not exist. Under the only fairness
assumption that a runnable thread eventually runs, this is "eventually".

The three repaired places of the code are parameters (`cfg.fix`); the theorems are proved for the
repaired code and, as `_partial`, for the original code outside the defect's trigger; for the
original code inside the trigger the negation is proved by a concrete schedule (which is replayed
on the real code by the check: corpus/C14).
-/
namespace MgProof.C14
open MgModel.Conc MgModel.C14

/-- the well-formedness of a configuration: exactly one loop thread, and it is a real thread -/
structure CfgOk (cfg : Cfg) : Prop where
  wf   : WF cfg
  loop : ∃ k, cfg.role cfg.lt = .loop k
  ltn  : cfg.lt < cfg.n

/-- all invariants hold in every reachable state -/
theorem reach_inv {cfg : Cfg} (ok : CfgOk cfg) {s : St} (hr : Reach (step cfg) (mkInit cfg) s) :
    Typ cfg s ∧ Safe cfg s ∧ CtxI cfg s := by
  refine Reach.inv (fun s => Typ cfg s ∧ Safe cfg s ∧ CtxI cfg s) ?_ ?_ s hr
  · exact ⟨typ_init cfg ok.wf ok.loop ok.ltn, safe_init cfg, ctx_init cfg ok.loop ok.ltn⟩
  · intro s t s' ev ⟨h1, h2, h3⟩ hs
    exact ⟨typ_step h1 hs, safe_step h1 h2 hs, ctx_step h1 h3 hs⟩

/-- the run is over: no thread can take a step (all finished, or the rest parked for ever) -/
def Terminal (cfg : Cfg) (s : St) : Prop := ∀ t, s.enabled cfg t = false

/-- `run()` has not decided to return yet -/
def Running (cfg : Cfg) (s : St) : Prop := gone (s.pc cfg.lt) = false

/-! ## helper facts about terminal states -/

theorem enabled_of {cfg : Cfg} {s : St} {t : Nat} (hn : t < cfg.n)
    (hp : s.pc t ≠ .done ∧ s.pc t ≠ .blocked ∧ s.pc t ≠ .wkLock ∧ s.pc t ≠ .exLock ∧
          ∀ i r, s.pc t ≠ .hLock i r) : s.enabled cfg t = true := by
  unfold St.enabled
  simp only [hn, decide_true, Bool.true_and]
  split <;> simp_all

/-- in a terminal state the mutex is free -/
theorem terminal_mtx_free {cfg : Cfg} {s : St} (ht : Typ cfg s) (hT : Terminal cfg s) : s.mtx = none := by
  cases hm : s.mtx with
  | none => rfl
  | some o =>
    exfalso
    obtain ⟨hn, hp⟩ := ht.owner o hm
    have := hT o
    rw [enabled_of hn (by rcases hp with h | h | h | ⟨i, r, h⟩ <;> simp [h])] at this
    simp at this

/-- in a terminal state no thread stands at an always-enabled pc -/
theorem terminal_pc {cfg : Cfg} {s : St} (ht : Typ cfg s) (hT : Terminal cfg s) (t : Nat) :
    s.pc t = .done ∨ s.pc t = .blocked := by
  by_cases hn : t < cfg.n
  · have hfree := terminal_mtx_free ht hT
    have h := hT t
    unfold St.enabled at h
    simp only [hn, decide_true, Bool.true_and, hfree, Option.isNone_none] at h
    split at h <;> simp_all
  · exact Or.inl (ht.beyond t (Nat.le_of_not_lt hn))

theorem terminal_no_wake {cfg : Cfg} {s : St} (ht : Typ cfg s) (hT : Terminal cfg s) : ¬ hasWake s.pc := by
  intro ⟨u, hu⟩
  rcases terminal_pc ht hT u with h | h <;> rw [h] at hu <;> simp at hu

theorem terminal_no_hand {cfg : Cfg} {s : St} (ht : Typ cfg s) (hT : Terminal cfg s) : ¬ hasHand s.pc := by
  intro ⟨u, i, r, hu⟩
  rcases terminal_pc ht hT u with h | h <;> rw [h] at hu <;> simp at hu

/-! ## Clause 1 — wake-up requests are never lost -/

/-- **Wake-ups, invariant form.** In every reachable state in which the loop is running and a
wake-up request has been issued since the wake callback was last entered (`unserved > 0`), the
eventfd is still readable or the loop stands right before the wake callback; hence the loop is
not parked in poll, and if it is about to park its sequence check fails (it re-polls). Requests
coalesce (one callback serves all requests issued before it is entered), none is lost. -/
theorem wake_request_never_lost {cfg : Cfg} (ok : CfgOk cfg) {s : St}
    (hr : Reach (step cfg) (mkInit cfg) s) (hrun : Running cfg s) (hreq : s.unserved > 0) :
    (s.counter > 0 ∨ s.pc cfg.lt = .wkLock) ∧ s.pc cfg.lt ≠ .blocked ∧
    (∀ s0, s.pc cfg.lt = .fwait s0 → s0 ≠ s.seq) := by
  obtain ⟨_, hs, _⟩ := reach_inv ok hr
  have h := hs.wake hreq hrun
  refine ⟨h, ?_, ?_⟩
  · intro hb
    have := hs.blk hb
    rcases h with h | h
    · omega
    · rw [hb] at h; simp at h
  · intro s0 hp he
    have := (hs.park s0 hp).2 he
    rcases h with h | h
    · omega
    · rw [hp] at h; simp at h

/-- **Wake-ups and hand-overs at quiescence.** When nothing can run any more and `run()` has not
returned, every wake-up request has been followed by an entry of the wake callback and the
hand-over queue has been drained by it. -/
theorem wake_served_at_quiescence {cfg : Cfg} (ok : CfgOk cfg) {s : St}
    (hr : Reach (step cfg) (mkInit cfg) s) (hT : Terminal cfg s) (hrun : Running cfg s) :
    s.unserved = 0 ∧ s.queue = [] ∧ s.pc cfg.lt = .blocked := by
  obtain ⟨ht, hs, _⟩ := reach_inv ok hr
  have hb : s.pc cfg.lt = .blocked := by
    rcases terminal_pc ht hT cfg.lt with h | h
    · unfold Running at hrun; rw [h] at hrun; simp [gone] at hrun
    · exact h
  have hu : s.unserved = 0 := by
    by_cases h : s.unserved = 0
    · exact h
    · have := hs.wake (Nat.pos_of_ne_zero h) hrun
      have hc := hs.blk hb
      rcases this with h' | h'
      · omega
      · rw [hb] at h'; simp at h'
  refine ⟨hu, ?_, hb⟩
  by_cases hq : s.queue = []
  · exact hq
  · exfalso
    rcases hs.q hq hrun with h | h | h | h
    · omega
    · rw [hb] at h; simp at h
    · rw [hb] at h; simp at h
    · exact terminal_no_hand ht hT h

/-- **Wake-ups, liveness with an explicit bound.** With the other threads finished, a running loop
with an unserved request enters the wake callback (`unserved` reset: the callback starts after
every request issued so far) — or leaves the loop because an exit is being carried out — within
`mu2 + 1` of its own steps; every one of these steps is enabled. -/
theorem wake_served_in_bounded_steps {cfg : Cfg} (ok : CfgOk cfg) :
    ∀ (m : Nat) (s : St), Reach (step cfg) (mkInit cfg) s → OthersDone cfg s → Running cfg s →
      s.unserved > 0 → mu2 cfg s ≤ m →
      ∃ k, k ≤ m + 1 ∧ Reach (step cfg) (mkInit cfg) (solo cfg k s) ∧
        ((solo cfg k s).unserved = 0 ∨ gone ((solo cfg k s).pc cfg.lt) = true) := by
  intro m
  induction m with
  | zero =>
    intro s hr hod hrun hreq hm
    obtain ⟨ht, hs, _⟩ := reach_inv ok hr
    obtain ⟨hen, h⟩ := wake_decreases ht hs hod hrun hreq ok.ltn
    refine ⟨1, Nat.le_refl _, reach_nxt hr hen, ?_⟩
    rcases h with h | h | ⟨h, _, _⟩
    · exact Or.inl h
    · exact Or.inr h
    · omega
  | succ m ih =>
    intro s hr hod hrun hreq hm
    obtain ⟨ht, hs, _⟩ := reach_inv ok hr
    obtain ⟨hen, h⟩ := wake_decreases ht hs hod hrun hreq ok.ltn
    have hr' := reach_nxt hr hen
    rcases h with h | h | ⟨h1, h2, h3⟩
    · exact ⟨1, by omega, hr', Or.inl h⟩
    · exact ⟨1, by omega, hr', Or.inr h⟩
    · have hod' : OthersDone cfg (nxt cfg s cfg.lt) := by
        intro u hu
        rw [pc_other_step u hu]
        exact hod u hu
      obtain ⟨k, hk, hrk, hdk⟩ := ih (nxt cfg s cfg.lt) hr' hod' h3 h2 (by omega)
      exact ⟨k + 1, by omega, hrk, hdk⟩

/-! ## Clause 3 — an exit request makes `run()` return, after the clear and exit callbacks -/

/-- **Exit, invariant form.** (Repaired `muggle_evloop_exit`, or the original one when the creating
thread is not the one that exits.) In every reachable state: once any exit store has happened
(`to_exit ≠ 0`) the loop cannot be parked in poll unless an exit call is still in flight whose next
step writes the eventfd. -/
theorem exit_never_lost {cfg : Cfg} (ok : CfgOk cfg) (hx : ExitOk cfg) {s : St}
    (hr : Reach (step cfg) (mkInit cfg) s) (he : s.toExit ≠ 0) (hb : s.pc cfg.lt = .blocked) :
    hasWake s.pc := by
  obtain ⟨_, hs, _⟩ := reach_inv ok hr
  have hc := hs.blk hb
  have hg : gone (s.pc cfg.lt) = false := by rw [hb]; rfl
  rcases hs.rng with h | h | h
  · exact absurd h he
  · rcases hs.x1 hx h hg with h' | h' | h'
    · omega
    · rw [hb] at h'; simp [dispatching] at h'
    · exact h'
  · rcases hs.x2 h hg with h' | h' | h'
    · omega
    · rw [hb] at h'; simp [preChk] at h'
    · exact h'

/-- **Exit: `run()` returns, after the clear phase and the exit callback, each exactly once.**
In every terminal state (no thread can take a step) in which an exit has been requested, the loop
thread has returned from `muggle_evloop_run`; the clear phase (cb_clear on every registered
context) ran exactly once, the exit callback ran exactly once, and nothing is registered any
more. Together with `Terminal` being the only way a fair run can stop, this is "an exit request
from any thread, at any moment, makes run() return". -/
theorem exit_makes_run_return {cfg : Cfg} (ok : CfgOk cfg) (hx : ExitOk cfg) {s : St}
    (hr : Reach (step cfg) (mkInit cfg) s) (hT : Terminal cfg s) (he : s.toExit ≠ 0) :
    s.pc cfg.lt = .done ∧ s.clears = 1 ∧ s.exits = 1 ∧ s.reg = [] := by
  obtain ⟨ht, hs, hc⟩ := reach_inv ok hr
  have hd : s.pc cfg.lt = .done := by
    rcases terminal_pc ht hT cfg.lt with h | h
    · exact h
    · exact absurd (exit_never_lost ok hx hr he h) (terminal_no_wake ht hT)
  have hg : gone (s.pc cfg.lt) = true := by rw [hd]; rfl
  exact ⟨hd, hc.cnt.1 hg, hc.cnt.2.2.1 (Or.inr hd), hc.regE hg⟩

/-- **Exit, liveness with an explicit bound.** Once an exit store has happened and the other threads
have finished their calls, the loop thread is never stuck and returns from `muggle_evloop_run`
within `mu` of its own steps (`mu` = a small function of where it stands, the eventfd entries still
to dispatch and the length of the hand-over queue): every step it takes is enabled and strictly
decreases the variant. The only fairness needed is that the loop thread gets to run. -/
theorem exit_returns_in_bounded_steps {cfg : Cfg} (ok : CfgOk cfg) (hx : ExitOk cfg) :
    ∀ (m : Nat) (s : St), Reach (step cfg) (mkInit cfg) s → OthersDone cfg s → s.toExit ≠ 0 →
      mu cfg s ≤ m →
      ∃ k, k ≤ m ∧ Reach (step cfg) (mkInit cfg) (solo cfg k s) ∧ (solo cfg k s).pc cfg.lt = .done := by
  intro m
  induction m with
  | zero =>
    intro s hr hod he hm
    refine ⟨0, Nat.le_refl _, hr, ?_⟩
    by_cases hd : s.pc cfg.lt = .done
    · exact hd
    · obtain ⟨ht, hs, _⟩ := reach_inv ok hr
      have := (solo_decreases ht hs hx hod he hd ok.ltn).2
      omega
  | succ m ih =>
    intro s hr hod he hm
    by_cases hd : s.pc cfg.lt = .done
    · exact ⟨0, Nat.zero_le _, hr, hd⟩
    · obtain ⟨ht, hs, _⟩ := reach_inv ok hr
      obtain ⟨hen, hlt⟩ := solo_decreases ht hs hx hod he hd ok.ltn
      have hr' := reach_nxt hr hen
      have hod' : OthersDone cfg (nxt cfg s cfg.lt) := by
        intro u hu
        rw [pc_other_step u hu]
        exact hod u hu
      obtain ⟨k, hk, hrk, hdk⟩ := ih (nxt cfg s cfg.lt) hr' hod' (toExit_step he) (by omega)
      exact ⟨k + 1, by omega, hrk, hdk⟩

/-- whenever `run()` has returned, the clear phase and the exit callback have run exactly once and
nothing is registered (used with `exit_returns_in_bounded_steps`) -/
theorem returned_after_clear_and_exit {cfg : Cfg} (ok : CfgOk cfg) {s : St}
    (hr : Reach (step cfg) (mkInit cfg) s) (hd : s.pc cfg.lt = .done) :
    s.clears = 1 ∧ s.exits = 1 ∧ s.reg = [] := by
  obtain ⟨_, _, hc⟩ := reach_inv ok hr
  have hg : gone (s.pc cfg.lt) = true := by rw [hd]; rfl
  exact ⟨hc.cnt.1 hg, hc.cnt.2.2.1 (Or.inr hd), hc.regE hg⟩

/-- a completed exit call implies the exit store has happened (links the ghost counter of
completed `muggle_evloop_exit` calls to `to_exit`) -/
theorem exit_call_sets_flag {cfg : Cfg} (ok : CfgOk cfg) {s : St}
    (hr : Reach (step cfg) (mkInit cfg) s) (h : s.exitCalls > 0) : s.toExit ≠ 0 := by
  obtain ⟨_, hs, _⟩ := reach_inv ok hr
  intro h0
  have := (hs.ec h0).1
  omega

/-- the exit callback never runs before the clear phase, and neither runs twice -/
theorem clear_before_exit_once {cfg : Cfg} (ok : CfgOk cfg) {s : St}
    (hr : Reach (step cfg) (mkInit cfg) s) :
    s.clears ≤ 1 ∧ s.exits ≤ s.clears := by
  obtain ⟨_, _, hc⟩ := reach_inv ok hr
  obtain ⟨c1, c0, e1, e0⟩ := hc.cnt
  by_cases hg : gone (s.pc cfg.lt) = true
  · have := c1 hg
    by_cases hp : s.pc cfg.lt = .exUnlock ∨ s.pc cfg.lt = .done
    · have := e1 hp; omega
    · have := e0 hp; omega
  · have hg' : gone (s.pc cfg.lt) = false := by simpa using hg
    have := c0 hg'
    have hp : ¬ (s.pc cfg.lt = .exUnlock ∨ s.pc cfg.lt = .done) := by
      intro hp
      rcases hp with hp | hp <;> rw [hp] at hg' <;> simp [gone] at hg'
    have := e0 hp
    omega

/-! ## Clauses 2 and 4 — contexts: registered or released exactly once, never touched after free -/

/-- **At most once, and no use after free, in every reachable state**: a context is in at most one
of {hand-over queue, registered list, released, dropped}; it has been registered at most once and
released at most once; no step touched a context after its release (`uaf = 0`: the ownership form
of "no callback touches memory that has been freed"). -/
theorem ctx_at_most_once_no_uaf {cfg : Cfg} (ok : CfgOk cfg) {s : St}
    (hr : Reach (step cfg) (mkInit cfg) s) (c : Ctx) :
    s.queue.count c + s.reg.count c + s.relLog.count c + s.lost.count c ≤ 1 ∧
    s.regLog.count c ≤ 1 ∧ s.relLog.count c ≤ 1 ∧ s.uaf = 0 := by
  obtain ⟨_, _, hc⟩ := reach_inv ok hr
  have h1 := hc.total_le_one c
  have h2 := hc.rl c
  have h3 : s.handed.count c ≤ 1 := List.nodup_iff_count.mp hc.hnd c
  exact ⟨h1, by omega, by omega, hc.uaf⟩

/-- the state after the owner's `muggle_socket_evloop_handle_destroy` keeps `uaf = 0` -/
theorem finalize_no_uaf {cfg : Cfg} (ok : CfgOk cfg) {s : St}
    (hr : Reach (step cfg) (mkInit cfg) s) : (finalize cfg s).uaf = 0 := by
  obtain ⟨_, _, hc⟩ := reach_inv ok hr
  unfold finalize
  split
  · simp only [release]
    rw [hc.uaf, filter_mem_len_zero]
    intro c hq hrel
    have := hc.total_le_one c
    have h1 : 1 ≤ s.queue.count c := List.one_le_count_iff.mpr hq
    have h2 : 1 ≤ s.relLog.count c := List.one_le_count_iff.mpr hrel
    omega
  · exact hc.uaf

/-- **Hand-over, general accounting after `run()` returned** (any variant of the code): when the run
is over and the loop has returned, after the owner's `handle_destroy` every handed-over context is
exactly one of: released, dropped by `on_wake` (only the original `on_wake`), left in the queue
(only the original `handle_destroy`); nothing is registered. -/
theorem handover_accounting_after_exit {cfg : Cfg} (ok : CfgOk cfg) {s : St}
    (hr : Reach (step cfg) (mkInit cfg) s) (hd : s.pc cfg.lt = .done) (c : Ctx) (hc : c ∈ s.handed) :
    (finalize cfg s).relLog.count c + (finalize cfg s).lost.count c + (finalize cfg s).queue.count c = 1 ∧
    (finalize cfg s).reg = [] ∧
    (cfg.fix.addFail = true → (finalize cfg s).lost = []) ∧
    (cfg.fix.lateQueue = true → (finalize cfg s).queue = []) := by
  obtain ⟨_, _, hi⟩ := reach_inv ok hr
  have hg : gone (s.pc cfg.lt) = true := by rw [hd]; rfl
  have hreg := hi.regE hg
  have hp := hi.part c
  have h1 : s.handed.count c = 1 := by
    have := List.nodup_iff_count.mp hi.hnd c
    have : 1 ≤ s.handed.count c := List.one_le_count_iff.mpr hc
    omega
  have hio : ioOne cfg c = 0 := by
    unfold ioOne
    split
    · rename_i h
      have := hi.hbd c hc
      rw [h.2] at this
      simp [Cfg.ioId] at this
    · rfl
  rw [hreg] at hp
  simp only [List.count_nil] at hp
  unfold finalize
  split
  · simp only [release, List.count_append, List.count_nil]
    exact ⟨by omega, hreg, hi.nolost, by simp⟩
  · rename_i hl
    exact ⟨by omega, hreg, hi.nolost, fun h => absurd h hl⟩

/-- **Hand-over: released exactly once after exit** (repaired `on_wake` and `handle_destroy`): when
`run()` has returned, after the owner's `handle_destroy` every context that was handed over — at
any moment, also after `on_exit` drained the queue — has been released exactly once, registered at
most once, and nothing touched it after its release; the pre-registered I/O context too. -/
theorem handover_released_exactly_once {cfg : Cfg} (ok : CfgOk cfg)
    (hf1 : cfg.fix.addFail = true) (hf2 : cfg.fix.lateQueue = true) {s : St}
    (hr : Reach (step cfg) (mkInit cfg) s) (hd : s.pc cfg.lt = .done) :
    (∀ c ∈ s.handed, (finalize cfg s).relLog.count c = 1 ∧ s.regLog.count c ≤ 1) ∧
    (cfg.ioCtx = true → (finalize cfg s).relLog.count cfg.ioId = 1) ∧
    (finalize cfg s).queue = [] ∧ (finalize cfg s).uaf = 0 := by
  obtain ⟨_, _, hi⟩ := reach_inv ok hr
  refine ⟨?_, ?_, ?_, finalize_no_uaf ok hr⟩
  · intro c hc
    obtain ⟨h1, _, h3, h4⟩ := handover_accounting_after_exit ok hr hd c hc
    rw [h3 hf1, h4 hf2] at h1
    simp only [List.count_nil] at h1
    exact ⟨by omega, (ctx_at_most_once_no_uaf ok hr c).2.1⟩
  · intro hio
    have hg : gone (s.pc cfg.lt) = true := by rw [hd]; rfl
    have hp := hi.part cfg.ioId
    rw [hi.regE hg, hi.nolost hf1] at hp
    have h0 : s.handed.count cfg.ioId = 0 := by
      apply List.count_eq_zero_of_not_mem
      intro hm
      have := hi.hbd _ hm
      simp [Cfg.ioId] at this
    simp only [List.count_nil, ioOne, hio, true_and, if_true, h0] at hp
    unfold finalize
    simp only [hf2, if_true, release, List.count_append]
    omega
  · unfold finalize; simp [hf2]

/-- **Hand-over while the loop keeps running**: when nothing can run any more and `run()` has not
returned, every handed-over context has left the queue and is exactly one of: registered
(in the loop's list), released (its registration failed: bad descriptor or capacity — repaired
`on_wake`), dropped (original `on_wake` only). -/
theorem handover_registered_or_released_while_running {cfg : Cfg} (ok : CfgOk cfg) {s : St}
    (hr : Reach (step cfg) (mkInit cfg) s) (hT : Terminal cfg s) (hrun : Running cfg s)
    (c : Ctx) (hc : c ∈ s.handed) :
    s.reg.count c + s.relLog.count c + s.lost.count c = 1 ∧ s.queue = [] ∧
    (cfg.fix.addFail = true → s.lost = []) := by
  obtain ⟨_, _, hi⟩ := reach_inv ok hr
  obtain ⟨_, hq, _⟩ := wake_served_at_quiescence ok hr hT hrun
  have hp := hi.part c
  have h1 : s.handed.count c = 1 := by
    have := List.nodup_iff_count.mp hi.hnd c
    have : 1 ≤ s.handed.count c := List.one_le_count_iff.mpr hc
    omega
  have hio : ioOne cfg c = 0 := by
    unfold ioOne
    split
    · rename_i h
      have := hi.hbd c hc
      rw [h.2] at this
      simp [Cfg.ioId] at this
    · rfl
  rw [hq] at hp
  simp only [List.count_nil] at hp
  exact ⟨by omega, hq, hi.nolost⟩

/-! ## The original code: `_partial` statements and negation witnesses -/

/-- **Exit, original `muggle_evloop_exit`, partial**: the exit theorem holds for the unrepaired
code whenever the thread that created the loop is the loop thread itself or is not an exit thread
(`NoCreatorExit`). What is missing for the full statement is exactly the case refuted below. -/
theorem exit_makes_run_return_partial {cfg : Cfg} (ok : CfgOk cfg) (hnc : NoCreatorExit cfg) {s : St}
    (hr : Reach (step cfg) (mkInit cfg) s) (hT : Terminal cfg s) (he : s.toExit ≠ 0) :
    s.pc cfg.lt = .done ∧ s.clears = 1 ∧ s.exits = 1 ∧ s.reg = [] :=
  exit_makes_run_return ok (Or.inr hnc) hr hT he

def tk (l : List Nat) : List Tok := l.map fun t => { tid := t }

/-- the configuration of corpus/C14/exit-before-run-lost.ops with the ORIGINAL exit -/
def cfgExitLost : Cfg := mkCfg .select 4 false { exitWake := false } [.exit, .loop 0]

/-- **The full exit statement is false for the original code** (DESIGN.md §4 #16): thread 0 created
the loop and calls `muggle_evloop_exit` before thread 1 records its id in `muggle_evloop_run`: EXIT
is stored without a wake-up and the loop parks for ever — a terminal state with the exit call
completed and `run()` not returned. Replayed on the real code by the check. -/
theorem exit_before_run_lost_orig :
    let s := (runSched (step cfgExitLost) (mkInit cfgExitLost) (tk [0, 0, 1, 1, 1])).1
    s.exitCalls = 1 ∧ s.toExit = EXIT ∧ s.pc cfgExitLost.lt = .blocked ∧
    (∀ t, t < 2 → s.enabled cfgExitLost t = false) := by
  decide

/-- the racing form: the creator reads `tid` (still its own), the loop thread starts and parks, the
creator stores EXIT: also lost -/
theorem exit_racing_run_start_lost_orig :
    let s := (runSched (step cfgExitLost) (mkInit cfgExitLost) (tk [0, 1, 1, 1, 0])).1
    s.exitCalls = 1 ∧ s.pc cfgExitLost.lt = .blocked ∧ (∀ t, t < 2 → s.enabled cfgExitLost t = false) := by
  decide

/-- with the repaired exit the same schedules end with `run()` returned -/
example :
    let cfg := mkCfg .select 4 false {} [.exit, .loop 0]
    (runSched (step cfg) (mkInit cfg) (tk [0, 0, 1, 1, 1, 0, 1, 1, 1, 1, 1, 1, 1, 1])).1.pc 1 = .done := by
  decide

/-- **The original `on_wake` drops a context whose registration fails** (DESIGN.md §4 #17): poll
back-end with capacity 1, two contexts handed over: the second is neither registered nor released
(`lost`), and no further step is possible. -/
theorem on_wake_add_failure_dropped_orig :
    let cfg := mkCfg .poll 1 false { addFail := false } [.loop 0, .hand [true, true]]
    let s := (runSched (step cfg) (mkInit cfg)
      (tk [0, 0, 0, 1, 1, 1, 1, 1, 1, 0, 0, 0, 0, 0, 0, 0, 0, 0, 0])).1
    s.lost = [(1, 1)] ∧ s.reg = [(1, 0)] ∧ s.relLog = [] ∧ s.queue = [] ∧
    (∀ t, t < 2 → s.enabled cfg t = false) := by
  decide

/-- **The original `handle_destroy` leaks a context handed over after `on_exit` drained the
queue**: the exit completes, `run()` returns, then the hand-over thread enqueues its context: it
is still queued after `handle_destroy`, never released. -/
theorem late_handover_leaked_orig :
    let cfg := mkCfg .poll 2 false { lateQueue := false } [.loop 0, .exit, .hand [true]]
    let s := (runSched (step cfg) (mkInit cfg)
      (tk [0, 0, 1, 1, 1, 0, 0, 0, 0, 0, 0, 0, 0, 0, 2, 2, 2])).1
    s.pc 0 = .done ∧ (finalize cfg s).queue = [(2, 0)] ∧ (finalize cfg s).relLog = [] ∧
    (∀ t, t < 3 → s.enabled cfg t = false) := by
  decide

/-! ## Non-vacuity -/

def isLoopRole : Role → Bool
  | .loop _ => true
  | _ => false

/-- a configuration check that is decidable for concrete role lists -/
theorem cfgOk_of_list (b : Backend) (cap : Nat) (io : Bool) (fix : Fix) (roles : List Role)
    (h1 : findLoop roles 0 < roles.length)
    (h2 : isLoopRole (roles.getD (findLoop roles 0) (.waker 0)) = true)
    (h3 : ∀ t, t < roles.length → t ≠ findLoop roles 0 → isLoopRole (roles.getD t (.waker 0)) = false) :
    CfgOk (mkCfg b cap io fix roles) := by
  refine ⟨?_, ?_, h1⟩
  · intro t ht k hk
    by_cases hl : t < roles.length
    · have := h3 t hl ht
      simp only [mkCfg] at hk
      rw [hk] at this
      simp [isLoopRole] at this
    · simp only [mkCfg, List.getD_eq_getElem?_getD, List.getElem?_eq_none (Nat.le_of_not_lt hl)] at hk
      simp at hk
  · simp only [mkCfg]
    cases hr : roles.getD (findLoop roles 0) (.waker 0) with
    | loop k => exact ⟨k, rfl⟩
    | _ => rw [hr] at h2; simp [isLoopRole] at h2

theorem findLoop_ge (roles : List Role) (i : Nat) : i ≤ findLoop roles i := by
  induction roles generalizing i with
  | nil => simp [findLoop]
  | cons r rs ih =>
    cases r <;> simp only [findLoop] <;> first | exact Nat.le_refl _ | exact Nat.le_trans (Nat.le_succ i) (ih (i + 1))

theorem findLoop_spec (roles : List Role) (i : Nat) (h : (roles.filter isLoopRole).length = 1) :
    findLoop roles i - i < roles.length ∧
    isLoopRole (roles.getD (findLoop roles i - i) (.waker 0)) = true ∧
    ∀ t, t < roles.length → t ≠ findLoop roles i - i → isLoopRole (roles.getD t (.waker 0)) = false := by
  induction roles generalizing i with
  | nil => simp at h
  | cons r rs ih =>
    by_cases hr : isLoopRole r = true
    · have hf : findLoop (r :: rs) i = i := by cases r <;> simp_all [findLoop, isLoopRole]
      have hrest : rs.filter isLoopRole = [] := by
        simp only [List.filter, hr] at h
        simpa using h
      rw [hf]
      refine ⟨by simp, by simpa using hr, ?_⟩
      intro t ht hne
      cases t with
      | zero => simp at hne
      | succ t =>
        simp only [List.getD_cons_succ]
        have hm : t < rs.length := by simpa using ht
        have := List.filter_eq_nil_iff.mp hrest (rs.getD t (.waker 0)) (by
          rw [List.getD_eq_getElem?_getD, List.getElem?_eq_getElem hm]; simp)
        simpa using this
    · have hr' : isLoopRole r = false := by simpa using hr
      have hf : findLoop (r :: rs) i = findLoop rs (i + 1) := by cases r <;> simp_all [findLoop, isLoopRole]
      have hrest : (rs.filter isLoopRole).length = 1 := by
        simpa [List.filter, hr'] using h
      obtain ⟨h1, h2, h3⟩ := ih (i + 1) hrest
      have hge := findLoop_ge rs (i + 1)
      rw [hf]
      have he : findLoop rs (i + 1) - i = (findLoop rs (i + 1) - (i + 1)) + 1 := by omega
      rw [he]
      refine ⟨by simpa using h1, by simpa using h2, ?_⟩
      intro t ht hne
      cases t with
      | zero => simpa using hr'
      | succ t =>
        simp only [List.getD_cons_succ]
        exact h3 t (by simpa using ht) (by omega)

/-- every configuration built from a role list with exactly one loop thread is well-formed -/
theorem cfgOk_of_one_loop (b : Backend) (cap : Nat) (io : Bool) (fix : Fix) (roles : List Role)
    (h : (roles.filter isLoopRole).length = 1) : CfgOk (mkCfg b cap io fix roles) := by
  obtain ⟨h1, h2, h3⟩ := findLoop_spec roles 0 h
  simp only [Nat.sub_zero] at h1 h2 h3
  exact cfgOk_of_list b cap io fix roles h1 h2 h3

/-- the hypotheses of the theorems are satisfiable and the interesting states are reachable: with
the creator being the exit thread, a waker, a hand-over thread with a good and a bad descriptor and
an I/O writer on the epoll back-end, a concrete schedule reaches a state where the loop is parked
with a wake-up request unserved … which the theorems show cannot be terminal -/
example :
    let cfg := mkCfg .epoll 1 true {} [.exit, .loop 0, .waker 2, .hand [true, false], .io 1]
    CfgOk cfg ∧ ExitOk cfg ∧
    (runSched (step cfg) (mkInit cfg) (tk [1, 1, 1, 2])).1.unserved = 1 ∧
    (runSched (step cfg) (mkInit cfg) (tk [1, 1, 1, 2])).1.pc 1 = .woken := by
  refine ⟨cfgOk_of_list _ _ _ _ _ (by decide) (by decide) (by decide), Or.inl rfl, by decide, by decide⟩

end MgProof.C14
