import MgProof.C14.Lemmas
/-! C14: every step preserves the control-flow invariant `Typ` (one theorem per field). -/
namespace MgProof.C14
open MgModel.Conc MgModel.C14

variable {cfg : Cfg} {s : St} {t : Nat}

theorem loopPc_lt (h : Typ cfg s) (hl : isLoopPc (s.pc t) = true) : t = cfg.lt := by
  by_cases e : t = cfg.lt
  · exact e
  · rw [h.nonloop t e] at hl; simp at hl

/-- which pcs the stepping thread can stand at, depending on whether it is the loop thread -/
theorem thr (h : Typ cfg s) (t : Nat) :
    (isLoopPc (s.pc t) = true → t = cfg.lt) ∧
    (t = cfg.lt → isLoopPc (s.pc t) = true ∨ isExitPc (s.pc t) = true ∨ s.pc t = .done) := by
  refine ⟨loopPc_lt h, ?_⟩
  intro e; subst e; exact h.loopthr

theorem typ_nonloop (h : Typ cfg s) (hen : s.enabled cfg t = true) :
    ∀ u, u ≠ cfg.lt → isLoopPc ((stepAt cfg s t (s.pc t)).1.pc u) = false := by
  have h1 := h.nonloop
  have hlt := thr h t
  have hacp := advPc_cases (harvest cfg s)
  have hacp2 := advPc_cases s.plan
  clear h
  unfold St.enabled at hen
  generalize hq : s.pc t = q at hen hlt ⊢
  step_unfold q hen
  all_goals grind [upd, isLoopPc, isExitPc]

theorem typ_loopthr (h : Typ cfg s) (hen : s.enabled cfg t = true) :
    isLoopPc ((stepAt cfg s t (s.pc t)).1.pc cfg.lt) = true ∨
    isExitPc ((stepAt cfg s t (s.pc t)).1.pc cfg.lt) = true ∨
    (stepAt cfg s t (s.pc t)).1.pc cfg.lt = .done := by
  have h1 := h.nonloop
  have h2 := h.loopthr
  have hlt := thr h t
  have hacp := advPc_cases (harvest cfg s)
  have hacp2 := advPc_cases s.plan
  clear h
  unfold St.enabled at hen
  generalize hq : s.pc t = q at hen hlt ⊢
  step_unfold q hen
  all_goals grind [upd, isLoopPc, isExitPc]

theorem typ_beyond (h : Typ cfg s) (hen : s.enabled cfg t = true) :
    ∀ u, cfg.n ≤ u → (stepAt cfg s t (s.pc t)).1.pc u = .done := by
  have h2 := h.beyond
  clear h
  unfold St.enabled at hen
  generalize hq : s.pc t = q at hen ⊢
  step_unfold q hen
  all_goals grind [upd]

theorem typ_tid (h : Typ cfg s) (hen : s.enabled cfg t = true) :
    (stepAt cfg s t (s.pc t)).1.tid = 0 ∨ (stepAt cfg s t (s.pc t)).1.tid = cfg.lt := by
  have h3 := h.tid
  have hlt := thr h t
  clear h
  unfold St.enabled at hen
  generalize hq : s.pc t = q at hen hlt ⊢
  step_unfold q hen
  all_goals grind [isLoopPc, isExitPc]

theorem typ_owner (h : Typ cfg s) (hen : s.enabled cfg t = true) :
    ∀ o, (stepAt cfg s t (s.pc t)).1.mtx = some o → o < cfg.n ∧
      ((stepAt cfg s t (s.pc t)).1.pc o = .wkAdd ∨ (stepAt cfg s t (s.pc t)).1.pc o = .wkUnlock ∨
       (stepAt cfg s t (s.pc t)).1.pc o = .exUnlock ∨
       ∃ i r, (stepAt cfg s t (s.pc t)).1.pc o = .hUnlock i r) := by
  have h4 := h.owner
  have hlt := thr h t
  have hacp := advPc_cases (harvest cfg s)
  have hacp2 := advPc_cases s.plan
  clear h
  unfold St.enabled at hen
  generalize hq : s.pc t = q at hen hlt ⊢
  step_unfold q hen
  all_goals grind [upd, isLoopPc, isExitPc]

theorem typ_started (h : Typ cfg s) (hen : s.enabled cfg t = true) :
    (stepAt cfg s t (s.pc t)).1.evAdded = ((stepAt cfg s t (s.pc t)).1.pc cfg.lt != .runStart) := by
  have h5 := h.started
  have h2 := h.loopthr
  have hlt := thr h t
  have hacp := advPc_cases (harvest cfg s)
  have hacp2 := advPc_cases s.plan
  clear h
  unfold St.enabled at hen
  generalize hq : s.pc t = q at hen hlt ⊢
  step_unfold q hen
  all_goals grind [upd, isLoopPc, isExitPc]

theorem typ_idle (h : Typ cfg s) (hen : s.enabled cfg t = true) :
    idlePc ((stepAt cfg s t (s.pc t)).1.pc cfg.lt) = true → (stepAt cfg s t (s.pc t)).1.plan = [] := by
  have h6 := h.idle
  have hlt := thr h t
  have hacp := advPc_cases (harvest cfg s)
  have hacp2 := advPc_cases s.plan
  have hpl := advPlan_chk (harvest cfg s)
  have hpl2 := advPlan_chk s.plan
  clear h
  unfold St.enabled at hen
  generalize hq : s.pc t = q at hen hlt ⊢
  step_unfold q hen
  all_goals grind [upd, isLoopPc, isExitPc, idlePc, advPlan]

theorem typ_exitrole (h : Typ cfg s) (hen : s.enabled cfg t = true) :
    ∀ u, u ≠ cfg.lt → isExitPc ((stepAt cfg s t (s.pc t)).1.pc u) = true → cfg.role u = .exit := by
  have h7 := h.exitrole
  have hlt := thr h t
  have hacp := advPc_cases (harvest cfg s)
  have hacp2 := advPc_cases s.plan
  clear h
  unfold St.enabled at hen
  generalize hq : s.pc t = q at hen hlt ⊢
  step_unfold q hen
  all_goals grind [upd, isLoopPc, isExitPc]

theorem typ_tidl (h : Typ cfg s) (hen : s.enabled cfg t = true) :
    (stepAt cfg s t (s.pc t)).1.evAdded = true → (stepAt cfg s t (s.pc t)).1.tid = cfg.lt := by
  have h8 := h.tidl
  have hlt := thr h t
  clear h
  unfold St.enabled at hen
  generalize hq : s.pc t = q at hen hlt ⊢
  step_unfold q hen
  all_goals grind [isLoopPc, isExitPc]

theorem typ_noSetW (h : Typ cfg s) (hen : s.enabled cfg t = true) :
    (stepAt cfg s t (s.pc t)).1.pc cfg.lt ≠ .eSetW := by
  have h8 := h.tidl
  have h9 := h.noSetW
  have h5 := h.started
  have hlt := thr h t
  have hacp := advPc_cases (harvest cfg s)
  have hacp2 := advPc_cases s.plan
  clear h
  unfold St.enabled at hen
  generalize hq : s.pc t = q at hen hlt ⊢
  step_unfold q hen
  all_goals grind [upd, isLoopPc, isExitPc]

theorem typ_step {s' : St} {tok : Tok} {ev : List String}
    (h : Typ cfg s) (hs : step cfg s tok = some (s', ev)) : Typ cfg s' := by
  obtain ⟨hen, rfl⟩ := step_some hs
  exact ⟨typ_nonloop h hen, typ_loopthr h hen, typ_beyond h hen, typ_tid h hen, typ_owner h hen,
         typ_started h hen, typ_idle h hen, typ_exitrole h hen, typ_tidl h hen, typ_noSetW h hen⟩

end MgProof.C14
