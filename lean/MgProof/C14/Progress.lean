import MgProof.C14.CtxInv
/-! C14: bounded progress of the loop thread once an exit has been requested — the liveness
half of "an exit request makes run() return": a variant function that strictly decreases with
every step of the loop thread when all other threads have finished. -/
namespace MgProof.C14
open MgModel.Conc MgModel.C14

/-- number of eventfd entries in a dispatch plan -/
def nEv (l : List Src) : Nat := l.count Src.ev

theorem nEv_advPlan {pl : List Src} (h : Src.ev ∈ pl) : nEv (advPlan pl) + 1 = nEv pl := by
  induction pl with
  | nil => simp at h
  | cons x xs ih =>
    cases x with
    | ev => simp [advPlan, nEv, List.count_cons]
    | io =>
      have h' : Src.ev ∈ xs := by simpa using h
      have := ih h'
      simp only [advPlan, nEv, List.count_cons] at this ⊢
      simpa using this

theorem nEv_advPlan_le (pl : List Src) : nEv (advPlan pl) ≤ nEv pl := by
  induction pl with
  | nil => simp [advPlan]
  | cons x xs ih =>
    cases x with
    | ev => simp [advPlan, nEv, List.count_cons]
    | io => simp only [advPlan, nEv, List.count_cons] at ih ⊢; simpa using ih

theorem advPc_clearup_ev {pl : List Src} (h : advPc pl = .clearup) : Src.ev ∈ pl := by
  induction pl with
  | nil => simp [advPc] at h
  | cons x xs ih =>
    cases x with
    | ev => simp
    | io => simp only [advPc] at h; simp [ih h]

/-- all threads other than the loop thread have finished -/
def OthersDone (cfg : Cfg) (s : St) : Prop := ∀ t, t ≠ cfg.lt → s.pc t = .done

/-- how far the loop thread is from returning, given where it stands -/
def stage (cfg : Cfg) (s : St) : Pc → Nat
  | .done => 0
  | .exUnlock => 1
  | .exLock => 2
  | .chkExit => if s.toExit = 2 then 200 + 40 * nEv (harvest cfg s) else 3
  | .wkSet => 40 * nEv s.plan + 4
  | .wkChk => 40 * nEv s.plan + 5
  | .eWake => 40 * nEv s.plan + 6
  | .eSetE => 40 * nEv s.plan + 7
  | .eSetW => 40 * nEv s.plan + 7
  | .eRead => 40 * nEv s.plan + 8
  | .wkUnlock => 40 * nEv s.plan + 9
  | .wkAdd => 40 * nEv s.plan + 10
  | .wkLock => 40 * nEv s.plan + 11
  | .clearup => 40 * nEv s.plan + 12
  | .poll => 60 + 40 * nEv (harvest cfg s)
  | .woken => 60 + 40 * nEv (harvest cfg s)
  | .fwait _ => 60 + 40 * nEv (harvest cfg s)
  | .runStart => 400 + 40 * (nEv (harvest cfg s) + 1)
  | _ => 0

/-- the variant: stage of the loop thread plus the contexts still to drain -/
def mu (cfg : Cfg) (s : St) : Nat := stage cfg s (s.pc cfg.lt) + s.queue.length


theorem harvest_pc (cfg : Cfg) (s : St) (f : Nat → Pc) : harvest cfg ({ s with pc := f } : St) = harvest cfg s := rfl

/-- `runStart` adds at most one eventfd entry to what the next poll reports -/
theorem nEv_harvest_runStart (cfg : Cfg) (s : St) (t : Nat) (f : Nat → Pc) :
    nEv (harvest cfg ({ s with tid := t, evAdded := true,
                               rdl := if cfg.backend = .epoll ∧ s.counter > 0 ∧ Src.ev ∉ s.rdl then s.rdl ++ [Src.ev] else s.rdl,
                               pc := f } : St)) ≤ nEv (harvest cfg s) + 1 := by
  unfold harvest
  cases cfg.backend with
  | poll => exact Nat.le_succ _
  | select => exact Nat.le_succ _
  | epoll =>
    simp only []
    split
    · simp only [List.filter_append, nEv, List.count_append]
      have : List.count Src.ev (List.filter (St.ready cfg s) [Src.ev]) ≤ 1 := by
        simp only [List.filter]
        split <;> simp
      exact Nat.add_le_add_left this _
    · exact Nat.le_succ _

variable {cfg : Cfg} {s : St}

/-- with the other threads finished and an exit store done, a loop thread that is about to poll
(or has just found `to_exit == WAKE` at the end of an iteration) finds the eventfd readable -/
theorem counter_pos_of_exit (ht : Typ cfg s) (hs : Safe cfg s) (hx : ExitOk cfg)
    (hod : OthersDone cfg s) (he : s.toExit ≠ 0)
    (hp : s.pc cfg.lt = .poll ∨ s.pc cfg.lt = .woken ∨ (∃ s0, s.pc cfg.lt = .fwait s0) ∨
          s.pc cfg.lt = .blocked ∨ s.pc cfg.lt = .runStart ∨ (s.pc cfg.lt = .chkExit ∧ s.toExit = 2)) :
    s.counter > 0 := by
  have hnw : ¬ hasWake s.pc := by
    intro ⟨u, hu⟩
    by_cases e : u = cfg.lt
    · subst e
      rcases hp with h | h | ⟨_, h⟩ | h | h | ⟨h, _⟩ <;> rw [h] at hu <;> simp at hu
    · rw [hod u e] at hu; simp at hu
  have hg : gone (s.pc cfg.lt) = false := by
    rcases hp with h | h | ⟨_, h⟩ | h | h | ⟨h, _⟩ <;> rw [h] <;> rfl
  rcases hs.rng with h | h | h
  · exact absurd h he
  · rcases hs.x1 hx h hg with h' | h' | h'
    · exact h'
    · exfalso
      rcases hp with h'' | h'' | ⟨_, h''⟩ | h'' | h'' | ⟨_, h''⟩
      all_goals (first | (rw [h''] at h'; simp [dispatching] at h') | omega)
    · exact absurd h' hnw
  · rcases hs.x2 h hg with h' | h' | h'
    · exact h'
    · exfalso
      rcases hp with h'' | h'' | ⟨_, h''⟩ | h'' | h'' | ⟨h'', _⟩
      all_goals (rw [h''] at h'; simp [preChk] at h')
    · exact absurd h' hnw

/-- a readable eventfd is reported by the next poll of a started loop that is not dispatching -/
theorem ev_in_harvest (ht : Typ cfg s) (hs : Safe cfg s) (hc : s.counter > 0)
    (hst : s.evAdded = true) (hidle : idlePc (s.pc cfg.lt) = true) : Src.ev ∈ harvest cfg s := by
  cases hb : cfg.backend with
  | epoll =>
    have hpl := ht.idle hidle
    rcases hs.vis hc hb hst with h | h | h
    · exact ev_mem_harvest hb h hc
    · rw [hpl] at h; simp at h
    · rw [h] at hidle; simp [idlePc] at hidle
  | poll => simp [harvest, hb, St.ready, hc]
  | select => simp [harvest, hb, St.ready, hc]


/-- with the other threads finished the mutex is free or held by the loop thread -/
theorem mtx_of_othersDone (ht : Typ cfg s) (hod : OthersDone cfg s) :
    s.mtx = none ∨ (s.mtx = some cfg.lt ∧
      (s.pc cfg.lt = .wkAdd ∨ s.pc cfg.lt = .wkUnlock ∨ s.pc cfg.lt = .exUnlock)) := by
  cases hm : s.mtx with
  | none => exact Or.inl rfl
  | some o =>
    right
    obtain ⟨_, hp⟩ := ht.owner o hm
    have ho : o = cfg.lt := by
      by_cases e : o = cfg.lt
      · exact e
      · rw [hod o e] at hp; simp at hp
    subst ho
    refine ⟨rfl, ?_⟩
    rcases hp with h | h | h | ⟨i, r, h⟩
    · exact Or.inl h
    · exact Or.inr (Or.inl h)
    · exact Or.inr (Or.inr h)
    · have := ht.loopthr
      rw [h] at this
      simp [isLoopPc, isExitPc] at this

set_option maxHeartbeats 1000000 in
/-- **the variant decreases**: when all other threads have finished and an exit store has happened,
the loop thread (if it has not returned yet) can take a step, and that step strictly decreases `mu` -/
theorem solo_decreases (ht : Typ cfg s) (hs : Safe cfg s) (hx : ExitOk cfg) (hod : OthersDone cfg s)
    (he : s.toExit ≠ 0) (hnd : s.pc cfg.lt ≠ .done) (hn : cfg.lt < cfg.n) :
    s.enabled cfg cfg.lt = true ∧ mu cfg (nxt cfg s cfg.lt) < mu cfg s := by
  have hcp := counter_pos_of_exit ht hs hx hod he
  have hevh := ev_in_harvest ht hs
  have hmtx := mtx_of_othersDone ht hod
  have hrng := hs.rng
  have hpark := hs.park
  have hblk := hs.blk
  have hthr := ht.loopthr
  have htidl := ht.tidl
  have hnsw := ht.noSetW
  have hst := ht.started
  have hn1 := @nEv_advPlan (harvest cfg s)
  have hn2 := @nEv_advPlan s.plan
  have hn3 := nEv_advPlan_le (harvest cfg s)
  have hn4 := nEv_advPlan_le s.plan
  have hev := @advPc_ev (harvest cfg s)
  have hev2 := @advPc_ev s.plan
  have hce := @advPc_clearup_ev (harvest cfg s)
  have hce2 := @advPc_clearup_ev s.plan
  have hacp := advPc_cases (harvest cfg s)
  have hacp2 := advPc_cases s.plan
  have hpl := advPlan_chk (harvest cfg s)
  have hpl2 := advPlan_chk s.plan
  have hrs := nEv_harvest_runStart cfg s cfg.lt (upd s.pc cfg.lt Pc.poll)
  clear ht hs hod
  unfold mu nxt St.enabled
  generalize hq : s.pc cfg.lt = q at *
  cases q <;> simp only [stepAt, idlePc, isLoopPc, isExitPc, hn, decide_true, Bool.true_and] at *
  all_goals (try (exfalso; simp at hthr; done))
  all_goals (repeat' split)
  all_goals (try simp only [pollNow, advance, exitReturn, evWrite, signal, release])
  all_goals (try dsimp only)
  all_goals (try simp only [upd_same, stage, harvest_pc])
  all_goals grind [stage, upd, WAKE, EXIT]


/-- the loop thread runs alone for `k` steps -/
def solo (cfg : Cfg) : Nat → St → St
  | 0, s => s
  | k + 1, s => solo cfg k (nxt cfg s cfg.lt)

theorem pc_other_step (u : Nat) (hu : u ≠ cfg.lt) : (nxt cfg s cfg.lt).pc u = s.pc u := by
  unfold nxt
  generalize s.pc cfg.lt = q
  cases q <;> simp only [stepAt] <;> (repeat' split) <;>
    (try simp only [pollNow, advance, exitReturn, evWrite, signal, release]) <;> (try dsimp only) <;>
    grind [upd]

theorem toExit_step (he : s.toExit ≠ 0) : (nxt cfg s cfg.lt).toExit ≠ 0 := by
  unfold nxt
  generalize s.pc cfg.lt = q
  cases q <;> simp only [stepAt] <;> (repeat' split) <;>
    (try simp only [pollNow, advance, exitReturn, evWrite, signal, release]) <;> (try dsimp only) <;>
    grind [WAKE, EXIT]

theorem reach_nxt {init : St} (hr : Reach (step cfg) init s) {t : Nat} (hen : s.enabled cfg t = true) :
    Reach (step cfg) init (nxt cfg s t) := by
  refine Reach.step (t := { tid := t }) (ev := (stepAt cfg s t (s.pc t)).2) hr ?_
  simp [step, hen, nxt]


/-! ## wake-ups: the loop thread enters the wake callback within a bounded number of its steps -/

/-- how far the loop thread is from entering the wake callback -/
def stage2 : Pc → Nat
  | .wkLock => 1
  | .clearup => 2
  | .poll => 3
  | .woken => 3
  | .fwait _ => 3
  | .runStart => 4
  | .chkExit => 5
  | .wkSet => 6
  | .wkChk => 7
  | .eWake => 8
  | .eSetE => 9
  | .eSetW => 9
  | .eRead => 10
  | .wkUnlock => 11
  | .wkAdd => 12
  | _ => 0

def mu2 (cfg : Cfg) (s : St) : Nat := stage2 (s.pc cfg.lt) + s.queue.length

set_option maxHeartbeats 1000000 in
/-- with the other threads finished, a running loop with an unserved wake-up request can take a
step, and that step enters the wake callback (`unserved` is reset), or leaves the loop (an exit is
being carried out), or strictly decreases `mu2` with the request still pending -/
theorem wake_decreases (ht : Typ cfg s) (hs : Safe cfg s) (hod : OthersDone cfg s)
    (hrun : gone (s.pc cfg.lt) = false) (hreq : s.unserved > 0) (hn : cfg.lt < cfg.n) :
    s.enabled cfg cfg.lt = true ∧
    ((nxt cfg s cfg.lt).unserved = 0 ∨ gone ((nxt cfg s cfg.lt).pc cfg.lt) = true ∨
     (mu2 cfg (nxt cfg s cfg.lt) < mu2 cfg s ∧ (nxt cfg s cfg.lt).unserved > 0 ∧
      gone ((nxt cfg s cfg.lt).pc cfg.lt) = false)) := by
  have hcp := hs.wake hreq hrun
  have hevh := ev_in_harvest ht hs
  have hmtx := mtx_of_othersDone ht hod
  have hpark := hs.park
  have hblk := hs.blk
  have hthr := ht.loopthr
  have hst := ht.started
  have hev := @advPc_ev (harvest cfg s)
  have hacp := advPc_cases (harvest cfg s)
  have hacp2 := advPc_cases s.plan
  clear ht hs hod
  unfold mu2 nxt St.enabled
  generalize hq : s.pc cfg.lt = q at *
  cases q <;> simp only [stepAt, idlePc, isLoopPc, isExitPc, gone, hn, decide_true, Bool.true_and] at *
  all_goals (try (exfalso; simp at hthr; done))
  all_goals (repeat' split)
  all_goals (try simp only [pollNow, advance, exitReturn, evWrite, signal, release])
  all_goals (try dsimp only)
  all_goals (try simp only [upd_same, stage2])
  all_goals grind [stage2, gone, upd, WAKE, EXIT]

end MgProof.C14
