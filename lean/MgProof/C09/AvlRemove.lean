import MgProof.C09.AvlLemmas
/-!
# C09 — AVL tree: removal (swap down to a leaf, unlink, retrace) keeps the invariant and
removes exactly one entry of the in-order sequence
-/
namespace MgProof.C09
open MgModel.C09 MgModel.C09.T

/-- one retracing step after the *left* child (old height `hl0`) was replaced by `l'` -/
theorem delRetrace_left {l' r : T} (k : Int) (v : Nat) (i : Nat) (p : Option Nat) {b : Int} {hl0 : Nat}
    {s : Bool}
    (hl' : Avl l') (hr : Avl r) (hb : b = (height r : Int) - (hl0 : Int)) (hb1 : -1 ≤ b) (hb2 : b ≤ 1)
    (hh : height l' + s.toNat = hl0) :
    ∃ t' s', delRetrace true l' k v b r i p s = .ok (t', s') ∧ Avl t' ∧
      toList t' = toList l' ++ (k, v) :: toList r ∧
      height t' + s'.toNat = max hl0 (height r) + 1 := by
  cases s with
  | false =>
    simp only [Bool.toNat_false, Nat.add_zero] at hh
    subst hh
    exact ⟨.node l' k v b r i p, false, by simp [delRetrace], ⟨hl', hr, hb, hb1, hb2⟩, by simp, by simp⟩
  | true =>
    simp only [Bool.toNat_true] at hh
    have hb3 : b = -1 ∨ b = 0 ∨ b = 1 := by omega
    rcases hb3 with rfl | rfl | rfl
    · refine ⟨.node l' k v 0 r i p, true, by simp [delRetrace], ⟨hl', hr, ?_, ?_, ?_⟩, by simp, ?_⟩ <;>
        (try simp) <;> omega
    · refine ⟨.node l' k v 1 r i p, false, by simp [delRetrace], ⟨hl', hr, ?_, ?_, ?_⟩, by simp, ?_⟩ <;>
        (try simp) <;> omega
    · have hh2 : height r = height l' + 2 := by omega
      obtain ⟨t', d, e, ht', hlist, hht, _⟩ := rebalance_right k v i p hl' hr hh2
      refine ⟨t', d, by simp [delRetrace, e], ht', hlist, ?_⟩
      omega

/-- one retracing step after the *right* child (old height `hr0`) was replaced by `r'` -/
theorem delRetrace_right {l r' : T} (k : Int) (v : Nat) (i : Nat) (p : Option Nat) {b : Int} {hr0 : Nat}
    {s : Bool}
    (hl : Avl l) (hr' : Avl r') (hb : b = (hr0 : Int) - (height l : Int)) (hb1 : -1 ≤ b) (hb2 : b ≤ 1)
    (hh : height r' + s.toNat = hr0) :
    ∃ t' s', delRetrace false l k v b r' i p s = .ok (t', s') ∧ Avl t' ∧
      toList t' = toList l ++ (k, v) :: toList r' ∧
      height t' + s'.toNat = max (height l) hr0 + 1 := by
  cases s with
  | false =>
    simp only [Bool.toNat_false, Nat.add_zero] at hh
    subst hh
    exact ⟨.node l k v b r' i p, false, by simp [delRetrace], ⟨hl, hr', hb, hb1, hb2⟩, by simp, by simp⟩
  | true =>
    simp only [Bool.toNat_true] at hh
    have hb3 : b = -1 ∨ b = 0 ∨ b = 1 := by omega
    rcases hb3 with rfl | rfl | rfl
    · have hh2 : height l = height r' + 2 := by omega
      obtain ⟨t', d, e, ht', hlist, hht, _⟩ := rebalance_left k v i p hl hr' hh2
      refine ⟨t', d, by simp [delRetrace, e], ht', hlist, ?_⟩
      omega
    · refine ⟨.node l k v (-1) r' i p, false, by simp [delRetrace], ⟨hl, hr', ?_, ?_, ?_⟩, by simp, ?_⟩ <;>
        (try simp) <;> omega
    · refine ⟨.node l k v 0 r' i p, true, by simp [delRetrace], ⟨hl, hr', ?_, ?_, ?_⟩, by simp, ?_⟩ <;>
        (try simp) <;> omega

/-- the swap-down loop along the right spine: removes the last in-order entry -/
theorem popMax_spec : ∀ t : T, t ≠ .nil → Avl t →
    ∃ t' km vm s, popMax t = .ok (t', km, vm, s) ∧ Avl t' ∧
      toList t = toList t' ++ [(km, vm)] ∧ height t' + s.toNat = height t := by
  intro t
  induction t with
  | nil => intro h; exact absurd rfl h
  | node l k v b r i p ihl ihr =>
    intro _ ha
    obtain ⟨hl, hr, hb, hb1, hb2⟩ := ha
    cases r with
    | nil =>
      cases l with
      | nil => exact ⟨.nil, k, v, true, by simp [popMax], trivial, by simp, by simp⟩
      | node ll lk lv lb lr li lp =>
        obtain ⟨l', k2, v2, s, e, hl', hlist, hh⟩ := ihl (by simp) hl
        obtain ⟨t', s', e', ht', hlist', hh'⟩ :=
          delRetrace_left k2 v2 i p (r := .nil) (hl0 := height (.node ll lk lv lb lr li lp)) hl' trivial hb hb1 hb2 hh
        refine ⟨t', k, v, s', by rw [popMax]; simp only [e, e'], ht', ?_, ?_⟩
        · rw [hlist', toList_node, hlist]; simp
        · rw [hh']; simp
    | node rl rk rv rb rr ri rp =>
      obtain ⟨r', km, vm, s, e, hr', hlist, hh⟩ := ihr (by simp) hr
      obtain ⟨t', s', e', ht', hlist', hh'⟩ :=
        delRetrace_right k v i p (hr0 := height (.node rl rk rv rb rr ri rp)) hl hr' hb hb1 hb2 hh
      refine ⟨t', km, vm, s', by rw [popMax]; simp only [e, e'], ht', ?_, ?_⟩
      · rw [hlist', toList_node, hlist]; simp
      · rw [hh']; simp

/-- the swap-down loop along the left spine: removes the first in-order entry -/
theorem popMin_spec : ∀ t : T, t ≠ .nil → Avl t →
    ∃ t' km vm s, popMin t = .ok (t', km, vm, s) ∧ Avl t' ∧
      toList t = (km, vm) :: toList t' ∧ height t' + s.toNat = height t := by
  intro t
  induction t with
  | nil => intro h; exact absurd rfl h
  | node l k v b r i p ihl ihr =>
    intro _ ha
    obtain ⟨hl, hr, hb, hb1, hb2⟩ := ha
    cases l with
    | nil =>
      cases r with
      | nil => exact ⟨.nil, k, v, true, by simp [popMin], trivial, by simp, by simp⟩
      | node rl rk rv rb rr ri rp =>
        obtain ⟨r', k2, v2, s, e, hr', hlist, hh⟩ := ihr (by simp) hr
        obtain ⟨t', s', e', ht', hlist', hh'⟩ :=
          delRetrace_right k2 v2 i p (l := .nil) (hr0 := height (.node rl rk rv rb rr ri rp)) trivial hr' hb hb1 hb2 hh
        refine ⟨t', k, v, s', by rw [popMin]; simp only [e, e'], ht', ?_, ?_⟩
        · rw [hlist', toList_node, hlist]; simp
        · rw [hh']; simp
    | node ll lk lv lb lr li lp =>
      obtain ⟨l', km, vm, s, e, hl', hlist, hh⟩ := ihl (by simp) hl
      obtain ⟨t', s', e', ht', hlist', hh'⟩ :=
        delRetrace_left k v i p (hl0 := height (.node ll lk lv lb lr li lp)) hl' hr hb hb1 hb2 hh
      refine ⟨t', km, vm, s', by rw [popMin]; simp only [e, e'], ht', ?_, ?_⟩
      · rw [hlist', toList_node, hlist]; simp
      · rw [hh']; simp

/-- `muggle_avl_tree_remove(node)` below `node`: the entry of `node` disappears from the
in-order sequence, everything else stays, the subtree stays balanced -/
theorem delRoot_spec {l r : T} (k : Int) (v : Nat) (b : Int) (i : Nat) (p : Option Nat)
    (ha : Avl (.node l k v b r i p)) :
    ∃ t' s, delRoot (.node l k v b r i p) = .ok (t', s) ∧ Avl t' ∧
      toList t' = toList l ++ toList r ∧ height t' + s.toNat = height (.node l k v b r i p) := by
  obtain ⟨hl, hr, hb, hb1, hb2⟩ := ha
  cases l with
  | nil =>
    cases r with
    | nil => exact ⟨.nil, true, by simp [delRoot], trivial, by simp, by simp⟩
    | node rl rk rv rb rr ri rp =>
      obtain ⟨r', km, vm, s, e, hr', hlist, hh⟩ := popMin_spec _ (by simp) hr
      obtain ⟨t', s', e', ht', hlist', hh'⟩ :=
        delRetrace_right km vm i p (l := .nil) (hr0 := height (.node rl rk rv rb rr ri rp)) trivial hr' hb hb1 hb2 hh
      refine ⟨t', s', by simp [delRoot, e, e'], ht', ?_, ?_⟩
      · simp [hlist', hlist]
      · rw [hh']; simp
  | node ll lk lv lb lr li lp =>
    obtain ⟨l', km, vm, s, e, hl', hlist, hh⟩ := popMax_spec _ (by simp) hl
    obtain ⟨t', s', e', ht', hlist', hh'⟩ :=
      delRetrace_left km vm i p (hl0 := height (.node ll lk lv lb lr li lp)) hl' hr hb hb1 hb2 hh
    refine ⟨t', s', by simp [delRoot, e, e'], ht', ?_, ?_⟩
    · rw [hlist', hlist]; simp
    · rw [hh']; simp

/-- **removal, structural part.** On a balanced search tree `del` never fails; either the key is
absent and nothing happens, or the new tree is balanced, its height shrank by `s`, and its
in-order sequence is the old one without the entry of `x`. -/
theorem del_spec (x : Int) : ∀ t : T, Avl t → Sorted t →
    (del x t = .ok none ∧ find t x = none) ∨
    (∃ t' s, del x t = .ok (some (t', s)) ∧ Avl t' ∧ height t' + s.toNat = height t ∧
      ∃ l1 xv l2, toList t = l1 ++ (x, xv) :: l2 ∧ toList t' = l1 ++ l2) := by
  intro t
  induction t with
  | nil => intro _ _; left; exact ⟨rfl, rfl⟩
  | node l k v b r i p ihl ihr =>
    intro ha hs
    have ha' := ha
    obtain ⟨hl, hr, hb, hb1, hb2⟩ := ha
    obtain ⟨sl, sr, hlk, hkr⟩ := sorted_node.mp hs
    by_cases hxk : x = k
    · subst hxk
      obtain ⟨t', s, e, ht', hlist, hh⟩ := delRoot_spec x v b i p ha'
      right
      exact ⟨t', s, by simp [del, e], ht', hh, toList l, v, toList r, by simp, hlist⟩
    by_cases hlt : x < k
    · rcases ihl hl sl with ⟨e, hf⟩ | ⟨l', s, e, hl', hh, l1, xv, l2, e1, e2⟩
      · left; simp [del, find, hxk, hlt, e, hf]
      · obtain ⟨t', s', e', ht', hlist, hht⟩ :=
          delRetrace_left k v i p (hl0 := height l) hl' hr hb hb1 hb2 hh
        right
        exact ⟨t', s', by simp [del, hxk, hlt, e, e'], ht', by simpa using hht,
          l1, xv, l2 ++ (k, v) :: toList r, by simp [e1], by simp [hlist, e2]⟩
    · rcases ihr hr sr with ⟨e, hf⟩ | ⟨r', s, e, hr', hh, l1, xv, l2, e1, e2⟩
      · left; simp [del, find, hxk, hlt, e, hf]
      · obtain ⟨t', s', e', ht', hlist, hht⟩ :=
          delRetrace_right k v i p (hr0 := height r) hl hr' hb hb1 hb2 hh
        right
        exact ⟨t', s', by simp [del, hxk, hlt, e, e'], ht', by simpa using hht,
          toList l ++ (k, v) :: l1, xv, l2, by simp [e1], by simp [hlist, e2]⟩

/-- **`find` + `muggle_avl_tree_remove` on the model.** On every balanced search tree the call
sequence succeeds (no NULL dereference); an absent key changes nothing; otherwise the result is
again a balanced search tree with exact balance factors in which exactly the association of `x`
is gone. -/
theorem remove_spec {t : T} (ha : Avl t) (hs : Sorted t) (x : Int) :
    ∃ t' ok, T.remove t x = .ok (t', ok) ∧ Avl t' ∧ Sorted t' ∧
      ok = (find t x).isSome ∧ (ok = false → t' = t) ∧
      (∀ y, find t' y = if y = x then none else find t y) ∧
      (toList t').length + ok.toNat = (toList t).length := by
  rcases del_spec x t ha hs with ⟨e, hf⟩ | ⟨t', s, e, ht', _, l1, xv, l2, e1, e2⟩
  · refine ⟨t, false, by simp [T.remove, e], ha, hs, by simp [hf], fun _ => rfl, ?_, by simp⟩
    intro y
    by_cases h : y = x
    · simp [h, hf]
    · simp [h]
  · have hs0 : (l1 ++ (x, xv) :: l2).Pairwise (fun p q => p.1 < q.1) := by rw [← e1]; exact hs
    have hs' : Sorted t' := by
      unfold Sorted; rw [e2]; exact pairwise_erase_split hs0
    have hfx : find t x = some xv := by rw [find_eq_lookup hs, e1]; exact lookup_self_split hs0
    refine ⟨t', true, by simp [T.remove, e], ht', hs', by simp [hfx], by simp, ?_, by simp [e1, e2]; omega⟩
    intro y
    rw [find_eq_lookup hs', find_eq_lookup hs, e2, e1, lookup_erase_split hs0]
