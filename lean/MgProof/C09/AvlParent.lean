import MgProof.C09.AvlLemmas
/-!
# C09 — AVL tree: parent pointers and node identities

`ParentOk p t`: the root of `t` stores parent pointer `p`, and every other node stores the
identity of the node it hangs under. Every operation of the model performs the parent
assignments of the C code; here they are shown to keep the links consistent. Node identities
are never duplicated or invented: the in-order identity list only gains the fresh identity on
insert and only loses one element on remove.
-/
namespace MgProof.C09
open MgModel.C09 MgModel.C09.T

def ParentOk : Option Nat → T → Prop
  | _, .nil => True
  | p, .node l _ _ _ r i q => q = p ∧ ParentOk (some i) l ∧ ParentOk (some i) r

@[simp] theorem ids_nil : ids .nil = [] := rfl
@[simp] theorem ids_node (l k v b r i p) : ids (.node l k v b r i p) = ids l ++ i :: ids r := rfl
@[simp] theorem ids_setPar (t : T) (p : Option Nat) : ids (setPar t p) = ids t := by
  cases t <;> rfl

theorem parentOk_setPar {t : T} {q : Option Nat} (p : Option Nat) (h : ParentOk q t) :
    ParentOk p (setPar t p) := by
  cases t with
  | nil => trivial
  | node l k v b r i q' => exact ⟨rfl, h.2.1, h.2.2⟩

theorem parentsOk_iff : ∀ (t : T) (p : Option Nat), parentsOk p t = true ↔ ParentOk p t := by
  intro t
  induction t with
  | nil => intro p; simp [parentsOk, ParentOk]
  | node l k v b r i q ihl ihr =>
    intro p
    simp only [parentsOk, Bool.and_eq_true, decide_eq_true_eq, ihl, ihr, ParentOk, and_assoc]

/-! ## rotations -/

theorem rotateLeft_parent {t t' : T} {d : Bool} {p : Option Nat}
    (h : rotateLeft t = .ok (t', d)) (hp : ParentOk p t) : ParentOk p t' ∧ ids t' = ids t := by
  unfold rotateLeft at h
  split at h
  · obtain ⟨rfl, h1, rfl, h23, h4⟩ := hp
    split at h <;>
      (injection h with h; injection h with h1' h2'; subst h1'
       exact ⟨⟨rfl, ⟨rfl, h1, parentOk_setPar _ h23⟩, h4⟩, by simp⟩)
  · cases h

theorem rotateRight_parent {t t' : T} {d : Bool} {p : Option Nat}
    (h : rotateRight t = .ok (t', d)) (hp : ParentOk p t) : ParentOk p t' ∧ ids t' = ids t := by
  unfold rotateRight at h
  split at h
  · obtain ⟨rfl, ⟨rfl, h4, h23⟩, h1⟩ := hp
    split at h <;>
      (injection h with h; injection h with h1' h2'; subst h1'
       exact ⟨⟨rfl, h4, ⟨rfl, parentOk_setPar _ h23, h1⟩⟩, by simp⟩)
  · cases h

theorem rotateRightLeft_parent {t t' : T} {p : Option Nat}
    (h : rotateRightLeft t = .ok t') (hp : ParentOk p t) : ParentOk p t' ∧ ids t' = ids t := by
  unfold rotateRightLeft at h
  split at h
  · obtain ⟨rfl, h1, rfl, ⟨rfl, h2, h3⟩, h4⟩ := hp
    injection h with h; subst h
    exact ⟨⟨rfl, ⟨rfl, h1, parentOk_setPar _ h2⟩, ⟨rfl, parentOk_setPar _ h3, h4⟩⟩, by simp⟩
  · cases h

theorem rotateLeftRight_parent {t t' : T} {p : Option Nat}
    (h : rotateLeftRight t = .ok t') (hp : ParentOk p t) : ParentOk p t' ∧ ids t' = ids t := by
  unfold rotateLeftRight at h
  split at h
  · obtain ⟨rfl, ⟨rfl, h4, rfl, h3, h2⟩, h1⟩ := hp
    injection h with h; subst h
    exact ⟨⟨rfl, ⟨rfl, h4, parentOk_setPar _ h3⟩, ⟨rfl, parentOk_setPar _ h2, h1⟩⟩, by simp⟩
  · cases h

theorem rebalance_parent {t t' : T} {d : Bool} {p : Option Nat}
    (h : rebalance t = .ok (t', d)) (hp : ParentOk p t) : ParentOk p t' ∧ ids t' = ids t := by
  unfold rebalance at h
  split at h
  · cases h
  · split at h
    · split at h
      · cases h
      · split at h
        · exact rotateRight_parent h hp
        · split at h
          · rename_i e
            injection h with h; injection h with h1 _; subst h1
            exact rotateLeftRight_parent e hp
          · cases h
    · split at h
      · split at h
        · cases h
        · split at h
          · exact rotateLeft_parent h hp
          · split at h
            · rename_i e
              injection h with h; injection h with h1 _; subst h1
              exact rotateRightLeft_parent e hp
            · cases h
      · injection h with h; injection h with h1 _; subst h1
        exact ⟨hp, rfl⟩

/-! ## insert -/

/-- a retracing step either rebuilds the node with a new balance factor or hands it to
`rebalance` -/
theorem insRetrace_cases {left : Bool} {l r t' : T} {k : Int} {v : Nat} {b : Int} {i : Nat}
    {p : Option Nat} {g g' : Bool}
    (h : insRetrace left l k v b r i p g = .ok (t', g')) :
    (∃ b', t' = .node l k v b' r i p) ∨ (∃ b' d, rebalance (.node l k v b' r i p) = .ok (t', d)) := by
  unfold insRetrace at h
  cases g with
  | false =>
    simp only [Bool.not_false, if_true] at h
    injection h with h; injection h with h1 _
    exact Or.inl ⟨b, h1.symm⟩
  | true =>
    simp only [Bool.not_true, Bool.false_eq_true, if_false] at h
    generalize (if left = true then b - 1 else b + 1) = b' at h
    by_cases h0 : b' = 0
    · simp only [h0, if_true] at h
      injection h with h; injection h with h1 _
      exact Or.inl ⟨0, h1.symm⟩
    · by_cases h1 : b' = 1 ∨ b' = -1
      · simp only [h0, h1, if_true, if_false] at h
        injection h with h; injection h with h2 _
        exact Or.inl ⟨b', h2.symm⟩
      · simp only [h0, h1, if_false] at h
        cases e : rebalance (.node l k v b' r i p) with
        | error x => rw [e] at h; cases h
        | ok q =>
          obtain ⟨t0, d⟩ := q
          rw [e] at h
          injection h with h; injection h with h2 _
          exact Or.inr ⟨b', d, by rw [e, h2]⟩

theorem insRetrace_parent {left : Bool} {l r t' : T} {k : Int} {v : Nat} {b : Int} {i : Nat}
    {p : Option Nat} {g g' : Bool}
    (h : insRetrace left l k v b r i p g = .ok (t', g'))
    (hl : ParentOk (some i) l) (hr : ParentOk (some i) r) :
    ParentOk p t' ∧ ids t' = ids l ++ i :: ids r := by
  rcases insRetrace_cases h with ⟨b', rfl⟩ | ⟨b', d, e⟩
  · exact ⟨⟨rfl, hl, hr⟩, rfl⟩
  · have := rebalance_parent e (p := p) ⟨rfl, hl, hr⟩
    exact ⟨this.1, by rw [this.2]; rfl⟩

/-- insertion keeps the parent links consistent and adds exactly the fresh identity -/
theorem ins_parent (x : Int) (xv : Nat) (fresh : Nat) : ∀ (t : T) (par : Option Nat) (t' : T) (g : Bool),
    ins x xv fresh par t = .ok (some (t', g)) → ParentOk par t →
    ParentOk par t' ∧ ∃ l1 l2, ids t = l1 ++ l2 ∧ ids t' = l1 ++ fresh :: l2 := by
  intro t
  induction t with
  | nil =>
    intro par t' g h _
    simp only [ins] at h
    injection h with h; injection h with h; injection h with h1 _; subst h1
    exact ⟨⟨rfl, trivial, trivial⟩, [], [], rfl, rfl⟩
  | node l k v b r i p ihl ihr =>
    intro par t' g h hp
    obtain ⟨rfl, hl, hr⟩ := hp
    unfold ins at h
    by_cases hxk : x = k
    · simp [hxk] at h
    by_cases hlt : x < k
    · simp only [hxk, hlt, if_true, if_false] at h
      cases e : ins x xv fresh (some i) l with
      | error y => rw [e] at h; cases h
      | ok o =>
        cases o with
        | none => rw [e] at h; cases h
        | some q =>
          obtain ⟨l', g0⟩ := q
          rw [e] at h
          simp only at h
          cases e2 : insRetrace true l' k v b r i p g0 with
          | error y => rw [e2] at h; cases h
          | ok q2 =>
            rw [e2] at h
            injection h with h; injection h with h; subst h
            obtain ⟨hl', l1, l2, e1, e3⟩ := ihl (some i) l' g0 e hl
            obtain ⟨hq, hids⟩ := insRetrace_parent e2 hl' hr
            exact ⟨hq, l1, l2 ++ i :: ids r, by simp [e1], by simp [hids, e3]⟩
    · simp only [hxk, hlt, if_false] at h
      cases e : ins x xv fresh (some i) r with
      | error y => rw [e] at h; cases h
      | ok o =>
        cases o with
        | none => rw [e] at h; cases h
        | some q =>
          obtain ⟨r', g0⟩ := q
          rw [e] at h
          simp only at h
          cases e2 : insRetrace false l k v b r' i p g0 with
          | error y => rw [e2] at h; cases h
          | ok q2 =>
            rw [e2] at h
            injection h with h; injection h with h; subst h
            obtain ⟨hr', l1, l2, e1, e3⟩ := ihr (some i) r' g0 e hr
            obtain ⟨hq, hids⟩ := insRetrace_parent e2 hl hr'
            exact ⟨hq, ids l ++ i :: l1, l2, by simp [e1], by simp [hids, e3]⟩

/-! ## remove -/

theorem delRetrace_cases {left : Bool} {l r t' : T} {k : Int} {v : Nat} {b : Int} {i : Nat}
    {p : Option Nat} {s s' : Bool}
    (h : delRetrace left l k v b r i p s = .ok (t', s')) :
    (∃ b', t' = .node l k v b' r i p) ∨ (∃ b', rebalance (.node l k v b' r i p) = .ok (t', s')) := by
  unfold delRetrace at h
  cases s with
  | false =>
    simp only [Bool.not_false, if_true] at h
    injection h with h; injection h with h1 _
    exact Or.inl ⟨b, h1.symm⟩
  | true =>
    simp only [Bool.not_true, Bool.false_eq_true, if_false] at h
    generalize (if left = true then b + 1 else b - 1) = b' at h
    by_cases h1 : b' = 1 ∨ b' = -1
    · simp only [h1, if_true] at h
      injection h with h; injection h with h2 _
      exact Or.inl ⟨b', h2.symm⟩
    · by_cases h0 : b' = 0
      · simp only [h0, if_true] at h
        have h0' : ¬ ((0 : Int) = 1 ∨ (0 : Int) = -1) := by omega
        simp only [h0', if_false] at h
        injection h with h; injection h with h2 _
        exact Or.inl ⟨0, h2.symm⟩
      · simp only [h1, h0, if_false] at h
        exact Or.inr ⟨b', h⟩

theorem delRetrace_parent {left : Bool} {l r t' : T} {k : Int} {v : Nat} {b : Int} {i : Nat}
    {p : Option Nat} {s s' : Bool}
    (h : delRetrace left l k v b r i p s = .ok (t', s'))
    (hl : ParentOk (some i) l) (hr : ParentOk (some i) r) :
    ParentOk p t' ∧ ids t' = ids l ++ i :: ids r := by
  rcases delRetrace_cases h with ⟨b', rfl⟩ | ⟨b', e⟩
  · exact ⟨⟨rfl, hl, hr⟩, rfl⟩
  · have := rebalance_parent e (p := p) ⟨rfl, hl, hr⟩
    exact ⟨this.1, by rw [this.2]; rfl⟩

/-- what removal does to the identities: one node is freed, nothing else changes place -/
def Drops (t' t : T) : Prop := (ids t').Sublist (ids t) ∧ (ids t').length + 1 = (ids t).length

theorem drops_left {l' l r : T} (h : Drops l' l) (i : Nat) {t' : T}
    (e : ids t' = ids l' ++ i :: ids r) (k v b p) : Drops t' (.node l k v b r i p) := by
  refine ⟨?_, ?_⟩
  · rw [e, ids_node]; exact List.Sublist.append h.1 (List.Sublist.refl _)
  · rw [e, ids_node]; simp only [List.length_append, List.length_cons]; have := h.2; omega

theorem drops_right {r' l r : T} (h : Drops r' r) (i : Nat) {t' : T}
    (e : ids t' = ids l ++ i :: ids r') (k v b p) : Drops t' (.node l k v b r i p) := by
  refine ⟨?_, ?_⟩
  · rw [e, ids_node]
    exact List.Sublist.append (List.Sublist.refl _) (List.Sublist.cons_cons _ h.1)
  · rw [e, ids_node]; simp only [List.length_append, List.length_cons]; have := h.2; omega

theorem drops_leaf (k v b i p) : Drops .nil (.node .nil k v b .nil i p) := by
  simp [Drops]

theorem popMax_parent : ∀ (t : T) (p : Option Nat) (t' : T) (km : Int) (vm : Nat) (s : Bool),
    popMax t = .ok (t', km, vm, s) → ParentOk p t → ParentOk p t' ∧ Drops t' t := by
  intro t
  induction t with
  | nil => intro p t' km vm s h; simp [popMax] at h
  | node l k v b r i q ihl ihr =>
    intro p t' km vm s h hp
    obtain ⟨rfl, hl, hr⟩ := hp
    cases r with
    | nil =>
      cases l with
      | nil =>
        simp only [popMax] at h
        injection h with h; injection h with h1 _; subst h1
        exact ⟨trivial, drops_leaf ..⟩
      | node ll lk lv lb lr li lp =>
        rw [popMax] at h
        cases e : popMax (.node ll lk lv lb lr li lp) with
        | error y => rw [e] at h; cases h
        | ok q0 =>
          obtain ⟨l', k2, v2, s0⟩ := q0
          rw [e] at h
          simp only at h
          cases e2 : delRetrace true l' k2 v2 b .nil i q s0 with
          | error y => rw [e2] at h; cases h
          | ok q2 =>
            obtain ⟨t0, s1⟩ := q2
            rw [e2] at h
            injection h with h; injection h with h1 _; subst h1
            obtain ⟨hl', hd⟩ := ihl (some i) l' k2 v2 s0 e hl
            obtain ⟨hq, hids⟩ := delRetrace_parent e2 hl' (by trivial)
            exact ⟨hq, drops_left hd i hids ..⟩
    | node rl rk rv rb rr ri rp =>
      rw [popMax] at h
      cases e : popMax (.node rl rk rv rb rr ri rp) with
      | error y => rw [e] at h; cases h
      | ok q0 =>
        obtain ⟨r', k2, v2, s0⟩ := q0
        rw [e] at h
        simp only at h
        cases e2 : delRetrace false l k v b r' i q s0 with
        | error y => rw [e2] at h; cases h
        | ok q2 =>
          obtain ⟨t0, s1⟩ := q2
          rw [e2] at h
          injection h with h; injection h with h1 _; subst h1
          obtain ⟨hr', hd⟩ := ihr (some i) r' k2 v2 s0 e hr
          obtain ⟨hq, hids⟩ := delRetrace_parent e2 hl hr'
          exact ⟨hq, drops_right hd i hids ..⟩

theorem popMin_parent : ∀ (t : T) (p : Option Nat) (t' : T) (km : Int) (vm : Nat) (s : Bool),
    popMin t = .ok (t', km, vm, s) → ParentOk p t → ParentOk p t' ∧ Drops t' t := by
  intro t
  induction t with
  | nil => intro p t' km vm s h; simp [popMin] at h
  | node l k v b r i q ihl ihr =>
    intro p t' km vm s h hp
    obtain ⟨rfl, hl, hr⟩ := hp
    cases l with
    | nil =>
      cases r with
      | nil =>
        simp only [popMin] at h
        injection h with h; injection h with h1 _; subst h1
        exact ⟨trivial, drops_leaf ..⟩
      | node rl rk rv rb rr ri rp =>
        rw [popMin] at h
        cases e : popMin (.node rl rk rv rb rr ri rp) with
        | error y => rw [e] at h; cases h
        | ok q0 =>
          obtain ⟨r', k2, v2, s0⟩ := q0
          rw [e] at h
          simp only at h
          cases e2 : delRetrace false .nil k2 v2 b r' i q s0 with
          | error y => rw [e2] at h; cases h
          | ok q2 =>
            obtain ⟨t0, s1⟩ := q2
            rw [e2] at h
            injection h with h; injection h with h1 _; subst h1
            obtain ⟨hr', hd⟩ := ihr (some i) r' k2 v2 s0 e hr
            obtain ⟨hq, hids⟩ := delRetrace_parent e2 (by trivial) hr'
            exact ⟨hq, drops_right hd i hids ..⟩
    | node ll lk lv lb lr li lp =>
      rw [popMin] at h
      cases e : popMin (.node ll lk lv lb lr li lp) with
      | error y => rw [e] at h; cases h
      | ok q0 =>
        obtain ⟨l', k2, v2, s0⟩ := q0
        rw [e] at h
        simp only at h
        cases e2 : delRetrace true l' k v b r i q s0 with
        | error y => rw [e2] at h; cases h
        | ok q2 =>
          obtain ⟨t0, s1⟩ := q2
          rw [e2] at h
          injection h with h; injection h with h1 _; subst h1
          obtain ⟨hl', hd⟩ := ihl (some i) l' k2 v2 s0 e hl
          obtain ⟨hq, hids⟩ := delRetrace_parent e2 hl' hr
          exact ⟨hq, drops_left hd i hids ..⟩

theorem delRoot_parent {t t' : T} {p : Option Nat} {s : Bool}
    (h : delRoot t = .ok (t', s)) (hp : ParentOk p t) : ParentOk p t' ∧ Drops t' t := by
  cases t with
  | nil => simp [delRoot] at h
  | node l k v b r i q =>
    obtain ⟨rfl, hl, hr⟩ := hp
    cases l with
    | nil =>
      cases r with
      | nil =>
        simp only [delRoot] at h
        injection h with h; injection h with h1 _; subst h1
        exact ⟨trivial, drops_leaf ..⟩
      | node rl rk rv rb rr ri rp =>
        simp only [delRoot] at h
        cases e : popMin (.node rl rk rv rb rr ri rp) with
        | error y => rw [e] at h; cases h
        | ok q0 =>
          obtain ⟨r', km, vm, s0⟩ := q0
          rw [e] at h
          simp only at h
          obtain ⟨hr', hd⟩ := popMin_parent _ (some i) r' km vm s0 e hr
          obtain ⟨hq, hids⟩ := delRetrace_parent h (by trivial) hr'
          exact ⟨hq, drops_right hd i hids ..⟩
    | node ll lk lv lb lr li lp =>
      simp only [delRoot] at h
      cases e : popMax (.node ll lk lv lb lr li lp) with
      | error y => rw [e] at h; cases h
      | ok q0 =>
        obtain ⟨l', km, vm, s0⟩ := q0
        rw [e] at h
        simp only at h
        obtain ⟨hl', hd⟩ := popMax_parent _ (some i) l' km vm s0 e hl
        obtain ⟨hq, hids⟩ := delRetrace_parent h hl' hr
        exact ⟨hq, drops_left hd i hids ..⟩

/-- removal keeps the parent links consistent and frees exactly one node -/
theorem del_parent (x : Int) : ∀ (t : T) (p : Option Nat) (t' : T) (s : Bool),
    del x t = .ok (some (t', s)) → ParentOk p t → ParentOk p t' ∧ Drops t' t := by
  intro t
  induction t with
  | nil => intro p t' s h; simp [del] at h
  | node l k v b r i q ihl ihr =>
    intro p t' s h hp
    have hp' := hp
    obtain ⟨rfl, hl, hr⟩ := hp
    unfold del at h
    by_cases hxk : x = k
    · simp only [hxk, if_true] at h
      cases e : delRoot (.node l k v b r i q) with
      | error y => rw [e] at h; cases h
      | ok q0 =>
        rw [e] at h
        injection h with h; injection h with h; subst h
        exact delRoot_parent e hp'
    by_cases hlt : x < k
    · simp only [hxk, hlt, if_true, if_false] at h
      cases e : del x l with
      | error y => rw [e] at h; cases h
      | ok o =>
        cases o with
        | none => rw [e] at h; cases h
        | some q0 =>
          obtain ⟨l', s0⟩ := q0
          rw [e] at h
          simp only at h
          cases e2 : delRetrace true l' k v b r i q s0 with
          | error y => rw [e2] at h; cases h
          | ok q2 =>
            rw [e2] at h
            injection h with h; injection h with h; subst h
            obtain ⟨hl', hd⟩ := ihl (some i) l' s0 e hl
            obtain ⟨hq, hids⟩ := delRetrace_parent e2 hl' hr
            exact ⟨hq, drops_left hd i hids ..⟩
    · simp only [hxk, hlt, if_false] at h
      cases e : del x r with
      | error y => rw [e] at h; cases h
      | ok o =>
        cases o with
        | none => rw [e] at h; cases h
        | some q0 =>
          obtain ⟨r', s0⟩ := q0
          rw [e] at h
          simp only at h
          cases e2 : delRetrace false l k v b r' i q s0 with
          | error y => rw [e2] at h; cases h
          | ok q2 =>
            rw [e2] at h
            injection h with h; injection h with h; subst h
            obtain ⟨hr', hd⟩ := ihr (some i) r' s0 e hr
            obtain ⟨hq, hids⟩ := delRetrace_parent e2 hl hr'
            exact ⟨hq, drops_right hd i hids ..⟩
