import MgProof.C09.AvlLemmas
/-!
# C09 — the executable well-formedness check printed by the driver (`achk`) is exactly the
invariant of the theorems; balanced trees are logarithmically shallow
-/
namespace MgProof.C09
open MgModel.C09 MgModel.C09.T

def Above (lo : Option Int) (k : Int) : Prop := ∀ x, lo = some x → x < k
def Below (hi : Option Int) (k : Int) : Prop := ∀ x, hi = some x → k < x

/-- all keys of `t` lie in the open interval `(lo, hi)` -/
def Within (lo hi : Option Int) (t : T) : Prop :=
  ∀ p ∈ toList t, Above lo p.1 ∧ Below hi p.1

theorem above_iff (lo : Option Int) (k : Int) : gtLo lo k = true ↔ Above lo k := by
  unfold gtLo
  cases lo with
  | none => simp [Above]
  | some x => simp [Above]

theorem below_iff (hi : Option Int) (k : Int) : ltHi hi k = true ↔ Below hi k := by
  unfold ltHi
  cases hi with
  | none => simp [Below]
  | some x => simp [Below]

theorem wellFormed_iff : ∀ (t : T) (lo hi : Option Int),
    wellFormed lo hi t = true ↔ (Avl t ∧ Sorted t ∧ Within lo hi t) := by
  intro t
  induction t with
  | nil => intro lo hi; simp [wellFormed, Sorted, Within]
  | node l k v b r i p ihl ihr =>
    intro lo hi
    simp only [wellFormed, Bool.and_eq_true, above_iff, below_iff, decide_eq_true_eq, ihl, ihr,
      avl_node, sorted_node]
    constructor
    · rintro ⟨⟨⟨⟨⟨hlo, hhi⟩, hb⟩, hb1, hb2⟩, hal, hsl, hwl⟩, har, hsr, hwr⟩
      refine ⟨⟨hal, har, hb, hb1, hb2⟩, ⟨hsl, hsr, ?_, ?_⟩, ?_⟩
      · intro p hp; exact (hwl p hp).2 k rfl
      · intro p hp; exact (hwr p hp).1 k rfl
      · intro p hp
        simp only [toList_node, List.mem_append, List.mem_cons] at hp
        rcases hp with hp | rfl | hp
        · refine ⟨(hwl p hp).1, fun x hx => ?_⟩
          exact Int.lt_trans ((hwl p hp).2 k rfl) (hhi x hx)
        · exact ⟨hlo, hhi⟩
        · refine ⟨fun x hx => ?_, (hwr p hp).2⟩
          exact Int.lt_trans (hlo x hx) ((hwr p hp).1 k rfl)
    · rintro ⟨⟨hal, har, hb, hb1, hb2⟩, ⟨hsl, hsr, hlk, hkr⟩, hw⟩
      have hk := hw (k, v) (by simp)
      refine ⟨⟨⟨⟨⟨hk.1, hk.2⟩, hb⟩, hb1, hb2⟩, hal, hsl, ?_⟩, har, hsr, ?_⟩
      · intro p hp
        refine ⟨(hw p (by simp [hp])).1, fun x hx => ?_⟩
        injection hx with hx; subst hx; exact hlk p hp
      · intro p hp
        refine ⟨fun x hx => ?_, (hw p (by simp [hp])).2⟩
        injection hx with hx; subst hx; exact hkr p hp

/-- the check the driver prints for `achk` (and the harness recomputes on the real pointers)
holds iff the tree is a search tree with exact balance factors and height differences ≤ 1 -/
theorem wellFormed_top (t : T) : wellFormed none none t = true ↔ (Avl t ∧ Sorted t) := by
  rw [wellFormed_iff]
  constructor
  · rintro ⟨a, s, _⟩; exact ⟨a, s⟩
  · rintro ⟨a, s⟩
    refine ⟨a, s, ?_⟩
    intro p _
    exact ⟨fun x hx => (nomatch hx), fun x hx => (nomatch hx)⟩

/-! ## height bound -/

/-- Fibonacci numbers -/
def fib : Nat → Nat
  | 0 => 0
  | 1 => 1
  | n + 2 => fib n + fib (n + 1)

theorem fib_mono_succ (n : Nat) : fib n ≤ fib (n + 1) := by
  induction n using fib.induct with
  | case1 => simp [fib]
  | case2 => simp [fib]
  | case3 n ih1 ih2 => simp only [fib] at *; omega

/-- a tree with height differences ≤ 1 and height `h` has at least `fib (h+2) − 1` nodes,
i.e. the height is at most ≈ 1.44·log₂(size) -/
theorem fib_le_size : ∀ t : T, Avl t → fib (height t + 2) ≤ size t + 1 := by
  intro t
  induction t with
  | nil => intro _; simp [fib, T.size]
  | node l k v b r i p ihl ihr =>
    intro ha
    obtain ⟨hl, hr, hb, hb1, hb2⟩ := ha
    have il := ihl hl
    have ir := ihr hr
    simp only [height_node, T.size]
    rcases Nat.lt_trichotomy (height l) (height r) with h | h | h
    · -- height r = height l + 1
      have e : height r = height l + 1 := by omega
      have : max (height l) (height r) = height l + 1 := by omega
      rw [this]
      rw [e] at ir
      show fib (height l + 1 + 1 + 2) ≤ _
      simp only [fib] at ir ⊢
      have := fib_mono_succ (height l)
      simp only [fib] at il
      omega
    · have : max (height l) (height r) = height l := by omega
      rw [this]
      rw [← h] at ir
      show fib (height l + 1 + 2) ≤ _
      simp only [fib] at il ir ⊢
      have := fib_mono_succ (height l)
      omega
    · have e : height l = height r + 1 := by omega
      have : max (height l) (height r) = height r + 1 := by omega
      rw [this]
      rw [e] at il
      show fib (height r + 1 + 1 + 2) ≤ _
      simp only [fib] at il ir ⊢
      have := fib_mono_succ (height r)
      omega
