import MgModel.C09.Avl
/-!
# C09 — AVL tree: invariants and the rebalancing lemmas
-/
namespace MgProof.C09
open MgModel.C09 MgModel.C09.T

/-- every node: the subtree heights differ by at most one and the stored balance
factor is exactly `height(right) − height(left)` -/
def Avl : T → Prop
  | .nil => True
  | .node l _ _ b r _ _ => Avl l ∧ Avl r ∧ b = (height r : Int) - (height l : Int) ∧ -1 ≤ b ∧ b ≤ 1

/-- the in-order key sequence is strictly increasing -/
def Sorted (t : T) : Prop := (toList t).Pairwise (fun p q => p.1 < q.1)

theorem sorted_node {l k v b r i p} :
    Sorted (.node l k v b r i p) ↔
      Sorted l ∧ Sorted r ∧ (∀ p ∈ toList l, p.1 < k) ∧ (∀ p ∈ toList r, k < p.1) := by
  simp only [Sorted, toList, List.pairwise_append, List.pairwise_cons, List.mem_cons]
  constructor
  · rintro ⟨h1, ⟨h2, h3⟩, h4⟩
    exact ⟨h1, h3, fun p hp => h4 p hp (k, v) (Or.inl rfl), fun p hp => h2 p hp⟩
  · rintro ⟨h1, h2, h3, h4⟩
    refine ⟨h1, ⟨fun p hp => h4 p hp, h2⟩, ?_⟩
    intro p hp q hq
    rcases hq with rfl | hq
    · exact h3 p hp
    · exact Int.lt_trans (h3 p hp) (h4 q hq)

@[simp] theorem avl_nil : Avl .nil := trivial
@[simp] theorem height_nil : height .nil = 0 := rfl
@[simp] theorem height_node (l k v b r i p) :
    height (.node l k v b r i p) = max (height l) (height r) + 1 := rfl
@[simp] theorem toList_nil : toList .nil = [] := rfl
@[simp] theorem toList_node (l k v b r i p) :
    toList (.node l k v b r i p) = toList l ++ (k, v) :: toList r := rfl
@[simp] theorem height_setPar (t : T) (p : Option Nat) : height (setPar t p) = height t := by
  cases t <;> rfl
@[simp] theorem toList_setPar (t : T) (p : Option Nat) : toList (setPar t p) = toList t := by
  cases t <;> rfl
@[simp] theorem rootBal_setPar (t : T) (p : Option Nat) : rootBal (setPar t p) = rootBal t := by
  cases t <;> rfl

theorem avl_node {l k v b r i p} :
    Avl (.node l k v b r i p) ↔ Avl l ∧ Avl r ∧ b = (height r : Int) - (height l : Int) ∧ -1 ≤ b ∧ b ≤ 1 :=
  Iff.rfl

@[simp] theorem avl_setPar (t : T) (p : Option Nat) : Avl (setPar t p) ↔ Avl t := by
  cases t <;> exact Iff.rfl

theorem height_pos_iff {t : T} : 0 < height t ↔ t ≠ .nil := by
  cases t <;> simp

/-- right-heavy node (`balance == 2`): `rebalance` succeeds, restores the invariant, keeps the
in-order sequence; `d` = depth decreased, which is forced when the right child is not balanced -/
theorem rebalance_right {l r : T} (k : Int) (v : Nat) (i : Nat) (p : Option Nat)
    (hl : Avl l) (hr : Avl r) (hh : height r = height l + 2) :
    ∃ t' d, rebalance (.node l k v 2 r i p) = .ok (t', d) ∧ Avl t' ∧
      toList t' = toList l ++ (k, v) :: toList r ∧
      height t' + d.toNat = height r + 1 ∧ (rootBal r ≠ some 0 → d = true) := by
  cases r with
  | nil => simp at hh
  | node rl rk rv rb rr ri rp =>
    obtain ⟨hrl, hrr, hrb, hrb1, hrb2⟩ := hr
    simp only [height_node] at hh
    by_cases hb : rb ≥ 0
    · by_cases hb0 : rb = 0
      · have e : rebalance (.node l k v 2 (.node rl rk rv rb rr ri rp) i p) =
            .ok (.node (.node l k v 1 (setPar rl (some i)) i (some ri)) rk rv (-1) rr ri p, false) := by
          simp [rebalance, rootBal, rotateLeft, hb0]
        refine ⟨_, _, e, ?_, by simp, ?_, by simp [rootBal, hb0]⟩
        · simp only [avl_node, height_node, height_setPar, avl_setPar]
          refine ⟨⟨hl, hrl, ?_, ?_, ?_⟩, hrr, ?_, ?_, ?_⟩ <;> omega
        · simp only [height_node, height_setPar, Bool.toNat_false]; omega
      · have e : rebalance (.node l k v 2 (.node rl rk rv rb rr ri rp) i p) =
            .ok (.node (.node l k v 0 (setPar rl (some i)) i (some ri)) rk rv 0 rr ri p, true) := by
          simp [rebalance, rootBal, rotateLeft, hb0, hb]
        refine ⟨_, _, e, ?_, by simp, ?_, by simp⟩
        · simp only [avl_node, height_node, height_setPar, avl_setPar]
          refine ⟨⟨hl, hrl, ?_, ?_, ?_⟩, hrr, ?_, ?_, ?_⟩ <;> omega
        · simp only [height_node, height_setPar, Bool.toNat_true]; omega
    · have hb' : rb = -1 := by omega
      subst hb'
      cases rl with
      | nil => simp at hrb <;> omega
      | node t2 yk yv yb t3 yi yp =>
        obtain ⟨h2, h3, hyb, hyb1, hyb2⟩ := hrl
        simp only [height_node] at hrb hh
        have e : rebalance (.node l k v 2 (.node (.node t2 yk yv yb t3 yi yp) rk rv (-1) rr ri rp) i p) =
            .ok (.node (.node l k v (if yb > 0 then -1 else 0) (setPar t2 (some i)) i (some yi)) yk yv 0
              (.node (setPar t3 (some ri)) rk rv (if yb > 0 then 0 else if yb = 0 then 0 else 1) rr
                ri (some yi)) yi p, true) := by
          simp [rebalance, rootBal, rotateRightLeft]
        refine ⟨_, _, e, ?_, by simp, ?_, by simp⟩
        · simp only [avl_node, height_node, height_setPar, avl_setPar]
          refine ⟨⟨hl, h2, ?_, ?_, ?_⟩, ⟨h3, hrr, ?_, ?_, ?_⟩, ?_, ?_, ?_⟩ <;>
            (try split) <;> (try split) <;> omega
        · simp only [height_node, height_setPar, Bool.toNat_true]; omega

/-- left-heavy node (`balance == -2`), mirror image of `rebalance_right` -/
theorem rebalance_left {l r : T} (k : Int) (v : Nat) (i : Nat) (p : Option Nat)
    (hl : Avl l) (hr : Avl r) (hh : height l = height r + 2) :
    ∃ t' d, rebalance (.node l k v (-2) r i p) = .ok (t', d) ∧ Avl t' ∧
      toList t' = toList l ++ (k, v) :: toList r ∧
      height t' + d.toNat = height l + 1 ∧ (rootBal l ≠ some 0 → d = true) := by
  cases l with
  | nil => simp at hh
  | node ll lk lv lb lr li lp =>
    obtain ⟨hll, hlr, hlb, hlb1, hlb2⟩ := hl
    simp only [height_node] at hh
    by_cases hb : lb ≤ 0
    · by_cases hb0 : lb = 0
      · have e : rebalance (.node (.node ll lk lv lb lr li lp) k v (-2) r i p) =
            .ok (.node ll lk lv 1 (.node (setPar lr (some i)) k v (-1) r i (some li)) li p, false) := by
          simp [rebalance, rootBal, rotateRight, hb0]
        refine ⟨_, _, e, ?_, by simp, ?_, by simp [rootBal, hb0]⟩
        · simp only [avl_node, height_node, height_setPar, avl_setPar]
          refine ⟨hll, ⟨hlr, hr, ?_, ?_, ?_⟩, ?_, ?_, ?_⟩ <;> omega
        · simp only [height_node, height_setPar, Bool.toNat_false]; omega
      · have e : rebalance (.node (.node ll lk lv lb lr li lp) k v (-2) r i p) =
            .ok (.node ll lk lv 0 (.node (setPar lr (some i)) k v 0 r i (some li)) li p, true) := by
          simp [rebalance, rootBal, rotateRight, hb0, hb]
        refine ⟨_, _, e, ?_, by simp, ?_, by simp⟩
        · simp only [avl_node, height_node, height_setPar, avl_setPar]
          refine ⟨hll, ⟨hlr, hr, ?_, ?_, ?_⟩, ?_, ?_, ?_⟩ <;> omega
        · simp only [height_node, height_setPar, Bool.toNat_true]; omega
    · have hb' : lb = 1 := by omega
      subst hb'
      cases lr with
      | nil => simp at hlb <;> omega
      | node t3 yk yv yb t2 yi yp =>
        obtain ⟨h3, h2, hyb, hyb1, hyb2⟩ := hlr
        simp only [height_node] at hlb hh
        have e : rebalance (.node (.node ll lk lv 1 (.node t3 yk yv yb t2 yi yp) li lp) k v (-2) r i p) =
            .ok (.node (.node ll lk lv (if yb > 0 then -1 else 0) (setPar t3 (some li)) li (some yi)) yk yv 0
              (.node (setPar t2 (some i)) k v (if yb > 0 then 0 else if yb = 0 then 0 else 1) r
                i (some yi)) yi p, true) := by
          simp [rebalance, rootBal, rotateLeftRight]
        refine ⟨_, _, e, ?_, by simp, ?_, by simp⟩
        · simp only [avl_node, height_node, height_setPar, avl_setPar]
          refine ⟨⟨hll, h3, ?_, ?_, ?_⟩, ⟨h2, hr, ?_, ?_, ?_⟩, ?_, ?_, ?_⟩ <;>
            (try split) <;> (try split) <;> omega
        · simp only [height_node, height_setPar, Bool.toNat_true]; omega

/-! ## association-list facts used to read `find` off the in-order sequence -/

theorem lookup_none_of_ne {y : Int} {l : List (Int × Nat)} (h : ∀ p ∈ l, p.1 ≠ y) :
    List.lookup y l = none := by
  rw [List.lookup_eq_none_iff]
  intro p hp
  simp only [bne_iff_ne, ne_eq]
  exact fun e => h p hp e.symm

/-- on a search tree `find` is the first-match lookup in the in-order sequence -/
theorem find_eq_lookup : ∀ {t : T}, Sorted t → ∀ y, find t y = List.lookup y (toList t) := by
  intro t
  induction t with
  | nil => intro _ y; rfl
  | node l k v b r i p ihl ihr =>
    intro hs y
    obtain ⟨sl, sr, hlk, hkr⟩ := sorted_node.mp hs
    simp only [find, toList, List.lookup_append, List.lookup_cons]
    by_cases h1 : y = k
    · subst h1
      have : List.lookup y (toList l) = none :=
        lookup_none_of_ne (fun p hp => by have := hlk p hp; omega)
      simp [this]
    · by_cases h2 : y < k
      · have hr0 : List.lookup y (toList r) = none :=
          lookup_none_of_ne (fun p hp => by have := hkr p hp; omega)
        have hbeq : (y == k) = false := by simp [h1]
        simp only [h1, h2, if_true, if_false, hbeq, hr0, ihl sl y]
        cases List.lookup y (toList l) <;> rfl
      · have hl0 : List.lookup y (toList l) = none :=
          lookup_none_of_ne (fun p hp => by have := hlk p hp; omega)
        have hbeq : (y == k) = false := by simp [h1]
        simp only [h1, h2, if_false, hbeq, hl0, ihr sr y, Option.none_or]

/-- lookup after inserting `(x, xv)` at its sorted position -/
theorem lookup_insert_split {x : Int} {xv : Nat} {l1 l2 : List (Int × Nat)}
    (b1 : ∀ p ∈ l1, p.1 < x) (y : Int) :
    List.lookup y (l1 ++ (x, xv) :: l2) =
      if y = x then some xv else List.lookup y (l1 ++ l2) := by
  simp only [List.lookup_append, List.lookup_cons]
  by_cases h : y = x
  · subst h
    have : List.lookup y l1 = none := lookup_none_of_ne (fun p hp => by have := b1 p hp; omega)
    simp [this]
  · have hbeq : (y == x) = false := by simp [h]
    simp [h, hbeq]

theorem pairwise_insert_split {x : Int} {xv : Nat} {l1 l2 : List (Int × Nat)}
    (hs : (l1 ++ l2).Pairwise (fun p q => p.1 < q.1))
    (b1 : ∀ p ∈ l1, p.1 < x) (b2 : ∀ p ∈ l2, x < p.1) :
    (l1 ++ (x, xv) :: l2).Pairwise (fun p q => p.1 < q.1) := by
  rw [List.pairwise_append] at hs ⊢
  obtain ⟨h1, h2, h3⟩ := hs
  refine ⟨h1, List.pairwise_cons.mpr ⟨fun p hp => b2 p hp, h2⟩, ?_⟩
  intro p hp q hq
  rcases List.mem_cons.mp hq with rfl | hq
  · exact b1 p hp
  · exact h3 p hp q hq

/-- lookup after dropping the entry `(x, xv)` from a strictly sorted sequence -/
theorem lookup_erase_split {x : Int} {xv : Nat} {l1 l2 : List (Int × Nat)}
    (hs : (l1 ++ (x, xv) :: l2).Pairwise (fun p q => p.1 < q.1)) (y : Int) :
    List.lookup y (l1 ++ l2) =
      if y = x then none else List.lookup y (l1 ++ (x, xv) :: l2) := by
  rw [List.pairwise_append] at hs
  obtain ⟨_, h2, h3⟩ := hs
  rw [List.pairwise_cons] at h2
  simp only [List.lookup_append, List.lookup_cons]
  by_cases h : y = x
  · subst h
    have e1 : List.lookup y l1 = none :=
      lookup_none_of_ne (fun p hp => by have := h3 p hp (y, xv) (List.mem_cons_self ..); simp at this; omega)
    have e2 : List.lookup y l2 = none :=
      lookup_none_of_ne (fun p hp => by have := h2.1 p hp; simp at this; omega)
    simp [e1, e2]
  · have hbeq : (y == x) = false := by simp [h]
    simp [h, hbeq]

theorem lookup_self_split {x : Int} {xv : Nat} {l1 l2 : List (Int × Nat)}
    (hs : (l1 ++ (x, xv) :: l2).Pairwise (fun p q => p.1 < q.1)) :
    List.lookup x (l1 ++ (x, xv) :: l2) = some xv := by
  rw [List.pairwise_append] at hs
  obtain ⟨_, _, h3⟩ := hs
  have e1 : List.lookup x l1 = none :=
    lookup_none_of_ne (fun p hp => by have := h3 p hp (x, xv) (List.mem_cons_self ..); simp at this; omega)
  simp [List.lookup_append, e1]

theorem pairwise_erase_split {x : Int} {xv : Nat} {l1 l2 : List (Int × Nat)}
    (hs : (l1 ++ (x, xv) :: l2).Pairwise (fun p q => p.1 < q.1)) :
    (l1 ++ l2).Pairwise (fun p q => p.1 < q.1) := by
  refine hs.sublist ?_
  exact List.Sublist.append (List.Sublist.refl _) (List.sublist_cons_self _ _)

theorem size_eq_length : ∀ t : T, T.size t = (toList t).length := by
  intro t
  induction t with
  | nil => rfl
  | node l k v b r i p ihl ihr => simp [T.size, ihl, ihr]; omega

/-- in a strictly sorted association list membership and first-match lookup coincide -/
theorem mem_iff_lookup_of_sorted {t : T} (hs : Sorted t) (k : Int) (v : Nat) :
    (k, v) ∈ toList t ↔ List.lookup k (toList t) = some v := by
  unfold Sorted at hs
  generalize toList t = l at hs
  induction l with
  | nil => simp
  | cons p l ih =>
    obtain ⟨a, va⟩ := p
    obtain ⟨h1, h2⟩ := List.pairwise_cons.mp hs
    rw [List.lookup_cons, List.mem_cons]
    by_cases e : k = a
    · subst e
      simp only [beq_self_eq_true, Prod.mk.injEq, true_and, Option.some.injEq]
      constructor
      · rintro (e | hm)
        · exact e.symm
        · have := h1 _ hm; simp at this
      · intro e; exact Or.inl e.symm
    · have hb : (k == a) = false := by simp [e]
      simp only [hb, Prod.mk.injEq, e, false_and, false_or]
      exact ih h2
