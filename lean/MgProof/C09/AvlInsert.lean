import MgProof.C09.AvlLemmas
/-!
# C09 — AVL tree: insertion keeps the invariant and inserts into the in-order sequence
-/
namespace MgProof.C09
open MgModel.C09 MgModel.C09.T

/-- one retracing step after the *left* child was replaced by `l'` (old height `hl0`) -/
theorem insRetrace_left {l' r : T} (k : Int) (v : Nat) (i : Nat) (p : Option Nat) {b : Int} {hl0 : Nat}
    {g : Bool}
    (hl' : Avl l') (hr : Avl r) (hb : b = (height r : Int) - (hl0 : Int)) (hb1 : -1 ≤ b) (hb2 : b ≤ 1)
    (hh : height l' = hl0 + g.toNat)
    (hg : g = true → height l' = 1 ∨ rootBal l' ≠ some 0) :
    ∃ t' g', insRetrace true l' k v b r i p g = .ok (t', g') ∧ Avl t' ∧
      toList t' = toList l' ++ (k, v) :: toList r ∧
      height t' = max hl0 (height r) + 1 + g'.toNat ∧ (g' = true → rootBal t' ≠ some 0) := by
  cases g with
  | false =>
    refine ⟨.node l' k v b r i p, false, by simp [insRetrace], ⟨hl', hr, ?_, hb1, hb2⟩, by simp, ?_, by simp⟩
    · simp at hh; omega
    · simp at hh; simp [hh]
  | true =>
    simp only [Bool.toNat_true] at hh
    have hb3 : b = -1 ∨ b = 0 ∨ b = 1 := by omega
    rcases hb3 with rfl | rfl | rfl
    · -- balance becomes -2: rotate
      have hh2 : height l' = height r + 2 := by omega
      obtain ⟨t', d, e, ht', hlist, hht, hd⟩ := rebalance_left k v i p hl' hr hh2
      have hnb : rootBal l' ≠ some 0 := by
        rcases hg rfl with h | h
        · omega
        · exact h
      have hd' := hd hnb
      subst hd'
      refine ⟨t', false, by simp [insRetrace, e], ht', hlist, ?_, by simp⟩
      simp at hht ⊢; omega
    · refine ⟨.node l' k v (-1) r i p, true, by simp [insRetrace], ⟨hl', hr, ?_, ?_, ?_⟩, by simp, ?_,
        by simp [rootBal]⟩ <;> (try simp) <;> omega
    · refine ⟨.node l' k v 0 r i p, false, by simp [insRetrace], ⟨hl', hr, ?_, ?_, ?_⟩, by simp, ?_,
        by simp⟩ <;> (try simp) <;> omega

/-- one retracing step after the *right* child was replaced by `r'` (old height `hr0`) -/
theorem insRetrace_right {l r' : T} (k : Int) (v : Nat) (i : Nat) (p : Option Nat) {b : Int} {hr0 : Nat}
    {g : Bool}
    (hl : Avl l) (hr' : Avl r') (hb : b = (hr0 : Int) - (height l : Int)) (hb1 : -1 ≤ b) (hb2 : b ≤ 1)
    (hh : height r' = hr0 + g.toNat)
    (hg : g = true → height r' = 1 ∨ rootBal r' ≠ some 0) :
    ∃ t' g', insRetrace false l k v b r' i p g = .ok (t', g') ∧ Avl t' ∧
      toList t' = toList l ++ (k, v) :: toList r' ∧
      height t' = max (height l) hr0 + 1 + g'.toNat ∧ (g' = true → rootBal t' ≠ some 0) := by
  cases g with
  | false =>
    refine ⟨.node l k v b r' i p, false, by simp [insRetrace], ⟨hl, hr', ?_, hb1, hb2⟩, by simp, ?_, by simp⟩
    · simp at hh; omega
    · simp at hh; simp [hh]
  | true =>
    simp only [Bool.toNat_true] at hh
    have hb3 : b = -1 ∨ b = 0 ∨ b = 1 := by omega
    rcases hb3 with rfl | rfl | rfl
    · refine ⟨.node l k v 0 r' i p, false, by simp [insRetrace], ⟨hl, hr', ?_, ?_, ?_⟩, by simp, ?_,
        by simp⟩ <;> (try simp) <;> omega
    · refine ⟨.node l k v 1 r' i p, true, by simp [insRetrace], ⟨hl, hr', ?_, ?_, ?_⟩, by simp, ?_,
        by simp [rootBal]⟩ <;> (try simp) <;> omega
    · have hh2 : height r' = height l + 2 := by omega
      obtain ⟨t', d, e, ht', hlist, hht, hd⟩ := rebalance_right k v i p hl hr' hh2
      have hnb : rootBal r' ≠ some 0 := by
        rcases hg rfl with h | h
        · omega
        · exact h
      have hd' := hd hnb
      subst hd'
      refine ⟨t', false, by simp [insRetrace, e], ht', hlist, ?_, by simp⟩
      simp at hht ⊢; omega

/-- **insertion, structural part.** On a balanced search tree `ins` never fails; either the key
is present and the call is rejected, or the new tree is balanced, its height grew by `g`, and its
in-order sequence is the old one with `(x, xv)` inserted at the sorted position. -/
theorem ins_spec (x : Int) (xv : Nat) (fresh : Nat) : ∀ (t : T) (par : Option Nat), Avl t → Sorted t →
    (ins x xv fresh par t = .ok none ∧ (find t x).isSome) ∨
    (∃ t' g, ins x xv fresh par t = .ok (some (t', g)) ∧ Avl t' ∧ height t' = height t + g.toNat ∧
      (g = true → height t' = 1 ∨ rootBal t' ≠ some 0) ∧ find t x = none ∧
      ∃ l1 l2, toList t = l1 ++ l2 ∧ toList t' = l1 ++ (x, xv) :: l2 ∧
        (∀ p ∈ l1, p.1 < x) ∧ (∀ p ∈ l2, x < p.1)) := by
  intro t
  induction t with
  | nil =>
    intro par _ _
    right
    refine ⟨.node .nil x xv 0 .nil fresh par, true, rfl, ⟨trivial, trivial, by simp, by omega, by omega⟩,
      by simp, by simp, rfl, [], [], by simp, by simp, by simp, by simp⟩
  | node l k v b r i p ihl ihr =>
    intro par ha hs
    obtain ⟨hl, hr, hb, hb1, hb2⟩ := ha
    obtain ⟨sl, sr, hlk, hkr⟩ := sorted_node.mp hs
    by_cases hxk : x = k
    · left; simp [ins, find, hxk]
    by_cases hlt : x < k
    · rcases ihl (some i) hl sl with ⟨e, hf⟩ | ⟨l', g, e, hl', hh, hg, hfx, l1, l2, e1, e2, b1, b2⟩
      · left; simp [ins, find, hxk, hlt, e, hf]
      · obtain ⟨t', g', e', ht', hlist, hht, hg'⟩ :=
          insRetrace_left k v i p (hl0 := height l) hl' hr hb hb1 hb2 hh hg
        right
        refine ⟨t', g', by simp [ins, hxk, hlt, e, e'], ht', by simpa using hht,
          fun h => Or.inr (hg' h), by simp [find, hxk, hlt, hfx],
          l1, l2 ++ (k, v) :: toList r, by simp [e1], by simp [hlist, e2], b1, ?_⟩
        intro p hp
        rcases List.mem_append.mp hp with hp | hp
        · exact b2 p hp
        · rcases List.mem_cons.mp hp with rfl | hp
          · exact hlt
          · exact Int.lt_trans hlt (hkr p hp)
    · have hgt : k < x := by omega
      rcases ihr (some i) hr sr with ⟨e, hf⟩ | ⟨r', g, e, hr', hh, hg, hfx, l1, l2, e1, e2, b1, b2⟩
      · left; simp [ins, find, hxk, hlt, e, hf]
      · obtain ⟨t', g', e', ht', hlist, hht, hg'⟩ :=
          insRetrace_right k v i p (hr0 := height r) hl hr' hb hb1 hb2 hh hg
        right
        refine ⟨t', g', by simp [ins, hxk, hlt, e, e'], ht', by simpa using hht,
          fun h => Or.inr (hg' h), by simp [find, hxk, hlt, hfx],
          toList l ++ (k, v) :: l1, l2, by simp [e1], by simp [hlist, e2], ?_, b2⟩
        intro p hp
        rcases List.mem_append.mp hp with hp | hp
        · exact Int.lt_trans (hlk p hp) hgt
        · rcases List.mem_cons.mp hp with rfl | hp
          · exact hgt
          · exact b1 p hp

/-- **`muggle_avl_tree_insert` on the model.** On every balanced search tree the call succeeds
(no NULL dereference), a duplicate key is rejected and leaves the tree untouched, otherwise the
result is again a balanced search tree with exact balance factors that maps `x` to `xv` and
every other key as before. -/
theorem insert_spec {t : T} (ha : Avl t) (hs : Sorted t) (x : Int) (xv : Nat) (fresh : Nat) :
    ∃ t' ok, T.insert t x xv fresh = .ok (t', ok) ∧ Avl t' ∧ Sorted t' ∧
      ok = (find t x).isNone ∧ (ok = false → t' = t) ∧
      (∀ y, find t' y = if ok = true ∧ y = x then some xv else find t y) ∧
      (toList t').length = (toList t).length + ok.toNat := by
  rcases ins_spec x xv fresh t none ha hs with ⟨e, hf⟩ | ⟨t', g, e, ht', _, _, hfx, l1, l2, e1, e2, b1, b2⟩
  · refine ⟨t, false, by simp [T.insert, e], ha, hs, ?_, fun _ => rfl, by simp, by simp⟩
    cases h : find t x <;> simp_all
  · have hs' : Sorted t' := by
      unfold Sorted; rw [e2]
      exact pairwise_insert_split (by rw [← e1]; exact hs) b1 b2
    refine ⟨t', true, by simp [T.insert, e], ht', hs', by simp [hfx], by simp, ?_, by simp [e1, e2]; omega⟩
    intro y
    rw [find_eq_lookup hs', find_eq_lookup hs, e2, e1, lookup_insert_split b1]
    simp
