import MgModel.C09.HashTable
/-!
# C09 — hash table: chain lemmas, table invariant, put / find / remove against a map
-/
set_option linter.unusedSectionVars false
namespace MgProof.C09
open MgModel.C09 MgModel.C09.HT

variable {κ : Type} [DecidableEq κ]

/-- no key occurs twice in a chain -/
def NoDup (c : Chain κ) : Prop := c.Pairwise (fun p q => p.1 ≠ q.1)

theorem scan_none_iff {c : Chain κ} {k : κ} : scan c k = none ↔ ∀ p ∈ c, p.1 ≠ k := by
  unfold scan
  rw [List.lookup_eq_none_iff]
  constructor
  · intro h p hp e; have := h p hp; simp [e] at this
  · intro h p hp; simp only [bne_iff_ne, ne_eq]; exact fun e => h p hp e.symm

theorem scan_cons (a : κ) (va : Nat) (c : Chain κ) (k : κ) :
    scan ((a, va) :: c) k = if k = a then some va else scan c k := by
  unfold scan
  rw [List.lookup_cons]
  by_cases h : k = a
  · simp [h]
  · have : (k == a) = false := by simp [h]
    simp [h, this]

theorem unlink_cons (a : κ) (va : Nat) (c : Chain κ) (k : κ) :
    unlink ((a, va) :: c) k = if a = k then c else (a, va) :: unlink c k := by
  unfold unlink
  rw [List.eraseP_cons]
  by_cases h : a = k <;> simp [h]

theorem unlink_sublist (c : Chain κ) (k : κ) : (unlink c k).Sublist c := List.eraseP_sublist

/-- unlinking the node of `k` from a duplicate-free chain removes exactly that association -/
theorem scan_unlink {c : Chain κ} (hc : NoDup c) (k k' : κ) :
    scan (unlink c k) k' = if k' = k then none else scan c k' := by
  induction c with
  | nil => simp [unlink, scan]
  | cons p c ih =>
    obtain ⟨a, va⟩ := p
    obtain ⟨h1, h2⟩ := List.pairwise_cons.mp hc
    rw [unlink_cons]
    by_cases hak : a = k
    · subst hak
      simp only [if_true]
      by_cases hk : k' = a
      · subst hk
        simp only [if_true]
        exact scan_none_iff.mpr (fun p hp => (h1 p hp).symm)
      · simp [hk, scan_cons]
    · simp only [hak, if_false, scan_cons, ih h2]
      by_cases hk : k' = k
      · subst hk
        have : ¬ k' = a := fun e => hak e.symm
        simp [this]
      · simp [hk]

theorem nodup_unlink {c : Chain κ} (hc : NoDup c) (k : κ) : NoDup (unlink c k) :=
  List.Pairwise.sublist (unlink_sublist c k) hc

theorem nodup_cons {c : Chain κ} (hc : NoDup c) {k : κ} (v : Nat) (h : scan c k = none) :
    NoDup ((k, v) :: c) :=
  List.pairwise_cons.mpr ⟨fun p hp => (scan_none_iff.mp h p hp).symm, hc⟩

/-- table invariant: at least one bucket; every chain is duplicate-free and holds only
keys that hash to its bucket -/
structure HInv (h : κ → Nat) (t : HT κ) : Prop where
  pos : 0 < t.buckets.size
  nodup : ∀ (i : Nat) (c : Chain κ), t.buckets[i]? = some c → NoDup c
  place : ∀ (i : Nat) (c : Chain κ), t.buckets[i]? = some c → ∀ p ∈ c, h p.1 % t.buckets.size = i

/-- the map a table represents -/
def hget (h : κ → Nat) (t : HT κ) (k : κ) : Option Nat :=
  match t.buckets[idx h t k]? with
  | some c => scan c k
  | none => none

theorem idx_lt {h : κ → Nat} {t : HT κ} (hp : 0 < t.buckets.size) (k : κ) :
    idx h t k < t.buckets.size := Nat.mod_lt _ hp

theorem bucket_some {h : κ → Nat} {t : HT κ} (hp : 0 < t.buckets.size) (k : κ) :
    ∃ c, t.buckets[idx h t k]? = some c :=
  ⟨t.buckets[idx h t k]'(idx_lt hp k), Array.getElem?_eq_getElem (idx_lt hp k)⟩

theorem replicate_some {m i : Nat} {c : Chain κ}
    (hc : (Array.replicate m ([] : Chain κ))[i]? = some c) : c = [] := by
  rw [Array.getElem?_replicate] at hc
  split at hc
  · injection hc with hc; exact hc.symm
  · exact absurd hc (by simp)

theorem hinv_replicate (h : κ → Nat) {m : Nat} (hm : 0 < m) :
    HInv h ({ buckets := Array.replicate m [] } : HT κ) ∧
      ∀ k, hget h ({ buckets := Array.replicate m [] } : HT κ) k = none := by
  refine ⟨⟨by simpa using hm, ?_, ?_⟩, ?_⟩
  · intro i c hc
    rw [replicate_some hc]; exact List.Pairwise.nil
  · intro i c hc
    rw [replicate_some hc]; intro p hp; exact absurd hp (by simp)
  · intro k
    unfold hget
    split
    · rename_i c hc
      rw [replicate_some hc]; rfl
    · rfl

theorem hinv_init {h : κ → Nat} {n cap : Nat} {t : HT κ} (e : init n cap = some t) :
    HInv h t ∧ ∀ k, hget h t k = none := by
  unfold init at e
  split at e
  · exact absurd e (by simp)
  · injection e with e
    subst e
    exact hinv_replicate h (by split <;> omega)

/-- `muggle_hash_table_find` never leaves the table and returns the represented value -/
theorem hfind_ok {h : κ → Nat} {t : HT κ} (inv : HInv h t) (k : κ) :
    find h t k = .ok (hget h t k) := by
  obtain ⟨c, hc⟩ := bucket_some (h := h) inv.pos k
  simp [find, hget, hc]

/-- updating one bucket: what `get` sees -/
theorem hget_set_bucket {h : κ → Nat} {t : HT κ} (hp : 0 < t.buckets.size) (k : κ) (c' : Chain κ)
    (k' : κ) :
    hget h { buckets := t.buckets.set! (idx h t k) c' } k' =
      if idx h t k' = idx h t k then scan c' k' else hget h t k' := by
  have hsz : (t.buckets.set! (idx h t k) c').size = t.buckets.size := by simp
  have hidx : idx h { buckets := t.buckets.set! (idx h t k) c' } k' = idx h t k' := by
    simp [idx]
  unfold hget
  rw [hidx]
  simp only [Array.set!_eq_setIfInBounds, Array.getElem?_setIfInBounds]
  by_cases e : idx h t k = idx h t k'
  · have hlt := idx_lt (h := h) hp k
    rw [e] at hlt ⊢
    simp [hlt]
  · have e' : ¬ idx h t k' = idx h t k := fun x => e x.symm
    simp [e, e']

theorem hinv_set_bucket {h : κ → Nat} {t : HT κ} (inv : HInv h t) (k : κ) (c' : Chain κ)
    (hn : NoDup c') (hpl : ∀ p ∈ c', h p.1 % t.buckets.size = idx h t k) :
    HInv h { buckets := t.buckets.set! (idx h t k) c' } := by
  have hlt := idx_lt (h := h) inv.pos k
  refine ⟨by simpa using inv.pos, ?_, ?_⟩
  · intro i c hc
    simp only [Array.set!_eq_setIfInBounds, Array.getElem?_setIfInBounds] at hc
    split at hc
    · injection hc with hc; subst hc; exact hn
    · exact inv.nodup i c hc
  · intro i c hc
    simp only [Array.set!_eq_setIfInBounds, Array.getElem?_setIfInBounds] at hc
    simp only [Array.set!_eq_setIfInBounds, Array.size_setIfInBounds]
    split at hc
    · rename_i e
      injection hc with hc; subst hc
      intro p hp; rw [hpl p hp]; exact e
    · exact inv.place i c hc

/-- **`muggle_hash_table_put`.** Never leaves the table; an existing key is rejected (NULL) and
the table is untouched; otherwise the new table represents the old map plus `k ↦ v`. -/
theorem hput_spec {h : κ → Nat} {t : HT κ} (inv : HInv h t) (k : κ) (v : Nat) :
    (∃ w, hget h t k = some w ∧ put h t k v = .ok none) ∨
    (hget h t k = none ∧ ∃ t', put h t k v = .ok (some t') ∧ HInv h t' ∧
      t'.buckets.size = t.buckets.size ∧
      ∀ k', hget h t' k' = if k' = k then some v else hget h t k') := by
  obtain ⟨c, hc⟩ := bucket_some (h := h) inv.pos k
  have hg : hget h t k = scan c k := by simp [hget, hc]
  cases hs : scan c k with
  | some w => left; exact ⟨w, by rw [hg, hs], by simp [put, hc, hs]⟩
  | none =>
    right
    refine ⟨by rw [hg, hs], { buckets := t.buckets.set! (idx h t k) ((k, v) :: c) },
      by simp only [put, hc, hs], ?_, by simp, ?_⟩
    · refine hinv_set_bucket inv k _ (nodup_cons (inv.nodup _ c hc) v hs) ?_
      intro p hp
      rcases List.mem_cons.mp hp with rfl | hp
      · rfl
      · exact inv.place _ c hc p hp
    · intro k'
      rw [hget_set_bucket inv.pos, scan_cons]
      by_cases e : k' = k
      · subst e; simp
      · simp only [e, if_false]
        split
        · rename_i e2
          simp [hget, e2, hc]
        · rfl

/-- **`find` + `muggle_hash_table_remove`.** Never leaves the table; an absent key changes
nothing; otherwise exactly the association of `k` is gone. -/
theorem hremove_spec {h : κ → Nat} {t : HT κ} (inv : HInv h t) (k : κ) :
    ∃ t' ok, remove h t k = .ok (t', ok) ∧ HInv h t' ∧ t'.buckets.size = t.buckets.size ∧
      ok = (hget h t k).isSome ∧ (ok = false → t' = t) ∧
      ∀ k', hget h t' k' = if k' = k then none else hget h t k' := by
  obtain ⟨c, hc⟩ := bucket_some (h := h) inv.pos k
  have hg : hget h t k = scan c k := by simp [hget, hc]
  cases hs : scan c k with
  | none =>
    refine ⟨t, false, by simp [remove, hc, hs], inv, rfl, by simp [hg, hs], fun _ => rfl, ?_⟩
    intro k'
    by_cases e : k' = k
    · subst e; simp [hg, hs]
    · simp [e]
  | some w =>
    refine ⟨{ buckets := t.buckets.set! (idx h t k) (unlink c k) }, true,
      by simp only [remove, hc, hs], ?_, by simp, by simp [hg, hs], by simp, ?_⟩
    · refine hinv_set_bucket inv k _ (nodup_unlink (inv.nodup _ c hc) k) ?_
      intro p hp
      exact inv.place _ c hc p ((unlink_sublist c k).subset hp)
    · intro k'
      rw [hget_set_bucket inv.pos, scan_unlink (inv.nodup _ c hc)]
      by_cases e : k' = k
      · subst e; simp
      · simp only [e, if_false]
        split
        · rename_i e2
          simp [hget, e2, hc]
        · rfl

/-- the chains together hold exactly the represented associations -/
theorem hmem_toList_iff {h : κ → Nat} {t : HT κ} (inv : HInv h t) (k : κ) (v : Nat) :
    (k, v) ∈ toList t ↔ hget h t k = some v := by
  obtain ⟨c, hc⟩ := bucket_some (h := h) inv.pos k
  have hg : hget h t k = scan c k := by simp [hget, hc]
  have hmem : ∀ {c : Chain κ}, NoDup c → ((k, v) ∈ c ↔ scan c k = some v) := by
    intro c
    induction c with
    | nil => intro _; simp [scan]
    | cons p c ih =>
      intro hn
      obtain ⟨a, va⟩ := p
      obtain ⟨h1, h2⟩ := List.pairwise_cons.mp hn
      rw [scan_cons, List.mem_cons]
      by_cases e : k = a
      · subst e
        simp only [if_true, Prod.mk.injEq, true_and, Option.some.injEq]
        constructor
        · rintro (e | hm)
          · exact e.symm
          · exact absurd rfl (h1 (k, v) hm)
        · intro e; exact Or.inl e.symm
      · simp only [e, if_false, Prod.mk.injEq, false_and, false_or]
        exact ih h2
  rw [hg, ← hmem (inv.nodup _ c hc)]
  unfold toList
  simp only [List.mem_flatten, Array.mem_toList_iff]
  constructor
  · rintro ⟨c', hc', hm⟩
    obtain ⟨i, hi, rfl⟩ := Array.mem_iff_getElem.mp hc'
    have hi' : t.buckets[i]? = some t.buckets[i] := Array.getElem?_eq_getElem hi
    have := inv.place i _ hi' _ hm
    simp only at this
    have e : idx h t k = i := this
    rw [e, hi'] at hc
    injection hc with hc
    rw [← hc]; exact hm
  · intro hm
    exact ⟨c, Array.mem_of_getElem? hc, hm⟩
