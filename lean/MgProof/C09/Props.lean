import MgProof.C09.AvlInsert
import MgProof.C09.AvlRemove
import MgProof.C09.AvlCheck
import MgProof.C09.AvlParent
import MgProof.C09.HashLemmas
import MgProof.C09.TrieLemmas
import MgProof.C09.MapLemmas
/-!
# C09 — property theorems (AVL tree, hash table, trie)

Statement (properties.jsonl): after every sequence of insert/put, find and remove operations
(arbitrary keys, duplicates, with or without the node pool) the AVL tree, hash table and trie
contain exactly the associations a reference map would: lookups return the latest stored value
or nothing, a duplicate key is rejected by the tree and the table (and overwrites in the trie),
and a removal removes exactly that one association. The AVL tree additionally remains a binary
search tree in which every node's subtree heights differ by at most one, its recorded balance
factor is exact and parent links are consistent. Trie keys may contain any non-NUL byte.

Quantifiers of the theorems: every operation list of every length, every key and value; hash
table: every hash function and every table size; trie: every key over the bytes 1..255 (the
model is of the code with fixes/C09-trie-unsigned-index.patch; the unpatched index is negative
for bytes ≥ 0x80, see `trie_signed_index_negative`).

Parent links: every AVL node of the model carries its identity (allocation number) and its
stored parent pointer, and the model performs exactly the parent assignments of the C code;
`Linked` (root's parent NULL, every other node points to the node it hangs under, no node twice)
is proved for every reachable tree, and the dump compared after every operation contains both
fields of every real node.

Not covered by the theorems (checked on the real structure by the harness after every
operation): the `prev` links of the hash chains — the chain model is a list; node allocation
(malloc / pool) is assumed to succeed and to hand out a block that is not in use.
-/
namespace MgProof.C09
open MgModel.C09

/-! ## AVL tree -/

/-- textbook binary-search-tree property: everything left is smaller, everything right larger,
recursively -/
def Bst : T → Prop
  | .nil => True
  | .node l k _ _ r _ _ =>
    Bst l ∧ Bst r ∧ (∀ p ∈ T.toList l, p.1 < k) ∧ (∀ p ∈ T.toList r, k < p.1)

theorem bst_iff_sorted : ∀ t : T, Bst t ↔ Sorted t := by
  intro t
  induction t with
  | nil => simp [Bst, Sorted]
  | node l k v b r i p ihl ihr => rw [sorted_node, ← ihl, ← ihr]; rfl

/-- the structural clause of the property: search tree + at every node
`|height l − height r| ≤ 1` and `balance = height r − height l` exactly (`Avl`) -/
def AvlOk (t : T) : Prop := Bst t ∧ Avl t

/-- the pointer clause of the property on a tree whose allocated nodes are numbered `0 … next−1`:
the root's parent pointer is NULL, every other node's parent pointer is the node it hangs under,
and no node occurs twice (the identities in the tree are distinct and were all allocated) -/
def Linked (t : T) (next : Nat) : Prop :=
  ParentOk none t ∧ (T.ids t).Nodup ∧ ∀ i ∈ T.ids t, i < next

/-- **C09, AVL insert.** From every well-formed tree, for every key and value:
`muggle_avl_tree_insert` runs without a NULL dereference, rejects a key that is present (tree
unchanged), otherwise stores the association; the result is again a search tree with height
differences ≤ 1 and exact balance factors, and every other key maps as before. -/
theorem avl_insert {t : T} (h : AvlOk t) (x : Int) (xv : Nat) (fresh : Nat) :
    ∃ t' ok, T.insert t x xv fresh = .ok (t', ok) ∧ AvlOk t' ∧
      ok = (T.find t x).isNone ∧ (ok = false → t' = t) ∧
      (∀ y, T.find t' y = if ok = true ∧ y = x then some xv else T.find t y) ∧
      T.size t' = T.size t + ok.toNat := by
  obtain ⟨t', ok, e, ha, hs, hok, hun, hf, hlen⟩ :=
    insert_spec h.2 ((bst_iff_sorted t).mp h.1) x xv fresh
  refine ⟨t', ok, e, ⟨(bst_iff_sorted t').mpr hs, ha⟩, hok, hun, hf, ?_⟩
  rw [size_eq_length, size_eq_length]; exact hlen

/-- **C09, AVL remove.** From every well-formed tree, for every key: `find` + `remove` runs
without a NULL dereference, removes exactly the association of that key (nothing when it is
absent) and leaves a search tree with height differences ≤ 1 and exact balance factors. -/
theorem avl_remove {t : T} (h : AvlOk t) (x : Int) :
    ∃ t' ok, T.remove t x = .ok (t', ok) ∧ AvlOk t' ∧
      ok = (T.find t x).isSome ∧ (ok = false → t' = t) ∧
      (∀ y, T.find t' y = if y = x then none else T.find t y) ∧
      T.size t' + ok.toNat = T.size t := by
  obtain ⟨t', ok, e, ha, hs, hok, hun, hf, hlen⟩ :=
    remove_spec h.2 ((bst_iff_sorted t).mp h.1) x
  refine ⟨t', ok, e, ⟨(bst_iff_sorted t').mpr hs, ha⟩, hok, hun, hf, ?_⟩
  rw [size_eq_length, size_eq_length]; exact hlen

/-- **C09, parent links, insert.** Whatever `insert` returns, the parent pointers it leaves are
consistent (the new node points to the leaf it was hung under; every rotation re-points the
three or four links it moves) and the only new node is the freshly allocated one. -/
theorem avl_insert_linked {t t' : T} {next : Nat} {ok : Bool} (x : Int) (xv : Nat)
    (e : T.insert t x xv next = .ok (t', ok)) (h : Linked t next) :
    Linked t' (if ok then next + 1 else next) := by
  unfold T.insert at e
  cases e1 : T.ins x xv next none t with
  | error y => rw [e1] at e; cases e
  | ok o =>
    rw [e1] at e
    cases o with
    | none =>
      injection e with e; injection e with h1 h2; subst h1; subst h2
      exact h
    | some q =>
      obtain ⟨t0, g⟩ := q
      injection e with e; injection e with h1 h2; subst h1; subst h2
      obtain ⟨hp, l1, l2, i1, i2⟩ := ins_parent x xv next t none t0 g e1 h.1
      obtain ⟨_, hnd, hlt⟩ := h
      rw [i1] at hnd hlt
      refine ⟨hp, ?_, ?_⟩
      · rw [i2]
        rw [List.nodup_append] at hnd ⊢
        obtain ⟨n1, n2, n3⟩ := hnd
        refine ⟨n1, List.nodup_cons.mpr ⟨?_, n2⟩, ?_⟩
        · intro hm; exact absurd (hlt next (List.mem_append_right _ hm)) (Nat.lt_irrefl _)
        · intro a ha b hb
          rcases List.mem_cons.mp hb with rfl | hb
          · intro hab; subst hab
            exact absurd (hlt _ (List.mem_append_left _ ha)) (Nat.lt_irrefl _)
          · exact n3 a ha b hb
      · intro i hi
        rw [i2] at hi
        simp only [if_true]
        rcases List.mem_append.mp hi with hi | hi
        · exact Nat.lt_succ_of_lt (hlt i (List.mem_append_left _ hi))
        · rcases List.mem_cons.mp hi with rfl | hi
          · exact Nat.lt_succ_self _
          · exact Nat.lt_succ_of_lt (hlt i (List.mem_append_right _ hi))

/-- **C09, parent links, remove.** `remove` (key/value swapped down to a leaf, the leaf unlinked,
retracing with rotations) leaves consistent parent pointers; when the key was present exactly
one node left the tree and no node was duplicated. -/
theorem avl_remove_linked {t t' : T} {next : Nat} {ok : Bool} (x : Int)
    (e : T.remove t x = .ok (t', ok)) (h : Linked t next) :
    Linked t' next ∧ (T.ids t').length + ok.toNat = (T.ids t).length := by
  unfold T.remove at e
  cases e1 : T.del x t with
  | error y => rw [e1] at e; cases e
  | ok o =>
    rw [e1] at e
    cases o with
    | none =>
      injection e with e; injection e with h1 h2; subst h1; subst h2
      exact ⟨h, by simp⟩
    | some q =>
      obtain ⟨t0, g⟩ := q
      injection e with e; injection e with h1 h2; subst h1; subst h2
      obtain ⟨hp, hsub, hlen⟩ := del_parent x t none t0 g e1 h.1
      exact ⟨⟨hp, h.2.1.sublist hsub, fun i hi => h.2.2 i (hsub.subset hi)⟩, by simpa using hlen⟩

/-- the tree represents the map `m`, is well formed, and its pointers are consistent -/
def AvlRefines (s : AvlSt) (m : Map Int) : Prop :=
  AvlOk s.1 ∧ Linked s.1 s.2 ∧ ∀ y, T.find s.1 y = m.get y

/-- one API call: same observation as the reference map, relation kept -/
theorem avl_step_refines {s : AvlSt} {m : Map Int} (r : AvlRefines s m) (op : Op Int) :
    ∃ s', avlStep s op = .ok (s', (specStepReject m op).2) ∧
      AvlRefines s' (specStepReject m op).1 := by
  obtain ⟨t, next⟩ := s
  obtain ⟨hok, hlk, hf⟩ := r
  simp only at hok hlk hf
  cases op with
  | ins k v =>
    obtain ⟨t', ok, e, hok', hflag, _, hfind, _⟩ := avl_insert hok k v next
    obtain ⟨p1, p2⟩ := putNew_spec m k v
    refine ⟨(t', if ok then next + 1 else next), ?_, hok', avl_insert_linked k v e hlk, ?_⟩
    · simp only [avlStep, e, specStepReject, p1, ← hf k, ← hflag]
    · intro y
      simp only [specStepReject]
      rw [hfind y, p2 y, ← hf k, ← hf y, hflag]
  | find k => exact ⟨(t, next), by simp [avlStep, specStepReject, hf k], hok, hlk, hf⟩
  | rm k =>
    obtain ⟨t', ok, e, hok', hflag, _, hfind, _⟩ := avl_remove hok k
    obtain ⟨p1, p2⟩ := erase_spec m k
    refine ⟨(t', next), ?_, hok', (avl_remove_linked k e hlk).1, ?_⟩
    · simp only [avlStep, e, specStepReject, p1, ← hf k, ← hflag]
    · intro y
      simp only [specStepReject]
      rw [hfind y, p2 y, ← hf y]

/-- **C09, AVL histories.** Every history of insert / find / remove calls, of any length, with
any keys (duplicates, absent keys), started on the empty tree: no call fails, every call
returns exactly what the reference map returns (find: the latest stored value or nothing;
insert: rejected iff the key is present; remove: removes exactly that association), and the
final tree is a search tree with height differences ≤ 1, exact balance factors and consistent
parent links that represents the reference map. -/
theorem avl_history (ops : List (Op Int)) : ∀ {s : AvlSt} {m : Map Int}, AvlRefines s m →
    ∃ s', runE avlStep s ops = .ok (s', (specRun specStepReject m ops).2) ∧
      AvlRefines s' (specRun specStepReject m ops).1 := by
  induction ops with
  | nil => intro s m r; exact ⟨s, rfl, r⟩
  | cons op ops ih =>
    intro s m r
    obtain ⟨s1, e1, r1⟩ := avl_step_refines r op
    obtain ⟨s2, e2, r2⟩ := ih r1
    exact ⟨s2, by simp only [runE, e1, e2, specRun], r2⟩

theorem avl_empty_refines : AvlRefines (.nil, 0) [] :=
  ⟨⟨trivial, trivial⟩, ⟨trivial, List.nodup_nil, fun _ h => absurd h (by simp [T.ids])⟩, fun _ => rfl⟩

/-- `avl_history` from `muggle_avl_tree_init` -/
theorem avl_history_from_init (ops : List (Op Int)) :
    ∃ s', runE avlStep (.nil, 0) ops = .ok (s', (specRun specStepReject ([] : Map Int) ops).2) ∧
      AvlRefines s' (specRun specStepReject ([] : Map Int) ops).1 :=
  avl_history ops avl_empty_refines

/-- the in-order traversal lists exactly the represented associations, in key order -/
theorem avl_contents {t : T} (h : AvlOk t) (k : Int) (v : Nat) :
    (k, v) ∈ T.toList t ↔ T.find t k = some v := by
  have hs := (bst_iff_sorted t).mp h.1
  rw [find_eq_lookup hs]
  exact mem_iff_lookup_of_sorted hs k v

/-- the in-order traversal is strictly increasing in the key: together with `avl_contents` the
tree holds exactly the represented associations, each once -/
theorem avl_toList_sorted {t : T} (h : AvlOk t) :
    (T.toList t).Pairwise (fun p q => p.1 < q.1) := (bst_iff_sorted t).mp h.1

/-- the executable check that the driver prints for `achk` — and that the harness recomputes
from the real `left/right/balance` fields after every operation — is exactly `AvlOk` -/
theorem avl_check_iff (t : T) :
    (T.wellFormed none none t && T.parentsOk none t) = true ↔ (AvlOk t ∧ ParentOk none t) := by
  rw [Bool.and_eq_true, wellFormed_top, parentsOk_iff, AvlOk, bst_iff_sorted]
  constructor
  · rintro ⟨⟨a, b⟩, c⟩; exact ⟨⟨b, a⟩, c⟩
  · rintro ⟨⟨b, a⟩, c⟩; exact ⟨⟨a, b⟩, c⟩

/-- **C09, "stays balanced" quantified.** A well-formed tree of height `h` holds at least
`fib (h+2) − 1` associations: the height is logarithmic in the size. -/
theorem avl_height_logarithmic {t : T} (h : AvlOk t) : fib (T.height t + 2) ≤ T.size t + 1 :=
  fib_le_size t h.2

/-- a tree of height `h` holds fewer than `2^h` associations -/
theorem avl_size_lt_two_pow_height : ∀ t : T, T.size t < 2 ^ T.height t := by
  intro t
  induction t with
  | nil => simp [T.size]
  | node l k v b r i p ihl ihr =>
    simp only [T.size, height_node]
    have h1 : 2 ^ T.height l ≤ 2 ^ max (T.height l) (T.height r) :=
      Nat.pow_le_pow_right (by omega) (Nat.le_max_left ..)
    have h2 : 2 ^ T.height r ≤ 2 ^ max (T.height l) (T.height r) :=
      Nat.pow_le_pow_right (by omega) (Nat.le_max_right ..)
    rw [Nat.pow_succ]
    omega

/-! ## hash table -/

variable {κ : Type} [DecidableEq κ]

/-- the table represents the map `m` and satisfies the chain invariant -/
def HashRefines (h : κ → Nat) (t : HT κ) (m : Map κ) : Prop :=
  HInv h t ∧ ∀ k, hget h t k = m.get k

theorem hash_step_refines {h : κ → Nat} {t : HT κ} {m : Map κ} (r : HashRefines h t m)
    (op : Op κ) :
    ∃ t', hashStep h t op = .ok (t', (specStepReject m op).2) ∧
      HashRefines h t' (specStepReject m op).1 := by
  obtain ⟨inv, hf⟩ := r
  cases op with
  | ins k v =>
    obtain ⟨p1, p2⟩ := putNew_spec m k v
    rcases hput_spec inv k v with ⟨w, hg, e⟩ | ⟨hg, t', e, inv', _, hget⟩
    · refine ⟨t, ?_, inv, ?_⟩
      · simp only [hashStep, e, specStepReject, p1, ← hf k, hg]; rfl
      · intro y
        simp only [specStepReject]
        rw [p2 y, ← hf k, hg, ← hf y]; simp
    · refine ⟨t', ?_, inv', ?_⟩
      · simp only [hashStep, e, specStepReject, p1, ← hf k, hg]; rfl
      · intro y
        simp only [specStepReject]
        rw [p2 y, hget y, ← hf k, hg, ← hf y]; simp
  | find k =>
    exact ⟨t, by simp [hashStep, specStepReject, hfind_ok inv, hf k], inv, hf⟩
  | rm k =>
    obtain ⟨p1, p2⟩ := erase_spec m k
    obtain ⟨t', ok, e, inv', _, hflag, _, hget⟩ := hremove_spec inv k
    refine ⟨t', ?_, inv', ?_⟩
    · simp only [hashStep, e, specStepReject, p1, ← hf k, ← hflag]
    · intro y
      simp only [specStepReject]
      rw [hget y, p2 y, ← hf y]

/-- **C09, hash-table histories.** For every hash function, every table size and node-pool
capacity accepted by `init`, and every history of put / find / remove calls of any length
(colliding keys, duplicates, absent keys): no call leaves the bucket array, every call returns
exactly what the reference map returns (a duplicate key is rejected, a removal removes exactly
that association), and the chains stay duplicate-free with every key in its own bucket. -/
theorem hash_history {h : κ → Nat} (ops : List (Op κ)) : ∀ {t : HT κ} {m : Map κ},
    HashRefines h t m →
    ∃ t', runE (hashStep h) t ops = .ok (t', (specRun specStepReject m ops).2) ∧
      HashRefines h t' (specRun specStepReject m ops).1 := by
  induction ops with
  | nil => intro t m r; exact ⟨t, rfl, r⟩
  | cons op ops ih =>
    intro t m r
    obtain ⟨t1, e1, r1⟩ := hash_step_refines r op
    obtain ⟨t2, e2, r2⟩ := ih r1
    exact ⟨t2, by simp only [runE, e1, e2, specRun], r2⟩

/-- `hash_history` from `muggle_hash_table_init` -/
theorem hash_history_from_init {h : κ → Nat} {n cap : Nat} {t : HT κ}
    (e : HT.init n cap = some t) (ops : List (Op κ)) :
    ∃ t', runE (hashStep h) t ops = .ok (t', (specRun specStepReject ([] : Map κ) ops).2) ∧
      HashRefines h t' (specRun specStepReject ([] : Map κ) ops).1 := by
  obtain ⟨inv, hg⟩ := hinv_init (h := h) e
  exact hash_history ops ⟨inv, fun k => by rw [hg k]; rfl⟩

/-- the chains together hold exactly the represented associations -/
theorem hash_contents {h : κ → Nat} {t : HT κ} {m : Map κ} (r : HashRefines h t m)
    (k : κ) (v : Nat) : (k, v) ∈ HT.toList t ↔ m.get k = some v := by
  rw [hmem_toList_iff r.1, r.2 k]

/-! ## trie -/

/-- the trie (root node embedded, never NULL) represents the map `m` on C-string keys -/
def TrieRefines (root : TNode) (m : Map (List UInt8)) : Prop :=
  root.isNull = false ∧ ∀ k, NulFree k → TNode.lookup root k = m.get k

/-- every key of the operation is a C string (no NUL byte inside) -/
def OpNulFree : Op (List UInt8) → Prop
  | .ins k _ => NulFree k
  | .find k => NulFree k
  | .rm k => NulFree k

/-- **C09, trie insert overwrites / find.** For every key over the bytes 1..255 (any length,
including the empty key) and every non-NULL value: after `insert` the key maps to the new
value, whatever it mapped to before, and every other key is unaffected. -/
theorem trie_insert {root : TNode} (hr : root.isNull = false) {k : List UInt8} (hk : NulFree k)
    (v : Nat) :
    (root.insert k (some v)).isNull = false ∧
    ∀ k', NulFree k' →
      TNode.lookup (root.insert k (some v)) k' = if k' = k then some v else TNode.lookup root k' := by
  have hn : (root.insert k (some v)).isNull = false := by
    rw [insert_eq_insWalk hr]; exact isNull_insWalk hr _ _
  refine ⟨hn, fun k' hk' => ?_⟩
  rw [lookup_eq hn, lookup_eq hr, insert_eq_insWalk hr]
  by_cases e : k' = k
  · subst e; simp only [if_true]; exact data_insWalk_same hr _ _
  · simp only [e, if_false]
    exact data_insWalk_other hr _ _ (fun h => e (path_inj hk' hk h.symm)) _

/-- **C09, trie remove.** Removes exactly the association of the key. -/
theorem trie_remove {root : TNode} (hr : root.isNull = false) {k : List UInt8} (hk : NulFree k) :
    (root.remove k).1.isNull = false ∧
    ∀ k', NulFree k' →
      TNode.lookup (root.remove k).1 k' = if k' = k then none else TNode.lookup root k' := by
  by_cases hf : (TNode.find root k).isNull = true
  · have e : (root.remove k).1 = root := by simp [TNode.remove, hf]
    rw [e]
    refine ⟨hr, fun k' hk' => ?_⟩
    by_cases e' : k' = k
    · subst e'
      simp only [if_true, TNode.lookup]
      cases h : TNode.find root k' with
      | null => rfl
      | node d ks => rw [h] at hf; simp [TNode.isNull] at hf
    · simp [e']
  · have hf' : (TNode.find root k).isNull = false := by simpa using hf
    have e := remove_fst_eq hr k hf'
    have hn : (root.remove k).1.isNull = false := by rw [e, isNull_clearAt]; exact hr
    refine ⟨hn, fun k' hk' => ?_⟩
    rw [lookup_eq hn, lookup_eq hr, e]
    by_cases e' : k' = k
    · subst e'; simp only [if_true]; exact data_clearAt_same _ _
    · simp only [e', if_false]
      exact data_clearAt_other _ _ _ (fun h => e' (path_inj hk' hk h.symm))

theorem trie_step_refines {root : TNode} {m : Map (List UInt8)} (r : TrieRefines root m)
    (op : Op (List UInt8)) (hop : OpNulFree op) :
    (trieStep root op).2 = (specStepOverwrite m op).2 ∧
      TrieRefines (trieStep root op).1 (specStepOverwrite m op).1 := by
  obtain ⟨hr, hf⟩ := r
  cases op with
  | ins k v =>
    obtain ⟨hn, hl⟩ := trie_insert hr hop v
    refine ⟨rfl, hn, fun k' hk' => ?_⟩
    simp only [trieStep, specStepOverwrite]
    rw [hl k' hk', set_spec, hf k' hk']
  | find k => exact ⟨by simp [trieStep, specStepOverwrite, hf k hop], hr, hf⟩
  | rm k =>
    obtain ⟨hn, hl⟩ := trie_remove hr hop
    refine ⟨rfl, hn, fun k' hk' => ?_⟩
    simp only [trieStep, specStepOverwrite]
    rw [hl k' hk', (erase_spec m k).2, hf k' hk']

/-- **C09, trie histories.** Every history of insert / find / remove calls of any length whose
keys are arbitrary strings over the bytes 1..255 (any non-NUL byte, the empty key included)
and whose values are non-NULL: every `find` returns the latest stored value or nothing, insert
overwrites, remove removes exactly that association. -/
theorem trie_history (ops : List (Op (List UInt8))) : ∀ {root : TNode} {m : Map (List UInt8)},
    TrieRefines root m → (∀ op ∈ ops, OpNulFree op) →
    (specRun trieStep root ops).2 = (specRun specStepOverwrite m ops).2 ∧
      TrieRefines (specRun trieStep root ops).1 (specRun specStepOverwrite m ops).1 := by
  induction ops with
  | nil => intro root m r _; exact ⟨rfl, r⟩
  | cons op ops ih =>
    intro root m r hops
    obtain ⟨e1, r1⟩ := trie_step_refines r op (hops op (List.mem_cons_self ..))
    obtain ⟨e2, r2⟩ := ih r1 (fun o ho => hops o (List.mem_cons_of_mem _ ho))
    exact ⟨by simp only [specRun, e1, e2], r2⟩

theorem trie_empty_refines : TrieRefines Trie.empty [] :=
  ⟨rfl, fun k _ => by
    rw [lookup_eq (by rfl)]
    cases hp : path k with
    | nil => exact absurd hp (path_ne_nil k)
    | cons c cs => simp [Trie.empty, TNode.fresh, walk', TNode.kid, TNode.emptyKids, walk'_null,
        TNode.data?, Map.get]⟩

/-- `trie_history` from `muggle_trie_init` -/
theorem trie_history_from_init (ops : List (Op (List UInt8))) (h : ∀ op ∈ ops, OpNulFree op) :
    (specRun trieStep Trie.empty ops).2 =
      (specRun specStepOverwrite ([] : Map (List UInt8)) ops).2 :=
  (trie_history ops trie_empty_refines h).1

/-- the defect of the pinned code that the model does *not* contain: with a signed `char` the
index `(int)(*p)` is negative for every byte ≥ 0x80 — outside `children[0..255]` -/
theorem trie_signed_index_negative (b : UInt8) (h : b ≥ 128) : cIndexSigned b < 0 := by
  unfold cIndexSigned
  have h1 : ¬ b < 128 := by
    intro h2
    exact absurd (UInt8.lt_of_lt_of_le h2 h) (UInt8.lt_irrefl _)
  have : b.toNat < 256 := b.toNat_lt
  simp only [h1, if_false]
  omega

/-- … and in range for 7-bit bytes, where patched and unpatched code agree -/
theorem trie_signed_index_7bit (b : UInt8) (h : b < 128) : cIndexSigned b = b.toNat := by
  simp [cIndexSigned, h]

/-! ## non-vacuity: concrete, non-trivial states satisfy the hypotheses -/

example : runE avlStep (.nil, 0)
      [.ins 3 30, .ins 1 10, .ins 2 20, .ins 2 99, .find 2, .rm 3, .find 3, .rm 7] =
    .ok ((.node (.node .nil 1 10 0 .nil 1 (some 2)) 2 20 (-1) .nil 2 none, 3),
      [.flag true, .flag true, .flag true, .flag false, .val (some 20), .flag true,
       .val none, .flag false]) ∧
    AvlOk (.node (.node .nil 1 10 0 .nil 1 (some 2)) 2 20 (-1) .nil 2 none) ∧
    Linked (.node (.node .nil 1 10 0 .nil 1 (some 2)) 2 20 (-1) .nil 2 none) 3 := by
  have e : runE avlStep (.nil, 0)
      [.ins 3 30, .ins 1 10, .ins 2 20, .ins 2 99, .find 2, .rm 3, .find 3, .rm 7] =
    .ok ((.node (.node .nil 1 10 0 .nil 1 (some 2)) 2 20 (-1) .nil 2 none, 3),
      [.flag true, .flag true, .flag true, .flag false, .val (some 20), .flag true,
       .val none, .flag false]) := by rfl
  obtain ⟨s', e', r⟩ := avl_history_from_init
    [.ins 3 30, .ins 1 10, .ins 2 20, .ins 2 99, .find 2, .rm 3, .find 3, .rm 7]
  rw [e] at e'
  injection e' with e'
  injection e' with e1 _
  subst e1
  exact ⟨e, r.1, r.2.1⟩

/-- hash table with the worst hash function (everything collides) and 8 buckets -/
example : ∃ t : HT Nat, HT.init 8 0 = some t ∧ ∃ t',
    runE (hashStep (fun _ => 7)) t
      [.ins 1 10, .ins 2 20, .ins 1 11, .find 1, .rm 1, .find 1, .find 2, .rm 1] =
    .ok (t', [.flag true, .flag true, .flag false, .val (some 10), .flag true, .val none,
      .val (some 20), .flag false]) := by
  refine ⟨_, rfl, ?_⟩
  obtain ⟨t', e, _⟩ := hash_history_from_init (h := fun (_ : Nat) => 7) (n := 8) (cap := 0) rfl
    [.ins 1 10, .ins 2 20, .ins 1 11, .find 1, .rm 1, .find 1, .find 2, .rm 1]
  exact ⟨t', by rw [e]; rfl⟩

example : NulFree [0x80, 0xff, 0x01] ∧
    (specRun trieStep Trie.empty
      [.ins [0x80, 0xff] 5, .ins [0x80] 6, .ins [0x80, 0xff] 7, .find [0x80, 0xff],
       .rm [0x80], .find [0x80], .find [], .ins [] 9, .find []]).2 =
    [.flag true, .flag true, .flag true, .val (some 7), .done, .val none, .val none,
     .flag true, .val (some 9)] := by
  refine ⟨by intro b hb; simp at hb; rcases hb with rfl | rfl | rfl <;> decide, ?_⟩
  rw [trie_history_from_init _ (by
    intro op hop
    simp only [List.mem_cons, List.not_mem_nil, or_false] at hop
    rcases hop with rfl | rfl | rfl | rfl | rfl | rfl | rfl | rfl | rfl <;>
      simp [OpNulFree, NulFree])]
  decide

end MgProof.C09
