import MgModel.C09.Trie
/-!
# C09 — trie: path lemmas for `walk` / `insWalk` / `clearAt`, then the key-level statements
-/
namespace MgProof.C09
open MgModel.C09 MgModel.C09.TNode

/-- a C string: no NUL byte inside -/
def NulFree (key : List UInt8) : Prop := ∀ b ∈ key, b ≠ 0

/-- the child path the C code follows for a key: `children[0]` for the empty key -/
def path (key : List UInt8) : List UInt8 := if key = [] then [0] else key

theorem path_inj {k k' : List UInt8} (h : NulFree k) (h' : NulFree k') (e : path k = path k') :
    k = k' := by
  unfold path at e
  by_cases h1 : k = [] <;> by_cases h2 : k' = [] <;> simp only [h1, h2, if_true, if_false] at e
  · rw [h1, h2]
  · exact absurd rfl (h' 0 (by rw [← e]; simp))
  · exact absurd rfl (h 0 (by rw [e]; simp))
  · exact e

theorem path_ne_nil (k : List UInt8) : path k ≠ [] := by
  unfold path; split <;> simp_all

/-- `walk` without the early exit: follow the children, NULL stays NULL -/
def walk' : TNode → List UInt8 → TNode
  | n, [] => n
  | n, c :: cs => walk' (n.kid c) cs

theorem walk'_null (p : List UInt8) : walk' .null p = .null := by
  induction p with
  | nil => rfl
  | cons c cs ih => simpa [walk', kid] using ih

theorem walk_eq (n : TNode) (p : List UInt8) : walk n p = walk' n p := by
  induction p generalizing n with
  | nil => cases n <;> rfl
  | cons c cs ih =>
    cases n with
    | null => simp [walk, walk'_null]
    | node d ks =>
      simp only [walk, walk', kid]
      cases h : ks c with
      | null => simp [walk'_null]
      | node d' ks' => simp only []; rw [ih]

def orFresh : TNode → TNode
  | .null => fresh
  | m => m

theorem insWalk_node (d : Option Nat) (ks : UInt8 → TNode) (c : UInt8) (cs : List UInt8)
    (v : Option Nat) :
    insWalk (.node d ks) (c :: cs) v =
      .node d (fun i => if i = c then insWalk (orFresh (ks c)) cs v else ks i) := by
  simp only [insWalk]
  cases ks c <;> rfl

theorem isNull_orFresh (m : TNode) : (orFresh m).isNull = false := by
  cases m <;> rfl

theorem isNull_insWalk {n : TNode} (hn : n.isNull = false) (p : List UInt8) (v : Option Nat) :
    (insWalk n p v).isNull = false := by
  cases n with
  | null => simp [isNull] at hn
  | node d ks =>
    cases p with
    | nil => rfl
    | cons c cs => rw [insWalk_node]; rfl

theorem data_walk'_orFresh (m : TNode) (p : List UInt8) :
    (walk' (orFresh m) p).data? = (walk' m p).data? := by
  cases m with
  | node d ks => rfl
  | null =>
    rw [walk'_null]
    cases p with
    | nil => rfl
    | cons c cs => simp [orFresh, fresh, walk', kid, emptyKids, walk'_null]

/-- the node at the end of the inserted path carries the value -/
theorem data_insWalk_same {n : TNode} (hn : n.isNull = false) (p : List UInt8) (v : Option Nat) :
    (walk' (insWalk n p v) p).data? = v := by
  induction p generalizing n with
  | nil =>
    cases n with
    | null => simp [isNull] at hn
    | node d ks => rfl
  | cons c cs ih =>
    cases n with
    | null => simp [isNull] at hn
    | node d ks =>
      rw [insWalk_node]
      simp only [walk', kid, if_true]
      exact ih (isNull_orFresh _)

/-- every other path sees what it saw before (missing nodes and fresh nodes both read as
"no data") -/
theorem data_insWalk_other {n : TNode} (hn : n.isNull = false) (p q : List UInt8) (hpq : p ≠ q)
    (v : Option Nat) :
    (walk' (insWalk n p v) q).data? = (walk' n q).data? := by
  induction p generalizing n q with
  | nil =>
    cases n with
    | null => simp [isNull] at hn
    | node d ks =>
      cases q with
      | nil => exact absurd rfl hpq
      | cons c' cs' => rfl
  | cons c cs ih =>
    cases n with
    | null => simp [isNull] at hn
    | node d ks =>
      rw [insWalk_node]
      cases q with
      | nil => rfl
      | cons c' cs' =>
        simp only [walk', kid]
        by_cases hc : c' = c
        · subst hc
          simp only [if_true]
          have hne : cs ≠ cs' := fun e => hpq (by rw [e])
          rw [ih (isNull_orFresh _) cs' hne, data_walk'_orFresh]
        · simp only [hc, if_false]

theorem clearAt_node (d : Option Nat) (ks : UInt8 → TNode) (c : UInt8) (cs : List UInt8) :
    clearAt (.node d ks) (c :: cs) =
      .node d (fun i => if i = c then clearAt (ks c) cs else ks i) := rfl

theorem clearAt_null (p : List UInt8) : clearAt .null p = .null := by
  cases p <;> rfl

theorem data_clearAt_same (n : TNode) (p : List UInt8) :
    (walk' (clearAt n p) p).data? = none := by
  induction p generalizing n with
  | nil => cases n <;> rfl
  | cons c cs ih =>
    cases n with
    | null => rw [clearAt_null, walk'_null]; rfl
    | node d ks =>
      rw [clearAt_node]
      simp only [walk', kid, if_true]
      exact ih _

theorem data_clearAt_other (n : TNode) (p q : List UInt8) (hpq : p ≠ q) :
    (walk' (clearAt n p) q).data? = (walk' n q).data? := by
  induction p generalizing n q with
  | nil =>
    cases n with
    | null => rfl
    | node d ks =>
      cases q with
      | nil => exact absurd rfl hpq
      | cons c' cs' => rfl
  | cons c cs ih =>
    cases n with
    | null => rw [clearAt_null]
    | node d ks =>
      rw [clearAt_node]
      cases q with
      | nil => rfl
      | cons c' cs' =>
        simp only [walk', kid]
        by_cases hc : c' = c
        · subst hc
          simp only [if_true]
          exact ih _ cs' (fun e => hpq (by rw [e]))
        · simp only [hc, if_false]

theorem isNull_clearAt (n : TNode) (p : List UInt8) : (clearAt n p).isNull = n.isNull := by
  cases n with
  | null => rw [clearAt_null]
  | node d ks => cases p <;> rfl

/-! ## key level: `find` / `insert` / `remove` through `path` -/

theorem find_eq_walk' {root : TNode} (hr : root.isNull = false) (key : List UInt8) :
    find root key = walk' root (path key) := by
  cases root with
  | null => simp [isNull] at hr
  | node d ks =>
    cases key with
    | nil => rfl
    | cons c cs => simp only [find, path, walk_eq]; rfl

theorem lookup_eq {root : TNode} (hr : root.isNull = false) (key : List UInt8) :
    lookup root key = (walk' root (path key)).data? := by
  unfold lookup; rw [find_eq_walk' hr]

theorem insert_eq_insWalk {root : TNode} (hr : root.isNull = false) (key : List UInt8)
    (v : Option Nat) : TNode.insert root key v = insWalk root (path key) v := by
  cases root with
  | null => simp [isNull] at hr
  | node d ks =>
    cases key with
    | cons c cs => rfl
    | nil =>
      show TNode.insert (.node d ks) [] v = insWalk (.node d ks) [0] v
      rw [insWalk_node]
      simp only [TNode.insert, kid]
      cases h : ks 0 with
      | null =>
        simp only [setKid, orFresh, insWalk, setData, fresh]
      | node d' ks' =>
        simp only [setKid, orFresh, insWalk, setData]

theorem remove_fst_eq {root : TNode} (hr : root.isNull = false) (key : List UInt8)
    (hf : (find root key).isNull = false) :
    (TNode.remove root key).1 = clearAt root (path key) := by
  cases root with
  | null => simp [isNull] at hr
  | node d ks =>
    unfold TNode.remove
    simp only [hf]
    cases key with
    | cons c cs => rfl
    | nil =>
      show setKid (.node d ks) 0 (setData (kid (.node d ks) 0) none) = clearAt (.node d ks) [0]
      rw [clearAt_node]
      simp only [setKid, kid]
      congr 1
      funext i
      by_cases hi : i = 0
      · subst hi
        simp only [if_true]
        cases ks 0 <;> rfl
      · simp only [hi, if_false]
