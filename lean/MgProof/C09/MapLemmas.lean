import MgModel.C09.Ops
/-!
# C09 — the reference map (association list, first match wins)
-/
namespace MgProof.C09
open MgModel.C09

variable {κ : Type} [DecidableEq κ]

theorem get_cons (k : κ) (v : Nat) (m : Map κ) (y : κ) :
    Map.get ((k, v) :: m) y = if y = k then some v else Map.get m y := by
  unfold Map.get
  rw [List.lookup_cons]
  by_cases h : y = k
  · simp [h]
  · have : (y == k) = false := by simp [h]
    simp [h, this]

theorem get_filter (m : Map κ) (k y : κ) :
    Map.get (m.filter (fun p => p.1 ≠ k)) y = if y = k then none else Map.get m y := by
  induction m with
  | nil => simp [Map.get]
  | cons p m ih =>
    obtain ⟨a, va⟩ := p
    by_cases hak : a = k
    · subst hak
      have : List.filter (fun p : κ × Nat => decide (p.1 ≠ a)) ((a, va) :: m) =
          List.filter (fun p : κ × Nat => decide (p.1 ≠ a)) m := by simp
      rw [this, ih, get_cons]
      by_cases h : y = a <;> simp [h]
    · have : List.filter (fun p : κ × Nat => decide (p.1 ≠ k)) ((a, va) :: m) =
          (a, va) :: List.filter (fun p : κ × Nat => decide (p.1 ≠ k)) m := by simp [hak]
      rw [this, get_cons, get_cons, ih]
      by_cases h : y = a
      · subst h; simp [hak]
      · simp [h]

/-- rejecting insert: refused exactly when the key is present; otherwise `k ↦ v` is added -/
theorem putNew_spec (m : Map κ) (k : κ) (v : Nat) :
    (m.putNew k v).2 = (m.get k).isNone ∧
    ∀ y, Map.get (m.putNew k v).1 y =
      if (m.get k).isNone ∧ y = k then some v else m.get y := by
  unfold Map.putNew
  cases h : m.get k with
  | some w => simp
  | none =>
    refine ⟨by simp, fun y => ?_⟩
    simp only [get_cons]
    by_cases e : y = k <;> simp [e]

/-- removal: reports presence, removes exactly the association of `k` -/
theorem erase_spec (m : Map κ) (k : κ) :
    (m.erase k).2 = (m.get k).isSome ∧
    ∀ y, Map.get (m.erase k).1 y = if y = k then none else m.get y :=
  ⟨rfl, fun y => get_filter m k y⟩

theorem set_spec (m : Map κ) (k : κ) (v : Nat) (y : κ) :
    Map.get (m.set k v) y = if y = k then some v else m.get y := get_cons k v m y

end MgProof.C09
