import MgProof.C12.LemmasAes
/-!
# C12 — AES key expansion yields Nr+1 round keys of 16 bytes; `Cipher` keeps 16 bytes
-/
namespace MgProof.C12
open MgModel.C12 MgModel.C12.Aes

theorem getD_len4 (ws : List Bytes) (h : ∀ w ∈ ws, w.length = 4) (i : Nat) (hi : i < ws.length) :
    (ws.getD i []).length = 4 := by
  have : ws.getD i [] = ws[i] := by simp [List.getD, hi]
  rw [this]; exact h _ (List.getElem_mem hi)

theorem rotWord_length (w : Bytes) : (rotWord w).length = w.length := by
  cases w <;> simp [rotWord]

theorem expandAux_inv (nk : Nat) (hnk : 0 < nk) : ∀ (fuel : Nat) (ws : List Bytes),
    (∀ w ∈ ws, w.length = 4) → nk ≤ ws.length →
    (∀ w ∈ expandAux nk fuel ws, w.length = 4) ∧ (expandAux nk fuel ws).length = ws.length + fuel := by
  intro fuel
  induction fuel with
  | zero => intro ws h _; exact ⟨h, rfl⟩
  | succ f ih =>
    intro ws h hlen
    simp only [expandAux]
    have hprev := getD_len4 ws h (ws.length - 1) (by omega)
    have hold := getD_len4 ws h (ws.length - nk) (by omega)
    have hnew : ∀ temp : Bytes, temp.length = 4 →
        ∀ w ∈ ws ++ [xorBytes (ws.getD (ws.length - nk) []) temp], w.length = 4 := by
      intro temp ht w hw
      rcases List.mem_append.mp hw with hw | hw
      · exact h w hw
      · have hw' : w = xorBytes (ws.getD (ws.length - nk) []) temp := by simpa using hw
        rw [hw', xorBytes_length, hold, ht]; rfl
    have key : ∀ temp : Bytes, temp.length = 4 →
        (∀ w ∈ expandAux nk f (ws ++ [xorBytes (ws.getD (ws.length - nk) []) temp]), w.length = 4) ∧
        (expandAux nk f (ws ++ [xorBytes (ws.getD (ws.length - nk) []) temp])).length = ws.length + (f + 1) := by
      intro temp ht
      have := ih _ (hnew temp ht) (by simp; omega)
      refine ⟨this.1, ?_⟩
      rw [this.2]; simp; omega
    split
    · exact key _ (by rw [xorBytes_length]; simp only [subWord, List.length_map, rotWord_length, hprev]; simp [rcon])
    · split
      · exact key _ (by simp only [subWord, List.length_map, hprev])
      · exact key _ hprev

/-- the key expansion of a 16/24/32-byte key yields Nr+1 round keys of 16 bytes -/
theorem keyExpansion_len (key : Bytes) (hk : key.length = 16 ∨ key.length = 24 ∨ key.length = 32) :
    (∀ k ∈ keyExpansion key, k.length = 16) := by
  have hk4 : key.length % 4 = 0 := by omega
  have hw : ∀ w ∈ chunks 4 key, w.length = 4 := chunks_all_len 4 (by omega) key hk4
  have hcnt : (chunks 4 key).length = key.length / 4 := by
    have h1 := chunks_flatten 4 (by omega) key hk4
    have h2 : (chunks 4 key).flatten.length = 4 * (chunks 4 key).length := by
      generalize chunks 4 key = l at hw
      induction l with
      | nil => rfl
      | cons a l ih =>
        simp [hw a (by simp), ih (fun w h => hw w (by simp [h]))]; omega
    rw [h1] at h2; omega
  unfold keyExpansion
  simp only []
  obtain ⟨h4, hlen⟩ := expandAux_inv (key.length / 4) (by omega)
    (4 * (rounds (key.length / 4) + 1) - key.length / 4) (chunks 4 key) hw (by omega)
  refine chunks_all_len 16 (by omega) _ ?_
  generalize expandAux (key.length / 4) _ (chunks 4 key) = ws at h4 hlen
  have h2 : ws.flatten.length = 4 * ws.length := by
    clear hlen
    induction ws with
    | nil => rfl
    | cons a l ih =>
      simp [h4 a (by simp), ih (fun w h => h4 w (by simp [h]))]; omega
  rw [h2, hlen, hcnt]
  unfold rounds
  omega

theorem encRounds_length : ∀ (ks : List Bytes) (s : Bytes), (∀ k ∈ ks, k.length = 16) →
    s.length = 16 → (encRounds ks s).length = 16 := by
  intro ks
  induction ks with
  | nil => intro s _ hs; exact hs
  | cons k ks ih =>
    intro s hk hs
    have hk16 := hk k (by simp)
    cases ks with
    | nil => exact addRoundKey_length k _ hk16 (shiftRows_length _)
    | cons k' ks' =>
      rw [encRounds_cons k _ (by simp)]
      exact ih _ (fun q hq => hk q (by simp [hq])) (fullRound_length k s hk16)

theorem cipher_length (rks : List Bytes) (b : Bytes) (hk : ∀ k ∈ rks, k.length = 16)
    (hb : b.length = 16) : (cipher rks b).length = 16 := by
  cases rks with
  | nil => exact hb
  | cons k0 ks =>
    exact encRounds_length ks _ (fun q hq => hk q (by simp [hq]))
      (addRoundKey_length k0 b (hk k0 (by simp)) hb)

theorem invMixColumns_length (s : Bytes) (h : s.length = 16) : (invMixColumns s).length = 16 := by
  obtain ⟨a0, a1, a2, a3, a4, a5, a6, a7, a8, a9, a10, a11, a12, a13, a14, a15, rfl⟩ := list16 s h
  simp [invMixColumns, invMixCol]

theorem invShiftRows_length (s : Bytes) : (invShiftRows s).length = 16 := by
  simp [invShiftRows, invShiftIdx]

theorem invSubBytes_length (s : Bytes) : (invSubBytes s).length = s.length := by simp [invSubBytes]

theorem decRounds_length : ∀ (ks : List Bytes) (s : Bytes), (∀ k ∈ ks, k.length = 16) →
    s.length = 16 → (decRounds ks s).length = 16 := by
  intro ks
  induction ks with
  | nil => intro s _ hs; exact hs
  | cons k ks ih =>
    intro s hk hs
    have hk16 := hk k (by simp)
    have h1 : (invSubBytes (invShiftRows s)).length = 16 := by
      rw [invSubBytes_length, invShiftRows_length]
    cases ks with
    | nil => exact addRoundKey_length k _ hk16 h1
    | cons k' ks' =>
      rw [decRounds_cons k _ (by simp)]
      exact ih _ (fun q hq => hk q (by simp [hq]))
        (invMixColumns_length _ (addRoundKey_length k _ hk16 h1))

theorem invCipher_length (rks : List Bytes) (b : Bytes) (hk : ∀ k ∈ rks, k.length = 16)
    (hb : b.length = 16) : (invCipher rks b).length = 16 := by
  unfold invCipher
  have hr : ∀ k ∈ rks.reverse, k.length = 16 := fun k h => hk k (List.mem_reverse.mp h)
  generalize rks.reverse = l at hr
  cases l with
  | nil => exact hb
  | cons kN ks =>
    exact decRounds_length ks _ (fun q hq => hr q (by simp [hq]))
      (addRoundKey_length kN b (hr kN (by simp)) hb)

end MgProof.C12
