import MgModel.C12.Ciphers
import MgProof.C12.Lemmas
/-!
# C12 — DES / Triple-DES (FIPS 46-3): deciphering with the reversed key schedule
inverts enciphering, for every key schedule

Ingredients: `IP⁻¹ ∘ IP = id` and `IP ∘ IP⁻¹ = id` (composition of the two 64-entry
tables, `decide`), the generic Feistel argument (no property of `f` is used), and
the bit/byte conversions being mutually inverse.
-/
namespace MgProof.C12
open MgModel.C12 MgModel.C12.Des MgModel.C12.Tables

/-! ## selection tables -/

theorem permute_length (t : List Nat) (x : Bits) : (permute t x).length = t.length := by
  simp [permute]

/-- composing two selections is selecting through the composed table -/
theorem permute_permute (t1 t2 : List Nat) (x : Bits)
    (h : ∀ p ∈ t1, 1 ≤ p ∧ p ≤ t2.length) :
    permute t1 (permute t2 x) = permute (t1.map fun p => t2.getD (p - 1) 0) x := by
  simp only [permute, List.map_map]
  apply List.map_congr_left
  intro p hp
  obtain ⟨h1, h2⟩ := h p hp
  have hlt : p - 1 < t2.length := by omega
  simp [List.getD, hlt]

/-- the identity table selects the input itself -/
theorem permute_id (x : Bits) : permute (List.range' 1 x.length) x = x := by
  apply List.ext_getElem
  · simp [permute]
  · intro i h1 h2
    simp [permute, List.getD, h2]

theorem fp_ip_table : desFP.map (fun p => desIP.getD (p - 1) 0) = List.range' 1 64 := by decide
theorem ip_fp_table : desIP.map (fun p => desFP.getD (p - 1) 0) = List.range' 1 64 := by decide
theorem fp_range : ∀ p ∈ desFP, 1 ≤ p ∧ p ≤ desIP.length := by decide
theorem ip_range : ∀ p ∈ desIP, 1 ≤ p ∧ p ≤ desFP.length := by decide

/-- `IP⁻¹(IP(x)) = x` on 64-bit blocks -/
theorem fp_ip (x : Bits) (h : x.length = 64) : permute desFP (permute desIP x) = x := by
  rw [permute_permute _ _ _ fp_range, fp_ip_table, ← h, permute_id]

/-- `IP(IP⁻¹(x)) = x` on 64-bit blocks -/
theorem ip_fp (x : Bits) (h : x.length = 64) : permute desIP (permute desFP x) = x := by
  rw [permute_permute _ _ _ ip_range, ip_fp_table, ← h, permute_id]

/-! ## Feistel network -/

theorem xorBits_length (a b : Bits) : (xorBits a b).length = min a.length b.length := by
  simp [xorBits]

theorem xorBits_cancel : ∀ (a b : Bits), a.length ≤ b.length → xorBits (xorBits a b) b = a
  | [], _, _ => by simp [xorBits]
  | _ :: _, [], h => by simp at h
  | a :: as, b :: bs, h => by
    have := xorBits_cancel as bs (by simpa using h)
    simp [xorBits] at this ⊢
    exact this

theorem f_length (r k : Bits) : (f r k).length = 32 := by
  simp [f, permute_length]; decide

theorem feistel_append (a b : List Bits) : ∀ lr, feistel (a ++ b) lr = feistel b (feistel a lr) := by
  induction a with
  | nil => intro lr; rfl
  | cons k a ih => intro ⟨l, r⟩; simp [feistel, ih]

theorem feistel_length (ks : List Bits) : ∀ l r : Bits, l.length = 32 → r.length = 32 →
    (feistel ks (l, r)).1.length = 32 ∧ (feistel ks (l, r)).2.length = 32 := by
  induction ks with
  | nil => intro l r hl hr; exact ⟨hl, hr⟩
  | cons k ks ih =>
    intro l r hl hr
    simp only [feistel]
    exact ih r _ hr (by simp [xorBits_length, hl, f_length])

/-- the Feistel network run with the reversed keys on the swapped halves undoes itself —
whatever the round function is -/
theorem feistel_inverse (ks : List Bits) : ∀ l r : Bits, l.length = 32 → r.length = 32 →
    feistel ks.reverse ((feistel ks (l, r)).2, (feistel ks (l, r)).1) = (r, l) := by
  induction ks with
  | nil => intro l r _ _; rfl
  | cons k ks ih =>
    intro l r hl hr
    simp only [feistel, List.reverse_cons, feistel_append]
    rw [ih r (xorBits l (f r k)) hr (by simp [xorBits_length, hl, f_length])]
    rw [xorBits_cancel l (f r k) (by simp [hl, f_length])]

/-- **FIPS 46-3: deciphering = the same algorithm with K16..K1**, for every key schedule -/
theorem cryptBits_inverse (ks : List Bits) (x : Bits) (hx : x.length = 64) :
    cryptBits ks.reverse (cryptBits ks x) = x := by
  have hip : (permute desIP x).length = 64 := by rw [permute_length]; decide
  have hl : ((permute desIP x).take 32).length = 32 := by simp [hip]
  have hr : ((permute desIP x).drop 32).length = 32 := by simp [hip]
  obtain ⟨h1, h2⟩ := feistel_length ks _ _ hl hr
  have hinv := feistel_inverse ks _ _ hl hr
  generalize hfe : feistel ks ((permute desIP x).take 32, (permute desIP x).drop 32) = lr at h1 h2 hinv
  obtain ⟨l', r'⟩ := lr
  simp only at h1 h2 hinv
  have e1 : cryptBits ks x = permute desFP (r' ++ l') := by
    simp only [cryptBits, hfe]
  rw [e1]
  simp only [cryptBits]
  rw [ip_fp (r' ++ l') (by simp [h1, h2])]
  rw [List.take_left' h2, List.drop_left' h2, hinv]
  simp only []
  rw [List.take_append_drop, fp_ip x hx]

theorem cryptBits_length (ks : List Bits) (x : Bits) : (cryptBits ks x).length = 64 := by
  simp only [cryptBits]
  rw [permute_length]; decide

/-! ## bits and bytes -/

theorem byteBits_length (b : Byte) : (byteBits b).length = 8 := by simp [byteBits]

set_option maxRecDepth 100000 in
theorem bitsVal_byteBits_nat : ∀ n, n < 256 →
    BitVec.ofNat 8 (bitsVal (byteBits (BitVec.ofNat 8 n))) = BitVec.ofNat 8 n := by decide

theorem ofNat_bitsVal_byteBits (b : Byte) : BitVec.ofNat 8 (bitsVal (byteBits b)) = b := by
  have := bitsVal_byteBits_nat b.toNat b.isLt
  simpa using this

set_option maxRecDepth 100000 in
theorem byteBits_ofNat_bitsVal : ∀ b0 b1 b2 b3 b4 b5 b6 b7 : Bool,
    byteBits (BitVec.ofNat 8 (bitsVal [b0, b1, b2, b3, b4, b5, b6, b7])) = [b0, b1, b2, b3, b4, b5, b6, b7] := by
  decide

theorem bitsToBytesAux_cons (b : Byte) (rest : Bits) (fuel : Nat) :
    bitsToBytesAux (fuel + 1) (byteBits b ++ rest) = b :: bitsToBytesAux fuel rest := by
  have h8 := byteBits_length b
  have hne : byteBits b ++ rest ≠ [] := by
    intro h; have := congrArg List.length h; simp [h8] at this
  cases hb : byteBits b ++ rest with
  | nil => exact absurd hb hne
  | cons y ys =>
    simp only [bitsToBytesAux]
    rw [← hb, List.take_left' h8, List.drop_left' h8, ofNat_bitsVal_byteBits]

theorem bitsToBytesAux_nil (fuel : Nat) : bitsToBytesAux fuel [] = [] := by cases fuel <;> rfl

/-- bytes → bits → bytes is the identity -/
theorem bitsToBytes_bytesToBits (bs : Bytes) : bitsToBytes (bytesToBits bs) = bs := by
  unfold bitsToBytes
  have key : ∀ (bs : Bytes) (fuel : Nat), bs.length ≤ fuel →
      bitsToBytesAux fuel (bytesToBits bs) = bs := by
    intro bs
    induction bs with
    | nil => intro fuel _; simp [bytesToBits, bitsToBytesAux_nil]
    | cons b bs ih =>
      intro fuel h
      cases fuel with
      | zero => simp at h
      | succ f =>
        have : bytesToBits (b :: bs) = byteBits b ++ bytesToBits bs := by simp [bytesToBits]
        rw [this, bitsToBytesAux_cons, ih f (by simpa using h)]
  refine key bs _ ?_
  have : (bytesToBits bs).length = 8 * bs.length := by
    induction bs with
    | nil => rfl
    | cons b bs ih =>
      have e : bytesToBits (b :: bs) = byteBits b ++ bytesToBits bs := by simp [bytesToBits]
      rw [e, List.length_append, byteBits_length, ih]; simp; omega
  omega

theorem list8 {α} (s : List α) (h : s.length = 8) :
    ∃ a0 a1 a2 a3 a4 a5 a6 a7, s = [a0, a1, a2, a3, a4, a5, a6, a7] := by
  match s, h with
  | [a0, a1, a2, a3, a4, a5, a6, a7], _ => exact ⟨a0, a1, a2, a3, a4, a5, a6, a7, rfl⟩

/-- bits → bytes → bits is the identity on a whole number of bytes -/
theorem bytesToBits_bitsToBytesAux : ∀ (fuel : Nat) (x : Bits), x.length ≤ fuel → x.length % 8 = 0 →
    bytesToBits (bitsToBytesAux fuel x) = x := by
  intro fuel
  induction fuel with
  | zero =>
    intro x h _
    have : x = [] := by simpa using h
    subst this; rfl
  | succ f ih =>
    intro x h h8
    cases x with
    | nil => rfl
    | cons y ys =>
      have hlen : 8 ≤ (y :: ys).length := by
        have : 0 < (y :: ys).length := by simp
        omega
      simp only [bitsToBytesAux]
      simp only [List.length_cons] at hlen h h8
      obtain ⟨a0, a1, a2, a3, a4, a5, a6, a7, ht⟩ := list8 ((y :: ys).take 8) (by simp; omega)
      have hsplit := List.take_append_drop 8 (y :: ys)
      have e : bytesToBits (BitVec.ofNat 8 (bitsVal ((y :: ys).take 8)) :: bitsToBytesAux f ((y :: ys).drop 8))
          = byteBits (BitVec.ofNat 8 (bitsVal ((y :: ys).take 8))) ++ bytesToBits (bitsToBytesAux f ((y :: ys).drop 8)) := by
        simp [bytesToBits]
      rw [e, ih _ (by simp; omega) (by simp; omega), ht, byteBits_ofNat_bitsVal, ← ht, hsplit]

theorem bytesToBits_bitsToBytes (x : Bits) (h : x.length % 8 = 0) : bytesToBits (bitsToBytes x) = x :=
  bytesToBits_bitsToBytesAux _ x (Nat.le_refl _) h

theorem bytesToBits_length (bs : Bytes) : (bytesToBits bs).length = 8 * bs.length := by
  induction bs with
  | nil => rfl
  | cons b bs ih =>
    have e : bytesToBits (b :: bs) = byteBits b ++ bytesToBits bs := by simp [bytesToBits]
    rw [e, List.length_append, byteBits_length, ih]; simp; omega

/-! ## the block functions -/

/-- **DES: deciphering inverts enciphering** (any key schedule, any 8-byte block) -/
theorem cryptBlock_inverse (ks : List Bits) (b : Bytes) (hb : b.length = 8) :
    cryptBlock ks.reverse (cryptBlock ks b) = b := by
  unfold cryptBlock
  rw [bytesToBits_bitsToBytes _ (by rw [cryptBits_length]),
    cryptBits_inverse ks _ (by rw [bytesToBits_length, hb]), bitsToBytes_bytesToBits]

theorem cryptBlock_length (ks : List Bits) (b : Bytes) : (cryptBlock ks b).length = 8 := by
  have h := congrArg List.length (bytesToBits_bitsToBytes (cryptBits ks (bytesToBits b))
    (by rw [cryptBits_length]))
  rw [bytesToBits_length, cryptBits_length] at h
  unfold cryptBlock
  omega

theorem encryptBlock_length (key b : Bytes) : (encryptBlock key b).length = 8 := cryptBlock_length _ _
theorem decryptBlock_length (key b : Bytes) : (decryptBlock key b).length = 8 := cryptBlock_length _ _

theorem des_decrypt_encrypt (key b : Bytes) (hb : b.length = 8) :
    decryptBlock key (encryptBlock key b) = b := cryptBlock_inverse _ b hb

theorem des_encrypt_decrypt (key b : Bytes) (hb : b.length = 8) :
    encryptBlock key (decryptBlock key b) = b := by
  have := cryptBlock_inverse (keySchedule key).reverse b hb
  rwa [List.reverse_reverse] at this

/-- **Triple-DES (EDE): decryption inverts encryption** for all three keys -/
theorem tdes_decrypt_encrypt (k1 k2 k3 b : Bytes) (hb : b.length = 8) :
    tdesDecryptBlock k1 k2 k3 (tdesEncryptBlock k1 k2 k3 b) = b := by
  unfold tdesDecryptBlock tdesEncryptBlock
  rw [des_decrypt_encrypt k3 _ (decryptBlock_length _ _), des_encrypt_decrypt k2 _ (encryptBlock_length _ _),
    des_decrypt_encrypt k1 b hb]

theorem tdes_encrypt_decrypt (k1 k2 k3 b : Bytes) (hb : b.length = 8) :
    tdesEncryptBlock k1 k2 k3 (tdesDecryptBlock k1 k2 k3 b) = b := by
  unfold tdesDecryptBlock tdesEncryptBlock
  rw [des_encrypt_decrypt k1 _ (encryptBlock_length _ _), des_decrypt_encrypt k2 _ (decryptBlock_length _ _),
    des_encrypt_decrypt k3 b hb]

end MgProof.C12
