import MgProof.C12.Lemmas
import MgProof.C12.LemmasStream
import MgProof.C12.LemmasAes
import MgProof.C12.LemmasAesKey
import MgProof.C12.LemmasDes
/-!
# C12 — the API functions: parameter checks, and well-formedness of the caller-held state
-/
namespace MgProof.C12
open MgModel.C12

/-- what the theorems assume of a context: block functions that keep the block length,
with `D` a left inverse of `E`, wired as the three `set_key` functions wire them -/
structure Std (cx : Cx) (E D : Bytes → Bytes) : Prop where
  bs_pos : 0 < cx.bs
  blk : cx.mode ≤ 1 → cx.blkF = (match cx.dir with | .enc => E | .dec => D)
  str : 2 ≤ cx.mode → cx.strF = E
  lenE : ∀ b, b.length = cx.bs → (E b).length = cx.bs
  lenD : ∀ b, b.length = cx.bs → (D b).length = cx.bs
  inv : ∀ b, b.length = cx.bs → D (E b) = b

theorem checks_ecb (cx : Cx) (len : Nat) :
    runChecks (cx.call .ecb len 0) (checksOf .ecb) =
      if cx.mode = 0 ∧ len % cx.bs = 0 then .ok () else .error .invalidParam := by
  simp only [runChecks, checksOf, Cx.call, Fn.modeNum]
  by_cases h1 : cx.mode = 0 <;> by_cases h2 : len % cx.bs = 0 <;> simp [h1, h2]

theorem checks_cbc (cx : Cx) (len : Nat) :
    runChecks (cx.call .cbc len 0) (checksOf .cbc) =
      if cx.mode = 1 ∧ len % cx.bs = 0 then .ok () else .error .invalidParam := by
  simp only [runChecks, checksOf, Cx.call, Fn.modeNum]
  by_cases h1 : cx.mode = 1 <;> by_cases h2 : len % cx.bs = 0 <;> simp [h1, h2]

theorem checks_cfb (cx : Cx) (len off : Nat) :
    runChecks (cx.call .cfb len off) (checksOf .cfb) =
      if cx.mode = 2 ∧ off < cx.bs then .ok () else .error .invalidParam := by
  simp only [runChecks, checksOf, Cx.call, Fn.modeNum]
  by_cases h1 : cx.mode = 2 <;> by_cases h2 : off < cx.bs <;> simp [h1, h2]

theorem checks_ofb (cx : Cx) (len off : Nat) :
    runChecks (cx.call .ofb len off) (checksOf .ofb) =
      if cx.mode = 3 ∧ off < cx.bs then .ok () else .error .invalidParam := by
  simp only [runChecks, checksOf, Cx.call, Fn.modeNum]
  by_cases h1 : cx.mode = 3 <;> by_cases h2 : off < cx.bs <;> simp [h1, h2]

theorem checks_ctr (cx : Cx) (len off : Nat) :
    runChecks (cx.call .ctr len off) (checksOf .ctr) =
      if cx.mode = 4 ∧ off < cx.bs then .ok () else .error .invalidParam := by
  simp only [runChecks, checksOf, Cx.call, Fn.modeNum]
  by_cases h1 : cx.mode = 4 <;> by_cases h2 : off < cx.bs <;> simp [h1, h2]

/-! API-level forms -/

theorem ecb_ok (cx : Cx) (input : Bytes) (hm : cx.mode = 0) (hl : input.length % cx.bs = 0) :
    ecb cx input = .ok (ecbLoop cx.blkF cx.bs input) := by
  simp [ecb, checks_ecb, hm, hl, bind, Except.bind, pure, Except.pure]

theorem cbc_ok (cx : Cx) (iv input : Bytes) (hm : cx.mode = 1) (hl : input.length % cx.bs = 0)
    (hiv : iv.length = cx.bs) :
    cbc cx iv input = .ok (match cx.dir with
      | .enc => cbcEncBlocks cx.blkF iv (chunks cx.bs input)
      | .dec => cbcDecBlocks cx.blkF iv (chunks cx.bs input)) := by
  simp only [cbc, checks_cbc, hm, hl, needLen, hiv, bind, Except.bind, pure, Except.pure, and_self, if_true]
  cases cx.dir <;> rfl

theorem cfb_ok (cx : Cx) (s : IvState) (input : Bytes) (hm : cx.mode = 2) (ho : s.off < cx.bs)
    (hiv : s.iv.length = cx.bs) :
    cfb cx s input = .ok (cfbLoop cx.strF cx.bs (cx.dir == .enc) s input) := by
  simp [cfb, checks_cfb, hm, ho, needLen, hiv, bind, Except.bind, pure, Except.pure]

theorem ofb_ok (cx : Cx) (s : IvState) (input : Bytes) (hm : cx.mode = 3) (ho : s.off < cx.bs)
    (hiv : s.iv.length = cx.bs) :
    ofb cx s input = .ok (ofbLoop cx.strF cx.bs s input) := by
  simp [ofb, checks_ofb, hm, ho, needLen, hiv, bind, Except.bind, pure, Except.pure]

theorem ctr_ok (cx : Cx) (s : CtrState) (input : Bytes) (hm : cx.mode = 4) (ho : s.off < cx.bs)
    (hn : s.nonce.length = cx.bs) (hsb : s.sb.length = cx.bs) :
    ctr cx s input = .ok (ctrLoop cx.strF cx.bs s input) := by
  simp [ctr, checks_ctr, hm, ho, needLen, hn, hsb, bind, Except.bind, pure, Except.pure]

/-! the caller-held state stays well-formed across calls -/

theorem cfbLoop_inv (F : Bytes → Bytes) (bs : Nat) (hbs : 0 < bs) (enc : Bool)
    (hF : ∀ b, b.length = bs → (F b).length = bs) (xs : Bytes) : ∀ s : IvState,
    s.iv.length = bs → s.off < bs →
    (cfbLoop F bs enc s xs).2.iv.length = bs ∧ (cfbLoop F bs enc s xs).2.off < bs := by
  induction xs with
  | nil => intro s h1 h2; exact ⟨h1, h2⟩
  | cons x xs ih =>
    intro s h1 h2
    simp only [cfbLoop]
    apply ih
    · simp only [cfbByte, List.length_set]
      split
      · exact hF _ h1
      · exact h1
    · exact Nat.mod_lt _ hbs

theorem ofbLoop_inv (F : Bytes → Bytes) (bs : Nat) (hbs : 0 < bs)
    (hF : ∀ b, b.length = bs → (F b).length = bs) (xs : Bytes) : ∀ s : IvState,
    s.iv.length = bs → s.off < bs →
    (ofbLoop F bs s xs).2.iv.length = bs ∧ (ofbLoop F bs s xs).2.off < bs := by
  induction xs with
  | nil => intro s h1 h2; exact ⟨h1, h2⟩
  | cons x xs ih =>
    intro s h1 h2
    simp only [ofbLoop]
    apply ih
    · simp only [ofbByte]
      split
      · exact hF _ h1
      · exact h1
    · exact Nat.mod_lt _ hbs

theorem ctrLoop_inv (F : Bytes → Bytes) (bs : Nat) (hbs : 0 < bs)
    (hF : ∀ b, b.length = bs → (F b).length = bs) (xs : Bytes) : ∀ s : CtrState,
    s.nonce.length = bs → s.sb.length = bs → s.off < bs →
    (ctrLoop F bs s xs).2.nonce.length = bs ∧ (ctrLoop F bs s xs).2.sb.length = bs ∧
      (ctrLoop F bs s xs).2.off < bs := by
  induction xs with
  | nil => intro s h1 h2 h3; exact ⟨h1, h2, h3⟩
  | cons x xs ih =>
    intro s h1 h2 h3
    simp only [ctrLoop]
    apply ih
    · simp only [ctrByte]
      split
      · rw [incLE_length]; exact h1
      · exact h1
    · simp only [ctrByte]
      split
      · apply hF; rw [incLE_length]; exact h1
      · exact h2
    · exact Nat.mod_lt _ hbs

end MgProof.C12
