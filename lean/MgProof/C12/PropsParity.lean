import MgModel.C12.Parity
import MgModel.C12.Des
/-!
# C12 — DES key-byte parity: theorems (muggle/c/crypt/parity.c)

The quantifier is a finite table (all 256 values of an `unsigned char`): each statement is
decided over the whole table by kernel evaluation (`decide +kernel`, no `native_decide`) and
lifted to `∀ b < 256` by `all_range`. The tables are the ones regenerated from the C text on
every run (tie A, checks/C12/gentables.py); `muggle_parity_*` are compared with the model on
all 256 bytes by the correspondence run (tie B, op `parity`).
-/
namespace MgProof.C12.Parity
open MgModel.C12.Parity MgModel.C12.Tables

theorem all_range {n : Nat} {p : Nat → Bool} (h : (List.range n).all p = true) :
    ∀ b, b < n → p b = true := by
  intro b hb
  exact (List.all_eq_true.mp h) b (List.mem_range.mpr hb)

/-- both tables have one entry per `unsigned char`: the look-ups never leave the table -/
theorem tables_length : oddParity.length = 256 ∧ evenParity.length = 256 := by decide +kernel

/-- **the committed tables are exactly what the file's own generator computes**
    (`muggle_parity_gen(1)` / `muggle_parity_gen(0)`), entry by entry -/
theorem tables_eq_gen :
    oddParity = (List.range 256).map (parityGen 1) ∧ evenParity = (List.range 256).map (parityGen 0) := by
  decide +kernel

/-- **set_odd**: defined on every byte; the result is a byte with an odd number of set bits that
    differs from the argument at most in its lowest bit (bits 7..1 are kept) -/
theorem setOdd_spec (b : Nat) (hb : b < 256) :
    ∃ v, setOdd b = some v ∧ v < 256 ∧ popcount8 v % 2 = 1 ∧ v / 2 = b / 2 := by
  have h := all_range (n := 256)
    (p := fun b => match setOdd b with
      | some v => decide (v < 256 ∧ popcount8 v % 2 = 1 ∧ v / 2 = b / 2)
      | none => false) (by decide +kernel) b hb
  cases hv : setOdd b with
  | none => simp [hv] at h
  | some v => exact ⟨v, rfl, by simpa [hv] using h⟩

/-- **set_even**: as `setOdd_spec`, with an even number of set bits -/
theorem setEven_spec (b : Nat) (hb : b < 256) :
    ∃ v, setEven b = some v ∧ v < 256 ∧ popcount8 v % 2 = 0 ∧ v / 2 = b / 2 := by
  have h := all_range (n := 256)
    (p := fun b => match setEven b with
      | some v => decide (v < 256 ∧ popcount8 v % 2 = 0 ∧ v / 2 = b / 2)
      | none => false) (by decide +kernel) b hb
  cases hv : setEven b with
  | none => simp [hv] at h
  | some v => exact ⟨v, rfl, by simpa [hv] using h⟩

/-- **check_odd** answers 1 exactly on the bytes with an odd number of set bits, 0 otherwise -/
theorem checkOdd_iff (b : Nat) (hb : b < 256) :
    checkOdd b = some (if popcount8 b % 2 = 1 then 1 else 0) := by
  have h := all_range (n := 256)
    (p := fun b => decide (checkOdd b = some (if popcount8 b % 2 = 1 then 1 else 0)))
    (by decide +kernel) b hb
  simpa using h

/-- **check_even** answers 1 exactly on the bytes with an even number of set bits -/
theorem checkEven_iff (b : Nat) (hb : b < 256) :
    checkEven b = some (if popcount8 b % 2 = 0 then 1 else 0) := by
  have h := all_range (n := 256)
    (p := fun b => decide (checkEven b = some (if popcount8 b % 2 = 0 then 1 else 0)))
    (by decide +kernel) b hb
  simpa using h

/-- **set then check**: what `set_odd` returns passes `check_odd` and fails `check_even`
    (and symmetrically), and setting is idempotent -/
theorem set_then_check (b : Nat) (hb : b < 256) :
    (setOdd b).bind checkOdd = some 1 ∧ (setOdd b).bind checkEven = some 0 ∧
    (setEven b).bind checkEven = some 1 ∧ (setEven b).bind checkOdd = some 0 ∧
    (setOdd b).bind setOdd = setOdd b ∧ (setEven b).bind setEven = setEven b := by
  have h := all_range (n := 256)
    (p := fun b => decide ((setOdd b).bind checkOdd = some 1 ∧ (setOdd b).bind checkEven = some 0 ∧
      (setEven b).bind checkEven = some 1 ∧ (setEven b).bind checkOdd = some 0 ∧
      (setOdd b).bind setOdd = setOdd b ∧ (setEven b).bind setEven = setEven b))
    (by decide +kernel) b hb
  simpa using h

/-- **exactly one of the two checks holds** for every byte -/
theorem check_exclusive (b : Nat) (hb : b < 256) :
    ∃ o e, checkOdd b = some o ∧ checkEven b = some e ∧ o + e = 1 := by
  have h := all_range (n := 256)
    (p := fun b => match checkOdd b, checkEven b with
      | some o, some e => decide (o + e = 1)
      | _, _ => false) (by decide +kernel) b hb
  cases ho : checkOdd b <;> cases he : checkEven b <;> simp [ho, he] at h
  exact ⟨_, _, rfl, rfl, h⟩

/-- the error branch is explicit: an index beyond the table is an out-of-bounds read, not a value -/
theorem out_of_table (b : Nat) (hb : 256 ≤ b) : setOdd b = none ∧ setEven b = none ∧ checkOdd b = none ∧ checkEven b = none := by
  have ⟨h1, h2⟩ := tables_length
  simp [setOdd, setEven, checkOdd, checkEven, h1, h2, hb]

/-- non-vacuity: the weak DES key byte 0x01 has odd parity, 0x00 does not; 0xFE is odd, 0xFF even -/
example : checkOdd 0x01 = some 1 ∧ checkOdd 0x00 = some 0 ∧ checkOdd 0xFE = some 1 ∧ checkEven 0xFF = some 1 := by
  decide

/-! ## The parity bit of a DES key byte is not key material (FIPS 46-3: PC-1 never selects bits 8, 16, .., 64)

Links the parity unit to the DES specification model (`MgModel/C12/Des.lean`, the one the
compiled DES core is compared with on every run): whatever `muggle_parity_set_odd/_even` does to
the key bytes, every round key — hence every DES/3DES result — is unchanged. -/
section KeyBits
open MgModel.C12 MgModel.C12.Des

theorem hi_bits {a b : BitVec 8} (h : a >>> 1 = b >>> 1) (i : Nat) (hi : 1 ≤ i) (h8 : i < 8) :
    a[i] = b[i] := by
  have := congrArg (fun x => x.getLsbD (i-1)) h
  simp only [BitVec.getLsbD_ushiftRight] at this
  rw [show 1 + (i-1) = i by omega] at this
  simpa [BitVec.getLsbD_eq_getElem h8] using this

theorem pc1_parity (a0 a1 a2 a3 a4 a5 a6 a7 b0 b1 b2 b3 b4 b5 b6 b7 : BitVec 8)
    (h0 : a0 >>> 1 = b0 >>> 1) (h1 : a1 >>> 1 = b1 >>> 1) (h2 : a2 >>> 1 = b2 >>> 1) (h3 : a3 >>> 1 = b3 >>> 1)
    (h4 : a4 >>> 1 = b4 >>> 1) (h5 : a5 >>> 1 = b5 >>> 1) (h6 : a6 >>> 1 = b6 >>> 1) (h7 : a7 >>> 1 = b7 >>> 1) :
    permute Tables.desPC1 (bytesToBits [a0,a1,a2,a3,a4,a5,a6,a7]) =
    permute Tables.desPC1 (bytesToBits [b0,b1,b2,b3,b4,b5,b6,b7]) := by
  have g0 := hi_bits h0; have g1 := hi_bits h1; have g2 := hi_bits h2; have g3 := hi_bits h3
  have g4 := hi_bits h4; have g5 := hi_bits h5; have g6 := hi_bits h6; have g7 := hi_bits h7
  simp [permute, bytesToBits, byteBits, Tables.desPC1, List.range, List.range.loop,
    g0, g1, g2, g3, g4, g5, g6, g7]

/-- **Round keys ignore the parity bits**: two 8-byte keys that agree in bits 7..1 of every byte
    (`>>> 1`) have the same sixteen round keys — for every key, not a sample. -/
theorem keySchedule_ignores_parity (k k' : Bytes) (hl : k.length = 8)
    (h : k'.map (fun x : Byte => x >>> 1) = k.map (fun x : Byte => x >>> 1)) : keySchedule k' = keySchedule k := by
  have hl' : k'.length = 8 := by simpa [hl] using congrArg List.length h
  match k, hl, k', hl', h with
  | [a0,a1,a2,a3,a4,a5,a6,a7], _, [b0,b1,b2,b3,b4,b5,b6,b7], _, h =>
    simp only [List.map_cons, List.map_nil, List.cons.injEq, and_true] at h
    obtain ⟨h0, h1, h2, h3, h4, h5, h6, h7⟩ := h
    unfold keySchedule
    rw [pc1_parity b0 b1 b2 b3 b4 b5 b6 b7 a0 a1 a2 a3 a4 a5 a6 a7 h0 h1 h2 h3 h4 h5 h6 h7]

/-- **DES results ignore the parity bits of the key**, both directions, every block -/
theorem des_ignores_key_parity (k k' : Bytes) (hl : k.length = 8)
    (h : k'.map (fun x : Byte => x >>> 1) = k.map (fun x : Byte => x >>> 1)) (b : Bytes) :
    encryptBlock k' b = encryptBlock k b ∧ decryptBlock k' b = decryptBlock k b := by
  simp [encryptBlock, decryptBlock, keySchedule_ignores_parity k k' hl h]

/-- what `muggle_parity_set_odd` / `_set_even` return keeps bits 7..1 of the byte, i.e. satisfies
    the per-byte hypothesis of `des_ignores_key_parity` -/
theorem set_keeps_key_bits (b : BitVec 8) :
    (∃ v, setOdd b.toNat = some v ∧ BitVec.ofNat 8 v >>> 1 = b >>> 1) ∧
    (∃ v, setEven b.toNat = some v ∧ BitVec.ofNat 8 v >>> 1 = b >>> 1) := by
  obtain ⟨v, hv, hlt, _, hdiv⟩ := setOdd_spec b.toNat b.isLt
  obtain ⟨w, hw, hlt', _, hdiv'⟩ := setEven_spec b.toNat b.isLt
  refine ⟨⟨v, hv, ?_⟩, ⟨w, hw, ?_⟩⟩ <;> apply BitVec.eq_of_toNat_eq <;>
    simp [BitVec.toNat_ushiftRight, Nat.shiftRight_eq_div_pow, Nat.mod_eq_of_lt, *]

/-- non-vacuity: the textbook key `133457799BBCDFF1` is `123456789ABCDEF0` with odd parity set -/
example : ([0x13,0x34,0x57,0x79,0x9b,0xbc,0xdf,0xf1] : Bytes).map (fun x : Byte => x >>> 1) =
    ([0x12,0x34,0x56,0x78,0x9a,0xbc,0xde,0xf0] : Bytes).map (fun x : Byte => x >>> 1) := by decide

end KeyBits

end MgProof.C12.Parity
