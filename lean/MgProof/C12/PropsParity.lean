import MgModel.C12.Parity
/-!
# C12 — DES key-byte parity: theorems (muggle/c/crypt/parity.c)

The quantifier is a finite table (all 256 values of an `unsigned char`): each statement is
decided over the whole table by kernel evaluation (`decide +kernel`, no `native_decide`) and
lifted to `∀ b < 256` by `all_range`. The tables are the ones regenerated from the C text on
every run (tie A, checks/C12/gentables.py); `muggle_parity_*` are compared with the model on
all 256 bytes by the correspondence run (tie B, op `parity`).
-/
namespace MgProof.C12.Parity
open MgModel.C12.Parity MgModel.C12.Tables

theorem all_range {n : Nat} {p : Nat → Bool} (h : (List.range n).all p = true) :
    ∀ b, b < n → p b = true := by
  intro b hb
  exact (List.all_eq_true.mp h) b (List.mem_range.mpr hb)

/-- both tables have one entry per `unsigned char`: the look-ups never leave the table -/
theorem tables_length : oddParity.length = 256 ∧ evenParity.length = 256 := by decide +kernel

/-- **the committed tables are exactly what the file's own generator computes**
    (`muggle_parity_gen(1)` / `muggle_parity_gen(0)`), entry by entry -/
theorem tables_eq_gen :
    oddParity = (List.range 256).map (parityGen 1) ∧ evenParity = (List.range 256).map (parityGen 0) := by
  decide +kernel

/-- **set_odd**: defined on every byte; the result is a byte with an odd number of set bits that
    differs from the argument at most in its lowest bit (bits 7..1 are kept) -/
theorem setOdd_spec (b : Nat) (hb : b < 256) :
    ∃ v, setOdd b = some v ∧ v < 256 ∧ popcount8 v % 2 = 1 ∧ v / 2 = b / 2 := by
  have h := all_range (n := 256)
    (p := fun b => match setOdd b with
      | some v => decide (v < 256 ∧ popcount8 v % 2 = 1 ∧ v / 2 = b / 2)
      | none => false) (by decide +kernel) b hb
  cases hv : setOdd b with
  | none => simp [hv] at h
  | some v => exact ⟨v, rfl, by simpa [hv] using h⟩

/-- **set_even**: as `setOdd_spec`, with an even number of set bits -/
theorem setEven_spec (b : Nat) (hb : b < 256) :
    ∃ v, setEven b = some v ∧ v < 256 ∧ popcount8 v % 2 = 0 ∧ v / 2 = b / 2 := by
  have h := all_range (n := 256)
    (p := fun b => match setEven b with
      | some v => decide (v < 256 ∧ popcount8 v % 2 = 0 ∧ v / 2 = b / 2)
      | none => false) (by decide +kernel) b hb
  cases hv : setEven b with
  | none => simp [hv] at h
  | some v => exact ⟨v, rfl, by simpa [hv] using h⟩

/-- **check_odd** answers 1 exactly on the bytes with an odd number of set bits, 0 otherwise -/
theorem checkOdd_iff (b : Nat) (hb : b < 256) :
    checkOdd b = some (if popcount8 b % 2 = 1 then 1 else 0) := by
  have h := all_range (n := 256)
    (p := fun b => decide (checkOdd b = some (if popcount8 b % 2 = 1 then 1 else 0)))
    (by decide +kernel) b hb
  simpa using h

/-- **check_even** answers 1 exactly on the bytes with an even number of set bits -/
theorem checkEven_iff (b : Nat) (hb : b < 256) :
    checkEven b = some (if popcount8 b % 2 = 0 then 1 else 0) := by
  have h := all_range (n := 256)
    (p := fun b => decide (checkEven b = some (if popcount8 b % 2 = 0 then 1 else 0)))
    (by decide +kernel) b hb
  simpa using h

/-- **set then check**: what `set_odd` returns passes `check_odd` and fails `check_even`
    (and symmetrically), and setting is idempotent -/
theorem set_then_check (b : Nat) (hb : b < 256) :
    (setOdd b).bind checkOdd = some 1 ∧ (setOdd b).bind checkEven = some 0 ∧
    (setEven b).bind checkEven = some 1 ∧ (setEven b).bind checkOdd = some 0 ∧
    (setOdd b).bind setOdd = setOdd b ∧ (setEven b).bind setEven = setEven b := by
  have h := all_range (n := 256)
    (p := fun b => decide ((setOdd b).bind checkOdd = some 1 ∧ (setOdd b).bind checkEven = some 0 ∧
      (setEven b).bind checkEven = some 1 ∧ (setEven b).bind checkOdd = some 0 ∧
      (setOdd b).bind setOdd = setOdd b ∧ (setEven b).bind setEven = setEven b))
    (by decide +kernel) b hb
  simpa using h

/-- **exactly one of the two checks holds** for every byte -/
theorem check_exclusive (b : Nat) (hb : b < 256) :
    ∃ o e, checkOdd b = some o ∧ checkEven b = some e ∧ o + e = 1 := by
  have h := all_range (n := 256)
    (p := fun b => match checkOdd b, checkEven b with
      | some o, some e => decide (o + e = 1)
      | _, _ => false) (by decide +kernel) b hb
  cases ho : checkOdd b <;> cases he : checkEven b <;> simp [ho, he] at h
  exact ⟨_, _, rfl, rfl, h⟩

/-- the error branch is explicit: an index beyond the table is an out-of-bounds read, not a value -/
theorem out_of_table (b : Nat) (hb : 256 ≤ b) : setOdd b = none ∧ setEven b = none ∧ checkOdd b = none ∧ checkEven b = none := by
  have ⟨h1, h2⟩ := tables_length
  simp [setOdd, setEven, checkOdd, checkEven, h1, h2, hb]

/-- non-vacuity: the weak DES key byte 0x01 has odd parity, 0x00 does not; 0xFE is odd, 0xFF even -/
example : checkOdd 0x01 = some 1 ∧ checkOdd 0x00 = some 0 ∧ checkOdd 0xFE = some 1 ∧ checkEven 0xFF = some 1 := by
  decide

end MgProof.C12.Parity
