import MgProof.C12.Lemmas
/-!
# C12 — the per-byte stream loops are the block-wise definitions of SP 800-38A
-/
namespace MgProof.C12
open MgModel.C12

theorem take_set_succ {α} (l : List α) (k : Nat) (v : α) (h : k < l.length) :
    (l.set k v).take (k+1) = l.take k ++ [v] := by
  rw [List.take_succ_eq_append_getElem (by simpa using h), List.take_set_of_le (Nat.le_refl k)]
  simp

theorem drop_getD (l : Bytes) (k : Nat) (h : k < l.length) : l.drop k = l.getD k 0 :: l.drop (k+1) := by
  rw [List.drop_eq_getElem_cons h]; simp [List.getD, h]

theorem chunksAux_nil (n k : Nat) : chunksAux n k [] = [] := by cases k <;> rfl

theorem chunks_short (n : Nat) (l : Bytes) (h0 : l ≠ []) (h : l.length ≤ n) : chunks n l = [l] := by
  cases l with
  | nil => exact absurd rfl h0
  | cons x xs =>
    simp only [chunks, List.length_cons, chunksAux]
    rw [List.take_of_length_le h, List.drop_of_length_le h, chunksAux_nil]

/-- any buffer is either at most one block, or a full block followed by a non-empty rest -/
theorem stream_induction (n : Nat) (hn : 0 < n) (P : Bytes → Prop)
    (hbase : ∀ l : Bytes, l.length ≤ n → P l)
    (hstep : ∀ a rest, a.length = n → rest ≠ [] → P rest → P (a ++ rest)) : ∀ l, P l := by
  have key : ∀ k : Nat, ∀ l : Bytes, l.length = k → P l := by
    intro k
    induction k using Nat.strongRecOn with
    | ind k ih =>
      intro l hk
      by_cases hle : l.length ≤ n
      · exact hbase l hle
      · have h := List.take_append_drop n l
        rw [← h]
        refine hstep _ _ (by simp; omega) ?_ (ih (l.drop n).length (by simp; omega) _ rfl)
        intro h0
        have : (l.drop n).length = 0 := by rw [h0]; rfl
        simp at this; omega
  intro l; exact key l.length l rfl

/-! ## OFB: per-byte loop = block-wise definition -/

theorem ofb_tail (F : Bytes → Bytes) (bs : Nat) (iv1 : Bytes) (hiv : iv1.length = bs) :
    ∀ (p : Bytes) (k : Nat), 0 < k → k < bs → k + p.length ≤ bs →
    ofbLoop F bs ⟨iv1, k⟩ p = (xorBytes p (iv1.drop k), ⟨iv1, (k + p.length) % bs⟩) := by
  intro p
  induction p with
  | nil => intro k _ hk _; simp [ofbLoop, xorBytes, Nat.mod_eq_of_lt hk]
  | cons x p ih =>
    intro k h0 hk hlen
    have hk0 : k ≠ 0 := by omega
    simp only [ofbLoop, ofbByte, hk0, if_false]
    rw [drop_getD iv1 k (by omega)]
    by_cases hlast : k + 1 = bs
    · have hp : p = [] := by
        have : p.length = 0 := by simp at hlen; omega
        exact List.eq_nil_of_length_eq_zero this
      subst hp
      simp [ofbLoop, xorBytes]
    · have hk1 : (k + 1) % bs = k + 1 := Nat.mod_eq_of_lt (by omega)
      rw [hk1, ih (k + 1) (by omega) (by omega) (by simp at hlen; omega)]
      simp [xorBytes, Nat.add_assoc, Nat.add_comm 1]

theorem ofb_block (F : Bytes → Bytes) (bs : Nat) (iv : Bytes)
    (hF : (F iv).length = bs) (p : Bytes) (hp0 : p ≠ []) (hp : p.length ≤ bs) :
    ofbLoop F bs ⟨iv, 0⟩ p = (xorBytes p (F iv), ⟨F iv, p.length % bs⟩) := by
  cases p with
  | nil => exact absurd rfl hp0
  | cons x p =>
    simp only [ofbLoop, ofbByte, if_true]
    generalize F iv = g at hF ⊢
    cases g with
    | nil => simp at hF hp; omega
    | cons g0 g =>
      by_cases hp' : p = []
      · subst hp'
        simp [ofbLoop, xorBytes]
      · have hlen : 2 ≤ bs := by
          have : 0 < p.length := List.length_pos_iff.mpr hp'
          simp at hp; omega
        have h1 : (0 + 1) % bs = 1 := Nat.mod_eq_of_lt (by omega)
        rw [h1, ofb_tail F bs (g0 :: g) hF p 1 (by omega) (by omega) (by simp at hp; omega)]
        simp [xorBytes, Nat.add_comm 1]

/-- **OFB = SP 800-38A §6.4** for every message length -/
theorem ofb_eq_spec (F : Bytes → Bytes) (bs : Nat) (hbs : 0 < bs)
    (hF : ∀ b, b.length = bs → (F b).length = bs) (msg : Bytes) : ∀ iv : Bytes, iv.length = bs →
    (ofbLoop F bs ⟨iv, 0⟩ msg).1 = (Spec.ofb F iv (chunks bs msg)).flatten := by
  refine stream_induction bs hbs
    (fun msg => ∀ iv : Bytes, iv.length = bs →
      (ofbLoop F bs ⟨iv, 0⟩ msg).1 = (Spec.ofb F iv (chunks bs msg)).flatten) ?_ ?_ msg
  · intro l hl iv hiv
    by_cases h0 : l = []
    · subst h0; simp [ofbLoop, chunks_nil, Spec.ofb]
    · rw [ofb_block F bs iv (hF iv hiv) l h0 hl, chunks_short bs l h0 hl]
      simp [Spec.ofb]
  · intro a rest ha hr ih iv hiv
    rw [ofbLoop_append, ofb_block F bs iv (hF iv hiv) a (by intro h; subst h; simp at ha; omega) (by omega),
      chunks_cons bs hbs a rest ha]
    simp only [Spec.ofb, List.flatten_cons, ha, Nat.mod_self]
    rw [ih (F iv) (hF iv hiv)]

/-! ## CTR -/

theorem ctr_tail (F : Bytes → Bytes) (bs : Nat) (n sb : Bytes) (hsb : sb.length = bs) :
    ∀ (p : Bytes) (k : Nat), 0 < k → k < bs → k + p.length ≤ bs →
    ctrLoop F bs ⟨n, k, sb⟩ p = (xorBytes p (sb.drop k), ⟨n, (k + p.length) % bs, sb⟩) := by
  intro p
  induction p with
  | nil => intro k _ hk _; simp [ctrLoop, xorBytes, Nat.mod_eq_of_lt hk]
  | cons x p ih =>
    intro k h0 hk hlen
    have hk0 : k ≠ 0 := by omega
    simp only [ctrLoop, ctrByte, hk0, if_false]
    rw [drop_getD sb k (by omega)]
    by_cases hlast : k + 1 = bs
    · have hp : p = [] := by
        have : p.length = 0 := by simp at hlen; omega
        exact List.eq_nil_of_length_eq_zero this
      subst hp
      simp [ctrLoop, xorBytes]
    · have hk1 : (k + 1) % bs = k + 1 := Nat.mod_eq_of_lt (by omega)
      rw [hk1, ih (k + 1) (by omega) (by omega) (by simp at hlen; omega)]
      simp [xorBytes, Nat.add_assoc, Nat.add_comm 1]

theorem ctr_block (F : Bytes → Bytes) (bs : Nat) (n sb : Bytes)
    (hF : (F (incLE n)).length = bs) (p : Bytes) (hp0 : p ≠ []) (hp : p.length ≤ bs) :
    ctrLoop F bs ⟨n, 0, sb⟩ p =
      (xorBytes p (F (incLE n)), ⟨incLE n, p.length % bs, F (incLE n)⟩) := by
  cases p with
  | nil => exact absurd rfl hp0
  | cons x p =>
    simp only [ctrLoop, ctrByte, if_true]
    generalize F (incLE n) = g at hF ⊢
    cases g with
    | nil => simp at hF hp; omega
    | cons g0 g =>
      by_cases hp' : p = []
      · subst hp'
        simp [ctrLoop, xorBytes]
      · have hlen : 2 ≤ bs := by
          have : 0 < p.length := List.length_pos_iff.mpr hp'
          simp at hp; omega
        have h1 : (0 + 1) % bs = 1 := Nat.mod_eq_of_lt (by omega)
        rw [h1, ctr_tail F bs (incLE n) (g0 :: g) hF p 1 (by omega) (by omega) (by simp at hp; omega)]
        simp [xorBytes, Nat.add_comm 1]

theorem incLE_length : ∀ b : Bytes, (incLE b).length = b.length
  | [] => rfl
  | b :: bs => by
    simp only [incLE]
    split <;> simp [incLE_length bs]

/-- **CTR = SP 800-38A §6.5** over the library's counter blocks, for every message length
and whatever the caller left in `stream_block` -/
theorem ctr_eq_spec (F : Bytes → Bytes) (bs : Nat) (hbs : 0 < bs)
    (hF : ∀ b, b.length = bs → (F b).length = bs) (msg : Bytes) :
    ∀ n sb : Bytes, n.length = bs →
    (ctrLoop F bs ⟨n, 0, sb⟩ msg).1 = (Spec.ctr F n (chunks bs msg)).flatten := by
  refine stream_induction bs hbs
    (fun msg => ∀ n sb : Bytes, n.length = bs →
      (ctrLoop F bs ⟨n, 0, sb⟩ msg).1 = (Spec.ctr F n (chunks bs msg)).flatten) ?_ ?_ msg
  · intro l hl n sb hn
    have hFn := hF (incLE n) (by rw [incLE_length, hn])
    by_cases h0 : l = []
    · subst h0; simp [ctrLoop, chunks_nil, Spec.ctr]
    · rw [ctr_block F bs n sb hFn l h0 hl, chunks_short bs l h0 hl]
      simp [Spec.ctr]
  · intro a rest ha hr ih n sb hn
    have hFn := hF (incLE n) (by rw [incLE_length, hn])
    rw [ctrLoop_append, ctr_block F bs n sb hFn a (by intro h; subst h; simp at ha; omega) (by omega),
      chunks_cons bs hbs a rest ha]
    simp only [Spec.ctr, List.flatten_cons, ha, Nat.mod_self]
    rw [ih (incLE n) _ (by rw [incLE_length, hn])]

/-! ## CFB -/

/-- the feedback bytes: ciphertext, i.e. the output when encrypting, the input when decrypting -/
def cfbFb (enc : Bool) (p out : Bytes) : Bytes := if enc then out else p

theorem cfb_tail (F : Bytes → Bytes) (bs : Nat) (enc : Bool) :
    ∀ (p : Bytes) (k : Nat) (iv1 : Bytes), iv1.length = bs → 0 < k → k < bs → k + p.length ≤ bs →
    cfbLoop F bs enc ⟨iv1, k⟩ p =
      (xorBytes p (iv1.drop k),
       ⟨iv1.take k ++ cfbFb enc p (xorBytes p (iv1.drop k)) ++ iv1.drop (k + p.length),
        (k + p.length) % bs⟩) := by
  intro p
  induction p with
  | nil => intro k iv1 _ _ hk _; simp [cfbLoop, xorBytes, cfbFb, Nat.mod_eq_of_lt hk]
  | cons x p ih =>
    intro k iv1 hiv h0 hk hlen
    have hk0 : k ≠ 0 := by omega
    have hkl : k < iv1.length := by omega
    simp only [cfbLoop, cfbByte, hk0, if_false]
    rw [drop_getD iv1 k hkl]
    by_cases hlast : k + 1 = bs
    · have hp : p = [] := by
        have : p.length = 0 := by simp at hlen; omega
        exact List.eq_nil_of_length_eq_zero this
      subst hp
      have hd : iv1.drop (k + 1) = [] := List.drop_of_length_le (by omega)
      simp only [cfbLoop, xorBytes, List.zipWith_cons_cons, List.zipWith_nil_left, List.length_cons,
        List.length_nil, hd, List.append_nil]
      rw [List.set_eq_take_append_cons_drop, if_pos hkl, hd]
      cases enc <;> simp [cfbFb]
    · have hk1 : (k + 1) % bs = k + 1 := Nat.mod_eq_of_lt (by omega)
      rw [hk1, ih (k + 1) _ (by simp [hiv]) (by omega) (by omega) (by simp at hlen; omega)]
      rw [List.drop_set_of_lt (Nat.lt_succ_self k), take_set_succ iv1 k _ hkl,
        List.drop_set_of_lt (by omega)]
      cases enc <;>
        simp [xorBytes, cfbFb, Nat.add_assoc, Nat.add_comm 1]

theorem cfb_block (F : Bytes → Bytes) (bs : Nat) (enc : Bool) (iv : Bytes)
    (hF : (F iv).length = bs) (p : Bytes) (hp0 : p ≠ []) (hp : p.length ≤ bs) :
    cfbLoop F bs enc ⟨iv, 0⟩ p =
      (xorBytes p (F iv),
       ⟨cfbFb enc p (xorBytes p (F iv)) ++ (F iv).drop p.length, p.length % bs⟩) := by
  cases p with
  | nil => exact absurd rfl hp0
  | cons x p =>
    simp only [cfbLoop, cfbByte, if_true]
    generalize F iv = g at hF ⊢
    cases g with
    | nil => simp at hF hp; omega
    | cons g0 g =>
      by_cases hp' : p = []
      · subst hp'
        cases enc <;> simp [cfbLoop, xorBytes, cfbFb]
      · have hlen : 2 ≤ bs := by
          have : 0 < p.length := List.length_pos_iff.mpr hp'
          simp at hp; omega
        have h1 : (0 + 1) % bs = 1 := Nat.mod_eq_of_lt (by omega)
        rw [h1, cfb_tail F bs enc p 1 _ (by simpa using hF) (by omega) (by omega) (by simp at hp; omega)]
        cases enc <;> simp [xorBytes, cfbFb, Nat.add_comm 1]

/-- **CFB encryption = SP 800-38A §6.3** (s = b), for every message length -/
theorem cfbEnc_eq_spec (F : Bytes → Bytes) (bs : Nat) (hbs : 0 < bs)
    (hF : ∀ b, b.length = bs → (F b).length = bs) (msg : Bytes) : ∀ iv : Bytes, iv.length = bs →
    (cfbLoop F bs true ⟨iv, 0⟩ msg).1 = (Spec.cfbEnc F iv (chunks bs msg)).flatten := by
  refine stream_induction bs hbs
    (fun msg => ∀ iv : Bytes, iv.length = bs →
      (cfbLoop F bs true ⟨iv, 0⟩ msg).1 = (Spec.cfbEnc F iv (chunks bs msg)).flatten) ?_ ?_ msg
  · intro l hl iv hiv
    by_cases h0 : l = []
    · subst h0; simp [cfbLoop, chunks_nil, Spec.cfbEnc]
    · rw [cfb_block F bs true iv (hF iv hiv) l h0 hl, chunks_short bs l h0 hl]
      simp [Spec.cfbEnc]
  · intro a rest ha hr ih iv hiv
    have hFl := hF iv hiv
    rw [cfbLoop_append, cfb_block F bs true iv hFl a (by intro h; subst h; simp at ha; omega) (by omega),
      chunks_cons bs hbs a rest ha]
    have hd : (F iv).drop a.length = [] := List.drop_of_length_le (by omega)
    simp only [Spec.cfbEnc, List.flatten_cons, ha, Nat.mod_self, cfbFb, if_true]
    rw [← ha, hd, List.append_nil, ha, ih _ (by simp [xorBytes_length, ha, hFl])]

/-- **CFB decryption = SP 800-38A §6.3** -/
theorem cfbDec_eq_spec (F : Bytes → Bytes) (bs : Nat) (hbs : 0 < bs)
    (hF : ∀ b, b.length = bs → (F b).length = bs) (msg : Bytes) : ∀ iv : Bytes, iv.length = bs →
    (cfbLoop F bs false ⟨iv, 0⟩ msg).1 = (Spec.cfbDec F iv (chunks bs msg)).flatten := by
  refine stream_induction bs hbs
    (fun msg => ∀ iv : Bytes, iv.length = bs →
      (cfbLoop F bs false ⟨iv, 0⟩ msg).1 = (Spec.cfbDec F iv (chunks bs msg)).flatten) ?_ ?_ msg
  · intro l hl iv hiv
    by_cases h0 : l = []
    · subst h0; simp [cfbLoop, chunks_nil, Spec.cfbDec]
    · rw [cfb_block F bs false iv (hF iv hiv) l h0 hl, chunks_short bs l h0 hl]
      simp [Spec.cfbDec]
  · intro a rest ha hr ih iv hiv
    have hFl := hF iv hiv
    rw [cfbLoop_append, cfb_block F bs false iv hFl a (by intro h; subst h; simp at ha; omega) (by omega),
      chunks_cons bs hbs a rest ha]
    have hd : (F iv).drop a.length = [] := List.drop_of_length_le (by omega)
    simp only [Spec.cfbDec, List.flatten_cons, ha, Nat.mod_self, cfbFb]
    rw [← ha, hd, ha]
    simp only [Bool.false_eq_true, if_false, List.append_nil]
    rw [ih _ ha]

end MgProof.C12
